import Nstd.Seq.LemmasPtrSortAny
/-
  The heap-level quicksort writes `value` fields of items of the chain ONLY: every address that is not one of the
  chain's items (the sentinel, the items on the free list — destroyed objects in C++ —, unallocated addresses) keeps its
  `value`.  Same induction as `ploopP_sim` / `qsortP_sim`, carrying the frame instead of the view.
-/
namespace Nstd.Seq.Ptr

/-- `p'` and `p` agree on the `value` of every address outside `xs` -/
def ValFrame (xs : List Nat) (p' p : PList) : Prop := ∀ a, a ∉ xs → p'.val a = p.val a

theorem valFrame_refl (xs : List Nat) (p : PList) : ValFrame xs p p := fun _ _ => rfl
theorem valFrame_trans {xs : List Nat} {a b c : PList} (h1 : ValFrame xs a b) (h2 : ValFrame xs b c) : ValFrame xs a c :=
  fun x hx => (h1 x hx).trans (h2 x hx)

theorem getD_mem (xs : List Nat) (i : Nat) (h : i < xs.length) : xs.getD i 0 ∈ xs := by
  rw [getD_of_lt xs i h]; exact List.getElem_mem h

theorem valFrame_swapVal (xs : List Nat) (p : PList) (i j : Nat) (hi : i < xs.length) (hj : j < xs.length) :
    ValFrame xs (swapVal p (xs.getD i 0) (xs.getD j 0)) p := by
  intro a ha
  have n1 : a ≠ xs.getD i 0 := fun e => ha (e ▸ getD_mem xs i hi)
  have n2 : a ≠ xs.getD j 0 := fun e => ha (e ▸ getD_mem xs j hj)
  show set (set p.val (xs.getD i 0) (p.val (xs.getD j 0))) (xs.getD j 0) (p.val (xs.getD i 0)) a = p.val a
  rw [set_ne _ _ _ _ n2, set_ne _ _ _ _ n1]

theorem ploopP_frame (xs : List Nat) (lt : Int → Int → Bool) (l r : Nat) (hl : l < xs.length) (hr : r < xs.length) :
    ∀ (n fuel : Nat) (p : PList) (m : List Int) (p0 p1 p2 : Nat), View p xs m → n ≤ fuel → p2 + (n + 1) = r →
      p1 ≤ p2 →
      ∀ R, ploopP lt (xs.getD l 0) (xs.getD r 0) (fuel + 1) p (xs.getD p0 0) (xs.getD p1 0) (xs.getD p2 0) = some R →
        ValFrame xs R.heap p := by
  intro n
  induction n with
  | zero =>
    intro fuel p m p0 p1 p2 hv _ hp2 h12 R hR
    have hnext2 := hv.links p2 (by omega)
    have e2 : ¬ (xs.getD (p2 + 1) 0 ≠ xs.getD r 0) := by rw [show p2 + 1 = r by omega]; simp
    have hval2 := hv.vals (p2 + 1) (by omega)
    have hvall := hv.vals l hl
    unfold ploopP at hR
    simp only [hnext2, hval2, hvall] at hR
    by_cases c : lt (rd m (p2 + 1)) (rd m l) = true
    · have hnext1 := hv.links p1 (by omega)
      simp only [c, if_true, hnext1, e2, if_false, Option.some.injEq] at hR
      rw [← hR]
      exact valFrame_swapVal xs p (p1 + 1) (p2 + 1) (by omega) (by omega)
    · simp only [c, if_false, e2, Bool.false_eq_true, Option.some.injEq] at hR
      rw [← hR]
      exact valFrame_refl xs p
  | succ n ih =>
    intro fuel p m p0 p1 p2 hv hfuel hp2 h12 R hR
    cases fuel with
    | zero => omega
    | succ fuel =>
      have hnext2 := hv.links p2 (by omega)
      have ne2 : xs.getD (p2 + 1) 0 ≠ xs.getD r 0 := by
        intro e; have := hv.inj (p2 + 1) r (by omega) hr e; omega
      have hval2 := hv.vals (p2 + 1) (by omega)
      have hvall := hv.vals l hl
      rw [ploopP] at hR
      simp only [hnext2, hval2, hvall] at hR
      by_cases c : lt (rd m (p2 + 1)) (rd m l) = true
      · have hnext1 := hv.links p1 (by omega)
        simp only [c, if_true, hnext1, ne2, ne_eq, not_false_eq_true] at hR
        have := ih fuel (swapVal p (xs.getD (p1 + 1) 0) (xs.getD (p2 + 1) 0)) (swp m (p1 + 1) (p2 + 1))
          p1 (p1 + 1) (p2 + 1) (view_swapVal p xs m hv (p1 + 1) (p2 + 1) (by omega) (by omega)) (by omega) (by omega) (by omega) R hR
        exact valFrame_trans this (valFrame_swapVal xs p (p1 + 1) (p2 + 1) (by omega) (by omega))
      · simp only [c, if_false, ne2, ne_eq, not_false_eq_true, if_true, Bool.false_eq_true] at hR
        exact ih fuel p m p0 p1 (p2 + 1) hv (by omega) (by omega) (by omega) R hR

theorem qsortP_frame (xs : List Nat) (lt : Int → Int → Bool) :
    ∀ (f : Nat) (p : PList) (m : List Int) (l r : Nat), View p xs m → l < r → r < xs.length → r - l < f →
      ∀ p', qsortP lt f p (xs.getD l 0) (xs.getD r 0) = some p' → ValFrame xs p' p := by
  intro f
  induction f with
  | zero => intro p m l r _ _ _ h; omega
  | succ f ih =>
    intro p m l r hv hlr hr hf p' hq
    have hl : l < xs.length := by omega
    have hn : r - l = (r - l - 1) + 1 := by omega
    have inv0 : PInv lt l m l l l :=
      ⟨Nat.le_refl _, Nat.le_refl _, Or.inl ⟨rfl, rfl⟩, fun k h1 h2 => by omega, fun k h1 h2 => by omega⟩
    obtain ⟨pi, pw, _⟩ := ploop_spec lt l (r - l) m l l l (by rw [hv.len]; omega) inv0
    have e : l + (r - l) = r := by omega
    rw [e] at pi pw
    obtain ⟨ph, e1, v1, s1⟩ := ploopP_sim xs lt l r hl hr (r - l - 1) f p m l l l hv (by omega) (by omega) (Nat.le_refl _)
    have fr1 := ploopP_frame xs lt l r hl hr (r - l - 1) f p m l l l hv (by omega) (by omega) (Nat.le_refl _) _ e1
    simp only at fr1
    rw [← hn] at e1 v1
    -- the position-level run exists (any comparison function)
    obtain ⟨m', hm', _⟩ := qsortF_rel lt (fun _ _ => True) (ord3_true lt) (f + 1) m l r hlr (by rw [hv.len]; exact hr) hf
    rw [qsortF] at hm'
    rw [qsortP, e1] at hq
    generalize ploop lt l (r - l) m l l l = R at pi pw v1 hq hm'
    simp only at hq
    have b1 : R.p1 ≤ r := pi.h2
    have b1' : l ≤ R.p1 := pi.h1
    have b0 : R.p0 ≤ r := by rcases pi.h0 with ⟨a, b⟩ | ⟨a, b⟩ <;> omega
    have v2 := view_swapVal ph xs R.mem v1 l R.p1 hl (by omega)
    have fr2 : ValFrame xs (swapVal ph (xs.getD l 0) (xs.getD R.p1 0)) p :=
      valFrame_trans (valFrame_swapVal xs ph l R.p1 hl (by omega)) fr1
    generalize swapVal ph (xs.getD l 0) (xs.getD R.p1 0) = h1 at v2 fr2 hq
    generalize swp R.mem l R.p1 = m1 at v2 hm'
    have hq1 : (if xs.getD R.p1 0 ≠ xs.getD r 0 then h1.next (xs.getD R.p1 0) else some (xs.getD R.p1 0)) =
        some (xs.getD (if R.p1 ≠ r then R.p1 + 1 else R.p1) 0) := by
      by_cases c : R.p1 = r
      · simp [c]
      · have : xs.getD R.p1 0 ≠ xs.getD r 0 := fun e => c (v2.inj _ _ (by omega) hr e)
        simp only [this, ne_eq, not_false_eq_true, if_true, c]
        exact v2.links R.p1 (by omega)
    rw [hq1] at hq
    simp only at hq
    -- left part
    have hleft : ∃ m2 h2, (if l ≠ R.p0 then qsortF lt f m1 l R.p0 else some m1) = some m2 ∧
        (if xs.getD l 0 ≠ xs.getD R.p0 0 then qsortP lt f h1 (xs.getD l 0) (xs.getD R.p0 0) else some h1) = some h2 ∧
        View h2 xs m2 ∧ ValFrame xs h2 p := by
      by_cases c : l = R.p0
      · refine ⟨m1, h1, by simp [c], ?_, v2, fr2⟩
        rw [← c]; simp
      · have cne : xs.getD l 0 ≠ xs.getD R.p0 0 := fun e => c (v2.inj _ _ hl (by omega) e)
        cases hm2 : qsortF lt f m1 l R.p0 with
        | none => simp [c, hm2] at hm'
        | some m2 =>
          have hlt : l < R.p0 := by rcases pi.h0 with ⟨a, b⟩ | ⟨a, b⟩ <;> omega
          have hp0 : R.p0 < r := by rcases pi.h0 with ⟨a, b⟩ | ⟨a, b⟩ <;> omega
          obtain ⟨h2, q1, q2, _⟩ := qsortP_sim xs lt f h1 m1 l R.p0 v2 hlt (by omega) (by omega) m2 hm2
          have q4 := ih h1 m1 l R.p0 v2 hlt (by omega) (by omega) h2 q1
          exact ⟨m2, h2, by simp [c], by simp only [cne, ne_eq, not_false_eq_true, if_true]; exact q1, q2,
            valFrame_trans q4 fr2⟩
    obtain ⟨m2, h2, g1, g2, v3, fr3⟩ := hleft
    rw [g1] at hm'
    rw [g2] at hq
    simp only at hq hm'
    by_cases c : (if R.p1 ≠ r then R.p1 + 1 else R.p1) = r
    · have : ¬ (xs.getD (if R.p1 ≠ r then R.p1 + 1 else R.p1) 0 ≠ xs.getD r 0) := by rw [c]; simp
      simp only [this, if_false, Option.some.injEq] at hq
      rw [← hq]; exact fr3
    · have hp : (if R.p1 ≠ r then R.p1 + 1 else R.p1) < r := by
        by_cases c2 : R.p1 = r
        · simp [c2] at c
        · simp only [c2, ne_eq, not_false_eq_true, if_true] at c ⊢; omega
      have hgt : l < (if R.p1 ≠ r then R.p1 + 1 else R.p1) := by
        by_cases c2 : R.p1 = r
        · simp [c2] at c
        · simp only [c2, ne_eq, not_false_eq_true, if_true]; omega
      have cne : xs.getD (if R.p1 ≠ r then R.p1 + 1 else R.p1) 0 ≠ xs.getD r 0 :=
        fun e => c (v3.inj _ _ (by omega) hr e)
      simp only [cne, ne_eq, not_false_eq_true, if_true] at hq
      exact valFrame_trans (ih h2 m2 _ r v3 hp hr (by omega) p' hq) fr3

/-- `sort()` (any comparison function) leaves the `value` of every address outside the chain untouched -/
theorem sortP_frame (lt : Int → Int → Bool) (p p' : PList) (xs fs : List Nat) (s : LState) (h : Rep p xs fs s)
    (hs : sortP lt p = some p') : ValFrame xs p' p := by
  have hv := view_of_rep p xs fs s h
  by_cases hlen : xs.length < 2
  · have : sortP lt p = some p := by
      unfold sortP
      rw [h.endp]
      match xs, hlen with
      | [], _ => rfl
      | [x], _ => simp [lastOr, h.beg]
    rw [this] at hs; cases hs; exact valFrame_refl xs p
  · have hne : xs ≠ [] := by intro e; rw [e] at hlen; simp at hlen
    have hb : p.begin = xs.getD 0 0 := by
      rw [h.beg]; cases xs with
      | nil => exact absurd rfl hne
      | cons x xs => rfl
    unfold sortP at hs
    rw [h.endp, lastOr_getD xs hne] at hs
    simp only at hs
    have : ¬ (p.begin = xs.getD (xs.length - 1) 0) := by
      rw [hb]; intro e'
      have := hv.inj 0 (xs.length - 1) (by omega) (by omega) e'
      omega
    simp only [this, if_false] at hs
    rw [hb, h.sz] at hs
    exact qsortP_frame xs lt xs.length p s.vals 0 (xs.length - 1) hv (by omega) (by omega) (by omega) p' hs

end Nstd.Seq.Ptr
