import Nstd.Seq.LemmasArr
/-
  Helper lemmas for PropsArr.lean, part 2: the translated `reserve(usize)` / `reserve(usize, const T*)` as building blocks
  of `append` / `resize`.
-/
set_option linter.unusedSimpArgs false
set_option linter.unusedVariables false
namespace Nstd.Seq.AM
open Nstd.Seq.Raw
open Nstd.Generated

theorem pdiff_rep (M : Mem) (A : Arr) (r : RArr) (h : Rep M A r) : pdiff A.end_ A.begin = some r.n := by
  obtain ⟨_, hrep⟩ := h
  cases hc : r.cells with
  | none => rw [hc] at hrep; simp [pdiff, hrep.1, hrep.2.1, hrep.2.2]
  | some cs =>
    rw [hc] at hrep
    obtain ⟨b, _, hb, he, _⟩ := hrep
    simp [pdiff, hb, he]

variable [ArrCfg]

theorem reserve_n (M : Mem) (A : Arr) (r r1 : RArr) (h : Rep M A r) (size : Nat) (hr : Raw.reserve r size = some r1) :
    r1.n = r.n := by
  obtain ⟨_, hrep⟩ := h
  unfold Raw.reserve at hr
  split at hr
  · cases hc : r.cells with
    | none =>
      rw [hc] at hrep
      simp only [hc] at hr
      cases hr; exact hrep.2.2.symm
    | some old =>
      simp only [hc] at hr
      split at hr
      · cases hr; rfl
      · cases hr
  · cases hr; rfl

theorem reserve_sim (M : Mem) (A : Arr) (r : RArr) (h : Rep M A r) (size fuel : Nat) (hf : r.n < fuel) :
    Sim M A (SeqArr.reserve fuel M A size) (Raw.reserve r size) := by
  obtain ⟨hcap, hrep⟩ := h
  unfold SeqArr.reserve SeqArr.grow Raw.reserve
  simp only [needGrow_iff]
  cases hc : r.cells with
  | none =>
    rw [hc] at hrep
    obtain ⟨hb, he, hn⟩ := hrep
    simp only [hb, hcap, Option.isNone_none, Option.isSome_none, true_and]
    by_cases hg : size > r.cap ∨ size > 0
    · simp only [hg, if_true, Bool.false_eq_true, if_false, Sim, allocPtr, alloc]
      refine ⟨⟨rfl, ?_⟩, by simp, ?_, ?_⟩
      · simp only []
        exact ⟨M.brk, by simp, rfl, rfl, by simp [upd_same]⟩
      · intro b hb _
        simp [upd_ne _ _ _ _ (Nat.ne_of_lt hb)]
      · rintro b ⟨i, hi⟩
        simp only [Option.some.injEq, Prod.mk.injEq] at hi
        exact Or.inr (by omega)
    · simp only [hg, if_false]
      exact sim_refl M A r ⟨hcap, by rw [hc]; exact ⟨hb, he, hn⟩⟩
  | some old =>
    rw [hc] at hrep
    obtain ⟨b, hbk, hb, he, hblk⟩ := hrep
    simp only [hb, he, hcap, Option.isNone_some, Option.isSome_some, Bool.false_eq_true, false_and, or_false, if_true]
    by_cases hg : size > r.cap
    · simp only [hg, if_true, allocPtr, alloc]
      have hne : b ≠ M.brk := Nat.ne_of_lt hbk
      have key := reserve_loop1_spec
        { begin := some (b, 0), end_ := some (b, r.n), cap := size ||| ArrCfg.mask } size (some (M.brk, 0)) b M.brk r.n hne old
        r.n 0 fuel
        { blocks := upd M.blocks M.brk (some (List.replicate (size ||| ArrCfg.mask) none)), brk := M.brk + 1 } old
        (List.replicate (size ||| ArrCfg.mask) none) (by omega) hf
        (by simp [upd_ne _ _ _ _ hne, hblk]) (by simp [upd_same]) (fun _ _ => rfl)
      cases hm : moveLoop old (List.replicate (size ||| ArrCfg.mask) none) 0 r.n with
      | none => simp only [key.1 hm, Sim]
      | some new' =>
        obtain ⟨M', e1, e2, e3, e4, e5⟩ := key.2 new' hm
        simp only [e1, del, e3, and_self, if_true, Sim]
        refine ⟨⟨rfl, ?_⟩, by simp [e4], ?_, ?_⟩
        · simp only []
          exact ⟨M.brk, by simp [e4], rfl, rfl, by simp [upd_ne _ _ _ _ (Ne.symm hne), e2]⟩
        · intro b' hb' hown
          have h1 : b' ≠ b := fun e => hown ⟨0, by rw [e]; exact hb⟩
          have h2 : b' ≠ M.brk := Nat.ne_of_lt hb'
          simp [upd_ne _ _ _ _ h1, e5 b' h1 h2, upd_ne _ _ _ _ h2]
        · rintro b' ⟨i, hi⟩
          simp only [Option.some.injEq, Prod.mk.injEq] at hi
          exact Or.inr (by omega)
    · simp only [hg, if_false]
      exact sim_refl M A r ⟨hcap, by rw [hc]; exact ⟨b, hbk, hb, he, hblk⟩⟩


/-- `reserve_sim`, unpacked -/
theorem reserve_run (M : Mem) (A : Arr) (r : RArr) (h : Rep M A r) (size fuel : Nat) (hf : r.n < fuel) :
    (Raw.reserve r size = none ∧ SeqArr.reserve fuel M A size = none) ∨
    ∃ M1 A1 r1, Raw.reserve r size = some r1 ∧ SeqArr.reserve fuel M A size = some (M1, A1) ∧ Rep M1 A1 r1 ∧
      M.brk ≤ M1.brk ∧ (∀ b, b < M.brk → ¬ own A b → M1.blocks b = M.blocks b) ∧
      (∀ b, own A1 b → own A b ∨ M.brk ≤ b) ∧ r1.n = r.n := by
  have hs := reserve_sim M A r h size fuel hf
  cases h1 : SeqArr.reserve fuel M A size with
  | none =>
    cases h2 : Raw.reserve r size with
    | none => exact Or.inl ⟨rfl, rfl⟩
    | some r1 => rw [h1, h2] at hs; exact hs.elim
  | some t =>
    obtain ⟨M1, A1⟩ := t
    cases h2 : Raw.reserve r size with
    | none => rw [h1, h2] at hs; exact hs.elim
    | some r1 =>
      rw [h1, h2] at hs
      exact Or.inr ⟨M1, A1, r1, rfl, rfl, hs.1, hs.2.1, hs.2.2.1, hs.2.2.2, reserve_n M A r r1 h size h2⟩

/-- `reserve(size, ref)` with `ref` outside the array's storage: `reserve(size)`, `ref` handed back -/
theorem reserve2_out (M : Mem) (A : Arr) (r : RArr) (h : Rep M A r) (bv j : Nat) (hnot : ¬ own A bv) (size fuel : Nat) :
    SeqArr.reserve2 fuel M A size (some (bv, j)) =
      (SeqArr.reserve fuel M A size).map (fun t => (t.1, t.2, some (bv, j))) := by
  obtain ⟨_, hrep⟩ := h
  have hc : (pge (some (bv, j)) A.begin && plt (some (bv, j)) A.end_) = false := by
    cases hc : r.cells with
    | none => rw [hc] at hrep; simp [pge, plt, hrep.1, hrep.2.1]
    | some cs =>
      rw [hc] at hrep
      obtain ⟨b, _, hb, he, _⟩ := hrep
      have : bv ≠ b := fun e => hnot ⟨0, by rw [e]; exact hb⟩
      simp only [pge, plt, hb, he, Bool.and_eq_false_iff, Bool.not_eq_false', decide_eq_true_eq, decide_eq_false_iff_not]
      omega
  unfold SeqArr.reserve2
  first
  | (simp only [hc, Bool.false_eq_true, if_false]
     cases SeqArr.reserve fuel M A size <;> rfl)
  | -- the shape with an early return when no storage is needed and a direct call of the growth helper
    (unfold SeqArr.reserve
     by_cases hg : needGrow A size = true
     · simp only [hg, hc, Bool.not_true, Bool.false_eq_true, if_false, if_true]
       cases SeqArr.grow fuel M A size <;> rfl
     · simp [hg])

/-- `reserve(size, &a[i])`: `reserve(size)`, then the pointer to element `i` of the (possibly new) storage -/
theorem reserve2_in (M : Mem) (A : Arr) (r : RArr) (h : Rep M A r) (b i : Nat) (hb : A.begin = some (b, 0)) (hi : i < r.n)
    (size fuel : Nat) :
    SeqArr.reserve2 fuel M A size (some (b, i)) =
      (SeqArr.reserve fuel M A size).bind (fun t => (padd t.2.begin i).map (fun p => (t.1, t.2, p))) := by
  obtain ⟨_, hrep⟩ := h
  cases hcs : r.cells with
  | none => rw [hcs] at hrep; rw [hrep.1] at hb; cases hb
  | some cs =>
    rw [hcs] at hrep
    obtain ⟨b0, _, hb0, he, _⟩ := hrep
    have : b0 = b := by rw [hb0] at hb; cases hb; rfl
    subst this
    have hc : (pge (some (b0, i)) A.begin && plt (some (b0, i)) A.end_) = true := by
      simp [pge, plt, hb, he, hi]
    unfold SeqArr.reserve2
    first
    | (rw [if_pos hc]
       simp only [hb, pdiff, and_self, Nat.zero_le, Nat.sub_zero, if_true]
       cases SeqArr.reserve fuel M A size with
       | none => rfl
       | some t =>
         simp only [Option.bind_some]
         cases padd t.2.begin i <;> rfl)
    | (unfold SeqArr.reserve
       by_cases hg : needGrow A size = true
       · simp only [hg, Bool.not_true, Bool.false_eq_true, if_false, if_true]
         rw [if_pos hc]
         simp only [hb, pdiff, and_self, Nat.zero_le, Nat.sub_zero, if_true]
         cases SeqArr.grow fuel M A size with
         | none => rfl
         | some t =>
           simp only [Option.bind_some]
           cases padd t.2.begin i <;> rfl
       · simp [hg, hb, padd])

theorem reserve_cells_some (r r1 : RArr) (cs : Cells) (hc : r.cells = some cs) (size : Nat)
    (hr : Raw.reserve r size = some r1) : ∃ cs1, r1.cells = some cs1 := by
  unfold Raw.reserve at hr
  split at hr
  · simp only [hc] at hr
    split at hr
    · cases hr; exact ⟨_, rfl⟩
    · cases hr
  · cases hr; exact ⟨cs, hc⟩

/-- no reallocation needed (storage exists, `size ≤ _capacity`): `reserve(size)` does nothing, in the translation and in the model -/
theorem reserve_noop (M : Mem) (A : Arr) (r : RArr) (h : Rep M A r) (size fuel : Nat) (hb : A.begin.isSome = true)
    (hs : size ≤ A.cap) : SeqArr.reserve fuel M A size = some (M, A) ∧ Raw.reserve r size = some r := by
  obtain ⟨hcap, hrep⟩ := h
  have hcs : r.cells.isNone = false := by
    cases hc : r.cells with
    | none => rw [hc] at hrep; rw [hrep.1] at hb; cases hb
    | some cs => rfl
  have hbn : A.begin.isNone = false := by cases hA : A.begin <;> simp_all
  constructor
  · unfold SeqArr.reserve
    have : needGrow A size = false := by simp [needGrow, hbn]; omega
    simp [this]
  · unfold Raw.reserve
    have : ¬ (size > r.cap ∨ (r.cells.isNone = true ∧ size > 0)) := by simp [hcs]; omega
    simp only [this, if_false]

end Nstd.Seq.AM
