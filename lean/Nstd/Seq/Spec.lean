import Nstd.Seq.Model
/-
  The reference sequences of property C03: six plain `List Int` (two List, two PoolList, two Array
  variables) and what every operation of the protocol does to them and returns, written with the
  list functions of Lean core only (`take`, `drop`, `++`, `eraseIdx`, `erase`, `idxOf`, `head?`,
  `getLast?`, `replicate`, `mergeSort`).  No node ids, free lists, capacities or storage.
-/
namespace Nstd.Seq

structure Abs where
  l0 : List Int := []
  l1 : List Int := []
  p0 : List Int := []
  p1 : List Int := []
  a0 : List Int := []
  a1 : List Int := []
deriving DecidableEq, Repr

namespace Abs
def getL (s : Abs) (v : Nat) : List Int := if v = 0 then s.l0 else s.l1
def setL (s : Abs) (v : Nat) (x : List Int) : Abs := if v = 0 then { s with l0 := x } else { s with l1 := x }
def getP (s : Abs) (v : Nat) : List Int := if v = 0 then s.p0 else s.p1
def setP (s : Abs) (v : Nat) (x : List Int) : Abs := if v = 0 then { s with p0 := x } else { s with p1 := x }
def getA (s : Abs) (v : Nat) : List Int := if v = 0 then s.a0 else s.a1
def setA (s : Abs) (v : Nat) (x : List Int) : Abs := if v = 0 then { s with a0 := x } else { s with a1 := x }
end Abs

namespace Spec

/-- result of an operation on one sequence: the new sequence and the returned position / value -/
abbrev R := Option (List Int × Option Int)

/-- insert the values `ys` in front of position `pos`; the returned iterator designates the first
    inserted element (or `pos` itself when `ys` is empty) -/
def insert (xs : List Int) (pos : Nat) (ys : List Int) : R :=
  if pos ≤ xs.length then some (xs.take pos ++ ys ++ xs.drop pos, some pos) else none

/-- remove the element at `pos`; the returned iterator designates its successor (now at `pos`) -/
def remove (xs : List Int) (pos : Nat) : R :=
  if pos < xs.length then some (xs.eraseIdx pos, some pos) else none

/-- remove the first element equal to `x`, if any -/
def removeValue (xs : List Int) (x : Int) : R := some (xs.erase x, none)

def removeFront (xs : List Int) : R := remove xs 0
def removeBack (xs : List Int) : R := if xs.length = 0 then none else remove xs (xs.length - 1)

/-- position of the first element equal to `x`, `length` (= `end()`) if there is none -/
def find (xs : List Int) (x : Int) : R := some (xs, some (xs.idxOf x))

def front (xs : List Int) : R := xs.head?.map (fun v => (xs, some v))
def back (xs : List Int) : R := xs.getLast?.map (fun v => (xs, some v))
def get (xs : List Int) (i : Nat) : R := xs[i]?.map (fun v => (xs, some v))

/-- the ascending permutation -/
def sort (xs : List Int) : R := some (xs.mergeSort (fun a b => decide (a ≤ b)), none)

def resize (xs : List Int) (n : Nat) (x : Int) : R :=
  some (if n < xs.length then xs.take n else xs ++ List.replicate (n - xs.length) x, none)

def noRet (r : R) : R := r.map (fun p => (p.1, none))
def const (xs : List Int) : R := some (xs, none)

def liftL (s : Abs) (v : Nat) (r : R) : Option (Abs × Option Int) := r.map (fun p => (s.setL v p.1, p.2))
def liftP (s : Abs) (v : Nat) (r : R) : Option (Abs × Option Int) := r.map (fun p => (s.setP v p.1, p.2))
def liftA (s : Abs) (v : Nat) (r : R) : Option (Abs × Option Int) := r.map (fun p => (s.setA v p.1, p.2))

/-- what an operation does to the reference sequences and what it returns; `none` = the operation's
    precondition does not hold -/
def step (s : Abs) (op : Op) : Option (Abs × Option Int) :=
  let o (v : Nat) := 1 - v
  match op with
  | .lappend v x => if v < 2 then liftL s v (insert (s.getL v) (s.getL v).length [x]) else none
  | .lprepend v x => if v < 2 then liftL s v (insert (s.getL v) 0 [x]) else none
  | .linsert v pos x => if v < 2 then liftL s v (insert (s.getL v) pos [x]) else none
  | .linsertl v pos => if v < 2 then liftL s v (insert (s.getL v) pos (s.getL (o v))) else none
  | .lappendl v => if v < 2 then liftL s v (const (s.getL v ++ s.getL (o v))) else none
  | .lprependl v => if v < 2 then liftL s v (const (s.getL (o v) ++ s.getL v)) else none
  | .lremove v pos => if v < 2 then liftL s v (remove (s.getL v) pos) else none
  | .lremovev v x => if v < 2 then liftL s v (removeValue (s.getL v) x) else none
  | .lremoveFront v => if v < 2 then liftL s v (removeFront (s.getL v)) else none
  | .lremoveBack v => if v < 2 then liftL s v (removeBack (s.getL v)) else none
  | .lclear v => if v < 2 then liftL s v (const []) else none
  | .lswap v => if v < 2 then some ((s.setL v (s.getL (o v))).setL (o v) (s.getL v), none) else none
  | .lcopy v => if v < 2 then liftL s v (const (s.getL (o v))) else none
  | .lassign v => if v < 2 then liftL s v (const (s.getL (o v))) else none
  | .lfind v x => if v < 2 then liftL s v (find (s.getL v) x) else none
  | .leq v w => if v < 2 ∧ w < 2 then some (s, some (if s.getL v = s.getL w then 1 else 0)) else none
  | .lfront v => if v < 2 then liftL s v (front (s.getL v)) else none
  | .lback v => if v < 2 then liftL s v (back (s.getL v)) else none
  | .lsort v => if v < 2 then liftL s v (sort (s.getL v)) else none
  | .pappend v x => if v < 2 then liftP s v (insert (s.getP v) (s.getP v).length [x]) else none
  | .premove v pos => if v < 2 then liftP s v (remove (s.getP v) pos) else none
  | .premovev v pos => if v < 2 then liftP s v (noRet (remove (s.getP v) pos)) else none
  | .premoveFront v => if v < 2 then liftP s v (removeFront (s.getP v)) else none
  | .premoveBack v => if v < 2 then liftP s v (removeBack (s.getP v)) else none
  | .pclear v => if v < 2 then liftP s v (const []) else none
  | .pswap v => if v < 2 then some ((s.setP v (s.getP (o v))).setP (o v) (s.getP v), none) else none
  | .pfront v => if v < 2 then liftP s v (front (s.getP v)) else none
  | .pback v => if v < 2 then liftP s v (back (s.getP v)) else none
  | .anew v => if v < 2 then liftA s v (const []) else none
  | .anewcap v _ => if v < 2 then liftA s v (const []) else none
  | .acopy v => if v < 2 then liftA s v (const (s.getA (o v))) else none
  | .aassign v => if v < 2 then liftA s v (const (s.getA (o v))) else none
  | .areserve v _ => if v < 2 then liftA s v (const (s.getA v)) else none
  | .aresize v n x => if v < 2 then liftA s v (resize (s.getA v) n x) else none
  | .aappend v x => if v < 2 then liftA s v (insert (s.getA v) (s.getA v).length [x]) else none
  | .aappenda v => if v < 2 then liftA s v (const (s.getA v ++ s.getA (o v))) else none
  | .aappendn v xs => if v < 2 then liftA s v (const (s.getA v ++ xs)) else none
  | .aremovei v i => if v < 2 then liftA s v (const ((s.getA v).eraseIdx i)) else none
  | .aremove v pos => if v < 2 then liftA s v (remove (s.getA v) pos) else none
  | .aremoveFront v => if v < 2 then liftA s v (removeFront (s.getA v)) else none
  | .aremoveBack v => if v < 2 then liftA s v (removeBack (s.getA v)) else none
  | .aclear v => if v < 2 then liftA s v (const []) else none
  | .aswap v => if v < 2 then some ((s.setA v (s.getA (o v))).setA (o v) (s.getA v), none) else none
  | .afind v x => if v < 2 then liftA s v (find (s.getA v) x) else none
  | .aget v i => if v < 2 then liftA s v (get (s.getA v) i) else none
  | .afront v => if v < 2 then liftA s v (front (s.getA v)) else none
  | .aback v => if v < 2 then liftA s v (back (s.getA v)) else none
  -- the container itself / a reference into it as argument: as if the argument had been copied first
  | .lappendself v => if v < 2 then liftL s v (const (s.getL v ++ s.getL v)) else none
  | .lprependself v => if v < 2 then liftL s v (const (s.getL v ++ s.getL v)) else none
  | .linsertself v pos => if v < 2 then liftL s v (insert (s.getL v) pos (s.getL v)) else none
  | .lassignself v => if v < 2 then some (s, none) else none
  | .aappendself v => if v < 2 then liftA s v (const (s.getA v ++ s.getA v)) else none
  | .aappendref v i =>
    if v < 2 then liftA s v (match (s.getA v)[i]? with
      | some x => insert (s.getA v) (s.getA v).length [x]
      | none => none) else none
  | .aresizeref v n i =>
    if v < 2 then liftA s v (match (s.getA v)[i]? with
      | some x => resize (s.getA v) n x
      | none => none) else none
  | .aassignself v => if v < 2 then some (s, none) else none
  | .aappendsub v i n =>
    if v < 2 then liftA s v (if i + n ≤ (s.getA v).length then const (s.getA v ++ ((s.getA v).drop i).take n) else none)
    else none
  | .aresized v n => if v < 2 then liftA s v (resize (s.getA v) n 0) else none
  | .aeq v w => if v < 2 ∧ w < 2 then some (s, some (if s.getA v = s.getA w then 1 else 0)) else none

/-- run a history on the reference sequences (operations whose precondition fails are skipped) -/
def run (s : Abs) : List Op → Abs
  | [] => s
  | op :: ops =>
    match step s op with
    | some r => run r.1 ops
    | none => run s ops

/-- the values returned by the operations of a history (`none` = precondition failed) -/
def trace (s : Abs) : List Op → List (Option (Option Int))
  | [] => []
  | op :: ops =>
    match step s op with
    | some r => some r.2 :: trace r.1 ops
    | none => none :: trace s ops

end Spec

/-- the values returned by the operations of a history on the model -/
def trace [ArrCfg] (s : State) : List Op → List (Option (Option Int))
  | [] => []
  | op :: ops =>
    match step s op with
    | some r => some r.ret :: trace r.st ops
    | none => none :: trace s ops

/-- abstraction: the value sequences of the six containers -/
def absS (s : State) : Abs :=
  { l0 := s.l0.vals, l1 := s.l1.vals, p0 := s.p0.vals, p1 := s.p1.vals, a0 := s.a0.elems, a1 := s.a1.elems }

end Nstd.Seq
