import Nstd.Seq.Spec
import Nstd.Seq.LemmasSort
/-
  Refinement lemmas: every operation of the List/PoolList/Array models does to the value sequence
  what `Spec` says, and returns what `Spec` says.
-/
set_option linter.unusedSectionVars false
namespace Nstd.Seq

/-- projection of an operation result to what the property observes -/
def obsL (r : Option (Res LState)) : Spec.R := r.map (fun r => (r.st.vals, r.ret))
def obsA (r : Option (Res AState)) : Spec.R := r.map (fun r => (r.st.elems, r.ret))

namespace LState

theorem size_eq (s : LState) : s.size = s.vals.length := by simp [size, vals]

theorem allocNode_nodes (s : LState) : (allocNode s).2.1.nodes = s.nodes := by
  unfold allocNode; split <;> rfl

theorem vals_insertRaw (s : LState) (pos : Nat) (v : Int) :
    (s.insertRaw pos v).1.vals = s.vals.take pos ++ v :: s.vals.drop pos := by
  simp [insertRaw, vals, allocNode_nodes]

theorem insert_refines (s : LState) (pos : Nat) (v : Int) :
    obsL (s.insert pos v) = Spec.insert s.vals pos [v] := by
  unfold insert Spec.insert obsL
  rw [← size_eq]
  by_cases h : pos ≤ s.size
  · simp [h, vals_insertRaw]
  · simp [h]

theorem vals_insertMany (vs : List Int) : ∀ (s : LState) (pos : Nat), pos ≤ s.size →
    (s.insertMany pos vs).1.vals = s.vals.take pos ++ vs ++ s.vals.drop pos := by
  induction vs with
  | nil => intro s pos _; simp [insertMany]
  | cons v vs ih =>
    intro s pos h
    have h' : pos ≤ s.vals.length := by rw [← size_eq]; exact h
    have hs : pos + 1 ≤ (s.insertRaw pos v).1.size := by
      rw [size_eq, vals_insertRaw]; simp; omega
    simp only [insertMany]
    rw [ih _ _ hs, vals_insertRaw]
    have e1 : (List.take pos s.vals ++ v :: List.drop pos s.vals).take (pos + 1) = List.take pos s.vals ++ [v] := by
      have hm : min (pos + 1) pos = pos := by omega
      rw [List.take_append]; simp [Nat.min_eq_left h', List.take_take, hm]
    have e2 : (List.take pos s.vals ++ v :: List.drop pos s.vals).drop (pos + 1) = List.drop pos s.vals := by
      rw [List.drop_append]; simp [Nat.min_eq_left h']
    rw [e1, e2]; simp

theorem insertList_refines (s : LState) (pos : Nat) (vs : List Int) :
    obsL (s.insertList pos vs) = Spec.insert s.vals pos vs := by
  unfold insertList Spec.insert obsL
  rw [← size_eq]
  by_cases h : pos ≤ s.size
  · simp [h, vals_insertMany vs s pos h]
  · simp [h]

theorem remove_refines (s : LState) (pos : Nat) :
    obsL (s.remove pos) = Spec.remove s.vals pos := by
  unfold remove Spec.remove obsL
  rw [← size_eq]
  by_cases h : pos < s.size
  · have h' : pos < s.nodes.length := h
    simp [h, List.getElem?_eq_getElem h', vals, List.eraseIdx_eq_take_drop_succ]
  · have h' : s.nodes.length ≤ pos := Nat.le_of_not_lt h
    simp [h, List.getElem?_eq_none h']

theorem findPos_eq (s : LState) (v : Int) : s.findPos v = s.vals.idxOf v := rfl

theorem find_refines (s : LState) (v : Int) : obsL (s.find v) = Spec.find s.vals v := by
  simp [find, Spec.find, obsL, findPos_eq]

theorem removeValue_refines (s : LState) (v : Int) :
    obsL (s.removeValue v) = Spec.removeValue s.vals v := by
  have hr := remove_refines s (s.findPos v)
  unfold removeValue Spec.removeValue
  rw [List.erase_eq_eraseIdx_of_idxOf (findPos_eq s v).symm]
  by_cases h : s.findPos v = s.size
  · simp only [h, ne_eq, not_true_eq_false, if_false, obsL, Option.map_some]
    rw [size_eq, List.eraseIdx_eq_self.2 (Nat.le_refl _)]
  · have hlt : s.findPos v < s.vals.length := by
      have : s.findPos v ≤ s.vals.length := List.findIdx_le_length
      rw [size_eq] at h; omega
    simp only [Spec.remove, hlt, if_true] at hr
    simp only [h, ne_eq, not_false_eq_true, if_true]
    cases hq : s.remove (s.findPos v) with
    | none => rw [hq] at hr; simp [obsL] at hr
    | some r =>
      rw [hq] at hr
      simp only [obsL, Option.map_some, Option.some.injEq, Prod.mk.injEq] at hr
      simp [obsL, hr.1]

theorem removeFront_refines (s : LState) : obsL s.removeFront = Spec.removeFront s.vals :=
  remove_refines s 0

theorem removeBack_refines (s : LState) : obsL s.removeBack = Spec.removeBack s.vals := by
  unfold removeBack Spec.removeBack
  rw [← size_eq]
  by_cases h : s.size = 0
  · simp [h, obsL]
  · simp only [h, if_false]; rw [size_eq]; exact remove_refines s _

theorem vals_clear (s : LState) : s.clear.vals = [] := by simp [clear, vals]

theorem vals_appendAll (vs : List Int) : ∀ (s : LState), (s.appendAll vs).1.vals = s.vals ++ vs := by
  induction vs with
  | nil => intro s; simp [appendAll]
  | cons v vs ih =>
    intro s
    simp only [appendAll]
    rw [ih, vals_insertRaw, size_eq]
    simp

theorem front_refines (s : LState) : obsL s.front = Spec.front s.vals := by
  unfold front Spec.front obsL
  cases s.vals.head? <;> simp

theorem back_refines (s : LState) : obsL s.back = Spec.back s.vals := by
  unfold back Spec.back obsL
  cases s.vals.getLast? <;> simp

theorem vals_setVals : ∀ (ns : List (Nat × Int)) (vs : List Int), vs.length = ns.length →
    (setVals ns vs).map (·.2) = vs
  | [], [], _ => by simp [setVals]
  | [], _ :: _, h => by simp at h
  | _ :: _, [], h => by simp at h
  | (id, _) :: ns, v :: vs, h => by
    simp only [setVals, List.map_cons, List.cons.injEq, true_and]
    exact vals_setVals ns vs (by simpa using h)

theorem sort_refines (s : LState) : obsL s.sort = Spec.sort s.vals := by
  unfold sort Spec.sort obsL
  rw [sortVals_int]
  simp only [Option.map_some, vals]
  rw [vals_setVals]
  simp [List.length_mergeSort]

end LState

namespace AState
variable [ArrCfg]

/-- storage invariant of Array: the constructed elements fit into the allocation -/
def Ok (s : AState) : Prop :=
  match s.data with
  | none => True
  | some es => es.length ≤ s.cap

theorem ok_init : ({} : AState).Ok := trivial
theorem ok_newcap (n : Nat) : ({ cap := n } : AState).Ok := trivial

theorem size_le_cap (s : AState) (h : s.Ok) (hd : s.data.isSome) : s.size ≤ s.cap := by
  unfold Ok at h; unfold size elems
  cases hd' : s.data with
  | none => rw [hd'] at hd; simp at hd
  | some es => rw [hd'] at h; simpa using h

theorem elems_none (s : AState) (hd : s.data = none) : s.elems = [] := by simp [elems, hd]

theorem reserve_spec (s : AState) (n : Nat) (h : s.Ok) :
    (s.reserve n).1.elems = s.elems ∧ (s.reserve n).1.Ok ∧ n ≤ (s.reserve n).1.cap ∧
    s.cap ≤ (s.reserve n).1.cap ∧ ((0 < n ∨ s.data.isSome) → (s.reserve n).1.data.isSome) := by
  obtain ⟨cap, data⟩ := s
  have k1 : n ≤ n ||| ArrCfg.mask := Nat.left_le_or
  have k2 : cap ≤ cap ||| ArrCfg.mask := Nat.left_le_or
  cases data with
  | none =>
    by_cases c : n > cap
    · simp only [reserve, c, true_or, if_true, elems, Ok, Option.getD_none, Option.isSome_some,
        implies_true, and_true, true_and, List.length_nil, Nat.zero_le, Option.getD_some]
      omega
    · by_cases c0 : n > 0
      · simp only [reserve, c, c0, Option.isNone_none, and_self, or_true, if_true, if_false, elems, Ok,
          Option.getD_none, Option.isSome_some, implies_true, and_true, true_and, List.length_nil, Nat.zero_le,
          Option.getD_some]
        omega
      · have : n = 0 := by omega
        subst this
        simp [reserve, elems, Ok]
  | some es =>
    have hes : es.length ≤ cap := h
    by_cases c : n > cap
    · simp only [reserve, c, true_or, if_true, elems, Ok, Option.getD_some,
        Option.isSome_some, implies_true, and_true, true_and]
      omega
    · simp only [reserve, c, Option.isNone_some, Bool.false_eq_true, false_and, or_self, if_false,
        elems, Option.getD_some, Option.isSome_some, implies_true, and_true, true_and, Nat.le_refl]
      exact ⟨h, by omega⟩

theorem pushAll_spec (xs : List Int) : ∀ (s : AState), s.Ok → (s.data.isSome ∨ xs = []) →
    s.size + xs.length ≤ s.cap ∨ xs = [] →
    ∃ s', s.pushAll xs = some s' ∧ s'.elems = s.elems ++ xs ∧ s'.cap = s.cap ∧ s'.Ok ∧
      s'.data.isSome = s.data.isSome := by
  induction xs with
  | nil => intro s h _ _; exact ⟨s, rfl, by simp, rfl, h, rfl⟩
  | cons x xs ih =>
    intro s h hd hc
    cases hdata : s.data with
    | none => simp [hdata] at hd
    | some es =>
      have hc' : es.length + (xs.length + 1) ≤ s.cap := by
        rcases hc with hc | hc
        · simpa [size, elems, hdata] using hc
        · simp at hc
      have hlt : es.length < s.cap := by omega
      have hp : s.push x = some { s with data := some (es ++ [x]) } := by simp [push, hdata, hlt]
      have hok : ({ s with data := some (es ++ [x]) } : AState).Ok := by simp [Ok]; omega
      obtain ⟨s', e1, e2, e3, e4, e5⟩ := ih { s with data := some (es ++ [x]) } hok (Or.inl rfl)
        (Or.inl (by simp [size, elems]; omega))
      refine ⟨s', by simp only [pushAll, hp]; exact e1, ?_, e3, e4, by simpa using e5⟩
      rw [e2]; simp [elems, hdata]

theorem size_eq (s : AState) : s.size = s.elems.length := rfl

theorem grow_spec (s : AState) (h : s.Ok) (n : Nat) (xs : List Int) (hn : s.size + xs.length ≤ n)
    (hpos : xs ≠ [] → 0 < n) :
    ∃ s2, (s.reserve n).1.pushAll xs = some s2 ∧ s2.elems = s.elems ++ xs ∧ s2.Ok := by
  obtain ⟨r1, r2, r3, _, r5⟩ := reserve_spec s n h
  have hd : (s.reserve n).1.data.isSome ∨ xs = [] := by
    by_cases e : xs = []
    · exact Or.inr e
    · exact Or.inl (r5 (Or.inl (hpos e)))
  obtain ⟨s2, e1, e2, _, e4, _⟩ := pushAll_spec xs (s.reserve n).1 r2 hd
    (Or.inl (by rw [size_eq, r1, ← size_eq]; omega))
  exact ⟨s2, e1, by rw [e2, r1], e4⟩

theorem pushAll_single (s : AState) (x : Int) : s.pushAll [x] = s.push x := by
  simp only [pushAll]; cases s.push x <;> rfl

/-- an operation result matches the specification and keeps the storage invariant -/
def Good (r : Option (Res AState)) (spec : Spec.R) : Prop :=
  obsA r = spec ∧ ∀ x, r = some x → x.st.Ok

theorem append_good (s : AState) (h : s.Ok) (x : Int) :
    Good (s.append x) (Spec.insert s.elems s.elems.length [x]) := by
  obtain ⟨s2, e1, e2, e3⟩ := grow_spec s h (s.size + 1) [x] (by simp) (by intro _; omega)
  rw [pushAll_single] at e1
  unfold append Good
  simp only [e1, obsA, Option.map_some, Spec.insert, Nat.le_refl, if_true, e2, List.take_length,
    List.drop_length, List.append_nil, Option.some.injEq, forall_eq']
  exact ⟨rfl, e3⟩

theorem appendAll_good (s : AState) (h : s.Ok) (xs : List Int) :
    Good (s.appendAll xs) (Spec.const (s.elems ++ xs)) := by
  obtain ⟨s2, e1, e2, e3⟩ := grow_spec s h (s.size + xs.length) xs (Nat.le_refl _)
    (by intro hx; cases xs with | nil => exact absurd rfl hx | cons _ _ => simp only [List.length_cons]; omega)
  unfold appendAll Good
  simp only [e1, obsA, Option.map_some, Spec.const, e2, Option.some.injEq, forall_eq']
  exact ⟨trivial, e3⟩

theorem ok_shrink (s : AState) (h : s.Ok) (ys : List Int) (hy : ys.length ≤ s.elems.length) :
    ({ s with data := some ys } : AState).Ok := by
  obtain ⟨cap, data⟩ := s
  cases data with
  | none => simp [elems] at hy; simp [Ok, hy]
  | some es => have : es.length ≤ cap := h; simp [elems] at hy; simp [Ok]; omega

theorem resize_good (s : AState) (h : s.Ok) (n : Nat) (x : Int) :
    Good (s.resize n x) (Spec.resize s.elems n x) := by
  unfold resize Spec.resize Good
  rw [size_eq]
  by_cases c : n < s.elems.length
  · simp only [c, if_true, obsA, Option.map_some, Option.some.injEq, forall_eq']
    exact ⟨by simp [elems], ok_shrink s h _ (by simp; omega)⟩
  · obtain ⟨s2, e1, e2, e3⟩ := grow_spec s h n (List.replicate (n - s.elems.length) x)
      (by rw [size_eq]; simp; omega) (by intro hx; simp at hx; omega)
    simp only [c, if_false, e1, obsA, Option.map_some, e2, Option.some.injEq, forall_eq']
    exact ⟨trivial, e3⟩

theorem removeIdx_good (s : AState) (h : s.Ok) (i : Nat) :
    Good (s.removeIdx i) (Spec.const (s.elems.eraseIdx i)) := by
  unfold removeIdx Spec.const Good
  rw [size_eq]
  by_cases c : i < s.elems.length
  · simp only [c, if_true, obsA, Option.map_some, Option.some.injEq, forall_eq']
    exact ⟨by simp [elems, List.eraseIdx_eq_take_drop_succ],
      ok_shrink s h _ (by rw [← List.eraseIdx_eq_take_drop_succ, List.length_eraseIdx]; split <;> omega)⟩
  · simp only [c, if_false, obsA, Option.map_some, Option.some.injEq, forall_eq']
    exact ⟨by rw [List.eraseIdx_eq_self.2 (by omega)], h⟩

theorem removeIt_good (s : AState) (h : s.Ok) (i : Nat) :
    Good (s.removeIt i) (Spec.remove s.elems i) := by
  unfold removeIt Spec.remove Good
  rw [size_eq]
  by_cases c : i < s.elems.length
  · simp only [c, if_true, obsA, Option.map_some, Option.some.injEq, forall_eq']
    exact ⟨by simp [elems, List.eraseIdx_eq_take_drop_succ],
      ok_shrink s h _ (by rw [← List.eraseIdx_eq_take_drop_succ, List.length_eraseIdx]; split <;> omega)⟩
  · simp [c, obsA]

theorem removeBack_good (s : AState) (h : s.Ok) : Good s.removeBack (Spec.removeBack s.elems) := by
  unfold removeBack Spec.removeBack
  rw [size_eq]
  by_cases c : s.elems.length = 0
  · simp [c, Good, obsA]
  · simp only [c, if_false]; exact removeIt_good s h _

theorem ok_clear (s : AState) (h : s.Ok) : s.clear.Ok := by
  obtain ⟨cap, data⟩ := s
  cases data <;> simp [clear, Ok]

theorem elems_clear (s : AState) : s.clear.elems = [] := by
  obtain ⟨cap, data⟩ := s
  cases data <;> simp [clear, elems]

theorem find_good (s : AState) (h : s.Ok) (x : Int) : Good (s.find x) (Spec.find s.elems x) := by
  simp [Good, find, Spec.find, obsA, h, List.idxOf]

theorem get_good (s : AState) (h : s.Ok) (i : Nat) : Good (s.get i) (Spec.get s.elems i) := by
  unfold get Spec.get Good obsA
  cases s.elems[i]? <;> simp [h]

theorem front_good (s : AState) (h : s.Ok) : Good s.front (Spec.front s.elems) := by
  have := get_good s h 0
  unfold front Spec.front
  rw [List.head?_eq_getElem?]; exact this

theorem back_good (s : AState) (h : s.Ok) : Good s.back (Spec.back s.elems) := by
  unfold back Spec.back
  rw [size_eq, List.getLast?_eq_getElem?]
  by_cases c : s.elems.length = 0
  · have : s.elems = [] := List.eq_nil_of_length_eq_zero c
    simp [this, Good, obsA]
  · simp only [c, if_false]; exact get_good s h _

theorem appendSelf_good (s : AState) (h : s.Ok) : Good s.appendSelf (Spec.const (s.elems ++ s.elems)) :=
  appendAll_good s h s.elems

theorem appendRef_good (s : AState) (h : s.Ok) (i : Nat) :
    Good (s.appendRef i) (match s.elems[i]? with
      | some x => Spec.insert s.elems s.elems.length [x]
      | none => none) := by
  unfold appendRef
  cases s.elems[i]? with
  | none => simp [Good, obsA]
  | some x => exact append_good s h x

theorem appendSub_good (s : AState) (h : s.Ok) (i n : Nat) :
    Good (s.appendSub i n) (if i + n ≤ s.elems.length then Spec.const (s.elems ++ (s.elems.drop i).take n) else none) := by
  unfold appendSub
  rw [size_eq]
  by_cases c : i + n ≤ s.elems.length
  · simp only [c, if_true]; exact appendAll_good s h _
  · simp [c, Good, obsA]

theorem resizeRef_good (s : AState) (h : s.Ok) (n i : Nat) :
    Good (s.resizeRef n i) (match s.elems[i]? with
      | some x => Spec.resize s.elems n x
      | none => none) := by
  unfold resizeRef
  cases s.elems[i]? with
  | none => simp [Good, obsA]
  | some x => exact resize_good s h n x

theorem copyFrom_good (s o : AState) (h : s.Ok) (he : s.elems = []) (ho : o.Ok) :
    Good (s.copyFrom o) (Spec.const o.elems) := by
  have hsz : o.elems.length ≤ o.cap := by
    obtain ⟨cap, data⟩ := o
    cases data with
    | none => simp [elems]
    | some es => exact ho
  obtain ⟨s2, e1, e2, e3⟩ := grow_spec s h o.cap o.elems (by rw [size_eq, he]; simpa using hsz)
    (by intro hx; cases hq : o.elems with
        | nil => exact absurd hq hx
        | cons _ _ => rw [hq] at hsz; simp at hsz; omega)
  unfold copyFrom Good
  simp only [e1, obsA, Option.map_some, Spec.const, e2, he, List.nil_append, Option.some.injEq, forall_eq']
  exact ⟨trivial, e3⟩

end AState

end Nstd.Seq
