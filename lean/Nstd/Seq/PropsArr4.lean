import Nstd.Seq.LemmasArr2
/-
  Property C03, the tie by TRANSLATION for `Array`, part 4: `append(const Array& values)` with `values` another array and with
  `values` the array itself (`a.append(a)`): the translated body reads `values._begin.item` AFTER `reserve`, through the
  object (`AM.oth`), so for the array itself it is the pointer into the NEW storage.
-/
set_option linter.unusedSimpArgs false
set_option linter.unusedVariables false
namespace Nstd.Seq
open Nstd.Generated
open Nstd.Seq.Raw
open Nstd.Seq.AM

theorem readAll_spec (cs : Cells) : ∀ (k i : Nat) (xs : List Int), readAll cs i k = some xs →
    xs.length = k ∧ ∀ t (ht : t < xs.length), readCell cs (i + t) = some xs[t] := by
  intro k
  induction k with
  | zero => intro i xs h; simp [readAll] at h; subst h; simp
  | succ k ih =>
    intro i xs h
    simp only [readAll] at h
    cases hr : readCell cs i with
    | none => simp [hr] at h
    | some v =>
      simp only [hr] at h
      cases hrest : readAll cs (i + 1) k with
      | none => simp [hrest] at h
      | some ys =>
        simp only [hrest, Option.map_some, Option.some.injEq] at h
        subst h
        obtain ⟨h1, h2⟩ := ih (i + 1) ys hrest
        refine ⟨by simp [h1], ?_⟩
        intro t ht
        cases t with
        | zero => simpa using hr
        | succ t =>
          have := h2 t (by simpa using ht)
          simpa [Nat.add_assoc, Nat.add_comm 1 t] using this

variable [ArrCfg]

/-- The translated `Array::append(const Array& values)` with `values` ANOTHER array (its own storage, constructed elements
    `xs`) is the model's `appendAll r xs` — the step of the machine's `aappenda`. -/
theorem gen_append_array (M : Mem) (A B : Arr) (r o : RArr) (h : Rep M A r) (ho : Rep M B o) (xs : List Int)
    (hdis : ∀ b, own B b → ¬ own A b) (hxs : contents o = some xs) (fuel : Nat) (hf : r.n + xs.length < fuel) :
    Sim M A (SeqArr.appendArray fuel M A (some B)) (Raw.appendAll r xs) := by
  unfold SeqArr.appendArray Raw.appendAll
  obtain ⟨f, rfl⟩ : ∃ f, fuel = f + 1 := ⟨fuel - 1, by omega⟩
  have hon : o.n = xs.length ∧ (∀ ocs, o.cells = some ocs → ∀ t (ht : t < xs.length), readCell ocs (0 + t) = some xs[t]) := by
    unfold contents at hxs
    cases hoc : o.cells with
    | none =>
      rw [hoc] at hxs; cases hxs
      have := ho.2; rw [hoc] at this
      exact ⟨by simpa using this.2.2, fun _ h => by cases h⟩
    | some ocs =>
      rw [hoc] at hxs
      obtain ⟨h1, h2⟩ := readAll_spec ocs o.n 0 xs hxs
      exact ⟨h1.symm, fun ocs' h' => by cases h'; exact h2⟩
  simp only [pdiff_rep M A r h, oth, pdiff_rep M B o ho, hon.1]
  rcases reserve_run M A r h (r.n + xs.length) (f + 1) (by omega) with ⟨e1, e2⟩ | ⟨M1, A1, r1, e1, e2, hrep1, hbrk, hfr, hown, hn⟩
  · simp [e1, e2, Sim]
  · simp only [e1, e2]
    have hrep1' := hrep1
    obtain ⟨hcap1, hr1⟩ := hrep1
    cases hc : r1.cells with
    | none =>
      rw [hc] at hr1
      cases xs with
      | nil =>
        simp only [hr1.2.1, List.length_nil, padd, if_true, SeqArr.appendArray_loop1, plt, pne, ne_eq, not_true_eq_false, decide_false, Bool.false_eq_true, if_false,
          List.isEmpty_nil]
        have : ({ A1 with end_ := none } : Arr) = A1 := by cases A1; simp_all
        rw [this]
        exact ⟨hrep1', hbrk, hfr, hown⟩
      | cons x xs => simp [hr1.2.1, padd, Sim]
    | some cs1 =>
      rw [hc] at hr1
      obtain ⟨b1, hbk1, hb1, he1, hblk1⟩ := hr1
      have hb1ne : ∀ b', b' < M.brk → ¬ own A b' → b' ≠ b1 := by
        intro b' h1 h2 e
        rcases hown b1 ⟨0, hb1⟩ with h3 | h3
        · exact h2 (e ▸ h3)
        · omega
      simp only [he1, padd]
      cases hoc : o.cells with
      | none =>
        have hB := ho.2; rw [hoc] at hB
        have hx0 : xs = [] := by
          have := hon.1; rw [hB.2.2] at this
          exact List.eq_nil_of_length_eq_zero this.symm
        subst hx0
        simp only [List.length_nil, Nat.add_zero, SeqArr.appendArray_loop1, plt_off, pne_off, ne_eq, not_true_eq_false, Nat.lt_irrefl, decide_false,
          Bool.false_eq_true, if_false, fillFrom, Sim]
        have : ({ A1 with end_ := some (b1, r1.n) } : Arr) = A1 := by cases A1; simp_all
        rw [this]
        have : ({ r1 with cells := some cs1, n := r1.n } : RArr) = r1 := by cases r1; simp_all
        rw [this]
        exact ⟨hrep1', hbrk, hfr, hown⟩
      | some ocs =>
        have hB := ho.2; rw [hoc] at hB
        obtain ⟨bB, hbBk, hbB, heB, hblkB⟩ := hB
        have hnotA : ¬ own A bB := hdis bB ⟨0, hbB⟩
        have hv1 : M1.blocks bB = some ocs := by rw [hfr bB hbBk hnotA]; exact hblkB
        simp only [hbB]
        have key := appendArray_loop1_ext A1 (some B) r.n xs.length b1 bB (hb1ne bB hbBk hnotA) xs r1.n 0 (r1.n + xs.length) (f + 1) M1
          cs1 ocs rfl (by omega) hblk1 hv1 (hon.2 ocs hoc)
        cases hfill : fillFrom cs1 r1.n xs with
        | none => simp only [key.1 hfill, Sim]
        | some cs' =>
          obtain ⟨M', k1, k2, k3, k4⟩ := key.2 cs' hfill
          simp only [k1, Sim]
          refine ⟨⟨hcap1, ?_⟩, by rw [k3]; exact hbrk, ?_, ?_⟩
          · simp only []
            exact ⟨b1, by rw [k3]; exact hbk1, hb1, rfl, k2⟩
          · intro b' h1 h2
            rw [k4 b' (hb1ne b' h1 h2), hfr b' h1 h2]
          · rintro b' ⟨i', hi'⟩
            exact hown b' ⟨i', hi'⟩

/-- `a.append(a)`: the translated `append(const Array&)` with `values` the array ITSELF is the model's `appendSelf`: the size is
    taken before `reserve`, the source pointer `values._begin.item` AFTER it (the new storage), so the copy loop reads
    constructed cells of the live block. -/
theorem gen_append_array_self (M : Mem) (A : Arr) (r : RArr) (h : Rep M A r) (fuel : Nat) (hf : r.n + r.n < fuel) :
    Sim M A (SeqArr.appendArray fuel M A none) (Raw.appendSelf r) := by
  unfold SeqArr.appendArray Raw.appendSelf
  obtain ⟨f, rfl⟩ : ∃ f, fuel = f + 1 := ⟨fuel - 1, by omega⟩
  simp only [oth, pdiff_rep M A r h]
  rcases reserve_run M A r h (r.n + r.n) (f + 1) (by omega) with ⟨e1, e2⟩ | ⟨M1, A1, r1, e1, e2, hrep1, hbrk, hfr, hown, hn⟩
  · simp [e1, e2, Sim]
  · simp only [e1, e2]
    have hrep1' := hrep1
    obtain ⟨hcap1, hr1⟩ := hrep1
    cases hc : r1.cells with
    | none =>
      rw [hc] at hr1
      have hn0 : r.n = 0 := by rw [← hn]; exact hr1.2.2
      simp only [hr1.2.1, hr1.1, hn0, padd, if_true, SeqArr.appendArray_loop1, plt, pne, ne_eq, not_true_eq_false, decide_false, Bool.false_eq_true, if_false]
      have : ({ begin := none, end_ := none, cap := A1.cap } : Arr) = A1 := by cases A1; simp_all
      rw [this]
      exact ⟨hrep1', hbrk, hfr, hown⟩
    | some cs1 =>
      rw [hc] at hr1
      obtain ⟨b1, hbk1, hb1, he1, hblk1⟩ := hr1
      have hb1ne : ∀ b', b' < M.brk → ¬ own A b' → b' ≠ b1 := by
        intro b' h1 h2 e
        rcases hown b1 ⟨0, hb1⟩ with h3 | h3
        · exact h2 (e ▸ h3)
        · omega
      simp only [he1, hb1, padd, hn]
      have key := appendArray_loop1_alias A1 none r.n r.n b1 (r.n + r.n) r.n r.n 0 (f + 1) M1 cs1 rfl (by omega) hblk1
      cases hcopy : selfCopyLoop cs1 r.n 0 r.n with
      | none => simp only [key.1 hcopy, Sim]
      | some cs' =>
        obtain ⟨M', k1, k2, k3, k4⟩ := key.2 cs' hcopy
        simp only [k1, Sim]
        refine ⟨⟨hcap1, ?_⟩, by rw [k3]; exact hbrk, ?_, ?_⟩
        · simp only []
          exact ⟨b1, by rw [k3]; exact hbk1, hb1, rfl, k2⟩
        · intro b' h1 h2
          rw [k4 b' (hb1ne b' h1 h2), hfr b' h1 h2]
        · rintro b' ⟨i', hi'⟩
          exact hown b' ⟨i', hi'⟩

end Nstd.Seq
