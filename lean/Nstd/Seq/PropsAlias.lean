import Nstd.Seq.LemmasPtrSelf
import Nstd.Seq.LemmasRaw
/-
  Property C03, arguments that alias the container, spelled out for EVERY position / index / size / capacity
  (these op shapes are part of `refines`, `ptr_refines` and `raw_refines` of Props.lean; the theorems here state what
  those refinements mean for the two shapes directly on the statement-level models):

  * `l.insert(position, l)` with `position` anywhere — `begin()`, `end()` or any INNER position — on the heap model
    (the loop `while(i != last) { i = i->next; if(i == result.item) i = pos.item; insert(pos, i->value); }`);
  * `a.append(a[i])` / `a.resize(n, a[i])` for every index `i`, every size and every capacity — in particular with
    `size == capacity`, where `reserve(size + 1, &value)` moves the elements and the reference must be followed into the
    new block — on the cell model (a read of the released block would be a read of no cell at all).
-/
set_option linter.unusedSectionVars false
namespace Nstd.Seq

/-- `l.insert(it, l)` on the heap, `it` = the iterator at ANY position `k ≤ size` of ANY represented chain `xs`:
    the call terminates within its fuel, follows no null pointer, and afterwards the chain is
    `xs.take k ++ cs ++ xs.drop k` — every old item keeps its address and its place relative to the others, the `size`
    copies `cs` sit in one piece in front of the item `it` designated — holding the values
    `vals.take k ++ vals ++ vals.drop k` (the reference's "as if copied first"); the returned iterator is the first copy
    (position `k` of the new chain), or `it` itself for an empty list. -/
theorem self_insert_every_position (p : Ptr.PList) (xs fs : List Nat) (s : LState) (h : Ptr.Rep p xs fs s)
    (k : Nat) (hk : k ≤ xs.length) :
    ∃ p' r cs fs' s', Ptr.insertSelf p ((xs.drop k).headD 0) = some (p', r) ∧
      Ptr.Rep p' (xs.take k ++ cs ++ xs.drop k) fs' s' ∧
      s'.vals = s.vals.take k ++ s.vals ++ s.vals.drop k ∧
      cs.length = xs.length ∧
      Ptr.walk p' p'.begin k = some r ∧
      (xs = [] → r = 0) ∧ (xs ≠ [] → cs.head? = some r) := by
  obtain ⟨p', r, cs, fs', e1, e2, e3, e4, e5⟩ := Ptr.insertSelf_rep_ret p xs fs s h k hk
  have hsz : s.size = xs.length := by simp [LState.size, h.nodes]
  have hvals := LState.vals_insertMany s.vals s k (by rw [hsz]; exact hk)
  have hlen : cs.length = xs.length := by
    have a0 : ∀ (t : LState) (L : List Nat) (f : Nat → Nat × Int), t.nodes = L.map f → t.vals.length = L.length := by
      intro t L f ht; simp [LState.vals, ht]
    have a1 := a0 _ _ _ e2.nodes
    rw [hvals] at a1
    have a2 : s.vals.length = xs.length := by simp [LState.vals, h.nodes]
    simp only [List.length_append, List.length_take, List.length_drop, a2] at a1
    omega
  have hwalk : Ptr.walk p' p'.begin k = some r := by
    have hk' : k ≤ (xs.take k ++ cs ++ xs.drop k).length := by simp; omega
    have := Ptr.walk_seg p' k _ none e2.seg hk'
    rw [← e2.beg] at this
    rw [this, e3]
    have : (xs.take k ++ cs ++ xs.drop k).drop k = cs ++ xs.drop k := by
      rw [List.append_assoc]
      have hl : (xs.take k).length = k := by simp; omega
      conv => lhs; arg 1; rw [← hl]
      exact List.drop_left
    rw [this]
  refine ⟨p', r, cs, fs', _, e1, e2, hvals, hlen, hwalk, ?_, ?_⟩
  · intro e; subst e; rw [e3, e4 rfl]; simp
  · intro e
    have := e5 e
    cases cs with
    | nil => exact absurd rfl this
    | cons c cs' => rw [e3]; rfl

variable [ArrCfg]

/-- `a.append(a[i])` on the cell model, for EVERY index `i < size`, every size and every capacity (every block `r`
    related to an `AState`; in particular `size == capacity`, where the storage is reallocated): no cell outside the
    block and no raw or released cell is read, the array afterwards holds `elems ++ [elems[i]]`, the returned reference
    designates the new last element, and storage is reallocated exactly when `size + 1 > capacity` or there was none. -/
theorem alias_append_every_index (r : Raw.RArr) (a : AState) (h : Raw.Rel r a) (i : Nat) (hi : i < a.size) :
    ∃ r' ra, Raw.appendRef r i = some r' ∧ a.appendRef i = some ra ∧ Raw.Rel r' ra.st ∧
      ra.st.elems = a.elems ++ [a.elems[i]'hi] ∧ ra.ret = some (a.size : Int) ∧
      ra.allocs = (if a.size + 1 > a.cap ∨ (a.data = none ∧ a.size + 1 > 0) then 1 else 0) := by
  have hi' : i < a.elems.length := hi
  have good := AState.appendRef_good a (Raw.rel_ok h) i
  rw [List.getElem?_eq_getElem hi'] at good
  rcases Raw.appendRef_rel r a h i with ⟨r', ra, e1, e2, e3⟩ | ⟨_, e2⟩
  · refine ⟨r', ra, e1, e2, e3, ?_⟩
    have g := good.1
    rw [e2] at g
    simp only [obsA, Option.map_some, Spec.insert, Nat.le_refl, if_true, Option.some.injEq, Prod.mk.injEq,
      List.take_length, List.drop_length, List.append_nil] at g
    refine ⟨g.1, by rw [g.2]; rfl, ?_⟩
    have := e2
    unfold AState.appendRef AState.append at this
    rw [List.getElem?_eq_getElem hi'] at this
    simp only at this
    cases hp : ((a.reserve (a.size + 1)).1.push a.elems[i]) with
    | none => rw [hp] at this; simp at this
    | some s2 =>
      rw [hp] at this
      simp only [Option.some.injEq] at this
      rw [← this]
      simp only
      unfold AState.reserve
      by_cases c : a.size + 1 > a.cap ∨ (a.data.isNone = true ∧ a.size + 1 > 0)
      · have c' : a.size + 1 > a.cap ∨ (a.data = none ∧ a.size + 1 > 0) := by
          rcases c with c | c
          · exact Or.inl c
          · exact Or.inr ⟨by simpa using c.1, c.2⟩
        simp only [c, c', if_true]
        cases a.data <;> rfl
      · have c' : ¬ (a.size + 1 > a.cap ∨ (a.data = none ∧ a.size + 1 > 0)) := by
          intro d; apply c
          rcases d with d | d
          · exact Or.inl d
          · exact Or.inr ⟨by simp [d.1], d.2⟩
        simp only [c, c', if_false]
  · have g := good.1
    rw [e2] at g
    simp [obsA, Spec.insert] at g

/-- `a.resize(n, a[i])` on the cell model for every `n`, every index `i < size`, every size and capacity: the fill value
    is read through the reference that `reserve(n, &value)` returns (cell `i` of the NEW block), never from a raw or
    released cell; the array afterwards holds what `resize(n, copy of a[i])` gives. -/
theorem alias_resize_every_index (r : Raw.RArr) (a : AState) (h : Raw.Rel r a) (n i : Nat) (hi : i < a.size) :
    ∃ r' ra, Raw.resizeRef r n i = some r' ∧ a.resizeRef n i = some ra ∧ Raw.Rel r' ra.st ∧
      ra.st.elems = (if n < a.size then a.elems.take n else a.elems ++ List.replicate (n - a.size) (a.elems[i]'hi)) := by
  have hi' : i < a.elems.length := hi
  have good := AState.resizeRef_good a (Raw.rel_ok h) n i
  rw [List.getElem?_eq_getElem hi'] at good
  rcases Raw.resizeRef_rel r a h n i with ⟨r', ra, e1, e2, e3⟩ | ⟨_, e2⟩
  · refine ⟨r', ra, e1, e2, e3, ?_⟩
    have g := good.1
    rw [e2] at g
    simp only [obsA, Option.map_some, Spec.resize, Option.some.injEq, Prod.mk.injEq] at g
    exact g.1
  · have g := good.1
    rw [e2] at g
    simp [obsA, Spec.resize] at g

/-- `a.append(&a[i], n)` — the pointer overload `append(const T* values, usize size)` with `values` pointing INTO the array —
    on the cell model for EVERY sub-range `i + n ≤ size`, every size and capacity: the pointer is followed into the new
    block (`values = reserve(oldSize + size, values)`), the `n` source cells `i … i+n-1` are all constructed cells of that
    block (none of them is a cell the loop itself fills), and the array afterwards holds `elems ++ elems[i … i+n-1]`. -/
theorem alias_append_every_range (r : Raw.RArr) (a : AState) (h : Raw.Rel r a) (i n : Nat) (hin : i + n ≤ a.size) :
    ∃ r' ra, Raw.appendSub r i n = some r' ∧ a.appendSub i n = some ra ∧ Raw.Rel r' ra.st ∧
      ra.st.elems = a.elems ++ (a.elems.drop i).take n := by
  have hin' : i + n ≤ a.elems.length := hin
  have good := AState.appendSub_good a (Raw.rel_ok h) i n
  simp only [hin', if_true] at good
  rcases Raw.appendSub_rel r a h i n with ⟨r', ra, e1, e2, e3⟩ | ⟨_, e2⟩
  · refine ⟨r', ra, e1, e2, e3, ?_⟩
    have g := good.1
    rw [e2] at g
    simp only [obsA, Option.map_some, Spec.const, Option.some.injEq, Prod.mk.injEq] at g
    exact g.1
  · have g := good.1
    rw [e2] at g
    simp [obsA, Spec.const] at g

/-! ### Non-vacuity -/

/-- self-insertion at the inner position 1 of the chain 5, 7, 9 (heap with blocks of 4 items) -/
example :
    let p := Ptr.run (Ptr.init 4) [.insert 0 5, .insert 1 7, .insert 2 9, .insertSelf 1]
    (Ptr.walk p p.begin 0).map p.val = some 5 ∧ (Ptr.walk p p.begin 1).map p.val = some 5 ∧
    (Ptr.walk p p.begin 3).map p.val = some 9 ∧ (Ptr.walk p p.begin 4).map p.val = some 7 ∧ p.size = 6 := by decide

/-- `a.append(a[1])` with `size == capacity == 3` (mask 3): reallocation to 7 cells, the value follows the reference -/
example :
    (@Raw.rrun ⟨3⟩ {} [.aappendn 0 [4, 5, 6], .aappendref 0 1]).a0.cells =
      some [some 4, some 5, some 6, some 5, none, none, none] := by decide

end Nstd.Seq
