import Nstd.Seq.LemmasPtrSort
/-
  Heap level: the loops of `find(value)` (stand-alone) and of `operator==` compute what the chain model computes.
-/
namespace Nstd.Seq.Ptr

theorem eqLoop_links (p q : PList) : ∀ (xs ys : List Nat) (fuel : Nat), NextLinks p xs → NextLinks q ys →
    xs.length = ys.length → xs.length ≤ fuel →
    eqLoop p q fuel (xs.headD 0) (ys.headD 0) = some (decide (xs.map p.val = ys.map q.val)) := by
  intro xs
  induction xs with
  | nil =>
    intro ys fuel _ _ hl _
    have : ys = [] := List.eq_nil_of_length_eq_zero hl.symm
    subst this
    cases fuel <;> simp [eqLoop]
  | cons x xs ih =>
    intro ys fuel hx hy hl hf
    cases ys with
    | nil => simp at hl
    | cons y ys =>
      obtain ⟨x_nz, x_next, hx'⟩ := hx
      obtain ⟨y_nz, y_next, hy'⟩ := hy
      cases fuel with
      | zero => simp at hf
      | succ fuel =>
        obtain ⟨i, rfl⟩ : ∃ i, x = i + 1 := ⟨x - 1, by omega⟩
        obtain ⟨j, rfl⟩ : ∃ j, y = j + 1 := ⟨y - 1, by omega⟩
        simp only [List.headD_cons, eqLoop, List.map_cons]
        by_cases c : p.val (i + 1) = q.val (j + 1)
        · simp only [c, ne_eq, not_true_eq_false, if_false, x_next, y_next]
          rw [ih ys fuel hx' hy' (by simpa using hl) (by simpa using hf)]
          congr 1
          simp
        · simp only [ne_eq, c, not_false_eq_true, if_true]
          congr 1
          simp [c]

/-- `operator==` on two represented lists (each in its own heap) answers whether the value sequences are equal; the walk over
    the second list never reaches its sentinel (the sizes were compared first) -/
theorem eqLists_rep (p q : PList) (xs fs ys gs : List Nat) (s t : LState) (h : Rep p xs fs s) (g : Rep q ys gs t) :
    eqLists p q = some (decide (s.vals = t.vals)) := by
  have hs : s.vals = xs.map p.val := vals_of_view p xs s.vals (view_of_rep p xs fs s h)
  have ht : t.vals = ys.map q.val := vals_of_view q ys t.vals (view_of_rep q ys gs t g)
  unfold eqLists
  rw [h.sz, g.sz]
  by_cases c : xs.length = ys.length
  · simp only [c, ne_eq, not_true_eq_false, if_false]
    have := eqLoop_links p q xs ys ys.length (nextlinks_of_seg p xs none h.seg) (nextlinks_of_seg q ys none g.seg) c
      (by omega)
    rw [h.beg, g.beg, this, hs, ht]
  · simp only [ne_eq, c, not_false_eq_true, if_true]
    congr 1
    have : s.vals ≠ t.vals := by
      intro e
      apply c
      have := congrArg List.length e
      rw [hs, ht] at this
      simpa using this
    simp [this]

/-- stand-alone `find(value)` on the heap returns the first item holding the value — the item reached by `findPos` increments
    from `begin()` — or the sentinel (`end()`) -/
theorem find_rep (p : PList) (xs fs : List Nat) (s : LState) (h : Rep p xs fs s) (v : Int) :
    find p v = some ((xs.drop (s.findPos v)).headD 0) ∧ walk p p.begin (s.findPos v) = some ((xs.drop (s.findPos v)).headD 0) := by
  have hv : s.vals = xs.map p.val := vals_of_view p xs s.vals (view_of_rep p xs fs s h)
  have hfind := findLoop_links p v xs p.size (nextlinks_of_seg p xs none h.seg) (by rw [h.sz]; exact Nat.le_refl _)
  rw [← h.beg, ← hv] at hfind
  have hle : s.findPos v ≤ xs.length := by
    have := @List.findIdx_le_length _ (· == v) (xs.map p.val)
    show s.vals.findIdx (· == v) ≤ xs.length
    rw [hv]; simpa using this
  refine ⟨hfind, ?_⟩
  rw [h.beg]
  exact walk_seg p _ xs none h.seg hle

end Nstd.Seq.Ptr
