import Nstd.Seq.LemmasSort
/-
  The quicksort model for an ARBITRARY comparison function `lt` (the element type's `operator<`, which is the only
  "comparator" `List<T>::sort()` has): termination within the fuel, frame and permutation need no property of `lt`
  at all; the order of the result follows from three facts about how `lt` relates an element to the pivot
  (`Ord3`), which hold for a strict partial order (result: no later element is smaller than an earlier one) as well
  as for a total preorder used as a NON-strict comparator such as `<=` (result: ascending w.r.t. `<=`).
-/
namespace Nstd.Seq
variable {α : Type}

/-- what the partition guarantees about the relation `R` ("may stand in front of"): an element that went to the left
    of the pivot (`lt x pv`) may stand in front of the pivot, the pivot in front of an element that stayed on the right
    (`¬ lt y pv`), and a left element in front of a right one -/
structure Ord3 (lt : α → α → Bool) (R : α → α → Prop) : Prop where
  lo : ∀ x pv, lt x pv = true → R x pv
  hi : ∀ y pv, lt y pv = false → R pv y
  cross : ∀ x y pv, lt x pv = true → lt y pv = false → R x y

/-- every comparison function satisfies `Ord3` for the trivial relation -/
theorem ord3_true (lt : α → α → Bool) : Ord3 lt (fun _ _ => True) := ⟨fun _ _ _ => trivial, fun _ _ _ => trivial, fun _ _ _ _ _ => trivial⟩

/-- a strict partial order: `R a b` = "`b` is not smaller than `a`" -/
theorem ord3_strict (lt : α → α → Bool) (hasymm : ∀ x y, lt x y = true → lt y x = false)
    (htrans : ∀ x y z, lt x y = true → lt y z = true → lt x z = true) : Ord3 lt (fun a b => lt b a = false) := by
  refine ⟨fun x pv h => hasymm _ _ h, fun y pv h => h, fun x y pv h1 h2 => ?_⟩
  cases hc : lt y x with
  | false => rfl
  | true => rw [htrans _ _ _ hc h1] at h2; exact absurd h2 (by simp)

/-- a total preorder used as (non-strict) comparator, e.g. `<=`: `R a b` = "`a <= b`" -/
theorem ord3_nonstrict (le : α → α → Bool) (htot : ∀ x y, le x y = true ∨ le y x = true)
    (htrans : ∀ x y z, le x y = true → le y z = true → le x z = true) : Ord3 le (fun a b => le a b = true) := by
  refine ⟨fun x pv h => h, fun y pv h => ?_, fun x y pv h1 h2 => ?_⟩
  · rcases htot y pv with c | c
    · rw [c] at h; exact absurd h (by simp)
    · exact c
  · rcases htot y pv with c | c
    · rw [c] at h2; exact absurd h2 (by simp)
    · exact htrans _ _ _ h1 c

variable [Inhabited α]

/-- the items at positions `l ≤ i < j < h` are pairwise related by `R` -/
def RelSeg (R : α → α → Prop) (m : List α) (l h : Nat) : Prop :=
  ∀ i j, l ≤ i → i < j → j < h → R (rd m i) (rd m j)

theorem qsortF_rel (lt : α → α → Bool) (R : α → α → Prop) (ho : Ord3 lt R) :
    ∀ (f : Nat) (m : List α) (left right : Nat), left < right → right < m.length → right - left < f →
      ∃ m', qsortF lt f m left right = some m' ∧ Within m' m left (right + 1) ∧
        RelSeg R m' left (right + 1) ∧ m'.Perm m := by
  intro f
  induction f with
  | zero => intro m left right _ _ h; omega
  | succ f ih =>
    intro m left right hlr hb hf
    have inv0 : PInv lt left m left left left :=
      ⟨Nat.le_refl _, Nat.le_refl _, Or.inl ⟨rfl, rfl⟩, fun k h1 h2 => by omega, fun k h1 h2 => by omega⟩
    have hb0 : left + (right - left) < m.length := by omega
    obtain ⟨pi, pw, pp⟩ := ploop_spec lt left (right - left) m left left left hb0 inv0
    have e : left + (right - left) = right := by omega
    rw [e] at pi pw
    rw [qsortF]
    generalize ploop lt left (right - left) m left left left = r at pi pw pp
    have lenr : r.mem.length = m.length := pw.1
    have hp1 := pi.h1
    have hp2 := pi.h2
    have bl : left < r.mem.length := by omega
    have bp : r.p1 < r.mem.length := by omega
    have m1len : (swp r.mem left r.p1).length = m.length := by rw [length_swp]; exact lenr
    have m1p : rd (swp r.mem left r.p1) r.p1 = rd r.mem left := rd_swp_right _ _ _ bl bp
    have m1lo : ∀ k, left ≤ k → k < r.p1 → lt (rd (swp r.mem left r.p1) k) (rd r.mem left) = true := by
      intro k h1 h2
      by_cases ek : k = left
      · rw [ek, rd_swp_left _ _ _ bl bp]; exact pi.lo r.p1 (by omega) (Nat.le_refl _)
      · rw [rd_swp_other _ _ _ k bl bp ek (by omega)]; exact pi.lo k (by omega) (by omega)
    have m1hi : ∀ k, r.p1 < k → k ≤ right → lt (rd (swp r.mem left r.p1) k) (rd r.mem left) = false := by
      intro k h1 h2
      rw [rd_swp_other _ _ _ k bl bp (by omega) (by omega)]; exact pi.hi k h1 h2
    have w1 : Within (swp r.mem left r.p1) m left (right + 1) :=
      within_trans (within_swp r.mem left r.p1 left (right + 1) (Nat.le_refl _) (by omega) hp1 (by omega) (by omega))
        (within_mono (by omega) (Nat.le_refl _) pw)
    have perm1 : (swp r.mem left r.p1).Perm m := (swp_perm _ _ _ bl bp).trans pp
    generalize swp r.mem left r.p1 = m1 at m1len m1p m1lo m1hi w1 perm1
    generalize hpv : rd r.mem left = pv at m1p m1lo m1hi
    have hleft : ∃ m2, (if left ≠ r.p0 then qsortF lt f m1 left r.p0 else some m1) = some m2 ∧
        Within m2 m1 left r.p1 ∧ RelSeg R m2 left r.p1 ∧ m2.Perm m1 := by
      by_cases hl : left = r.p0
      · refine ⟨m1, by simp [hl], within_refl _ _ _, ?_, List.Perm.refl _⟩
        intro i j h1 h2 h3
        rcases pi.h0 with ⟨a, _⟩ | ⟨a, _⟩ <;> omega
      · have hl' : left ≠ r.p0 := hl
        rcases pi.h0 with ⟨a, b⟩ | ⟨a, b⟩
        · exact absurd b.symm hl
        · obtain ⟨m2, q1, q2, q3, q4⟩ := ih m1 left r.p0 (by omega) (by omega) (by omega)
          rw [a] at q2 q3
          exact ⟨m2, by simp only [hl', if_true, ne_eq, not_false_eq_true]; exact q1, q2, q3, q4⟩
    obtain ⟨m2, q1, q2, q3, q4⟩ := hleft
    simp only [q1]
    have m2len : m2.length = m.length := q2.1.trans m1len
    have hright : ∃ m3, (if (if r.p1 ≠ right then r.p1 + 1 else r.p1) ≠ right then
          qsortF lt f m2 (if r.p1 ≠ right then r.p1 + 1 else r.p1) right else some m2) = some m3 ∧
        Within m3 m2 (r.p1 + 1) (right + 1) ∧ RelSeg R m3 (r.p1 + 1) (right + 1) ∧ m3.Perm m2 := by
      by_cases hr1 : r.p1 = right
      · refine ⟨m2, by simp [hr1], within_refl _ _ _, ?_, List.Perm.refl _⟩
        intro i j h1 h2 h3; omega
      · by_cases hr2 : r.p1 + 1 = right
        · refine ⟨m2, by simp [hr1, hr2], within_refl _ _ _, ?_, List.Perm.refl _⟩
          intro i j h1 h2 h3; omega
        · obtain ⟨m3, s1, s2, s3, s4⟩ := ih m2 (r.p1 + 1) right (by omega) (by omega) (by omega)
          exact ⟨m3, by simp [hr1, hr2]; exact s1, s2, s3, s4⟩
    obtain ⟨m3, s1, s2, s3, s4⟩ := hright
    refine ⟨m3, s1, ?_, ?_, (s4.trans q4).trans perm1⟩
    · exact within_trans (within_mono (by omega) (Nat.le_refl _) s2)
        (within_trans (within_mono (Nat.le_refl _) (by omega) q2) w1)
    · have vlo : ∀ k, left ≤ k → k < r.p1 → lt (rd m3 k) pv = true := by
        intro k h1 h2
        rw [s2.2.1 k (Or.inl (by omega))]
        obtain ⟨k', a1, a2, a3⟩ := q2.2.2 k h1 h2
        rw [a3]; exact m1lo k' a1 a2
      have vmid : rd m3 r.p1 = pv := by
        rw [s2.2.1 r.p1 (Or.inl (by omega)), q2.2.1 r.p1 (Or.inr (Nat.le_refl _))]; exact m1p
      have vhi : ∀ k, r.p1 < k → k ≤ right → lt (rd m3 k) pv = false := by
        intro k h1 h2
        obtain ⟨k', a1, a2, a3⟩ := s2.2.2 k (by omega) (by omega)
        rw [a3, q2.2.1 k' (Or.inr (by omega))]; exact m1hi k' (by omega) (by omega)
      intro i j h1 h2 h3
      by_cases ci : i < r.p1
      · by_cases cj : j < r.p1
        · have := q3 i j h1 h2 cj
          rw [s2.2.1 i (Or.inl (by omega)), s2.2.1 j (Or.inl (by omega))]; exact this
        · by_cases cj2 : j = r.p1
          · rw [cj2, vmid]; exact ho.lo _ _ (vlo i h1 ci)
          · exact ho.cross _ _ pv (vlo i h1 ci) (vhi j (by omega) (by omega))
      · by_cases ci2 : i = r.p1
        · rw [ci2, vmid]; exact ho.hi _ _ (vhi j (by omega) (by omega))
        · exact s3 i j (by omega) h2 h3

/-- `sort()` for an arbitrary comparison function: terminates within the fuel `length`, permutation, and the result is
    pairwise `R`-related whenever `lt` and `R` satisfy `Ord3` -/
theorem sortVals_rel (lt : α → α → Bool) (R : α → α → Prop) (ho : Ord3 lt R) (vs : List α) :
    ∃ r, sortVals lt vs = some r ∧ r.Perm vs ∧ r.Pairwise R := by
  unfold sortVals
  by_cases h : vs.length < 2
  · refine ⟨vs, by simp [h], List.Perm.refl _, ?_⟩
    match vs, h with
    | [], _ => exact List.Pairwise.nil
    | [x], _ => simp
    | _ :: _ :: _, h => simp at h; omega
  · obtain ⟨m', e, w, s, p⟩ := qsortF_rel lt R ho vs.length vs 0 (vs.length - 1)
      (by omega) (by omega) (by omega)
    refine ⟨m', by simp only [h, if_false]; exact e, p, ?_⟩
    rw [List.pairwise_iff_getElem]
    intro i j hi hj hij
    have := s i j (Nat.zero_le _) hij (by have := w.1; omega)
    rw [rd_eq_getElem m' i hi, rd_eq_getElem m' j hj] at this
    exact this

end Nstd.Seq
