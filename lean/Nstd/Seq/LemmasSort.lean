import Nstd.Seq.Sort
/-
  Lemmas about the quicksort model (`Sort.lean`): the partition loop invariant and the
  specification of `qsortF` (fuel suffices, permutation, sorted segment, frame).
-/
namespace Nstd.Seq

variable {α : Type} [Inhabited α]

theorem rd_eq_getElem (m : List α) (i : Nat) (h : i < m.length) : rd m i = m[i] := by
  simp [rd, List.getD_eq_getElem?_getD, h]

theorem rd_set (m : List α) (i k : Nat) (v : α) :
    rd (m.set i v) k = if k = i ∧ i < m.length then v else rd m k := by
  unfold rd
  simp only [List.getD_eq_getElem?_getD, List.getElem?_set]
  by_cases h : i = k
  · subst h
    by_cases h2 : i < m.length
    · simp [h2]
    · simp [h2]
  · have h' : ¬ k = i := fun e => h e.symm
    simp [h, h']

theorem length_swp (m : List α) (i j : Nat) : (swp m i j).length = m.length := by
  simp [swp]

theorem rd_swp (m : List α) (i j k : Nat) (hi : i < m.length) (hj : j < m.length) :
    rd (swp m i j) k = if k = j then rd m i else if k = i then rd m j else rd m k := by
  unfold swp
  simp only [rd_set, List.length_set, hi, hj, and_true]

theorem rd_swp_left (m : List α) (i j : Nat) (hi : i < m.length) (hj : j < m.length) :
    rd (swp m i j) i = rd m j := by
  rw [rd_swp m i j i hi hj]
  by_cases e : i = j
  · subst e; simp
  · simp [e]

theorem rd_swp_right (m : List α) (i j : Nat) (hi : i < m.length) (hj : j < m.length) :
    rd (swp m i j) j = rd m i := by
  rw [rd_swp m i j j hi hj]; simp

theorem rd_swp_other (m : List α) (i j k : Nat) (hi : i < m.length) (hj : j < m.length)
    (h1 : k ≠ i) (h2 : k ≠ j) : rd (swp m i j) k = rd m k := by
  rw [rd_swp m i j k hi hj]; simp [h1, h2]

theorem swp_perm (m : List α) (i j : Nat) (hi : i < m.length) (hj : j < m.length) :
    (swp m i j).Perm m := by
  unfold swp
  simp only [rd_eq_getElem m i hi, rd_eq_getElem m j hj]
  exact List.set_set_perm hi hj

/-- `m'` differs from `m` only inside positions `l ≤ k < h`, and every value found there in `m'`
    is a value found there in `m` -/
def Within (m' m : List α) (l h : Nat) : Prop :=
  m'.length = m.length ∧ (∀ k, k < l ∨ h ≤ k → rd m' k = rd m k) ∧
  (∀ k, l ≤ k → k < h → ∃ k', l ≤ k' ∧ k' < h ∧ rd m' k = rd m k')

theorem within_refl (m : List α) (l h : Nat) : Within m m l h :=
  ⟨rfl, fun _ _ => rfl, fun k h1 h2 => ⟨k, h1, h2, rfl⟩⟩

theorem within_trans {c b a : List α} {l h : Nat} (h1 : Within c b l h) (h2 : Within b a l h) :
    Within c a l h := by
  obtain ⟨l1, f1, v1⟩ := h1
  obtain ⟨l2, f2, v2⟩ := h2
  refine ⟨l1.trans l2, fun k hk => (f1 k hk).trans (f2 k hk), fun k hl hh => ?_⟩
  obtain ⟨k1, a1, b1, e1⟩ := v1 k hl hh
  obtain ⟨k2, a2, b2, e2⟩ := v2 k1 a1 b1
  exact ⟨k2, a2, b2, e1.trans e2⟩

theorem within_mono {b a : List α} {l h l' h' : Nat} (hl : l ≤ l') (hh : h' ≤ h)
    (w : Within b a l' h') : Within b a l h := by
  obtain ⟨l1, f1, v1⟩ := w
  refine ⟨l1, fun k hk => f1 k (by omega), fun k h1 h2 => ?_⟩
  by_cases hin : l' ≤ k ∧ k < h'
  · obtain ⟨k1, a1, b1, e1⟩ := v1 k hin.1 hin.2
    exact ⟨k1, by omega, by omega, e1⟩
  · exact ⟨k, h1, h2, f1 k (by omega)⟩

theorem within_swp (m : List α) (i j l h : Nat) (hi : l ≤ i) (hi' : i < h) (hj : l ≤ j) (hj' : j < h)
    (hh : h ≤ m.length) : Within (swp m i j) m l h := by
  have bi : i < m.length := by omega
  have bj : j < m.length := by omega
  refine ⟨length_swp m i j, fun k hk => ?_, fun k h1 h2 => ?_⟩
  · exact rd_swp_other m i j k bi bj (by omega) (by omega)
  · by_cases e1 : k = j
    · subst e1; exact ⟨i, hi, hi', rd_swp_right m i k bi bj⟩
    · by_cases e2 : k = i
      · subst e2; exact ⟨j, hj, hj', rd_swp_left m k j bi bj⟩
      · exact ⟨k, h1, h2, rd_swp_other m i j k bi bj e2 e1⟩

/-- invariant of the partition loop: `ptr0` is the predecessor of `ptr1` (or both are `left`),
    the items in `(left, ptr1]` are `< pivot`, those in `(ptr1, ptr2]` are not -/
structure PInv (lt : α → α → Bool) (left : Nat) (m : List α) (p0 p1 p2 : Nat) : Prop where
  h1 : left ≤ p1
  h2 : p1 ≤ p2
  h0 : (p1 = left ∧ p0 = left) ∨ (p0 + 1 = p1 ∧ left ≤ p0)
  lo : ∀ k, left < k → k ≤ p1 → lt (rd m k) (rd m left) = true
  hi : ∀ k, p1 < k → k ≤ p2 → lt (rd m k) (rd m left) = false

theorem ploop_spec (lt : α → α → Bool) (left : Nat) :
    ∀ (n : Nat) (m : List α) (p0 p1 p2 : Nat), p2 + n < m.length → PInv lt left m p0 p1 p2 →
      PInv lt left (ploop lt left n m p0 p1 p2).mem (ploop lt left n m p0 p1 p2).p0
        (ploop lt left n m p0 p1 p2).p1 (p2 + n) ∧
      Within (ploop lt left n m p0 p1 p2).mem m (left + 1) (p2 + n + 1) ∧
      (ploop lt left n m p0 p1 p2).mem.Perm m := by
  intro n
  induction n with
  | zero =>
    intro m p0 p1 p2 _ inv
    exact ⟨inv, within_refl _ _ _, List.Perm.refl _⟩
  | succ n ih =>
    intro m p0 p1 p2 hb inv
    have e : p2 + (n + 1) = (p2 + 1) + n := by omega
    unfold ploop
    by_cases c : lt (rd m (p2 + 1)) (rd m left) = true
    · simp only [c, if_true]
      have b1 : p1 + 1 < m.length := by have := inv.h2; omega
      have b2 : p2 + 1 < m.length := by omega
      have rdl : rd (swp m (p1 + 1) (p2 + 1)) left = rd m left :=
        rd_swp_other m _ _ _ b1 b2 (by have := inv.h1; omega) (by have := inv.h1; have := inv.h2; omega)
      have inv' : PInv lt left (swp m (p1 + 1) (p2 + 1)) p1 (p1 + 1) (p2 + 1) := by
        refine ⟨by have := inv.h1; omega, by have := inv.h2; omega, Or.inr ⟨rfl, inv.h1⟩, ?_, ?_⟩
        · intro k hk1 hk2
          rw [rdl]
          by_cases e2 : k = p1 + 1
          · rw [e2, rd_swp_left m _ _ b1 b2]; exact c
          · rw [rd_swp_other m _ _ k b1 b2 e2 (by have := inv.h2; omega)]
            exact inv.lo k hk1 (by omega)
        · intro k hk1 hk2
          rw [rdl]
          by_cases e1 : k = p2 + 1
          · rw [e1, rd_swp_right m _ _ b1 b2]
            exact inv.hi (p1 + 1) (by omega) (by omega)
          · rw [rd_swp_other m _ _ k b1 b2 (by omega) e1]
            exact inv.hi k (by omega) (by omega)
      have hb' : (p2 + 1) + n < (swp m (p1 + 1) (p2 + 1)).length := by rw [length_swp]; omega
      obtain ⟨r1, r2, r3⟩ := ih (swp m (p1 + 1) (p2 + 1)) p1 (p1 + 1) (p2 + 1) hb' inv'
      rw [e]
      refine ⟨r1, within_trans r2 ?_, r3.trans (swp_perm m _ _ b1 b2)⟩
      exact within_swp m _ _ _ _ (by have := inv.h1; omega) (by have := inv.h2; omega)
        (by have := inv.h1; have := inv.h2; omega) (by omega) (by omega)
    · have c' : lt (rd m (p2 + 1)) (rd m left) = false := by
        cases hc : lt (rd m (p2 + 1)) (rd m left) with
        | true => exact absurd hc c
        | false => rfl
      simp only [c', if_false, Bool.false_eq_true]
      have inv' : PInv lt left m p0 p1 (p2 + 1) := by
        refine ⟨inv.h1, by have := inv.h2; omega, inv.h0, inv.lo, ?_⟩
        intro k hk1 hk2
        by_cases e1 : k = p2 + 1
        · rw [e1]; exact c'
        · exact inv.hi k hk1 (by omega)
      have hb' : (p2 + 1) + n < m.length := by omega
      obtain ⟨r1, r2, r3⟩ := ih m p0 p1 (p2 + 1) hb' inv'
      rw [e]
      exact ⟨r1, r2, r3⟩

/-- the items at positions `l ≤ i < j < h` are in non-descending order -/
def SortedSeg (lt : α → α → Bool) (m : List α) (l h : Nat) : Prop :=
  ∀ i j, l ≤ i → i < j → j < h → lt (rd m j) (rd m i) = false

end Nstd.Seq

namespace Nstd.Seq
variable {α : Type} [Inhabited α]

theorem qsortF_spec (lt : α → α → Bool)
    (hasymm : ∀ x y, lt x y = true → lt y x = false)
    (htrans : ∀ x y z, lt x y = true → lt y z = true → lt x z = true) :
    ∀ (f : Nat) (m : List α) (left right : Nat), left < right → right < m.length → right - left < f →
      ∃ m', qsortF lt f m left right = some m' ∧ Within m' m left (right + 1) ∧
        SortedSeg lt m' left (right + 1) ∧ m'.Perm m := by
  intro f
  induction f with
  | zero => intro m left right _ _ h; omega
  | succ f ih =>
    intro m left right hlr hb hf
    have inv0 : PInv lt left m left left left :=
      ⟨Nat.le_refl _, Nat.le_refl _, Or.inl ⟨rfl, rfl⟩, fun k h1 h2 => by omega, fun k h1 h2 => by omega⟩
    have hb0 : left + (right - left) < m.length := by omega
    obtain ⟨pi, pw, pp⟩ := ploop_spec lt left (right - left) m left left left hb0 inv0
    have e : left + (right - left) = right := by omega
    rw [e] at pi pw
    rw [qsortF]
    generalize ploop lt left (right - left) m left left left = r at pi pw pp
    have lenr : r.mem.length = m.length := pw.1
    have hp1 := pi.h1
    have hp2 := pi.h2
    have bl : left < r.mem.length := by omega
    have bp : r.p1 < r.mem.length := by omega
    -- after `swap(left, ptr1)`
    have m1len : (swp r.mem left r.p1).length = m.length := by rw [length_swp]; exact lenr
    have m1p : rd (swp r.mem left r.p1) r.p1 = rd r.mem left := rd_swp_right _ _ _ bl bp
    have m1lo : ∀ k, left ≤ k → k < r.p1 → lt (rd (swp r.mem left r.p1) k) (rd r.mem left) = true := by
      intro k h1 h2
      by_cases ek : k = left
      · rw [ek, rd_swp_left _ _ _ bl bp]; exact pi.lo r.p1 (by omega) (Nat.le_refl _)
      · rw [rd_swp_other _ _ _ k bl bp ek (by omega)]; exact pi.lo k (by omega) (by omega)
    have m1hi : ∀ k, r.p1 < k → k ≤ right → lt (rd (swp r.mem left r.p1) k) (rd r.mem left) = false := by
      intro k h1 h2
      rw [rd_swp_other _ _ _ k bl bp (by omega) (by omega)]; exact pi.hi k h1 h2
    have w1 : Within (swp r.mem left r.p1) m left (right + 1) :=
      within_trans (within_swp r.mem left r.p1 left (right + 1) (Nat.le_refl _) (by omega) hp1 (by omega) (by omega))
        (within_mono (by omega) (Nat.le_refl _) pw)
    have perm1 : (swp r.mem left r.p1).Perm m := (swp_perm _ _ _ bl bp).trans pp
    generalize swp r.mem left r.p1 = m1 at m1len m1p m1lo m1hi w1 perm1
    generalize hpv : rd r.mem left = pv at m1p m1lo m1hi
    -- left part
    have hleft : ∃ m2, (if left ≠ r.p0 then qsortF lt f m1 left r.p0 else some m1) = some m2 ∧
        Within m2 m1 left r.p1 ∧ SortedSeg lt m2 left r.p1 ∧ m2.Perm m1 := by
      by_cases hl : left = r.p0
      · refine ⟨m1, by simp [hl], within_refl _ _ _, ?_, List.Perm.refl _⟩
        intro i j h1 h2 h3
        rcases pi.h0 with ⟨a, _⟩ | ⟨a, _⟩ <;> omega
      · have hl' : left ≠ r.p0 := hl
        rcases pi.h0 with ⟨a, b⟩ | ⟨a, b⟩
        · exact absurd b.symm hl
        · obtain ⟨m2, q1, q2, q3, q4⟩ := ih m1 left r.p0 (by omega) (by omega) (by omega)
          rw [a] at q2 q3
          exact ⟨m2, by simp only [hl', if_true, ne_eq, not_false_eq_true]; exact q1, q2, q3, q4⟩
    obtain ⟨m2, q1, q2, q3, q4⟩ := hleft
    simp only [q1]
    have m2len : m2.length = m.length := q2.1.trans m1len
    -- right part
    have hright : ∃ m3, (if (if r.p1 ≠ right then r.p1 + 1 else r.p1) ≠ right then
          qsortF lt f m2 (if r.p1 ≠ right then r.p1 + 1 else r.p1) right else some m2) = some m3 ∧
        Within m3 m2 (r.p1 + 1) (right + 1) ∧ SortedSeg lt m3 (r.p1 + 1) (right + 1) ∧ m3.Perm m2 := by
      by_cases hr1 : r.p1 = right
      · refine ⟨m2, by simp [hr1], within_refl _ _ _, ?_, List.Perm.refl _⟩
        intro i j h1 h2 h3; omega
      · by_cases hr2 : r.p1 + 1 = right
        · refine ⟨m2, by simp [hr1, hr2], within_refl _ _ _, ?_, List.Perm.refl _⟩
          intro i j h1 h2 h3; omega
        · obtain ⟨m3, s1, s2, s3, s4⟩ := ih m2 (r.p1 + 1) right (by omega) (by omega) (by omega)
          exact ⟨m3, by simp [hr1, hr2]; exact s1, s2, s3, s4⟩
    obtain ⟨m3, s1, s2, s3, s4⟩ := hright
    refine ⟨m3, s1, ?_, ?_, (s4.trans q4).trans perm1⟩
    · exact within_trans (within_mono (by omega) (Nat.le_refl _) s2)
        (within_trans (within_mono (Nat.le_refl _) (by omega) q2) w1)
    · -- values of the three regions
      have vlo : ∀ k, left ≤ k → k < r.p1 → lt (rd m3 k) pv = true := by
        intro k h1 h2
        rw [s2.2.1 k (Or.inl (by omega))]
        obtain ⟨k', a1, a2, a3⟩ := q2.2.2 k h1 h2
        rw [a3]; exact m1lo k' a1 a2
      have vmid : rd m3 r.p1 = pv := by
        rw [s2.2.1 r.p1 (Or.inl (by omega)), q2.2.1 r.p1 (Or.inr (Nat.le_refl _))]; exact m1p
      have vhi : ∀ k, r.p1 < k → k ≤ right → lt (rd m3 k) pv = false := by
        intro k h1 h2
        obtain ⟨k', a1, a2, a3⟩ := s2.2.2 k (by omega) (by omega)
        rw [a3, q2.2.1 k' (Or.inr (by omega))]; exact m1hi k' (by omega) (by omega)
      intro i j h1 h2 h3
      by_cases ci : i < r.p1
      · by_cases cj : j < r.p1
        · have := q3 i j h1 h2 cj
          rw [s2.2.1 i (Or.inl (by omega)), s2.2.1 j (Or.inl (by omega))]; exact this
        · by_cases cj2 : j = r.p1
          · rw [cj2, vmid]; exact hasymm _ _ (vlo i h1 ci)
          · have a := vlo i h1 ci
            have b := vhi j (by omega) (by omega)
            cases hc : lt (rd m3 j) (rd m3 i) with
            | false => rfl
            | true => rw [htrans _ _ _ hc a] at b; exact absurd b (by simp)
      · by_cases ci2 : i = r.p1
        · rw [ci2, vmid]; exact vhi j (by omega) (by omega)
        · exact s3 i j (by omega) h2 h3

end Nstd.Seq

namespace Nstd.Seq
variable {α : Type} [Inhabited α]

/-- `List::sort()` terminates within its fuel and leaves an ascending permutation -/
theorem sortVals_spec (lt : α → α → Bool)
    (hasymm : ∀ x y, lt x y = true → lt y x = false)
    (htrans : ∀ x y z, lt x y = true → lt y z = true → lt x z = true) (vs : List α) :
    ∃ r, sortVals lt vs = some r ∧ r.Perm vs ∧ r.Pairwise (fun a b => lt b a = false) := by
  unfold sortVals
  by_cases h : vs.length < 2
  · refine ⟨vs, by simp [h], List.Perm.refl _, ?_⟩
    match vs, h with
    | [], _ => exact List.Pairwise.nil
    | [x], _ => simp
    | _ :: _ :: _, h => simp at h; omega
  · obtain ⟨m', e, w, s, p⟩ := qsortF_spec lt hasymm htrans vs.length vs 0 (vs.length - 1)
      (by omega) (by omega) (by omega)
    refine ⟨m', by simp only [h, if_false]; exact e, p, ?_⟩
    rw [List.pairwise_iff_getElem]
    intro i j hi hj hij
    have := s i j (Nat.zero_le _) hij (by have := w.1; omega)
    rw [rd_eq_getElem m' i hi, rd_eq_getElem m' j hj] at this
    exact this

theorem sortVals_int (vs : List Int) :
    sortVals ltInt vs = some (vs.mergeSort (fun a b => decide (a ≤ b))) := by
  obtain ⟨r, e, p, s⟩ := sortVals_spec ltInt
    (by intro x y h; simp only [ltInt, decide_eq_true_eq, decide_eq_false_iff_not] at *; omega)
    (by intro x y z h1 h2; simp only [ltInt, decide_eq_true_eq] at *; omega) vs
  rw [e]
  congr 1
  apply List.Perm.eq_of_pairwise (le := fun a b => decide (a ≤ b) = true)
  · intro a b _ _ h1 h2
    simp only [decide_eq_true_eq] at h1 h2
    omega
  · refine s.imp ?_
    intro a b h
    simp only [ltInt, decide_eq_false_iff_not, decide_eq_true_eq] at *
    omega
  · exact List.pairwise_mergeSort
      (by intro a b c h1 h2; simp only [decide_eq_true_eq] at *; omega)
      (by intro a b; simp only [Bool.or_eq_true, decide_eq_true_eq]; omega) vs
  · exact p.trans (List.mergeSort_perm vs _).symm

end Nstd.Seq
