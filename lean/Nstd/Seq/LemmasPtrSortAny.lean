import Nstd.Seq.LemmasPtrSort
import Nstd.Seq.LemmasSortAny
/-
  The heap-level quicksort for an ARBITRARY comparison function on the element values: it terminates within its
  fuel, follows no null pointer, changes no link (`SameLinks`) and computes what the position-level `sortVals`
  computes.  What a client iterator (an item address) sees afterwards follows from `SameLinks` + `View`.
-/
namespace Nstd.Seq.Ptr

theorem sortP_any (lt : Int → Int → Bool) (p : PList) (xs fs : List Nat) (s : LState) (h : Rep p xs fs s) :
    ∃ p' m', sortP lt p = some p' ∧ sortVals lt s.vals = some m' ∧ View p' xs m' ∧ SameLinks p' p := by
  have hv := view_of_rep p xs fs s h
  by_cases hlen : s.vals.length < 2
  · refine ⟨p, s.vals, ?_, by simp [sortVals, hlen], hv, sameLinks_refl p⟩
    have hl : xs.length < 2 := by rw [← hv.len]; exact hlen
    unfold sortP
    rw [h.endp]
    match xs, hl with
    | [], _ => rfl
    | [x], _ => simp [lastOr, h.beg]
  · have hl : 2 ≤ xs.length := by rw [← hv.len]; omega
    have hne : xs ≠ [] := by intro e; rw [e] at hl; simp at hl
    obtain ⟨m', e, _, _, _⟩ := qsortF_rel lt (fun _ _ => True) (ord3_true lt)
      s.vals.length s.vals 0 (s.vals.length - 1) (by omega) (by omega) (by omega)
    obtain ⟨p', q1, q2, q3⟩ := qsortP_sim xs lt s.vals.length p s.vals 0 (s.vals.length - 1) hv (by omega)
      (by rw [hv.len]; omega) (by omega) m' e
    refine ⟨p', m', ?_, by simp [sortVals, hlen, e], q2, q3⟩
    unfold sortP
    rw [h.endp, lastOr_getD xs hne]
    simp only
    have hb : p.begin = xs.getD 0 0 := by
      rw [h.beg]; cases xs with
      | nil => exact absurd rfl hne
      | cons x xs => rfl
    have : ¬ (p.begin = xs.getD (xs.length - 1) 0) := by
      rw [hb]; intro e'
      have := hv.inj 0 (xs.length - 1) (by omega) (by omega) e'
      omega
    simp only [this, if_false]
    rw [hb, h.sz, ← hv.len]
    exact q1

end Nstd.Seq.Ptr
