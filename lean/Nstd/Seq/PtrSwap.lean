import Nstd.Seq.PtrModel
/-
  `List::swap(List& other)` (List.hpp, the same code in PoolList.hpp) with BOTH lists in one shared heap:
  the two end sentinels are distinct addresses `eA`, `eB` of the same heap, so re-pointing the last item's
  `next` to the sentinel of the new owner (`endItem.prev->next = &endItem`) is visible.
  (`Props.ptr_swap` shows that the two chains are exchanged without touching an item.)
-/
namespace Nstd.Seq.Ptr2

open Nstd.Seq.Ptr (set)

/-- the item heap shared by the two lists (the sentinels' `prev`/`next` fields live in it too) -/
structure Heap where
  val : Nat → Int
  prev : Nat → Option Nat
  next : Nat → Option Nat

/-- the scalar members of one `List` object -/
structure Hdr where
  begin : Nat            -- `_begin.item`
  size : Nat             -- `_size`
  free : Option Nat      -- `freeItem`
  blocks : Nat           -- `blocks` (opaque handle of the block chain)

/-- `A.swap(B)`; `eA`, `eB` are `&A.endItem`, `&B.endItem` -/
def swap (H : Heap) (eA eB : Nat) (A B : Hdr) : Heap × Hdr × Hdr :=
  let tmpFirst := A.begin                                        -- Item* tmpFirst = _begin.item;
  let tmpLast := H.prev eA                                       -- Item* tmpLast = endItem.prev;
  let prev1 := set H.prev eA (H.prev eB)                         -- if((endItem.prev = other.endItem.prev))
  let next1 := match H.prev eB with
    | some l => set H.next l (some eA)                           --   endItem.prev->next = &endItem;
    | none => H.next
  let beginA := match H.prev eB with
    | some _ => B.begin                                          --   _begin.item = other._begin.item;
    | none => eA                                                 -- else _begin.item = &endItem;
  let prev2 := set prev1 eB tmpLast                              -- if((other.endItem.prev = tmpLast))
  let next2 := match tmpLast with
    | some l => set next1 l (some eB)                            --   tmpLast->next = &other.endItem;
    | none => next1
  let beginB := match tmpLast with
    | some _ => tmpFirst                                         --   other._begin.item = tmpFirst;
    | none => eB                                                 -- else other._begin.item = &other.endItem;
  ({ H with prev := prev2, next := next2 },
   { begin := beginA, size := B.size, free := B.free, blocks := B.blocks },     -- _size = other._size; …
   { begin := beginB, size := A.size, free := A.free, blocks := A.blocks })     -- other._size = tmpSize; …

end Nstd.Seq.Ptr2
