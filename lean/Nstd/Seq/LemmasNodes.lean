import Nstd.Seq.Model
/-
  Node-level invariant of the List / PoolList model: the node ids in the chain and in the free list
  are pairwise distinct, all lie inside the allocated blocks, and together they are exactly the
  `bk * nblocks` items of the blocks — no item is ever handed out twice, none is lost.
-/
set_option linter.unusedSectionVars false
namespace Nstd.Seq
namespace LState

/-- all items of the blocks: chain followed by free list -/
def pool (s : LState) : List Nat := s.ids ++ s.free

structure LInv (s : LState) : Prop where
  nodup : s.pool.Nodup
  bound : ∀ id ∈ s.pool, id < s.bk * s.nblocks
  count : s.pool.length = s.bk * s.nblocks
  bkpos : 0 < s.bk

theorem linv_of_perm {s t : LState} (h : LInv s) (p : t.pool.Perm s.pool) (hb : t.nblocks = s.nblocks)
    (hk : t.bk = s.bk) : LInv t :=
  ⟨p.nodup_iff.2 h.nodup, fun id hid => by rw [hb, hk]; exact h.bound id (p.mem_iff.1 hid),
   by rw [p.length_eq, hb, hk]; exact h.count, by rw [hk]; exact h.bkpos⟩

theorem linv_init (k : Nat) (hk : 0 < k) : LInv { bk := k } :=
  ⟨by simp [pool, ids], by simp [pool, ids], by simp [pool, ids], hk⟩

/-- the items of block `b`, in the order in which `allocNode` hands them out -/
def blockIds (k b : Nat) : List Nat := (List.range k).reverse.map (k * b + ·)

theorem blockIds_eq (k b : Nat) (hk : 0 < k) :
    (k * b + (k - 1)) :: (List.range (k - 1)).reverse.map (k * b + ·) = blockIds k b := by
  unfold blockIds
  obtain ⟨j, rfl⟩ : ∃ j, k = j + 1 := ⟨k - 1, by omega⟩
  simp [List.range_succ]

theorem blockIds_nodup (k b : Nat) : (blockIds k b).Nodup := by
  unfold blockIds
  have h1 : (List.range k).reverse.Nodup := (List.reverse_perm _).nodup_iff.2 List.nodup_range
  exact List.Pairwise.map _ (fun a b h e => h (by omega)) h1

theorem blockIds_mem (k b y : Nat) (h : y ∈ blockIds k b) : k * b ≤ y ∧ y < k * (b + 1) := by
  unfold blockIds at h
  simp only [List.mem_map, List.mem_reverse, List.mem_range] at h
  obtain ⟨x, hx, rfl⟩ := h
  rw [Nat.mul_succ]; omega

theorem blockIds_length (k b : Nat) : (blockIds k b).length = k := by simp [blockIds]

theorem insertRaw_inv (s : LState) (pos : Nat) (v : Int) (h : LInv s) : LInv (s.insertRaw pos v).1 := by
  have hperm : ∀ (x : Nat) (rest : List Nat),
      (s.ids.take pos ++ x :: s.ids.drop pos ++ rest).Perm (s.ids ++ x :: rest) := by
    intro x rest
    have h1 : (s.ids.take pos ++ x :: s.ids.drop pos).Perm (x :: s.ids) := by
      have := (List.perm_middle (a := x) (l₁ := s.ids.take pos) (l₂ := s.ids.drop pos))
      simpa using this
    exact (h1.append_right rest).trans (by simpa using (List.perm_middle (a := x) (l₁ := s.ids) (l₂ := rest)).symm)
  cases hf : s.free with
  | cons id rest =>
    have e1 : (s.insertRaw pos v).1.pool = s.ids.take pos ++ id :: s.ids.drop pos ++ rest := by
      simp [pool, ids, insertRaw, allocNode, hf]
    have e2 : (s.insertRaw pos v).1.nblocks = s.nblocks := by simp [insertRaw, allocNode, hf]
    have e3 : (s.insertRaw pos v).1.bk = s.bk := by simp [insertRaw, allocNode, hf]
    refine linv_of_perm h ?_ e2 e3
    rw [e1]; simpa [pool, hf] using hperm id rest
  | nil =>
    have e1 : (s.insertRaw pos v).1.pool =
        s.ids.take pos ++ (s.bk * s.nblocks + (s.bk - 1)) :: s.ids.drop pos ++
          (List.range (s.bk - 1)).reverse.map (s.bk * s.nblocks + ·) := by
      simp [pool, ids, insertRaw, allocNode, hf]
    have e2 : (s.insertRaw pos v).1.nblocks = s.nblocks + 1 := by simp [insertRaw, allocNode, hf]
    have e3 : (s.insertRaw pos v).1.bk = s.bk := by simp [insertRaw, allocNode, hf]
    have p := hperm (s.bk * s.nblocks + (s.bk - 1)) ((List.range (s.bk - 1)).reverse.map (s.bk * s.nblocks + ·))
    rw [blockIds_eq s.bk s.nblocks h.bkpos] at p
    have hpool : s.pool = s.ids := by simp [pool, hf]
    have hb := h.bound
    rw [hpool] at hb
    have hn := h.nodup
    rw [hpool] at hn
    have hc := h.count
    rw [hpool] at hc
    refine ⟨?_, ?_, ?_, by rw [e3]; exact h.bkpos⟩
    · rw [e1, p.nodup_iff, List.nodup_append]
      refine ⟨hn, blockIds_nodup _ _, ?_⟩
      intro a ha b hb'
      have := hb a ha
      have := blockIds_mem _ _ b hb'
      omega
    · intro id hid
      rw [e1, p.mem_iff] at hid
      rw [e2, e3]
      rcases List.mem_append.1 hid with hid | hid
      · have := hb id hid
        rw [Nat.mul_succ]; omega
      · exact (blockIds_mem _ _ id hid).2
    · rw [e1, p.length_eq, e2, e3, List.length_append, blockIds_length, hc, Nat.mul_succ]

theorem insert_inv (s : LState) (pos : Nat) (v : Int) (h : LInv s) (r : Res LState)
    (e : s.insert pos v = some r) : LInv r.st := by
  unfold insert at e
  by_cases c : pos ≤ s.size
  · simp only [c, if_true, Option.some.injEq] at e
    rw [← e]; exact insertRaw_inv s pos v h
  · simp [c] at e

theorem insertMany_inv (vs : List Int) : ∀ (s : LState) (pos : Nat), LInv s → LInv (s.insertMany pos vs).1 := by
  induction vs with
  | nil => intro s pos h; exact h
  | cons v vs ih => intro s pos h; exact ih _ _ (insertRaw_inv s pos v h)

theorem appendAll_inv (vs : List Int) : ∀ (s : LState), LInv s → LInv (s.appendAll vs).1 := by
  induction vs with
  | nil => intro s h; exact h
  | cons v vs ih => intro s h; exact ih _ (insertRaw_inv s _ v h)

theorem insertList_inv (s : LState) (pos : Nat) (vs : List Int) (h : LInv s) (r : Res LState)
    (e : s.insertList pos vs = some r) : LInv r.st := by
  unfold insertList at e
  by_cases c : pos ≤ s.size
  · simp only [c, if_true, Option.some.injEq] at e
    rw [← e]; exact insertMany_inv vs s pos h
  · simp [c] at e

theorem remove_inv (s : LState) (pos : Nat) (h : LInv s) (r : Res LState)
    (e : s.remove pos = some r) : LInv r.st := by
  unfold remove at e
  cases hq : s.nodes[pos]? with
  | none => simp [hq] at e
  | some n =>
    obtain ⟨id, x⟩ := n
    simp only [hq, Option.some.injEq] at e
    rw [← e]
    have hlt : pos < s.nodes.length := by
      rcases Nat.lt_or_ge pos s.nodes.length with hh | hh
      · exact hh
      · rw [List.getElem?_eq_none hh] at hq; cases hq
    have hid : s.ids = s.ids.take pos ++ id :: s.ids.drop (pos + 1) := by
      have hlt' : pos < s.ids.length := by simpa [ids] using hlt
      have : s.ids[pos] = id := by
        have := List.getElem?_eq_getElem hlt
        rw [hq] at this
        simp only [ids, List.getElem_map]
        injection this with this
        rw [← this]
      rw [← this, List.getElem_cons_drop, List.take_append_drop]
    refine linv_of_perm h ?_ rfl rfl
    show (List.map (·.1) (s.nodes.take pos ++ s.nodes.drop (pos + 1)) ++ id :: s.free).Perm (s.ids ++ s.free)
    have e1 : List.map (·.1) (s.nodes.take pos ++ s.nodes.drop (pos + 1)) = s.ids.take pos ++ s.ids.drop (pos + 1) := by
      simp [ids]
    rw [e1]
    conv => rhs; rw [hid]
    have := (List.perm_middle (a := id) (l₁ := s.ids.take pos ++ s.ids.drop (pos + 1)) (l₂ := s.free))
    refine this.trans ?_
    have p2 : (id :: (s.ids.take pos ++ s.ids.drop (pos + 1))).Perm (s.ids.take pos ++ id :: s.ids.drop (pos + 1)) := by
      simpa using (List.perm_middle (a := id) (l₁ := s.ids.take pos) (l₂ := s.ids.drop (pos + 1))).symm
    simpa using p2.append_right s.free

theorem removeValue_inv (s : LState) (v : Int) (h : LInv s) (r : Res LState)
    (e : s.removeValue v = some r) : LInv r.st := by
  unfold removeValue at e
  by_cases c : s.findPos v = s.size
  · simp [c] at e; rw [← e]; exact h
  · simp only [ne_eq, c, not_false_eq_true, if_true] at e
    cases hq : s.remove (s.findPos v) with
    | none => simp [hq] at e
    | some r' =>
      simp only [hq, Option.some.injEq] at e
      rw [← e]; exact remove_inv s _ h r' hq

theorem removeBack_inv (s : LState) (h : LInv s) (r : Res LState) (e : s.removeBack = some r) : LInv r.st := by
  unfold removeBack at e
  by_cases c : s.size = 0
  · simp [c] at e
  · simp only [c, if_false] at e; exact remove_inv s _ h r e

theorem clear_inv (s : LState) (h : LInv s) : LInv s.clear := by
  refine linv_of_perm h ?_ rfl rfl
  show (([] : List (Nat × Int)).map (·.1) ++ (s.ids.reverse ++ s.free)).Perm (s.ids ++ s.free)
  simpa using (List.reverse_perm s.ids).append_right s.free

theorem ids_setVals : ∀ (ns : List (Nat × Int)) (vs : List Int), (setVals ns vs).map (·.1) = ns.map (·.1)
  | [], vs => by cases vs <;> simp [setVals]
  | (id, x) :: ns, [] => by simp [setVals]
  | (id, x) :: ns, v :: vs => by simp [setVals, ids_setVals ns vs]

theorem sort_inv (s : LState) (h : LInv s) (r : Res LState) (e : s.sort = some r) : LInv r.st := by
  unfold sort at e
  cases hq : sortVals ltInt s.vals with
  | none => simp [hq] at e
  | some vs =>
    simp only [hq, Option.some.injEq] at e
    rw [← e]
    refine linv_of_perm h ?_ rfl rfl
    show ((setVals s.nodes vs).map (·.1) ++ s.free).Perm (s.ids ++ s.free)
    rw [ids_setVals]; exact List.Perm.refl _

theorem readonly_inv (s : LState) (h : LInv s) (f : LState → Option (Res LState)) (r : Res LState)
    (hf : ∀ x, f s = some x → x.st = s) (e : f s = some r) : LInv r.st := by
  rw [hf r e]; exact h

end LState

open LState
variable [ArrCfg]

/-- node invariant of the four node containers of the machine -/
def LInvS (s : State) : Prop := LInv s.l0 ∧ LInv s.l1 ∧ LInv s.p0 ∧ LInv s.p1

theorem linvS_getL (s : State) (v : Nat) (h : LInvS s) : LInv (s.getL v) := by
  unfold State.getL; split
  · exact h.1
  · exact h.2.1
theorem linvS_getP (s : State) (v : Nat) (h : LInvS s) : LInv (s.getP v) := by
  unfold State.getP; split
  · exact h.2.2.1
  · exact h.2.2.2
theorem linvS_setL (s : State) (v : Nat) (x : LState) (h : LInvS s) (hx : LInv x) : LInvS (s.setL v x) := by
  unfold State.setL; split
  · exact ⟨hx, h.2⟩
  · exact ⟨h.1, hx, h.2.2⟩
theorem linvS_setP (s : State) (v : Nat) (x : LState) (h : LInvS s) (hx : LInv x) : LInvS (s.setP v x) := by
  unfold State.setP; split
  · exact ⟨h.1, h.2.1, hx, h.2.2.2⟩
  · exact ⟨h.1, h.2.1, h.2.2.1, hx⟩
theorem linvS_setA (s : State) (v : Nat) (x : AState) (h : LInvS s) : LInvS (s.setA v x) := by
  unfold State.setA; split <;> exact h

theorem ite_some {α : Type} {c : Prop} [Decidable c] {a : Option α} {y : α}
    (e : (if c then a else none) = some y) : a = some y := by
  by_cases hc : c
  · simpa [hc] using e
  · simp [hc] at e

theorem liftL_inv (s : State) (v : Nat) (r : Option (Res LState)) (h : LInvS s)
    (hr : ∀ x, r = some x → LInv x.st) (y : Res State) (e : liftL s v r = some y) : LInvS y.st := by
  cases r with
  | none => simp [liftL] at e
  | some x => simp only [liftL, Option.some.injEq] at e; rw [← e]; exact linvS_setL s v _ h (hr x rfl)

theorem liftP_inv (s : State) (v : Nat) (r : Option (Res LState)) (h : LInvS s)
    (hr : ∀ x, r = some x → LInv x.st) (y : Res State) (e : liftP s v r = some y) : LInvS y.st := by
  cases r with
  | none => simp [liftP] at e
  | some x => simp only [liftP, Option.some.injEq] at e; rw [← e]; exact linvS_setP s v _ h (hr x rfl)

theorem liftA_inv (s : State) (v : Nat) (r : Option (Res AState)) (h : LInvS s)
    (y : Res State) (e : liftA s v r = some y) : LInvS y.st := by
  cases r with
  | none => simp [liftA] at e
  | some x => simp only [liftA, Option.some.injEq] at e; rw [← e]; exact linvS_setA s v _ h

theorem map_noRet_inv (r : Option (Res LState)) (hr : ∀ x, r = some x → LInv x.st) :
    ∀ x, r.map (fun x => { x with ret := none }) = some x → LInv x.st := by
  intro x e
  cases r with
  | none => simp at e
  | some z => simp only [Option.map_some, Option.some.injEq] at e; rw [← e]; exact hr z rfl

theorem step_nodes_inv (s : State) (op : Op) (h : LInvS s) (y : Res State) (e : step s op = some y) :
    LInvS y.st := by
  cases op with
  | lappend v x => exact liftL_inv s v _ h (fun r hr => insert_inv _ _ _ (linvS_getL s v h) r hr) y (ite_some e)
  | lprepend v x => exact liftL_inv s v _ h (fun r hr => insert_inv _ _ _ (linvS_getL s v h) r hr) y (ite_some e)
  | linsert v pos x => exact liftL_inv s v _ h (fun r hr => insert_inv _ _ _ (linvS_getL s v h) r hr) y (ite_some e)
  | linsertl v pos => exact liftL_inv s v _ h (fun r hr => insertList_inv _ _ _ (linvS_getL s v h) r hr) y (ite_some e)
  | lappendl v =>
    exact liftL_inv s v _ h (map_noRet_inv _ (fun r hr => insertList_inv _ _ _ (linvS_getL s v h) r hr)) y (ite_some e)
  | lprependl v =>
    exact liftL_inv s v _ h (map_noRet_inv _ (fun r hr => insertList_inv _ _ _ (linvS_getL s v h) r hr)) y (ite_some e)
  | lremove v pos => exact liftL_inv s v _ h (fun r hr => remove_inv _ _ (linvS_getL s v h) r hr) y (ite_some e)
  | lremovev v x => exact liftL_inv s v _ h (fun r hr => removeValue_inv _ _ (linvS_getL s v h) r hr) y (ite_some e)
  | lremoveFront v => exact liftL_inv s v _ h (fun r hr => remove_inv _ _ (linvS_getL s v h) r hr) y (ite_some e)
  | lremoveBack v => exact liftL_inv s v _ h (fun r hr => removeBack_inv _ (linvS_getL s v h) r hr) y (ite_some e)
  | lclear v =>
    have := ite_some e
    simp only [Option.some.injEq] at this
    rw [← this]; exact linvS_setL s v _ h (clear_inv _ (linvS_getL s v h))
  | lswap v =>
    have := ite_some e
    simp only [Option.some.injEq] at this
    rw [← this]
    exact linvS_setL _ _ _ (linvS_setL s v _ h (linvS_getL s _ h)) (linvS_getL s v h)
  | lcopy v =>
    have := ite_some e
    simp only [Option.some.injEq] at this
    rw [← this]; exact linvS_setL s v _ h (appendAll_inv _ _ (linv_init _ (linvS_getL s v h).bkpos))
  | lassign v =>
    have := ite_some e
    simp only [Option.some.injEq] at this
    rw [← this]; exact linvS_setL s v _ h (appendAll_inv _ _ (clear_inv _ (linvS_getL s v h)))
  | lfind v x =>
    exact liftL_inv s v _ h (fun r hr => by simp only [find, Option.some.injEq] at hr; rw [← hr]; exact linvS_getL s v h) y (ite_some e)
  | leq v w =>
    have := ite_some e
    simp only [Option.some.injEq] at this
    rw [← this]; exact h
  | lfront v =>
    exact liftL_inv s v _ h (fun r hr => by
      unfold front at hr
      cases hq : (s.getL v).vals.head? with
      | none => simp [hq] at hr
      | some z => simp only [hq, Option.some.injEq] at hr; rw [← hr]; exact linvS_getL s v h) y (ite_some e)
  | lback v =>
    exact liftL_inv s v _ h (fun r hr => by
      unfold back at hr
      cases hq : (s.getL v).vals.getLast? with
      | none => simp [hq] at hr
      | some z => simp only [hq, Option.some.injEq] at hr; rw [← hr]; exact linvS_getL s v h) y (ite_some e)
  | lsort v => exact liftL_inv s v _ h (fun r hr => sort_inv _ (linvS_getL s v h) r hr) y (ite_some e)
  | pappend v x => exact liftP_inv s v _ h (fun r hr => insert_inv _ _ _ (linvS_getP s v h) r hr) y (ite_some e)
  | premove v pos => exact liftP_inv s v _ h (fun r hr => remove_inv _ _ (linvS_getP s v h) r hr) y (ite_some e)
  | premovev v pos =>
    exact liftP_inv s v _ h (map_noRet_inv _ (fun r hr => remove_inv _ _ (linvS_getP s v h) r hr)) y (ite_some e)
  | premoveFront v => exact liftP_inv s v _ h (fun r hr => remove_inv _ _ (linvS_getP s v h) r hr) y (ite_some e)
  | premoveBack v => exact liftP_inv s v _ h (fun r hr => removeBack_inv _ (linvS_getP s v h) r hr) y (ite_some e)
  | pclear v =>
    have := ite_some e
    simp only [Option.some.injEq] at this
    rw [← this]; exact linvS_setP s v _ h (clear_inv _ (linvS_getP s v h))
  | pswap v =>
    have := ite_some e
    simp only [Option.some.injEq] at this
    rw [← this]
    exact linvS_setP _ _ _ (linvS_setP s v _ h (linvS_getP s _ h)) (linvS_getP s v h)
  | pfront v =>
    exact liftP_inv s v _ h (fun r hr => by
      unfold front at hr
      cases hq : (s.getP v).vals.head? with
      | none => simp [hq] at hr
      | some z => simp only [hq, Option.some.injEq] at hr; rw [← hr]; exact linvS_getP s v h) y (ite_some e)
  | pback v =>
    exact liftP_inv s v _ h (fun r hr => by
      unfold back at hr
      cases hq : (s.getP v).vals.getLast? with
      | none => simp [hq] at hr
      | some z => simp only [hq, Option.some.injEq] at hr; rw [← hr]; exact linvS_getP s v h) y (ite_some e)
  | anew v =>
    have := ite_some e
    simp only [Option.some.injEq] at this
    rw [← this]; exact linvS_setA s v _ h
  | anewcap v n =>
    have := ite_some e
    simp only [Option.some.injEq] at this
    rw [← this]; exact linvS_setA s v _ h
  | acopy v =>
    have := ite_some e
    cases hq : AState.copyFrom {} (s.getA (1 - v)) with
    | none => simp [hq] at this
    | some z => simp only [hq, Option.some.injEq] at this; rw [← this]; exact linvS_setA s v _ h
  | aassign v => exact liftA_inv s v _ h y (ite_some e)
  | areserve v n =>
    have := ite_some e
    simp only [Option.some.injEq] at this
    rw [← this]; exact linvS_setA s v _ h
  | aresize v n x => exact liftA_inv s v _ h y (ite_some e)
  | aresized v n => exact liftA_inv s v _ h y (ite_some e)
  | aappend v x => exact liftA_inv s v _ h y (ite_some e)
  | aappenda v => exact liftA_inv s v _ h y (ite_some e)
  | aappendn v xs => exact liftA_inv s v _ h y (ite_some e)
  | aremovei v i => exact liftA_inv s v _ h y (ite_some e)
  | aremove v pos => exact liftA_inv s v _ h y (ite_some e)
  | aremoveFront v => exact liftA_inv s v _ h y (ite_some e)
  | aremoveBack v => exact liftA_inv s v _ h y (ite_some e)
  | aclear v =>
    have := ite_some e
    simp only [Option.some.injEq] at this
    rw [← this]; exact linvS_setA s v _ h
  | aswap v =>
    have := ite_some e
    simp only [Option.some.injEq] at this
    rw [← this]; exact linvS_setA _ _ _ (linvS_setA s v _ h)
  | afind v x => exact liftA_inv s v _ h y (ite_some e)
  | aget v i => exact liftA_inv s v _ h y (ite_some e)
  | afront v => exact liftA_inv s v _ h y (ite_some e)
  | aback v => exact liftA_inv s v _ h y (ite_some e)
  | lappendself v =>
    exact liftL_inv s v _ h (map_noRet_inv _ (fun r hr => insertList_inv _ _ _ (linvS_getL s v h) r hr)) y (ite_some e)
  | lprependself v =>
    exact liftL_inv s v _ h (map_noRet_inv _ (fun r hr => insertList_inv _ _ _ (linvS_getL s v h) r hr)) y (ite_some e)
  | linsertself v pos => exact liftL_inv s v _ h (fun r hr => insertList_inv _ _ _ (linvS_getL s v h) r hr) y (ite_some e)
  | lassignself v =>
    have := ite_some e
    simp only [Option.some.injEq] at this
    rw [← this]; exact h
  | aappendself v => exact liftA_inv s v _ h y (ite_some e)
  | aappendref v i => exact liftA_inv s v _ h y (ite_some e)
  | aresizeref v n i => exact liftA_inv s v _ h y (ite_some e)
  | aappendsub v i n => exact liftA_inv s v _ h y (ite_some e)
  | aassignself v =>
    have := ite_some e
    simp only [Option.some.injEq] at this
    rw [← this]; exact h
  | aeq v w =>
    have := ite_some e
    simp only [Option.some.injEq] at this
    rw [← this]; exact h

theorem run_nodes_inv (ops : List Op) : ∀ (s : State), LInvS s → LInvS (run s ops) := by
  induction ops with
  | nil => intro s h; exact h
  | cons op ops ih =>
    intro s h
    unfold run
    cases hq : step s op with
    | none => exact ih s h
    | some r => exact ih r.st (step_nodes_inv s op h r hq)

end Nstd.Seq
