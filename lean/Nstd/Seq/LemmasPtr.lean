import Nstd.Seq.PtrModel
/-
  The pointer-level `insert` / `remove` of PtrModel.lean maintain the doubly linked chain and the
  free list, and do to them what the chain model (`LState`) does.
-/
namespace Nstd.Seq.Ptr

theorem set_same {β : Type} (f : Nat → β) (a : Nat) (v : β) : set f a v a = v := by simp [set]
theorem set_ne {β : Type} (f : Nat → β) (a k : Nat) (v : β) (h : k ≠ a) : set f a v k = f k := by simp [set, h]

/-- last item of `xs`, or `pr` when `xs` is empty -/
def lastOr : List Nat → Option Nat → Option Nat
  | [], pr => pr
  | x :: xs, _ => lastOr xs (some x)

theorem lastOr_append (a c : List Nat) : ∀ pr, lastOr (a ++ c) pr = lastOr c (lastOr a pr) := by
  induction a with
  | nil => intro pr; rfl
  | cons x a ih => intro pr; simp [lastOr, ih]

theorem lastOr_of_ne_nil (b : List Nat) (h : b ≠ []) (pr pr' : Option Nat) : lastOr b pr = lastOr b pr' := by
  cases b with
  | nil => exact absurd rfl h
  | cons x b => rfl

/-- the items `xs`, doubly linked in this order, the first one having predecessor `pr`, the last one
    pointing to `t` -/
def Seg (p : PList) : Option Nat → List Nat → Nat → Prop
  | _, [], _ => True
  | pr, x :: xs, t => x ≠ 0 ∧ p.prev x = pr ∧ p.next x = some (xs.headD t) ∧ Seg p (some x) xs t

/-- the free list: linked through `prev` -/
def FreeChain (p : PList) : Option Nat → List Nat → Prop
  | f, [] => f = none
  | f, x :: xs => f = some x ∧ x ≠ 0 ∧ FreeChain p (p.prev x) xs

theorem headD_append (a b : List Nat) (t : Nat) : (a ++ b).headD t = a.headD (b.headD t) := by
  cases a <;> rfl

theorem seg_append (p : PList) (a b : List Nat) (t : Nat) : ∀ pr,
    Seg p pr (a ++ b) t ↔ Seg p pr a (b.headD t) ∧ Seg p (lastOr a pr) b t := by
  induction a with
  | nil => intro pr; simp [Seg, lastOr]
  | cons x a ih =>
    intro pr
    simp only [List.cons_append, Seg, lastOr, ih, headD_append]
    constructor
    · rintro ⟨h1, h2, h3, h4, h5⟩; exact ⟨⟨h1, h2, h3, h4⟩, h5⟩
    · rintro ⟨⟨h1, h2, h3, h4⟩, h5⟩; exact ⟨h1, h2, h3, h4, h5⟩

theorem seg_congr (p p' : PList) (xs : List Nat) (t : Nat) : ∀ pr,
    (∀ x ∈ xs, p'.prev x = p.prev x ∧ p'.next x = p.next x) → Seg p pr xs t → Seg p' pr xs t := by
  induction xs with
  | nil => intro _ _ _; trivial
  | cons x xs ih =>
    intro pr hc h
    obtain ⟨h1, h2, h3, h4⟩ := h
    have := hc x (List.mem_cons_self)
    exact ⟨h1, by rw [this.1]; exact h2, by rw [this.2]; exact h3,
      ih _ (fun y hy => hc y (List.mem_cons_of_mem _ hy)) h4⟩

theorem freechain_congr (p p' : PList) (fs : List Nat) : ∀ f,
    (∀ x ∈ fs, p'.prev x = p.prev x) → FreeChain p f fs → FreeChain p' f fs := by
  induction fs with
  | nil => intro f _ h; exact h
  | cons x fs ih =>
    intro f hc h
    obtain ⟨h1, h2, h3⟩ := h
    refine ⟨h1, h2, ?_⟩
    rw [hc x List.mem_cons_self]
    exact ih _ (fun y hy => hc y (List.mem_cons_of_mem _ hy)) h3

theorem seg_ne_zero (p : PList) (xs : List Nat) (t : Nat) : ∀ pr, Seg p pr xs t → ∀ x ∈ xs, x ≠ 0 := by
  induction xs with
  | nil => intro _ _ x hx; cases hx
  | cons y xs ih =>
    intro pr h x hx
    obtain ⟨h1, _, _, h4⟩ := h
    rcases List.mem_cons.1 hx with e | e
    · rw [e]; exact h1
    · exact ih _ h4 x e

theorem freechain_ne_zero (p : PList) (fs : List Nat) : ∀ f, FreeChain p f fs → ∀ x ∈ fs, x ≠ 0 := by
  induction fs with
  | nil => intro _ _ x hx; cases hx
  | cons y fs ih =>
    intro f h x hx
    obtain ⟨_, h2, h3⟩ := h
    rcases List.mem_cons.1 hx with e | e
    · rw [e]; exact h2
    · exact ih _ h3 x e

theorem exists_snoc (a : List Nat) (h : a ≠ []) : ∃ a' q, a = a' ++ [q] :=
  ⟨a.dropLast, a.getLast h, (List.dropLast_concat_getLast h).symm⟩

/-- representation: the heap `p` holds the chain `xs` and the free list `fs`, which are those of the
    chain-model state `s` (node id = address - 1) -/
structure Rep (p : PList) (xs fs : List Nat) (s : LState) : Prop where
  seg : Seg p none xs 0
  endp : p.prev 0 = lastOr xs none
  beg : p.begin = xs.headD 0
  fr : FreeChain p p.free fs
  nd : (xs ++ fs).Nodup
  nodes : s.nodes = xs.map (fun x => (x - 1, p.val x))
  free : s.free = fs.map (· - 1)
  nb : p.nblocks = s.nblocks
  sz : p.size = xs.length
  bound : ∀ x ∈ xs ++ fs, x ≤ p.bk * p.nblocks
  cnt : (xs ++ fs).length = p.bk * p.nblocks
  bk : p.bk = s.bk
  bkpos : 0 < p.bk

theorem rep_init (k : Nat) (hk : 0 < k) : Rep (init k) [] [] { bk := k } :=
  ⟨trivial, rfl, rfl, rfl, by simp, rfl, rfl, rfl, rfl, by simp, by simp [init], rfl, hk⟩

end Nstd.Seq.Ptr

namespace Nstd.Seq.Ptr

theorem nodup_insert_mid (a b fs : List Nat) (f : Nat) (h : (a ++ b ++ f :: fs).Nodup) :
    (a ++ f :: b ++ fs).Nodup := by
  have p : (a ++ f :: b ++ fs).Perm (a ++ b ++ f :: fs) := by
    have h1 : (a ++ f :: b).Perm (f :: (a ++ b)) := List.perm_middle
    have h2 : (a ++ b ++ f :: fs).Perm (f :: (a ++ b) ++ fs) := by
      simpa using (List.perm_middle (a := f) (l₁ := a ++ b) (l₂ := fs))
    exact (h1.append_right fs).trans h2.symm
  exact p.nodup_iff.2 h

/-- linking the head `f` of the free list in front of position `k` of the chain -/
theorem link_rep (p : PList) (xs fs : List Nat) (f : Nat) (s : LState) (h : Rep p xs (f :: fs) s)
    (k : Nat) (_hk : k ≤ xs.length) (v : Int) :
    Rep (link p f ((xs.drop k).headD 0) v) (xs.take k ++ f :: xs.drop k) fs
      { s with nodes := s.nodes.take k ++ (f - 1, v) :: s.nodes.drop k, free := s.free.tail } := by
  -- names
  generalize ha : xs.take k = a
  generalize hb : xs.drop k = b
  have hx : xs = a ++ b := by rw [← ha, ← hb, List.take_append_drop]
  have hnd := h.nd
  rw [hx] at hnd
  have hnd' : (a ++ b ++ f :: fs).Nodup := by simpa using hnd
  -- facts about f, t
  have hfr := h.fr
  obtain ⟨hf1, hf0, hf3⟩ := hfr
  have hseg := h.seg
  rw [hx, seg_append] at hseg
  obtain ⟨sa, sb⟩ := hseg
  have xs_nz : ∀ x ∈ a ++ b, x ≠ 0 := by
    have := seg_ne_zero p xs 0 none h.seg
    rw [hx] at this; exact this
  have f_notin : f ∉ a ++ b := by
    intro hm
    have := (List.nodup_append.1 hnd').2.2 f hm f List.mem_cons_self
    exact this rfl
  have f_notin_fs : f ∉ fs := by
    have := (List.nodup_append.1 hnd').2.1
    exact (List.nodup_cons.1 this).1
  have fs_disj : ∀ x ∈ fs, x ∉ a ++ b := by
    intro x hx' hm
    exact (List.nodup_append.1 hnd').2.2 x hm x (List.mem_cons_of_mem _ hx') rfl
  have fs_nz : ∀ x ∈ fs, x ≠ 0 := freechain_ne_zero p fs _ hf3
  have t_ne_f : b.headD 0 ≠ f := by
    cases b with
    | nil => exact fun e => hf0 e.symm
    | cons y b' => intro e; apply f_notin; simp only [List.headD_cons] at e; rw [← e]; simp
  have ipp_eq : p.prev (b.headD 0) = lastOr a none := by
    cases b with
    | nil =>
      have := h.endp
      rw [hx, lastOr_append] at this
      simpa [lastOr] using this
    | cons y b' => exact sb.2.1
  have nd_a : a.Nodup := (List.nodup_append.1 (List.nodup_append.1 hnd').1).1
  have ab_disj : ∀ x ∈ a, x ∉ b := fun x hx' hm =>
    (List.nodup_append.1 (List.nodup_append.1 hnd').1).2.2 x hx' x hm rfl
  -- the fields of the new heap
  have prev_f : (link p f (b.headD 0) v).prev f = lastOr a none := by
    simp only [link]; rw [set_ne _ _ _ _ (Ne.symm t_ne_f), set_same]; exact ipp_eq
  have prev_t : (link p f (b.headD 0) v).prev (b.headD 0) = some f := by
    simp only [link]; rw [set_same]
  have prev_o : ∀ x, x ≠ f → x ≠ b.headD 0 → (link p f (b.headD 0) v).prev x = p.prev x := by
    intro x h1 h2; simp only [link]; rw [set_ne _ _ _ _ h2, set_ne _ _ _ _ h1]
  have next_f : (link p f (b.headD 0) v).next f = some (b.headD 0) := by
    simp only [link]; rw [set_same]
  have next_o : ∀ x, x ≠ f → lastOr a none ≠ some x → (link p f (b.headD 0) v).next x = p.next x := by
    intro x h1 h2
    simp only [link]; rw [set_ne _ _ _ _ h1, ipp_eq]
    cases hq : lastOr a none with
    | none => rfl
    | some q =>
      simp only
      rw [set_ne]
      intro e; rw [hq, e] at h2; exact h2 rfl
  have next_q : ∀ q, lastOr a none = some q → q ≠ f → (link p f (b.headD 0) v).next q = some f := by
    intro q hq h1
    simp only [link]; rw [set_ne _ _ _ _ h1, ipp_eq, hq]; simp only; rw [set_same]
  have val_f : (link p f (b.headD 0) v).val f = v := by simp only [link]; rw [set_same]
  have val_o : ∀ x, x ≠ f → (link p f (b.headD 0) v).val x = p.val x := by
    intro x h1; simp only [link]; rw [set_ne _ _ _ _ h1]
  have x_ne_f : ∀ x ∈ a ++ b, x ≠ f := fun x hm e => f_notin (e ▸ hm)
  -- segment a, retargeted to f
  have seg_a : Seg (link p f (b.headD 0) v) none a f := by
    by_cases ea : a = []
    · subst ea; trivial
    · obtain ⟨a', q, e⟩ := exists_snoc a ea
      subst e
      have hl : lastOr (a' ++ [q]) none = some q := by rw [lastOr_append]; rfl
      rw [seg_append] at sa ⊢
      obtain ⟨s1, s2⟩ := sa
      have q_mem : q ∈ a' ++ [q] := by simp
      have q_notin : q ∉ a' := by
        intro hm
        have := (List.nodup_append.1 nd_a).2.2 q hm q (by simp)
        exact this rfl
      have q_ne_t : q ≠ b.headD 0 := by
        cases b with
        | nil => exact xs_nz q (by simp)
        | cons y b' => intro e; exact ab_disj q q_mem (by simp only [List.headD_cons] at e; rw [e]; simp)
      refine ⟨seg_congr p _ a' q none ?_ s1, ?_⟩
      · intro x hm
        have x_in : x ∈ (a' ++ [q]) ++ b := by simp [hm]
        have x_ne_q : x ≠ q := fun e => q_notin (e ▸ hm)
        have x_ne_t : x ≠ b.headD 0 := by
          cases b with
          | nil => exact xs_nz x x_in
          | cons y b' =>
            intro e; exact ab_disj x (by simp [hm]) (by simp only [List.headD_cons] at e; rw [e]; simp)
        refine ⟨prev_o x (x_ne_f x x_in) x_ne_t, next_o x (x_ne_f x x_in) ?_⟩
        rw [hl]; intro e; injection e with e; exact x_ne_q e.symm
      · obtain ⟨t1, t2, _, _⟩ := s2
        have q_in : q ∈ (a' ++ [q]) ++ b := by simp
        exact ⟨t1, by rw [prev_o q (x_ne_f q q_in) q_ne_t]; exact t2,
          by rw [next_q q hl (x_ne_f q q_in)]; rfl, trivial⟩
  -- segment f :: b
  have seg_b : Seg (link p f (b.headD 0) v) (lastOr a none) (f :: b) 0 := by
    refine ⟨hf0, prev_f, next_f, ?_⟩
    cases b with
    | nil => trivial
    | cons y b' =>
      obtain ⟨t1, t2, t3, t4⟩ := sb
      have y_in : y ∈ a ++ y :: b' := by simp
      have nd_b : (y :: b').Nodup := (List.nodup_append.1 (List.nodup_append.1 hnd').1).2.1
      have y_not_last : lastOr a none ≠ some y := by
        intro e
        by_cases ea : a = []
        · subst ea; simp [lastOr] at e
        · obtain ⟨a', q, e'⟩ := exists_snoc a ea
          subst e'
          rw [lastOr_append] at e
          simp only [lastOr] at e
          injection e with e
          exact ab_disj q (by simp) (by rw [e]; simp)
      refine ⟨t1, prev_t, by rw [next_o y (x_ne_f y y_in) y_not_last]; exact t3, ?_⟩
      refine seg_congr p _ b' 0 (some y) ?_ t4
      intro x hm
      have x_in : x ∈ a ++ y :: b' := by simp [hm]
      have x_ne_y : x ≠ y := fun e => (List.nodup_cons.1 nd_b).1 (e ▸ hm)
      refine ⟨prev_o x (x_ne_f x x_in) (by simpa using x_ne_y), next_o x (x_ne_f x x_in) ?_⟩
      intro e
      by_cases ea : a = []
      · subst ea; simp [lastOr] at e
      · obtain ⟨a', q, e'⟩ := exists_snoc a ea
        subst e'
        rw [lastOr_append] at e
        simp only [lastOr] at e
        injection e with e
        exact ab_disj q (by simp) (by rw [e]; simp [hm])
  refine ⟨?_, ?_, ?_, ?_, ?_, ?_, ?_, ?_, ?_, ?_, ?_, h.bk, h.bkpos⟩
  · rw [seg_append]; exact ⟨seg_a, seg_b⟩
  · rw [lastOr_append]
    cases b with
    | nil => simpa [lastOr] using prev_t
    | cons y b' =>
      have : (0 : Nat) ≠ f := fun e => hf0 e.symm
      have h0 : (0 : Nat) ≠ (y :: b').headD 0 := by
        simp only [List.headD_cons]; exact fun e => xs_nz y (by simp) e.symm
      rw [prev_o 0 this h0, h.endp, hx, lastOr_append]
      simp [lastOr]
  · show (link p f (b.headD 0) v).begin = _
    simp only [link, ipp_eq]
    cases a with
    | nil => simp [lastOr]
    | cons x a' =>
      have : ∃ q, lastOr (x :: a') none = some q := by
        obtain ⟨a'', q, e⟩ := exists_snoc (x :: a') (by simp)
        exact ⟨q, by rw [e, lastOr_append]; rfl⟩
      obtain ⟨q, hq⟩ := this
      rw [hq]; simp only
      rw [h.beg, hx]; rfl
  · show FreeChain _ (p.prev f) fs
    refine freechain_congr p _ fs _ ?_ hf3
    intro x hm
    refine prev_o x (fun e => f_notin_fs (e ▸ hm)) ?_
    cases b with
    | nil => exact fs_nz x hm
    | cons y b' => intro e; exact fs_disj x hm (by simp only [List.headD_cons] at e; rw [e]; simp)
  · exact nodup_insert_mid a b fs f hnd'
  · show s.nodes.take k ++ (f - 1, v) :: s.nodes.drop k = _
    rw [h.nodes, ← List.map_take, ← List.map_drop, ha, hb]
    simp only [List.map_append, List.map_cons, val_f]
    congr 1
    · apply List.map_congr_left; intro x hm; rw [val_o x (x_ne_f x (by simp [hm]))]
    · congr 1
      apply List.map_congr_left; intro x hm; rw [val_o x (x_ne_f x (by simp [hm]))]
  · show s.free.tail = _
    rw [h.free]; rfl
  · exact h.nb
  · show p.size + 1 = _
    rw [h.sz, hx]; simp; omega
  · intro x hm
    have : x ∈ xs ++ f :: fs := by
      rw [hx]
      simp only [List.mem_append, List.mem_cons] at hm ⊢
      rcases hm with (hm | hm | hm) | hm
      · exact Or.inl (Or.inl hm)
      · exact Or.inr (Or.inl hm)
      · exact Or.inl (Or.inr hm)
      · exact Or.inr (Or.inr hm)
    exact h.bound x this
  · have := h.cnt
    rw [hx] at this
    show (a ++ f :: b ++ fs).length = p.bk * p.nblocks
    simp only [List.length_append, List.length_cons] at this ⊢
    omega

end Nstd.Seq.Ptr

namespace Nstd.Seq.Ptr

/-- the addresses `k*b + j, …, k*b + 1` -/
def descAddrs (k b j : Nat) : List Nat := (List.range j).reverse.map (k * b + 1 + ·)

theorem descAddrs_succ (k b j : Nat) : descAddrs k b (j + 1) = (k * b + 1 + j) :: descAddrs k b j := by
  simp [descAddrs, List.range_succ]

theorem descAddrs_mem (k b j x : Nat) (h : x ∈ descAddrs k b j) : k * b < x ∧ x ≤ k * b + j := by
  simp only [descAddrs, List.mem_map, List.mem_reverse, List.mem_range] at h
  obtain ⟨y, hy, rfl⟩ := h
  omega

theorem descAddrs_nodup (k b j : Nat) : (descAddrs k b j).Nodup := by
  have h1 : (List.range j).reverse.Nodup := (List.reverse_perm _).nodup_iff.2 List.nodup_range
  exact List.Pairwise.map _ (fun a c h e => h (by omega)) h1

theorem descAddrs_map_pred (k b j : Nat) :
    (descAddrs k b j).map (· - 1) = (List.range j).reverse.map (k * b + ·) := by
  simp only [descAddrs, List.map_map]
  apply List.map_congr_left
  intro x _
  simp only [Function.comp]
  omega

theorem refill_freechain (p : PList) : ∀ j, j ≤ p.bk →
    FreeChain (refill p) (if j = 0 then none else some (p.bk * p.nblocks + j)) (descAddrs p.bk p.nblocks j) := by
  intro j
  induction j with
  | zero => intro _; simp [descAddrs, FreeChain]
  | succ j ih =>
    intro hj
    rw [descAddrs_succ]
    refine ⟨by simp; omega, by omega, ?_⟩
    have hp : (refill p).prev (p.bk * p.nblocks + 1 + j) = (if j = 0 then none else some (p.bk * p.nblocks + j)) := by
      simp only [refill]
      have c1 : p.bk * p.nblocks < p.bk * p.nblocks + 1 + j ∧ p.bk * p.nblocks + 1 + j ≤ p.bk * p.nblocks + p.bk := by omega
      simp only [c1, and_self, if_true]
      by_cases hj0 : j = 0
      · simp [hj0]
      · have : ¬ (p.bk * p.nblocks + 1 + j = p.bk * p.nblocks + 1) := by omega
        simp only [this, if_false, hj0]
        congr 1; omega
    rw [hp]
    exact ih (by omega)

/-- allocating a block when the free list is empty -/
theorem refill_rep (p : PList) (xs : List Nat) (s : LState) (h : Rep p xs [] s) :
    Rep (refill p) xs (descAddrs p.bk p.nblocks p.bk)
      { s with free := (List.range s.bk).reverse.map (s.bk * s.nblocks + ·), nblocks := s.nblocks + 1 } := by
  have hb : ∀ x ∈ xs, x ≤ p.bk * p.nblocks := fun x hx => h.bound x (by simp [hx])
  have prev_o : ∀ x, x ≤ p.bk * p.nblocks → (refill p).prev x = p.prev x := by
    intro x hx
    simp only [refill]
    have : ¬ (p.bk * p.nblocks < x ∧ x ≤ p.bk * p.nblocks + p.bk) := by omega
    simp only [this, if_false]
  have hfc := refill_freechain p p.bk (Nat.le_refl _)
  have hk0 : ¬ p.bk = 0 := by have := h.bkpos; omega
  simp only [hk0, if_false] at hfc
  refine ⟨?_, ?_, ?_, ?_, ?_, ?_, ?_, ?_, ?_, ?_, ?_, h.bk, h.bkpos⟩
  · exact seg_congr p _ xs 0 none (fun x hx => ⟨prev_o x (hb x hx), rfl⟩) h.seg
  · rw [prev_o 0 (by omega)]; exact h.endp
  · exact h.beg
  · exact hfc
  · have nx : xs.Nodup := by simpa using h.nd
    rw [List.nodup_append]
    refine ⟨nx, descAddrs_nodup _ _ _, ?_⟩
    intro a ha c hc
    have := hb a ha
    have := descAddrs_mem _ _ _ c hc
    omega
  · exact h.nodes
  · show (List.range s.bk).reverse.map (s.bk * s.nblocks + ·) = _
    rw [descAddrs_map_pred, h.bk, h.nb]
  · show p.nblocks + 1 = s.nblocks + 1
    rw [h.nb]
  · exact h.sz
  · intro x hx
    show x ≤ p.bk * (p.nblocks + 1)
    rw [Nat.mul_succ]
    rcases List.mem_append.1 hx with hx | hx
    · have := hb x hx; omega
    · have := descAddrs_mem _ _ _ x hx; omega
  · have := h.cnt
    show (xs ++ descAddrs p.bk p.nblocks p.bk).length = p.bk * (p.nblocks + 1)
    simp only [List.append_nil] at this
    rw [List.length_append, this, Nat.mul_succ]
    simp [descAddrs]

/-- `insert` on the heap does what `insertRaw` does on the chain model; the returned item is the
    new node, which sits at position `k` of the new chain -/
theorem insert_rep (p : PList) (xs fs : List Nat) (s : LState) (h : Rep p xs fs s)
    (k : Nat) (hk : k ≤ xs.length) (v : Int) :
    ∃ p' item fs', insert p ((xs.drop k).headD 0) v = some (p', item) ∧
      Rep p' (xs.take k ++ item :: xs.drop k) fs' (s.insertRaw k v).1 ∧
      (xs.take k ++ item :: xs.drop k)[k]? = some item := by
  have getk : ∀ item, (xs.take k ++ item :: xs.drop k)[k]? = some item := by
    intro item
    have : (xs.take k).length = k := by simp; omega
    rw [List.getElem?_append_right (by omega)]; simp [this]
  cases fs with
  | cons f fs' =>
    have hfree : p.free = some f := h.fr.1
    have hsfree : s.free = (f - 1) :: fs'.map (· - 1) := by rw [h.free]; rfl
    refine ⟨link p f ((xs.drop k).headD 0) v, f, fs', ?_, ?_, getk f⟩
    · simp [insert, hfree]
    · have := link_rep p xs fs' f s h k hk v
      have e : (s.insertRaw k v).1 =
          { s with nodes := s.nodes.take k ++ (f - 1, v) :: s.nodes.drop k, free := s.free.tail } := by
        simp [LState.insertRaw, LState.allocNode, hsfree]
      rw [e]; exact this
  | nil =>
    have hfree : p.free = none := h.fr
    have hsfree : s.free = [] := by rw [h.free]; rfl
    have hr := refill_rep p xs s h
    obtain ⟨j, hj⟩ : ∃ j, p.bk = j + 1 := ⟨p.bk - 1, by have := h.bkpos; omega⟩
    have hd : descAddrs p.bk p.nblocks p.bk = (p.bk * p.nblocks + p.bk) :: descAddrs p.bk p.nblocks j := by
      conv => lhs; rw [show descAddrs p.bk p.nblocks p.bk = descAddrs p.bk p.nblocks (j + 1) by rw [← hj]]
      rw [descAddrs_succ]; congr 1; omega
    rw [hd] at hr
    have := link_rep (refill p) xs _ (p.bk * p.nblocks + p.bk) _ hr k hk v
    refine ⟨link (refill p) (p.bk * p.nblocks + p.bk) ((xs.drop k).headD 0) v, p.bk * p.nblocks + p.bk,
      descAddrs p.bk p.nblocks j, ?_, ?_, getk _⟩
    · simp [insert, hfree, refill]
    · have hsk : s.bk = j + 1 := by rw [← h.bk]; exact hj
      have harith : p.bk * p.nblocks + p.bk - 1 = s.bk * s.nblocks + (s.bk - 1) := by
        rw [← h.bk, ← h.nb]; have := h.bkpos; omega
      have e : (s.insertRaw k v).1 =
          { s with nodes := s.nodes.take k ++ (p.bk * p.nblocks + p.bk - 1, v) :: s.nodes.drop k,
                   free := (List.range (s.bk - 1)).reverse.map (s.bk * s.nblocks + ·), nblocks := s.nblocks + 1 } := by
        simp only [LState.insertRaw, LState.allocNode, hsfree, harith]
      rw [e]
      have htail : ∀ (c n : Nat), ((List.range (n + 1)).reverse.map (c + ·)).tail = (List.range n).reverse.map (c + ·) := by
        intro c n; simp [List.range_succ]
      have hfree' : ((List.range s.bk).reverse.map (s.bk * s.nblocks + ·)).tail =
          (List.range (s.bk - 1)).reverse.map (s.bk * s.nblocks + ·) := by
        have := htail (s.bk * s.nblocks) (s.bk - 1)
        rwa [show s.bk - 1 + 1 = s.bk by omega] at this
      have hs' : ({ s with free := (List.range s.bk).reverse.map (s.bk * s.nblocks + ·), nblocks := s.nblocks + 1 } : LState).free.tail
          = (List.range (s.bk - 1)).reverse.map (s.bk * s.nblocks + ·) := hfree'
      rw [hs'] at this
      exact this

end Nstd.Seq.Ptr

namespace Nstd.Seq.Ptr

theorem nodup_remove_mid (a b fs : List Nat) (f : Nat) (h : (a ++ f :: b ++ fs).Nodup) :
    (a ++ b ++ f :: fs).Nodup := by
  have p : (a ++ f :: b ++ fs).Perm (a ++ b ++ f :: fs) := by
    have h1 : (a ++ f :: b).Perm (f :: (a ++ b)) := List.perm_middle
    have h2 : (a ++ b ++ f :: fs).Perm (f :: (a ++ b) ++ fs) := by
      simpa using (List.perm_middle (a := f) (l₁ := a ++ b) (l₂ := fs))
    exact (h1.append_right fs).trans h2.symm
  exact p.nodup_iff.1 h

/-- unlinking the item in the middle of `a ++ item :: b` -/
theorem unlink_rep (p : PList) (a b fs : List Nat) (item : Nat) (s : LState)
    (h : Rep p (a ++ item :: b) fs s) :
    ∃ p', remove p item = some (p', b.headD 0) ∧
      Rep p' (a ++ b) (item :: fs)
        { s with nodes := s.nodes.take a.length ++ s.nodes.drop (a.length + 1), free := (item - 1) :: s.free } := by
  have hnd : (a ++ item :: b ++ fs).Nodup := h.nd
  have hseg := h.seg
  rw [seg_append] at hseg
  obtain ⟨sa, sb⟩ := hseg
  obtain ⟨i_nz, i_prev, i_next, sb'⟩ := sb
  simp only [List.headD_cons] at sa
  have xs_nz : ∀ x ∈ a ++ item :: b, x ≠ 0 := seg_ne_zero p _ 0 none h.seg
  have fs_nz : ∀ x ∈ fs, x ≠ 0 := freechain_ne_zero p fs _ h.fr
  have nd_xs : (a ++ item :: b).Nodup := (List.nodup_append.1 hnd).1
  have nd_a : a.Nodup := (List.nodup_append.1 nd_xs).1
  have nd_ib : (item :: b).Nodup := (List.nodup_append.1 nd_xs).2.1
  have i_notin_b : item ∉ b := (List.nodup_cons.1 nd_ib).1
  have a_disj : ∀ x ∈ a, x ∉ item :: b := fun x hx hm => (List.nodup_append.1 nd_xs).2.2 x hx x hm rfl
  have fs_disj : ∀ x ∈ fs, x ∉ a ++ item :: b := fun x hx hm => (List.nodup_append.1 hnd).2.2 x hm x hx rfl
  have n_ne_i : b.headD 0 ≠ item := by
    cases b with
    | nil => exact fun e => i_nz e.symm
    | cons y b' => intro e; apply i_notin_b; simp only [List.headD_cons] at e; rw [← e]; simp
  refine ⟨unlink p item (b.headD 0), by simp only [remove, i_next], ?_⟩
  generalize hp' : unlink p item (b.headD 0) = p'
  unfold unlink at hp'
  have prev_i : p'.prev item = p.free := by rw [← hp']; simp only; rw [set_same]
  have prev_n : p'.prev (b.headD 0) = lastOr a none := by
    rw [← hp']; simp only; rw [set_ne _ _ _ _ n_ne_i, set_same]; exact i_prev
  have prev_o : ∀ x, x ≠ item → x ≠ b.headD 0 → p'.prev x = p.prev x := by
    intro x h1 h2; rw [← hp']; simp only; rw [set_ne _ _ _ _ h1, set_ne _ _ _ _ h2]
  have next_o : ∀ x, lastOr a none ≠ some x → p'.next x = p.next x := by
    intro x h2
    rw [← hp']; simp only; rw [i_prev]
    cases hq : lastOr a none with
    | none => rfl
    | some q =>
      simp only
      rw [set_ne]
      intro e; rw [hq, e] at h2; exact h2 rfl
  have next_q : ∀ q, lastOr a none = some q → p'.next q = some (b.headD 0) := by
    intro q hq
    rw [← hp']; simp only; rw [i_prev, hq]; simp only; rw [set_same]
  have not_last : ∀ x, x ∉ a → lastOr a none ≠ some x := by
    intro x hx e
    by_cases ea : a = []
    · subst ea; simp [lastOr] at e
    · obtain ⟨a', q, e'⟩ := exists_snoc a ea
      subst e'
      rw [lastOr_append] at e
      simp only [lastOr] at e
      injection e with e
      exact hx (by rw [← e]; simp)
  have b_notin_a : ∀ x ∈ b, x ∉ a := fun x hx hm => a_disj x hm (List.mem_cons_of_mem _ hx)
  have seg_a : Seg p' none a (b.headD 0) := by
    by_cases ea : a = []
    · subst ea; trivial
    · obtain ⟨a', q, e⟩ := exists_snoc a ea
      subst e
      have hl : lastOr (a' ++ [q]) none = some q := by rw [lastOr_append]; rfl
      rw [seg_append] at sa ⊢
      obtain ⟨s1, s2⟩ := sa
      have q_notin : q ∉ a' := fun hm => (List.nodup_append.1 nd_a).2.2 q hm q (by simp) rfl
      have ne_n : ∀ x ∈ a' ++ [q], x ≠ b.headD 0 := by
        intro x hx
        cases b with
        | nil => exact xs_nz x (by simp at hx ⊢; rcases hx with hx | hx <;> simp [hx])
        | cons y b' => intro e; exact a_disj x hx (by simp only [List.headD_cons] at e; rw [e]; simp)
      have ne_i : ∀ x ∈ a' ++ [q], x ≠ item := fun x hx e => a_disj x hx (by rw [e]; simp)
      refine ⟨seg_congr p _ a' q none ?_ s1, ?_⟩
      · intro x hm
        have hx : x ∈ a' ++ [q] := by simp [hm]
        refine ⟨prev_o x (ne_i x hx) (ne_n x hx), next_o x ?_⟩
        rw [hl]; intro e; injection e with e; exact q_notin (e ▸ hm)
      · obtain ⟨t1, t2, _, _⟩ := s2
        have hq : q ∈ a' ++ [q] := by simp
        exact ⟨t1, by rw [prev_o q (ne_i q hq) (ne_n q hq)]; exact t2, by rw [next_q q hl]; rfl, trivial⟩
  have seg_b : Seg p' (lastOr a none) b 0 := by
    cases b with
    | nil => trivial
    | cons y b' =>
      obtain ⟨t1, _, t3, t4⟩ := sb'
      have nd_b : (y :: b').Nodup := (List.nodup_cons.1 nd_ib).2
      refine ⟨t1, prev_n, by rw [next_o y (not_last y (b_notin_a y (by simp)))]; exact t3, ?_⟩
      refine seg_congr p _ b' 0 (some y) ?_ t4
      intro x hm
      have x_ne_y : x ≠ y := fun e => (List.nodup_cons.1 nd_b).1 (e ▸ hm)
      have x_ne_i : x ≠ item := fun e => i_notin_b (by rw [← e]; simp [hm])
      exact ⟨prev_o x x_ne_i (by simpa using x_ne_y), next_o x (not_last x (b_notin_a x (by simp [hm])))⟩
  have hval : p'.val = p.val := by rw [← hp']
  have hbk : p'.bk = p.bk := by rw [← hp']
  refine ⟨?_, ?_, ?_, ?_, ?_, ?_, ?_, ?_, ?_, ?_, ?_, by rw [hbk]; exact h.bk, by rw [hbk]; exact h.bkpos⟩
  · rw [seg_append]; exact ⟨seg_a, seg_b⟩
  · rw [lastOr_append]
    cases b with
    | nil => simpa [lastOr] using prev_n
    | cons y b' =>
      have h0i : (0 : Nat) ≠ item := fun e => i_nz e.symm
      have h0 : (0 : Nat) ≠ (y :: b').headD 0 := by
        simp only [List.headD_cons]; exact fun e => xs_nz y (by simp) e.symm
      rw [prev_o 0 h0i h0, h.endp, lastOr_append]
      simp [lastOr]
  · rw [← hp']; simp only [i_prev]
    cases a with
    | nil => simp [lastOr]
    | cons x a' =>
      have : ∃ q, lastOr (x :: a') none = some q := by
        obtain ⟨a'', q, e⟩ := exists_snoc (x :: a') (by simp)
        exact ⟨q, by rw [e, lastOr_append]; rfl⟩
      obtain ⟨q, hq⟩ := this
      rw [hq]; simp only
      rw [h.beg]; rfl
  · have hfree' : p'.free = some item := by rw [← hp']
    rw [hfree']
    refine ⟨rfl, i_nz, ?_⟩
    rw [prev_i]
    refine freechain_congr p _ fs _ ?_ h.fr
    intro x hm
    refine prev_o x (fun e => fs_disj x hm (by rw [e]; simp)) ?_
    cases b with
    | nil => exact fs_nz x hm
    | cons y b' => intro e; exact fs_disj x hm (by simp only [List.headD_cons] at e; rw [e]; simp)
  · exact nodup_remove_mid a b fs item hnd
  · show s.nodes.take a.length ++ s.nodes.drop (a.length + 1) = _
    rw [h.nodes, hval, ← List.map_take, ← List.map_drop]
    simp
  · show (item - 1) :: s.free = _
    rw [h.free]; rfl
  · rw [← hp']; exact h.nb
  · rw [← hp']; show p.size - 1 = _
    rw [h.sz]; simp
  · intro x hm
    have hn : p'.nblocks = p.nblocks := by rw [← hp']
    rw [hn, hbk]
    apply h.bound x
    simp only [List.mem_append, List.mem_cons] at hm ⊢
    rcases hm with (hm | hm) | hm | hm
    · exact Or.inl (Or.inl hm)
    · exact Or.inl (Or.inr (Or.inr hm))
    · exact Or.inl (Or.inr (Or.inl hm))
    · exact Or.inr hm
  · have := h.cnt
    have hn : p'.nblocks = p.nblocks := by rw [← hp']
    rw [hn, hbk]
    simp only [List.length_append, List.length_cons] at this ⊢
    omega

end Nstd.Seq.Ptr

namespace Nstd.Seq.Ptr

theorem walk_seg (p : PList) : ∀ (k : Nat) (xs : List Nat) (pr : Option Nat), Seg p pr xs 0 → k ≤ xs.length →
    walk p (xs.headD 0) k = some ((xs.drop k).headD 0) := by
  intro k
  induction k with
  | zero => intro xs pr _ _; rfl
  | succ k ih =>
    intro xs pr h hk
    cases xs with
    | nil => simp at hk
    | cons x xs' =>
      obtain ⟨_, _, h3, h4⟩ := h
      simp only [List.headD_cons, walk, h3, List.drop_succ_cons]
      exact ih xs' (some x) h4 (by simpa using hk)

/-- the `next` links of the not yet visited part of the chain -/
def NextLinks (p : PList) : List Nat → Prop
  | [] => True
  | x :: xs => x ≠ 0 ∧ p.next x = some (xs.headD 0) ∧ NextLinks p xs

theorem nextlinks_of_seg (p : PList) : ∀ (xs : List Nat) (pr : Option Nat), Seg p pr xs 0 → NextLinks p xs := by
  intro xs
  induction xs with
  | nil => intro _ _; trivial
  | cons x xs ih => intro pr h; exact ⟨h.1, h.2.2.1, ih _ h.2.2.2⟩

theorem nextlinks_congr (p p' : PList) (hn : p'.next = p.next) : ∀ (b : List Nat), NextLinks p b → NextLinks p' b := by
  intro b
  induction b with
  | nil => intro _; trivial
  | cons z b ih => intro h; exact ⟨h.1, by rw [hn]; exact h.2.1, ih h.2.2⟩

theorem clearLoop_spec : ∀ (b : List Nat) (p : PList) (acc : List Nat) (fuel : Nat),
    NextLinks p b → FreeChain p p.free acc → (b ++ acc).Nodup → b.length ≤ fuel →
    ∃ p1, clearLoop p fuel (b.headD 0) = some p1 ∧ FreeChain p1 p1.free (b.reverse ++ acc) ∧
      p1.val = p.val ∧ p1.nblocks = p.nblocks ∧ p1.bk = p.bk := by
  intro b
  induction b with
  | nil =>
    intro p acc fuel _ hf _ _
    refine ⟨p, ?_, by simpa using hf, rfl, rfl, rfl⟩
    cases fuel <;> rfl
  | cons y b ih =>
    intro p acc fuel hl hf hnd hfu
    obtain ⟨y_nz, y_next, hl'⟩ := hl
    cases fuel with
    | zero => simp at hfu
    | succ fuel =>
      cases y with
      | zero => exact absurd rfl y_nz
      | succ i =>
        have hnd' : (b ++ (i + 1) :: acc).Nodup := by
          have p' : (b ++ (i + 1) :: acc).Perm ((i + 1) :: b ++ acc) := by
            simp [List.perm_middle (a := i + 1) (l₁ := b) (l₂ := acc)]
          exact p'.nodup_iff.2 hnd
        have y_notin_acc : (i + 1) ∉ acc := by
          intro hm
          exact (List.nodup_append.1 hnd).2.2 (i + 1) (by simp) (i + 1) hm rfl
        have hf2 : FreeChain { p with prev := set p.prev (i + 1) p.free, free := some (i + 1) }
            (some (i + 1)) ((i + 1) :: acc) := by
          refine ⟨rfl, y_nz, ?_⟩
          show FreeChain _ (set p.prev (i + 1) p.free (i + 1)) acc
          rw [set_same]
          refine freechain_congr p _ acc _ ?_ hf
          intro x hx
          show set p.prev (i + 1) p.free x = p.prev x
          rw [set_ne]; intro e; exact y_notin_acc (e ▸ hx)
        have hl2 : NextLinks { p with prev := set p.prev (i + 1) p.free, free := some (i + 1) } b :=
          nextlinks_congr p { p with prev := set p.prev (i + 1) p.free, free := some (i + 1) } rfl b hl'
        obtain ⟨p1, e1, e2, e3, e4⟩ := ih _ ((i + 1) :: acc) fuel hl2 hf2 hnd' (by simpa using hfu)
        refine ⟨p1, ?_, ?_, e3, e4⟩
        · simp only [List.headD_cons, clearLoop, y_next]; exact e1
        · simpa using e2

theorem clear_rep (p : PList) (xs fs : List Nat) (s : LState) (h : Rep p xs fs s) :
    ∃ p', clear p = some p' ∧ Rep p' [] (xs.reverse ++ fs) s.clear := by
  obtain ⟨p1, e1, e2, e3, e4, e5⟩ := clearLoop_spec xs p fs p.size (nextlinks_of_seg p xs none h.seg) h.fr h.nd
    (by rw [h.sz]; exact Nat.le_refl _)
  rw [← h.beg] at e1
  refine ⟨{ p1 with begin := 0, prev := set p1.prev 0 none, size := 0 }, by simp only [clear, e1], ?_⟩
  have nz : ∀ x ∈ xs.reverse ++ fs, x ≠ 0 := by
    intro x hx
    simp only [List.mem_append, List.mem_reverse] at hx
    rcases hx with hx | hx
    · exact seg_ne_zero p xs 0 none h.seg x hx
    · exact freechain_ne_zero p fs _ h.fr x hx
  have perm : (xs.reverse ++ fs).Perm (xs ++ fs) := (List.reverse_perm xs).append_right fs
  refine ⟨trivial, ?_, rfl, ?_, perm.nodup_iff.2 h.nd, ?_, ?_, ?_, rfl, ?_, ?_, ?_, ?_⟩
  · show set p1.prev 0 none 0 = none
    rw [set_same]
  · refine freechain_congr p1 _ _ _ ?_ e2
    intro x hx
    show set p1.prev 0 none x = p1.prev x
    rw [set_ne _ _ _ _ (nz x hx)]
  · simp [LState.clear]
  · simp only [LState.clear, LState.ids, h.nodes, h.free]
    simp [List.map_reverse]
  · show p1.nblocks = _
    rw [e4]; exact h.nb
  · intro x hx
    show x ≤ p1.bk * p1.nblocks
    rw [e4, e5]; exact h.bound x (perm.mem_iff.1 hx)
  · show (xs.reverse ++ fs).length = p1.bk * p1.nblocks
    rw [e4, e5, perm.length_eq]; exact h.cnt
  · show p1.bk = _
    rw [e5]; exact h.bk
  · show 0 < p1.bk
    rw [e5]; exact h.bkpos

end Nstd.Seq.Ptr
