import Nstd.Seq.PtrSortG
import Nstd.Seq.LemmasPtrSortFrame
/-
  The heap-level quicksort for an arbitrary element type `α` (PtrSortG.lean) computes what the position-level quicksort
  computes on the chain — `ploopP_sim` / `qsortP_sim` / the value frame of LemmasPtrSort(Frame).lean with `α` in place of `Int` —
  and the `Int` heap-level sort of PtrModel.lean (run in lockstep by the driver) is its instance.
-/
namespace Nstd.Seq.PtrG

open Nstd.Seq.Ptr (set set_same set_ne)
variable {α : Type} [Inhabited α]

structure View (p : GHeap α) (xs : List Nat) (m : List α) : Prop where
  len : m.length = xs.length
  links : ∀ i, i + 1 < xs.length → p.next (xs.getD i 0) = some (xs.getD (i + 1) 0)
  inj : ∀ i j, i < xs.length → j < xs.length → xs.getD i 0 = xs.getD j 0 → i = j
  vals : ∀ i, i < xs.length → p.val (xs.getD i 0) = rd m i

/-- only values differ -/
def SameLinks (p' p : GHeap α) : Prop := p'.next = p.next

theorem sameLinks_refl (p : GHeap α) : SameLinks p p := rfl
theorem sameLinks_trans {a b c : GHeap α} (h1 : SameLinks a b) (h2 : SameLinks b c) : SameLinks a c := h1.trans h2
theorem sameLinks_swapVal (p : GHeap α) (a b : Nat) : SameLinks (swapVal p a b) p := rfl

theorem view_swapVal (p : GHeap α) (xs : List Nat) (m : List α) (h : View p xs m) (i j : Nat)
    (hi : i < xs.length) (hj : j < xs.length) :
    View (swapVal p (xs.getD i 0) (xs.getD j 0)) xs (swp m i j) := by
  refine ⟨by rw [length_swp]; exact h.len, h.links, h.inj, ?_⟩
  intro k hk
  have bi : i < m.length := by rw [h.len]; exact hi
  have bj : j < m.length := by rw [h.len]; exact hj
  rw [rd_swp m i j k bi bj]
  show set (set p.val (xs.getD i 0) (p.val (xs.getD j 0))) (xs.getD j 0) (p.val (xs.getD i 0)) (xs.getD k 0) = _
  by_cases e1 : k = j
  · subst e1; rw [set_same, h.vals i hi]; simp
  · have n1 : xs.getD k 0 ≠ xs.getD j 0 := fun e => e1 (h.inj k j hk hj e)
    rw [set_ne _ _ _ _ n1]
    by_cases e2 : k = i
    · subst e2; rw [set_same, h.vals j hj]; simp [e1]
    · have n2 : xs.getD k 0 ≠ xs.getD i 0 := fun e => e2 (h.inj k i hk hi e)
      rw [set_ne _ _ _ _ n2, h.vals k hk]; simp [e1, e2]

theorem ploopG_sim (xs : List Nat) (lt : α → α → Bool) (l r : Nat) (hl : l < xs.length) (hr : r < xs.length) :
    ∀ (n fuel : Nat) (p : GHeap α) (m : List α) (p0 p1 p2 : Nat), View p xs m → n ≤ fuel → p2 + (n + 1) = r →
      p1 ≤ p2 →
      ∃ p', ploopG lt (xs.getD l 0) (xs.getD r 0) (fuel + 1) p (xs.getD p0 0) (xs.getD p1 0) (xs.getD p2 0) =
          some ⟨p', xs.getD (ploop lt l (n + 1) m p0 p1 p2).p0 0, xs.getD (ploop lt l (n + 1) m p0 p1 p2).p1 0⟩ ∧
        View p' xs (ploop lt l (n + 1) m p0 p1 p2).mem ∧ SameLinks p' p := by
  intro n
  induction n with
  | zero =>
    intro fuel p m p0 p1 p2 hv _ hp2 h12
    have hnext2 := hv.links p2 (by omega)
    have e2 : ¬ (xs.getD (p2 + 1) 0 ≠ xs.getD r 0) := by rw [show p2 + 1 = r by omega]; simp
    have hval2 := hv.vals (p2 + 1) (by omega)
    have hvall := hv.vals l hl
    unfold ploopG ploop
    simp only [hnext2, hval2, hvall]
    by_cases c : lt (rd m (p2 + 1)) (rd m l) = true
    · have hnext1 := hv.links p1 (by omega)
      simp only [c, if_true, hnext1, e2, if_false, ploop]
      exact ⟨_, rfl, view_swapVal p xs m hv (p1 + 1) (p2 + 1) (by omega) (by omega), sameLinks_swapVal _ _ _⟩
    · simp only [c, if_false, e2, ploop, Bool.false_eq_true]
      exact ⟨_, rfl, hv, sameLinks_refl _⟩
  | succ n ih =>
    intro fuel p m p0 p1 p2 hv hfuel hp2 h12
    cases fuel with
    | zero => omega
    | succ fuel =>
      have hnext2 := hv.links p2 (by omega)
      have ne2 : xs.getD (p2 + 1) 0 ≠ xs.getD r 0 := by
        intro e; have := hv.inj (p2 + 1) r (by omega) hr e; omega
      have hval2 := hv.vals (p2 + 1) (by omega)
      have hvall := hv.vals l hl
      rw [ploopG, ploop]
      simp only [hnext2, hval2, hvall]
      by_cases c : lt (rd m (p2 + 1)) (rd m l) = true
      · have hnext1 := hv.links p1 (by omega)
        simp only [c, if_true, hnext1, ne2, ne_eq, not_false_eq_true]
        obtain ⟨p', e1, e2, e3⟩ := ih fuel (swapVal p (xs.getD (p1 + 1) 0) (xs.getD (p2 + 1) 0)) (swp m (p1 + 1) (p2 + 1))
          p1 (p1 + 1) (p2 + 1) (view_swapVal p xs m hv (p1 + 1) (p2 + 1) (by omega) (by omega)) (by omega) (by omega) (by omega)
        exact ⟨p', e1, e2, sameLinks_trans e3 (sameLinks_swapVal _ _ _)⟩
      · simp only [c, if_false, ne2, ne_eq, not_false_eq_true, if_true, Bool.false_eq_true]
        exact ih fuel p m p0 p1 (p2 + 1) hv (by omega) (by omega) (by omega)

theorem qsortG_sim (xs : List Nat) (lt : α → α → Bool) :
    ∀ (f : Nat) (p : GHeap α) (m : List α) (l r : Nat), View p xs m → l < r → r < xs.length → r - l < f →
      ∀ m', qsortF lt f m l r = some m' →
      ∃ p', qsortG lt f p (xs.getD l 0) (xs.getD r 0) = some p' ∧ View p' xs m' ∧ SameLinks p' p := by
  intro f
  induction f with
  | zero => intro p m l r _ _ _ h; omega
  | succ f ih =>
    intro p m l r hv hlr hr hf m' hq
    have hl : l < xs.length := by omega
    have hn : r - l = (r - l - 1) + 1 := by omega
    -- the partition loop
    have inv0 : PInv lt l m l l l :=
      ⟨Nat.le_refl _, Nat.le_refl _, Or.inl ⟨rfl, rfl⟩, fun k h1 h2 => by omega, fun k h1 h2 => by omega⟩
    obtain ⟨pi, pw, _⟩ := ploop_spec lt l (r - l) m l l l (by rw [hv.len]; omega) inv0
    have e : l + (r - l) = r := by omega
    rw [e] at pi pw
    obtain ⟨ph, e1, v1, s1⟩ := ploopG_sim xs lt l r hl hr (r - l - 1) f p m l l l hv (by omega) (by omega) (Nat.le_refl _)
    rw [← hn] at e1 v1
    rw [qsortF] at hq
    rw [qsortG, e1]
    generalize ploop lt l (r - l) m l l l = R at pi pw v1 hq
    simp only
    have b1 : R.p1 ≤ r := pi.h2
    have b1' : l ≤ R.p1 := pi.h1
    have b0 : R.p0 ≤ r := by rcases pi.h0 with ⟨a, b⟩ | ⟨a, b⟩ <;> omega
    -- swap(left, ptr1)
    have v2 := view_swapVal ph xs R.mem v1 l R.p1 hl (by omega)
    have s2 : SameLinks (swapVal ph (xs.getD l 0) (xs.getD R.p1 0)) p :=
      sameLinks_trans (sameLinks_swapVal _ _ _) s1
    generalize swapVal ph (xs.getD l 0) (xs.getD R.p1 0) = h1 at v2 s2
    generalize swp R.mem l R.p1 = m1 at v2 hq
    -- ptr1 = ptr1->next
    have hq1 : (if xs.getD R.p1 0 ≠ xs.getD r 0 then h1.next (xs.getD R.p1 0) else some (xs.getD R.p1 0)) =
        some (xs.getD (if R.p1 ≠ r then R.p1 + 1 else R.p1) 0) := by
      by_cases c : R.p1 = r
      · simp [c]
      · have : xs.getD R.p1 0 ≠ xs.getD r 0 := fun e => c (v2.inj _ _ (by omega) hr e)
        simp only [this, ne_eq, not_false_eq_true, if_true, c]
        exact v2.links R.p1 (by omega)
    rw [hq1]
    simp only
    -- left part
    have hleft : ∃ m2 h2, (if l ≠ R.p0 then qsortF lt f m1 l R.p0 else some m1) = some m2 ∧
        (if xs.getD l 0 ≠ xs.getD R.p0 0 then qsortG lt f h1 (xs.getD l 0) (xs.getD R.p0 0) else some h1) = some h2 ∧
        View h2 xs m2 ∧ SameLinks h2 p := by
      by_cases c : l = R.p0
      · refine ⟨m1, h1, by simp [c], ?_, v2, s2⟩
        rw [← c]; simp
      · have cne : xs.getD l 0 ≠ xs.getD R.p0 0 := fun e => c (v2.inj _ _ hl (by omega) e)
        cases hm2 : qsortF lt f m1 l R.p0 with
        | none => simp [c, hm2] at hq
        | some m2 =>
          have hlt : l < R.p0 := by rcases pi.h0 with ⟨a, b⟩ | ⟨a, b⟩ <;> omega
          have hp0 : R.p0 < r := by rcases pi.h0 with ⟨a, b⟩ | ⟨a, b⟩ <;> omega
          obtain ⟨h2, q1, q2, q3⟩ := ih h1 m1 l R.p0 v2 hlt (by omega) (by omega) m2 hm2
          exact ⟨m2, h2, by simp [c], by simp only [cne, ne_eq, not_false_eq_true, if_true]; exact q1, q2,
            sameLinks_trans q3 s2⟩
    obtain ⟨m2, h2, g1, g2, v3, s3⟩ := hleft
    rw [g1] at hq
    rw [g2]
    simp only at hq ⊢
    -- right part
    by_cases c : (if R.p1 ≠ r then R.p1 + 1 else R.p1) = r
    · have : ¬ (xs.getD (if R.p1 ≠ r then R.p1 + 1 else R.p1) 0 ≠ xs.getD r 0) := by rw [c]; simp
      simp only [this, if_false]
      simp only [c, ne_eq, not_true_eq_false, if_false, Option.some.injEq] at hq
      rw [← hq]
      exact ⟨h2, rfl, v3, s3⟩
    · have hp : (if R.p1 ≠ r then R.p1 + 1 else R.p1) < r := by
        by_cases c2 : R.p1 = r
        · simp [c2] at c
        · simp only [c2, ne_eq, not_false_eq_true, if_true] at c ⊢; omega
      have hgt : l < (if R.p1 ≠ r then R.p1 + 1 else R.p1) := by
        by_cases c2 : R.p1 = r
        · simp [c2] at c
        · simp only [c2, ne_eq, not_false_eq_true, if_true]; omega
      have cne : xs.getD (if R.p1 ≠ r then R.p1 + 1 else R.p1) 0 ≠ xs.getD r 0 :=
        fun e => c (v3.inj _ _ (by omega) hr e)
      simp only [cne, ne_eq, not_false_eq_true, if_true]
      simp only [c, ne_eq, not_false_eq_true, if_true] at hq
      obtain ⟨h3, q1, q2, q3⟩ := ih h2 m2 _ r v3 hp hr (by omega) m' hq
      exact ⟨h3, q1, q2, sameLinks_trans q3 s3⟩

/-- `p'` and `p` agree on the `value` of every address outside `xs` -/
def ValFrame (xs : List Nat) (p' p : GHeap α) : Prop := ∀ a, a ∉ xs → p'.val a = p.val a

theorem valFrame_refl (xs : List Nat) (p : GHeap α) : ValFrame xs p p := fun _ _ => rfl
theorem valFrame_trans {xs : List Nat} {a b c : GHeap α} (h1 : ValFrame xs a b) (h2 : ValFrame xs b c) : ValFrame xs a c :=
  fun x hx => (h1 x hx).trans (h2 x hx)

theorem getD_mem (xs : List Nat) (i : Nat) (h : i < xs.length) : xs.getD i 0 ∈ xs := by
  rw [Ptr.getD_of_lt xs i h]; exact List.getElem_mem h

theorem valFrame_swapVal (xs : List Nat) (p : GHeap α) (i j : Nat) (hi : i < xs.length) (hj : j < xs.length) :
    ValFrame xs (swapVal p (xs.getD i 0) (xs.getD j 0)) p := by
  intro a ha
  have n1 : a ≠ xs.getD i 0 := fun e => ha (e ▸ getD_mem xs i hi)
  have n2 : a ≠ xs.getD j 0 := fun e => ha (e ▸ getD_mem xs j hj)
  show set (set p.val (xs.getD i 0) (p.val (xs.getD j 0))) (xs.getD j 0) (p.val (xs.getD i 0)) a = p.val a
  rw [set_ne _ _ _ _ n2, set_ne _ _ _ _ n1]

theorem ploopG_frame (xs : List Nat) (lt : α → α → Bool) (l r : Nat) (hl : l < xs.length) (hr : r < xs.length) :
    ∀ (n fuel : Nat) (p : GHeap α) (m : List α) (p0 p1 p2 : Nat), View p xs m → n ≤ fuel → p2 + (n + 1) = r →
      p1 ≤ p2 →
      ∀ R, ploopG lt (xs.getD l 0) (xs.getD r 0) (fuel + 1) p (xs.getD p0 0) (xs.getD p1 0) (xs.getD p2 0) = some R →
        ValFrame xs R.heap p := by
  intro n
  induction n with
  | zero =>
    intro fuel p m p0 p1 p2 hv _ hp2 h12 R hR
    have hnext2 := hv.links p2 (by omega)
    have e2 : ¬ (xs.getD (p2 + 1) 0 ≠ xs.getD r 0) := by rw [show p2 + 1 = r by omega]; simp
    have hval2 := hv.vals (p2 + 1) (by omega)
    have hvall := hv.vals l hl
    unfold ploopG at hR
    simp only [hnext2, hval2, hvall] at hR
    by_cases c : lt (rd m (p2 + 1)) (rd m l) = true
    · have hnext1 := hv.links p1 (by omega)
      simp only [c, if_true, hnext1, e2, if_false, Option.some.injEq] at hR
      rw [← hR]
      exact valFrame_swapVal xs p (p1 + 1) (p2 + 1) (by omega) (by omega)
    · simp only [c, if_false, e2, Bool.false_eq_true, Option.some.injEq] at hR
      rw [← hR]
      exact valFrame_refl xs p
  | succ n ih =>
    intro fuel p m p0 p1 p2 hv hfuel hp2 h12 R hR
    cases fuel with
    | zero => omega
    | succ fuel =>
      have hnext2 := hv.links p2 (by omega)
      have ne2 : xs.getD (p2 + 1) 0 ≠ xs.getD r 0 := by
        intro e; have := hv.inj (p2 + 1) r (by omega) hr e; omega
      have hval2 := hv.vals (p2 + 1) (by omega)
      have hvall := hv.vals l hl
      rw [ploopG] at hR
      simp only [hnext2, hval2, hvall] at hR
      by_cases c : lt (rd m (p2 + 1)) (rd m l) = true
      · have hnext1 := hv.links p1 (by omega)
        simp only [c, if_true, hnext1, ne2, ne_eq, not_false_eq_true] at hR
        have := ih fuel (swapVal p (xs.getD (p1 + 1) 0) (xs.getD (p2 + 1) 0)) (swp m (p1 + 1) (p2 + 1))
          p1 (p1 + 1) (p2 + 1) (view_swapVal p xs m hv (p1 + 1) (p2 + 1) (by omega) (by omega)) (by omega) (by omega) (by omega) R hR
        exact valFrame_trans this (valFrame_swapVal xs p (p1 + 1) (p2 + 1) (by omega) (by omega))
      · simp only [c, if_false, ne2, ne_eq, not_false_eq_true, if_true, Bool.false_eq_true] at hR
        exact ih fuel p m p0 p1 (p2 + 1) hv (by omega) (by omega) (by omega) R hR

theorem qsortG_frame (xs : List Nat) (lt : α → α → Bool) :
    ∀ (f : Nat) (p : GHeap α) (m : List α) (l r : Nat), View p xs m → l < r → r < xs.length → r - l < f →
      ∀ p', qsortG lt f p (xs.getD l 0) (xs.getD r 0) = some p' → ValFrame xs p' p := by
  intro f
  induction f with
  | zero => intro p m l r _ _ _ h; omega
  | succ f ih =>
    intro p m l r hv hlr hr hf p' hq
    have hl : l < xs.length := by omega
    have hn : r - l = (r - l - 1) + 1 := by omega
    have inv0 : PInv lt l m l l l :=
      ⟨Nat.le_refl _, Nat.le_refl _, Or.inl ⟨rfl, rfl⟩, fun k h1 h2 => by omega, fun k h1 h2 => by omega⟩
    obtain ⟨pi, pw, _⟩ := ploop_spec lt l (r - l) m l l l (by rw [hv.len]; omega) inv0
    have e : l + (r - l) = r := by omega
    rw [e] at pi pw
    obtain ⟨ph, e1, v1, s1⟩ := ploopG_sim xs lt l r hl hr (r - l - 1) f p m l l l hv (by omega) (by omega) (Nat.le_refl _)
    have fr1 := ploopG_frame xs lt l r hl hr (r - l - 1) f p m l l l hv (by omega) (by omega) (Nat.le_refl _) _ e1
    simp only at fr1
    rw [← hn] at e1 v1
    -- the position-level run exists (any comparison function)
    obtain ⟨m', hm', _⟩ := qsortF_rel lt (fun _ _ => True) (ord3_true lt) (f + 1) m l r hlr (by rw [hv.len]; exact hr) hf
    rw [qsortF] at hm'
    rw [qsortG, e1] at hq
    generalize ploop lt l (r - l) m l l l = R at pi pw v1 hq hm'
    simp only at hq
    have b1 : R.p1 ≤ r := pi.h2
    have b1' : l ≤ R.p1 := pi.h1
    have b0 : R.p0 ≤ r := by rcases pi.h0 with ⟨a, b⟩ | ⟨a, b⟩ <;> omega
    have v2 := view_swapVal ph xs R.mem v1 l R.p1 hl (by omega)
    have fr2 : ValFrame xs (swapVal ph (xs.getD l 0) (xs.getD R.p1 0)) p :=
      valFrame_trans (valFrame_swapVal xs ph l R.p1 hl (by omega)) fr1
    generalize swapVal ph (xs.getD l 0) (xs.getD R.p1 0) = h1 at v2 fr2 hq
    generalize swp R.mem l R.p1 = m1 at v2 hm'
    have hq1 : (if xs.getD R.p1 0 ≠ xs.getD r 0 then h1.next (xs.getD R.p1 0) else some (xs.getD R.p1 0)) =
        some (xs.getD (if R.p1 ≠ r then R.p1 + 1 else R.p1) 0) := by
      by_cases c : R.p1 = r
      · simp [c]
      · have : xs.getD R.p1 0 ≠ xs.getD r 0 := fun e => c (v2.inj _ _ (by omega) hr e)
        simp only [this, ne_eq, not_false_eq_true, if_true, c]
        exact v2.links R.p1 (by omega)
    rw [hq1] at hq
    simp only at hq
    -- left part
    have hleft : ∃ m2 h2, (if l ≠ R.p0 then qsortF lt f m1 l R.p0 else some m1) = some m2 ∧
        (if xs.getD l 0 ≠ xs.getD R.p0 0 then qsortG lt f h1 (xs.getD l 0) (xs.getD R.p0 0) else some h1) = some h2 ∧
        View h2 xs m2 ∧ ValFrame xs h2 p := by
      by_cases c : l = R.p0
      · refine ⟨m1, h1, by simp [c], ?_, v2, fr2⟩
        rw [← c]; simp
      · have cne : xs.getD l 0 ≠ xs.getD R.p0 0 := fun e => c (v2.inj _ _ hl (by omega) e)
        cases hm2 : qsortF lt f m1 l R.p0 with
        | none => simp [c, hm2] at hm'
        | some m2 =>
          have hlt : l < R.p0 := by rcases pi.h0 with ⟨a, b⟩ | ⟨a, b⟩ <;> omega
          have hp0 : R.p0 < r := by rcases pi.h0 with ⟨a, b⟩ | ⟨a, b⟩ <;> omega
          obtain ⟨h2, q1, q2, _⟩ := qsortG_sim xs lt f h1 m1 l R.p0 v2 hlt (by omega) (by omega) m2 hm2
          have q4 := ih h1 m1 l R.p0 v2 hlt (by omega) (by omega) h2 q1
          exact ⟨m2, h2, by simp [c], by simp only [cne, ne_eq, not_false_eq_true, if_true]; exact q1, q2,
            valFrame_trans q4 fr2⟩
    obtain ⟨m2, h2, g1, g2, v3, fr3⟩ := hleft
    rw [g1] at hm'
    rw [g2] at hq
    simp only at hq hm'
    by_cases c : (if R.p1 ≠ r then R.p1 + 1 else R.p1) = r
    · have : ¬ (xs.getD (if R.p1 ≠ r then R.p1 + 1 else R.p1) 0 ≠ xs.getD r 0) := by rw [c]; simp
      simp only [this, if_false, Option.some.injEq] at hq
      rw [← hq]; exact fr3
    · have hp : (if R.p1 ≠ r then R.p1 + 1 else R.p1) < r := by
        by_cases c2 : R.p1 = r
        · simp [c2] at c
        · simp only [c2, ne_eq, not_false_eq_true, if_true] at c ⊢; omega
      have hgt : l < (if R.p1 ≠ r then R.p1 + 1 else R.p1) := by
        by_cases c2 : R.p1 = r
        · simp [c2] at c
        · simp only [c2, ne_eq, not_false_eq_true, if_true]; omega
      have cne : xs.getD (if R.p1 ≠ r then R.p1 + 1 else R.p1) 0 ≠ xs.getD r 0 :=
        fun e => c (v3.inj _ _ (by omega) hr e)
      simp only [cne, ne_eq, not_false_eq_true, if_true] at hq
      exact valFrame_trans (ih h2 m2 _ r v3 hp hr (by omega) p' hq) fr3


/-! ### the generic sort specified; the `Int` sort of PtrModel.lean is its instance -/

/-- `sort()` on a heap of ANY element type whose `next` links run through the chain `xs` holding the values `m`: for every
    comparison function it terminates within fuel `xs.length`, follows no null pointer, leaves a heap with the same `next`
    function whose chain holds `sortVals lt m`, and writes no `value` outside the chain. -/
theorem sortG_spec (lt : α → α → Bool) (p : GHeap α) (xs : List Nat) (m : List α) (hv : View p xs m) :
    ∃ p' m', sortG lt p (xs.headD 0) (Ptr.lastOr xs none) xs.length = some p' ∧ sortVals lt m = some m' ∧
      View p' xs m' ∧ SameLinks p' p ∧ ValFrame xs p' p := by
  by_cases hlen : xs.length < 2
  · have hm : m.length < 2 := by rw [hv.len]; exact hlen
    refine ⟨p, m, ?_, by simp [sortVals, hm], hv, sameLinks_refl p, valFrame_refl xs p⟩
    unfold sortG
    match xs, hlen with
    | [], _ => rfl
    | [x], _ => simp [Ptr.lastOr]
  · have hl : 2 ≤ xs.length := by omega
    have hne : xs ≠ [] := by intro e; rw [e] at hl; simp at hl
    have hm : ¬ m.length < 2 := by rw [hv.len]; exact hlen
    obtain ⟨m', e, _, _, _⟩ := qsortF_rel lt (fun _ _ => True) (ord3_true lt)
      m.length m 0 (m.length - 1) (by omega) (by omega) (by omega)
    obtain ⟨p', q1, q2, q3⟩ := qsortG_sim xs lt m.length p m 0 (m.length - 1) hv (by omega)
      (by rw [hv.len]; omega) (by omega) m' e
    have q4 := qsortG_frame xs lt m.length p m 0 (m.length - 1) hv (by omega) (by rw [hv.len]; omega) (by omega) p' q1
    refine ⟨p', m', ?_, by simp [sortVals, hm, e], q2, q3, q4⟩
    unfold sortG
    rw [Ptr.lastOr_getD xs hne]
    simp only
    have hb : xs.headD 0 = xs.getD 0 0 := by
      cases xs with
      | nil => exact absurd rfl hne
      | cons x xs => rfl
    have : ¬ (xs.headD 0 = xs.getD (xs.length - 1) 0) := by
      rw [hb]; intro e'
      have := hv.inj 0 (xs.length - 1) (by omega) (by omega) e'
      omega
    simp only [this, if_false]
    rw [hb, ← hv.len]
    exact q1

/-- forget everything but `value` and `next` -/
def proj (p : Ptr.PList) : GHeap Int := ⟨p.val, p.next⟩

theorem ploopP_is_ploopG (lt : Int → Int → Bool) (l r : Nat) : ∀ (fuel : Nat) (p : Ptr.PList) (p0 p1 p2 : Nat),
    Ptr.ploopP lt l r fuel p p0 p1 p2 =
      (ploopG lt l r fuel (proj p) p0 p1 p2).map (fun R => ⟨{ p with val := R.heap.val }, R.p0, R.p1⟩) := by
  intro fuel
  induction fuel with
  | zero => intro p p0 p1 p2; rfl
  | succ fuel ih =>
    intro p p0 p1 p2
    rw [Ptr.ploopP, ploopG]
    show (match p.next p2 with | none => none | some q2 => _) = Option.map _ (match p.next p2 with | none => none | some q2 => _)
    cases p.next p2 with
    | none => rfl
    | some q2 =>
      simp only
      show (if lt (p.val q2) (p.val l) = true then _ else _) = Option.map _ (if lt (p.val q2) (p.val l) = true then _ else _)
      by_cases c : lt (p.val q2) (p.val l) = true
      · simp only [c, if_true]
        show (match p.next p1 with | none => none | some q1 => _) = Option.map _ (match p.next p1 with | none => none | some q1 => _)
        cases p.next p1 with
        | none => rfl
        | some q1 =>
          simp only
          by_cases c2 : q2 = r
          · simp only [c2, ne_eq, not_true_eq_false, if_false, Option.map_some]; rfl
          · simp only [c2, ne_eq, not_false_eq_true, if_true]
            rw [ih]; rfl
      · simp only [c, if_false, Bool.false_eq_true]
        by_cases c2 : q2 = r
        · simp only [c2, ne_eq, not_true_eq_false, if_false, Option.map_some]; rfl
        · simp only [c2, ne_eq, not_false_eq_true, if_true]
          rw [ih]

omit [Inhabited α] in
theorem ploopG_next (lt : α → α → Bool) (l r : Nat) : ∀ (fuel : Nat) (p : GHeap α) (p0 p1 p2 : Nat) (R : PL α),
    ploopG lt l r fuel p p0 p1 p2 = some R → R.heap.next = p.next := by
  intro fuel
  induction fuel with
  | zero => intro p p0 p1 p2 R h; simp [ploopG] at h
  | succ fuel ih =>
    intro p p0 p1 p2 R h
    rw [ploopG] at h
    cases hn : p.next p2 with
    | none => simp [hn] at h
    | some q2 =>
      simp only [hn] at h
      by_cases c : lt (p.val q2) (p.val l) = true
      · simp only [c, if_true] at h
        cases hn1 : p.next p1 with
        | none => simp [hn1] at h
        | some q1 =>
          simp only [hn1] at h
          by_cases c2 : q2 = r
          · simp only [c2, ne_eq, not_true_eq_false, if_false, Option.some.injEq] at h
            rw [← h]; rfl
          · simp only [c2, ne_eq, not_false_eq_true, if_true] at h
            have := ih (swapVal p q1 q2) _ _ _ R h
            exact this
      · simp only [c, if_false, Bool.false_eq_true] at h
        by_cases c2 : q2 = r
        · simp only [c2, ne_eq, not_true_eq_false, if_false, Option.some.injEq] at h
          rw [← h]
        · simp only [c2, ne_eq, not_false_eq_true, if_true] at h
          exact ih _ _ _ _ R h

omit [Inhabited α] in
theorem qsortG_next (lt : α → α → Bool) : ∀ (f : Nat) (p : GHeap α) (l r : Nat) (p' : GHeap α),
    qsortG lt f p l r = some p' → p'.next = p.next := by
  intro f
  induction f with
  | zero => intro p l r p' h; simp [qsortG] at h
  | succ f ih =>
    intro p l r p' h
    rw [qsortG] at h
    cases hp : ploopG lt l r (f + 1) p l l l with
    | none => simp [hp] at h
    | some R =>
      have hn := ploopG_next lt l r (f + 1) p l l l R hp
      simp only [hp] at h
      generalize hh1 : swapVal R.heap l R.p1 = h1 at h
      have hn1 : h1.next = p.next := by rw [← hh1]; exact hn
      cases hq : (if R.p1 ≠ r then h1.next R.p1 else some R.p1) with
      | none => simp [hq] at h
      | some q1 =>
        simp only [hq] at h
        cases hl : (if l ≠ R.p0 then qsortG lt f h1 l R.p0 else some h1) with
        | none => simp [hl] at h
        | some h2 =>
          simp only [hl] at h
          have hn2 : h2.next = p.next := by
            by_cases c : l = R.p0
            · simp [c] at hl; rw [← hl]; exact hn1
            · simp only [c, ne_eq, not_false_eq_true, if_true] at hl
              rw [ih h1 l R.p0 h2 hl]; exact hn1
          by_cases c : q1 = r
          · simp only [c, ne_eq, not_true_eq_false, if_false, Option.some.injEq] at h
            rw [← h]; exact hn2
          · simp only [c, ne_eq, not_false_eq_true, if_true] at h
            rw [ih h2 q1 r p' h]; exact hn2

/-- the `Int` heap-level quicksort of PtrModel.lean (the one the driver runs in lockstep with the real code) is the generic one
    on the `value`/`next` part of the heap -/
theorem qsortP_is_qsortG (lt : Int → Int → Bool) : ∀ (f : Nat) (p : Ptr.PList) (l r : Nat),
    Ptr.qsortP lt f p l r = (qsortG lt f (proj p) l r).map (fun g => { p with val := g.val }) := by
  intro f
  induction f with
  | zero => intro p l r; rfl
  | succ f ih =>
    intro p l r
    rw [Ptr.qsortP, qsortG, ploopP_is_ploopG]
    cases hp : ploopG lt l r (f + 1) (proj p) l l l with
    | none => rfl
    | some R =>
      have hn : R.heap.next = p.next := ploopG_next lt l r (f + 1) (proj p) l l l R hp
      simp only [Option.map_some]
      have e1 : Ptr.swapVal { p with val := R.heap.val } l R.p1 = { p with val := (swapVal R.heap l R.p1).val } := rfl
      have e2 : proj { p with val := (swapVal R.heap l R.p1).val } = swapVal R.heap l R.p1 := by
        show (⟨_, p.next⟩ : GHeap Int) = _
        rw [← hn]; rfl
      rw [e1]
      generalize hh1 : swapVal R.heap l R.p1 = h1 at e2
      have hn1 : h1.next = p.next := by rw [← hh1]; exact hn
      have e3 : ({ p with val := h1.val } : Ptr.PList).next = h1.next := hn1.symm
      simp only [e3, hn1]
      cases hq : (if R.p1 ≠ r then p.next R.p1 else some R.p1) with
      | none => rfl
      | some q1 =>
        simp only
        have hleft : (if l ≠ R.p0 then Ptr.qsortP lt f { p with val := h1.val } l R.p0 else some { p with val := h1.val }) =
            (if l ≠ R.p0 then qsortG lt f h1 l R.p0 else some h1).map (fun g => { p with val := g.val }) := by
          by_cases c : l = R.p0
          · simp [c]
          · simp only [c, ne_eq, not_false_eq_true, if_true]
            rw [ih, e2]
        rw [hleft]
        cases hl : (if l ≠ R.p0 then qsortG lt f h1 l R.p0 else some h1) with
        | none => rfl
        | some h2 =>
          simp only [Option.map_some]
          have hn2 : h2.next = p.next := by
            by_cases c : l = R.p0
            · simp [c] at hl; rw [← hl]; exact hn1
            · simp only [c, ne_eq, not_false_eq_true, if_true] at hl
              rw [qsortG_next lt f h1 l R.p0 h2 hl]; exact hn1
          by_cases c : q1 = r
          · simp [c]
          · simp only [c, ne_eq, not_false_eq_true, if_true]
            rw [ih]
            have : proj { p with val := h2.val } = h2 := by
              show (⟨_, p.next⟩ : GHeap Int) = _
              rw [← hn2]
            rw [this]

theorem sortP_is_sortG (lt : Int → Int → Bool) (p : Ptr.PList) :
    Ptr.sortP lt p = (sortG lt (proj p) p.begin (p.prev 0) p.size).map (fun g => { p with val := g.val }) := by
  unfold Ptr.sortP sortG
  cases p.prev 0 with
  | none => rfl
  | some l =>
    simp only
    by_cases c : p.begin = l
    · subst c; rw [if_pos rfl, if_pos rfl]; rfl
    · simp only [c, if_false]
      exact qsortP_is_qsortG lt p.size p p.begin l

end Nstd.Seq.PtrG
