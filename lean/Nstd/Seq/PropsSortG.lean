import Nstd.Seq.LemmasPtrSortG
/-
  Property C03, `List<T>::sort()` at the heap level for an ARBITRARY element type `T` (PtrSortG.lean: the quicksort of
  List.hpp over `value : address → α`, `next : address → Option address`), any comparison function.  The `Int` heap-level
  sort of PtrModel.lean — the one proved to represent the chain model (`ptr_sort`, `ptr_sort_comparator`) and run in lockstep
  with the real code — is the instance `α = Int` (`gsort_int_instance`).
-/
namespace Nstd.Seq

/-- For every element type `α`, every comparison function `lt` and every heap whose `next` links run through the item
    addresses `xs` (pairwise distinct) holding the values `m`: `sort()` terminates within fuel `_size`, follows no null pointer,
    leaves `next` untouched, leaves along the same chain the values `sortVals lt m` (a permutation of `m`), and writes no
    `value` outside the chain. -/
theorem gsort_comparator {α : Type} [Inhabited α] (lt : α → α → Bool) (g : PtrG.GHeap α) (xs : List Nat) (m : List α)
    (hv : PtrG.View g xs m) :
    ∃ g' m', PtrG.sortG lt g (xs.headD 0) (Ptr.lastOr xs none) xs.length = some g' ∧
      sortVals lt m = some m' ∧ m'.Perm m ∧ g'.next = g.next ∧ PtrG.View g' xs m' ∧
      ∀ a, a ∉ xs → g'.val a = g.val a := by
  obtain ⟨g', m', e1, e2, v, sl, fr⟩ := PtrG.sortG_spec lt g xs m hv
  obtain ⟨r, f1, f2, _⟩ := sortVals_rel lt (fun _ _ => True) (ord3_true lt) m
  rw [e2] at f1; cases f1
  exact ⟨g', m', e1, e2, f2, sl, v, fr⟩

/-- … and what an iterator (item address) held across `sort()` sees, for every element type: the item `xs[k]` held `m[k]`
    before and holds `m'[k]`, the `k`-th element of the sorted contents, afterwards; the links it is reached by are the same. -/
theorem gsort_iterators {α : Type} [Inhabited α] (lt : α → α → Bool) (g g' : PtrG.GHeap α) (xs : List Nat) (m : List α)
    (hv : PtrG.View g xs m)
    (hs : PtrG.sortG lt g (xs.headD 0) (Ptr.lastOr xs none) xs.length = some g') :
    g'.next = g.next ∧ ∃ m', sortVals lt m = some m' ∧ ∃ (h1 : m.length = xs.length) (h2 : m'.length = xs.length),
      ∀ k (hk : k < xs.length), g.val xs[k] = m[k] ∧ g'.val xs[k] = m'[k] := by
  obtain ⟨q, m', e1, e2, _, sl, v, _⟩ := gsort_comparator lt g xs m hv
  rw [hs] at e1; cases e1
  refine ⟨sl, m', e2, hv.len, v.len, ?_⟩
  intro k hk
  have a1 := hv.vals k hk
  have a2 := v.vals k hk
  rw [Ptr.getD_of_lt xs k hk] at a1 a2
  rw [rd_eq_getElem _ k (by rw [hv.len]; exact hk)] at a1
  rw [rd_eq_getElem _ k (by rw [v.len]; exact hk)] at a2
  exact ⟨a1, a2⟩

/-- the heap-level sort on `int` values of PtrModel.lean is the generic one at `α = Int`, restricted to the two fields it uses -/
theorem gsort_int_instance (lt : Int → Int → Bool) (p : Ptr.PList) :
    Ptr.sortP lt p = (PtrG.sortG lt (PtrG.proj p) p.begin (p.prev 0) p.size).map (fun g => { p with val := g.val }) :=
  PtrG.sortP_is_sortG lt p

/-- non-vacuity: a heap of (key, tag) pairs, chain 1 → 2 → 3 holding (1,0), (0,1), (0,2), compared on the key -/
def demoG : PtrG.GHeap (Nat × Nat) :=
  { val := fun k => if k = 1 then (1, 0) else if k = 2 then (0, 1) else if k = 3 then (0, 2) else (9, 9),
    next := fun k => if k = 1 then some 2 else if k = 2 then some 3 else if k = 3 then some 0 else none }

example : PtrG.View demoG [1, 2, 3] [(1, 0), (0, 1), (0, 2)] :=
  ⟨rfl, by intro i hi; have : i = 0 ∨ i = 1 := by simp at hi; omega
           rcases this with e | e <;> subst e <;> rfl,
   by intro i j hi hj; simp at hi hj
      have : i = 0 ∨ i = 1 ∨ i = 2 := by omega
      have : j = 0 ∨ j = 1 ∨ j = 2 := by omega
      rcases ‹i = 0 ∨ i = 1 ∨ i = 2› with e | e | e <;> rcases ‹j = 0 ∨ j = 1 ∨ j = 2› with f | f | f <;> subst e <;> subst f <;> simp,
   by intro i hi; simp at hi
      have : i = 0 ∨ i = 1 ∨ i = 2 := by omega
      rcases this with e | e | e <;> subst e <;> rfl⟩

example :
    (PtrG.sortG (fun a b : Nat × Nat => decide (a.1 < b.1)) demoG 1 (some 3) 3).map (fun g => (g.val 1, g.val 2, g.val 3, g.val 4)) =
      some ((0, 2), (0, 1), (1, 0), (9, 9)) := by decide

end Nstd.Seq
