import Nstd.Seq.PtrSortG
/-
  Facts about the heap-level quicksort model (`ploopG`, `qsortG`) that the tie by translation of `List::sort` needs
  independently of how the header spells the loop: more fuel does not change a result, and the `next` links are never written.
-/
set_option linter.unusedSimpArgs false
set_option linter.unusedVariables false
namespace Nstd.Seq.PtrG
variable {α : Type}

theorem swapVal_next (p : GHeap α) (a b : Nat) : (swapVal p a b).next = p.next := rfl

theorem ploopG_mono (lt : α → α → Bool) (left right : Nat) :
    ∀ (f : Nat) (p : GHeap α) (p0 p1 p2 : Nat) (R : PL α),
      ploopG lt left right f p p0 p1 p2 = some R → ploopG lt left right (f + 1) p p0 p1 p2 = some R := by
  intro f
  induction f with
  | zero => intro p p0 p1 p2 R h; simp [ploopG] at h
  | succ f ih =>
    intro p p0 p1 p2 R h
    rw [ploopG] at h ⊢
    cases hn : p.next p2 with
    | none => simp [hn] at h
    | some q2 =>
      simp only [hn] at h ⊢
      by_cases hlt : lt (p.val q2) (p.val left) = true
      · simp only [hlt, if_true] at h ⊢
        cases hn1 : p.next p1 with
        | none => simp [hn1] at h
        | some q1 =>
          simp only [hn1] at h ⊢
          by_cases hq : q2 = right
          · simpa [hq] using h
          · simp only [ne_eq, hq, not_false_eq_true, if_true] at h ⊢
            exact ih _ _ _ _ _ h
      · simp only [hlt, Bool.false_eq_true, if_false] at h ⊢
        by_cases hq : q2 = right
        · simpa [hq] using h
        · simp only [ne_eq, hq, not_false_eq_true, if_true] at h ⊢
          exact ih _ _ _ _ _ h

theorem ploopG_next (lt : α → α → Bool) (left right : Nat) :
    ∀ (f : Nat) (p : GHeap α) (p0 p1 p2 : Nat) (R : PL α),
      ploopG lt left right f p p0 p1 p2 = some R → R.heap.next = p.next := by
  intro f
  induction f with
  | zero => intro p p0 p1 p2 R h; simp [ploopG] at h
  | succ f ih =>
    intro p p0 p1 p2 R h
    rw [ploopG] at h
    cases hn : p.next p2 with
    | none => simp [hn] at h
    | some q2 =>
      simp only [hn] at h
      by_cases hlt : lt (p.val q2) (p.val left) = true
      · simp only [hlt, if_true] at h
        cases hn1 : p.next p1 with
        | none => simp [hn1] at h
        | some q1 =>
          simp only [hn1] at h
          by_cases hq : q2 = right
          · simp only [hq, ne_eq, not_true_eq_false, if_false, Option.some.injEq] at h
            rw [← h]; rfl
          · simp only [ne_eq, hq, not_false_eq_true, if_true] at h
            rw [ih _ _ _ _ _ h]; rfl
      · simp only [hlt, Bool.false_eq_true, if_false] at h
        by_cases hq : q2 = right
        · simp only [hq, ne_eq, not_true_eq_false, if_false, Option.some.injEq] at h
          rw [← h]
        · simp only [ne_eq, hq, not_false_eq_true, if_true] at h
          exact ih _ _ _ _ _ h

theorem qsortG_next (lt : α → α → Bool) :
    ∀ (f : Nat) (p : GHeap α) (left right : Nat) (g : GHeap α), qsortG lt f p left right = some g → g.next = p.next := by
  intro f
  induction f with
  | zero => intro p l r g h; simp [qsortG] at h
  | succ f ih =>
    intro p l r g h
    rw [qsortG] at h
    cases hpl : ploopG lt l r (f + 1) p l l l with
    | none => simp [hpl] at h
    | some R =>
      have hR := ploopG_next lt l r _ _ _ _ _ R hpl
      simp only [hpl] at h
      cases hq : (if R.p1 ≠ r then (swapVal R.heap l R.p1).next R.p1 else some R.p1) with
      | none => simp [hq] at h
      | some q1 =>
        simp only [hq] at h
        cases hl : (if l ≠ R.p0 then qsortG lt f (swapVal R.heap l R.p1) l R.p0 else some (swapVal R.heap l R.p1)) with
        | none => simp [hl] at h
        | some h2 =>
          simp only [hl] at h
          have h2n : h2.next = p.next := by
            by_cases c : l = R.p0
            · simp only [c, ne_eq, not_true_eq_false, if_false, Option.some.injEq] at hl
              rw [← hl, swapVal_next, hR]
            · simp only [c, ne_eq, not_false_eq_true, if_true] at hl
              rw [ih _ _ _ _ hl, swapVal_next, hR]
          by_cases c : q1 = r
          · simp only [c, ne_eq, not_true_eq_false, if_false, Option.some.injEq] at h
            rw [← h]; exact h2n
          · simp only [c, ne_eq, not_false_eq_true, if_true] at h
            rw [ih _ _ _ _ h]; exact h2n

theorem qsortG_mono (lt : α → α → Bool) :
    ∀ (f : Nat) (p : GHeap α) (left right : Nat) (g : GHeap α),
      qsortG lt f p left right = some g → qsortG lt (f + 1) p left right = some g := by
  intro f
  induction f with
  | zero => intro p l r g h; simp [qsortG] at h
  | succ f ih =>
    intro p l r g h
    rw [qsortG] at h ⊢
    cases hpl : ploopG lt l r (f + 1) p l l l with
    | none => simp [hpl] at h
    | some R =>
      simp only [hpl] at h
      simp only [ploopG_mono lt l r _ _ _ _ _ R hpl]
      cases hq : (if R.p1 ≠ r then (swapVal R.heap l R.p1).next R.p1 else some R.p1) with
      | none => simp [hq] at h
      | some q1 =>
        simp only [hq] at h ⊢
        cases hl : (if l ≠ R.p0 then qsortG lt f (swapVal R.heap l R.p1) l R.p0 else some (swapVal R.heap l R.p1)) with
        | none => simp [hl] at h
        | some h2 =>
          simp only [hl] at h
          have hl' : (if l ≠ R.p0 then qsortG lt (f + 1) (swapVal R.heap l R.p1) l R.p0 else some (swapVal R.heap l R.p1)) = some h2 := by
            by_cases c : l = R.p0
            · simpa [c] using hl
            · simp only [c, ne_eq, not_false_eq_true, if_true] at hl ⊢
              exact ih _ _ _ _ hl
          simp only [hl']
          by_cases c : q1 = r
          · simpa [c] using h
          · simp only [c, ne_eq, not_false_eq_true, if_true] at h ⊢
            exact ih _ _ _ _ h

end Nstd.Seq.PtrG
