import Nstd.Seq.PtrSwap
import Nstd.Seq.LemmasPtr
/-
  `swap` on the shared heap exchanges the two chains (and free lists) and leaves every item where it is.
-/
namespace Nstd.Seq.Ptr2

open Nstd.Seq.Ptr (set set_same set_ne lastOr lastOr_append exists_snoc)

/-- the items `xs` doubly linked in this order, predecessor of the first = `pr`, the last one points to `t` -/
def SegE (H : Heap) : Option Nat → List Nat → Nat → Prop
  | _, [], _ => True
  | pr, x :: xs, t => H.prev x = pr ∧ H.next x = some (xs.headD t) ∧ SegE H (some x) xs t

def FreeE (H : Heap) : Option Nat → List Nat → Prop
  | f, [] => f = none
  | f, x :: xs => f = some x ∧ FreeE H (H.prev x) xs

/-- the list object `hd` with sentinel `e` owns the chain `xs` and the free list `fs` -/
structure RepE (H : Heap) (hd : Hdr) (e : Nat) (xs fs : List Nat) : Prop where
  seg : SegE H none xs e
  endp : H.prev e = lastOr xs none
  beg : hd.begin = xs.headD e
  fr : FreeE H hd.free fs
  sz : hd.size = xs.length

theorem freeE_congr (H H' : Heap) (fs : List Nat) : ∀ f, (∀ x ∈ fs, H'.prev x = H.prev x) → FreeE H f fs → FreeE H' f fs := by
  induction fs with
  | nil => intro f _ h; exact h
  | cons x fs ih =>
    intro f hc h
    refine ⟨h.1, ?_⟩
    rw [hc x List.mem_cons_self]
    exact ih _ (fun y hy => hc y (List.mem_cons_of_mem _ hy)) h.2

/-- re-pointing the `next` of the last item to another sentinel -/
theorem segE_retarget (H H' : Heap) (t t' : Nat) : ∀ (xs : List Nat) (pr : Option Nat), xs.Nodup →
    (∀ x ∈ xs, H'.prev x = H.prev x) →
    (∀ x ∈ xs, lastOr xs none ≠ some x → H'.next x = H.next x) →
    (∀ l, lastOr xs none = some l → H'.next l = some t') →
    SegE H pr xs t → SegE H' pr xs t' := by
  intro xs
  induction xs with
  | nil => intro _ _ _ _ _ _; trivial
  | cons x xs ih =>
    intro pr nd hp hn hl h
    obtain ⟨h1, h2, h3⟩ := h
    have ndx := List.nodup_cons.1 nd
    cases xs with
    | nil =>
      refine ⟨by rw [hp x (by simp)]; exact h1, ?_, trivial⟩
      simpa using hl x rfl
    | cons y ys =>
      have hlast : lastOr (x :: y :: ys) none = lastOr (y :: ys) none := rfl
      have x_not_last : lastOr (x :: y :: ys) none ≠ some x := by
        intro e
        obtain ⟨a', q, e'⟩ := exists_snoc (y :: ys) (by simp)
        rw [hlast, e', lastOr_append] at e
        simp only [lastOr] at e
        injection e with e
        exact ndx.1 (by rw [e', ← e]; simp)
      refine ⟨by rw [hp x (by simp)]; exact h1, by rw [hn x (by simp) x_not_last]; simpa using h2, ?_⟩
      refine ih (some x) ndx.2 (fun z hz => hp z (List.mem_cons_of_mem _ hz)) ?_ ?_ h3
      · intro z hz hne
        exact hn z (List.mem_cons_of_mem _ hz) (by rw [hlast]; exact hne)
      · intro l hl'
        exact hl l (by rw [hlast]; exact hl')

theorem lastOr_mem (xs : List Nat) (l : Nat) (h : lastOr xs none = some l) : l ∈ xs := by
  cases xs with
  | nil => simp [lastOr] at h
  | cons x xr =>
    obtain ⟨a', q, e'⟩ := exists_snoc (x :: xr) (by simp)
    rw [e', lastOr_append] at h
    simp only [lastOr] at h
    injection h with h
    rw [e', ← h]; simp

/-- `A.swap(B)`: afterwards `A` owns the chain and the free list `B` owned and vice versa; every item keeps its
    address, its value and its `prev`; only the `next` of the two last items and the sentinels' `prev` change -/
theorem swap_rep (H : Heap) (eA eB : Nat) (A B : Hdr) (xsA fsA xsB fsB : List Nat)
    (hne : eA ≠ eB) (nd : (xsA ++ xsB).Nodup)
    (hs : ∀ x ∈ xsA ++ fsA ++ xsB ++ fsB, x ≠ eA ∧ x ≠ eB)
    (ha : RepE H A eA xsA fsA) (hb : RepE H B eB xsB fsB) :
    RepE (swap H eA eB A B).1 (swap H eA eB A B).2.1 eA xsB fsB ∧
    RepE (swap H eA eB A B).1 (swap H eA eB A B).2.2 eB xsA fsA ∧
    (swap H eA eB A B).1.val = H.val ∧
    (swap H eA eB A B).2.1.blocks = B.blocks ∧ (swap H eA eB A B).2.2.blocks = A.blocks := by
  have ndA : xsA.Nodup := (List.nodup_append.1 nd).1
  have ndB : xsB.Nodup := (List.nodup_append.1 nd).2.1
  have disj : ∀ x ∈ xsA, x ∉ xsB := fun x hx hm => (List.nodup_append.1 nd).2.2 x hx x hm rfl
  have nsA : ∀ x ∈ xsA, x ≠ eA ∧ x ≠ eB := fun x hx => hs x (by simp [hx])
  have nsB : ∀ x ∈ xsB, x ≠ eA ∧ x ≠ eB := fun x hx => hs x (by simp [hx])
  have nfA : ∀ x ∈ fsA, x ≠ eA ∧ x ≠ eB := fun x hx => hs x (by simp [hx])
  have nfB : ∀ x ∈ fsB, x ≠ eA ∧ x ≠ eB := fun x hx => hs x (by simp [hx])
  have hpa := ha.endp
  have hpb := hb.endp
  -- the new heap
  generalize hsw : swap H eA eB A B = R
  unfold swap at hsw
  rw [hpa, hpb] at hsw
  have prev_node : ∀ x, x ≠ eA → x ≠ eB → R.1.prev x = H.prev x := by
    intro x h1 h2; rw [← hsw]; simp only; rw [set_ne _ _ _ _ h2, set_ne _ _ _ _ h1]
  have prev_eA : R.1.prev eA = lastOr xsB none := by
    rw [← hsw]; simp only; rw [set_ne _ _ _ _ hne, set_same]
  have prev_eB : R.1.prev eB = lastOr xsA none := by
    rw [← hsw]; simp only; rw [set_same]
  have next_of : ∀ x, R.1.next x =
      if lastOr xsA none = some x then some eB else if lastOr xsB none = some x then some eA else H.next x := by
    intro x
    rw [← hsw]; simp only
    cases hA : lastOr xsA none with
    | none =>
      cases hB : lastOr xsB none with
      | none => simp
      | some lb =>
        by_cases e : x = lb
        · subst e; simp [set_same]
        · have : ¬ lb = x := fun e' => e e'.symm
          simp [set_ne _ _ _ _ e, this]
    | some la =>
      by_cases e : x = la
      · subst e; simp [set_same]
      · have hne' : ¬ la = x := fun e' => e e'.symm
        simp only [Option.some.injEq, hne', if_false]
        rw [set_ne _ _ _ _ e]
        cases hB : lastOr xsB none with
        | none => simp
        | some lb =>
          by_cases e2 : x = lb
          · subst e2; simp [set_same]
          · have : ¬ lb = x := fun e' => e2 e'.symm
            simp [set_ne _ _ _ _ e2, this]
  have lastA_notin_B : ∀ x ∈ xsB, lastOr xsA none ≠ some x := fun x hx e => disj x (lastOr_mem xsA x e) hx
  have lastB_notin_A : ∀ x ∈ xsA, lastOr xsB none ≠ some x := fun x hx e => disj x hx (lastOr_mem xsB x e)
  refine ⟨⟨?_, prev_eA, ?_, ?_, ?_⟩, ⟨?_, prev_eB, ?_, ?_, ?_⟩, by rw [← hsw], by rw [← hsw], by rw [← hsw]⟩
  · -- the chain of B now ends at eA
    refine segE_retarget H R.1 eB eA xsB none ndB (fun x hx => prev_node x (nsB x hx).1 (nsB x hx).2) ?_ ?_ hb.seg
    · intro x hx hnl
      rw [next_of x]; simp [lastA_notin_B x hx, hnl]
    · intro l hl
      rw [next_of l]; simp [lastA_notin_B l (lastOr_mem xsB l hl), hl]
  · rw [← hsw]; simp only
    cases xsB with
    | nil => simp [lastOr]
    | cons y ys =>
      obtain ⟨a', q, e'⟩ := exists_snoc (y :: ys) (by simp)
      have : lastOr (y :: ys) none = some q := by rw [e', lastOr_append]; rfl
      rw [this]; simp only; rw [hb.beg]; rfl
  · have : R.2.1.free = B.free := by rw [← hsw]
    rw [this]
    exact freeE_congr H R.1 fsB _ (fun x hx => prev_node x (nfB x hx).1 (nfB x hx).2) hb.fr
  · have : R.2.1.size = B.size := by rw [← hsw]
    rw [this]; exact hb.sz
  · refine segE_retarget H R.1 eA eB xsA none ndA (fun x hx => prev_node x (nsA x hx).1 (nsA x hx).2) ?_ ?_ ha.seg
    · intro x hx hnl
      rw [next_of x]; simp [lastB_notin_A x hx, hnl]
    · intro l hl
      rw [next_of l]; simp [hl]
  · rw [← hsw]; simp only
    cases xsA with
    | nil => simp [lastOr]
    | cons y ys =>
      obtain ⟨a', q, e'⟩ := exists_snoc (y :: ys) (by simp)
      have : lastOr (y :: ys) none = some q := by rw [e', lastOr_append]; rfl
      rw [this]; simp only; rw [ha.beg]; rfl
  · have : R.2.2.free = A.free := by rw [← hsw]
    rw [this]
    exact freeE_congr H R.1 fsA _ (fun x hx => prev_node x (nfA x hx).1 (nfA x hx).2) ha.fr
  · have : R.2.2.size = A.size := by rw [← hsw]
    rw [this]; exact ha.sz

end Nstd.Seq.Ptr2
