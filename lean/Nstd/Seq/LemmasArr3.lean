import Nstd.Seq.PropsArr4
/-
  Helper lemmas for PropsArr5.lean: the common part of the translated copy constructor and `operator=` of `Array`
  (`reserve(other.capacity())`, the copy loop, `_end.item = dest`).
-/
set_option linter.unusedSimpArgs false
set_option linter.unusedVariables false
namespace Nstd.Seq.AM
open Nstd.Seq.Raw
open Nstd.Generated

/-- the copy loop (`src != end`) with `other`'s storage holding the constructed elements `xs` from `src` on -/
theorem assign_loop1_ext (A : Arr) (va : Option Arr) (b bv : Nat) (hne : bv ≠ b) :
    ∀ (xs : List Int) (i j e fuel : Nat) (M : Mem) (cs vcs : Cells), j + xs.length = e → xs.length < fuel →
      M.blocks b = some cs → M.blocks bv = some vcs → (∀ t (ht : t < xs.length), readCell vcs (j + t) = some xs[t]) →
      (fillFrom cs i xs = none →
        SeqArr.assign_loop1 fuel M A va (some (b, i)) (some (bv, j)) (some (bv, e)) = none) ∧
      (∀ cs', fillFrom cs i xs = some cs' → ∃ M',
        SeqArr.assign_loop1 fuel M A va (some (b, i)) (some (bv, j)) (some (bv, e)) =
          some (M', A, va, some (b, i + xs.length), some (bv, e), some (bv, e)) ∧
        M'.blocks b = some cs' ∧ M'.brk = M.brk ∧ ∀ b', b' ≠ b → M'.blocks b' = M.blocks b') := by
  intro xs
  induction xs with
  | nil =>
    intro i j e fuel M cs vcs hik hf hb hv hx
    obtain ⟨f, rfl⟩ : ∃ f, fuel = f + 1 := ⟨fuel - 1, by omega⟩
    have : j = e := by simpa using hik
    subst this
    simp only [fillFrom, SeqArr.assign_loop1, pne_off]
    simp
    exact hb
  | cons x xs ih =>
    intro i j e fuel M cs vcs hik hf hb hv hx
    simp only [List.length_cons] at hik hf
    obtain ⟨f, rfl⟩ : ∃ f, fuel = f + 1 := ⟨fuel - 1, by omega⟩
    have hje : j ≠ e := by omega
    have hx0 : readCell vcs j = some x := by
      have := hx 0 (by simp)
      simpa only [Nat.add_zero, List.getElem_cons_zero] using this
    simp only [fillFrom, SeqArr.assign_loop1, pne_off, hje, ne_eq, not_false_eq_true, decide_true, if_true,
      rd_at M bv j vcs hv, hx0, con_at M b i cs x hb]
    cases hc : construct cs i x with
    | none => simp
    | some cs1 =>
      simp only [Option.map_some, padd]
      have h2 := ih (i + 1) (j + 1) e f { M with blocks := upd M.blocks b (some cs1) } cs1 vcs (by omega) (by omega)
        (by simp [upd_same]) (by simp [upd_ne _ _ _ _ hne, hv])
        (by intro t ht
            have := hx (t + 1) (by simp; omega)
            simpa [Nat.add_assoc, Nat.add_comm 1 t] using this)
      refine ⟨fun hn => h2.1 hn, fun cs' hn => ?_⟩
      obtain ⟨M', e1, e2, e3, e4⟩ := h2.2 cs' hn
      refine ⟨M', ?_, e2, e3, ?_⟩
      · rw [e1]; simp [Nat.add_assoc, Nat.add_comm 1 xs.length]
      · intro b' hb'
        rw [e4 b' hb']
        simp [upd_ne _ _ _ _ hb']

/-- the two copy loops are textually the same function -/
theorem copy_loops_eq : ∀ (fuel : Nat) (M : Mem) (A : Arr) (o : Option Arr) (d s e : Option P),
    SeqArr.copyCtor_loop1 fuel M A o d s e = SeqArr.assign_loop1 fuel M A o d s e := by
  intro fuel
  induction fuel with
  | zero => intros; rfl
  | succ f ih => intros; simp only [SeqArr.copyCtor_loop1, SeqArr.assign_loop1, ih]

variable [ArrCfg]

/-- what the copy constructor and `operator=` have in common, with the statements of the generated code -/
def copyBody (fuel : Nat) (M : Mem) (A : Arr) (o : Option Arr) : Option (Mem × Arr) :=
  match SeqArr.reserve fuel M A ((oth o A).cap) with
  | none => none
  | some (M, A) =>
    match SeqArr.assign_loop1 fuel M A o A.begin (oth o A).begin (oth o A).end_ with
    | none => none
    | some (M, A, _, d, _, _) => some (M, { A with end_ := d })

theorem copyBody_sim (M : Mem) (A B : Arr) (r o : RArr) (h : Rep M A r) (ho : Rep M B o) (xs : List Int)
    (hdis : ∀ b, own B b → ¬ own A b) (hxs : contents o = some xs) (fuel : Nat) (hf : r.n + xs.length < fuel) :
    Sim M A (copyBody fuel M A (some B)) (Raw.copyFrom r o) := by
  unfold copyBody Raw.copyFrom
  obtain ⟨f, rfl⟩ : ∃ f, fuel = f + 1 := ⟨fuel - 1, by omega⟩
  have hon : o.n = xs.length ∧ (∀ ocs, o.cells = some ocs → readAll ocs 0 o.n = some xs ∧
      ∀ t (ht : t < xs.length), readCell ocs (0 + t) = some xs[t]) := by
    unfold contents at hxs
    cases hoc : o.cells with
    | none =>
      rw [hoc] at hxs; cases hxs
      have := ho.2; rw [hoc] at this
      exact ⟨by simpa using this.2.2, fun _ h => by cases h⟩
    | some ocs =>
      rw [hoc] at hxs
      have h12 := Nstd.Seq.readAll_spec ocs o.n 0 xs hxs
      exact ⟨h12.1.symm, fun ocs' h' => by cases h'; exact ⟨hxs, h12.2⟩⟩
  simp only [oth, ho.1]
  rcases reserve_run M A r h o.cap (f + 1) (by omega) with ⟨e1, e2⟩ | ⟨M1, A1, r1, e1, e2, hrep1, hbrk, hfr, hown, hn⟩
  · simp [e1, e2, Sim]
  · simp only [e1, e2]
    have hrep1' := hrep1
    obtain ⟨hcap1, hr1⟩ := hrep1
    cases hoc : o.cells with
    | none =>
      have hB := ho.2; rw [hoc] at hB
      simp only [hB.1, hB.2.1, SeqArr.assign_loop1, pne, ne_eq, not_true_eq_false, decide_false, Bool.false_eq_true, if_false, Sim]
      refine ⟨⟨hcap1, ?_⟩, hbrk, hfr, fun b hb => hown b hb⟩
      cases hc : r1.cells with
      | none => rw [hc] at hr1; simp_all
      | some cs1 =>
        rw [hc] at hr1
        obtain ⟨b1, hbk1, hb1, he1, hblk1⟩ := hr1
        simp only []
        exact ⟨b1, hbk1, hb1, hb1, hblk1⟩
    | some ocs =>
      have hB := ho.2; rw [hoc] at hB
      obtain ⟨bB, hbBk, hbB, heB, hblkB⟩ := hB
      obtain ⟨hread, hget⟩ := hon.2 ocs hoc
      have hnotA : ¬ own A bB := hdis bB ⟨0, hbB⟩
      have hv1 : M1.blocks bB = some ocs := by rw [hfr bB hbBk hnotA]; exact hblkB
      have hread' : readAll ocs 0 xs.length = some xs := by rw [← hon.1]; exact hread
      simp only [hbB, heB, hon.1, hread']
      cases hc : r1.cells with
      | none =>
        rw [hc] at hr1
        cases xs with
        | nil =>
          simp only [hr1.1, List.length_nil, SeqArr.assign_loop1, pne_off, ne_eq, not_true_eq_false, decide_false,
            Bool.false_eq_true, if_false, List.isEmpty_nil, if_true, Sim]
          refine ⟨⟨hcap1, ?_⟩, hbrk, hfr, fun b hb => by obtain ⟨i, hi⟩ := hb; cases hi⟩
          simp_all
        | cons x xs =>
          have hx0 : readCell ocs 0 = some x := by
            have := hget 0 (by simp)
            simpa only [Nat.add_zero, Nat.zero_add, List.getElem_cons_zero] using this
          simp [hr1.1, SeqArr.assign_loop1, pne_off, rd_at M1 bB 0 ocs hv1, hx0, con, Sim]
      | some cs1 =>
        rw [hc] at hr1
        obtain ⟨b1, hbk1, hb1, he1, hblk1⟩ := hr1
        have hb1ne : ∀ b', b' < M.brk → ¬ own A b' → b' ≠ b1 := by
          intro b' h1 h2 e
          rcases hown b1 ⟨0, hb1⟩ with h3 | h3
          · exact h2 (e ▸ h3)
          · omega
        simp only [hb1]
        have key := assign_loop1_ext A1 (some B) b1 bB (hb1ne bB hbBk hnotA) xs 0 0 xs.length (f + 1) M1 cs1 ocs
          (by simp) (by omega) hblk1 hv1 hget
        cases hfill : fillFrom cs1 0 xs with
        | none => simp only [key.1 hfill, Sim]
        | some cs' =>
          obtain ⟨M', k1, k2, k3, k4⟩ := key.2 cs' hfill
          simp only [k1, Sim, Nat.zero_add]
          refine ⟨⟨hcap1, ?_⟩, by rw [k3]; exact hbrk, ?_, ?_⟩
          · simp only []
            exact ⟨b1, by rw [k3]; exact hbk1, hb1, rfl, k2⟩
          · intro b' h1 h2
            rw [k4 b' (hb1ne b' h1 h2), hfr b' h1 h2]
          · rintro b' ⟨i', hi'⟩
            exact hown b' ⟨i', hi'⟩

end Nstd.Seq.AM
