import Nstd.Seq.LemmasPtrSortFrame
import Nstd.Seq.LemmasSortChecked
/-
  Property C03, `List<T>::sort()` beyond the default `<` on `int`.

  The header has ONE sort: `void sort()` using `T::operator<` (there is no overload taking a comparator object), so
  "the comparator" is whatever the element type's `operator<` computes.  Everything below is stated for the modelled
  quicksort (`Sort.lean` on positions, `PtrModel.lean` on item addresses) with the comparison function as a PARAMETER:

  * any function at all (also inconsistent ones, also a non-strict `<=`): the sort terminates within its recursion
    fuel, never leaves `left … right` (value level: frame; heap level: no null `next` followed, no link written) and
    leaves a permutation                                       — `sort_any_comparator`, `sort_frame_any`, `sort_checked_reads`, `ptr_sort_comparator`;
  * the order of the result for the two sensible kinds of comparison: a strict partial / strict weak order (`sort_sorted`
    of Props.lean is the instance) and a total preorder used as non-strict comparator such as `<=` — `sort_comparator`,
    `sort_nonstrict`, `sort_nonstrict_int`;
  * the quicksort is NOT stable                                — `sort_not_stable`;
  * what an iterator held across `sort()` denotes              — `ptr_sort_iterators`;
  * no write outside the chain's items                         — `ptr_sort_writes_chain_only`.
-/
namespace Nstd.Seq

/-! ### Any comparison function: termination, frame, permutation -/

/-- For EVERY comparison function `lt` — no asymmetry, transitivity or irreflexivity assumed, so also for `<=`, for a
    constant function or for an inconsistent `operator<` — and every input list the modelled `sort()` terminates within
    its recursion fuel and returns a permutation of the input. -/
theorem sort_any_comparator {α : Type} [Inhabited α] (lt : α → α → Bool) (vs : List α) :
    ∃ r, sortVals lt vs = some r ∧ r.Perm vs :=
  let ⟨r, e, p, _⟩ := sortVals_rel lt (fun _ _ => True) (ord3_true lt) vs; ⟨r, e, p⟩

/-- … and every recursive call `QuickSort::sort(left, right)` (any `lt`) terminates with fuel `> right - left`,
    changes nothing outside the positions `left … right` and keeps the length: the three pointers never leave the segment,
    whatever the comparison answers. -/
theorem sort_frame_any {α : Type} [Inhabited α] (lt : α → α → Bool)
    (f : Nat) (m : List α) (left right : Nat) (h1 : left < right) (h2 : right < m.length) (h3 : right - left < f) :
    ∃ m', qsortF lt f m left right = some m' ∧ m'.length = m.length ∧ m'.Perm m ∧
      ∀ k, k < left ∨ right < k → rd m' k = rd m k := by
  obtain ⟨m', e, w, _, p⟩ := qsortF_rel lt (fun _ _ => True) (ord3_true lt) f m left right h1 h2 h3
  exact ⟨m', e, w.1, p, fun k hk => w.2.1 k (by omega)⟩

/-- No out-of-range access, for every element type: `sortValsC` is the same quicksort with CHECKED reads — each `ptr->value`
    during `QuickSort::sort(left, right)` must be a position inside `left … right` and inside the list, anything else is a
    fault (`none`).  For EVERY comparison function and EVERY input it never faults and returns exactly what the totalised
    `sortVals` returns (whose reads go through `getD`): the totalisation hides no access outside the segment. -/
theorem sort_checked_reads {α : Type} [Inhabited α] (lt : α → α → Bool) (vs : List α) :
    sortValsC lt vs = sortVals lt vs ∧ ∃ r, sortValsC lt vs = some r ∧ r.Perm vs := by
  obtain ⟨r, e, p⟩ := sort_any_comparator lt vs
  exact ⟨sortValsC_eq lt vs, r, by rw [sortValsC_eq, e], p⟩

/-! ### The order of the result, comparator as parameter -/

/-- Master statement: whenever the comparison `lt` and a relation `R` ("may stand in front of") satisfy the three facts
    `Ord3` about an element and a pivot, the result of `sort()` is pairwise `R`-related (and a permutation, and the sort
    terminates).  Instances: `ord3_strict` (asymmetric + transitive `lt`, `R a b = ¬ b < a`; this is `sort_sorted`),
    `ord3_nonstrict` (total + transitive `le`, `R a b = a ≤ b`), `ord3_true`. -/
theorem sort_comparator {α : Type} [Inhabited α] (lt : α → α → Bool) (R : α → α → Prop) (ho : Ord3 lt R) (vs : List α) :
    ∃ r, sortVals lt vs = some r ∧ r.Perm vs ∧ r.Pairwise R :=
  sortVals_rel lt R ho vs

/-- A strict weak order given as parameter (asymmetric, transitive; negative transitivity is not even needed): the
    result is a permutation in which no later element is smaller than an earlier one. -/
theorem sort_strict_order {α : Type} [Inhabited α] (lt : α → α → Bool)
    (hasymm : ∀ x y, lt x y = true → lt y x = false)
    (htrans : ∀ x y z, lt x y = true → lt y z = true → lt x z = true) (vs : List α) :
    ∃ r, sortVals lt vs = some r ∧ r.Perm vs ∧ r.Pairwise (fun a b => lt b a = false) :=
  sortVals_rel lt _ (ord3_strict lt hasymm htrans) vs

/-- A NON-strict comparator (`operator<` implemented as `<=`: total and transitive): the sort still terminates, stays in
    range (`sort_frame_any`) and leaves the ascending permutation — every element `<=` every later one.  (The partition
    then sends the elements EQUAL to the pivot to the left part instead of the right one; nothing else changes.) -/
theorem sort_nonstrict {α : Type} [Inhabited α] (le : α → α → Bool)
    (htot : ∀ x y, le x y = true ∨ le y x = true)
    (htrans : ∀ x y z, le x y = true → le y z = true → le x z = true) (vs : List α) :
    ∃ r, sortVals le vs = some r ∧ r.Perm vs ∧ r.Pairwise (fun a b => le a b = true) :=
  sortVals_rel le _ (ord3_nonstrict le htot htrans) vs

/-- `<=` on `int` -/
def leInt (a b : Int) : Bool := decide (a ≤ b)

/-- for `int` the non-strict comparator `<=` yields exactly the list the strict `<` yields (`lsort_int`): the ascending
    permutation is unique -/
theorem sort_nonstrict_int (vs : List Int) :
    sortVals leInt vs = some (vs.mergeSort (fun a b => decide (a ≤ b))) ∧ sortVals leInt vs = sortVals ltInt vs := by
  have key : sortVals leInt vs = some (vs.mergeSort (fun a b => decide (a ≤ b))) := by
    obtain ⟨r, e, p, s⟩ := sort_nonstrict leInt
      (by intro x y; simp only [leInt, decide_eq_true_eq]; omega)
      (by intro x y z h1 h2; simp only [leInt, decide_eq_true_eq] at *; omega) vs
    rw [e]
    congr 1
    apply List.Perm.eq_of_pairwise (le := fun a b => decide (a ≤ b) = true)
    · intro a b _ _ h1 h2
      simp only [decide_eq_true_eq] at h1 h2
      omega
    · exact s
    · exact List.pairwise_mergeSort
        (by intro a b c h1 h2; simp only [decide_eq_true_eq] at *; omega)
        (by intro a b; simp only [Bool.or_eq_true, decide_eq_true_eq]; omega) vs
    · exact p.trans (List.mergeSort_perm vs _).symm
  exact ⟨key, by rw [key, sortVals_int]⟩

/-! ### Stability -/

/-- The quicksort is NOT stable (a stable sort keeps elements with equal keys in their input order): `List<Tagged>`
    (`<` on the key only) holding keys 1, 0, 0 with tags 0, 1, 2 ends up as 0:2, 0:1, 1:0 — the two equal keys exchanged.
    (The same arrangement is observed on the real `List<Tagged>` by the correspondence run: `tsort` lines.) -/
theorem sort_not_stable :
    sortVals ltKey [(1, 0), (0, 1), (0, 2)] = some [(0, 2), (0, 1), (1, 0)] ∧
    ¬ ∀ (vs r : List (Int × Int)), sortVals ltKey vs = some r →
        ∀ a b, a.1 = b.1 → a ≠ b → [a, b].Sublist vs → [a, b].Sublist r := by
  refine ⟨by decide, fun h => ?_⟩
  have := h [(1, 0), (0, 1), (0, 2)] [(0, 2), (0, 1), (1, 0)] (by decide) (0, 1) (0, 2) rfl (by decide) (by decide)
  revert this
  decide

/-! ### Iterators across `sort()` -/

/-- Heap level, comparator as parameter: for EVERY comparison function on the values, `sort()` on a heap that represents
    a chain terminates (fuel `_size`), follows no null pointer, leaves every `prev`/`next` field, `_begin`, `_size`,
    `freeItem` and the blocks exactly as they were (`SameLinks`: only `value` fields are written), still represents the
    chain model (same chain `xs`, same free list `fs`), and the values along the chain are what the position-level
    `sortVals lt` computes from the previous ones. -/
theorem ptr_sort_comparator (lt : Int → Int → Bool) (p : Ptr.PList) (xs fs : List Nat) (s : LState)
    (h : Ptr.Rep p xs fs s) :
    ∃ p', Ptr.sortP lt p = some p' ∧ Ptr.SameLinks p' p ∧
      sortVals lt (xs.map p.val) = some (xs.map p'.val) ∧ (xs.map p'.val).Perm (xs.map p.val) ∧
      Ptr.Rep p' xs fs { s with nodes := LState.setVals s.nodes (xs.map p'.val) } := by
  obtain ⟨p', m', e1, e2, v, sl⟩ := Ptr.sortP_any lt p xs fs s h
  have hm' : m' = xs.map p'.val := Ptr.vals_of_view p' xs m' v
  have hvals : s.vals = xs.map p.val := Ptr.vals_of_view p xs s.vals (Ptr.view_of_rep p xs fs s h)
  rw [hvals, hm'] at e2
  obtain ⟨r, f1, f2⟩ := sort_any_comparator lt (xs.map p.val)
  rw [e2] at f1; cases f1
  exact ⟨p', e1, sl, e2, f2, Ptr.rep_sameLinks p p' xs fs s h sl⟩

/-- … and the only fields `sort()` writes are the `value` fields of items OF THE CHAIN: the value at every other address — the
    sentinel, the items on the free list (destroyed objects in C++), anything unallocated — is untouched.  Any comparison. -/
theorem ptr_sort_writes_chain_only (lt : Int → Int → Bool) (p p' : Ptr.PList) (xs fs : List Nat) (s : LState)
    (h : Ptr.Rep p xs fs s) (hs : Ptr.sortP lt p = some p') : ∀ a, a ∉ xs → p'.val a = p.val a :=
  Ptr.sortP_frame lt p p' xs fs s h hs

/-- What an iterator held across `sort()` denotes.  An iterator is an item address.  `sort()` (any comparison function)
    relinks nothing — `next`, `prev`, `_begin` are the same functions/values afterwards — so the iterator that designated
    the `k`-th item before (`k` increments from `begin()`) designates the `k`-th item afterwards, `end()` stays `end()`,
    and iteration order over the ADDRESSES is unchanged.  What changes is the value seen through it: before, the `k`-th
    element `s.vals[k]` of the old contents; afterwards, the `k`-th element `r[k]` of the sorted contents
    `r = sortVals lt s.vals`.  An iterator therefore keeps its POSITION, not its ELEMENT. -/
theorem ptr_sort_iterators (lt : Int → Int → Bool) (p p' : Ptr.PList) (xs fs : List Nat) (s : LState)
    (h : Ptr.Rep p xs fs s) (hs : Ptr.sortP lt p = some p') :
    p'.next = p.next ∧ p'.prev = p.prev ∧ p'.begin = p.begin ∧
    Ptr.walk p' p'.begin xs.length = some 0 ∧
    ∃ r, sortVals lt s.vals = some r ∧ r.Perm s.vals ∧ ∃ (hr : r.length = xs.length) (hv : s.vals.length = xs.length),
      ∀ k (hk : k < xs.length),
        Ptr.walk p p.begin k = some xs[k] ∧ Ptr.walk p' p'.begin k = some xs[k] ∧
        p.val xs[k] = s.vals[k] ∧ p'.val xs[k] = r[k] := by
  obtain ⟨q, m', e1, e2, v, sl⟩ := Ptr.sortP_any lt p xs fs s h
  rw [hs] at e1; cases e1
  have v0 := Ptr.view_of_rep p xs fs s h
  obtain ⟨r, f1, f2⟩ := sort_any_comparator lt s.vals
  rw [e2] at f1; cases f1
  have wk : ∀ k, k ≤ xs.length → Ptr.walk p p.begin k = some ((xs.drop k).headD 0) := by
    intro k hk; rw [h.beg]; exact Ptr.walk_seg p k xs none h.seg hk
  have wk' : ∀ k, Ptr.walk p' p'.begin k = Ptr.walk p p.begin k := by
    have hw : ∀ k a, Ptr.walk p' a k = Ptr.walk p a k := by
      intro k
      induction k with
      | zero => intro a; rfl
      | succ k ih => intro a; simp only [Ptr.walk, sl.1]; cases p.next a <;> simp [ih]
    intro k; rw [sl.2.2.1]; exact hw k _
  refine ⟨sl.1, sl.2.1, sl.2.2.1, ?_, m', e2, f2, v.len, v0.len, ?_⟩
  · rw [wk', wk _ (Nat.le_refl _)]; simp
  · intro k hk
    have hd : (xs.drop k).headD 0 = xs[k] := by rw [List.drop_eq_getElem_cons hk]; rfl
    have a1 := v0.vals k hk
    have a2 := v.vals k hk
    rw [Ptr.getD_of_lt xs k hk] at a1 a2
    rw [rd_eq_getElem _ k (by rw [v0.len]; exact hk)] at a1
    rw [rd_eq_getElem _ k (by rw [v.len]; exact hk)] at a2
    exact ⟨by rw [wk k (Nat.le_of_lt hk), hd], by rw [wk', wk k (Nat.le_of_lt hk), hd], a1, a2⟩

/-! ### Non-vacuity -/

/-- `<=` on int meets the hypotheses of `sort_nonstrict` and is NOT a strict order -/
example : (∀ x y, leInt x y = true ∨ leInt y x = true) ∧
    (∀ x y z, leInt x y = true → leInt y z = true → leInt x z = true) ∧ leInt 0 0 = true :=
  ⟨by intro x y; simp only [leInt, decide_eq_true_eq]; omega,
   by intro x y z h1 h2; simp only [leInt, decide_eq_true_eq] at *; omega, by decide⟩

example : sortVals leInt [3, 1, 2, 3, 0, -5, 1] = some [-5, 0, 1, 1, 2, 3, 3] := by decide

example : sortValsC ltInt [3, 1, 2, 3, 0, -5, 1] = some [-5, 0, 1, 1, 2, 3, 3] := by decide

/-- the checked read does fault outside the segment: it is not vacuous -/
example : rdC [1, 2, 3] 1 2 0 = none ∧ rdC [1, 2, 3] 1 2 3 = none ∧ rdC [1, 2, 3] 1 2 2 = some 3 := by decide

/-- an inconsistent comparison (always "smaller"): still terminates with a permutation -/
example : sortVals (fun (_ _ : Int) => true) [3, 1, 2, 5] = some [1, 2, 5, 3] := by decide

/-- `ptr_sort_iterators` on a concrete heap: chain 3 → 2 → 1 (addresses) holding 5, 9, 1 -/
example :
    let p := Ptr.run (Ptr.init 4) [.insert 0 5, .insert 1 9, .insert 2 1]
    let q := Ptr.run p [.sort]
    Ptr.walk p p.begin 1 = some 3 ∧ p.val 3 = 9 ∧ Ptr.walk q q.begin 1 = some 3 ∧ q.val 3 = 5 := by decide

end Nstd.Seq
