import Nstd.Seq.Lemmas
/-
  One step of the machine refines one step of the reference sequences and keeps the storage
  invariant of the arrays.
-/
set_option linter.unusedSectionVars false
namespace Nstd.Seq
variable [ArrCfg]

/-- invariant of the machine: both arrays satisfy `size ≤ capacity` (when they have storage) -/
def Inv (s : State) : Prop := s.a0.Ok ∧ s.a1.Ok

def obsS (r : Option (Res State)) : Option (Abs × Option Int) := r.map (fun r => (absS r.st, r.ret))

theorem absS_getL (s : State) (v : Nat) : (absS s).getL v = (s.getL v).vals := by
  unfold Abs.getL State.getL absS; split <;> rfl
theorem absS_getP (s : State) (v : Nat) : (absS s).getP v = (s.getP v).vals := by
  unfold Abs.getP State.getP absS; split <;> rfl
theorem absS_getA (s : State) (v : Nat) : (absS s).getA v = (s.getA v).elems := by
  unfold Abs.getA State.getA absS; split <;> rfl
theorem absS_setL (s : State) (v : Nat) (x : LState) : absS (s.setL v x) = (absS s).setL v x.vals := by
  unfold Abs.setL State.setL absS; split <;> rfl
theorem absS_setP (s : State) (v : Nat) (x : LState) : absS (s.setP v x) = (absS s).setP v x.vals := by
  unfold Abs.setP State.setP absS; split <;> rfl
theorem absS_setA (s : State) (v : Nat) (x : AState) : absS (s.setA v x) = (absS s).setA v x.elems := by
  unfold Abs.setA State.setA absS; split <;> rfl

theorem inv_setL (s : State) (v : Nat) (x : LState) (h : Inv s) : Inv (s.setL v x) := by
  unfold State.setL Inv; split <;> exact h
theorem inv_setP (s : State) (v : Nat) (x : LState) (h : Inv s) : Inv (s.setP v x) := by
  unfold State.setP Inv; split <;> exact h
theorem inv_setA (s : State) (v : Nat) (x : AState) (h : Inv s) (hx : x.Ok) : Inv (s.setA v x) := by
  unfold State.setA Inv; split
  · exact ⟨hx, h.2⟩
  · exact ⟨h.1, hx⟩
theorem inv_getA (s : State) (v : Nat) (h : Inv s) : (s.getA v).Ok := by
  unfold State.getA; split
  · exact h.1
  · exact h.2

/-- the shape of the statement proved for every operation -/
def StepOk (r : Option (Res State)) (spec : Option (Abs × Option Int)) : Prop :=
  obsS r = spec ∧ ∀ x, r = some x → Inv x.st

theorem stepL (s : State) (v : Nat) (f : LState → Option (Res LState)) (g : List Int → Spec.R)
    (hfg : ∀ t, obsL (f t) = g t.vals) (h : Inv s) :
    StepOk (if v < 2 then liftL s v (f (s.getL v)) else none)
      (if v < 2 then Spec.liftL (absS s) v (g ((absS s).getL v)) else none) := by
  by_cases hv : v < 2
  · simp only [hv, if_true, absS_getL, ← hfg]
    unfold StepOk liftL Spec.liftL obsS obsL
    cases f (s.getL v) with
    | none => simp
    | some r => simp [absS_setL, inv_setL, h]
  · simp [hv, StepOk, obsS]

theorem stepP (s : State) (v : Nat) (f : LState → Option (Res LState)) (g : List Int → Spec.R)
    (hfg : ∀ t, obsL (f t) = g t.vals) (h : Inv s) :
    StepOk (if v < 2 then liftP s v (f (s.getP v)) else none)
      (if v < 2 then Spec.liftP (absS s) v (g ((absS s).getP v)) else none) := by
  by_cases hv : v < 2
  · simp only [hv, if_true, absS_getP, ← hfg]
    unfold StepOk liftP Spec.liftP obsS obsL
    cases f (s.getP v) with
    | none => simp
    | some r => simp [absS_setP, inv_setP, h]
  · simp [hv, StepOk, obsS]

theorem stepA (s : State) (v : Nat) (f : AState → Option (Res AState)) (g : List Int → Spec.R)
    (hfg : ∀ t, t.Ok → AState.Good (f t) (g t.elems)) (h : Inv s) :
    StepOk (if v < 2 then liftA s v (f (s.getA v)) else none)
      (if v < 2 then Spec.liftA (absS s) v (g ((absS s).getA v)) else none) := by
  by_cases hv : v < 2
  · obtain ⟨g1, g2⟩ := hfg (s.getA v) (inv_getA s v h)
    simp only [hv, if_true, absS_getA, ← g1]
    unfold StepOk liftA Spec.liftA obsS obsA
    cases hq : f (s.getA v) with
    | none => simp
    | some r =>
      have := g2 r hq
      simp [absS_setA, inv_setA, h, this]
  · simp [hv, StepOk, obsS]

theorem obsL_map_noRet (r : Option (Res LState)) :
    obsL (r.map (fun x => { x with ret := none })) = Spec.noRet (obsL r) := by
  cases r <;> simp [obsL, Spec.noRet]

theorem insert_const (xs ys : List Int) (pos : Nat) (hp : pos ≤ xs.length) :
    Spec.noRet (Spec.insert xs pos ys) = Spec.const (xs.take pos ++ ys ++ xs.drop pos) := by
  simp [Spec.noRet, Spec.insert, Spec.const, hp]

theorem step_refines (s : State) (op : Op) (h : Inv s) :
    StepOk (step s op) (Spec.step (absS s) op) := by
  cases op with
  | lappend v x =>
    exact stepL s v (fun t => t.append x) (fun xs => Spec.insert xs xs.length [x])
      (by intro t; unfold LState.append; rw [LState.insert_refines, LState.size_eq]) h
  | lprepend v x =>
    exact stepL s v (fun t => t.prepend x) (fun xs => Spec.insert xs 0 [x])
      (by intro t; exact LState.insert_refines t 0 x) h
  | linsert v pos x =>
    exact stepL s v (fun t => t.insert pos x) (fun xs => Spec.insert xs pos [x])
      (by intro t; exact LState.insert_refines t pos x) h
  | linsertl v pos =>
    exact stepL s v (fun t => t.insertList pos (s.getL (1 - v)).vals)
      (fun xs => Spec.insert xs pos ((absS s).getL (1 - v)))
      (by intro t; rw [absS_getL]; exact LState.insertList_refines t pos _) h
  | lappendl v =>
    exact stepL s v (fun t => (t.insertList t.size (s.getL (1 - v)).vals).map (fun x => { x with ret := none }))
      (fun xs => Spec.const (xs ++ (absS s).getL (1 - v)))
      (by intro t; rw [absS_getL, obsL_map_noRet, LState.insertList_refines, LState.size_eq,
            insert_const _ _ _ (Nat.le_refl _)]; simp) h
  | lprependl v =>
    exact stepL s v (fun t => (t.insertList 0 (s.getL (1 - v)).vals).map (fun x => { x with ret := none }))
      (fun xs => Spec.const ((absS s).getL (1 - v) ++ xs))
      (by intro t; rw [absS_getL, obsL_map_noRet, LState.insertList_refines,
            insert_const _ _ _ (Nat.zero_le _)]; simp) h
  | lremove v pos =>
    exact stepL s v (fun t => t.remove pos) (fun xs => Spec.remove xs pos)
      (by intro t; exact LState.remove_refines t pos) h
  | lremovev v x =>
    exact stepL s v (fun t => t.removeValue x) (fun xs => Spec.removeValue xs x)
      (by intro t; exact LState.removeValue_refines t x) h
  | lremoveFront v =>
    exact stepL s v (fun t => t.removeFront) Spec.removeFront (by intro t; exact LState.removeFront_refines t) h
  | lremoveBack v =>
    exact stepL s v (fun t => t.removeBack) Spec.removeBack (by intro t; exact LState.removeBack_refines t) h
  | lclear v =>
    exact stepL s v (fun t => some { st := t.clear }) (fun _ => Spec.const [])
      (by intro t; simp [obsL, Spec.const, LState.vals_clear]) h
  | lswap v =>
    unfold step Spec.step StepOk obsS
    by_cases hv : v < 2
    · simp [hv, absS_setL, absS_getL, inv_setL, h]
    · simp [hv]
  | lcopy v =>
    unfold step Spec.step StepOk obsS
    by_cases hv : v < 2
    · simp [hv, absS_setL, absS_getL, inv_setL, h, Spec.liftL, Spec.const, LState.vals_appendAll,
        show ({ bk := (s.getL v).bk } : LState).vals = [] from rfl]
    · simp [hv]
  | lassign v =>
    unfold step Spec.step StepOk obsS
    by_cases hv : v < 2
    · simp [hv, absS_setL, absS_getL, inv_setL, h, Spec.liftL, Spec.const, LState.vals_appendAll, LState.vals_clear]
    · simp [hv]
  | lfind v x =>
    exact stepL s v (fun t => t.find x) (fun xs => Spec.find xs x) (by intro t; exact LState.find_refines t x) h
  | leq v w =>
    unfold step Spec.step StepOk obsS
    by_cases hv : v < 2 ∧ w < 2
    · simp only [hv, and_self, if_true, Option.map_some, absS_getL, Option.some.injEq, Prod.mk.injEq,
        true_and, forall_eq']
      refine ⟨?_, h⟩
      by_cases e : (s.getL v).vals = (s.getL w).vals
      · simp [e, LState.size_eq]
      · simp [e]
    · simp [hv]
  | lfront v => exact stepL s v (fun t => t.front) Spec.front (by intro t; exact LState.front_refines t) h
  | lback v => exact stepL s v (fun t => t.back) Spec.back (by intro t; exact LState.back_refines t) h
  | lsort v => exact stepL s v (fun t => t.sort) Spec.sort (by intro t; exact LState.sort_refines t) h
  | pappend v x =>
    exact stepP s v (fun t => t.append x) (fun xs => Spec.insert xs xs.length [x])
      (by intro t; unfold LState.append; rw [LState.insert_refines, LState.size_eq]) h
  | premove v pos =>
    exact stepP s v (fun t => t.remove pos) (fun xs => Spec.remove xs pos)
      (by intro t; exact LState.remove_refines t pos) h
  | premovev v pos =>
    exact stepP s v (fun t => (t.remove pos).map (fun x => { x with ret := none }))
      (fun xs => Spec.noRet (Spec.remove xs pos))
      (by intro t; rw [obsL_map_noRet, LState.remove_refines]) h
  | premoveFront v =>
    exact stepP s v (fun t => t.removeFront) Spec.removeFront (by intro t; exact LState.removeFront_refines t) h
  | premoveBack v =>
    exact stepP s v (fun t => t.removeBack) Spec.removeBack (by intro t; exact LState.removeBack_refines t) h
  | pclear v =>
    exact stepP s v (fun t => some { st := t.clear }) (fun _ => Spec.const [])
      (by intro t; simp [obsL, Spec.const, LState.vals_clear]) h
  | pswap v =>
    unfold step Spec.step StepOk obsS
    by_cases hv : v < 2
    · simp [hv, absS_setP, absS_getP, inv_setP, h]
    · simp [hv]
  | pfront v => exact stepP s v (fun t => t.front) Spec.front (by intro t; exact LState.front_refines t) h
  | pback v => exact stepP s v (fun t => t.back) Spec.back (by intro t; exact LState.back_refines t) h
  | anew v =>
    unfold step Spec.step StepOk obsS
    by_cases hv : v < 2
    · simp [hv, absS_setA, Spec.liftA, Spec.const, AState.elems, inv_setA, h, AState.ok_init]
    · simp [hv]
  | anewcap v n =>
    unfold step Spec.step StepOk obsS
    by_cases hv : v < 2
    · simp [hv, absS_setA, Spec.liftA, Spec.const, AState.elems, inv_setA, h, AState.ok_newcap]
    · simp [hv]
  | acopy v =>
    unfold step Spec.step StepOk obsS
    by_cases hv : v < 2
    · obtain ⟨g1, g2⟩ := AState.copyFrom_good {} (s.getA (1 - v)) AState.ok_init rfl (inv_getA s _ h)
      simp only [hv, if_true, absS_getA]
      cases hq : AState.copyFrom {} (s.getA (1 - v)) with
      | none => rw [hq] at g1; simp [obsA, Spec.const] at g1
      | some r =>
        rw [hq] at g1
        simp only [obsA, Option.map_some, Spec.const, Option.some.injEq, Prod.mk.injEq] at g1
        simp [absS_setA, Spec.liftA, Spec.const, g1.1, inv_setA, h, g2 r hq]
    · simp [hv]
  | aassign v =>
    exact stepA s v (fun t => t.clear.copyFrom (s.getA (1 - v))) (fun _ => Spec.const ((absS s).getA (1 - v)))
      (by intro t ht; rw [absS_getA]
          exact AState.copyFrom_good t.clear _ (AState.ok_clear t ht) (AState.elems_clear t) (inv_getA s _ h)) h
  | areserve v n =>
    unfold step Spec.step StepOk obsS
    by_cases hv : v < 2
    · obtain ⟨r1, r2, _⟩ := AState.reserve_spec (s.getA v) n (inv_getA s v h)
      simp [hv, absS_setA, absS_getA, Spec.liftA, Spec.const, r1, inv_setA, h, r2]
    · simp [hv]
  | aresize v n x =>
    exact stepA s v (fun t => t.resize n x) (fun xs => Spec.resize xs n x)
      (by intro t ht; exact AState.resize_good t ht n x) h
  | aresized v n =>
    exact stepA s v (fun t => t.resize n 0) (fun xs => Spec.resize xs n 0)
      (by intro t ht; exact AState.resize_good t ht n 0) h
  | aappend v x =>
    exact stepA s v (fun t => t.append x) (fun xs => Spec.insert xs xs.length [x])
      (by intro t ht; exact AState.append_good t ht x) h
  | aappenda v =>
    exact stepA s v (fun t => t.appendAll (s.getA (1 - v)).elems) (fun xs => Spec.const (xs ++ (absS s).getA (1 - v)))
      (by intro t ht; rw [absS_getA]; exact AState.appendAll_good t ht _) h
  | aappendn v xs =>
    exact stepA s v (fun t => t.appendAll xs) (fun ys => Spec.const (ys ++ xs))
      (by intro t ht; exact AState.appendAll_good t ht xs) h
  | aremovei v i =>
    exact stepA s v (fun t => t.removeIdx i) (fun xs => Spec.const (xs.eraseIdx i))
      (by intro t ht; exact AState.removeIdx_good t ht i) h
  | aremove v pos =>
    exact stepA s v (fun t => t.removeIt pos) (fun xs => Spec.remove xs pos)
      (by intro t ht; exact AState.removeIt_good t ht pos) h
  | aremoveFront v =>
    exact stepA s v (fun t => t.removeFront) Spec.removeFront
      (by intro t ht; exact AState.removeIt_good t ht 0) h
  | aremoveBack v =>
    exact stepA s v (fun t => t.removeBack) Spec.removeBack
      (by intro t ht; exact AState.removeBack_good t ht) h
  | aclear v =>
    exact stepA s v (fun t => some { st := t.clear }) (fun _ => Spec.const [])
      (by intro t ht; simp [AState.Good, obsA, Spec.const, AState.elems_clear, AState.ok_clear t ht]) h
  | aswap v =>
    unfold step Spec.step StepOk obsS
    by_cases hv : v < 2
    · simp only [hv, if_true, Option.map_some, absS_setA, absS_getA, Option.some.injEq, forall_eq', true_and]
      exact inv_setA _ _ _ (inv_setA _ _ _ h (inv_getA s _ h)) (inv_getA s _ h)
    · simp [hv]
  | afind v x =>
    exact stepA s v (fun t => t.find x) (fun xs => Spec.find xs x) (by intro t ht; exact AState.find_good t ht x) h
  | aget v i =>
    exact stepA s v (fun t => t.get i) (fun xs => Spec.get xs i) (by intro t ht; exact AState.get_good t ht i) h
  | afront v => exact stepA s v (fun t => t.front) Spec.front (by intro t ht; exact AState.front_good t ht) h
  | aback v => exact stepA s v (fun t => t.back) Spec.back (by intro t ht; exact AState.back_good t ht) h
  | lappendself v =>
    exact stepL s v (fun t => (t.insertList t.size t.vals).map (fun x => { x with ret := none }))
      (fun xs => Spec.const (xs ++ xs))
      (by intro t; rw [obsL_map_noRet, LState.insertList_refines, LState.size_eq,
            insert_const _ _ _ (Nat.le_refl _)]; simp) h
  | lprependself v =>
    exact stepL s v (fun t => (t.insertList 0 t.vals).map (fun x => { x with ret := none }))
      (fun xs => Spec.const (xs ++ xs))
      (by intro t; rw [obsL_map_noRet, LState.insertList_refines, insert_const _ _ _ (Nat.zero_le _)]; simp) h
  | linsertself v pos =>
    exact stepL s v (fun t => t.insertList pos t.vals) (fun xs => Spec.insert xs pos xs)
      (by intro t; exact LState.insertList_refines t pos _) h
  | lassignself v =>
    unfold step Spec.step StepOk obsS
    by_cases hv : v < 2
    · simp [hv, h]
    · simp [hv]
  | aappendself v =>
    exact stepA s v (fun t => t.appendSelf) (fun xs => Spec.const (xs ++ xs))
      (by intro t ht; exact AState.appendSelf_good t ht) h
  | aappendref v i =>
    exact stepA s v (fun t => t.appendRef i) (fun xs => match xs[i]? with
        | some x => Spec.insert xs xs.length [x]
        | none => none)
      (by intro t ht; exact AState.appendRef_good t ht i) h
  | aresizeref v n i =>
    exact stepA s v (fun t => t.resizeRef n i) (fun xs => match xs[i]? with
        | some x => Spec.resize xs n x
        | none => none)
      (by intro t ht; exact AState.resizeRef_good t ht n i) h
  | aappendsub v i n =>
    exact stepA s v (fun t => t.appendSub i n)
      (fun xs => if i + n ≤ xs.length then Spec.const (xs ++ (xs.drop i).take n) else none)
      (by intro t ht; exact AState.appendSub_good t ht i n) h
  | aassignself v =>
    unfold step Spec.step StepOk obsS
    by_cases hv : v < 2
    · simp [hv, h]
    · simp [hv]
  | aeq v w =>
    unfold step Spec.step StepOk obsS
    by_cases hv : v < 2 ∧ w < 2
    · simp only [hv, and_self, if_true, Option.map_some, absS_getA, Option.some.injEq, Prod.mk.injEq,
        true_and, forall_eq']
      refine ⟨?_, h⟩
      by_cases e : (s.getA v).elems = (s.getA w).elems
      · simp [e, AState.size_eq]
      · simp [e]
    · simp [hv]

end Nstd.Seq
