import Nstd.Hash.PtrSelf
/-
  One step of the pointer-level two-table machine is simulated by one step of the chain-list machine.
-/
namespace Nstd.Hash.Ptr
open Nstd.Hash

/-- coupling of the two machines: both tables coupled, and every table object knows its own identity -/
structure PRel (ps : PState) (s : State) : Prop where
  a : Rel ps.a s.a
  b : Rel ps.b s.b
  selfa : ps.a.self = false
  selfb : ps.b.self = true

theorem PRel.get {ps : PState} {s : State} (hp : PRel ps s) (t : Bool) :
    Rel (ps.get t) (s.get t) ∧ (ps.get t).self = t := by
  cases t
  · exact ⟨hp.a, hp.selfa⟩
  · exact ⟨hp.b, hp.selfb⟩

theorem PRel.set {ps : PState} {s : State} (hp : PRel ps s) (t : Bool) {x : PTable} {y : Table}
    (hx : Rel x y) (hs : x.self = t) : PRel (ps.set t x) (s.set t y) := by
  cases t
  · exact ⟨hx, hp.b, hs, hp.selfb⟩
  · exact ⟨hp.a, hx, hp.selfa, hs⟩

theorem pinitWith_rel (ipb dcap : Nat) : PRel (pinitWith ipb dcap) (initWith ipb dcap) :=
  ⟨fresh_rel false _ _ _, fresh_rel true _ _ _, rfl, rfl⟩

theorem pinit_rel : PRel pinit init := pinitWith_rel 4 500

/-- outcome of one step of both machines: same result, coupled successor states; or both reject -/
def StepSim (r : Option (PState × Out)) (r' : Option (State × Out)) : Prop :=
  match r, r' with
  | some (ps', o), some (s', o') => o = o' ∧ PRel ps' s'
  | none, none => True
  | _, _ => False

theorem removeAtPos_sim {h : Nat → Nat} {pt : PTable} {t : Table} (hr : Rel pt t) (hi : t.Inv h) (pos : Nat) :
    match Ptr.removeAtPos pt pos, Nstd.Hash.removeAtPos t pos with
    | some (pt', p), some (t', p') => p = p' ∧ Rel pt' t' ∧ pt'.self = pt.self
    | none, none => True
    | _, _ => False := by
  unfold Ptr.removeAtPos Nstd.Hash.removeAtPos
  rw [hr.order_eq hi]
  dsimp only
  cases hg : t.order[pos]? with
  | none => simp
  | some id =>
    have hm : id ∈ t.order := List.mem_of_getElem? hg
    obtain ⟨r1, r2, l1, l2, ho, hnx⟩ := hr.removeItem hi id hm
    have hi' := (hi.removeItem id hm).1
    dsimp only
    rw [r1.order_eq hi']
    dsimp only
    refine ⟨?_, r1, r2⟩
    rw [hnx]
    -- the position of the returned iterator
    have hon : (l1 ++ id :: l2).Nodup := ho ▸ hi.order_nodup
    have hpos : pos = l1.length := by
      have h1 := posOf_getElem? t.order pos id hi.order_nodup hg
      have h2 : t.order[l1.length]? = some id := by rw [ho]; simp
      have h3 := posOf_getElem? t.order l1.length id hi.order_nodup h2
      omega
    have hnext : t.order[pos + 1]? = l2.head? := by
      rw [ho, hpos]
      cases l2 <;> simp
    rw [hnext]
    cases l2 with
    | nil => rfl
    | cons y r => rfl

theorem pstep_sim (kind : Kind) (h : Nat → Nat) (ps : PState) (s : State) (op : Op)
    (hp : PRel ps s) (hs : SInv h s) : StepSim (pstep kind h ps op) (step kind h s op) := by
  unfold StepSim
  by_cases hav : op.available kind = true
  case neg => simp [pstep, step, hav]
  cases op with
  | construct t cap =>
    simp only [pstep, step, hav, Bool.not_true, Bool.false_eq_true, if_false, (hp.get t).1.ipb, (hp.get t).1.dcap]
    exact ⟨by triv, hp.set t (fresh_rel t _ _ _) rfl⟩
  | constructDefault t =>
    simp only [pstep, step, hav, Bool.not_true, Bool.false_eq_true, if_false, (hp.get t).1.ipb, (hp.get t).1.dcap]
    exact ⟨by triv, hp.set t (fresh_rel t _ _ _) rfl⟩
  | copyFrom t =>
    obtain ⟨pt', e1, e2, e3⟩ := (hp.get (!t)).1.copyOf (hs.get (!t)) kind t
    simp only [pstep, step, hav, Bool.not_true, Bool.false_eq_true, if_false, optSet, e1, Option.map_some]
    exact ⟨by triv, hp.set t e2 e3⟩
  | assign t =>
    obtain ⟨pt', e1, e2, e3⟩ := (hp.get t).1.assignFrom (hp.get (!t)).1 (hs.get t) (hs.get (!t)) kind
    simp only [pstep, step, hav, Bool.not_true, Bool.false_eq_true, if_false, optSet, e1, Option.map_some]
    exact ⟨by triv, hp.set t e2 (by rw [e3]; exact (hp.get t).2)⟩
  | append t k v =>
    obtain ⟨res, e1, e2, e3, e4⟩ := (hp.get t).1.insert (hs.get t) kind (s.get t).order.length k v (Nat.le_refl _)
    rw [nxtAt_length] at e1
    simp only [pstep, step, hav, Bool.not_true, Bool.false_eq_true, if_false, e1, Table.append]
    refine ⟨?_, hp.set t e3 (by rw [e4]; exact (hp.get t).2)⟩
    rw [e2, (e3.kv _).2]
  | prepend t k v =>
    obtain ⟨res, e1, e2, e3, e4⟩ := (hp.get t).1.insert (hs.get t) kind 0 k v (Nat.zero_le _)
    have hb : nxtAt (ps.get t).self (s.get t).order 0 = (ps.get t).begin := by
      rw [(hp.get t).1.begin_eq, nxtAt]
      cases (s.get t).order <;> rfl
    rw [hb] at e1
    simp only [pstep, step, hav, Bool.not_true, Bool.false_eq_true, if_false, e1, Table.prepend]
    refine ⟨?_, hp.set t e3 (by rw [e4]; exact (hp.get t).2)⟩
    rw [e2, (e3.kv _).2]
  | insert t pos k v =>
    simp only [pstep, step, hav, Bool.not_true, Bool.false_eq_true, if_false, (hp.get t).1.order_eq (hs.get t)]
    by_cases hpos : pos ≤ (s.get t).order.length
    · obtain ⟨res, e1, e2, e3, e4⟩ := (hp.get t).1.insert (hs.get t) kind pos k v hpos
      have hinv := ((hs.get t).insert kind pos k v hpos).1
      simp only [hpos, if_true, e1, e3.order_eq hinv]
      exact ⟨by rw [e2], hp.set t e3 (by rw [e4]; exact (hp.get t).2)⟩
    · simp [hpos]
  | removeKey t k =>
    obtain ⟨pt', e1, e2, e3⟩ := (hp.get t).1.removeKey (hs.get t) k
    simp only [pstep, step, hav, Bool.not_true, Bool.false_eq_true, if_false, optSet, e1, Option.map_some]
    exact ⟨by triv, hp.set t e2 (by rw [e3]; exact (hp.get t).2)⟩
  | removeAt t pos =>
    have := removeAtPos_sim (hp.get t).1 (hs.get t) pos
    simp only [pstep, step, hav, Bool.not_true, Bool.false_eq_true, if_false]
    cases h1 : Ptr.removeAtPos (ps.get t) pos with
    | none =>
      cases h2 : Nstd.Hash.removeAtPos (s.get t) pos with
      | none => trivial
      | some r' => rw [h1, h2] at this; exact this
    | some r =>
      cases h2 : Nstd.Hash.removeAtPos (s.get t) pos with
      | none => rw [h1, h2] at this; exact this
      | some r' =>
        rw [h1, h2] at this
        obtain ⟨pt', p⟩ := r
        obtain ⟨t', p'⟩ := r'
        simp only at this ⊢
        exact ⟨by rw [this.1], hp.set t this.2.1 (by rw [this.2.2]; exact (hp.get t).2)⟩
  | removeValue t pos =>
    have := removeAtPos_sim (hp.get t).1 (hs.get t) pos
    simp only [pstep, step, hav, Bool.not_true, Bool.false_eq_true, if_false]
    cases h1 : Ptr.removeAtPos (ps.get t) pos with
    | none =>
      cases h2 : Nstd.Hash.removeAtPos (s.get t) pos with
      | none => trivial
      | some r' => rw [h1, h2] at this; exact this
    | some r =>
      cases h2 : Nstd.Hash.removeAtPos (s.get t) pos with
      | none => rw [h1, h2] at this; exact this
      | some r' =>
        rw [h1, h2] at this
        obtain ⟨pt', p⟩ := r
        obtain ⟨t', p'⟩ := r'
        simp only at this ⊢
        exact ⟨by triv, hp.set t this.2.1 (by rw [this.2.2]; exact (hp.get t).2)⟩
  | removeFront t =>
    have := removeAtPos_sim (hp.get t).1 (hs.get t) 0
    simp only [pstep, step, hav, Bool.not_true, Bool.false_eq_true, if_false]
    cases h1 : Ptr.removeAtPos (ps.get t) 0 with
    | none =>
      cases h2 : Nstd.Hash.removeAtPos (s.get t) 0 with
      | none => trivial
      | some r' => rw [h1, h2] at this; exact this
    | some r =>
      cases h2 : Nstd.Hash.removeAtPos (s.get t) 0 with
      | none => rw [h1, h2] at this; exact this
      | some r' =>
        rw [h1, h2] at this
        obtain ⟨pt', p⟩ := r
        obtain ⟨t', p'⟩ := r'
        simp only at this ⊢
        exact ⟨by rw [this.1], hp.set t this.2.1 (by rw [this.2.2]; exact (hp.get t).2)⟩
  | removeBack t =>
    simp only [pstep, step, hav, Bool.not_true, Bool.false_eq_true, if_false, (hp.get t).1.endPrev_eq]
    cases hl : (s.get t).order.getLast? with
    | none =>
      have : (s.get t).order = [] := List.getLast?_eq_none_iff.1 hl
      simp [this]
    | some last =>
      have hne : (s.get t).order ≠ [] := fun e => by rw [e] at hl; simp at hl
      have hlen : ¬ (s.get t).order.length = 0 := fun e => hne (List.length_eq_zero_iff.1 e)
      have hget : (s.get t).order[(s.get t).order.length - 1]? = some last := by
        rw [← hl, List.getLast?_eq_getElem?]
      have := removeAtPos_sim (hp.get t).1 (hs.get t) ((s.get t).order.length - 1)
      simp only [Ptr.removeAtPos, Nstd.Hash.removeAtPos, (hp.get t).1.order_eq (hs.get t), hget] at this
      simp only [hlen, if_false, Nstd.Hash.removeAtPos, hget]
      cases ho : ((ps.get t).removeItem last).1.order with
      | none => rw [ho] at this; exact this
      | some l' =>
        rw [ho] at this
        simp only at this ⊢
        exact ⟨by rw [this.1], hp.set t this.2.1 (by rw [this.2.2]; exact (hp.get t).2)⟩
  | clear t =>
    obtain ⟨pt', e1, e2, e3⟩ := (hp.get t).1.clear (hs.get t)
    simp only [pstep, step, hav, Bool.not_true, Bool.false_eq_true, if_false, optSet, e1, Option.map_some]
    exact ⟨by triv, hp.set t e2 (by rw [e3]; exact (hp.get t).2)⟩
  | swap t =>
    obtain ⟨e1, e2, e3, e4⟩ := (hp.get t).1.swap (hp.get (!t)).1 (hs.get t) (hs.get (!t))
    simp only [pstep, step, hav, Bool.not_true, Bool.false_eq_true, if_false]
    exact ⟨by triv, (hp.set t e1 (by rw [e3]; exact (hp.get t).2)).set (!t) e2 (by rw [e4]; exact (hp.get (!t)).2)⟩
  | appendAll t =>
    obtain ⟨pt', e1, e2, e3⟩ := (hp.get t).1.appendAll (hp.get (!t)).1 (hs.get t) (hs.get (!t)) kind
    simp only [pstep, step, hav, Bool.not_true, Bool.false_eq_true, if_false, optSet, e1, Option.map_some]
    exact ⟨by triv, hp.set t e2 (by rw [e3]; exact (hp.get t).2)⟩
  | removeAll t =>
    obtain ⟨pt', e1, e2, e3⟩ := (hp.get t).1.removeAll (hp.get (!t)).1 (hs.get t) (hs.get (!t))
    simp only [pstep, step, hav, Bool.not_true, Bool.false_eq_true, if_false, optSet, e1, Option.map_some]
    exact ⟨by triv, hp.set t e2 (by rw [e3]; exact (hp.get t).2)⟩
  | setValue t k v =>
    obtain ⟨pt', e1, e2, e3⟩ := (hp.get t).1.setValue (hs.get t) k v
    simp only [pstep, step, hav, Bool.not_true, Bool.false_eq_true, if_false, optSet, e1, Option.map_some]
    exact ⟨by triv, hp.set t e2 (by rw [e3]; exact (hp.get t).2)⟩
  | assignSelf t =>
    simp only [pstep, step, hav, Bool.not_true, Bool.false_eq_true, if_false]
    exact ⟨by triv, hp⟩
  | swapSelf t =>
    obtain ⟨e1, e2⟩ := (hp.get t).1.swapSelf (hs.get t)
    simp only [pstep, step, hav, Bool.not_true, Bool.false_eq_true, if_false]
    have := hp.set t e1 (by rw [e2]; exact (hp.get t).2)
    have hss : s.set t (s.get t) = s := by cases t <;> rfl
    rw [hss] at this
    exact ⟨by triv, this⟩
  | appendSelf t =>
    have hk : kind ≠ Kind.map := by
      intro hk; rw [hk] at hav; simp [Op.available] at hav
    obtain ⟨e1, e2⟩ := (hp.get t).1.appendSelf (hs.get t) kind hk
    simp only [pstep, step, hav, Bool.not_true, Bool.false_eq_true, if_false, optSet, e1, e2, Option.map_some]
    exact ⟨by triv, hp.set t (hp.get t).1 (hp.get t).2⟩
  | removeSelf t =>
    obtain ⟨pt', e1, e2, e3⟩ := (hp.get t).1.removeSelf (hs.get t)
    simp only [pstep, step, hav, Bool.not_true, Bool.false_eq_true, if_false, optSet, e1, Option.map_some]
    exact ⟨by triv, hp.set t e2 (by rw [e3]; exact (hp.get t).2)⟩
  | find t k =>
    simp only [pstep, step, hav, Bool.not_true, Bool.false_eq_true, if_false, (hp.get t).1.find (hs.get t) k,
      (hp.get t).1.order_eq (hs.get t)]
    exact ⟨by triv, hp⟩
  | contains t k =>
    simp only [pstep, step, hav, Bool.not_true, Bool.false_eq_true, if_false, (hp.get t).1.find (hs.get t) k]
    exact ⟨by triv, hp⟩
  | size t =>
    simp only [pstep, step, hav, Bool.not_true, Bool.false_eq_true, if_false, (hp.get t).1.size]
    exact ⟨by triv, hp⟩
  | isEmpty t =>
    simp only [pstep, step, hav, Bool.not_true, Bool.false_eq_true, if_false, PTable.isEmpty, Table.isEmpty,
      (hp.get t).1.endPrev_eq]
    refine ⟨?_, hp⟩
    cases (s.get t).order with
    | nil => rfl
    | cons x r =>
      have : (x :: r).getLast? ≠ none := by simp
      cases hg : (x :: r).getLast? with
      | none => exact absurd hg this
      | some z => rfl
  | iterate t =>
    simp only [pstep, step, hav, Bool.not_true, Bool.false_eq_true, if_false, (hp.get t).1.order_eq (hs.get t)]
    refine ⟨?_, hp⟩
    simp only [Table.iterate, Table.entry, Out.entries.injEq]
    apply List.map_congr_left
    intro j _
    rw [((hp.get t).1.kv j).1, ((hp.get t).1.kv j).2]
    rfl
  | front t =>
    simp only [pstep, step, hav, Bool.not_true, Bool.false_eq_true, if_false, (hp.get t).1.begin_eq]
    cases (s.get t).order with
    | nil => trivial
    | cons x r =>
      simp only [List.head?_cons]
      refine ⟨?_, hp⟩
      simp only [Ptr.shown, Nstd.Hash.shown, ((hp.get t).1.kv x).1, ((hp.get t).1.kv x).2]
  | back t =>
    simp only [pstep, step, hav, Bool.not_true, Bool.false_eq_true, if_false, (hp.get t).1.endPrev_eq]
    cases (s.get t).order.getLast? with
    | none => trivial
    | some x =>
      refine ⟨?_, hp⟩
      simp only [Ptr.shown, Nstd.Hash.shown, ((hp.get t).1.kv x).1, ((hp.get t).1.kv x).2]
  | equal t u =>
    simp only [pstep, step, hav, Bool.not_true, Bool.false_eq_true, if_false,
      (hp.get t).1.equal (hp.get u).1 (hs.get t) (hs.get u) kind]
    cases Table.equal kind (s.get t) (s.get u) with
    | none => trivial
    | some b => exact ⟨by triv, hp⟩
  | notEqual t u =>
    simp only [pstep, step, hav, Bool.not_true, Bool.false_eq_true, if_false,
      (hp.get t).1.equal (hp.get u).1 (hs.get t) (hs.get u) kind]
    cases Table.equal kind (s.get t) (s.get u) with
    | none => trivial
    | some b => exact ⟨by triv, hp⟩
  | iterBack t =>
    simp only [pstep, step, hav, Bool.not_true, Bool.false_eq_true, if_false, (hp.get t).1.orderBack_eq (hs.get t)]
    refine ⟨?_, hp⟩
    simp only [Table.entry, Out.entries.injEq]
    apply List.map_congr_left
    intro j _
    rw [((hp.get t).1.kv j).1, ((hp.get t).1.kv j).2]
    rfl
  | entryAt t pos =>
    simp only [pstep, step, hav, Bool.not_true, Bool.false_eq_true, if_false, (hp.get t).1.order_eq (hs.get t)]
    cases (s.get t).order[pos]? with
    | none => trivial
    | some id =>
      refine ⟨?_, hp⟩
      simp only [Table.entry, ((hp.get t).1.kv id).1, ((hp.get t).1.kv id).2]

end Nstd.Hash.Ptr
