import Nstd.Hash.PtrModel
/-
  Linked segments with back-pointers, generically: both the bucket chains (`nextCell` forward,
  `cell` back-pointer to the referring cell) and the order list (`next` forward, `prev` back)
  are instances.  `GSeg fwd back b0 first l last`: starting from the pointer value `first`
  the items `l` follow each other along `fwd`, the segment is closed by the pointer value
  `last`, and every item's back-pointer designates its predecessor (`b0` for the first).
-/
namespace Nstd.Hash.Ptr

section
variable {P B : Type} (mk : Nat → P) (bk : Nat → B)

def GSeg (fwd : Nat → P) (back : Nat → B) : B → P → List Nat → P → Prop
  | _, first, [], last => first = last
  | b0, first, id :: rest, last => first = mk id ∧ back id = b0 ∧ GSeg fwd back (bk id) (fwd id) rest last

/-- the pointer value that designates the head of `l` (`last` when empty) -/
def headP (l : List Nat) (last : P) : P :=
  match l with
  | [] => last
  | x :: _ => mk x

/-- the back-pointer value a successor of the segment `l` must hold -/
def lastB : B → List Nat → B
  | b0, [] => b0
  | _, x :: rest => lastB (bk x) rest

theorem GSeg_first {fwd : Nat → P} {back : Nat → B} {b0 : B} {first last : P} {l : List Nat}
    (h : GSeg mk bk fwd back b0 first l last) : first = headP mk l last := by
  cases l with
  | nil => exact h
  | cons x r => exact h.1

theorem GSeg_congr {fwd fwd' : Nat → P} {back back' : Nat → B} (l : List Nat)
    (hc : ∀ j ∈ l, fwd' j = fwd j ∧ back' j = back j) (b0 : B) (first last : P) :
    GSeg mk bk fwd' back' b0 first l last ↔ GSeg mk bk fwd back b0 first l last := by
  induction l generalizing b0 first with
  | nil => exact Iff.rfl
  | cons x r ih =>
    simp only [GSeg]
    rw [(hc x List.mem_cons_self).1, (hc x List.mem_cons_self).2,
      ih (fun j hj => hc j (List.mem_cons_of_mem _ hj))]

theorem GSeg_append {fwd : Nat → P} {back : Nat → B} (l1 l2 : List Nat) (b0 : B) (first last : P) :
    GSeg mk bk fwd back b0 first (l1 ++ l2) last ↔
      (GSeg mk bk fwd back b0 first l1 (headP mk l2 last) ∧
       GSeg mk bk fwd back (lastB bk b0 l1) (headP mk l2 last) l2 last) := by
  induction l1 generalizing b0 first with
  | nil =>
    simp only [List.nil_append, GSeg, lastB]
    constructor
    · intro h; exact ⟨GSeg_first mk bk h, (GSeg_first mk bk h) ▸ h⟩
    · intro ⟨h1, h2⟩; exact h1 ▸ h2
  | cons x r ih =>
    simp only [List.cons_append, GSeg, lastB]
    rw [ih]
    constructor
    · intro ⟨a, b, c, d⟩; exact ⟨⟨a, b, c⟩, d⟩
    · intro ⟨⟨a, b, c⟩, d⟩; exact ⟨a, b, c, d⟩

/-- redirect the forward pointer of the last item of `l1` (or the entry pointer when `l1` is empty) to `X` -/
theorem GSeg_set_last {fwd fwd' : Nat → P} {back back' : Nat → B} (l1 : List Nat) (X : P) (hn : l1.Nodup)
    (hb : ∀ j ∈ l1, (l1.getLast? ≠ some j → fwd' j = fwd j) ∧ back' j = back j)
    (hc : ∀ x, l1.getLast? = some x → fwd' x = X)
    (b0 : B) (first m : P) (h : GSeg mk bk fwd back b0 first l1 m) :
    GSeg mk bk fwd' back' b0 (if l1 = [] then X else first) l1 X := by
  induction l1 generalizing b0 first with
  | nil => simp [GSeg]
  | cons x r ih =>
    rw [List.nodup_cons] at hn
    simp only [GSeg] at h
    simp only [reduceCtorEq, if_false, GSeg]
    refine ⟨h.1, by rw [(hb x List.mem_cons_self).2]; exact h.2.1, ?_⟩
    cases r with
    | nil =>
      simp only [GSeg]
      exact hc x rfl
    | cons y r' =>
      have hx : fwd' x = fwd x := by
        apply (hb x List.mem_cons_self).1
        simp only [List.getLast?_cons_cons]
        intro e
        have : x ∈ y :: r' := List.mem_of_getLast? e
        exact hn.1 this
      rw [hx]
      have := ih hn.2 (fun j hj => ⟨fun hne => (hb j (List.mem_cons_of_mem _ hj)).1 (by simpa [List.getLast?_cons_cons] using hne),
          (hb j (List.mem_cons_of_mem _ hj)).2⟩)
        (fun z hz => hc z (by simpa [List.getLast?_cons_cons] using hz)) (bk x) (fwd x) h.2.2
      simpa using this

/-- redirect the back-pointer of the head of `l2` to `Y` -/
theorem GSeg_set_head {fwd fwd' : Nat → P} {back back' : Nat → B} (l2 : List Nat) (Y : B) (hn : l2.Nodup)
    (hd : ∀ j ∈ l2, fwd' j = fwd j ∧ (l2.head? ≠ some j → back' j = back j))
    (he : ∀ x, l2.head? = some x → back' x = Y)
    (b0 : B) (first last : P) (h : GSeg mk bk fwd back b0 first l2 last) :
    GSeg mk bk fwd' back' Y first l2 last := by
  cases l2 with
  | nil => exact h
  | cons x r =>
    rw [List.nodup_cons] at hn
    simp only [GSeg] at h ⊢
    refine ⟨h.1, he x rfl, ?_⟩
    rw [(hd x List.mem_cons_self).1]
    apply (GSeg_congr mk bk r _ _ _ _).2 h.2.2
    intro j hj
    have hne : j ≠ x := fun e => hn.1 (e ▸ hj)
    exact ⟨(hd j (List.mem_cons_of_mem _ hj)).1,
      (hd j (List.mem_cons_of_mem _ hj)).2 (by simp only [List.head?_cons, ne_eq, Option.some.injEq]; exact fun e => hne e.symm)⟩

/-- linking `id` in between `l1` and `l2` -/
theorem GSeg_insert {fwd fwd' : Nat → P} {back back' : Nat → B} (l1 l2 : List Nat) (id : Nat)
    (hn : (l1 ++ l2).Nodup)
    (b0 : B) (first last : P) (h : GSeg mk bk fwd back b0 first (l1 ++ l2) last)
    (ha : fwd' id = headP mk l2 last ∧ back' id = lastB bk b0 l1)
    (hb : ∀ j ∈ l1, (l1.getLast? ≠ some j → fwd' j = fwd j) ∧ back' j = back j)
    (hc : ∀ x, l1.getLast? = some x → fwd' x = mk id)
    (hd : ∀ j ∈ l2, fwd' j = fwd j ∧ (l2.head? ≠ some j → back' j = back j))
    (he : ∀ x, l2.head? = some x → back' x = bk id) :
    GSeg mk bk fwd' back' b0 (if l1 = [] then mk id else first) (l1 ++ id :: l2) last := by
  rw [List.nodup_append] at hn
  rw [GSeg_append] at h ⊢
  refine ⟨GSeg_set_last mk bk l1 (mk id) hn.1 hb hc b0 first _ h.1, ?_⟩
  simp only [headP, GSeg]
  refine ⟨trivial, ha.2, ?_⟩
  rw [ha.1]
  exact GSeg_set_head mk bk l2 (bk id) hn.2.1 hd he _ _ last h.2

/-- unlinking `id` from between `l1` and `l2` -/
theorem GSeg_remove {fwd fwd' : Nat → P} {back back' : Nat → B} (l1 l2 : List Nat) (id : Nat)
    (hn : (l1 ++ id :: l2).Nodup)
    (b0 : B) (first last : P) (h : GSeg mk bk fwd back b0 first (l1 ++ id :: l2) last)
    (hb : ∀ j ∈ l1, (l1.getLast? ≠ some j → fwd' j = fwd j) ∧ back' j = back j)
    (hc : ∀ x, l1.getLast? = some x → fwd' x = fwd id)
    (hd : ∀ j ∈ l2, fwd' j = fwd j ∧ (l2.head? ≠ some j → back' j = back j))
    (he : ∀ x, l2.head? = some x → back' x = back id) :
    GSeg mk bk fwd' back' b0 (if l1 = [] then fwd id else first) (l1 ++ l2) last ∧
    fwd id = headP mk l2 last ∧ back id = lastB bk b0 l1 := by
  rw [List.nodup_append] at hn
  have hn2 := (List.nodup_cons.1 hn.2.1).2
  rw [GSeg_append] at h
  have h2 := h.2
  simp only [headP, GSeg] at h2
  have hf : fwd id = headP mk l2 last := GSeg_first mk bk h2.2.2
  refine ⟨?_, hf, h2.2.1⟩
  rw [GSeg_append]
  rw [← hf]
  refine ⟨GSeg_set_last mk bk l1 (fwd id) hn.1 hb hc b0 first _ h.1, ?_⟩
  have := GSeg_set_head mk bk l2 (back id) hn2 hd he _ _ last h2.2.2
  rw [h2.2.1] at this
  exact this

theorem lastB_append (b0 : B) (l1 l2 : List Nat) : lastB bk b0 (l1 ++ l2) = lastB bk (lastB bk b0 l1) l2 := by
  induction l1 generalizing b0 with
  | nil => rfl
  | cons x r ih => simp only [List.cons_append, lastB]; exact ih _

end

theorem lastB_some (l : List Nat) (b0 : Option Nat) :
    lastB some b0 l = (match l.getLast? with | some x => some x | none => b0) := by
  induction l generalizing b0 with
  | nil => rfl
  | cons x r ih =>
    simp only [lastB]
    rw [ih]
    cases r with
    | nil => rfl
    | cons y r' =>
      rw [List.getLast?_cons_cons]
      cases hg : (y :: r').getLast? with
      | none => simp at hg
      | some z => rfl

end Nstd.Hash.Ptr
