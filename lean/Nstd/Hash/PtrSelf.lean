import Nstd.Hash.PtrLoops
/-
  Members called with the object itself as the `other` argument: `a.swap(a)`, `a.append(a)`, `a.remove(a)`
  (`a = a` is cut short by the guard `this == &other`).  At pointer level the loops read the table they change.
-/
namespace Nstd.Hash.Ptr
open Nstd.Hash

/-! ### `a.swap(a)` -/

theorem adopt_self (s' : Bool) (pt : PTable) : (PTable.adopt s' pt).self = s' := by
  unfold PTable.adopt
  cases pt.endPrev <;> rfl

theorem Rel.adopt {h : Nat → Nat} {pt : PTable} {t : Table} (hr : Rel pt t) (hi : t.Inv h) (s' : Bool) :
    Rel (PTable.adopt s' pt) t := reanchor hr hi s'

theorem Rel.swapSelf {h : Nat → Nat} {pt : PTable} {t : Table} (hr : Rel pt t) (hi : t.Inv h) :
    Rel pt.swapSelf t ∧ pt.swapSelf.self = pt.self := by
  unfold PTable.swapSelf
  exact ⟨(hr.adopt hi pt.self).adopt hi pt.self, adopt_self _ _⟩

/-! ### `a.append(a)` -/

/-- chain-list level: appending the table's own entries finds every key (HashSet / PoolMap: nothing is written) -/
theorem appendAll_own {h : Nat → Nat} {t : Table} (hi : t.Inv h) (kind : Kind) (hk : kind ≠ Kind.map) (l : List Nat)
    (hl : ∀ x ∈ l, x ∈ t.order) : Table.appendAll kind h t t.items l = t := by
  induction l with
  | nil => rfl
  | cons x r ih =>
    have hf : t.find h (t.items x).key = some x := (hi.find_some_iff _ x).2 ⟨hl x List.mem_cons_self, rfl⟩
    simp only [Table.appendAll, Table.append, Table.insert, hf, hk, if_false]
    exact ih (fun y hy => hl y (List.mem_cons_of_mem _ hy))

theorem appendSelfLoop_sim (kind : Kind) (hk : kind ≠ Kind.map) (h : Nat → Nat) {pt : PTable} {t : Table}
    (hr : Rel pt t) (hi : t.Inv h) (l : List Nat) :
    ∀ (b0 : Option Nat) (first : Nxt) (fuel : Nat),
    GSeg Nxt.item some (fun i => (pt.items i).next) (fun i => (pt.items i).prev) b0 first l (.stl pt.self) →
    (∀ x ∈ l, x ∈ t.order) → l.length ≤ fuel →
    PTable.appendSelfLoop kind h fuel first pt = some pt := by
  induction l with
  | nil =>
    intro b0 first fuel hg _ _
    simp only [GSeg] at hg
    subst hg
    cases fuel <;> simp [PTable.appendSelfLoop]
  | cons x r ih =>
    intro b0 first fuel hg hl hfuel
    simp only [GSeg] at hg
    obtain ⟨h1, _, h3⟩ := hg
    subst h1
    cases fuel with
    | zero => simp at hfuel
    | succ fuel' =>
      have hf : t.find h (pt.items x).key = some x :=
        (hi.find_some_iff _ x).2 ⟨hl x List.mem_cons_self, ((hr.kv x).1).symm⟩
      have hins : pt.insert kind h (.stl pt.self) (pt.items x).key (pt.items x).value = some (pt, x) := by
        unfold PTable.insert
        rw [hr.find hi, hf]
        simp only [hk, if_false]
      simp only [PTable.appendSelfLoop, hins]
      exact ih (some x) _ fuel' h3 (fun y hy => hl y (List.mem_cons_of_mem _ hy)) (by simpa using hfuel)

theorem Rel.appendSelf {h : Nat → Nat} {pt : PTable} {t : Table} (hr : Rel pt t) (hi : t.Inv h)
    (kind : Kind) (hk : kind ≠ Kind.map) :
    PTable.appendSelf kind h pt = some pt ∧ Table.appendAll kind h t t.items t.order = t := by
  refine ⟨?_, appendAll_own hi kind hk t.order (fun _ hx => hx)⟩
  unfold PTable.appendSelf
  exact appendSelfLoop_sim kind hk h hr hi t.order none pt.begin pt.size hr.order (fun _ hx => hx)
    (by rw [hr.size, hi.size_eq]; exact Nat.le_refl _)

/-! ### `a.remove(a)` -/

theorem removeSelfLoop_sim (h : Nat → Nat) (n : Nat) :
    ∀ (pt : PTable) (t : Table) (fuel : Nat), t.order.length = n → n ≤ fuel → Rel pt t → t.Inv h →
    ∃ pt', PTable.removeSelfLoop h fuel pt.begin pt = some pt' ∧
      Rel pt' (Table.removeAll h t t.items t.order) ∧ pt'.self = pt.self := by
  induction n with
  | zero =>
    intro pt t fuel hn _ hr _
    have hnil : t.order = [] := List.eq_nil_of_length_eq_zero hn
    have hb := hr.begin_eq
    rw [hnil] at hb
    simp only [List.head?_nil] at hb
    refine ⟨pt, ?_, by rw [hnil]; exact hr, rfl⟩
    rw [hb]
    cases fuel <;> simp [PTable.removeSelfLoop]
  | succ n ih =>
    intro pt t fuel hn hfuel hr hi
    cases ho : t.order with
    | nil => rw [ho] at hn; simp at hn
    | cons x r =>
      have hb := hr.begin_eq
      rw [ho] at hb
      simp only [List.head?_cons] at hb
      have hm : x ∈ t.order := by rw [ho]; exact List.mem_cons_self
      cases fuel with
      | zero => omega
      | succ fuel' =>
        have hf : t.find h (pt.items x).key = some x := (hi.find_some_iff _ x).2 ⟨hm, ((hr.kv x).1).symm⟩
        have hf' : t.find h (t.items x).key = some x := (hi.find_some_iff _ x).2 ⟨hm, rfl⟩
        obtain ⟨r1, r2, l1, l2, hsplit, hnx⟩ := hr.removeItem hi x hm
        have hi1 := (hi.removeItem x hm).1
        -- the removed item is the first one: the rest of the list is what follows it
        have hnd : (x :: r).Nodup := ho ▸ hi.order_nodup
        have hl1 : l1 = [] := by
          cases l1 with
          | nil => rfl
          | cons a l1' =>
            rw [ho] at hsplit
            simp only [List.cons_append, List.cons.injEq] at hsplit
            obtain ⟨_, e2⟩ := hsplit
            have : x ∈ r := by rw [e2]; simp
            exact absurd this (List.nodup_cons.1 hnd).1
        subst hl1
        have hl2 : l2 = r := by
          rw [ho] at hsplit
          simp only [List.nil_append, List.cons.injEq, true_and] at hsplit
          exact hsplit.symm
        subst hl2
        have hord1 : (t.removeItem x).order = l2 := by
          simp only [Table.removeItem, ho, List.erase_cons_head]
        have hitems1 : (t.removeItem x).items = t.items := rfl
        have hb1 := r1.begin_eq
        rw [hord1] at hb1
        have hnext : ((pt.removeItem x).1.items x).next = (pt.removeItem x).1.begin := by
          have e : ((pt.removeItem x).1.items x).next = (pt.removeItem x).2 := rfl
          rw [e, hnx, hb1, r2]
          cases l2 <;> rfl
        have hlen : (t.removeItem x).order.length = n := by
          rw [hord1]; rw [ho] at hn; simpa using hn
        obtain ⟨pt', f1, f2, f3⟩ := ih (pt.removeItem x).1 (t.removeItem x) fuel' hlen (by omega) r1 hi1
        refine ⟨pt', ?_, ?_, by rw [f3, r2]⟩
        · rw [hb]
          have hrk : pt.removeKey h (pt.items x).key = some (pt.removeItem x).1 := by
            unfold PTable.removeKey
            rw [hr.find hi, hf]
          simp only [PTable.removeSelfLoop, hrk, hnext]
          exact f1
        · have : Table.removeAll h t t.items (x :: l2) = Table.removeAll h (t.removeItem x) (t.removeItem x).items (t.removeItem x).order := by
            rw [hord1, hitems1]
            simp only [Table.removeAll, Table.removeKey, hf']
          rw [this]
          exact f2

theorem Rel.removeSelf {h : Nat → Nat} {pt : PTable} {t : Table} (hr : Rel pt t) (hi : t.Inv h) :
    ∃ pt', PTable.removeSelf h pt = some pt' ∧ Rel pt' (Table.removeAll h t t.items t.order) ∧ pt'.self = pt.self := by
  unfold PTable.removeSelf
  exact removeSelfLoop_sim h t.order.length pt t pt.size rfl (by rw [hr.size, hi.size_eq]; exact Nat.le_refl _) hr hi

end Nstd.Hash.Ptr
