import Nstd.Hash.LemmasTable
/-
  Every table operation of the model preserves the invariant and acts on the iteration
  list as the specification says.
-/
namespace Nstd.Hash
open Table

theorem upd_same {α : Type} (f : Nat → α) (i : Nat) (x : α) : upd f i x i = x := by simp [upd]
theorem upd_other {α : Type} (f : Nat → α) (i j : Nat) (x : α) (h : j ≠ i) : upd f i x j = f j := by simp [upd, h]

theorem map_upd_of_not_mem {α β : Type} (g : α → β) (f : Nat → α) (i : Nat) (x : α) (l : List Nat)
    (h : i ∉ l) : l.map (fun j => g (upd f i x j)) = l.map (fun j => g (f j)) := by
  apply List.map_congr_left
  intro j hj
  have : j ≠ i := fun e => h (e ▸ hj)
  simp [upd, this]

/-! ### construction -/

theorem fresh_inv (h : Nat → Nat) (cap ipb dcap : Nat) (hc : 0 < cap) (hk : 0 < ipb) (hd : 0 < dcap) :
    (fresh cap ipb dcap).Inv h := by
  constructor <;> simp [fresh, hc, hk, hd]

theorem fresh_iterate (cap ipb dcap : Nat) : (fresh cap ipb dcap).iterate = [] := rfl

theorem construct_inv (h : Nat → Nat) (ipb dcap c : Nat) (hk : 0 < ipb) (hd : 0 < dcap) :
    (construct ipb dcap c).Inv h := by
  unfold construct
  apply fresh_inv _ _ _ _ _ hk hd
  split <;> omega

theorem constructDefault_inv (h : Nat → Nat) (ipb dcap : Nat) (hk : 0 < ipb) (hd : 0 < dcap) :
    (constructDefault ipb dcap).Inv h := fresh_inv h dcap ipb dcap hd hk hd

/-! ### a change of values only -/

theorem Table.Inv.set_value {h : Nat → Nat} {t : Table} (hi : t.Inv h) (id v : Nat) :
    ({ t with items := upd t.items id { t.items id with value := v } } : Table).Inv h := by
  have hk : ∀ j, (upd t.items id { t.items id with value := v } j).key = (t.items j).key := by
    intro j; by_cases e : j = id <;> simp [upd, e]
  have hc : ∀ j, (upd t.items id { t.items id with value := v } j).cell = (t.items j).cell := by
    intro j; by_cases e : j = id <;> simp [upd, e]
  constructor
  · exact hi.cap_pos
  · exact hi.unalloc
  · intro ha b j; simp only [hc]; exact hi.chain_iff ha b j
  · exact hi.chain_nodup
  · intro j hj; simp only [hc, hk]; exact hi.cell_eq j hj
  · simp only [hk]; exact hi.keys_nodup
  · exact hi.size_eq
  · exact hi.free_nodup
  · exact hi.free_disj
  · exact hi.free_lt
  · exact hi.order_lt
  · exact hi.ipb_pos
  · exact hi.dcap_pos

theorem set_value_iterate {h : Nat → Nat} {t : Table} (hi : t.Inv h) (id v : Nat) (hm : id ∈ t.order) :
    ({ t with items := upd t.items id { t.items id with value := v } } : Table).iterate
      = Spec.setValue t.iterate (t.items id).key v := by
  simp only [Table.iterate_eq, Spec.setValue, List.map_map]
  apply List.map_congr_left
  intro j hj
  by_cases e : j = id
  · subst e; simp [upd]
  · have : (t.items j).key ≠ (t.items id).key := fun ek => e (hi.key_inj hj hm ek)
    simp [upd, e, this]

/-! ### allocation of an item -/

theorem Table.Inv.alloc {h : Nat → Nat} {t : Table} (hi : t.Inv h) (kind : Kind) :
    (t.allocItem kind).1 ∉ t.order ∧ (t.allocItem kind).1 ∉ (t.allocItem kind).2.1 ∧
    (t.allocItem kind).2.1.Nodup ∧
    (∀ x ∈ (t.allocItem kind).2.1, x ∉ t.order ∧ x < t.ipb * (t.allocItem kind).2.2) ∧
    (t.allocItem kind).1 < t.ipb * (t.allocItem kind).2.2 ∧
    (∀ x ∈ t.order, x < t.ipb * (t.allocItem kind).2.2) := by
  unfold allocItem
  cases hf : t.free with
  | cons f rest =>
    have hn := hi.free_nodup
    have hd := hi.free_disj
    have hl := hi.free_lt
    rw [hf] at hn hd hl
    rw [List.nodup_cons] at hn
    refine ⟨hd f List.mem_cons_self, hn.1, hn.2, ?_, hl f List.mem_cons_self, hi.order_lt⟩
    intro x hx
    exact ⟨hd x (List.mem_cons_of_mem _ hx), hl x (List.mem_cons_of_mem _ hx)⟩
  | nil =>
    have ho := hi.order_lt
    have hk := hi.ipb_pos
    have hmul : t.ipb * (t.blocks + 1) = t.ipb * t.blocks + t.ipb := Nat.mul_succ _ _
    generalize t.ipb * t.blocks = B at ho hmul
    by_cases hkind : kind = Kind.pool
    · simp only [hkind, if_true, hmul]
      refine ⟨fun hm => ?_, ?_, nodup_pushRange _ _ _ List.nodup_nil (by simp), ?_, by omega, fun x hx => ?_⟩
      · have := ho _ hm; omega
      · rw [mem_pushRange]; simp only [List.not_mem_nil, or_false]; omega
      · intro x hx
        rw [mem_pushRange] at hx
        simp only [List.not_mem_nil, or_false] at hx
        refine ⟨fun hm => ?_, by omega⟩
        have := ho _ hm; omega
      · have := ho _ hx; omega
    · simp only [hkind, if_false, hmul]
      refine ⟨fun hm => ?_, ?_, nodup_pushRange _ _ _ List.nodup_nil (by simp), ?_, by omega, fun x hx => ?_⟩
      · have := ho _ hm; omega
      · rw [mem_pushRange]; simp only [List.not_mem_nil, or_false]; omega
      · intro x hx
        rw [mem_pushRange] at hx
        simp only [List.not_mem_nil, or_false] at hx
        refine ⟨fun hm => ?_, by omega⟩
        have := ho _ hm; omega
      · have := ho _ hx; omega

end Nstd.Hash

namespace Nstd.Hash
open Table

/-! ### insert -/

theorem Table.Inv.linkNew {h : Nat → Nat} {t : Table} (hi : t.Inv h) (kind : Kind) (pos k v : Nat)
    (hp : pos ≤ t.order.length) (hf : t.find h k = none) :
    (t.linkNew kind h pos k v).1.Inv h ∧
    (t.linkNew kind h pos k v).1.iterate = insertAt pos (k, storedValue kind v) t.iterate ∧
    posOf (t.linkNew kind h pos k v).2 (t.linkNew kind h pos k v).1.order = pos ∧
    ((t.linkNew kind h pos k v).1.items (t.linkNew kind h pos k v).2).value = storedValue kind v := by
  obtain ⟨a_order, a_free, a_nodup, a_all, a_lt, a_olt⟩ := hi.alloc kind
  have hnone := (hi.find_none_iff k).1 hf
  -- the (possibly fresh) bucket array
  have hd : ∀ b j, j ∈ (if t.allocated then t.data else fun _ => []) b ↔ (j ∈ t.order ∧ (t.items j).cell = b) := by
    intro b j
    by_cases ha : t.allocated = true
    · simp only [ha, if_true]; exact hi.chain_iff ha b j
    · have ha' : t.allocated = false := by simpa using ha
      simp [ha', hi.unalloc ha']
  have hdn : ∀ b, ((if t.allocated then t.data else fun _ => []) b).Nodup := by
    intro b
    by_cases ha : t.allocated = true
    · simp only [ha, if_true]; exact hi.chain_nodup ha b
    · have ha' : t.allocated = false := by simpa using ha
      simp [ha']
  unfold Table.linkNew
  generalize (if t.allocated then t.data else fun _ => []) = d at hd hdn
  generalize t.allocItem kind = a at a_order a_free a_nodup a_all a_lt a_olt
  obtain ⟨id, free', blocks'⟩ := a
  simp only at a_order a_free a_nodup a_all a_lt a_olt ⊢
  have hkeys : (insertAt pos id t.order).map (fun j => (upd t.items id ⟨k, storedValue kind v, h k % t.cap⟩ j).key)
      = insertAt pos k (t.order.map (fun j => (t.items j).key)) := by
    rw [map_insertAt, upd_same]
    congr 1
    exact map_upd_of_not_mem (fun i : Item => i.key) t.items id _ t.order a_order
  refine ⟨?_, ?_, ?_, ?_⟩
  · constructor
    · exact hi.cap_pos
    · intro ha; simp at ha
    · intro _ b j
      simp only [mem_insertAt]
      by_cases hb : b = h k % t.cap
      · subst hb
        by_cases hj : j = id
        · subst hj; simp [upd]
        · simp only [upd, if_true, List.mem_cons, hj, false_or, if_false]
          exact hd _ j
      · by_cases hj : j = id
        · subst hj
          simp only [upd, hb, if_false, if_true, true_or, true_and]
          constructor
          · intro hm; exact absurd ((hd b j).1 hm).1 a_order
          · intro e; exact absurd e.symm hb
        · simp only [upd, hb, if_false, hj, false_or]
          exact hd b j
    · intro _ b
      by_cases hb : b = h k % t.cap
      · subst hb
        simp only [upd, if_true]
        exact List.nodup_cons.2 ⟨fun hm => a_order ((hd _ id).1 hm).1, hdn _⟩
      · simp only [upd, hb, if_false]; exact hdn b
    · intro j hj
      rcases (mem_insertAt pos id j t.order).1 hj with e | e
      · subst e; simp [upd]
      · have : j ≠ id := fun e' => a_order (e' ▸ e)
        simp only [upd, this, if_false]
        exact hi.cell_eq j e
    · show ((insertAt pos id t.order).map _).Nodup
      rw [hkeys]
      apply nodup_insertAt _ _ _ _ hi.keys_nodup
      intro hm
      obtain ⟨j, hj, hjk⟩ := List.mem_map.1 hm
      exact hnone j hj hjk
    · show t.size + 1 = (insertAt pos id t.order).length
      rw [length_insertAt, hi.size_eq]
    · exact a_nodup
    · intro x hx hm
      rcases (mem_insertAt pos id x t.order).1 hm with e | e
      · subst e; exact a_free hx
      · exact (a_all x hx).1 e
    · intro x hx; exact (a_all x hx).2
    · intro x hx
      rcases (mem_insertAt pos id x t.order).1 hx with e | e
      · subst e; exact a_lt
      · exact a_olt x e
    · exact hi.ipb_pos
    · exact hi.dcap_pos
  · simp only [Table.iterate_eq]
    rw [map_insertAt, upd_same]
    congr 1
    exact map_upd_of_not_mem (fun i : Item => (i.key, i.value)) t.items id _ t.order a_order
  · exact posOf_insertAt pos id t.order a_order hp
  · simp [upd]

theorem Table.Inv.insert {h : Nat → Nat} {t : Table} (hi : t.Inv h) (kind : Kind) (pos k v : Nat)
    (hp : pos ≤ t.order.length) :
    (t.insert kind h pos k v).1.Inv h ∧
    (t.insert kind h pos k v).1.iterate = (Spec.insert kind t.iterate pos k v).1 ∧
    posOf (t.insert kind h pos k v).2 (t.insert kind h pos k v).1.order = (Spec.insert kind t.iterate pos k v).2.1 ∧
    ((t.insert kind h pos k v).1.items (t.insert kind h pos k v).2).value = (Spec.insert kind t.iterate pos k v).2.2 := by
  unfold Table.insert Spec.insert
  rw [hi.lookup_iterate k]
  cases hf : t.find h k with
  | none =>
    simp only [Option.map_none]
    have := hi.linkNew kind pos k v hp hf
    simp only [Spec.stored]
    exact this
  | some id =>
    have hm := (hi.find_some_iff k id).1 hf
    simp only [Option.map_some]
    by_cases hk : kind = Kind.map
    · simp only [hk, if_true]
      refine ⟨hi.set_value id v, ?_, ?_, ?_⟩
      · rw [set_value_iterate hi id v hm.1, hm.2]
      · first | trivial | rfl
      · first | trivial | simp [upd]
    · simp only [hk, if_false]
      refine ⟨hi, ?_, ?_, ?_⟩ <;> first | trivial | rfl

end Nstd.Hash

namespace Nstd.Hash
open Table

/-! ### remove -/

theorem erase_map_filter (items : Nat → Item) (l : List Nat) (id : Nat)
    (hn : (l.map (fun j => (items j).key)).Nodup) (hm : id ∈ l) :
    (l.erase id).map (fun j => ((items j).key, (items j).value))
      = (l.map (fun j => ((items j).key, (items j).value))).filter (fun e => e.1 ≠ (items id).key) := by
  induction l with
  | nil => simp at hm
  | cons x xs ih =>
    rw [List.map_cons, List.nodup_cons] at hn
    by_cases hx : x = id
    · subst hx
      simp only [List.erase_cons_head, List.map_cons, List.filter_cons, ne_eq, not_true_eq_false,
        decide_false, Bool.false_eq_true, if_false]
      symm
      apply List.filter_eq_self.2
      intro e he
      obtain ⟨j, hj, rfl⟩ := List.mem_map.1 he
      simp only [ne_eq, decide_not, Bool.not_eq_eq_eq_not, Bool.not_true, decide_eq_false_iff_not]
      intro ek
      apply hn.1
      rw [← ek]
      exact List.mem_map_of_mem (f := fun j => (items j).key) hj
    · have hm' : id ∈ xs := by
        rcases List.mem_cons.1 hm with e | e
        · exact absurd e.symm hx
        · exact e
      have hk : (items x).key ≠ (items id).key := by
        intro ek
        apply hn.1
        rw [ek]
        exact List.mem_map_of_mem (f := fun j => (items j).key) hm'
      rw [erase_cons_ne x id xs hx]
      simp only [List.map_cons, List.filter_cons, ne_eq, hk, not_false_eq_true, decide_true, if_true]
      rw [ih hn.2 hm']

theorem Table.Inv.removeItem {h : Nat → Nat} {t : Table} (hi : t.Inv h) (id : Nat) (hm : id ∈ t.order) :
    (t.removeItem id).Inv h ∧
    (t.removeItem id).iterate = t.iterate.eraseIdx (posOf id t.order) ∧
    (t.removeItem id).iterate = Spec.removeKey t.iterate (t.items id).key := by
  have ha : t.allocated = true := by
    cases hall : t.allocated with
    | true => rfl
    | false => have := hi.unalloc hall; rw [this] at hm; simp at hm
  have hon := hi.order_nodup
  refine ⟨?_, ?_, ?_⟩
  · constructor
    · exact hi.cap_pos
    · intro hf; simp only [Table.removeItem] at hf; rw [ha] at hf; cases hf
    · intro _ b j
      simp only [Table.removeItem]
      rw [hon.mem_erase_iff]
      by_cases hb : b = (t.items id).cell
      · subst hb
        simp only [upd, if_true]
        rw [(hi.chain_nodup ha _).mem_erase_iff, hi.chain_iff ha]
        constructor
        · intro ⟨h1, h2, h3⟩; exact ⟨⟨h1, h2⟩, h3⟩
        · intro ⟨⟨h1, h2⟩, h3⟩; exact ⟨h1, h2, h3⟩
      · simp only [upd, hb, if_false]
        rw [hi.chain_iff ha]
        constructor
        · intro ⟨h1, h2⟩
          exact ⟨⟨fun e => hb (by rw [← h2, e]), h1⟩, h2⟩
        · intro ⟨⟨_, h2⟩, h3⟩; exact ⟨h2, h3⟩
    · intro _ b
      simp only [Table.removeItem]
      by_cases hb : b = (t.items id).cell
      · subst hb; simp only [upd, if_true]; exact (hi.chain_nodup ha _).erase id
      · simp only [upd, hb, if_false]; exact hi.chain_nodup ha b
    · intro j hj
      exact hi.cell_eq j (List.mem_of_mem_erase hj)
    · exact List.Nodup.sublist (List.Sublist.map _ List.erase_sublist) hi.keys_nodup
    · simp only [Table.removeItem]
      rw [List.length_erase_of_mem hm, hi.size_eq]
    · simp only [Table.removeItem]
      exact List.nodup_cons.2 ⟨fun hf => hi.free_disj id hf hm, hi.free_nodup⟩
    · intro x hx hxe
      simp only [Table.removeItem] at hx hxe
      rcases List.mem_cons.1 hx with e | e
      · subst e; exact absurd rfl (hon.mem_erase_iff.1 hxe).1
      · exact hi.free_disj x e (List.mem_of_mem_erase hxe)
    · intro x hx
      simp only [Table.removeItem] at hx ⊢
      rcases List.mem_cons.1 hx with e | e
      · subst e; exact hi.order_lt x hm
      · exact hi.free_lt x e
    · intro x hx
      exact hi.order_lt x (List.mem_of_mem_erase hx)
    · exact hi.ipb_pos
    · exact hi.dcap_pos
  · simp only [Table.iterate_eq, Table.removeItem]
    exact erase_map_eraseIdx _ t.order (posOf id t.order) id hon (getElem?_posOf id t.order hm)
  · simp only [Table.iterate_eq, Table.removeItem, Spec.removeKey]
    exact erase_map_filter t.items t.order id hi.keys_nodup hm

theorem removeKey_absent (l : Spec.Tab) (k : Nat) (hk : k ∉ Spec.keys l) : Spec.removeKey l k = l := by
  unfold Spec.removeKey
  apply List.filter_eq_self.2
  intro e he
  simp only [ne_eq, decide_not, Bool.not_eq_eq_eq_not, Bool.not_true, decide_eq_false_iff_not]
  intro ek
  exact hk (List.mem_map.2 ⟨e, he, ek⟩)

theorem Table.Inv.removeKey {h : Nat → Nat} {t : Table} (hi : t.Inv h) (k : Nat) :
    (t.removeKey h k).Inv h ∧ (t.removeKey h k).iterate = Spec.removeKey t.iterate k := by
  unfold Table.removeKey
  cases hf : t.find h k with
  | none =>
    refine ⟨hi, ?_⟩
    symm
    apply removeKey_absent
    rw [hi.mem_keys_iff k, hf]
    simp
  | some id =>
    have hm := (hi.find_some_iff k id).1 hf
    have := hi.removeItem id hm.1
    exact ⟨this.1, by rw [this.2.2, hm.2]⟩

/-! ### clear -/

theorem clearLoop_free (items : Nat → Item) (l : List Nat) (d : Nat → List Nat) (f : List Nat) :
    (clearLoop items l d f).2 = l.reverse ++ f := by
  induction l generalizing d f with
  | nil => simp [clearLoop]
  | cons x xs ih => simp [clearLoop, ih]

theorem clearLoop_untouched (items : Nat → Item) (l : List Nat) (d : Nat → List Nat) (f : List Nat) (b : Nat)
    (hb : ∀ j ∈ l, (items j).cell ≠ b) : (clearLoop items l d f).1 b = d b := by
  induction l generalizing d f with
  | nil => simp [clearLoop]
  | cons x xs ih =>
    simp only [clearLoop]
    rw [ih _ _ (fun j hj => hb j (List.mem_cons_of_mem _ hj))]
    have : b ≠ (items x).cell := fun e => hb x List.mem_cons_self e.symm
    simp [upd, this]

theorem clearLoop_cleared (items : Nat → Item) (l : List Nat) (d : Nat → List Nat) (f : List Nat) (b : Nat)
    (hb : ∃ j ∈ l, (items j).cell = b) : (clearLoop items l d f).1 b = [] := by
  induction l generalizing d f with
  | nil => obtain ⟨j, hj, _⟩ := hb; simp at hj
  | cons x xs ih =>
    simp only [clearLoop]
    by_cases hx : ∃ j ∈ xs, (items j).cell = b
    · exact ih _ _ hx
    · have hx' : ∀ j ∈ xs, (items j).cell ≠ b := fun j hj e => hx ⟨j, hj, e⟩
      rw [clearLoop_untouched items xs _ _ b hx']
      obtain ⟨j, hj, hjb⟩ := hb
      rcases List.mem_cons.1 hj with e | e
      · subst e; simp [upd, hjb]
      · exact absurd hjb (hx' j e)

theorem Table.Inv.clear {h : Nat → Nat} {t : Table} (hi : t.Inv h) :
    t.clear.Inv h ∧ t.clear.iterate = [] := by
  refine ⟨?_, rfl⟩
  have hon := hi.order_nodup
  constructor
  · exact hi.cap_pos
  · intro _; rfl
  · intro ha b j
    simp only [Table.clear] at ha ⊢
    have hempty : (clearLoop t.items t.order t.data t.free).1 b = [] := by
      by_cases hx : ∃ j ∈ t.order, (t.items j).cell = b
      · exact clearLoop_cleared _ _ _ _ b hx
      · have hx' : ∀ j ∈ t.order, (t.items j).cell ≠ b := fun j hj e => hx ⟨j, hj, e⟩
        rw [clearLoop_untouched _ _ _ _ b hx']
        apply List.eq_nil_iff_forall_not_mem.2
        intro a hmem
        have := (hi.chain_iff ha b a).1 hmem
        exact hx' a this.1 this.2
    rw [hempty]
    simp
  · intro ha b
    simp only [Table.clear] at ha ⊢
    by_cases hx : ∃ j ∈ t.order, (t.items j).cell = b
    · rw [clearLoop_cleared _ _ _ _ b hx]; exact List.nodup_nil
    · have hx' : ∀ j ∈ t.order, (t.items j).cell ≠ b := fun j hj e => hx ⟨j, hj, e⟩
      rw [clearLoop_untouched _ _ _ _ b hx']
      exact hi.chain_nodup ha b
  · intro j hj; simp [Table.clear] at hj
  · simp [Table.clear]
  · simp [Table.clear]
  · simp only [Table.clear, clearLoop_free]
    rw [List.nodup_append]
    refine ⟨(List.reverse_perm t.order).nodup_iff.2 hon, hi.free_nodup, ?_⟩
    intro a ha b hb e
    subst e
    exact hi.free_disj a hb (List.mem_reverse.1 ha)
  · intro x _ hx; simp [Table.clear] at hx
  · intro x hx
    simp only [Table.clear, clearLoop_free, List.mem_append, List.mem_reverse] at hx ⊢
    rcases hx with e | e
    · exact hi.order_lt x e
    · exact hi.free_lt x e
  · intro x hx; simp [Table.clear] at hx
  · exact hi.ipb_pos
  · exact hi.dcap_pos

end Nstd.Hash
