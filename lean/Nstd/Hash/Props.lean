import Nstd.Hash.Model
namespace Nstd.Hash
theorem placeholder : (Table.fresh 3).order = [] := rfl
end Nstd.Hash
