import Nstd.Hash.LemmasStep
import Nstd.Hash.PtrStep
import Nstd.Hash.LemmasString
import Nstd.Hash.LemmasConst
import Nstd.Hash.LemmasStable
import Nstd.Generated.HashConst
import Nstd.Generated.HashFn
import Nstd.Hash.LemmasHashFn
import Nstd.Hash.LemmasClosing
/-
  Property C02: HashMap / HashSet / PoolMap behave as insertion-ordered unique-key tables.

  Model: `Nstd/Hash/Model.lean` (bucket chains stored per bucket, push-front; items remember their
  cell; free list and 4-item blocks; order list of item ids; lazily allocated bucket array).
  Specification: `Nstd/Hash/Spec.lean` (association list, positions as iterators).
  Pointer-level model: `Nstd/Hash/PtrModel.lean` (the C++ statements one by one: `cell` back-pointers, `nextCell`
  chains, `prev`/`next` order list closed by the end sentinel of the owning object, free list through `prev`,
  `swap` re-anchoring the sentinel); section "pointer level" below proves that it is simulated by the
  chain-list model, hence refines the specification as well.
  The class constants "items per block" (`ipb`) and "default capacity" (`dcap`) are parameters: the theorems hold for
  EVERY `ipb ≥ 1` and `dcap ≥ 1` (`initWith ipb dcap`); the driver takes them from the current sources
  (`Nstd/Generated/HashConst.lean`, written by the translator of tools/areas/hash.py).
  All theorems quantify over the container kind, EVERY hash function `h : Nat → Nat` (hence every
  collision pattern, including all keys in one bucket), every capacity (the `construct t cap` op takes
  any number; `0` becomes `1` as in the code) and every op list.
-/
namespace Nstd.Hash
open Table

/-! ### invariant -/

/-- the invariant holds initially (two default-constructed tables) -/
theorem inv_init (h : Nat → Nat) (ipb dcap : Nat) (hk : 0 < ipb) (hd : 0 < dcap) : SInv h (initWith ipb dcap) :=
  initWith_inv h ipb dcap hk hd

/-- explicitly constructed tables of ANY capacity satisfy the invariant (capacity 0 becomes 1) -/
theorem inv_construct (h : Nat → Nat) (ipb dcap : Nat) (hk : 0 < ipb) (hd : 0 < dcap) (c0 c1 : Nat) :
    SInv h ⟨Table.construct ipb dcap c0, Table.construct ipb dcap c1⟩ :=
  ⟨construct_inv h ipb dcap c0 hk hd, construct_inv h ipb dcap c1 hk hd⟩

/-- `Inv` is preserved by every op list from every state satisfying it -/
theorem inv_run (kind : Kind) (h : Nat → Nat) (ops : List Op) (s s' : State) (outs : List Out)
    (hs : SInv h s) (hr : run kind h s ops = some (s', outs)) : SInv h s' := by
  induction ops generalizing s outs with
  | nil => simp only [run, Option.some.injEq, Prod.mk.injEq] at hr; exact hr.1 ▸ hs
  | cons op ops ih =>
    simp only [run] at hr
    cases hst : step kind h s op with
    | none => rw [hst] at hr; cases hr
    | some r =>
      obtain ⟨s1, o⟩ := r
      rw [hst] at hr
      simp only at hr
      cases hrr : run kind h s1 ops with
      | none => rw [hrr] at hr; cases hr
      | some r2 =>
        obtain ⟨s2, os⟩ := r2
        rw [hrr] at hr
        simp only [Option.some.injEq, Prod.mk.injEq] at hr
        have h1 := (step_refines kind h s op hs).2 s1 o hst
        obtain ⟨e1, _⟩ := hr
        subst e1
        exact ih s1 os h1 hrr

/-- what `Inv` says about the buckets of every reachable table: once the bucket array exists, the chain of
    bucket `b` holds exactly the live items whose key hashes to `b` (mod capacity), each once -/
theorem chains_partition (kind : Kind) (h : Nat → Nat) (ipb dcap : Nat) (hk : 0 < ipb) (hd : 0 < dcap)
    (ops : List Op) (s' : State) (outs : List Out)
    (hr : run kind h (initWith ipb dcap) ops = some (s', outs)) (t : Bool) (ha : (s'.get t).allocated = true) (b id : Nat) :
    (id ∈ (s'.get t).data b ↔
      (id ∈ (s'.get t).order ∧ h ((s'.get t).items id).key % (s'.get t).cap = b)) ∧
    ((s'.get t).data b).Nodup ∧ 0 < (s'.get t).cap ∧ (s'.get t).size = (s'.get t).order.length := by
  have hi := (inv_run kind h ops _ s' outs (initWith_inv h ipb dcap hk hd) hr).get t
  refine ⟨?_, hi.chain_nodup ha b, hi.cap_pos, hi.size_eq⟩
  rw [hi.chain_iff ha]
  constructor
  · intro ⟨h1, h2⟩; exact ⟨h1, by rw [← hi.cell_eq id h1]; exact h2⟩
  · intro ⟨h1, h2⟩; exact ⟨h1, by rw [hi.cell_eq id h1]; exact h2⟩

/-- no key is stored twice, and no item is both free and live, in every reachable table -/
theorem unique_keys (kind : Kind) (h : Nat → Nat) (ipb dcap : Nat) (hk : 0 < ipb) (hd : 0 < dcap)
    (ops : List Op) (s' : State) (outs : List Out)
    (hr : run kind h (initWith ipb dcap) ops = some (s', outs)) (t : Bool) :
    (Spec.keys (s'.get t).iterate).Nodup ∧ (∀ id ∈ (s'.get t).free, id ∉ (s'.get t).order) := by
  have hi := (inv_run kind h ops _ s' outs (initWith_inv h ipb dcap hk hd) hr).get t
  exact ⟨by rw [Table.keys_iterate]; exact hi.keys_nodup, hi.free_disj⟩

/-- the item blocks, for every block size `ipb ≥ 1`: every table of every reachable state still carries the class constants it
    was created with (also after copy construction, assignment, swap and re-construction), and every live and every free
    item is slot `id % ipb` of one of the `blocks` blocks allocated so far (`id < ipb · blocks`) -/
theorem block_structure (kind : Kind) (h : Nat → Nat) (ipb dcap : Nat) (hk : 0 < ipb) (hd : 0 < dcap)
    (ops : List Op) (s' : State) (outs : List Out)
    (hr : run kind h (initWith ipb dcap) ops = some (s', outs)) (t : Bool) :
    (s'.get t).ipb = ipb ∧ (s'.get t).dcap = dcap ∧
    (∀ id ∈ (s'.get t).order, id < ipb * (s'.get t).blocks) ∧ (∀ id ∈ (s'.get t).free, id < ipb * (s'.get t).blocks) := by
  have hi := (inv_run kind h ops _ s' outs (initWith_inv h ipb dcap hk hd) hr).get t
  have hc := (run_consts kind h (ipb, dcap) ops _ s' outs ⟨rfl, rfl⟩ hr).get t
  have h1 : (s'.get t).ipb = ipb := congrArg Prod.fst hc
  have h2 : (s'.get t).dcap = dcap := congrArg Prod.snd hc
  exact ⟨h1, h2, h1 ▸ hi.order_lt, h1 ▸ hi.free_lt⟩

/-- the constants the translator read from the CURRENT sources meet the hypotheses `0 < ipb`, `0 < dcap` of the theorems
    (re-checked on every run; the driver runs the models with exactly these constants) -/
theorem generated_constants_admissible :
    0 < Nstd.Generated.Hash.itemsPerBlockMap ∧ 0 < Nstd.Generated.Hash.defaultCapacityMap ∧
    0 < Nstd.Generated.Hash.itemsPerBlockSet ∧ 0 < Nstd.Generated.Hash.defaultCapacitySet ∧
    0 < Nstd.Generated.Hash.itemsPerBlockPool ∧ 0 < Nstd.Generated.Hash.defaultCapacityPool := by
  decide

/-- `find` under the invariant, for every hash function: it returns the live item with that key, `end()` iff there is none -/
theorem find_correct (h : Nat → Nat) (t : Table) (hi : t.Inv h) (k : Nat) :
    (∀ id, t.find h k = some id ↔ (id ∈ t.order ∧ (t.items id).key = k)) ∧
    (t.find h k = none ↔ k ∉ Spec.keys t.iterate) := by
  refine ⟨fun id => hi.find_some_iff k id, ?_⟩
  rw [hi.mem_keys_iff k]
  cases t.find h k <;> simp

/-! ### refinement -/

/-- from every state satisfying the invariant, every op list yields exactly the results (returned iterator positions,
    returned values, find/contains/size/isEmpty/iteration/front/back/== answers) and the final iteration lists the
    association-list specification yields; an op list is rejected (`none`) by the model iff the specification rejects it -/
theorem refines_from (kind : Kind) (h : Nat → Nat) (ops : List Op) (s : State) (hs : SInv h s) :
    (run kind h s ops).map (fun r => (abs r.1, r.2)) = Spec.run kind (abs s) ops := by
  induction ops generalizing s with
  | nil => rfl
  | cons op ops ih =>
    have hst := step_refines kind h s op hs
    simp only [run, Spec.run]
    cases hm : step kind h s op with
    | none =>
      rw [hm] at hst
      simp only [Option.map_none] at hst
      rw [← hst.1]
      rfl
    | some r =>
      obtain ⟨s1, o⟩ := r
      rw [hm] at hst
      simp only [Option.map_some] at hst
      rw [← hst.1]
      simp only
      have := ih s1 (hst.2 s1 o rfl)
      rw [← this]
      cases run kind h s1 ops with
      | none => rfl
      | some r2 => rfl

/-- C02, main statement: for EVERY hash function, every container kind and every op list (which may construct the two
    tables with any capacities at any time) the model started with two default-constructed tables agrees with the
    insertion-ordered association-list specification on all results and on the iteration lists -/
theorem refines (kind : Kind) (h : Nat → Nat) (ipb dcap : Nat) (hk : 0 < ipb) (hd : 0 < dcap) (ops : List Op) :
    (run kind h (initWith ipb dcap) ops).map (fun r => (abs r.1, r.2)) = Spec.run kind Spec.init ops := by
  rw [← abs_initWith ipb dcap]
  exact refines_from kind h ops _ (initWith_inv h ipb dcap hk hd)

/-- the same with the capacities made explicit: EVERY pair of capacities -/
theorem refines_every_capacity (kind : Kind) (h : Nat → Nat) (ipb dcap : Nat) (hk : 0 < ipb) (hd : 0 < dcap)
    (c0 c1 : Nat) (ops : List Op) :
    (run kind h ⟨Table.construct ipb dcap c0, Table.construct ipb dcap c1⟩ ops).map (fun r => (abs r.1, r.2))
      = Spec.run kind Spec.init ops :=
  refines_from kind h ops _ (inv_construct h ipb dcap hk hd c0 c1)

/-- … in particular when ALL keys collide in one bucket (constant hash function) and with capacity 1 -/
theorem refines_all_collide (kind : Kind) (c : Nat) (ipb dcap : Nat) (hk : 0 < ipb) (hd : 0 < dcap) (ops : List Op) :
    (run kind (fun _ => c) ⟨Table.construct ipb dcap 1, Table.construct ipb dcap 1⟩ ops).map (fun r => (abs r.1, r.2))
      = Spec.run kind Spec.init ops :=
  refines_every_capacity kind (fun _ => c) ipb dcap hk hd 1 1 ops

/-- capacity and hash function are unobservable: two runs with different hash functions and capacities
    give the same results -/
theorem hash_and_capacity_unobservable (kind : Kind) (h h' : Nat → Nat) (ipb dcap ipb' dcap' : Nat)
    (hk : 0 < ipb) (hd : 0 < dcap) (hk' : 0 < ipb') (hd' : 0 < dcap') (c0 c1 c0' c1' : Nat) (ops : List Op) :
    (run kind h ⟨Table.construct ipb dcap c0, Table.construct ipb dcap c1⟩ ops).map (fun r => (abs r.1, r.2))
      = (run kind h' ⟨Table.construct ipb' dcap' c0', Table.construct ipb' dcap' c1'⟩ ops).map (fun r => (abs r.1, r.2)) := by
  rw [refines_every_capacity kind h ipb dcap hk hd, refines_every_capacity kind h' ipb' dcap' hk' hd']

/-! ### inserting a key that is already present -/

/-- HashMap: the entry keeps its position (the key list is unchanged), the value is replaced, the returned
    iterator designates the existing entry.  HashSet / PoolMap: the table is untouched. -/
theorem insert_existing_keeps_pos (kind : Kind) (h : Nat → Nat) (t : Table) (hi : t.Inv h) (pos k v : Nat)
    (hk : k ∈ Spec.keys t.iterate) :
    let r := t.insert kind h pos k v
    r.1.order = t.order ∧
    Spec.keys r.1.iterate = Spec.keys t.iterate ∧
    Spec.lookup k r.1.iterate = some (posOf r.2 t.order, if kind = Kind.map then v else ((t.items r.2).value)) ∧
    (∃ old, Spec.lookup k t.iterate = some (posOf r.2 t.order, old)) ∧
    (kind = Kind.map → r.1.iterate = Spec.setValue t.iterate k v) ∧
    (kind ≠ Kind.map → r.1 = t) := by
  have hsome := (hi.mem_keys_iff k).1 hk
  cases hf : t.find h k with
  | none => rw [hf] at hsome; cases hsome
  | some id =>
    have hm := (hi.find_some_iff k id).1 hf
    have hl := hi.lookup_iterate k
    rw [hf] at hl
    simp only [Option.map_some] at hl
    simp only [Table.insert, hf]
    by_cases hkind : kind = Kind.map
    · simp only [hkind, if_true]
      have hi' := hi.set_value id v
      have hf' : ({ t with items := upd t.items id { t.items id with value := v } } : Table).find h k = some id := by
        apply (hi'.find_some_iff k id).2
        exact ⟨hm.1, by simp [upd, hm.2]⟩
      have hl' := hi'.lookup_iterate k
      rw [hf'] at hl'
      simp only [Option.map_some] at hl'
      refine ⟨by first | trivial | rfl, ?_, ?_, ⟨_, hl⟩, ?_, ?_⟩
      · rw [Table.keys_iterate, Table.keys_iterate]
        apply List.map_congr_left
        intro j _
        by_cases e : j = id <;> simp [upd, e]
      · rw [hl']; simp [upd]
      · intro _; rw [set_value_iterate hi id v hm.1, hm.2]
      · intro hne; exact absurd rfl hne
    · simp only [hkind, if_false]
      refine ⟨by first | trivial | rfl, by first | trivial | rfl, hl, ⟨_, hl⟩, ?_, ?_⟩
      · intro e; first | exact absurd e hkind | cases e
      · intro _; first | trivial | rfl

/-- inserting a key that is NOT present, at any position of any table meeting the invariant (any capacity, hash function,
    collision pattern): the new entry stands immediately before the entry `position` designated (`pos = size`: at the end,
    `pos = 0`: in front), every other entry keeps its relative order, the returned iterator designates the new entry, and
    HashMap stores the given value, HashSet / PoolMap the default -/
theorem insert_new_before_position (kind : Kind) (h : Nat → Nat) (t : Table) (hi : t.Inv h) (pos k v : Nat)
    (hp : pos ≤ t.order.length) (hk : k ∉ Spec.keys t.iterate) :
    let r := t.insert kind h pos k v
    r.1.iterate = t.iterate.take pos ++ (k, if kind = Kind.map then v else 0) :: t.iterate.drop pos ∧
    posOf r.2 r.1.order = pos ∧ r.1.iterate[pos]? = some (k, if kind = Kind.map then v else 0) ∧
    r.1.size = t.size + 1 := by
  have hins := hi.insert kind pos k v hp
  have hl : Spec.lookup k t.iterate = none := lookup_none_of_not_mem k _ hk
  have hspec : Spec.insert kind t.iterate pos k v
      = (insertAt pos (k, if kind = Kind.map then v else 0) t.iterate, pos, if kind = Kind.map then v else 0) := by
    simp only [Spec.insert, hl, Spec.stored]
  have hlen : pos ≤ t.iterate.length := by rw [iterate_length]; exact hp
  refine ⟨?_, ?_, ?_, ?_⟩
  · rw [hins.2.1, hspec]; rfl
  · rw [hins.2.2.1, hspec]
  · rw [hins.2.1, hspec]
    simp only [insertAt]
    rw [List.getElem?_append_right (by simp [List.length_take, Nat.min_eq_left hlen])]
    simp [List.length_take, Nat.min_eq_left hlen]
  · have h1 := hins.1.size_eq
    have h2 := hi.size_eq
    have h3 : (t.insert kind h pos k v).1.iterate.length = t.iterate.length + 1 := by
      rw [hins.2.1, hspec]
      simp only [insertAt, List.length_append, List.length_cons, List.length_take, List.length_drop]
      omega
    rw [iterate_length, iterate_length] at h3
    show (t.insert kind h pos k v).1.size = t.size + 1
    omega
/-! ### the object itself as the `other` argument -/

/-- specification level: appending a unique-key table to itself changes nothing (every key is found; HashSet / PoolMap leave
    the entry untouched), removing it from itself empties it -/
theorem self_append_remove_spec (kind : Kind) (hk : kind ≠ Kind.map) (l : Spec.Tab) (hn : (Spec.keys l).Nodup) :
    Spec.appendAll kind l l = l ∧ Spec.removeAll l l = [] := by
  constructor
  · have : ∀ (o : Spec.Tab), (∀ e ∈ o, e ∈ l) → Spec.appendAll kind l o = l := by
      intro o
      induction o with
      | nil => intro _; rfl
      | cons e r ih =>
        intro ho
        have he : e ∈ l := ho e List.mem_cons_self
        have hlk : ∃ i, Spec.lookup e.1 l = some (i, e.2) := by
          clear ih ho
          induction l with
          | nil => cases he
          | cons f l' ih' =>
            simp only [Spec.keys, List.map_cons, List.nodup_cons] at hn
            simp only [Spec.lookup]
            rcases List.mem_cons.1 he with e1 | e1
            · subst e1; exact ⟨0, by simp⟩
            · have hne : f.1 ≠ e.1 := fun c => hn.1 (by rw [c]; exact List.mem_map.2 ⟨e, e1, rfl⟩)
              obtain ⟨i, hi⟩ := ih' hn.2 e1
              exact ⟨i + 1, by simp [hne, hi]⟩
        obtain ⟨i, hi⟩ := hlk
        simp only [Spec.appendAll, Spec.insert, hi, hk, if_false]
        exact ih (fun x hx => ho x (List.mem_cons_of_mem _ hx))
    exact this l (fun _ h => h)
  · simp only [Spec.removeAll, List.filter_eq_nil_iff, decide_eq_true_eq, Decidable.not_not]
    intro e he
    exact List.mem_map.2 ⟨e, he, rfl⟩

/-- model level, every state satisfying the invariant (hence every reachable one), every hash function: `t = t` and
    `t.swap(t)` return the state unchanged, HashSet `t.append(t)` returns the TABLE unchanged (no item is linked, allocated or
    written: the loop over the own list finds every key), `t.remove(t)` releases every item: the table iterates as empty -/
theorem self_arguments (kind : Kind) (h : Nat → Nat) (s : State) (hs : SInv h s) (t : Bool) :
    (∀ s' o, step kind h s (.assignSelf t) = some (s', o) → s' = s) ∧
    (∀ s' o, step kind h s (.swapSelf t) = some (s', o) → s' = s) ∧
    (∀ s' o, step kind h s (.appendSelf t) = some (s', o) → s' = s) ∧
    (∀ s' o, step kind h s (.removeSelf t) = some (s', o) →
      (s'.get t).iterate = [] ∧ s'.get (!t) = s.get (!t) ∧ ∀ id ∈ (s.get t).order, id ∈ (s'.get t).free) := by
  have hss : s.set t (s.get t) = s := by cases t <;> rfl
  refine ⟨?_, ?_, ?_, ?_⟩
  · intro s' o hst
    by_cases hav : (Op.assignSelf t).available kind = true
    · simp only [step, hav, Bool.not_true, Bool.false_eq_true, if_false, Option.some.injEq, Prod.mk.injEq] at hst; exact hst.1.symm
    · simp [step, hav] at hst
  · intro s' o hst
    simp only [step, Op.available, Bool.not_true, Bool.false_eq_true, if_false, Option.some.injEq, Prod.mk.injEq] at hst
    exact hst.1.symm
  · intro s' o hst
    by_cases hav : (Op.appendSelf t).available kind = true
    · have hk : kind ≠ Kind.map := by
        intro hk; rw [hk] at hav; simp [Op.available] at hav
      simp only [step, hav, Bool.not_true, Bool.false_eq_true, if_false, Option.some.injEq, Prod.mk.injEq,
        Ptr.appendAll_own (hs.get t) kind hk _ (fun _ hx => hx), hss] at hst
      exact hst.1.symm
    · simp [step, hav] at hst
  · intro s' o hst
    by_cases hav : (Op.removeSelf t).available kind = true
    · simp only [step, hav, Bool.not_true, Bool.false_eq_true, if_false, Option.some.injEq, Prod.mk.injEq] at hst
      rw [← hst.1, get_set_same, get_set_other]
      have h1 := (hs.get t).removeAll (s.get t).items (s.get t).order
      refine ⟨?_, rfl, fun id hid => ?_⟩
      · rw [h1.2, ← Table.iterate_eq]
        simp only [Spec.removeAll, List.filter_eq_nil_iff, decide_eq_true_eq, Decidable.not_not]
        intro e he
        exact List.mem_map.2 ⟨e, he, rfl⟩
      · exact (((hs.get t).removeAll_stable (s.get t).items (s.get t).order id hid).2.2 (List.mem_map.2 ⟨id, hid, rfl⟩)).2
    · simp [step, hav] at hst

open Ptr in
/-- pointer level: in coupled states HashSet `a.append(a)` – the loop that reads `i->key` and `i->next` from the very list
    `insert` works on – terminates within `size` iterations and returns the pointer structure unchanged; `a.swap(a)` (both
    halves of `swap` acting on one object) and `a.remove(a)` (which reads `i->next` of the item it has just released) keep
    the structure coupled with the chain-list result; none of them faults -/
theorem ptr_self_arguments (kind : Kind) (h : Nat → Nat) (pt : PTable) (t : Table) (hr : Rel pt t) (hi : t.Inv h) :
    (kind ≠ Kind.map → PTable.appendSelf kind h pt = some pt) ∧
    (Rel pt.swapSelf t ∧ pt.swapSelf.self = pt.self) ∧
    (∃ pt', PTable.removeSelf h pt = some pt' ∧ Rel pt' (Table.removeAll h t t.items t.order) ∧ pt'.self = pt.self) :=
  ⟨fun hk => (hr.appendSelf hi kind hk).1, hr.swapSelf hi, hr.removeSelf hi⟩

/-! ### the hash functions, as translated from the current sources (`Nstd/Generated/HashFn.lean`) -/

open Nstd.Generated.HashFn in
/-- `hash(const String&)` of the current String.hpp: every index of an `s[..]` expression lies within the `len + 1` bytes
    (text + terminator) the converted pointer designates, for every length a `usize` can hold -/
theorem hash_string_in_bounds (len : Nat) (hl : len < M) : ∀ i ∈ hashStringReads len, i < len + 1 := by
  intro i hi
  simp only [M] at hl
  simp only [hashStringReads, List.mem_cons, List.not_mem_nil, or_false, udiv, usub, uadd, umul, umod,
    Nat.reduceMod, Nat.reduceDiv, Nat.reduceAdd, Nat.reduceSub, Nat.reduceMul] at hi
  by_cases h0 : len = 0
  · subst h0
    simp at hi
    omega
  · simp only [ne_eq, h0, not_false_eq_true, if_true] at hi
    omega

open Nstd.Generated.HashFn in
/-- hence the translated hash function never faults on a string buffer of `len + 1` bytes -/
theorem hash_string_total (s : List Nat) (len : Nat) (hl : len < M) (hs : s.length = len + 1) :
    (hashWith hashStringReads hashStringOf s len).isSome = true := by
  unfold hashWith
  have := readAll_isSome s (hashStringReads len) (fun i hi => by rw [hs]; exact hash_string_in_bounds len hl i hi)
  cases hr : readAll s (hashStringReads len) with
  | none => rw [hr] at this; cases this
  | some cs => rfl

open Nstd.Generated.HashFn in
/-- `hash_string_in_bounds` over the String VIEW actually read: whatever memory the string points into (its own block, a
    literal, the middle of a larger text whose neighbouring bytes are arbitrary), as long as the byte after the text is
    readable (the contract of `attach`), the pointer obtained by `const char* s = str;` designates the string's OWN text
    followed by the NUL the conversion guarantees, and the bytes the hash reads are bytes `0 … len` of that -/
theorem hash_string_reads_own_text (v : StrView) (hl : v.len < M) (hv : v.off + v.len < v.buf.length) :
    ∃ s, v.conv = some s ∧ ∀ i ∈ hashStringReads v.len, i ≤ v.len ∧ s[i]? = (v.text ++ [0])[i]? := by
  obtain ⟨s, hs, hrd⟩ := v.conv_spec hv
  have hb : ∀ i ∈ hashStringReads v.len, i ≤ v.len := fun i hi => Nat.le_of_lt_succ (hash_string_in_bounds v.len hl i hi)
  exact ⟨s, hs, fun i hi => ⟨hb i hi, hrd i (hb i hi)⟩⟩

open Nstd.Generated.HashFn in
/-- the consistency `refines` assumes of the key type, for String keys: equal strings (`operator==`: same length, same
    bytes) have equal (and defined) hash codes, independent of where the two strings point to and of what follows them:
    owned, literal, shared, attached unterminated view, empty view inside a text -/
theorem hash_respects_equality (v w : StrView) (hl : v.len < M) (hv : v.off + v.len < v.buf.length)
    (hw : w.off + w.len < w.buf.length) (he : v.text = w.text) :
    hashViewWith hashStringReads hashStringOf v = hashViewWith hashStringReads hashStringOf w ∧
    (hashViewWith hashStringReads hashStringOf v).isSome = true := by
  have hlen : v.len = w.len := by
    rw [← v.text_length (Nat.le_of_lt hv), ← w.text_length (Nat.le_of_lt hw), he]
  have hbv : ∀ i ∈ hashStringReads v.len, i ≤ v.len := fun i hi => Nat.le_of_lt_succ (hash_string_in_bounds v.len hl i hi)
  have hbw : ∀ i ∈ hashStringReads w.len, i ≤ w.len := by rw [← hlen]; exact hbv
  rw [hashViewWith_eq _ _ v hbv hv, hashViewWith_eq _ _ w hbw hw, he]
  refine ⟨rfl, ?_⟩
  exact hash_string_total _ _ (by rw [w.text_length (Nat.le_of_lt hw), ← hlen]; exact hl) (by simp)

open Nstd.Generated.HashFn in
/-- the consistency `refines` assumes of the key type, for the integral and pointer keys of Base.hpp: every overload that
    the preprocessor leaves active is a function of the bit pattern of its argument alone (the translator refuses a body
    that mentions anything but the parameter, integer casts, `sizeof` and literals, and any arithmetic that is not an
    operation in usize), so equal keys have equal codes, and every code fits `usize`.  The proof does not depend on the
    number of overloads or on their bodies beyond the outermost operation. -/
theorem hash_int_respects_equality :
    ∀ o ∈ overloads, ∀ x y : Nat, x = y → o.2.2.2 x = o.2.2.2 y ∧ o.2.2.2 x < M := by
  simp only [overloads, List.forall_mem_cons, List.not_mem_nil, false_imp_iff, implies_true, and_true]
  repeat' apply And.intro
  all_goals (intro x y hxy; subst hxy; exact ⟨rfl, by hash_bound⟩)

/-! ### items never move while they live (mechanism level of property C05) -/

/-- one step, chain-list model.  `id` is a live item of table `t` before the op (its id IS its slot `ipb·block + slot`, i.e. its
    address); the op does not destroy / assign over table `t` (`construct`, `copyFrom`, `assign` of `t`: the life of all its
    items ends).  Then
    * unless the op releases exactly this item (`Op.releases`: remove by its key / by an iterator or value address designating
      it, removeFront/Back when it is first/last, clear, bulk remove of its key) the item is still live afterwards with the
      SAME id, in the same table variable – after `swap` in the other one (`Op.owner`: the items are handed over, ids
      unchanged) –, the same key, and the same value unless this op wrote to the entry of its key (`Op.writes`: `setValue`,
      or an insert of that very key into a HashMap: value overwritten in place; HashSet / PoolMap inserts never write, so
      a PoolMap value is constructed in place once and only changed by the user through the iterator);
    * if the op releases it, it is no longer live and its id is on the free list of the table. -/
theorem items_stable_step (kind : Kind) (h : Nat → Nat) (s s' : State) (op : Op) (o : Out)
    (hs : SInv h s) (hst : step kind h s op = some (s', o)) (t : Bool) (id : Nat)
    (hl : id ∈ (s.get t).order) (hd : ¬ op.destroys t) :
    (¬ op.releases s t id → Stays kind op t (s.get t) (s'.get (op.owner t)) id) ∧
    (op.releases s t id → id ∉ (s'.get t).order ∧ id ∈ (s'.get t).free) :=
  items_stable_step_aux kind h s s' op o hs hst t id hl hd

/-- inserts never release an item: no live id is on the free list afterwards (and by `items_stable_step` all stay live) -/
theorem insert_releases_nothing (kind : Kind) (h : Nat → Nat) (t : Table) (hi : t.Inv h) (pos k v : Nat)
    (hp : pos ≤ t.order.length) : ∀ id ∈ t.order, id ∈ (t.insert kind h pos k v).1.order ∧ id ∉ (t.insert kind h pos k v).1.free :=
  fun id hl => ⟨(hi.insert_stable kind pos k v id hl).1, hi.insert_free_subset kind pos k v hp id hl⟩

/-- history level: an item that is live in table `t` at some point and is neither released nor has its owning table destroyed
    by any of the following ops (`Survives`) is still live at the end, in the table variable that owns it then (`finalOwner`:
    flips with every `swap`), with the same id (slot) and the same key -/
theorem item_keeps_slot (kind : Kind) (h : Nat → Nat) (ops : List Op) (s s' : State) (outs : List Out) (t : Bool) (id : Nat)
    (hs : SInv h s) (hl : id ∈ (s.get t).order) (hr : run kind h s ops = some (s', outs))
    (hsv : Survives kind h s t id ops) :
    id ∈ (s'.get (finalOwner t ops)).order ∧
    ((s'.get (finalOwner t ops)).items id).key = ((s.get t).items id).key := by
  induction ops generalizing s t outs with
  | nil =>
    simp only [run, Option.some.injEq, Prod.mk.injEq] at hr
    rw [← hr.1]
    exact ⟨hl, rfl⟩
  | cons op ops ih =>
    simp only [run] at hr
    cases hst : step kind h s op with
    | none => rw [hst] at hr; cases hr
    | some r =>
      obtain ⟨s1, o⟩ := r
      rw [hst] at hr
      simp only at hr
      cases hrr : run kind h s1 ops with
      | none => rw [hrr] at hr; cases hr
      | some r2 =>
        obtain ⟨s2, os⟩ := r2
        rw [hrr] at hr
        simp only [Option.some.injEq, Prod.mk.injEq] at hr
        obtain ⟨e1, _⟩ := hr
        subst e1
        obtain ⟨h1, h2, h3⟩ := hsv
        have hstay := (items_stable_step kind h s s1 op o hs hst t id hl h1).1 h2
        have hs1 := (step_refines kind h s op hs).2 s1 o hst
        have := ih s1 os (op.owner t) hs1 hstay.1 hrr (h3 s1 o hst)
        exact ⟨this.1, by show ((s2.get (finalOwner (op.owner t) ops)).items id).key = _; rw [this.2, hstay.2.1]⟩

/-! ### pointer level -/

open Ptr in
/-- every run of the pointer-level model is matched step by step by the chain-list model: same results, coupled states
    (`PRel`: every bucket chain of the pointer heap is the stored chain list and every `cell` designates the referring
    cell; the `next`/`prev` list from `begin` to the OWN end sentinel is the order list, `endItem.prev` its last item;
    the free list along `prev` is the stored free list; keys and values agree), and the invariant; it is rejected
    (a fault: out of fuel, foreign sentinel, invalid iterator) iff the chain-list model rejects -/
theorem ptr_simulated (kind : Kind) (h : Nat → Nat) (ops : List Op) (ps : PState) (s : State)
    (hp : PRel ps s) (hs : SInv h s) :
    match prun kind h ps ops, run kind h s ops with
    | some (ps', os), some (s', os') => os = os' ∧ PRel ps' s' ∧ SInv h s'
    | none, none => True
    | _, _ => False := by
  induction ops generalizing ps s with
  | nil => exact ⟨rfl, hp, hs⟩
  | cons op ops ih =>
    have h1 := pstep_sim kind h ps s op hp hs
    have h2 := (step_refines kind h s op hs).2
    simp only [prun, run]
    unfold StepSim at h1
    cases hps : pstep kind h ps op with
    | none =>
      rw [hps] at h1
      cases hst : step kind h s op with
      | none => trivial
      | some r => rw [hst] at h1; exact False.elim h1
    | some pr =>
      rw [hps] at h1
      cases hst : step kind h s op with
      | none => rw [hst] at h1; exact False.elim h1
      | some r =>
        rw [hst] at h1
        obtain ⟨ps1, o⟩ := pr
        obtain ⟨s1, o'⟩ := r
        simp only at h1 ⊢
        have ih' := ih ps1 s1 h1.2 (h2 s1 o' hst)
        cases hpr : prun kind h ps1 ops with
        | none =>
          rw [hpr] at ih'
          cases hr : run kind h s1 ops with
          | none => trivial
          | some r2 => rw [hr] at ih'; exact False.elim ih'
        | some pr2 =>
          rw [hpr] at ih'
          cases hr : run kind h s1 ops with
          | none => rw [hr] at ih'; exact False.elim ih'
          | some r2 =>
            rw [hr] at ih'
            obtain ⟨ps2, os⟩ := pr2
            obtain ⟨s2, os'⟩ := r2
            simp only at ih' ⊢
            exact ⟨by rw [h1.1, ih'.1], ih'.2⟩

open Ptr in
/-- from every pair of coupled states satisfying the invariant the pointer-level model yields exactly the results of
    the association-list specification, and rejects exactly the op lists the specification rejects -/
theorem ptr_refines_from (kind : Kind) (h : Nat → Nat) (ops : List Op) (ps : PState) (s : State)
    (hp : PRel ps s) (hs : SInv h s) :
    (prun kind h ps ops).map (fun r => r.2) = (Spec.run kind (abs s) ops).map (fun r => r.2) := by
  have h1 := ptr_simulated kind h ops ps s hp hs
  have h2 := refines_from kind h ops s hs
  rw [← h2]
  cases hpr : prun kind h ps ops with
  | none =>
    rw [hpr] at h1
    cases hr : run kind h s ops with
    | none => rfl
    | some r => rw [hr] at h1; exact False.elim h1
  | some pr =>
    rw [hpr] at h1
    cases hr : run kind h s ops with
    | none => rw [hr] at h1; exact False.elim h1
    | some r =>
      rw [hr] at h1
      simp only [Option.map_some, Option.some.injEq]
      exact h1.1

open Ptr in
/-- C02 at pointer level: for every hash function, container kind and op list the pointer-level model started with two
    default-constructed tables yields exactly the results of the association-list specification and never faults
    on an op list the specification accepts -/
theorem ptr_refines (kind : Kind) (h : Nat → Nat) (ipb dcap : Nat) (hk : 0 < ipb) (hd : 0 < dcap) (ops : List Op) :
    (prun kind h (pinitWith ipb dcap) ops).map (fun r => r.2) = (Spec.run kind Spec.init ops).map (fun r => r.2) := by
  rw [← abs_initWith ipb dcap]
  exact ptr_refines_from kind h ops _ _ (pinitWith_rel ipb dcap) (initWith_inv h ipb dcap hk hd)

open Ptr in
/-- … and for EVERY pair of capacities (0 becomes 1 as in the code), in particular capacity 1 with a constant hash -/
theorem ptr_refines_every_capacity (kind : Kind) (h : Nat → Nat) (ipb dcap : Nat) (hk : 0 < ipb) (hd : 0 < dcap)
    (c0 c1 : Nat) (ops : List Op) :
    (prun kind h ⟨PTable.construct false ipb dcap c0, PTable.construct true ipb dcap c1⟩ ops).map (fun r => r.2)
      = (Spec.run kind Spec.init ops).map (fun r => r.2) :=
  ptr_refines_from kind h ops _ ⟨Table.construct ipb dcap c0, Table.construct ipb dcap c1⟩
    ⟨fresh_rel false _ _ _, fresh_rel true _ _ _, rfl, rfl⟩ (inv_construct h ipb dcap hk hd c0 c1)

open Ptr in
/-- inserting a key that is already present, pointer level: `find` returns the existing item (whatever the collisions),
    nothing is linked or allocated; HashMap overwrites only that item's value, HashSet/PoolMap return the table unchanged -/
theorem ptr_insert_existing (kind : Kind) (h : Nat → Nat) (pt : PTable) (t : Table) (hr : Rel pt t) (hi : t.Inv h)
    (pos : Nxt) (k v id : Nat) (hid : id ∈ t.order) (hk : (t.items id).key = k) :
    pt.insert kind h pos k v =
      some (if kind = Kind.map then { pt with items := upd pt.items id { pt.items id with value := v } } else pt, id) := by
  unfold PTable.insert
  rw [hr.find hi k, (hi.find_some_iff k id).2 ⟨hid, hk⟩]

open Ptr in
/-- in every reachable pointer-level table iterating backwards (`--it` from `end()` along `prev`) visits exactly the
    forward order reversed, and both traversals end within `size` steps -/
theorem ptr_backward_iteration (kind : Kind) (h : Nat → Nat) (ipb dcap : Nat) (hk : 0 < ipb) (hd : 0 < dcap)
    (ops : List Op) (ps' : PState) (outs : List Out)
    (hr : prun kind h (pinitWith ipb dcap) ops = some (ps', outs)) (t : Bool) :
    ∃ l, (ps'.get t).order = some l ∧ (ps'.get t).orderBack = some l.reverse := by
  have h1 := ptr_simulated kind h ops _ _ (pinitWith_rel ipb dcap) (initWith_inv h ipb dcap hk hd)
  rw [hr] at h1
  cases hrun : run kind h (initWith ipb dcap) ops with
  | none => rw [hrun] at h1; exact False.elim h1
  | some r =>
    rw [hrun] at h1
    obtain ⟨s', os'⟩ := r
    simp only at h1
    exact ⟨_, (h1.2.1.get t).1.order_eq (h1.2.2.get t), (h1.2.1.get t).1.orderBack_eq (h1.2.2.get t)⟩

open Ptr in
/-- `items_stable_step` at pointer level: `ps` is coupled with `s` (`PRel`, as every reachable pair is by `ptr_simulated`);
    the pointer model makes the matching step, stays coupled, and a live item of the pointer heap (on the `next` list of
    table `t`) keeps its id (address), key and – unless written by this op – value, in the table variable `Op.owner t`;
    a released item is off the list and on the `prev`-linked free list -/
theorem ptr_items_stable_step (kind : Kind) (h : Nat → Nat) (ps ps' : PState) (s : State) (op : Op) (o : Out)
    (hp : PRel ps s) (hs : SInv h s) (hst : pstep kind h ps op = some (ps', o)) (t : Bool) (id : Nat) (l : List Nat)
    (hl : (ps.get t).order = some l) (hid : id ∈ l) (hd : ¬ op.destroys t) :
    ∃ s', step kind h s op = some (s', o) ∧ PRel ps' s' ∧
      (¬ op.releases s t id →
        ∃ l', (ps'.get (op.owner t)).order = some l' ∧ id ∈ l' ∧
          ((ps'.get (op.owner t)).items id).key = ((ps.get t).items id).key ∧
          (((ps'.get (op.owner t)).items id).value = ((ps.get t).items id).value ∨
            ∃ v, op.writes kind t ((ps.get t).items id).key v ∧ ((ps'.get (op.owner t)).items id).value = v)) ∧
      (op.releases s t id →
        ∃ l' fl, (ps'.get t).order = some l' ∧ id ∉ l' ∧
          FreeL (ps'.get t).items (ps'.get t).freeItem fl ∧ id ∈ fl) := by
  have hsim := pstep_sim kind h ps s op hp hs
  unfold StepSim at hsim
  rw [hst] at hsim
  cases hstep : step kind h s op with
  | none => rw [hstep] at hsim; exact False.elim hsim
  | some r =>
    rw [hstep] at hsim
    obtain ⟨s', o'⟩ := r
    simp only at hsim
    obtain ⟨eo, hp'⟩ := hsim
    subst eo
    have hs' := (step_refines kind h s op hs).2 s' o hstep
    have hrel := (hp.get t).1
    have hord : l = (s.get t).order := by
      have := hrel.order_eq (hs.get t); rw [hl] at this; exact Option.some.inj this
    subst hord
    have hmain := items_stable_step kind h s s' op o hs hstep t id hid hd
    refine ⟨s', rfl, hp', fun hne => ?_, fun hre => ?_⟩
    · have hst' := hmain.1 hne
      have hrel' := (hp'.get (op.owner t)).1
      refine ⟨_, hrel'.order_eq (hs'.get _), hst'.1, ?_, ?_⟩
      · rw [(hrel'.kv id).1, (hrel.kv id).1]; exact hst'.2.1
      · rw [(hrel'.kv id).2, (hrel.kv id).2, (hrel.kv id).1]; exact hst'.2.2
    · have hrel' := (hp'.get t).1
      exact ⟨_, _, hrel'.order_eq (hs'.get t), (hmain.2 hre).1, hrel'.free, (hmain.2 hre).2⟩

open Ptr in
/-- the same at pointer level: block size and default capacity of every reachable pointer-level table are the class
    constants, and the items on its order list are slots of its allocated blocks -/
theorem ptr_block_structure (kind : Kind) (h : Nat → Nat) (ipb dcap : Nat) (hk : 0 < ipb) (hd : 0 < dcap)
    (ops : List Op) (ps' : PState) (outs : List Out)
    (hr : prun kind h (pinitWith ipb dcap) ops = some (ps', outs)) (t : Bool) :
    (ps'.get t).ipb = ipb ∧ (ps'.get t).dcap = dcap ∧
    ∃ l, (ps'.get t).order = some l ∧ ∀ id ∈ l, id < ipb * (ps'.get t).blocks := by
  have h1 := ptr_simulated kind h ops _ _ (pinitWith_rel ipb dcap) (initWith_inv h ipb dcap hk hd)
  rw [hr] at h1
  cases hrun : run kind h (initWith ipb dcap) ops with
  | none => rw [hrun] at h1; exact False.elim h1
  | some r =>
    rw [hrun] at h1
    obtain ⟨s', os'⟩ := r
    simp only at h1
    have hrel := (h1.2.1.get t).1
    have hb := block_structure kind h ipb dcap hk hd ops s' os' hrun t
    refine ⟨by rw [hrel.ipb]; exact hb.1, by rw [hrel.dcap]; exact hb.2.1, _, hrel.order_eq (h1.2.2.get t), ?_⟩
    rw [hrel.blocks]
    exact hb.2.2.1

open Ptr in
/-- structure of every reachable pointer-level table: there are id lists (`chain b`, `order`, `free`) such that every bucket
    chain is a `nextCell` list whose `cell` back-pointers designate the referring cells, holds exactly the live items whose
    key hashes to the bucket, each once; the `next`/`prev` list is closed by the table's own sentinel; iteration along `next`
    ends within `size` steps; live and free items are disjoint -/
theorem ptr_structure (kind : Kind) (h : Nat → Nat) (ipb dcap : Nat) (hk : 0 < ipb) (hd : 0 < dcap)
    (ops : List Op) (ps' : PState) (outs : List Out)
    (hr : prun kind h (pinitWith ipb dcap) ops = some (ps', outs)) (t : Bool) :
    ∃ (chain : Nat → List Nat) (order free : List Nat),
      ((ps'.get t).allocated = true → ∀ b, Chain (ps'.get t).items b ((ps'.get t).heads b) (chain b) ∧ (chain b).Nodup ∧
        ∀ id, id ∈ chain b ↔ (id ∈ order ∧ h ((ps'.get t).items id).key % (ps'.get t).cap = b)) ∧
      Dll (ps'.get t).items t (ps'.get t).begin order ∧ (ps'.get t).self = t ∧
      (ps'.get t).order = some order ∧ (ps'.get t).size = order.length ∧ (ps'.get t).endPrev = order.getLast? ∧
      FreeL (ps'.get t).items (ps'.get t).freeItem free ∧ (∀ id ∈ free, id ∉ order) ∧
      (order.map (fun id => ((ps'.get t).items id).key)).Nodup ∧ 0 < (ps'.get t).cap := by
  have h1 := ptr_simulated kind h ops _ _ (pinitWith_rel ipb dcap) (initWith_inv h ipb dcap hk hd)
  rw [hr] at h1
  cases hrun : run kind h (initWith ipb dcap) ops with
  | none => rw [hrun] at h1; exact absurd h1 id
  | some r =>
    rw [hrun] at h1
    obtain ⟨s', os'⟩ := r
    simp only at h1
    have hrel := (h1.2.1.get t).1
    have hself := (h1.2.1.get t).2
    have hi := h1.2.2.get t
    refine ⟨(s'.get t).data, (s'.get t).order, (s'.get t).free, ?_, ?_, hself, hrel.order_eq hi, ?_, hrel.endPrev_eq,
      hrel.free, hi.free_disj, ?_, ?_⟩
    · intro ha b
      have ha' : (s'.get t).allocated = true := by rw [← hrel.alloc]; exact ha
      refine ⟨hrel.chains ha' b, hi.chain_nodup ha' b, fun id => ?_⟩
      rw [hi.chain_iff ha' b id, hrel.cap, (hrel.kv id).1]
      constructor
      · intro ⟨m, c⟩; exact ⟨m, by rw [← hi.cell_eq id m]; exact c⟩
      · intro ⟨m, c⟩; exact ⟨m, by rw [hi.cell_eq id m]; exact c⟩
    · have := hrel.order; rw [hself] at this; exact this
    · rw [hrel.size, hi.size_eq]
    · have : (fun id => ((ps'.get t).items id).key) = (fun id => ((s'.get t).items id).key) := by
        funext id; exact (hrel.kv id).1
      rw [this]; exact hi.keys_nodup
    · rw [hrel.cap]; exact hi.cap_pos

/-! ### iteration forwards and backwards, dereferencing, `!=` -/

open Ptr in
/-- one step of the pointer-level model from a coupled state answers what the specification answers -/
theorem ptr_step_refines (kind : Kind) (h : Nat → Nat) (ps : PState) (s : State) (op : Op)
    (hp : PRel ps s) (hs : SInv h s) :
    (pstep kind h ps op).map (fun r => r.2) = (Spec.step kind (abs s) op).map (fun r => r.2) := by
  have h1 := pstep_sim kind h ps s op hp hs
  have h2 := (step_refines kind h s op hs).1
  unfold StepSim at h1
  rw [← h2]
  cases hps : pstep kind h ps op with
  | none =>
    rw [hps] at h1
    cases hst : step kind h s op with
    | none => rfl
    | some r => rw [hst] at h1; exact False.elim h1
  | some pr =>
    rw [hps] at h1
    cases hst : step kind h s op with
    | none => rw [hst] at h1; exact False.elim h1
    | some r =>
      rw [hst] at h1
      simp only [Option.map_some, Option.some.injEq]
      exact h1.1

open Ptr in
/-- iteration order forwards AND backwards: after every op list (positional inserts, removals from the middle of a chain,
    clear and reuse, swap, copies, the self-argument members …) on two tables of any capacities, for every hash function:
    walking `++it` from `begin()` to `end()` over the pointer structure visits exactly the specification's list – the
    insertion order –, walking `--it` from `end()` down to `begin()` visits exactly its REVERSE, dereferencing the iterator
    at position `p` (`it.key()`, `*it`, `it->`) shows entry `p` (and is rejected for `end()`), and `!=` answers the negation
    of `==` -/
theorem iter_backward (kind : Kind) (h : Nat → Nat) (ipb dcap : Nat) (hk : 0 < ipb) (hd : 0 < dcap) (c0 c1 : Nat)
    (ops : List Op) (ps' : PState) (outs : List Out)
    (hr : prun kind h ⟨PTable.construct false ipb dcap c0, PTable.construct true ipb dcap c1⟩ ops = some (ps', outs)) :
    ∃ ss : Spec.SState, (Spec.run kind Spec.init ops).map (fun r => r.1) = some ss ∧ ∀ t : Bool,
      (pstep kind h ps' (.iterate t)).map (fun r => r.2) = some (.entries (ss.get t)) ∧
      (pstep kind h ps' (.iterBack t)).map (fun r => r.2) = some (.entries (ss.get t).reverse) ∧
      (∀ pos, (pstep kind h ps' (.entryAt t pos)).map (fun r => r.2) = ((ss.get t)[pos]?).map (fun e => Out.entries [e])) ∧
      (kind ≠ Kind.pool → ∀ u, (pstep kind h ps' (.notEqual t u)).map (fun r => r.2)
        = some (.flag (!Spec.equal kind (ss.get t) (ss.get u)))) := by
  have hsim := ptr_simulated kind h ops ⟨PTable.construct false ipb dcap c0, PTable.construct true ipb dcap c1⟩
    ⟨Table.construct ipb dcap c0, Table.construct ipb dcap c1⟩
    ⟨fresh_rel false _ _ _, fresh_rel true _ _ _, rfl, rfl⟩ (inv_construct h ipb dcap hk hd c0 c1)
  have href := refines_every_capacity kind h ipb dcap hk hd c0 c1 ops
  rw [hr] at hsim
  cases hrun : run kind h ⟨Table.construct ipb dcap c0, Table.construct ipb dcap c1⟩ ops with
  | none => rw [hrun] at hsim; exact False.elim hsim
  | some r =>
    obtain ⟨s', os'⟩ := r
    rw [hrun] at hsim href
    simp only at hsim
    simp only [Option.map_some] at href
    refine ⟨abs s', by rw [← href]; rfl, fun t => ?_⟩
    have hq := fun op => ptr_step_refines kind h ps' s' op hsim.2.1 hsim.2.2
    refine ⟨?_, ?_, fun pos => ?_, fun hkp u => ?_⟩
    · rw [hq]; simp [Spec.step, Op.available]
    · rw [hq]; simp [Spec.step, Op.available]
    · rw [hq]
      simp only [Spec.step, Op.available, Bool.not_true, Bool.false_eq_true, if_false]
      cases ((abs s').get t)[pos]? <;> rfl
    · rw [hq]
      have : (Op.notEqual t u).available kind = true := by simp [Op.available, hkp]
      simp [Spec.step, this]
/-! ### a client of the library: `Server::Private::_closingClients` (property C14) -/

open Nstd.Generated.HashFn Ptr in
/-- `_closingClients` is a `HashSet<ClientImpl*>` with an explicit bucket count, keyed by object addresses through the
    library's `hash(const void*)` (here: the function translated from the CURRENT Base.hpp).  For EVERY bucket count `c`
    (Server.cpp says 8; 0 would become 1), every block size / default capacity, and every sequence of the members Server
    calls – `append(&client)`, `remove(&client)`, `isEmpty()`, `front()`, `removeFront()`, `clear()` – with arbitrary
    addresses (any number of them colliding in a bucket, released and re-used addresses included), the chain-list model
    AND the pointer-level model of HashSet return exactly what the plain list machine `closingRun` returns, which is the
    `St.closing` list of the C14 model (`addClosing` = append unless present, `filter`, head / tail): the key list stays
    equal to that list and an op is rejected (an invalid call: `front()` / `removeFront()` of an empty set) iff the list
    machine rejects it.  This is what justifies the abstract list in `Nstd/Server/ModelC14.lean`; the seeded change C14-3
    (`HashSet::remove` without `item->nextCell->cell = item->cell`) breaks the premise `PtrModel` ≙ HashSet.hpp, which the
    C02 correspondence run checks (seeded C02-1 is the same edit in HashMap.hpp). -/
theorem closing_clients_is_a_list (ipb dcap : Nat) (hk : 0 < ipb) (hd : 0 < dcap) (c c' : Nat) (ops : List ClosingOp) :
    (run Kind.set hash_ptr ⟨Table.construct ipb dcap c, Table.construct ipb dcap c'⟩ (ops.map ClosingOp.toOp)).map
        (fun r => (Spec.keys r.1.a.iterate, r.2)) = closingRun [] ops ∧
    (prun Kind.set hash_ptr ⟨PTable.construct false ipb dcap c, PTable.construct true ipb dcap c'⟩
        (ops.map ClosingOp.toOp)).map (fun r => r.2) = (closingRun [] ops).map (fun r => r.2) := by
  have h1 := refines_every_capacity Kind.set hash_ptr ipb dcap hk hd c c' (ops.map ClosingOp.toOp)
  have h2 : _ = closingRun [] ops := closing_run Spec.init ops
  have h3 := ptr_refines_every_capacity Kind.set hash_ptr ipb dcap hk hd c c' (ops.map ClosingOp.toOp)
  constructor
  · rw [← h2, ← h1]
    cases run Kind.set hash_ptr ⟨Table.construct ipb dcap c, Table.construct ipb dcap c'⟩ (ops.map ClosingOp.toOp) with
    | none => rfl
    | some r => rfl
  · rw [h3, ← h2]
    cases Spec.run Kind.set Spec.init (ops.map ClosingOp.toOp) with
    | none => rfl
    | some r => rfl

/-- the list machine is not vacuous: two addresses in one of 8 buckets (`hash(p) = p >> 3`: 64 and 128 collide), the later
    one removed by key first, then the closing loop pops the earlier one – the history of seeded change C14-3 -/
example :
    (run Kind.set Nstd.Generated.HashFn.hash_ptr ⟨Table.construct 4 500 8, Table.construct 4 500 8⟩
      ([ClosingOp.add 64, .add 128, .del 128, .isEmpty, .front, .pop, .isEmpty, .del 64, .add 128, .front].map ClosingOp.toOp)).map
      (fun r => (Spec.keys r.1.a.iterate, r.2))
    = some ([128], [.unit, .unit, .unit, .flag false, .num 64, .num 0, .flag true, .unit, .unit, .num 128]) ∧
    closingRun [] [ClosingOp.add 64, .add 128, .del 128, .isEmpty, .front, .pop, .isEmpty, .del 64, .add 128, .front]
    = some ([128], [.unit, .unit, .unit, .flag false, .num 64, .num 0, .flag true, .unit, .unit, .num 128]) := by
  decide

/-! ### non-vacuity: the hypotheses are met by non-trivial states, the runs are not all rejected -/

/-- three keys in ONE bucket of a capacity-1 HashMap, removal from the middle of the chain, reinsertion (recycled item),
    update of an existing key, swap with a non-empty table and `==`: accepted, and with the expected results -/
example :
    (run Kind.map (fun _ => 7) init
      [.construct false 1, .append false 5 50, .append false 6 60, .prepend false 4 40, .removeKey false 5,
       .insert false 1 9 90, .append false 6 61, .find false 6, .swap false, .iterate true, .equal false true]).map
      (fun r => r.2)
    = some [.unit, .num 50, .num 60, .num 40, .unit, .num 1, .num 61, .onum (some 2), .unit,
            .entries [(4, 40), (9, 90), (6, 61)], .flag false] := by
  decide

/-- a reachable state with a chain of length three meets `Inv` (so `find_correct`, `insert_existing_keeps_pos` are not vacuous) -/
example : ∃ t : Table, t.Inv (fun _ => 7) ∧ (t.data 0).length = 3 ∧ 2 ∈ Spec.keys t.iterate := by
  have hi := (((construct_inv (fun _ => 7) 4 500 1 (by decide) (by decide)).insert Kind.set 0 1 0 (Nat.zero_le _)).1.insert Kind.set 0 2 0 (Nat.zero_le _)).1.insert
    Kind.set 0 3 0 (Nat.zero_le _)
  exact ⟨_, hi.1, by decide, by decide⟩

/-- the same history on the pointer-level model -/
example :
    (Ptr.prun Kind.map (fun _ => 7) Ptr.pinit
      [.construct false 1, .append false 5 50, .append false 6 60, .prepend false 4 40, .removeKey false 5,
       .insert false 1 9 90, .append false 6 61, .find false 6, .swap false, .iterate true, .equal false true]).map
      (fun r => r.2)
    = some [.unit, .num 50, .num 60, .num 40, .unit, .num 1, .num 61, .onum (some 2), .unit,
            .entries [(4, 40), (9, 90), (6, 61)], .flag false] := by
  decide

/-- the hypotheses of `ptr_insert_existing` / `ptr_simulated` are met by a non-empty coupled pair of tables -/
example : ∃ (pt : Ptr.PTable) (t : Table), Ptr.Rel pt t ∧ t.Inv (fun _ => 7) ∧ 0 ∈ t.order ∧ (t.items 0).key = 5 := by
  obtain ⟨r, _, _, hr, _⟩ :=
    (Ptr.fresh_rel false 1 4 500).insert (fresh_inv (fun _ => 7) 1 4 500 (by decide) (by decide) (by decide)) Kind.map 0 5 50 (Nat.zero_le _)
  exact ⟨r.1, _, hr, ((fresh_inv (fun _ => 7) 1 4 500 (by decide) (by decide) (by decide)).insert Kind.map 0 5 50 (Nat.zero_le _)).1,
    by decide, by decide⟩

/-- the empty string as an owned string and as an empty view in the middle of "ab": both are well-formed views with equal
    text, their hash codes agree (0); reading `data->str[0]` directly would give 'b' for the second -/
example :
    let v : StrView := ⟨[0], 0, 0⟩
    let w : StrView := ⟨[97, 98, 99], 1, 0⟩
    v.off + v.len < v.buf.length ∧ w.off + w.len < w.buf.length ∧ v.text = w.text ∧
      hashViewWith Nstd.Generated.HashFn.hashStringReads Nstd.Generated.HashFn.hashStringOf v = some 0 ∧
      hashViewWith Nstd.Generated.HashFn.hashStringReads Nstd.Generated.HashFn.hashStringOf w = some 0 ∧
      w.buf[w.off]? = some 98 := by
  decide

/-- the hypotheses of `items_stable_step` are met, and both branches occur: in a one-bucket HashMap holding the keys 5 (item 0)
    and 6 (item 3: the free list of a new 4-item block is 3,2,1), `remove(6)` does not destroy table 0, does not release item 0
    and releases item 3 -/
example :
    let s : State := ((run Kind.map (fun _ => 7) init
      [.construct false 1, .append false 5 50, .append false 6 60]).map (fun r => r.1)).getD init
    0 ∈ (s.get false).order ∧ 3 ∈ (s.get false).order ∧ ¬ (Op.removeKey false 6).destroys false ∧
      ¬ (Op.removeKey false 6).releases s false 0 ∧ (Op.removeKey false 6).releases s false 3 := by
  refine ⟨by decide, by decide, ?_, ?_, ?_⟩
  · simp [Op.destroys]
  · simp only [Op.releases, true_and]; decide
  · simp only [Op.releases, true_and]; decide

example : Nstd.Generated.HashFn.hashStringReads 0 = [0, 0, 0] ∧ Nstd.Generated.HashFn.hashStringReads 5 = [0, 2, 4] := by decide

/-- sign extension of a negative `int8` key, the pointer shift -/
example : Nstd.Generated.HashFn.hash_int8 0xff = 2 ^ 64 - 1 ∧ Nstd.Generated.HashFn.hash_uint8 0xff = 255 ∧
    Nstd.Generated.HashFn.hash_ptr 0x1000 = 0x200 := by decide

end Nstd.Hash
