import Nstd.Common.Basic
import Nstd.Hash.Model
import Nstd.Hash.PtrModel
import Nstd.Hash.GenStep
import Nstd.Generated.HashConst
import Nstd.Generated.HashFn
/-
  Line protocol of the Hash area (HashMap / HashSet / PoolMap).

    cfg <map|set|pool> <hashmode> <D>    choose container, hash function of the key type, key domain 0..D-1;
                                         both tables are default-constructed
    new t cap | newdef t | copy t | assign t | append t k v | prepend t k v | insert t pos k v
    remove t k | removeAt t pos | removeVal t pos | removeFront t | removeBack t | clear t | swap t
    appendAll t | removeAll t | setval t k v | hashstr <hex>
    assignSelf t | swapSelf t | appendSelf t | removeSelf t     the object itself as the `other` argument
    front t | back t | iterate t | iterBack t (and frontC, backC, iterateC, iterBackC: the const overloads) | entryAt t pos | notEqual t u
    origin n                             String-key build: form of the key arguments (owned, spare capacity, attached view, shared, …)
    hashnum w s x                        integral hash overloads: width, signedness, bit pattern
    hashptr x                            hash(const void*) of the address x
    wb t                                 white-box: capacity, bucket chains, free list, order list as item ids

  After every op one line:
     <result> || <table 0> || <table 1> || eq=<t0==t1> <t1==t0> <t0==t0>
  with  <table> = n=<size> e=<isEmpty> it=<k:v,...|-> f=<find(0)>,<find(1)>,... c=<contains bits> fr=<front|-> bk=<back|->
  Everything printed is obtained through `step` (queries are ops of the model).
  The class constants (items per block, default capacity) come from `Nstd/Generated/HashConst.lean`, the hash functions
  (`hashstr`, `hashnum`, `hashptr`, hash mode 5) from `Nstd/Generated/HashFn.lean`: both translated from the current sources.
  The driver runs BOTH models in lock-step: the chain-list model (`Model.lean`, `step`) and the pointer-level
  model in the form `gstep` (`GenStep.lean`): `pstep` of `PtrModel.lean` with every member that tools/gen_hash.py translates
  from the current headers (`Nstd/Generated/HashLink.lean`) executed AS TRANSLATED – so every line of the correspondence run
  compares the real code with the translated bodies (`gstep = pstep` on every reachable state is `gstep_eq_pstep`);
  a line on which the two models differ is printed as `MODEL-MISMATCH …`.
  An op the container does not have / an invalid iterator prints `bad-op` (state unchanged).
-/
open Nstd.Common
namespace Nstd.Hash

structure DState where
  kind : Kind
  mode : Nat
  dom : Nat
  st : State
  pst : Ptr.PState

/-- the text of key number `k` in the String-key build of the harness (5 characters + terminator) -/
def keyText (k : Nat) : List Nat :=
  if k = 0 then [] else if k = 1 then [120]
  else [97 + (k - 2) % 3, 48 + (k - 2) / 3 % 4, 98, 48 + (k - 2) / 12 % 10, 99]

/-- `hash(const String&)` of a text, computed through the view model for an owned / literal string (terminated in place)
    and for a view attached inside a larger text (neighbours not NUL); `none` if the two differ -/
def hashText (t : List Nat) : Option Nat :=
  let hashView := hashViewWith Nstd.Generated.HashFn.hashStringReads Nstd.Generated.HashFn.hashStringOf
  match hashView ⟨t ++ [0], 0, t.length⟩, hashView ⟨[126] ++ t ++ [126, 126], 1, t.length⟩ with
  | some a, some b => if a = b then some a else none
  | _, _ => none

def hashFn (mode : Nat) (k : Nat) : Nat :=
  if mode = 5 then (hashText (keyText k)).getD 0     -- `hash(const String&)` of the key text
  else if mode = 0 then k
  else if mode = 1 then 7
  else if mode = 2 then k % 2
  else if mode = 3 then 2 ^ 64 - 1 - k      -- (usize)~k: huge hash codes
  else if mode = 6 then Nstd.Generated.HashFn.hash_ptr k     -- `hash(const void*)` as translated, key number = address
  else k / 2

/-- (items per block, default capacity) of the container class in the current sources (translator output) -/
def constsOf : Kind → Nat × Nat
  | .map => (Nstd.Generated.Hash.itemsPerBlockMap, Nstd.Generated.Hash.defaultCapacityMap)
  | .set => (Nstd.Generated.Hash.itemsPerBlockSet, Nstd.Generated.Hash.defaultCapacitySet)
  | .pool => (Nstd.Generated.Hash.itemsPerBlockPool, Nstd.Generated.Hash.defaultCapacityPool)

def dstart (k : Kind) (mode dom : Nat) : DState :=
  ⟨k, mode, dom, initWith (constsOf k).1 (constsOf k).2, Ptr.pinitWith (constsOf k).1 (constsOf k).2⟩

def dinit : DState := dstart Kind.map 0 6

def outStr : Out → String
  | .unit => "unit"
  | .num n => s!"num {n}"
  | .onum (some n) => s!"{n}"
  | .onum none => "-"
  | .flag b => if b then "1" else "0"
  | .entries l => if l.isEmpty then "-" else ",".intercalate (l.map (fun e => s!"{e.1}:{e.2}"))

/-- result of an op line: `unit` / `num n` / `bad-op` as before, a query line (`iterate`, `notEqual`, …) `res <value>` -/
def resStr (o : Out) : String :=
  match o with
  | .unit | .num _ => outStr o
  | _ => "res " ++ outStr o

/-- query through the chain-list model (`ptr = false`) or the pointer model -/
def query (ptr : Bool) (d : DState) (op : Op) : String :=
  if ptr then
    match Ptr.gstep d.kind (hashFn d.mode) d.pst op with
    | some (_, o) => outStr o
    | none => "-"
  else
    match step d.kind (hashFn d.mode) d.st op with
    | some (_, o) => outStr o
    | none => "-"

def numOnly (s : String) : String := if s.startsWith "num " then (s.drop 4).toString else s

def obsTable (ptr : Bool) (d : DState) (t : Bool) : String :=
  let keys := List.range d.dom
  let query := query ptr
  s!"n={numOnly (query d (.size t))} e={query d (.isEmpty t)} it={query d (.iterate t)} " ++
  s!"f={",".intercalate (keys.map (fun k => query d (.find t k)))} " ++
  s!"c={String.join (keys.map (fun k => query d (.contains t k)))} " ++
  s!"fr={numOnly (query d (.front t))} bk={numOnly (query d (.back t))}"

def obs1 (ptr : Bool) (d : DState) (res : String) : String :=
  let query := query ptr
  s!"{res} || {obsTable ptr d false} || {obsTable ptr d true} || " ++
  s!"eq={query d (.equal false true)} {query d (.equal true false)} {query d (.equal false false)}"

/-- both models must give the same line -/
def both (a b : String) : String := if a = b then a else s!"MODEL-MISMATCH list=[{a}] ptr=[{b}]"

def obs (d : DState) (res : String) : String := both (obs1 false d res) (obs1 true d res)

def idsStr (l : List Nat) : String := if l.isEmpty then "-" else ",".intercalate (l.map toString)

/-- white-box line: the stored chains, free list and order list as item ids (block * 4 + slot) -/
def whiteBox (t : Table) : String :=
  let chains := if t.allocated then
      (List.range t.cap).filterMap (fun b => if (t.data b).isEmpty then none else some s!"{b}:{idsStr (t.data b)}")
    else []
  s!"wb cap={t.cap} alloc={if t.allocated then 1 else 0} blocks={t.blocks} " ++
  s!"chains={if chains.isEmpty then "-" else "|".intercalate chains} free={idsStr t.free} order={idsStr t.order}"

/-- ids reached from `x` along `nxt`, at most `fuel` of them -/
def follow (nxt : Nat → Option Nat) : Nat → Option Nat → List Nat
  | _, none => []
  | 0, some _ => []
  | f + 1, some i => i :: follow nxt f (nxt i)

/-- the same line read off the pointer model: chains along `nextCell` (checking every `cell` back-pointer),
    free list along `prev`, order list along `next` -/
def whiteBoxPtr (t : Ptr.PTable) : String :=
  let chainOf (b : Nat) : List Nat := follow (fun i => (t.items i).nextCell) (t.ipb * t.blocks + 1) (t.heads b)
  let cellsOk (b : Nat) : Bool :=
    let l := chainOf b
    (l.zip (Ptr.CellRef.bucket b :: l.map Ptr.CellRef.nextOf)).all (fun p => (t.items p.1).cell == p.2)
  let bs := if t.allocated then (List.range t.cap).filter (fun b => (t.heads b).isSome) else []
  let chains := bs.map (fun b => s!"{b}:{idsStr (chainOf b)}")
  let free := follow (fun i => (t.items i).prev) (t.ipb * t.blocks + 1) t.freeItem
  let order := match t.order with | some l => idsStr l | none => "FAULT"
  s!"wb cap={t.cap} alloc={if t.allocated then 1 else 0} blocks={t.blocks} " ++
  s!"chains={if chains.isEmpty then "-" else "|".intercalate chains} free={idsStr free} order={order}" ++
  (if bs.all cellsOk then "" else " CELL-MISMATCH") ++
  (if t.orderBack == t.order.map List.reverse then "" else " BACK-MISMATCH")

def tab (s : String) : Option Bool :=
  if s = "0" then some false else if s = "1" then some true else none

def parseOp (ws : List String) : Option Op :=
  match ws with
  | ["new", t, c] => do pure (.construct (← tab t) (← c.toNat?))
  | ["newdef", t] => do pure (.constructDefault (← tab t))
  | ["copy", t] => do pure (.copyFrom (← tab t))
  | ["assign", t] => do pure (.assign (← tab t))
  | ["append", t, k, v] => do pure (.append (← tab t) (← k.toNat?) (← v.toNat?))
  | ["prepend", t, k, v] => do pure (.prepend (← tab t) (← k.toNat?) (← v.toNat?))
  | ["insert", t, p, k, v] => do pure (.insert (← tab t) (← p.toNat?) (← k.toNat?) (← v.toNat?))
  | ["remove", t, k] => do pure (.removeKey (← tab t) (← k.toNat?))
  | ["removeAt", t, p] => do pure (.removeAt (← tab t) (← p.toNat?))
  | ["removeVal", t, p] => do pure (.removeValue (← tab t) (← p.toNat?))
  | ["removeFront", t] => do pure (.removeFront (← tab t))
  | ["removeBack", t] => do pure (.removeBack (← tab t))
  | ["clear", t] => do pure (.clear (← tab t))
  | ["swap", t] => do pure (.swap (← tab t))
  | ["appendAll", t] => do pure (.appendAll (← tab t))
  | ["removeAll", t] => do pure (.removeAll (← tab t))
  | ["setval", t, k, v] => do pure (.setValue (← tab t) (← k.toNat?) (← v.toNat?))
  -- queries as op lines; the `…C` lines run the const overloads (`front() const`, `Iterator operator++() const`, …) in
  -- the harness: same fields read, same model op
  | ["front", t] => do pure (.front (← tab t))
  | ["frontC", t] => do pure (.front (← tab t))
  | ["back", t] => do pure (.back (← tab t))
  | ["backC", t] => do pure (.back (← tab t))
  | ["iterate", t] => do pure (.iterate (← tab t))
  | ["iterateC", t] => do pure (.iterate (← tab t))
  | ["iterBack", t] => do pure (.iterBack (← tab t))
  | ["iterBackC", t] => do pure (.iterBack (← tab t))
  | ["entryAt", t, p] => do pure (.entryAt (← tab t) (← p.toNat?))
  | ["notEqual", t, u] => do pure (.notEqual (← tab t) (← tab u))
  | ["assignSelf", t] => do pure (.assignSelf (← tab t))
  | ["swapSelf", t] => do pure (.swapSelf (← tab t))
  | ["appendSelf", t] => do pure (.appendSelf (← tab t))
  | ["removeSelf", t] => do pure (.removeSelf (← tab t))
  | _ => none

def parseKind (s : String) : Option Kind :=
  if s = "map" then some .map else if s = "set" then some .set else if s = "pool" then some .pool else none

def stepLine (d : DState) (ws : List String) : DState × String :=
  match ws with
  | ["reset"] => (dinit, obs dinit "unit")
  | ["cfg", k, m, n] =>
    match parseKind k, m.toNat?, n.toNat? with
    | some k, some m, some n =>
      let d' : DState := dstart k m n
      (d', obs d' "unit")
    | _, _, _ => (d, "bad-op")
  | ["wb", t] =>
    match tab t with
    | some t => (d, both (whiteBox (d.st.get t)) (whiteBoxPtr (d.pst.get t)))
    | none => (d, "bad-op")
  | ["origin", n] =>
    -- the form in which the String-key build materialises key arguments: not observable
    match n.toNat? with
    | some _ => (d, obs d "unit")
    | none => (d, "bad-op")
  | ["hashnum", w, sg, x] =>
    match w.toNat?, sg.toNat?, x.toNat? with
    | some w, some sg, some x =>
      -- the overload the harness selects by the argument type `int<w>` / `uint<w>`, as translated from Base.hpp
      match Nstd.Generated.HashFn.overloads.find? (fun o => o.1 == (if sg != 0 then "int" else "uint") ++ toString w) with
      | some o => if x < 2 ^ w then (d, s!"num {o.2.2.2 x}") else (d, "bad-op")
      | none => (d, "bad-op")
    | _, _, _ => (d, "bad-op")
  | ["hashptr", x] =>
    match x.toNat?, Nstd.Generated.HashFn.overloads.find? (fun o => o.1 == "const void*") with
    | some x, some o => if x < 2 ^ o.2.1 then (d, s!"num {o.2.2.2 x}") else (d, "bad-op")
    | _, _ => (d, "bad-op")
  | ["hashstr", x] =>
    match fromHex x with
    | some bs =>
      (d, match hashText bs with
          | some v => s!"num {v}"
          | none => "FAULT")
    | none => (d, "bad-op")
  | _ =>
    match parseOp ws with
    | none => (d, "bad-op")
    | some op =>
      match step d.kind (hashFn d.mode) d.st op, Ptr.gstep d.kind (hashFn d.mode) d.pst op with
      | some (st', o), some (pst', po) =>
        let d' := { d with st := st', pst := pst' }
        (d', if o = po then obs d' (resStr o) else s!"MODEL-MISMATCH result list={outStr o} ptr={outStr po}")
      | none, none => (d, "bad-op")
      | some _, none => (d, "MODEL-MISMATCH ptr model rejects")
      | none, some _ => (d, "MODEL-MISMATCH list model rejects")

end Nstd.Hash

def main : IO Unit := Nstd.Common.ioLoop Nstd.Hash.dinit Nstd.Hash.stepLine
