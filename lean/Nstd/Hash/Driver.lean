import Nstd.Common.Basic
import Nstd.Hash.Model
/-
  Line protocol of the Hash area (HashMap / HashSet / PoolMap).

    cfg <map|set|pool> <hashmode> <D>    choose container, hash function of the key type, key domain 0..D-1;
                                         both tables are default-constructed
    new t cap | newdef t | copy t | assign t | append t k v | prepend t k v | insert t pos k v
    remove t k | removeAt t pos | removeVal t pos | removeFront t | removeBack t | clear t | swap t
    appendAll t | removeAll t | setval t k v | hashstr <hex>
    wb t                                 white-box: capacity, bucket chains, free list, order list as item ids

  After every op one line:
     <result> || <table 0> || <table 1> || eq=<t0==t1> <t1==t0> <t0==t0>
  with  <table> = n=<size> e=<isEmpty> it=<k:v,...|-> f=<find(0)>,<find(1)>,... c=<contains bits> fr=<front|-> bk=<back|->
  Everything printed is obtained through `step` (queries are ops of the model).
  An op the container does not have / an invalid iterator prints `bad-op` (state unchanged).
-/
open Nstd.Common
namespace Nstd.Hash

structure DState where
  kind : Kind
  mode : Nat
  dom : Nat
  st : State

def hashFn (mode : Nat) (k : Nat) : Nat :=
  if mode = 0 then k
  else if mode = 1 then 7
  else if mode = 2 then k % 2
  else if mode = 3 then 2 ^ 64 - 1 - k      -- (usize)~k: huge hash codes
  else k / 2

def dinit : DState := ⟨Kind.map, 0, 6, init⟩

def outStr : Out → String
  | .unit => "unit"
  | .num n => s!"num {n}"
  | .onum (some n) => s!"{n}"
  | .onum none => "-"
  | .flag b => if b then "1" else "0"
  | .entries l => if l.isEmpty then "-" else ",".intercalate (l.map (fun e => s!"{e.1}:{e.2}"))

def query (d : DState) (op : Op) : String :=
  match step d.kind (hashFn d.mode) d.st op with
  | some (_, o) => outStr o
  | none => "-"

def numOnly (s : String) : String := if s.startsWith "num " then (s.drop 4).toString else s

def obsTable (d : DState) (t : Bool) : String :=
  let keys := List.range d.dom
  s!"n={numOnly (query d (.size t))} e={query d (.isEmpty t)} it={query d (.iterate t)} " ++
  s!"f={",".intercalate (keys.map (fun k => query d (.find t k)))} " ++
  s!"c={String.join (keys.map (fun k => query d (.contains t k)))} " ++
  s!"fr={numOnly (query d (.front t))} bk={numOnly (query d (.back t))}"

def obs (d : DState) (res : String) : String :=
  s!"{res} || {obsTable d false} || {obsTable d true} || " ++
  s!"eq={query d (.equal false true)} {query d (.equal true false)} {query d (.equal false false)}"

def idsStr (l : List Nat) : String := if l.isEmpty then "-" else ",".intercalate (l.map toString)

/-- white-box line: the stored chains, free list and order list as item ids (block * 4 + slot) -/
def whiteBox (t : Table) : String :=
  let chains := if t.allocated then
      (List.range t.cap).filterMap (fun b => if (t.data b).isEmpty then none else some s!"{b}:{idsStr (t.data b)}")
    else []
  s!"wb cap={t.cap} alloc={if t.allocated then 1 else 0} blocks={t.blocks} " ++
  s!"chains={if chains.isEmpty then "-" else "|".intercalate chains} free={idsStr t.free} order={idsStr t.order}"

def tab (s : String) : Option Bool :=
  if s = "0" then some false else if s = "1" then some true else none

def parseOp (ws : List String) : Option Op :=
  match ws with
  | ["new", t, c] => do pure (.construct (← tab t) (← c.toNat?))
  | ["newdef", t] => do pure (.constructDefault (← tab t))
  | ["copy", t] => do pure (.copyFrom (← tab t))
  | ["assign", t] => do pure (.assign (← tab t))
  | ["append", t, k, v] => do pure (.append (← tab t) (← k.toNat?) (← v.toNat?))
  | ["prepend", t, k, v] => do pure (.prepend (← tab t) (← k.toNat?) (← v.toNat?))
  | ["insert", t, p, k, v] => do pure (.insert (← tab t) (← p.toNat?) (← k.toNat?) (← v.toNat?))
  | ["remove", t, k] => do pure (.removeKey (← tab t) (← k.toNat?))
  | ["removeAt", t, p] => do pure (.removeAt (← tab t) (← p.toNat?))
  | ["removeVal", t, p] => do pure (.removeValue (← tab t) (← p.toNat?))
  | ["removeFront", t] => do pure (.removeFront (← tab t))
  | ["removeBack", t] => do pure (.removeBack (← tab t))
  | ["clear", t] => do pure (.clear (← tab t))
  | ["swap", t] => do pure (.swap (← tab t))
  | ["appendAll", t] => do pure (.appendAll (← tab t))
  | ["removeAll", t] => do pure (.removeAll (← tab t))
  | ["setval", t, k, v] => do pure (.setValue (← tab t) (← k.toNat?) (← v.toNat?))
  | _ => none

def parseKind (s : String) : Option Kind :=
  if s = "map" then some .map else if s = "set" then some .set else if s = "pool" then some .pool else none

def stepLine (d : DState) (ws : List String) : DState × String :=
  match ws with
  | ["reset"] => (dinit, obs dinit "unit")
  | ["cfg", k, m, n] =>
    match parseKind k, m.toNat?, n.toNat? with
    | some k, some m, some n =>
      let d' : DState := ⟨k, m, n, init⟩
      (d', obs d' "unit")
    | _, _, _ => (d, "bad-op")
  | ["wb", t] =>
    match tab t with
    | some t => (d, whiteBox (d.st.get t))
    | none => (d, "bad-op")
  | ["hashstr", x] =>
    match fromHex x with
    | some bs =>
      (d, match hashString (bs ++ [0]) bs.length with
          | some v => s!"num {v}"
          | none => "FAULT")
    | none => (d, "bad-op")
  | _ =>
    match parseOp ws with
    | none => (d, "bad-op")
    | some op =>
      match step d.kind (hashFn d.mode) d.st op with
      | some (st', o) =>
        let d' := { d with st := st' }
        (d', obs d' (outStr o))
      | none => (d, "bad-op")

end Nstd.Hash

def main : IO Unit := Nstd.Common.ioLoop Nstd.Hash.dinit Nstd.Hash.stepLine
