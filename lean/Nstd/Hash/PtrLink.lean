import Nstd.Hash.PtrRefine
/-
  Simulation of item allocation and of linking a new item (bucket chain + order list).
-/
namespace Nstd.Hash.Ptr
open Nstd.Hash

/-- closes goals that are `rfl` or have been simplified to `True` -/
macro "triv" : tactic => `(tactic| first | trivial | rfl)

theorem upd_apply {α : Type} (f : Nat → α) (i : Nat) (x : α) (j : Nat) : upd f i x j = if j = i then x else f j := rfl

/-! ### allocation -/

/-- the fill loop of a new block against `pushRange` -/
theorem pushFree_spec (n : Nat) : ∀ (t : PTable) (first : Nat) (l : List Nat),
    FreeL t.items t.freeItem l → (∀ x ∈ l, x < first) →
    FreeL (t.pushFree first n).items (t.pushFree first n).freeItem (Table.pushRange first n l) ∧
    (∀ j, ((t.pushFree first n).items j).key = (t.items j).key ∧ ((t.pushFree first n).items j).value = (t.items j).value ∧
          ((t.pushFree first n).items j).cell = (t.items j).cell ∧ ((t.pushFree first n).items j).nextCell = (t.items j).nextCell ∧
          ((t.pushFree first n).items j).next = (t.items j).next) ∧
    (∀ j, j < first → ((t.pushFree first n).items j).prev = (t.items j).prev) ∧
    (t.pushFree first n).self = t.self ∧ (t.pushFree first n).cap = t.cap ∧
    (t.pushFree first n).allocated = t.allocated ∧ (t.pushFree first n).heads = t.heads ∧
    (t.pushFree first n).begin = t.begin ∧ (t.pushFree first n).endPrev = t.endPrev ∧
    (t.pushFree first n).size = t.size ∧ (t.pushFree first n).blocks = t.blocks ∧
    (t.pushFree first n).ipb = t.ipb ∧ (t.pushFree first n).dcap = t.dcap := by
  induction n with
  | zero =>
    intro t first l hf _
    exact ⟨hf, fun j => ⟨rfl, rfl, rfl, rfl, rfl⟩, fun j _ => rfl, rfl, rfl, rfl, rfl, rfl, rfl, rfl, rfl, rfl, rfl⟩
  | succ n ih =>
    intro t first l hf hlt
    simp only [PTable.pushFree, Table.pushRange]
    have hstep : FreeL ({ t.setPrev first t.freeItem with freeItem := some first } : PTable).items
        ({ t.setPrev first t.freeItem with freeItem := some first } : PTable).freeItem (first :: l) := by
      refine ⟨rfl, ?_⟩
      simp only [PTable.setPrev, upd_apply, if_true]
      apply (FreeL_congr _ _ _).2 hf
      intro j hj
      have : j ≠ first := by have := hlt j hj; omega
      simp [upd_apply, this]
    obtain ⟨i1, i2, i3, i4, i5, i6, i7, i8, i9, i10, i11, i12, i13⟩ := ih _ (first + 1) (first :: l) hstep
      (by
        intro x hx
        rcases List.mem_cons.1 hx with e | e
        · omega
        · have := hlt x e; omega)
    refine ⟨i1, fun j => ?_, fun j hj => ?_, i4, i5, i6, i7, i8, i9, i10, i11, i12, i13⟩
    · rw [(i2 j).1, (i2 j).2.1, (i2 j).2.2.1, (i2 j).2.2.2.1, (i2 j).2.2.2.2]
      by_cases e : j = first <;> simp [PTable.setPrev, upd_apply, e]
    · rw [i3 j (by omega)]
      have : j ≠ first := by omega
      simp [PTable.setPrev, upd_apply, this]

theorem alloc_sim (kind : Kind) (pt : PTable) (t : Table)
    (hfree : FreeL pt.items pt.freeItem t.free) (hb : pt.blocks = t.blocks) (hk : pt.ipb = t.ipb) (hpos : 0 < t.ipb) :
    (pt.allocItem kind).1 = (t.allocItem kind).1 ∧
    FreeL (pt.allocItem kind).2.items (pt.allocItem kind).2.freeItem (t.allocItem kind).2.1 ∧
    (pt.allocItem kind).2.blocks = (t.allocItem kind).2.2 ∧
    (∀ j, ((pt.allocItem kind).2.items j).key = (pt.items j).key ∧ ((pt.allocItem kind).2.items j).value = (pt.items j).value ∧
          ((pt.allocItem kind).2.items j).cell = (pt.items j).cell ∧ ((pt.allocItem kind).2.items j).nextCell = (pt.items j).nextCell ∧
          ((pt.allocItem kind).2.items j).next = (pt.items j).next) ∧
    (∀ j, j < t.ipb * t.blocks → ((pt.allocItem kind).2.items j).prev = (pt.items j).prev) ∧
    (pt.allocItem kind).2.self = pt.self ∧ (pt.allocItem kind).2.cap = pt.cap ∧
    (pt.allocItem kind).2.allocated = pt.allocated ∧ (pt.allocItem kind).2.heads = pt.heads ∧
    (pt.allocItem kind).2.begin = pt.begin ∧ (pt.allocItem kind).2.endPrev = pt.endPrev ∧
    (pt.allocItem kind).2.size = pt.size ∧ (pt.allocItem kind).2.ipb = pt.ipb ∧ (pt.allocItem kind).2.dcap = pt.dcap := by
  unfold PTable.allocItem Table.allocItem
  cases hf : t.free with
  | cons f rest =>
    rw [hf] at hfree
    simp only [FreeL] at hfree
    simp only [hfree.1]
    exact ⟨by triv, hfree.2, hb, fun j => ⟨by triv, by triv, by triv, by triv, by triv⟩, fun j _ => by triv, by triv, by triv, by triv, by triv,
      by triv, by triv, by triv, by triv, by triv⟩
  | nil =>
    rw [hf] at hfree
    simp only [FreeL] at hfree
    have hnil : FreeL pt.items pt.freeItem [] := hfree
    simp only [hfree, hb, hk]
    by_cases hkind : kind = Kind.pool
    · simp only [hkind, if_true]
      obtain ⟨i1, i2, i3, i4, i5, i6, i7, i8, i9, i10, i11, i12, i13⟩ :=
        pushFree_spec (t.ipb - 1 + 1) pt (t.ipb * t.blocks) [] hnil (by simp)
      rw [pushRange_succ_last] at i1
      simp only [FreeL] at i1
      refine ⟨by triv, ?_, by triv, fun j => i2 j, fun j hj => i3 j hj, i4, i5, i6, i7, i8, i9, i10, i12.trans hk, i13⟩
      exact i1.2
    · simp only [hkind, if_false]
      obtain ⟨i1, i2, i3, i4, i5, i6, i7, i8, i9, i10, i11, i12, i13⟩ :=
        pushFree_spec (t.ipb - 1) pt (t.ipb * t.blocks + 1) [] hnil (by simp)
      exact ⟨by triv, i1, by triv, fun j => i2 j, fun j hj => i3 j (by omega), i4, i5, i6, i7, i8, i9, i10, i12.trans hk, i13⟩

/-! ### pushing the new item to the front of its bucket chain -/

theorem linkChain_spec (kind : Kind) (p1 : PTable) (d : Nat → List Nat) (id c k v : Nat)
    (hch : ∀ b, Chain p1.items b (p1.heads b) (d b))
    (hid : ∀ b, id ∉ d b)
    (hnd : ∀ b, (d b).Nodup)
    (hdisj : ∀ b b' j, j ∈ d b → j ∈ d b' → b = b') :
    (∀ b, Chain (p1.linkChain kind id c k v).items b ((p1.linkChain kind id c k v).heads b) (upd d c (id :: d c) b)) ∧
    (∀ j, ((p1.linkChain kind id c k v).items j).prev = (p1.items j).prev ∧
          ((p1.linkChain kind id c k v).items j).next = (p1.items j).next) ∧
    (∀ j, j ≠ id → ((p1.linkChain kind id c k v).items j).key = (p1.items j).key ∧
                    ((p1.linkChain kind id c k v).items j).value = (p1.items j).value) ∧
    ((p1.linkChain kind id c k v).items id).key = k ∧
    ((p1.linkChain kind id c k v).items id).value = Table.storedValue kind v ∧
    (p1.linkChain kind id c k v).self = p1.self ∧ (p1.linkChain kind id c k v).cap = p1.cap ∧
    (p1.linkChain kind id c k v).allocated = p1.allocated ∧ (p1.linkChain kind id c k v).begin = p1.begin ∧
    (p1.linkChain kind id c k v).endPrev = p1.endPrev ∧ (p1.linkChain kind id c k v).size = p1.size ∧
    (p1.linkChain kind id c k v).freeItem = p1.freeItem ∧ (p1.linkChain kind id c k v).blocks = p1.blocks ∧
    (p1.linkChain kind id c k v).ipb = p1.ipb ∧ (p1.linkChain kind id c k v).dcap = p1.dcap := by
  have hc := hch c
  unfold PTable.linkChain
  cases hdc : d c with
  | nil =>
    rw [hdc] at hc
    simp only [Chain, GSeg] at hc
    simp only [hc]
    refine ⟨?_, fun j => ?_, fun j hj => ?_, by simp [upd_apply], by simp [upd_apply], (by triv), (by triv), (by triv), (by triv), (by triv), (by triv), (by triv), (by triv), (by triv), (by triv)⟩
    · intro b
      by_cases hb : b = c
      · subst hb
        simp [Chain, GSeg, upd_apply]
      · simp only [upd_apply, hb, if_false]
        apply (GSeg_congr _ _ _ _ _ _ _).2 (hch b)
        intro j hj
        have : j ≠ id := fun e => hid b (e ▸ hj)
        simp [upd_apply, this]
    · by_cases e : j = id <;> simp [upd_apply, e]
    · simp [upd_apply, hj]
  | cons n r =>
    rw [hdc] at hc
    simp only [Chain, GSeg] at hc
    obtain ⟨hh, hcell, hrest⟩ := hc
    have hnid : n ≠ id := fun e => hid c (by rw [hdc, e]; exact List.mem_cons_self)
    have hnd' := hnd c
    rw [hdc, List.nodup_cons] at hnd'
    simp only [hh, PTable.setCell]
    refine ⟨?_, fun j => ?_, fun j hj => ?_, ?_, ?_, (by triv), (by triv), (by triv), (by triv), (by triv), (by triv), (by triv), (by triv), (by triv), (by triv)⟩
    · intro b
      by_cases hb : b = c
      · subst hb
        simp only [upd_apply, if_true, Chain, GSeg, hnid, Ne.symm hnid, if_false, true_and]
        apply (GSeg_congr _ _ _ _ _ _ _).2 hrest
        intro j hj
        have h1 : j ≠ n := fun e => hnd'.1 (e ▸ hj)
        have h2 : j ≠ id := fun e => hid b (by rw [hdc, ← e]; exact List.mem_cons_of_mem _ hj)
        simp [h1, h2]
      · simp only [upd_apply, hb, if_false]
        apply (GSeg_congr _ _ _ _ _ _ _).2 (hch b)
        intro j hj
        have h1 : j ≠ n := fun e => hb (hdisj b c j hj (by rw [hdc, e]; exact List.mem_cons_self))
        have h2 : j ≠ id := fun e => hid b (e ▸ hj)
        simp [upd_apply, h1, h2]
    · by_cases e : j = id
      · subst e; simp [upd_apply, Ne.symm hnid]
      · by_cases e' : j = n
        · subst e'; simp [upd_apply, e]
        · simp [upd_apply, e, e']
    · by_cases e' : j = n
      · subst e'; simp [upd_apply, hj]
      · simp [upd_apply, hj, e']
    · simp [upd_apply, hnid, Ne.symm hnid]
    · simp [upd_apply, hnid, Ne.symm hnid]

end Nstd.Hash.Ptr
