import Nstd.Hash.PtrRefine
/-
  Simulation of item allocation and of linking a new item (bucket chain + order list).
-/
namespace Nstd.Hash.Ptr
open Nstd.Hash

/-- closes goals that are `rfl` or have been simplified to `True` -/
macro "triv" : tactic => `(tactic| first | trivial | rfl)

theorem upd_apply {α : Type} (f : Nat → α) (i : Nat) (x : α) (j : Nat) : upd f i x j = if j = i then x else f j := rfl

/-! ### allocation -/

theorem alloc_sim (kind : Kind) (pt : PTable) (t : Table)
    (hfree : FreeL pt.items pt.freeItem t.free) (hb : pt.blocks = t.blocks) :
    (pt.allocItem kind).1 = (t.allocItem kind).1 ∧
    FreeL (pt.allocItem kind).2.items (pt.allocItem kind).2.freeItem (t.allocItem kind).2.1 ∧
    (pt.allocItem kind).2.blocks = (t.allocItem kind).2.2 ∧
    (∀ j, ((pt.allocItem kind).2.items j).key = (pt.items j).key ∧ ((pt.allocItem kind).2.items j).value = (pt.items j).value ∧
          ((pt.allocItem kind).2.items j).cell = (pt.items j).cell ∧ ((pt.allocItem kind).2.items j).nextCell = (pt.items j).nextCell ∧
          ((pt.allocItem kind).2.items j).next = (pt.items j).next) ∧
    (∀ j, j < 4 * t.blocks → ((pt.allocItem kind).2.items j).prev = (pt.items j).prev) ∧
    (pt.allocItem kind).2.self = pt.self ∧ (pt.allocItem kind).2.cap = pt.cap ∧
    (pt.allocItem kind).2.allocated = pt.allocated ∧ (pt.allocItem kind).2.heads = pt.heads ∧
    (pt.allocItem kind).2.begin = pt.begin ∧ (pt.allocItem kind).2.endPrev = pt.endPrev ∧
    (pt.allocItem kind).2.size = pt.size := by
  unfold PTable.allocItem Table.allocItem
  cases hf : t.free with
  | cons f rest =>
    rw [hf] at hfree
    simp only [FreeL] at hfree
    simp only [hfree.1]
    exact ⟨(by triv), hfree.2, hb, fun j => ⟨(by triv), (by triv), (by triv), (by triv), (by triv)⟩, fun j _ => (by triv), (by triv), (by triv), (by triv), (by triv), (by triv), (by triv), (by triv)⟩
  | nil =>
    rw [hf] at hfree
    simp only [FreeL] at hfree
    simp only [hfree, hb]
    by_cases hk : kind = Kind.pool
    · simp only [hk, if_true]
      refine ⟨(by triv), ?_, (by triv), ?_, ?_, (by triv), (by triv), (by triv), (by triv), (by triv), (by triv), (by triv)⟩
      · simp [FreeL, PTable.setPrev, upd_apply]
      · intro j
        simp only [PTable.setPrev, upd_apply]
        by_cases h0 : j = 4 * t.blocks <;> by_cases h1 : j = 4 * t.blocks + 1 <;>
          by_cases h2 : j = 4 * t.blocks + 2 <;> by_cases h3 : j = 4 * t.blocks + 3 <;> simp [h0, h1, h2, h3]
      · intro j hj
        simp only [PTable.setPrev, upd_apply]
        have h0 : j ≠ 4 * t.blocks := by omega
        have h1 : j ≠ 4 * t.blocks + 1 := by omega
        have h2 : j ≠ 4 * t.blocks + 2 := by omega
        have h3 : j ≠ 4 * t.blocks + 3 := by omega
        simp [h0, h1, h2, h3]
    · simp only [hk, if_false]
      refine ⟨(by triv), ?_, (by triv), ?_, ?_, (by triv), (by triv), (by triv), (by triv), (by triv), (by triv), (by triv)⟩
      · simp [FreeL, PTable.setPrev, upd_apply]
      · intro j
        simp only [PTable.setPrev, upd_apply]
        by_cases h1 : j = 4 * t.blocks + 1 <;>
          by_cases h2 : j = 4 * t.blocks + 2 <;> by_cases h3 : j = 4 * t.blocks + 3 <;> simp [h1, h2, h3]
      · intro j hj
        simp only [PTable.setPrev, upd_apply]
        have h1 : j ≠ 4 * t.blocks + 1 := by omega
        have h2 : j ≠ 4 * t.blocks + 2 := by omega
        have h3 : j ≠ 4 * t.blocks + 3 := by omega
        simp [h1, h2, h3]

/-! ### pushing the new item to the front of its bucket chain -/

theorem linkChain_spec (kind : Kind) (p1 : PTable) (d : Nat → List Nat) (id c k v : Nat)
    (hch : ∀ b, Chain p1.items b (p1.heads b) (d b))
    (hid : ∀ b, id ∉ d b)
    (hnd : ∀ b, (d b).Nodup)
    (hdisj : ∀ b b' j, j ∈ d b → j ∈ d b' → b = b') :
    (∀ b, Chain (p1.linkChain kind id c k v).items b ((p1.linkChain kind id c k v).heads b) (upd d c (id :: d c) b)) ∧
    (∀ j, ((p1.linkChain kind id c k v).items j).prev = (p1.items j).prev ∧
          ((p1.linkChain kind id c k v).items j).next = (p1.items j).next) ∧
    (∀ j, j ≠ id → ((p1.linkChain kind id c k v).items j).key = (p1.items j).key ∧
                    ((p1.linkChain kind id c k v).items j).value = (p1.items j).value) ∧
    ((p1.linkChain kind id c k v).items id).key = k ∧
    ((p1.linkChain kind id c k v).items id).value = Table.storedValue kind v ∧
    (p1.linkChain kind id c k v).self = p1.self ∧ (p1.linkChain kind id c k v).cap = p1.cap ∧
    (p1.linkChain kind id c k v).allocated = p1.allocated ∧ (p1.linkChain kind id c k v).begin = p1.begin ∧
    (p1.linkChain kind id c k v).endPrev = p1.endPrev ∧ (p1.linkChain kind id c k v).size = p1.size ∧
    (p1.linkChain kind id c k v).freeItem = p1.freeItem ∧ (p1.linkChain kind id c k v).blocks = p1.blocks := by
  have hc := hch c
  unfold PTable.linkChain
  cases hdc : d c with
  | nil =>
    rw [hdc] at hc
    simp only [Chain, GSeg] at hc
    simp only [hc]
    refine ⟨?_, fun j => ?_, fun j hj => ?_, by simp [upd_apply], by simp [upd_apply], (by triv), (by triv), (by triv), (by triv), (by triv), (by triv), (by triv), (by triv)⟩
    · intro b
      by_cases hb : b = c
      · subst hb
        simp [Chain, GSeg, upd_apply]
      · simp only [upd_apply, hb, if_false]
        apply (GSeg_congr _ _ _ _ _ _ _).2 (hch b)
        intro j hj
        have : j ≠ id := fun e => hid b (e ▸ hj)
        simp [upd_apply, this]
    · by_cases e : j = id <;> simp [upd_apply, e]
    · simp [upd_apply, hj]
  | cons n r =>
    rw [hdc] at hc
    simp only [Chain, GSeg] at hc
    obtain ⟨hh, hcell, hrest⟩ := hc
    have hnid : n ≠ id := fun e => hid c (by rw [hdc, e]; exact List.mem_cons_self)
    have hnd' := hnd c
    rw [hdc, List.nodup_cons] at hnd'
    simp only [hh, PTable.setCell]
    refine ⟨?_, fun j => ?_, fun j hj => ?_, ?_, ?_, (by triv), (by triv), (by triv), (by triv), (by triv), (by triv), (by triv), (by triv)⟩
    · intro b
      by_cases hb : b = c
      · subst hb
        simp only [upd_apply, if_true, Chain, GSeg, hnid, Ne.symm hnid, if_false, true_and]
        apply (GSeg_congr _ _ _ _ _ _ _).2 hrest
        intro j hj
        have h1 : j ≠ n := fun e => hnd'.1 (e ▸ hj)
        have h2 : j ≠ id := fun e => hid b (by rw [hdc, ← e]; exact List.mem_cons_of_mem _ hj)
        simp [h1, h2]
      · simp only [upd_apply, hb, if_false]
        apply (GSeg_congr _ _ _ _ _ _ _).2 (hch b)
        intro j hj
        have h1 : j ≠ n := fun e => hb (hdisj b c j hj (by rw [hdc, e]; exact List.mem_cons_self))
        have h2 : j ≠ id := fun e => hid b (e ▸ hj)
        simp [upd_apply, h1, h2]
    · by_cases e : j = id
      · subst e; simp [upd_apply, Ne.symm hnid]
      · by_cases e' : j = n
        · subst e'; simp [upd_apply, e]
        · simp [upd_apply, e, e']
    · by_cases e' : j = n
      · subst e'; simp [upd_apply, hj]
      · simp [upd_apply, hj, e']
    · simp [upd_apply, hnid, Ne.symm hnid]
    · simp [upd_apply, hnid, Ne.symm hnid]

end Nstd.Hash.Ptr
