import Nstd.Hash.PtrInsert
/-
  Simulation of `remove(iterator)`: unlink from the bucket chain through the `cell` back-pointer,
  unlink from the order list, push on the free list.
-/
namespace Nstd.Hash.Ptr
open Nstd.Hash

theorem unlinkChain_fields (t : PTable) (item : Nat) :
    (∀ j, (t.items item).cell ≠ .nextOf j → ((t.unlinkChain item).items j).nextCell = (t.items j).nextCell) ∧
    (∀ j, (t.items item).cell = .nextOf j → ((t.unlinkChain item).items j).nextCell = (t.items item).nextCell) ∧
    (∀ j, (t.items item).nextCell ≠ some j → ((t.unlinkChain item).items j).cell = (t.items j).cell) ∧
    (∀ j, (t.items item).nextCell = some j → ((t.unlinkChain item).items j).cell = (t.items item).cell) ∧
    (∀ b, (t.items item).cell = .bucket b → (t.unlinkChain item).heads b = (t.items item).nextCell) ∧
    (∀ b, (t.items item).cell ≠ .bucket b → (t.unlinkChain item).heads b = t.heads b) ∧
    (∀ j, ((t.unlinkChain item).items j).prev = (t.items j).prev ∧ ((t.unlinkChain item).items j).next = (t.items j).next ∧
          ((t.unlinkChain item).items j).key = (t.items j).key ∧ ((t.unlinkChain item).items j).value = (t.items j).value) ∧
    (t.unlinkChain item).self = t.self ∧ (t.unlinkChain item).cap = t.cap ∧ (t.unlinkChain item).allocated = t.allocated ∧
    (t.unlinkChain item).begin = t.begin ∧ (t.unlinkChain item).endPrev = t.endPrev ∧ (t.unlinkChain item).size = t.size ∧
    (t.unlinkChain item).freeItem = t.freeItem ∧ (t.unlinkChain item).blocks = t.blocks ∧
    (t.unlinkChain item).ipb = t.ipb ∧ (t.unlinkChain item).dcap = t.dcap := by
  unfold PTable.unlinkChain
  cases hN : (t.items item).nextCell with
  | none =>
    cases hC : (t.items item).cell with
    | bucket b => (simp only [PTable.writeCell, PTable.setCell, hN, hC, upd_apply]; and_intros <;> (try intro j) <;> (try intro hj) <;> grind)
    | nextOf c => (simp only [PTable.writeCell, PTable.setCell, hN, hC, upd_apply]; and_intros <;> (try intro j) <;> (try intro hj) <;> grind)
  | some n =>
    cases hC : (t.items item).cell with
    | bucket b => (simp only [PTable.writeCell, PTable.setCell, hN, hC, upd_apply]; and_intros <;> (try intro j) <;> (try intro hj) <;> grind)
    | nextOf c => (simp only [PTable.writeCell, PTable.setCell, hN, hC, upd_apply]; and_intros <;> (try intro j) <;> (try intro hj) <;> grind)

theorem unlinkOrder_fields (t : PTable) (item : Nat) :
    (∀ j, (t.items item).prev ≠ some j → ((t.unlinkOrder item).items j).next = (t.items j).next) ∧
    (∀ j, (t.items item).prev = some j → ((t.unlinkOrder item).items j).next = (t.items item).next) ∧
    (∀ j, (t.items item).next ≠ .item j → ((t.unlinkOrder item).items j).prev = (t.items j).prev) ∧
    (∀ j, (t.items item).next = .item j → ((t.unlinkOrder item).items j).prev = (t.items item).prev) ∧
    (t.unlinkOrder item).begin = (if (t.items item).prev = none then (t.items item).next else t.begin) ∧
    (t.unlinkOrder item).endPrev = (match (t.items item).next with | .item _ => t.endPrev | .stl _ => (t.items item).prev) ∧
    (∀ j, ((t.unlinkOrder item).items j).cell = (t.items j).cell ∧ ((t.unlinkOrder item).items j).nextCell = (t.items j).nextCell ∧
          ((t.unlinkOrder item).items j).key = (t.items j).key ∧ ((t.unlinkOrder item).items j).value = (t.items j).value) ∧
    (t.unlinkOrder item).self = t.self ∧ (t.unlinkOrder item).cap = t.cap ∧ (t.unlinkOrder item).allocated = t.allocated ∧
    (t.unlinkOrder item).heads = t.heads ∧ (t.unlinkOrder item).size = t.size - 1 ∧
    (t.unlinkOrder item).freeItem = t.freeItem ∧ (t.unlinkOrder item).blocks = t.blocks ∧
    (t.unlinkOrder item).ipb = t.ipb ∧ (t.unlinkOrder item).dcap = t.dcap := by
  unfold PTable.unlinkOrder
  cases hP : (t.items item).prev with
  | none =>
    cases hN : (t.items item).next with
    | item n => simp only [PTable.setNext, PTable.setPrev, PTable.setPrevOf, hP, hN, upd_apply]; grind
    | stl o => simp only [PTable.setNext, PTable.setPrev, PTable.setPrevOf, hP, hN, upd_apply]; grind
  | some p =>
    cases hN : (t.items item).next with
    | item n => simp only [PTable.setNext, PTable.setPrev, PTable.setPrevOf, hP, hN, upd_apply]; grind
    | stl o => simp only [PTable.setNext, PTable.setPrev, PTable.setPrevOf, hP, hN, upd_apply]; grind

end Nstd.Hash.Ptr

namespace Nstd.Hash.Ptr
open Nstd.Hash

theorem lastB_eq {B : Type} (bk : Nat → B) (l : List Nat) (b0 : B) :
    lastB bk b0 l = (match l.getLast? with | some x => bk x | none => b0) := by
  induction l generalizing b0 with
  | nil => rfl
  | cons x r ih =>
    simp only [lastB]
    rw [ih]
    cases r with
    | nil => rfl
    | cons y r' =>
      rw [List.getLast?_cons_cons]
      cases hg : (y :: r').getLast? with
      | none => simp at hg
      | some z => rfl

theorem erase_split (l1 l2 : List Nat) (id : Nat) (hn : (l1 ++ id :: l2).Nodup) :
    (l1 ++ id :: l2).erase id = l1 ++ l2 := by
  have hnot : id ∉ l1 := by
    intro hm
    exact (List.nodup_append.1 hn).2.2 id hm id List.mem_cons_self rfl
  rw [List.erase_append_right _ hnot]
  simp

theorem Rel.removeItem {h : Nat → Nat} {pt : PTable} {t : Table} (hr : Rel pt t) (hi : t.Inv h) (id : Nat)
    (hm : id ∈ t.order) :
    Rel (pt.removeItem id).1 (t.removeItem id) ∧ (pt.removeItem id).1.self = pt.self ∧
    ∃ l1 l2, t.order = l1 ++ id :: l2 ∧ (pt.removeItem id).2 = headP Nxt.item l2 (.stl pt.self) := by
  have ha : t.allocated = true := by
    cases hall : t.allocated with
    | true => rfl
    | false => have := hi.unalloc hall; rw [this] at hm; simp at hm
  obtain ⟨l1, l2, ho⟩ := List.append_of_mem hm
  have hmc : id ∈ t.data (t.items id).cell := (hi.chain_iff ha _ _).2 ⟨hm, rfl⟩
  obtain ⟨c1, c2, hc⟩ := List.append_of_mem hmc
  have hon : (l1 ++ id :: l2).Nodup := ho ▸ hi.order_nodup
  have hcn : (c1 ++ id :: c2).Nodup := hc ▸ hi.chain_nodup ha _
  have hon' := List.nodup_append.1 hon
  have hcn' := List.nodup_append.1 hcn
  have hid_l1 : id ∉ l1 := fun e => hon'.2.2 id e id List.mem_cons_self rfl
  have hid_l2 : id ∉ l2 := (List.nodup_cons.1 hon'.2.1).1
  have hid_c1 : id ∉ c1 := fun e => hcn'.2.2 id e id List.mem_cons_self rfl
  have hid_c2 : id ∉ c2 := (List.nodup_cons.1 hcn'.2.1).1
  -- what the item's own pointers are
  have hchain := hr.chains ha (t.items id).cell
  rw [hc] at hchain
  have hchain' := (GSeg_append some CellRef.nextOf c1 (id :: c2) _ _ _).1 hchain
  have hC : (pt.items id).cell = lastB CellRef.nextOf (.bucket (t.items id).cell) c1 := by
    have := hchain'.2; simp only [headP, GSeg] at this; exact this.2.1
  have hN : (pt.items id).nextCell = headP some c2 none := by
    have := hchain'.2; simp only [headP, GSeg] at this; exact GSeg_first some CellRef.nextOf this.2.2
  have hdll := hr.order
  rw [ho] at hdll
  have hdll' := (GSeg_append Nxt.item some l1 (id :: l2) _ _ _).1 hdll
  have hP : (pt.items id).prev = lastB some none l1 := by
    have := hdll'.2; simp only [headP, GSeg] at this; exact this.2.1
  have hNx : (pt.items id).next = headP Nxt.item l2 (.stl pt.self) := by
    have := hdll'.2; simp only [headP, GSeg] at this; exact GSeg_first Nxt.item some this.2.2
  obtain ⟨u1, u2, u3, u4, u5, u6, u7, u_self, u_cap, u_alloc, u_begin, u_endPrev, u_size, u_free, u_blocks, u_ipb, u_dcap⟩ :=
    unlinkChain_fields pt id
  obtain ⟨v1, v2, v3, v4, v_begin, v_endPrev, v7, v_self, v_cap, v_alloc, v_heads, v_size, v_free, v_blocks, v_ipb, v_dcap⟩ :=
    unlinkOrder_fields (pt.unlinkChain id) id
  simp only [(u7 id).1, (u7 id).2.1] at v1 v2 v3 v4 v_begin v_endPrev
  -- membership facts
  have hc_sub : ∀ j, j ∈ c1 ++ id :: c2 → j ∈ t.order ∧ (t.items j).cell = (t.items id).cell := by
    intro j hj; rw [← hc] at hj; exact (hi.chain_iff ha _ _).1 hj
  have hlast_c1 : ∀ x, c1.getLast? = some x → x ∈ c1 := fun x hx => List.mem_of_getLast? hx
  refine ⟨?_, by show _ = pt.self; simp only [PTable.removeItem, PTable.setPrev]; rw [v_self, u_self], l1, l2, ho, ?_⟩
  · constructor
    · show _ = t.cap; simp only [PTable.removeItem, PTable.setPrev]; rw [v_cap, u_cap, hr.cap]
    · show _ = t.allocated; simp only [PTable.removeItem, PTable.setPrev]; rw [v_alloc, u_alloc, hr.alloc]
    · show _ = t.size - 1; simp only [PTable.removeItem, PTable.setPrev]; rw [v_size, u_size, hr.size]
    · show _ = t.blocks; simp only [PTable.removeItem, PTable.setPrev]; rw [v_blocks, u_blocks, hr.blocks]
    · show _ = t.ipb; simp only [PTable.removeItem, PTable.setPrev]; rw [v_ipb, u_ipb, hr.ipb]
    · show _ = t.dcap; simp only [PTable.removeItem, PTable.setPrev]; rw [v_dcap, u_dcap, hr.dcap]
    · intro j
      simp only [PTable.removeItem, PTable.setPrev, Table.removeItem, upd_apply]
      by_cases e : j = id
      · subst e; simp only [if_true]; rw [(v7 j).2.2.1, (v7 j).2.2.2, (u7 j).2.2.1, (u7 j).2.2.2]; exact hr.kv j
      · simp only [e, if_false]; rw [(v7 j).2.2.1, (v7 j).2.2.2, (u7 j).2.2.1, (u7 j).2.2.2]; exact hr.kv j
    · intro _ b
      simp only [PTable.removeItem, PTable.setPrev, Table.removeItem]
      rw [v_heads]
      -- the last `setPrev` does not touch cell / nextCell, nor does unlinkOrder
      apply (GSeg_congr some CellRef.nextOf (fwd := fun i => ((pt.unlinkChain id).items i).nextCell)
          (back := fun i => ((pt.unlinkChain id).items i).cell) _ (fun j _ => by
            simp only [upd_apply]
            by_cases e : j = id
            · subst e; simp only [if_true]; exact ⟨(v7 j).2.1, (v7 j).1⟩
            · simp only [e, if_false]; exact ⟨(v7 j).2.1, (v7 j).1⟩) _ _ _).2
      by_cases hb : b = (t.items id).cell
      · subst hb
        simp only [upd_apply, if_true]
        rw [hc, erase_split c1 c2 id hcn]
        have := GSeg_remove some CellRef.nextOf (fwd := fun i => (pt.items i).nextCell) (back := fun i => (pt.items i).cell)
          (fwd' := fun i => ((pt.unlinkChain id).items i).nextCell) (back' := fun i => ((pt.unlinkChain id).items i).cell)
          c1 c2 id hcn _ _ none hchain
          (by
            intro j hj
            refine ⟨fun hne => u1 j ?_, u3 j ?_⟩
            · rw [hC, lastB_eq]
              cases hg : c1.getLast? with
              | none => simp
              | some x => simp only [ne_eq, CellRef.nextOf.injEq]; exact fun e => hne (by rw [hg, e])
            · rw [hN]
              cases c2 with
              | nil => simp [headP]
              | cons y r => simp only [headP, ne_eq, Option.some.injEq]; exact fun e => hcn'.2.2 j hj y (by simp) e.symm)
          (by
            intro x hx
            apply u2 x
            rw [hC, lastB_eq, hx])
          (by
            intro j hj
            refine ⟨u1 j ?_, fun hne => u3 j ?_⟩
            · rw [hC, lastB_eq]
              cases hg : c1.getLast? with
              | none => simp
              | some x =>
                simp only [ne_eq, CellRef.nextOf.injEq]
                exact fun e => hcn'.2.2 x (hlast_c1 x hg) j (List.mem_cons_of_mem _ hj) e
            · rw [hN]
              cases c2 with
              | nil => simp [headP]
              | cons y r => simp only [headP, ne_eq, Option.some.injEq]; exact fun e => hne (by simp [e]))
          (by
            intro x hx
            apply u4 x
            rw [hN]
            cases c2 with
            | nil => simp at hx
            | cons y r => simp only [List.head?_cons, Option.some.injEq] at hx; simp [headP, hx])
        have hfirst : (pt.unlinkChain id).heads (t.items id).cell
            = (if c1 = [] then (pt.items id).nextCell else pt.heads (t.items id).cell) := by
          by_cases e : c1 = []
          · simp only [e, if_true]; apply u5; rw [hC, e]; rfl
          · simp only [e, if_false]; apply u6; rw [hC, lastB_eq]
            cases hg : c1.getLast? with
            | none => exact absurd (List.getLast?_eq_none_iff.1 hg) e
            | some x => simp
        rw [hfirst]
        exact this.1
      · simp only [upd_apply, hb, if_false]
        have hheads : (pt.unlinkChain id).heads b = pt.heads b := by
          apply u6; rw [hC, lastB_eq]
          cases hg : c1.getLast? with
          | none => simp only [ne_eq, CellRef.bucket.injEq]; exact fun e => hb e.symm
          | some x => simp
        rw [hheads]
        apply (GSeg_congr _ _ _ _ _ _ _).2 (hr.chains ha b)
        intro j hj
        have hjb := (hi.chain_iff ha b j).1 hj
        refine ⟨u1 j ?_, u3 j ?_⟩
        · rw [hC, lastB_eq]
          cases hg : c1.getLast? with
          | none => simp
          | some x =>
            simp only [ne_eq, CellRef.nextOf.injEq]
            intro e
            have := (hc_sub x (List.mem_append.2 (Or.inl (hlast_c1 x hg)))).2
            rw [e, hjb.2] at this
            exact hb this
        · rw [hN]
          cases hc2 : c2 with
          | nil => simp [headP]
          | cons y r =>
            simp only [headP, ne_eq, Option.some.injEq]
            intro e
            have := (hc_sub y (by rw [hc2]; simp)).2
            rw [e, hjb.2] at this
            exact hb this
    · show Dll _ _ _ (t.order.erase id)
      simp only [PTable.removeItem, PTable.setPrev]
      rw [v_self, u_self, ho, erase_split l1 l2 id hon]
      apply (GSeg_congr Nxt.item some (fwd := fun i => (((pt.unlinkChain id).unlinkOrder id).items i).next)
          (back := fun i => (((pt.unlinkChain id).unlinkOrder id).items i).prev) _ (fun j hj => by
            have : j ≠ id := fun e => by
              subst e
              rcases List.mem_append.1 hj with e | e
              · exact hid_l1 e
              · exact hid_l2 e
            simp [upd_apply, this]) _ _ _).2
      have := GSeg_remove Nxt.item some (fwd := fun i => (pt.items i).next) (back := fun i => (pt.items i).prev)
        (fwd' := fun i => (((pt.unlinkChain id).unlinkOrder id).items i).next)
        (back' := fun i => (((pt.unlinkChain id).unlinkOrder id).items i).prev)
        l1 l2 id hon _ _ (.stl pt.self) hdll
        (by
          intro j hj
          refine ⟨fun hne => ?_, ?_⟩
          · rw [v1 j (by rw [hP, lastB_eq]; cases hg : l1.getLast? with
              | none => simp
              | some x => simp only [ne_eq, Option.some.injEq]; exact fun e => hne (by rw [hg, e]))]
            exact (u7 j).2.1
          · rw [v3 j (by rw [hNx]; cases l2 with
              | nil => simp [headP]
              | cons y r => simp only [headP, ne_eq, Nxt.item.injEq]; exact fun e => hon'.2.2 j hj y (by simp) e.symm)]
            exact (u7 j).1)
        (by
          intro x hx
          rw [v2 x (by rw [hP, lastB_eq, hx])])
        (by
          intro j hj
          refine ⟨?_, fun hne => ?_⟩
          · rw [v1 j (by rw [hP, lastB_eq]; cases hg : l1.getLast? with
              | none => simp
              | some x =>
                simp only [ne_eq, Option.some.injEq]
                exact fun e => hon'.2.2 x (List.mem_of_getLast? hg) j (List.mem_cons_of_mem _ hj) e)]
            exact (u7 j).2.1
          · rw [v3 j (by rw [hNx]; cases l2 with
              | nil => simp [headP]
              | cons y r => simp only [headP, ne_eq, Nxt.item.injEq]; exact fun e => hne (by simp [e]))]
            exact (u7 j).1)
        (by
          intro x hx
          rw [v4 x (by rw [hNx]; cases l2 with
            | nil => simp at hx
            | cons y r => simp only [List.head?_cons, Option.some.injEq] at hx; simp [headP, hx])])
      rw [v_begin, u_begin]
      have hc' : ((pt.items id).prev = none) = (l1 = []) := by
        rw [hP]; exact propext (lastB_some_eq_none l1)
      simp only [hc']
      exact this.1
    · show _ = lastB some none (t.order.erase id)
      simp only [PTable.removeItem, PTable.setPrev]
      rw [v_endPrev, u_endPrev, ho, erase_split l1 l2 id hon, hNx, lastB_append]
      cases l2 with
      | nil => simp only [headP, lastB]; exact hP
      | cons y r =>
        simp only [headP]
        rw [hr.last, ho, lastB_append]
        exact lastB_nonempty some (some id) _ (y :: r) (by simp)
    · show FreeL _ _ (id :: t.free)
      simp only [PTable.removeItem, PTable.setPrev, FreeL, upd_apply, if_true, true_and]
      rw [v_free, u_free]
      apply (FreeL_congr _ _ _).2 hr.free
      intro j hj
      have hjo : j ∉ t.order := hi.free_disj j hj
      have hjid : j ≠ id := fun e => hjo (e ▸ hm)
      simp only [upd_apply, hjid, if_false]
      rw [v3 j (by
        rw [hNx]
        cases hl2 : l2 with
        | nil => simp [headP]
        | cons y r =>
          simp only [headP, ne_eq, Nxt.item.injEq]
          exact fun e => hjo (by rw [ho, hl2, e]; simp))]
      exact (u7 j).1
  · show (((pt.unlinkChain id).unlinkOrder id).setPrev id _ |>.items id).next = _
    simp only [PTable.setPrev, upd_apply, if_true]
    rw [v1 id (by rw [hP, lastB_eq]; cases hg : l1.getLast? with
      | none => simp
      | some x => simp only [ne_eq, Option.some.injEq]; exact fun e => hid_l1 (e ▸ List.mem_of_getLast? hg)), (u7 id).2.1]
    exact hNx

end Nstd.Hash.Ptr
