import Nstd.Hash.LemmasConst
/-
  Items never move while they live: what every table operation does to a live item (id = its slot
  `ipb·block + slot`, i.e. its address; key; value).
-/
namespace Nstd.Hash
open Table

theorem get_set_ne (s : State) (t t' : Bool) (x : Table) (hne : t' ≠ t) : (s.set t' x).get t = s.get t := by
  cases t <;> cases t' <;> first | rfl | exact absurd rfl hne

/-! ### per table function -/

/-- `insert`: every live item stays where it is with its key; its value changes only if this is a HashMap and the inserted
    key is the item's own key (overwritten in place) -/
theorem Table.Inv.insert_stable {h : Nat → Nat} {t : Table} (hi : t.Inv h) (kind : Kind) (pos k v id : Nat)
    (hl : id ∈ t.order) :
    id ∈ (t.insert kind h pos k v).1.order ∧
    ((t.insert kind h pos k v).1.items id).key = (t.items id).key ∧
    (((t.insert kind h pos k v).1.items id).value = (t.items id).value ∨
      (kind = Kind.map ∧ (t.items id).key = k ∧ ((t.insert kind h pos k v).1.items id).value = v)) := by
  unfold Table.insert
  cases hf : t.find h k with
  | some id0 =>
    have hm := (hi.find_some_iff k id0).1 hf
    by_cases hk : kind = Kind.map
    · simp only [hk, if_true]
      by_cases e : id = id0
      · subst e
        exact ⟨hl, by simp [upd], Or.inr ⟨trivial, hm.2, by simp [upd]⟩⟩
      · exact ⟨hl, by simp [upd, e], Or.inl (by simp [upd, e])⟩
    · simp only [hk, if_false]
      exact ⟨hl, by first | trivial | rfl, Or.inl (by first | trivial | rfl)⟩
  | none =>
    have hne : id ≠ (t.allocItem kind).1 := fun e => (hi.alloc kind).1 (e ▸ hl)
    simp only [Table.linkNew]
    refine ⟨(mem_insertAt _ _ _ _).2 (Or.inr hl), by simp [upd, hne], Or.inl (by simp [upd, hne])⟩

/-- `insert` never releases an item: the free list only shrinks -/
theorem Table.Inv.insert_free_subset {h : Nat → Nat} {t : Table} (hi : t.Inv h) (kind : Kind) (pos k v : Nat)
    (hp : pos ≤ t.order.length) : ∀ id ∈ t.order, id ∉ (t.insert kind h pos k v).1.free := by
  intro id hl hf
  have hinv := (hi.insert kind pos k v hp).1
  exact hinv.free_disj id hf (hi.insert_stable kind pos k v id hl).1

/-- `remove(iterator)`: the removed item goes to the free list, every other item is untouched -/
theorem Table.Inv.removeItem_stable {h : Nat → Nat} {t : Table} (hi : t.Inv h) (rid id : Nat) (hl : id ∈ t.order) :
    (t.removeItem rid).items id = t.items id ∧
    (id ≠ rid → id ∈ (t.removeItem rid).order) ∧
    (id = rid → id ∉ (t.removeItem rid).order ∧ id ∈ (t.removeItem rid).free) := by
  refine ⟨rfl, fun hne => ?_, fun e => ?_⟩
  · exact (hi.order_nodup.mem_erase_iff).2 ⟨hne, hl⟩
  · subst e
    exact ⟨fun hm => absurd rfl (hi.order_nodup.mem_erase_iff.1 hm).1, List.mem_cons_self⟩

theorem Table.Inv.removeKey_stable {h : Nat → Nat} {t : Table} (hi : t.Inv h) (k id : Nat) (hl : id ∈ t.order) :
    (t.removeKey h k).items id = t.items id ∧
    ((t.items id).key ≠ k → id ∈ (t.removeKey h k).order) ∧
    ((t.items id).key = k → id ∉ (t.removeKey h k).order ∧ id ∈ (t.removeKey h k).free) := by
  unfold Table.removeKey
  cases hf : t.find h k with
  | none =>
    have := (hi.find_none_iff k).1 hf id hl
    exact ⟨rfl, fun _ => hl, fun e => absurd e this⟩
  | some rid =>
    have hm := (hi.find_some_iff k rid).1 hf
    have hr := hi.removeItem_stable rid id hl
    refine ⟨hr.1, fun hne => hr.2.1 (fun e => hne (e ▸ hm.2)), fun e => hr.2.2 (hi.key_inj hl hm.1 (by rw [e, hm.2]))⟩

/-- `remove(key)` only releases: what is free stays free, nothing becomes live -/
theorem removeKey_mono (h : Nat → Nat) (t : Table) (k : Nat) :
    (∀ x ∈ t.free, x ∈ (t.removeKey h k).free) ∧ (∀ x ∈ (t.removeKey h k).order, x ∈ t.order) ∧
    (t.removeKey h k).items = t.items := by
  unfold Table.removeKey
  cases t.find h k with
  | none => exact ⟨fun _ hx => hx, fun _ hx => hx, rfl⟩
  | some rid => exact ⟨fun _ hx => List.mem_cons_of_mem _ hx, fun _ hx => List.mem_of_mem_erase hx, rfl⟩

theorem Table.Inv.clear_stable {h : Nat → Nat} {t : Table} (_hi : t.Inv h) (id : Nat) (hl : id ∈ t.order) :
    id ∉ t.clear.order ∧ id ∈ t.clear.free := by
  refine ⟨by simp [Table.clear], ?_⟩
  simp only [Table.clear, clearLoop_free]
  exact List.mem_append.2 (Or.inl (List.mem_reverse.2 hl))

theorem Table.Inv.setValue_stable {h : Nat → Nat} {t : Table} (hi : t.Inv h) (k v id : Nat) (_hl : id ∈ t.order) :
    (t.setValue h k v).order = t.order ∧ ((t.setValue h k v).items id).key = (t.items id).key ∧
    (((t.setValue h k v).items id).value = (t.items id).value ∨
      ((t.items id).key = k ∧ ((t.setValue h k v).items id).value = v)) := by
  unfold Table.setValue
  cases hf : t.find h k with
  | none => exact ⟨rfl, rfl, Or.inl rfl⟩
  | some id0 =>
    have hm := (hi.find_some_iff k id0).1 hf
    by_cases e : id = id0
    · subst e; exact ⟨rfl, by simp [upd], Or.inr ⟨hm.2, by simp [upd]⟩⟩
    · exact ⟨rfl, by simp [upd, e], Or.inl (by simp [upd, e])⟩

/-- bulk append (HashSet): every live item stays, untouched -/
theorem Table.Inv.appendAll_stable {h : Nat → Nat} {t : Table} (hi : t.Inv h) (kind : Kind) (hk : kind ≠ Kind.map)
    (oitems : Nat → Item) (l : List Nat) (id : Nat) (hl : id ∈ t.order) :
    id ∈ (Table.appendAll kind h t oitems l).order ∧ (Table.appendAll kind h t oitems l).items id = t.items id := by
  induction l generalizing t with
  | nil => exact ⟨hl, rfl⟩
  | cons x r ih =>
    simp only [Table.appendAll, Table.append]
    have hst := hi.insert_stable kind t.order.length (oitems x).key (oitems x).value id hl
    have hinv := (hi.insert kind t.order.length (oitems x).key (oitems x).value (Nat.le_refl _)).1
    have := ih hinv hst.1
    refine ⟨this.1, ?_⟩
    rw [this.2]
    -- not a HashMap: `insert` does not even touch the value
    unfold Table.insert
    cases hf : t.find h (oitems x).key with
    | some id0 => simp [hk]
    | none =>
      have hne : id ≠ (t.allocItem kind).1 := fun e => (hi.alloc kind).1 (e ▸ hl)
      simp [Table.linkNew, upd, hne]

/-- bulk remove (HashSet): exactly the items whose key occurs in the other table are released -/
theorem Table.Inv.removeAll_stable {h : Nat → Nat} {t : Table} (hi : t.Inv h) (oitems : Nat → Item) (l : List Nat)
    (id : Nat) (hl : id ∈ t.order) :
    (Table.removeAll h t oitems l).items id = t.items id ∧
    ((t.items id).key ∉ l.map (fun j => (oitems j).key) → id ∈ (Table.removeAll h t oitems l).order) ∧
    ((t.items id).key ∈ l.map (fun j => (oitems j).key) →
      id ∉ (Table.removeAll h t oitems l).order ∧ id ∈ (Table.removeAll h t oitems l).free) := by
  -- once released an item stays released during the rest of the loop
  have hrel : ∀ (l : List Nat) (u : Table), id ∉ u.order → id ∈ u.free →
      id ∉ (Table.removeAll h u oitems l).order ∧ id ∈ (Table.removeAll h u oitems l).free := by
    intro l
    induction l with
    | nil => intro u h1 h2; exact ⟨h1, h2⟩
    | cons x r ih =>
      intro u h1 h2
      have hm := removeKey_mono h u (oitems x).key
      exact ih _ (fun hx => h1 (hm.2.1 id hx)) (hm.1 id h2)
  have hitems : ∀ (l : List Nat) (u : Table), (Table.removeAll h u oitems l).items = u.items := by
    intro l
    induction l with
    | nil => intro u; rfl
    | cons x r ih => intro u; simp only [Table.removeAll]; rw [ih, (removeKey_mono h u _).2.2]
  refine ⟨by rw [hitems], ?_, ?_⟩
  · induction l generalizing t with
    | nil => intro _; exact hl
    | cons x r ih =>
      intro hnot
      simp only [List.map_cons, List.mem_cons, not_or] at hnot
      have hst := hi.removeKey_stable (oitems x).key id hl
      simp only [Table.removeAll]
      have := ih (hi.removeKey (oitems x).key).1 (hst.2.1 hnot.1)
      rw [hst.1] at this
      exact this hnot.2
  · induction l generalizing t with
    | nil => intro hm; simp at hm
    | cons x r ih =>
      intro hm
      simp only [Table.removeAll]
      have hst := hi.removeKey_stable (oitems x).key id hl
      by_cases e : (t.items id).key = (oitems x).key
      · exact hrel r _ (hst.2.2 e).1 (hst.2.2 e).2
      · have hm' : (t.items id).key ∈ r.map (fun j => (oitems j).key) := by
          simp only [List.map_cons, List.mem_cons] at hm
          rcases hm with hm | hm
          · exact absurd hm e
          · exact hm
        have := ih (hi.removeKey (oitems x).key).1 (hst.2.1 e)
        rw [hst.1] at this
        exact this hm'

end Nstd.Hash

namespace Nstd.Hash
open Table

/-! ### one step of the two-table machine -/

/-- the op ends the life of item `id` of table `t` (state `s` before the op): remove by its key, by an iterator / value
    address designating it, removeFront/Back when it is first/last, clear, bulk remove of its key -/
def Op.releases (s : State) (t : Bool) (id : Nat) : Op → Prop
  | .removeKey t' k => t' = t ∧ ((s.get t).items id).key = k
  | .removeAt t' pos => t' = t ∧ (s.get t).order[pos]? = some id
  | .removeValue t' pos => t' = t ∧ (s.get t).order[pos]? = some id
  | .removeFront t' => t' = t ∧ (s.get t).order[0]? = some id
  | .removeBack t' => t' = t ∧ (s.get t).order[(s.get t).order.length - 1]? = some id
  | .clear t' => t' = t
  | .removeAll t' => t' = t ∧ ((s.get t).items id).key ∈ (s.get (!t)).order.map (fun j => ((s.get (!t)).items j).key)
  | .removeSelf t' => t' = t          -- `t.remove(t)` releases every item of `t`
  | _ => False

/-- the op destroys table object `t` or assigns over it: the life of ALL its items ends (destructor, `operator=`) -/
def Op.destroys (t : Bool) : Op → Prop
  | .construct t' _ => t' = t
  | .constructDefault t' => t' = t
  | .copyFrom t' => t' = t
  | .assign t' => t' = t
  | _ => False

/-- the op stores `v` into the entry with key `k` of table `t`: `*find(k) = v` through an iterator, or a HashMap insert of
    that very key (HashSet / PoolMap inserts never write to an existing entry) -/
def Op.writes (kind : Kind) (t : Bool) (k v : Nat) : Op → Prop
  | .setValue t' k' v' => t' = t ∧ k' = k ∧ v' = v
  | .append t' k' v' => kind = Kind.map ∧ t' = t ∧ k' = k ∧ v' = v
  | .prepend t' k' v' => kind = Kind.map ∧ t' = t ∧ k' = k ∧ v' = v
  | .insert t' _ k' v' => kind = Kind.map ∧ t' = t ∧ k' = k ∧ v' = v
  | _ => False

/-- the table variable that owns the items of table `t` after the op: `swap` hands them over -/
def Op.owner (t : Bool) : Op → Bool
  | .swap _ => !t
  | _ => t

/-- what "the item did not move" means: still live in table `t'`, same id (= same slot `ipb·block + slot`), same key, and
    the same value unless this very op wrote `v` to the entry of its key -/
def Stays (kind : Kind) (op : Op) (t : Bool) (T T' : Table) (id : Nat) : Prop :=
  id ∈ T'.order ∧ (T'.items id).key = (T.items id).key ∧
  ((T'.items id).value = (T.items id).value ∨ ∃ v, op.writes kind t (T.items id).key v ∧ (T'.items id).value = v)

theorem stays_refl (kind : Kind) (op : Op) (t : Bool) (T : Table) (id : Nat) (hl : id ∈ T.order) :
    Stays kind op t T T id := ⟨hl, rfl, Or.inl rfl⟩

/-- nothing happened to table `t`: the item stays -/
theorem stable_unchanged (kind : Kind) (s s' : State) (op : Op) (t : Bool) (id : Nat) (hl : id ∈ (s.get t).order)
    (hrel : ¬ op.releases s t id) (hown : op.owner t = t) (heq : s'.get t = s.get t) :
    (¬ op.releases s t id → Stays kind op t (s.get t) (s'.get (op.owner t)) id) ∧
    (op.releases s t id → id ∉ (s'.get t).order ∧ id ∈ (s'.get t).free) := by
  refine ⟨fun _ => ?_, fun f => absurd f hrel⟩
  rw [hown, heq]
  exact stays_refl kind op t _ id hl

theorem items_stable_step_aux (kind : Kind) (h : Nat → Nat) (s s' : State) (op : Op) (o : Out)
    (hs : SInv h s) (hst : step kind h s op = some (s', o)) (t : Bool) (id : Nat)
    (hl : id ∈ (s.get t).order) (hd : ¬ op.destroys t) :
    (¬ op.releases s t id → Stays kind op t (s.get t) (s'.get (op.owner t)) id) ∧
    (op.releases s t id → id ∉ (s'.get t).order ∧ id ∈ (s'.get t).free) := by
  by_cases hav : op.available kind = true
  case neg => simp [step, hav] at hst
  have hi := hs.get t
  cases op <;> simp only [step, hav, Bool.not_true, Bool.false_eq_true, if_false] at hst
  case construct t' cap =>
    cases hst
    exact stable_unchanged kind s _ _ t id hl (fun f => f) rfl (get_set_ne s t t' _ hd)
  case constructDefault t' =>
    cases hst
    exact stable_unchanged kind s _ _ t id hl (fun f => f) rfl (get_set_ne s t t' _ hd)
  case copyFrom t' =>
    cases hst
    exact stable_unchanged kind s _ _ t id hl (fun f => f) rfl (get_set_ne s t t' _ hd)
  case assign t' =>
    cases hst
    exact stable_unchanged kind s _ _ t id hl (fun f => f) rfl (get_set_ne s t t' _ hd)
  case append t' k v =>
    cases hst
    by_cases e : t' = t
    · subst e
      refine ⟨fun _ => ?_, fun f => f.elim⟩
      have hst := hi.insert_stable kind (s.get t').order.length k v id hl
      simp only [Op.owner, get_set_same, Table.append]
      refine ⟨hst.1, hst.2.1, ?_⟩
      rcases hst.2.2 with h1 | ⟨h1, h2, h3⟩
      · exact Or.inl h1
      · exact Or.inr ⟨v, ⟨h1, rfl, h2.symm, rfl⟩, h3⟩
    · exact stable_unchanged kind s _ _ t id hl (fun f => f) rfl (get_set_ne s t t' _ e)
  case prepend t' k v =>
    cases hst
    by_cases e : t' = t
    · subst e
      refine ⟨fun _ => ?_, fun f => f.elim⟩
      have hst := hi.insert_stable kind 0 k v id hl
      simp only [Op.owner, get_set_same, Table.prepend]
      refine ⟨hst.1, hst.2.1, ?_⟩
      rcases hst.2.2 with h1 | ⟨h1, h2, h3⟩
      · exact Or.inl h1
      · exact Or.inr ⟨v, ⟨h1, rfl, h2.symm, rfl⟩, h3⟩
    · exact stable_unchanged kind s _ _ t id hl (fun f => f) rfl (get_set_ne s t t' _ e)
  case insert t' pos k v =>
    split at hst
    · cases hst
      by_cases e : t' = t
      · subst e
        refine ⟨fun _ => ?_, fun f => f.elim⟩
        have hst := hi.insert_stable kind pos k v id hl
        simp only [Op.owner, get_set_same]
        refine ⟨hst.1, hst.2.1, ?_⟩
        rcases hst.2.2 with h1 | ⟨h1, h2, h3⟩
        · exact Or.inl h1
        · exact Or.inr ⟨v, ⟨h1, rfl, h2.symm, rfl⟩, h3⟩
      · exact stable_unchanged kind s _ _ t id hl (fun f => f) rfl (get_set_ne s t t' _ e)
    · cases hst
  case removeKey t' k =>
    cases hst
    by_cases e : t' = t
    · subst e
      have hst := hi.removeKey_stable k id hl
      simp only [Op.releases, Op.owner, get_set_same, true_and]
      refine ⟨fun hne => ⟨hst.2.1 hne, by rw [hst.1], Or.inl (by rw [hst.1])⟩, fun he => hst.2.2 he⟩
    · exact stable_unchanged kind s _ _ t id hl (fun f => e f.1) rfl (get_set_ne s t t' _ e)
  case removeAt t' pos =>
    cases hr : removeAtPos (s.get t') pos with
    | none => rw [hr] at hst; cases hst
    | some r =>
      obtain ⟨T', p⟩ := r
      rw [hr] at hst
      cases hst
      by_cases e : t' = t
      · subst e
        unfold removeAtPos at hr
        cases hg : (s.get t').order[pos]? with
        | none => rw [hg] at hr; cases hr
        | some rid =>
          rw [hg] at hr
          simp only [Option.some.injEq, Prod.mk.injEq] at hr
          have hst := hi.removeItem_stable rid id hl
          simp only [Op.releases, Op.owner, get_set_same, true_and, hg, Option.some.injEq, ← hr.1]
          refine ⟨fun hne => ⟨hst.2.1 (fun e => hne e.symm), by rw [hst.1], Or.inl (by rw [hst.1])⟩,
            fun he => hst.2.2 he.symm⟩
      · exact stable_unchanged kind s _ _ t id hl (fun f => e f.1) rfl (get_set_ne s t t' _ e)
  case removeValue t' pos =>
    cases hr : removeAtPos (s.get t') pos with
    | none => rw [hr] at hst; cases hst
    | some r =>
      obtain ⟨T', p⟩ := r
      rw [hr] at hst
      cases hst
      by_cases e : t' = t
      · subst e
        unfold removeAtPos at hr
        cases hg : (s.get t').order[pos]? with
        | none => rw [hg] at hr; cases hr
        | some rid =>
          rw [hg] at hr
          simp only [Option.some.injEq, Prod.mk.injEq] at hr
          have hst := hi.removeItem_stable rid id hl
          simp only [Op.releases, Op.owner, get_set_same, true_and, hg, Option.some.injEq, ← hr.1]
          refine ⟨fun hne => ⟨hst.2.1 (fun e => hne e.symm), by rw [hst.1], Or.inl (by rw [hst.1])⟩,
            fun he => hst.2.2 he.symm⟩
      · exact stable_unchanged kind s _ _ t id hl (fun f => e f.1) rfl (get_set_ne s t t' _ e)
  case removeFront t' =>
    cases hr : removeAtPos (s.get t') 0 with
    | none => rw [hr] at hst; cases hst
    | some r =>
      obtain ⟨T', p⟩ := r
      rw [hr] at hst
      cases hst
      by_cases e : t' = t
      · subst e
        unfold removeAtPos at hr
        cases hg : (s.get t').order[0]? with
        | none => rw [hg] at hr; cases hr
        | some rid =>
          rw [hg] at hr
          simp only [Option.some.injEq, Prod.mk.injEq] at hr
          have hst := hi.removeItem_stable rid id hl
          simp only [Op.releases, Op.owner, get_set_same, true_and, hg, Option.some.injEq, ← hr.1]
          refine ⟨fun hne => ⟨hst.2.1 (fun e => hne e.symm), by rw [hst.1], Or.inl (by rw [hst.1])⟩,
            fun he => hst.2.2 he.symm⟩
      · exact stable_unchanged kind s _ _ t id hl (fun f => e f.1) rfl (get_set_ne s t t' _ e)
  case removeBack t' =>
    split at hst
    · cases hst
    · cases hr : removeAtPos (s.get t') ((s.get t').order.length - 1) with
      | none => rw [hr] at hst; cases hst
      | some r =>
        obtain ⟨T', p⟩ := r
        rw [hr] at hst
        cases hst
        by_cases e : t' = t
        · subst e
          unfold removeAtPos at hr
          cases hg : (s.get t').order[(s.get t').order.length - 1]? with
          | none => rw [hg] at hr; cases hr
          | some rid =>
            rw [hg] at hr
            simp only [Option.some.injEq, Prod.mk.injEq] at hr
            have hst := hi.removeItem_stable rid id hl
            simp only [Op.releases, Op.owner, get_set_same, true_and, hg, Option.some.injEq, ← hr.1]
            refine ⟨fun hne => ⟨hst.2.1 (fun e => hne e.symm), by rw [hst.1], Or.inl (by rw [hst.1])⟩,
              fun he => hst.2.2 he.symm⟩
        · exact stable_unchanged kind s _ _ t id hl (fun f => e f.1) rfl (get_set_ne s t t' _ e)
  case clear t' =>
    cases hst
    by_cases e : t' = t
    · subst e
      simp only [Op.releases, Op.owner, get_set_same, not_true_eq_false, false_implies, true_and, true_implies]
      exact hi.clear_stable id hl
    · exact stable_unchanged kind s _ _ t id hl (fun f => e f) rfl (get_set_ne s t t' _ e)
  case swap t' =>
    cases hst
    refine ⟨fun _ => ?_, fun f => f.elim⟩
    have : ((s.set t' (s.get (!t'))).set (!t') (s.get t')).get (!t) = s.get t := by
      cases t <;> cases t' <;> rfl
    simp only [Op.owner, this]
    exact stays_refl kind _ t _ id hl
  case appendAll t' =>
    cases hst
    by_cases e : t' = t
    · subst e
      refine ⟨fun _ => ?_, fun f => f.elim⟩
      have hk : kind ≠ Kind.map := by
        intro hk; rw [hk] at hav; simp [Op.available] at hav
      have hst := hi.appendAll_stable kind hk (s.get (!t')).items (s.get (!t')).order id hl
      simp only [Op.owner, get_set_same]
      exact ⟨hst.1, by rw [hst.2], Or.inl (by rw [hst.2])⟩
    · exact stable_unchanged kind s _ _ t id hl (fun f => f) rfl (get_set_ne s t t' _ e)
  case removeAll t' =>
    cases hst
    by_cases e : t' = t
    · subst e
      have hst := hi.removeAll_stable (s.get (!t')).items (s.get (!t')).order id hl
      simp only [Op.releases, Op.owner, get_set_same, true_and]
      exact ⟨fun hne => ⟨hst.2.1 hne, by rw [hst.1], Or.inl (by rw [hst.1])⟩, fun he => hst.2.2 he⟩
    · exact stable_unchanged kind s _ _ t id hl (fun f => e f.1) rfl (get_set_ne s t t' _ e)
  case setValue t' k v =>
    cases hst
    by_cases e : t' = t
    · subst e
      refine ⟨fun _ => ?_, fun f => f.elim⟩
      have hst := hi.setValue_stable k v id hl
      simp only [Op.owner, get_set_same]
      refine ⟨by rw [hst.1]; exact hl, hst.2.1, ?_⟩
      rcases hst.2.2 with h1 | ⟨h2, h3⟩
      · exact Or.inl h1
      · exact Or.inr ⟨v, ⟨rfl, h2.symm, rfl⟩, h3⟩
    · exact stable_unchanged kind s _ _ t id hl (fun f => f) rfl (get_set_ne s t t' _ e)
  case assignSelf t' => cases hst; exact stable_unchanged kind s _ _ t id hl (fun f => f) rfl rfl
  case swapSelf t' => cases hst; exact stable_unchanged kind s _ _ t id hl (fun f => f) rfl rfl
  case appendSelf t' =>
    cases hst
    by_cases e : t' = t
    · subst e
      refine ⟨fun _ => ?_, fun f => f.elim⟩
      have hk : kind ≠ Kind.map := by
        intro hk; rw [hk] at hav; simp [Op.available] at hav
      have hst := hi.appendAll_stable kind hk (s.get t').items (s.get t').order id hl
      simp only [Op.owner, get_set_same]
      exact ⟨hst.1, by rw [hst.2], Or.inl (by rw [hst.2])⟩
    · exact stable_unchanged kind s _ _ t id hl (fun f => f) rfl (get_set_ne s t t' _ e)
  case removeSelf t' =>
    cases hst
    by_cases e : t' = t
    · subst e
      have hst := hi.removeAll_stable (s.get t').items (s.get t').order id hl
      simp only [Op.releases, Op.owner, get_set_same, not_true_eq_false, false_implies, true_implies, true_and]
      exact hst.2.2 (List.mem_map.2 ⟨id, hl, rfl⟩)
    · exact stable_unchanged kind s _ _ t id hl (fun f => e f) rfl (get_set_ne s t t' _ e)
  case find t' k => cases hst; exact stable_unchanged kind s _ _ t id hl (fun f => f) rfl rfl
  case contains t' k => cases hst; exact stable_unchanged kind s _ _ t id hl (fun f => f) rfl rfl
  case size t' => cases hst; exact stable_unchanged kind s _ _ t id hl (fun f => f) rfl rfl
  case isEmpty t' => cases hst; exact stable_unchanged kind s _ _ t id hl (fun f => f) rfl rfl
  case iterate t' => cases hst; exact stable_unchanged kind s _ _ t id hl (fun f => f) rfl rfl
  case front t' =>
    split at hst
    · cases hst; exact stable_unchanged kind s _ _ t id hl (fun f => f) rfl rfl
    · cases hst
  case back t' =>
    split at hst
    · cases hst; exact stable_unchanged kind s _ _ t id hl (fun f => f) rfl rfl
    · cases hst
  case equal t' u =>
    split at hst
    · cases hst; exact stable_unchanged kind s _ _ t id hl (fun f => f) rfl rfl
    · cases hst
  case notEqual t' u =>
    split at hst
    · cases hst; exact stable_unchanged kind s _ _ t id hl (fun f => f) rfl rfl
    · cases hst
  case iterBack t' => cases hst; exact stable_unchanged kind s _ _ t id hl (fun f => f) rfl rfl
  case entryAt t' pos =>
    split at hst
    · cases hst; exact stable_unchanged kind s _ _ t id hl (fun f => f) rfl rfl
    · cases hst

/-! ### histories -/

/-- during the op list `ops`, started in `s`, no op destroys / assigns over the table that currently owns item `id`
    (initially table `t`; `swap` hands it over) and no op releases the item -/
def Survives (kind : Kind) (h : Nat → Nat) : State → Bool → Nat → List Op → Prop
  | _, _, _, [] => True
  | s, t, id, op :: ops => ¬ op.destroys t ∧ ¬ op.releases s t id ∧
      ∀ s' o, step kind h s op = some (s', o) → Survives kind h s' (op.owner t) id ops

/-- the table variable owning the items of table `t` after `ops` -/
def finalOwner : Bool → List Op → Bool
  | t, [] => t
  | t, op :: ops => finalOwner (op.owner t) ops

end Nstd.Hash
