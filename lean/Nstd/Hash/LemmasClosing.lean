import Nstd.Hash.SpecClosing
import Nstd.Hash.LemmasBulk
/-
  The association-list specification of a HashSet, restricted to the members Server uses on `_closingClients`, is the
  list machine `closingRun` on the key list.
-/
namespace Nstd.Hash

theorem lookup_some_of_mem (k : Nat) (l : Spec.Tab) (hk : k ∈ Spec.keys l) : ∃ r, Spec.lookup k l = some r := by
  induction l with
  | nil => cases hk
  | cons e es ih =>
    simp only [Spec.lookup]
    by_cases h : e.1 = k
    · exact ⟨(0, e.2), by simp [h]⟩
    · have : k ∈ Spec.keys es := by
        simp only [Spec.keys, List.map_cons, List.mem_cons] at hk
        rcases hk with hk | hk
        · exact absurd hk.symm h
        · exact hk
      obtain ⟨r, hr⟩ := ih this
      exact ⟨(r.1 + 1, r.2), by simp [h, hr]⟩

theorem keys_filter (l : Spec.Tab) (k : Nat) : Spec.keys (Spec.removeKey l k) = (Spec.keys l).filter (· ≠ k) := by
  simp [Spec.keys, Spec.removeKey, List.filter_map, Function.comp_def]

/-- one step: the key list of table 0 follows `closingStep`, same result, same rejection -/
theorem closing_step (s : Spec.SState) (op : ClosingOp) :
    (Spec.step Kind.set s op.toOp).map (fun r => (Spec.keys r.1.a, r.2)) = closingStep (Spec.keys s.a) op := by
  obtain ⟨a, b⟩ := s
  cases op with
  | add p =>
    simp only [ClosingOp.toOp, Spec.step, Op.available, Bool.not_true, Bool.false_eq_true, if_false, if_true, Option.map_some,
      closingStep, Spec.SState.get, Spec.SState.set]
    by_cases hm : p ∈ Spec.keys a
    · obtain ⟨r, hr⟩ := lookup_some_of_mem p a hm
      have hc : (Spec.keys a).contains p = true := by simpa using hm
      have e1 : (Spec.insert Kind.set a a.length p 0).1 = a := by simp [Spec.insert, hr]
      simp only [e1, hc, if_true]
    · have hr := lookup_none_of_not_mem p a hm
      have hc : (Spec.keys a).contains p = false := by simpa using hm
      have e2 : Spec.keys (Spec.insert Kind.set a a.length p 0).1 = Spec.keys a ++ [p] := by
        simp [Spec.insert, hr, insertAt, Spec.keys, Spec.stored]
      simp only [e2, hc, Bool.false_eq_true, if_false]
  | del p =>
    simp only [ClosingOp.toOp, Spec.step, Op.available, Bool.not_true, Bool.false_eq_true, if_false, Option.map_some,
      closingStep, Spec.SState.get, Spec.SState.set, keys_filter]
  | isEmpty =>
    simp only [ClosingOp.toOp, Spec.step, Op.available, Bool.not_true, Bool.false_eq_true, if_false, Option.map_some,
      closingStep, Spec.SState.get]
    cases a <;> rfl
  | front =>
    simp only [ClosingOp.toOp, Spec.step, Op.available, Bool.not_true, Bool.false_eq_true, if_false, closingStep, Spec.SState.get]
    cases a with
    | nil => rfl
    | cons e es => simp [Spec.shown, Spec.keys]
  | pop =>
    simp only [ClosingOp.toOp, Spec.step, Op.available, Bool.not_true, Bool.false_eq_true, if_false, closingStep, Spec.SState.get,
      Spec.SState.set]
    cases a with
    | nil => rfl
    | cons e es => simp [Spec.keys]
  | clear =>
    simp only [ClosingOp.toOp, Spec.step, Op.available, Bool.not_true, Bool.false_eq_true, if_false, Option.map_some,
      closingStep, Spec.SState.set]
    rfl

theorem closing_run (s : Spec.SState) (ops : List ClosingOp) :
    (Spec.run Kind.set s (ops.map ClosingOp.toOp)).map (fun r => (Spec.keys r.1.a, r.2)) = closingRun (Spec.keys s.a) ops := by
  induction ops generalizing s with
  | nil => rfl
  | cons op ops ih =>
    have h1 := closing_step s op
    simp only [List.map_cons, Spec.run, closingRun]
    cases hs : Spec.step Kind.set s op.toOp with
    | none => rw [hs] at h1; simp only [Option.map_none] at h1; rw [← h1]; rfl
    | some r =>
      obtain ⟨s1, o⟩ := r
      rw [hs] at h1
      simp only [Option.map_some] at h1
      rw [← h1]
      simp only
      rw [← ih s1]
      cases Spec.run Kind.set s1 (ops.map ClosingOp.toOp) with
      | none => rfl
      | some r2 => rfl

end Nstd.Hash
