import Nstd.Generated.HashLink
import Nstd.Generated.HashConst
/-
  The two-table machine of `PtrModel.lean` (`pstep`) with the bodies TRANSLATED from the current headers
  (`Nstd/Generated/HashLink.lean`, tools/gen_hash.py) in place of the hand-written ones, for every operation whose member is
  translated: append / prepend / insert (→ `insert`), remove by key / iterator / value address, removeFront / removeBack,
  clear, swap, find, contains, size, isEmpty, front, back, assignment, HashSet bulk append / remove, `==` / `!=`.  the self-argument members, the three constructors.  The remaining
  operations (value update, the iterator walks of the queries) are those of `pstep`.  `PropsLink.lean` proves `gstep = pstep` on every
  state that represents a model state, hence the refinement theorems hold of this machine.
-/
namespace Nstd.Hash.Ptr
open Nstd.Hash Nstd.Generated

def gFind (kind : Kind) (h : Nat → Nat) (t : PTable) (k : Nat) : Option (PTable × Nxt) :=
  match kind with
  | .map => HashLink.HashMap.find h t k
  | .set => HashLink.HashSet.find h t k
  | .pool => HashLink.PoolMap.find h t k

def gInsert (kind : Kind) (h : Nat → Nat) (t : PTable) (pos : Nxt) (k v : Nat) : Option (PTable × Nxt) :=
  match kind with
  | .map => HashLink.HashMap.insert h t pos k v
  | .set => HashLink.HashSet.insert h t pos k
  | .pool => HashLink.PoolMap.insert h t pos k

def gRemoveIt (kind : Kind) (h : Nat → Nat) (t : PTable) (it : Nxt) : Option (PTable × Nxt) :=
  match kind with
  | .map => HashLink.HashMap.removeIt h t it
  | .set => HashLink.HashSet.removeIt h t it
  | .pool => HashLink.PoolMap.removeIt h t it

def gRemoveKey (kind : Kind) (h : Nat → Nat) (t : PTable) (k : Nat) : Option PTable :=
  match kind with
  | .map => HashLink.HashMap.removeKey h t k
  | .set => HashLink.HashSet.removeKey h t k
  | .pool => HashLink.PoolMap.removeKey h t k

def gRemoveFront (kind : Kind) (h : Nat → Nat) (t : PTable) : Option (PTable × Nxt) :=
  match kind with
  | .map => HashLink.HashMap.removeFront h t
  | .set => HashLink.HashSet.removeFront h t
  | .pool => HashLink.PoolMap.removeFront h t

def gRemoveBack (kind : Kind) (h : Nat → Nat) (t : PTable) : Option (PTable × Nxt) :=
  match kind with
  | .map => HashLink.HashMap.removeBack h t
  | .set => HashLink.HashSet.removeBack h t
  | .pool => HashLink.PoolMap.removeBack h t

def gClear (kind : Kind) (h : Nat → Nat) (t : PTable) : Option PTable :=
  match kind with
  | .map => HashLink.HashMap.clear h t
  | .set => HashLink.HashSet.clear h t
  | .pool => HashLink.PoolMap.clear h t

def gSwap (kind : Kind) (a b : PTable) : Option (PTable × PTable) :=
  match kind with
  | .map => HashLink.HashMap.swap a b
  | .set => HashLink.HashSet.swap a b
  | .pool => HashLink.PoolMap.swap a b

def gAssign (kind : Kind) (h : Nat → Nat) (t o : PTable) : Option PTable :=
  match kind with
  | .map => HashLink.HashMap.assign h t o
  | .set => HashLink.HashSet.assign h t o
  | .pool => PTable.assignFrom kind h t o          -- PoolMap has no assignment (the operation is rejected)

def gEqual (kind : Kind) (h : Nat → Nat) (t o : PTable) : Option Bool :=
  match kind with
  | .map => (HashLink.HashMap.equal h t o).map (·.2)
  | .set => (HashLink.HashSet.equal h t o).map (·.2)
  | .pool => PTable.equal kind t o                 -- PoolMap has no `operator==` (rejected)

/-- the capacity of the default / copy constructor as the current header has it -/
def dcapOf : Kind → Nat
  | .map => Nstd.Generated.Hash.defaultCapacityMap
  | .set => Nstd.Generated.Hash.defaultCapacitySet
  | .pool => Nstd.Generated.Hash.defaultCapacityPool

/-- result of an `insert`-based operation: the returned iterator designates an item -/
def insertOut (kind : Kind) (s : PState) (t : Bool) (r : Option (PTable × Nxt)) (o : PTable → Nat → Option Out) : Option (PState × Out) :=
  match r with
  | none => none
  | some r =>
    match r.2 with
    | .item id => (o r.1 id).map (fun x => (s.set t r.1, x))
    | .stl _ => none

/-- result of a `remove(iterator)`-based operation: the position of the returned iterator -/
def removeOut (s : PState) (t : Bool) (r : Option (PTable × Nxt)) (num : Bool) : Option (PState × Out) :=
  match r with
  | none => none
  | some r =>
    match r.1.order with
    | none => none
    | some l' => some (s.set t r.1, if num then .num (nxtPos l' r.2) else .unit)

def gstep (kind : Kind) (h : Nat → Nat) (s : PState) (op : Op) : Option (PState × Out) :=
  if !op.available kind then none else
  match op with
  | .append t k v =>
    match kind with
    | .map => (HashLink.HashMap.append h (s.get t) k v).map (fun r => (s.set t r.1, .num r.2))
    | .set => (HashLink.HashSet.append h (s.get t) k).map (fun r => (s.set t r, .unit))
    | .pool => (HashLink.PoolMap.append h (s.get t) k).map (fun r => (s.set t r.1, .num r.2))
  | .prepend t k v =>
    match kind with
    | .map => (HashLink.HashMap.prepend h (s.get t) k v).map (fun r => (s.set t r.1, .num r.2))
    | .set => (HashLink.HashSet.prepend h (s.get t) k).map (fun r => (s.set t r, .unit))
    | .pool => none                                   -- PoolMap has no `prepend` (rejected)
  | .insert t pos k v =>
    match (s.get t).order with
    | none => none
    | some l =>
      if pos ≤ l.length then
        insertOut kind s t (gInsert kind h (s.get t) (nxtAt (s.get t).self l pos) k v)
          (fun t' id => t'.order.map (fun l' => .num (posOf id l')))
      else none
  | .removeKey t k => optSet s t (gRemoveKey kind h (s.get t) k) .unit
  | .removeAt t pos =>
    match (s.get t).order with
    | none => none
    | some l =>
      match l[pos]? with
      | none => none
      | some id => removeOut s t (gRemoveIt kind h (s.get t) (.item id)) true
  | .removeValue t pos =>
    match (s.get t).order with
    | none => none
    | some l =>
      match l[pos]? with
      | none => none
      | some id =>
        match HashLink.PoolMap.removeValue h (s.get t) id with
        | none => none
        | some t' => if t'.order.isSome then some (s.set t t', .unit) else none
  | .removeFront t => removeOut s t (gRemoveFront kind h (s.get t)) true
  | .removeBack t => removeOut s t (gRemoveBack kind h (s.get t)) true
  | .clear t => optSet s t (gClear kind h (s.get t)) .unit
  | .swap t =>
    match gSwap kind (s.get t) (s.get (!t)) with
    | none => none
    | some r => some ((s.set t r.1).set (!t) r.2, .unit)
  | .find t k =>
    match gFind kind h (s.get t) k, (s.get t).order with
    | some r, some l =>
      some (s, .onum (match r.2 with | .item id => some (posOf id l) | .stl _ => none))
    | _, _ => none
  | .contains t k =>
    (match kind with
      | .map => HashLink.HashMap.contains h (s.get t) k
      | .set => HashLink.HashSet.contains h (s.get t) k
      | .pool => HashLink.PoolMap.contains h (s.get t) k : Option (PTable × Bool)).map (fun r => (s, .flag r.2))
  | .size t =>
    (match kind with
      | .map => HashLink.HashMap.size h (s.get t)
      | .set => HashLink.HashSet.size h (s.get t)
      | .pool => HashLink.PoolMap.size h (s.get t) : Option (PTable × Nat)).map (fun r => (s, .num r.2))
  | .isEmpty t =>
    (match kind with
      | .map => HashLink.HashMap.isEmpty h (s.get t)
      | .set => HashLink.HashSet.isEmpty h (s.get t)
      | .pool => HashLink.PoolMap.isEmpty h (s.get t) : Option (PTable × Bool)).map (fun r => (s, .flag r.2))
  | .front t =>
    (match kind with
      | .map => HashLink.HashMap.front h (s.get t)
      | .set => HashLink.HashSet.front h (s.get t)
      | .pool => HashLink.PoolMap.front h (s.get t) : Option (PTable × Nat)).map (fun r => (s, .num r.2))
  | .back t =>
    (match kind with
      | .map => HashLink.HashMap.back h (s.get t)
      | .set => HashLink.HashSet.back h (s.get t)
      | .pool => HashLink.PoolMap.back h (s.get t) : Option (PTable × Nat)).map (fun r => (s, .num r.2))
  | .assign t => optSet s t (gAssign kind h (s.get t) (s.get (!t))) .unit
  | .appendAll t =>
    optSet s t (if kind = Kind.set then HashLink.HashSet.appendAll h (s.get t) (s.get (!t))
                else PTable.appendAll kind h (s.get t) (s.get (!t))) .unit
  | .removeAll t =>
    optSet s t (if kind = Kind.set then HashLink.HashSet.removeAll h (s.get t) (s.get (!t))
                else PTable.removeAll h (s.get t) (s.get (!t))) .unit
  | .equal t u =>
    match gEqual kind h (s.get t) (s.get u) with
    | some b => some (s, .flag b)
    | none => none
  | .notEqual t u =>
    match (match kind with
      | .map => (HashLink.HashMap.notEqual h (s.get t) (s.get u)).map (·.2)
      | .set => (HashLink.HashSet.notEqual h (s.get t) (s.get u)).map (·.2)
      | .pool => (PTable.equal kind (s.get t) (s.get u)).map (!·)) with      -- PoolMap has no `operator!=` (rejected)
    | some b => some (s, .flag b)
    | none => none
  | .assignSelf t =>
    optSet s t (match kind with
      | .map => HashLink.HashMap.assignSelf h (s.get t)
      | .set => HashLink.HashSet.assignSelf h (s.get t)
      | .pool => some (s.get t)) .unit
  | .swapSelf t =>
    optSet s t (match kind with
      | .map => HashLink.HashMap.swapSelf (s.get t)
      | .set => HashLink.HashSet.swapSelf (s.get t)
      | .pool => HashLink.PoolMap.swapSelf (s.get t)) .unit
  | .appendSelf t =>
    optSet s t (if kind = Kind.set then HashLink.HashSet.appendSelf h (s.get t) else PTable.appendSelf kind h (s.get t)) .unit
  | .removeSelf t =>
    optSet s t (if kind = Kind.set then HashLink.HashSet.removeSelf h (s.get t) else PTable.removeSelf h (s.get t)) .unit
  | .construct t cap =>
    -- the translated constructor on the raw storage of the object (the translator checks that every member is initialised)
    optSet s t (match kind with
      | .map => HashLink.HashMap.construct h (PTable.fresh t 0 (s.get t).ipb (s.get t).dcap) cap
      | .set => HashLink.HashSet.construct h (PTable.fresh t 0 (s.get t).ipb (s.get t).dcap) cap
      | .pool => HashLink.PoolMap.construct h (PTable.fresh t 0 (s.get t).ipb (s.get t).dcap) cap) .unit
  | .constructDefault t =>
    optSet s t (match kind with
      | .map => HashLink.HashMap.constructDefault h (PTable.fresh t 0 (s.get t).ipb (s.get t).dcap)
      | .set => HashLink.HashSet.constructDefault h (PTable.fresh t 0 (s.get t).ipb (s.get t).dcap)
      | .pool => HashLink.PoolMap.constructDefault h (PTable.fresh t 0 (s.get t).ipb (s.get t).dcap)) .unit
  | .copyFrom t =>
    optSet s t (match kind with
      | .map => HashLink.HashMap.copyConstruct h (PTable.fresh t 0 (s.get (!t)).ipb (s.get (!t)).dcap) (s.get (!t))
      | .set => HashLink.HashSet.copyConstruct h (PTable.fresh t 0 (s.get (!t)).ipb (s.get (!t)).dcap) (s.get (!t))
      | .pool => PTable.copyOf kind h t (s.get (!t))) .unit        -- PoolMap's copy constructor is private (rejected)
  | op => pstep kind h s op

def grun (kind : Kind) (h : Nat → Nat) : PState → List Op → Option (PState × List Out)
  | s, [] => some (s, [])
  | s, op :: ops =>
    match gstep kind h s op with
    | none => none
    | some (s', o) =>
      match grun kind h s' ops with
      | none => none
      | some (s'', os) => some (s'', o :: os)

end Nstd.Hash.Ptr
