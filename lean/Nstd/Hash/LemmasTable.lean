import Nstd.Hash.LemmasList
/-
  The representation invariant of one table and what `find` computes under it.
-/
namespace Nstd.Hash
open Table

/-- representation invariant of a table for hash function `h` -/
structure Table.Inv (h : Nat → Nat) (t : Table) : Prop where
  /-- `capacity ≥ 1` (`capacity |= !capacity`) -/
  cap_pos : 0 < t.cap
  /-- no bucket array ⇒ no items -/
  unalloc : t.allocated = false → t.order = []
  /-- the chain of bucket `b` holds exactly the live items linked into cell `b` … -/
  chain_iff : t.allocated = true → ∀ b id, id ∈ t.data b ↔ (id ∈ t.order ∧ (t.items id).cell = b)
  /-- … each once -/
  chain_nodup : t.allocated = true → ∀ b, (t.data b).Nodup
  /-- every live item hangs in the bucket of its key -/
  cell_eq : ∀ id ∈ t.order, (t.items id).cell = h (t.items id).key % t.cap
  /-- no key twice (hence no item twice in the order list) -/
  keys_nodup : (t.order.map (fun id => (t.items id).key)).Nodup
  size_eq : t.size = t.order.length
  /-- the free list holds each free item once, no live item, and only items of allocated blocks -/
  free_nodup : t.free.Nodup
  free_disj : ∀ id ∈ t.free, id ∉ t.order
  free_lt : ∀ id ∈ t.free, id < t.ipb * t.blocks
  order_lt : ∀ id ∈ t.order, id < t.ipb * t.blocks
  /-- the class constants: at least one item per block, default capacity ≥ 1 -/
  ipb_pos : 0 < t.ipb
  dcap_pos : 0 < t.dcap

theorem nodup_of_map {α β : Type} (f : α → β) (l : List α) (h : (l.map f).Nodup) : l.Nodup := by
  induction l with
  | nil => exact List.nodup_nil
  | cons x xs ih =>
    rw [List.map_cons, List.nodup_cons] at h
    exact List.nodup_cons.2 ⟨fun hm => h.1 (List.mem_map_of_mem hm), ih h.2⟩

theorem inj_of_nodup_map {α β : Type} (f : α → β) (l : List α) (h : (l.map f).Nodup)
    (x y : α) (hx : x ∈ l) (hy : y ∈ l) (e : f x = f y) : x = y := by
  induction l with
  | nil => simp at hx
  | cons z zs ih =>
    rw [List.map_cons, List.nodup_cons] at h
    rcases List.mem_cons.1 hx with hx1 | hx1 <;> rcases List.mem_cons.1 hy with hy1 | hy1
    · rw [hx1, hy1]
    · rw [hx1] at e; exact absurd (e ▸ List.mem_map_of_mem hy1) h.1
    · rw [hy1] at e; exact absurd (e ▸ List.mem_map_of_mem hx1) h.1
    · exact ih h.2 hx1 hy1

theorem Table.Inv.order_nodup {h : Nat → Nat} {t : Table} (hi : t.Inv h) : t.order.Nodup :=
  nodup_of_map _ _ hi.keys_nodup

theorem Table.Inv.key_inj {h : Nat → Nat} {t : Table} (hi : t.Inv h) {x y : Nat}
    (hx : x ∈ t.order) (hy : y ∈ t.order) (e : (t.items x).key = (t.items y).key) : x = y :=
  inj_of_nodup_map (fun id => (t.items id).key) t.order hi.keys_nodup x y hx hy e

/-! ### find -/

theorem chainFind_some {items : Nat → Item} {k id : Nat} {l : List Nat}
    (h : chainFind items k l = some id) : id ∈ l ∧ (items id).key = k := by
  induction l with
  | nil => simp [chainFind] at h
  | cons x xs ih =>
    simp only [chainFind] at h
    by_cases hx : (items x).key = k
    · simp only [hx, if_true, Option.some.injEq] at h
      subst h
      exact ⟨List.mem_cons_self, hx⟩
    · simp only [hx, if_false] at h
      exact ⟨List.mem_cons_of_mem _ (ih h).1, (ih h).2⟩

theorem chainFind_none {items : Nat → Item} {k : Nat} {l : List Nat}
    (h : chainFind items k l = none) : ∀ id ∈ l, (items id).key ≠ k := by
  induction l with
  | nil => simp
  | cons x xs ih =>
    simp only [chainFind] at h
    by_cases hx : (items x).key = k
    · simp [hx] at h
    · simp only [hx, if_false] at h
      intro id hid
      rcases List.mem_cons.1 hid with e | e
      · subst e; exact hx
      · exact ih h id e

theorem Table.Inv.find_some_iff {h : Nat → Nat} {t : Table} (hi : t.Inv h) (k id : Nat) :
    t.find h k = some id ↔ (id ∈ t.order ∧ (t.items id).key = k) := by
  unfold Table.find
  constructor
  · intro hf
    by_cases ha : t.allocated = true
    · simp only [ha, if_true] at hf
      have := chainFind_some hf
      exact ⟨((hi.chain_iff ha _ _).1 this.1).1, this.2⟩
    · simp [ha] at hf
  · intro ⟨hm, hk⟩
    have ha : t.allocated = true := by
      cases hall : t.allocated with
      | true => rfl
      | false => have := hi.unalloc hall; rw [this] at hm; simp at hm
    simp only [ha, if_true]
    have hc : (t.items id).cell = h k % t.cap := by rw [hi.cell_eq id hm, hk]
    have hin : id ∈ t.data (h k % t.cap) := (hi.chain_iff ha _ _).2 ⟨hm, hc⟩
    cases hcf : chainFind t.items k (t.data (h k % t.cap)) with
    | none => exact absurd hk (chainFind_none hcf id hin)
    | some id' =>
      have h' := chainFind_some hcf
      have hm' := ((hi.chain_iff ha _ _).1 h'.1).1
      rw [hi.key_inj hm' hm (by rw [h'.2, hk])]

theorem Table.Inv.find_none_iff {h : Nat → Nat} {t : Table} (hi : t.Inv h) (k : Nat) :
    t.find h k = none ↔ ∀ id ∈ t.order, (t.items id).key ≠ k := by
  constructor
  · intro hf id hm hk
    have := (hi.find_some_iff k id).2 ⟨hm, hk⟩
    rw [hf] at this
    cases this
  · intro hall
    cases hf : t.find h k with
    | none => rfl
    | some id =>
      have := (hi.find_some_iff k id).1 hf
      exact absurd this.2 (hall id this.1)

/-! ### the abstraction: iteration = `order.map entry` -/

theorem lookup_map_some (items : Nat → Item) (k id : Nat) (l : List Nat)
    (hn : (l.map (fun j => (items j).key)).Nodup) (hm : id ∈ l) (hk : (items id).key = k) :
    Spec.lookup k (l.map (fun j => ((items j).key, (items j).value))) = some (posOf id l, (items id).value) := by
  induction l with
  | nil => simp at hm
  | cons x xs ih =>
    rw [List.map_cons, List.nodup_cons] at hn
    simp only [List.map_cons, Spec.lookup, posOf]
    by_cases hx : x = id
    · subst hx
      simp [hk]
    · have hm' : id ∈ xs := by
        rcases List.mem_cons.1 hm with e | e
        · exact absurd e.symm hx
        · exact e
      have hkx : (items x).key ≠ k := by
        intro e
        apply hn.1
        have : (items x).key = (fun j => (items j).key) id := by simp [e, hk]
        rw [this]
        exact List.mem_map_of_mem hm'
      simp only [hkx, hx, if_false]
      rw [ih hn.2 hm']
      rfl

theorem lookup_map_none (items : Nat → Item) (k : Nat) (l : List Nat)
    (hall : ∀ id ∈ l, (items id).key ≠ k) :
    Spec.lookup k (l.map (fun j => ((items j).key, (items j).value))) = none := by
  induction l with
  | nil => rfl
  | cons x xs ih =>
    have hx : (items x).key ≠ k := hall x List.mem_cons_self
    simp only [List.map_cons, Spec.lookup, hx, if_false]
    rw [ih (fun id hid => hall id (List.mem_cons_of_mem _ hid))]
    rfl

theorem Table.iterate_eq (t : Table) :
    t.iterate = t.order.map (fun j => ((t.items j).key, (t.items j).value)) := rfl

theorem Table.keys_iterate (t : Table) : Spec.keys t.iterate = t.order.map (fun j => (t.items j).key) := by
  simp [Table.iterate_eq, Spec.keys, List.map_map, Function.comp_def]

/-- `find` against the specification's `lookup` -/
theorem Table.Inv.lookup_iterate {h : Nat → Nat} {t : Table} (hi : t.Inv h) (k : Nat) :
    Spec.lookup k t.iterate = (t.find h k).map (fun id => (posOf id t.order, (t.items id).value)) := by
  rw [Table.iterate_eq]
  cases hf : t.find h k with
  | none => exact lookup_map_none _ _ _ ((hi.find_none_iff k).1 hf)
  | some id =>
    have := (hi.find_some_iff k id).1 hf
    exact lookup_map_some _ _ _ _ hi.keys_nodup this.1 this.2

theorem Table.Inv.mem_keys_iff {h : Nat → Nat} {t : Table} (hi : t.Inv h) (k : Nat) :
    k ∈ Spec.keys t.iterate ↔ (t.find h k).isSome = true := by
  rw [Table.keys_iterate]
  cases hf : t.find h k with
  | none =>
    have := (hi.find_none_iff k).1 hf
    simp only [Option.isSome_none, Bool.false_eq_true, iff_false, List.mem_map, not_exists, not_and]
    exact fun id hm => this id hm
  | some id =>
    have := (hi.find_some_iff k id).1 hf
    simp only [Option.isSome_some, iff_true, List.mem_map]
    exact ⟨id, this.1, this.2⟩

end Nstd.Hash
