import Nstd.Generated.HashFn
/-
  Range of the usize operations the hash-function translator emits (`Nstd/Generated/HashFn.lean`): every one yields a
  value `< M = 2 ^ usizeBits`.  `hash_bound` closes a goal `f … < M` by the outermost operation of `f`.
-/
namespace Nstd.Hash
open Nstd.Generated.HashFn

theorem M_pos : 0 < M := by decide

theorem castInt_lt (w1 : Nat) (s1 : Bool) (w2 x : Nat) : castInt w1 s1 w2 x < 2 ^ w2 :=
  Nat.mod_lt _ (Nat.pow_pos (by decide))

theorem castInt_lt_M (w1 : Nat) (s1 : Bool) (x : Nat) : castInt w1 s1 usizeBits x < M := castInt_lt w1 s1 usizeBits x
theorem uadd_lt_M (a b : Nat) : uadd a b < M := Nat.mod_lt _ M_pos
theorem usub_lt_M (a b : Nat) : usub a b < M := Nat.mod_lt _ M_pos
theorem umul_lt_M (a b : Nat) : umul a b < M := Nat.mod_lt _ M_pos
theorem ushl_lt_M (a b : Nat) : ushl a b < M := Nat.mod_lt _ M_pos
theorem udiv_lt_M (a b : Nat) : udiv a b < M := Nat.lt_of_le_of_lt (Nat.div_le_self _ _) (Nat.mod_lt _ M_pos)
theorem umod_lt_M (a b : Nat) : umod a b < M := Nat.lt_of_le_of_lt (Nat.mod_le _ _) (Nat.mod_lt _ M_pos)
theorem ushr_lt_M (a b : Nat) : ushr a b < M := Nat.lt_of_le_of_lt (Nat.shiftRight_le _ _) (Nat.mod_lt _ M_pos)
theorem uxor_lt_M (a b : Nat) : uxor a b < M :=
  Nat.xor_lt_two_pow (n := usizeBits) (Nat.mod_lt _ M_pos) (Nat.mod_lt _ M_pos)
theorem uand_lt_M (a b : Nat) : uand a b < M := Nat.lt_of_le_of_lt Nat.and_le_left (Nat.mod_lt _ M_pos)
theorem uor_lt_M (a b : Nat) : uor a b < M :=
  Nat.or_lt_two_pow (n := usizeBits) (Nat.mod_lt _ M_pos) (Nat.mod_lt _ M_pos)

/-- `f … < M` by the outermost usize operation of the (translated) function -/
macro "hash_bound" : tactic =>
  `(tactic| first
    | exact castInt_lt_M _ _ _ | exact uadd_lt_M _ _ | exact usub_lt_M _ _ | exact umul_lt_M _ _ | exact ushl_lt_M _ _
    | exact udiv_lt_M _ _ | exact umod_lt_M _ _ | exact ushr_lt_M _ _ | exact uxor_lt_M _ _ | exact uand_lt_M _ _
    | exact uor_lt_M _ _)

end Nstd.Hash
