import Nstd.Hash.LemmasStep
/-
  The class constants (items per block, default capacity) carried by every table never change.
-/
namespace Nstd.Hash
open Table

/-- the pair of class constants of a table -/
def Table.consts (t : Table) : Nat × Nat := (t.ipb, t.dcap)

theorem insert_consts (kind : Kind) (h : Nat → Nat) (t : Table) (pos k v : Nat) :
    (t.insert kind h pos k v).1.consts = t.consts := by
  unfold Table.insert
  cases t.find h k with
  | none => rfl
  | some id => by_cases hk : kind = Kind.map <;> simp [hk, Table.consts]

theorem removeKey_consts (h : Nat → Nat) (t : Table) (k : Nat) : (t.removeKey h k).consts = t.consts := by
  unfold Table.removeKey
  cases t.find h k <;> rfl

theorem setValue_consts (h : Nat → Nat) (t : Table) (k v : Nat) : (t.setValue h k v).consts = t.consts := by
  unfold Table.setValue
  cases t.find h k <;> rfl

theorem appendAll_consts (kind : Kind) (h : Nat → Nat) (oitems : Nat → Item) (l : List Nat) (t : Table) :
    (Table.appendAll kind h t oitems l).consts = t.consts := by
  induction l generalizing t with
  | nil => rfl
  | cons x r ih => simp only [Table.appendAll]; rw [ih]; exact insert_consts _ _ _ _ _ _

theorem removeAll_consts (h : Nat → Nat) (oitems : Nat → Item) (l : List Nat) (t : Table) :
    (Table.removeAll h t oitems l).consts = t.consts := by
  induction l generalizing t with
  | nil => rfl
  | cons x r ih => simp only [Table.removeAll]; rw [ih]; exact removeKey_consts _ _ _

theorem removeAtPos_consts (t t' : Table) (pos p : Nat) (hr : removeAtPos t pos = some (t', p)) : t'.consts = t.consts := by
  unfold removeAtPos at hr
  cases hg : t.order[pos]? with
  | none => rw [hg] at hr; cases hr
  | some id => rw [hg] at hr; simp only [Option.some.injEq, Prod.mk.injEq] at hr; rw [← hr.1]; rfl

/-- both tables carry the constants `c` -/
def CInv (c : Nat × Nat) (s : State) : Prop := s.a.consts = c ∧ s.b.consts = c

theorem CInv.get {c : Nat × Nat} {s : State} (hc : CInv c s) (t : Bool) : (s.get t).consts = c := by
  cases t <;> simp [State.get, hc.1, hc.2]

theorem CInv.set {c : Nat × Nat} {s : State} (hc : CInv c s) (t : Bool) {x : Table} (hx : x.consts = c) :
    CInv c (s.set t x) := by
  cases t <;> simp only [State.set, CInv] <;> simp [hc.1, hc.2, hx]

theorem step_consts (kind : Kind) (h : Nat → Nat) (c : Nat × Nat) (s s' : State) (op : Op) (o : Out)
    (hc : CInv c s) (hst : step kind h s op = some (s', o)) : CInv c s' := by
  by_cases hav : op.available kind = true
  case neg => simp [step, hav] at hst
  have hg := fun t => hc.get t
  have hipb : ∀ t, (s.get t).ipb = c.1 := fun t => by rw [← hg t]; rfl
  have hdcap : ∀ t, (s.get t).dcap = c.2 := fun t => by rw [← hg t]; rfl
  cases op <;> simp only [step, hav, Bool.not_true, Bool.false_eq_true, if_false] at hst
  case construct t cap => cases hst; exact hc.set t (by simp [Table.construct, Table.fresh, Table.consts, hipb, hdcap])
  case constructDefault t => cases hst; exact hc.set t (by simp [Table.constructDefault, Table.fresh, Table.consts, hipb, hdcap])
  case copyFrom t =>
    cases hst
    exact hc.set t (by unfold Table.copyOf; rw [appendAll_consts]; simp [Table.fresh, Table.consts, hipb, hdcap])
  case assign t =>
    cases hst
    exact hc.set t (by unfold Table.assignFrom; rw [appendAll_consts]; exact hg t)
  case append t k v => cases hst; exact hc.set t (by rw [Table.append, insert_consts]; exact hg t)
  case prepend t k v => cases hst; exact hc.set t (by rw [Table.prepend, insert_consts]; exact hg t)
  case insert t pos k v =>
    split at hst
    · cases hst; exact hc.set t (by rw [insert_consts]; exact hg t)
    · cases hst
  case removeKey t k => cases hst; exact hc.set t (by rw [removeKey_consts]; exact hg t)
  case removeAt t pos =>
    cases hr : removeAtPos (s.get t) pos with
    | none => rw [hr] at hst; cases hst
    | some r => obtain ⟨t', p⟩ := r; rw [hr] at hst; cases hst; exact hc.set t (by rw [removeAtPos_consts _ _ _ _ hr]; exact hg t)
  case removeValue t pos =>
    cases hr : removeAtPos (s.get t) pos with
    | none => rw [hr] at hst; cases hst
    | some r => obtain ⟨t', p⟩ := r; rw [hr] at hst; cases hst; exact hc.set t (by rw [removeAtPos_consts _ _ _ _ hr]; exact hg t)
  case removeFront t =>
    cases hr : removeAtPos (s.get t) 0 with
    | none => rw [hr] at hst; cases hst
    | some r => obtain ⟨t', p⟩ := r; rw [hr] at hst; cases hst; exact hc.set t (by rw [removeAtPos_consts _ _ _ _ hr]; exact hg t)
  case removeBack t =>
    split at hst
    · cases hst
    · cases hr : removeAtPos (s.get t) ((s.get t).order.length - 1) with
      | none => rw [hr] at hst; cases hst
      | some r => obtain ⟨t', p⟩ := r; rw [hr] at hst; cases hst; exact hc.set t (by rw [removeAtPos_consts _ _ _ _ hr]; exact hg t)
  case clear t => cases hst; exact hc.set t (hg t)
  case swap t => cases hst; exact (hc.set t (hg (!t))).set (!t) (hg t)
  case appendAll t => cases hst; exact hc.set t (by rw [appendAll_consts]; exact hg t)
  case removeAll t => cases hst; exact hc.set t (by rw [removeAll_consts]; exact hg t)
  case setValue t k v => cases hst; exact hc.set t (by rw [setValue_consts]; exact hg t)
  case assignSelf t => cases hst; exact hc
  case swapSelf t => cases hst; exact hc
  case appendSelf t => cases hst; exact hc.set t (by rw [appendAll_consts]; exact hg t)
  case removeSelf t => cases hst; exact hc.set t (by rw [removeAll_consts]; exact hg t)
  case find t k => cases hst; exact hc
  case contains t k => cases hst; exact hc
  case size t => cases hst; exact hc
  case isEmpty t => cases hst; exact hc
  case iterate t => cases hst; exact hc
  case front t => split at hst <;> first | (cases hst; exact hc) | cases hst
  case back t => split at hst <;> first | (cases hst; exact hc) | cases hst
  case equal t u => split at hst <;> first | (cases hst; exact hc) | cases hst
  case notEqual t u => split at hst <;> first | (cases hst; exact hc) | cases hst
  case iterBack t => cases hst; exact hc
  case entryAt t pos => split at hst <;> first | (cases hst; exact hc) | cases hst

theorem run_consts (kind : Kind) (h : Nat → Nat) (c : Nat × Nat) (ops : List Op) (s s' : State) (outs : List Out)
    (hc : CInv c s) (hr : run kind h s ops = some (s', outs)) : CInv c s' := by
  induction ops generalizing s outs with
  | nil => simp only [run, Option.some.injEq, Prod.mk.injEq] at hr; exact hr.1 ▸ hc
  | cons op ops ih =>
    simp only [run] at hr
    cases hst : step kind h s op with
    | none => rw [hst] at hr; cases hr
    | some r =>
      obtain ⟨s1, o⟩ := r
      rw [hst] at hr
      simp only at hr
      cases hrr : run kind h s1 ops with
      | none => rw [hrr] at hr; cases hr
      | some r2 =>
        obtain ⟨s2, os⟩ := r2
        rw [hrr] at hr
        simp only [Option.some.injEq, Prod.mk.injEq] at hr
        obtain ⟨e1, _⟩ := hr
        subst e1
        exact ih s1 os (step_consts kind h c s s1 op o hc hst) hrr

end Nstd.Hash
