import Nstd.Hash.LemmasBulk
/-
  One step of the two-table machine against one step of the specification.
-/
namespace Nstd.Hash
open Table

/-- both tables satisfy the representation invariant -/
def SInv (h : Nat → Nat) (s : State) : Prop := s.a.Inv h ∧ s.b.Inv h

/-- abstraction: the two iteration lists -/
def abs (s : State) : Spec.SState := ⟨s.a.iterate, s.b.iterate⟩

theorem SInv.get {h : Nat → Nat} {s : State} (hs : SInv h s) (t : Bool) : (s.get t).Inv h := by
  cases t <;> simp [State.get, hs.1, hs.2]

theorem SInv.set {h : Nat → Nat} {s : State} (hs : SInv h s) (t : Bool) {x : Table} (hx : x.Inv h) :
    SInv h (s.set t x) := by
  cases t <;> simp only [State.set, SInv] <;> simp [hs.1, hs.2, hx]

theorem abs_get (s : State) (t : Bool) : (abs s).get t = (s.get t).iterate := by
  cases t <;> rfl

theorem abs_set (s : State) (t : Bool) (x : Table) : abs (s.set t x) = (abs s).set t x.iterate := by
  cases t <;> rfl

theorem get_set_same (s : State) (t : Bool) (x : Table) : (s.set t x).get t = x := by
  cases t <;> rfl

theorem get_set_other (s : State) (t : Bool) (x : Table) : (s.set t x).get (!t) = s.get (!t) := by
  cases t <;> rfl

theorem initWith_inv (h : Nat → Nat) (ipb dcap : Nat) (hk : 0 < ipb) (hd : 0 < dcap) : SInv h (initWith ipb dcap) :=
  ⟨constructDefault_inv h ipb dcap hk hd, constructDefault_inv h ipb dcap hk hd⟩

theorem init_inv (h : Nat → Nat) : SInv h init := initWith_inv h 4 500 (by decide) (by decide)

theorem abs_initWith (ipb dcap : Nat) : abs (initWith ipb dcap) = Spec.init := rfl

theorem abs_init : abs init = Spec.init := rfl

/-! ### remove by iterator -/

theorem removeAtPos_some {h : Nat → Nat} {t : Table} (hi : t.Inv h) (pos : Nat) (hp : pos < t.order.length) :
    ∃ t', removeAtPos t pos = some (t', pos) ∧ t'.Inv h ∧ t'.iterate = t.iterate.eraseIdx pos := by
  unfold removeAtPos
  have hg : t.order[pos]? = some t.order[pos] := List.getElem?_eq_getElem hp
  rw [hg]
  have hm : t.order[pos] ∈ t.order := List.getElem_mem hp
  have hr := hi.removeItem t.order[pos] hm
  have hpos := posOf_getElem? t.order pos _ hi.order_nodup hg
  refine ⟨t.removeItem t.order[pos], ?_, hr.1, by rw [hr.2.1, hpos]⟩
  have := iterPos_erase t.order pos _ hi.order_nodup hg
  simp only [Table.removeItem]
  rw [this]

theorem removeAtPos_none (t : Table) (pos : Nat) (hp : ¬ pos < t.order.length) : removeAtPos t pos = none := by
  unfold removeAtPos
  have : t.order[pos]? = none := List.getElem?_eq_none (by omega)
  rw [this]

theorem shown_eq (kind : Kind) (t : Table) (id : Nat) : shown kind t id = Spec.shown kind (t.entry id) := rfl

theorem head?_iterate (t : Table) : t.iterate.head? = t.order.head?.map t.entry := by
  simp [Table.iterate, List.head?_map]

theorem getLast?_iterate (t : Table) : t.iterate.getLast? = t.order.getLast?.map t.entry := by
  simp [Table.iterate, List.getLast?_map]

/-! ### one step -/

theorem step_refines (kind : Kind) (h : Nat → Nat) (s : State) (op : Op) (hs : SInv h s) :
    (step kind h s op).map (fun r => (abs r.1, r.2)) = Spec.step kind (abs s) op ∧
    ∀ s' o, step kind h s op = some (s', o) → SInv h s' := by
  by_cases hav : op.available kind = true
  case neg => simp [step, Spec.step, hav]
  cases op with
  | construct t cap =>
    simp only [step, Spec.step, hav, Bool.not_true, Bool.false_eq_true, if_false, Option.map_some, abs_set]
    refine ⟨by first | trivial | rfl, fun s' o e => by cases e; exact hs.set t (construct_inv h _ _ cap (hs.get t).ipb_pos (hs.get t).dcap_pos)⟩
  | constructDefault t =>
    simp only [step, Spec.step, hav, Bool.not_true, Bool.false_eq_true, if_false, Option.map_some, abs_set]
    refine ⟨by first | trivial | rfl, fun s' o e => by cases e; exact hs.set t (constructDefault_inv h _ _ (hs.get t).ipb_pos (hs.get t).dcap_pos)⟩
  | copyFrom t =>
    have := (hs.get (!t)).copyOf kind
    simp only [step, Spec.step, hav, Bool.not_true, Bool.false_eq_true, if_false, Option.map_some, abs_set, abs_get, this.2]
    refine ⟨by first | trivial | rfl, fun s' o e => by cases e; exact hs.set t this.1⟩
  | assign t =>
    have := (hs.get t).assignFrom (hs.get (!t)) kind
    simp only [step, Spec.step, hav, Bool.not_true, Bool.false_eq_true, if_false, Option.map_some, abs_set, abs_get, this.2]
    refine ⟨by first | trivial | rfl, fun s' o e => by cases e; exact hs.set t this.1⟩
  | append t k v =>
    have := (hs.get t).insert kind (s.get t).order.length k v (Nat.le_refl _)
    simp only [step, Spec.step, hav, Bool.not_true, Bool.false_eq_true, if_false, Option.map_some, abs_set, abs_get,
      Table.append, this.2.1, this.2.2.2, iterate_length]
    refine ⟨by first | trivial | rfl, fun s' o e => by cases e; exact hs.set t this.1⟩
  | prepend t k v =>
    have := (hs.get t).insert kind 0 k v (Nat.zero_le _)
    simp only [step, Spec.step, hav, Bool.not_true, Bool.false_eq_true, if_false, Option.map_some, abs_set, abs_get,
      Table.prepend, this.2.1, this.2.2.2]
    refine ⟨by first | trivial | rfl, fun s' o e => by cases e; exact hs.set t this.1⟩
  | insert t pos k v =>
    simp only [step, Spec.step, hav, Bool.not_true, Bool.false_eq_true, if_false, abs_get, iterate_length]
    by_cases hp : pos ≤ (s.get t).order.length
    · have := (hs.get t).insert kind pos k v hp
      simp only [hp, if_true, Option.map_some, abs_set, this.2.1, this.2.2.1]
      refine ⟨by first | trivial | rfl, fun s' o e => by cases e; exact hs.set t this.1⟩
    · simp [hp]
  | removeKey t k =>
    have := (hs.get t).removeKey k
    simp only [step, Spec.step, hav, Bool.not_true, Bool.false_eq_true, if_false, Option.map_some, abs_set, abs_get, this.2]
    refine ⟨by first | trivial | rfl, fun s' o e => by cases e; exact hs.set t this.1⟩
  | removeAt t pos =>
    simp only [step, Spec.step, hav, Bool.not_true, Bool.false_eq_true, if_false, abs_get, iterate_length]
    by_cases hp : pos < (s.get t).order.length
    · obtain ⟨t', h1, h2, h3⟩ := removeAtPos_some (hs.get t) pos hp
      simp only [h1, hp, if_true, Option.map_some, abs_set, h3]
      refine ⟨by first | trivial | rfl, fun s' o e => by cases e; exact hs.set t h2⟩
    · simp [removeAtPos_none _ pos hp, hp]
  | removeValue t pos =>
    simp only [step, Spec.step, hav, Bool.not_true, Bool.false_eq_true, if_false, abs_get, iterate_length]
    by_cases hp : pos < (s.get t).order.length
    · obtain ⟨t', h1, h2, h3⟩ := removeAtPos_some (hs.get t) pos hp
      simp only [h1, hp, if_true, Option.map_some, abs_set, h3]
      refine ⟨by first | trivial | rfl, fun s' o e => by cases e; exact hs.set t h2⟩
    · simp [removeAtPos_none _ pos hp, hp]
  | removeFront t =>
    simp only [step, Spec.step, hav, Bool.not_true, Bool.false_eq_true, if_false, abs_get, iterate_length]
    by_cases hp : 0 < (s.get t).order.length
    · obtain ⟨t', h1, h2, h3⟩ := removeAtPos_some (hs.get t) 0 hp
      simp only [h1, hp, if_true, Option.map_some, abs_set, h3]
      refine ⟨by first | trivial | rfl, fun s' o e => by cases e; exact hs.set t h2⟩
    · simp [removeAtPos_none _ 0 hp, hp]
  | removeBack t =>
    simp only [step, Spec.step, hav, Bool.not_true, Bool.false_eq_true, if_false, abs_get, iterate_length]
    by_cases hp : 0 < (s.get t).order.length
    · have hp' : (s.get t).order.length - 1 < (s.get t).order.length := by omega
      have hne : ¬ (s.get t).order.length = 0 := by omega
      obtain ⟨t', h1, h2, h3⟩ := removeAtPos_some (hs.get t) _ hp'
      simp only [h1, hp, hne, if_true, if_false, Option.map_some, abs_set, h3]
      refine ⟨by first | trivial | rfl, fun s' o e => by cases e; exact hs.set t h2⟩
    · have : (s.get t).order.length = 0 := by omega
      simp [this]
  | clear t =>
    have := (hs.get t).clear
    simp only [step, Spec.step, hav, Bool.not_true, Bool.false_eq_true, if_false, Option.map_some, abs_set, this.2]
    refine ⟨by first | trivial | rfl, fun s' o e => by cases e; exact hs.set t this.1⟩
  | swap t =>
    simp only [step, Spec.step, hav, Bool.not_true, Bool.false_eq_true, if_false, Option.map_some, abs_set, abs_get]
    refine ⟨by first | trivial | rfl, fun s' o e => by cases e; exact (hs.set t (hs.get (!t))).set (!t) (hs.get t)⟩
  | appendAll t =>
    have := (hs.get t).appendAll kind (s.get (!t)).items (s.get (!t)).order
    simp only [step, Spec.step, hav, Bool.not_true, Bool.false_eq_true, if_false, Option.map_some, abs_set, abs_get,
      this.2, ← Table.iterate_eq]
    refine ⟨by first | trivial | rfl, fun s' o e => by cases e; exact hs.set t this.1⟩
  | removeAll t =>
    have := (hs.get t).removeAll (s.get (!t)).items (s.get (!t)).order
    simp only [step, Spec.step, hav, Bool.not_true, Bool.false_eq_true, if_false, Option.map_some, abs_set, abs_get,
      this.2, ← Table.iterate_eq]
    refine ⟨by first | trivial | rfl, fun s' o e => by cases e; exact hs.set t this.1⟩
  | setValue t k v =>
    have := (hs.get t).setValue k v
    simp only [step, Spec.step, hav, Bool.not_true, Bool.false_eq_true, if_false, Option.map_some, abs_set, abs_get, this.2]
    refine ⟨by first | trivial | rfl, fun s' o e => by cases e; exact hs.set t this.1⟩
  | assignSelf t =>
    simp only [step, Spec.step, hav, Bool.not_true, Bool.false_eq_true, if_false, Option.map_some]
    refine ⟨by first | trivial | rfl, fun s' o e => by cases e; exact hs⟩
  | swapSelf t =>
    simp only [step, Spec.step, hav, Bool.not_true, Bool.false_eq_true, if_false, Option.map_some]
    refine ⟨by first | trivial | rfl, fun s' o e => by cases e; exact hs⟩
  | appendSelf t =>
    have := (hs.get t).appendAll kind (s.get t).items (s.get t).order
    simp only [step, Spec.step, hav, Bool.not_true, Bool.false_eq_true, if_false, Option.map_some, abs_set, abs_get,
      this.2, ← Table.iterate_eq]
    refine ⟨by first | trivial | rfl, fun s' o e => by cases e; exact hs.set t this.1⟩
  | removeSelf t =>
    have := (hs.get t).removeAll (s.get t).items (s.get t).order
    simp only [step, Spec.step, hav, Bool.not_true, Bool.false_eq_true, if_false, Option.map_some, abs_set, abs_get,
      this.2, ← Table.iterate_eq]
    refine ⟨by first | trivial | rfl, fun s' o e => by cases e; exact hs.set t this.1⟩
  | find t k =>
    simp only [step, Spec.step, hav, Bool.not_true, Bool.false_eq_true, if_false, Option.map_some, abs_get,
      (hs.get t).lookup_iterate k, Option.map_map, Function.comp_def]
    refine ⟨by first | trivial | rfl, fun s' o e => by cases e; exact hs⟩
  | contains t k =>
    simp only [step, Spec.step, hav, Bool.not_true, Bool.false_eq_true, if_false, Option.map_some, abs_get,
      (hs.get t).mem_keys_iff k]
    refine ⟨?_, fun s' o e => by cases e; exact hs⟩
    cases ((s.get t).find h k).isSome <;> simp
  | size t =>
    simp only [step, Spec.step, hav, Bool.not_true, Bool.false_eq_true, if_false, Option.map_some, abs_get,
      iterate_length, (hs.get t).size_eq]
    refine ⟨by first | trivial | rfl, fun s' o e => by cases e; exact hs⟩
  | isEmpty t =>
    simp only [step, Spec.step, hav, Bool.not_true, Bool.false_eq_true, if_false, Option.map_some, abs_get]
    refine ⟨?_, fun s' o e => by cases e; exact hs⟩
    simp [Table.isEmpty, Table.iterate]
  | iterate t =>
    simp only [step, Spec.step, hav, Bool.not_true, Bool.false_eq_true, if_false, Option.map_some, abs_get]
    refine ⟨by first | trivial | rfl, fun s' o e => by cases e; exact hs⟩
  | front t =>
    simp only [step, Spec.step, hav, Bool.not_true, Bool.false_eq_true, if_false, abs_get, head?_iterate]
    cases hh : (s.get t).order.head? with
    | none => simp
    | some id =>
      simp only [Option.map_some, shown_eq]
      refine ⟨by first | trivial | rfl, fun s' o e => by cases e; exact hs⟩
  | back t =>
    simp only [step, Spec.step, hav, Bool.not_true, Bool.false_eq_true, if_false, abs_get, getLast?_iterate]
    cases hh : (s.get t).order.getLast? with
    | none => simp
    | some id =>
      simp only [Option.map_some, shown_eq]
      refine ⟨by first | trivial | rfl, fun s' o e => by cases e; exact hs⟩
  | equal t u =>
    simp only [step, Spec.step, hav, Bool.not_true, Bool.false_eq_true, if_false, abs_get,
      (hs.get t).equal (hs.get u) kind, Option.map_some]
    refine ⟨by first | trivial | rfl, fun s' o e => by cases e; exact hs⟩
  | notEqual t u =>
    simp only [step, Spec.step, hav, Bool.not_true, Bool.false_eq_true, if_false, abs_get,
      (hs.get t).equal (hs.get u) kind, Option.map_some]
    refine ⟨by first | trivial | rfl, fun s' o e => by cases e; exact hs⟩
  | iterBack t =>
    simp only [step, Spec.step, hav, Bool.not_true, Bool.false_eq_true, if_false, Option.map_some, abs_get]
    refine ⟨?_, fun s' o e => by cases e; exact hs⟩
    simp [Table.iterate, List.map_reverse]
  | entryAt t pos =>
    simp only [step, Spec.step, hav, Bool.not_true, Bool.false_eq_true, if_false, abs_get]
    have hg : (s.get t).iterate[pos]? = ((s.get t).order[pos]?).map (s.get t).entry := by
      simp [Table.iterate, List.getElem?_map]
    rw [hg]
    cases hh : (s.get t).order[pos]? with
    | none => simp
    | some id =>
      simp only [Option.map_some]
      refine ⟨by first | trivial | rfl, fun s' o e => by cases e; exact hs⟩

end Nstd.Hash
