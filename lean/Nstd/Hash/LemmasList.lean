import Nstd.Hash.Spec
/-
  List facts used by the Hash proofs (core Lean only).
-/
namespace Nstd.Hash

theorem mem_insertAt {α : Type} (p : Nat) (a x : α) (l : List α) :
    x ∈ insertAt p a l ↔ x = a ∨ x ∈ l := by
  unfold insertAt
  constructor
  · intro hx
    rcases List.mem_append.1 hx with h | h
    · exact Or.inr (List.mem_of_mem_take h)
    · rcases List.mem_cons.1 h with h | h
      · exact Or.inl h
      · exact Or.inr (List.mem_of_mem_drop h)
  · intro hx
    rcases hx with h | h
    · subst h; exact List.mem_append.2 (Or.inr List.mem_cons_self)
    · have : x ∈ l.take p ++ l.drop p := by rw [List.take_append_drop]; exact h
      rcases List.mem_append.1 this with h' | h'
      · exact List.mem_append.2 (Or.inl h')
      · exact List.mem_append.2 (Or.inr (List.mem_cons_of_mem _ h'))

theorem map_insertAt {α β : Type} (f : α → β) (p : Nat) (a : α) (l : List α) :
    (insertAt p a l).map f = insertAt p (f a) (l.map f) := by
  simp [insertAt, List.map_take, List.map_drop]

theorem length_insertAt {α : Type} (p : Nat) (a : α) (l : List α) :
    (insertAt p a l).length = l.length + 1 := by
  have h := List.take_append_drop p l
  have : (l.take p).length + (l.drop p).length = l.length := by
    rw [← List.length_append, h]
  simp only [insertAt, List.length_append, List.length_cons]
  omega

theorem perm_insertAt {α : Type} (p : Nat) (a : α) (l : List α) : (insertAt p a l).Perm (a :: l) := by
  have h : (l.take p ++ a :: l.drop p).Perm (a :: (l.take p ++ l.drop p)) := List.perm_middle
  rw [List.take_append_drop] at h
  exact h

theorem nodup_insertAt {α : Type} (p : Nat) (a : α) (l : List α) (ha : a ∉ l) (hl : l.Nodup) :
    (insertAt p a l).Nodup :=
  (perm_insertAt p a l).nodup_iff.2 (List.nodup_cons.2 ⟨ha, hl⟩)

theorem insertAt_zero {α : Type} (a : α) (l : List α) : insertAt 0 a l = a :: l := by
  simp [insertAt]

theorem insertAt_length {α : Type} (a : α) (l : List α) : insertAt l.length a l = l ++ [a] := by
  simp [insertAt]

theorem insertAt_cons_succ {α : Type} (p : Nat) (a x : α) (l : List α) :
    insertAt (p + 1) a (x :: l) = x :: insertAt p a l := by
  simp [insertAt]

/-! ### posOf -/

theorem posOf_le (a : Nat) (l : List Nat) : posOf a l ≤ l.length := by
  induction l with
  | nil => simp [posOf]
  | cons x xs ih => simp only [posOf]; split <;> simp <;> omega

theorem posOf_lt_iff (a : Nat) (l : List Nat) : posOf a l < l.length ↔ a ∈ l := by
  induction l with
  | nil => simp [posOf]
  | cons x xs ih =>
    simp only [posOf]
    by_cases h : x = a
    · simp [h]
    · simp only [h, if_false, List.length_cons, List.mem_cons]
      constructor
      · intro hlt; exact Or.inr (ih.1 (by omega))
      · intro hm
        rcases hm with hm | hm
        · exact absurd hm.symm h
        · have := ih.2 hm; omega

theorem posOf_not_mem (a : Nat) (l : List Nat) (h : a ∉ l) : posOf a l = l.length := by
  have h1 := posOf_le a l
  have h2 := (posOf_lt_iff a l)
  by_cases hlt : posOf a l < l.length
  · exact absurd (h2.1 hlt) h
  · omega

theorem getElem?_posOf (a : Nat) (l : List Nat) (h : a ∈ l) : l[posOf a l]? = some a := by
  induction l with
  | nil => simp at h
  | cons x xs ih =>
    simp only [posOf]
    by_cases hx : x = a
    · simp [hx]
    · simp only [hx, if_false, List.getElem?_cons_succ]
      rcases List.mem_cons.1 h with h | h
      · exact absurd h.symm hx
      · exact ih h

theorem posOf_insertAt (p a : Nat) (l : List Nat) (ha : a ∉ l) (hp : p ≤ l.length) :
    posOf a (insertAt p a l) = p := by
  induction l generalizing p with
  | nil =>
    have : p = 0 := by simpa using hp
    subst this
    simp [insertAt, posOf]
  | cons x xs ih =>
    cases p with
    | zero => simp [insertAt_zero, posOf]
    | succ q =>
      rw [insertAt_cons_succ]
      have hx : x ≠ a := fun e => ha (by simp [e])
      simp only [posOf, hx, if_false]
      rw [ih q (fun hm => ha (List.mem_cons_of_mem _ hm)) (by simpa using hp)]

/-- position of the image of `a` under a map that is injective on the list -/
theorem posOf_map (f : Nat → Nat) (a : Nat) (l : List Nat)
    (hinj : ∀ x ∈ l, f x = f a → x = a) : posOf (f a) (l.map f) = posOf a l := by
  induction l with
  | nil => simp [posOf]
  | cons x xs ih =>
    simp only [List.map_cons, posOf]
    by_cases hx : x = a
    · simp [hx]
    · have : f x ≠ f a := fun e => hx (hinj x List.mem_cons_self e)
      simp only [hx, this, if_false]
      rw [ih (fun y hy => hinj y (List.mem_cons_of_mem _ hy))]

/-! ### erase on duplicate-free lists -/

theorem erase_cons_ne (x id : Nat) (xs : List Nat) (h : x ≠ id) : (x :: xs).erase id = x :: xs.erase id := by
  simp [List.erase_cons, h]

theorem erase_map_eraseIdx {β : Type} (f : Nat → β) (l : List Nat) (p id : Nat)
    (hn : l.Nodup) (hp : l[p]? = some id) : (l.erase id).map f = (l.map f).eraseIdx p := by
  induction l generalizing p with
  | nil => simp at hp
  | cons x xs ih =>
    rw [List.nodup_cons] at hn
    cases p with
    | zero =>
      have : x = id := by simpa using hp
      subst this
      simp
    | succ q =>
      have hq : xs[q]? = some id := by simpa using hp
      have hmem : id ∈ xs := List.mem_of_getElem? hq
      have hx : x ≠ id := fun e => hn.1 (e ▸ hmem)
      rw [erase_cons_ne x id xs hx]
      simp only [List.map_cons, List.eraseIdx_cons_succ]
      rw [ih q hn.2 hq]

theorem posOf_getElem? (l : List Nat) (p id : Nat) (hn : l.Nodup) (hp : l[p]? = some id) :
    posOf id l = p := by
  induction l generalizing p with
  | nil => simp at hp
  | cons x xs ih =>
    rw [List.nodup_cons] at hn
    cases p with
    | zero =>
      have : x = id := by simpa using hp
      simp [posOf, this]
    | succ q =>
      have hq : xs[q]? = some id := by simpa using hp
      have hmem : id ∈ xs := List.mem_of_getElem? hq
      have hx : x ≠ id := fun e => hn.1 (e ▸ hmem)
      simp only [posOf, hx, if_false]
      rw [ih q hn.2 hq]

/-- the iterator `remove` returns (`item->next`) designates the position the removed item had -/
theorem iterPos_erase (l : List Nat) (p id : Nat) (hn : l.Nodup) (hp : l[p]? = some id) :
    iterPos (l.erase id) l[p + 1]? = p := by
  induction l generalizing p with
  | nil => simp at hp
  | cons x xs ih =>
    rw [List.nodup_cons] at hn
    cases p with
    | zero =>
      have : x = id := by simpa using hp
      subst this
      simp only [List.erase_cons_head, Nat.zero_add, List.getElem?_cons_succ]
      cases hxs : xs with
      | nil => simp [iterPos]
      | cons y ys => simp [iterPos, posOf]
    | succ q =>
      have hq : xs[q]? = some id := by simpa using hp
      have hmem : id ∈ xs := List.mem_of_getElem? hq
      have hx : x ≠ id := fun e => hn.1 (e ▸ hmem)
      rw [erase_cons_ne x id xs hx]
      simp only [List.getElem?_cons_succ]
      have := ih q hn.2 hq
      cases hnx : xs[q + 1]? with
      | none =>
        rw [hnx] at this
        simp only [iterPos, List.length_cons] at this ⊢
        omega
      | some nid =>
        rw [hnx] at this
        simp only [iterPos] at this ⊢
        have hnm : nid ∈ xs := List.mem_of_getElem? hnx
        have : x ≠ nid := fun e => hn.1 (e ▸ hnm)
        simp only [posOf, this, if_false]
        omega

/-! ### pushRange -/

theorem mem_pushRange (first n : Nat) (l : List Nat) (x : Nat) :
    x ∈ Table.pushRange first n l ↔ ((first ≤ x ∧ x < first + n) ∨ x ∈ l) := by
  induction n generalizing first l with
  | zero =>
    simp only [Table.pushRange, Nat.add_zero]
    constructor
    · exact fun h => Or.inr h
    · rintro (⟨h1, h2⟩ | h)
      · omega
      · exact h
  | succ n ih =>
    simp only [Table.pushRange]
    rw [ih]
    simp only [List.mem_cons]
    constructor
    · rintro (⟨h1, h2⟩ | h | h)
      · exact Or.inl ⟨by omega, by omega⟩
      · exact Or.inl ⟨by omega, by omega⟩
      · exact Or.inr h
    · rintro (⟨h1, h2⟩ | h)
      · by_cases e : x = first
        · exact Or.inr (Or.inl e)
        · exact Or.inl ⟨by omega, by omega⟩
      · exact Or.inr (Or.inr h)

theorem nodup_pushRange (first n : Nat) (l : List Nat) (hl : l.Nodup) (hlt : ∀ x ∈ l, x < first) :
    (Table.pushRange first n l).Nodup := by
  induction n generalizing first l with
  | zero => exact hl
  | succ n ih =>
    simp only [Table.pushRange]
    apply ih
    · exact List.nodup_cons.2 ⟨fun hm => Nat.lt_irrefl _ (hlt _ hm), hl⟩
    · intro x hx
      rcases List.mem_cons.1 hx with e | e
      · omega
      · have := hlt x e; omega

theorem pushRange_succ_last (first n : Nat) (l : List Nat) :
    Table.pushRange first (n + 1) l = (first + n) :: Table.pushRange first n l := by
  induction n generalizing first l with
  | zero => simp [Table.pushRange]
  | succ n ih =>
    rw [Table.pushRange, ih (first + 1) (first :: l)]
    simp only [Table.pushRange]
    congr 1
    omega

end Nstd.Hash
