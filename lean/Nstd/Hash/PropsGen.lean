import Nstd.Hash.PropsLink
import Nstd.Hash.GenStep
import Nstd.Hash.Props
/-
  Property C02 for the machine that runs the TRANSLATED bodies (`GenStep.lean`: `gstep` = `pstep` with `insert`, `remove`
  (key / iterator / value address), `removeFront`, `removeBack`, `clear`, `swap`, `find`, `operator=`, bulk append / remove, `==` of the current headers as
  tools/gen_hash.py translates them): on every state that represents a model state one step of it IS the step of the
  pointer-level model (`gstep_eq_pstep`; `clear` and `operator=` SIMULATE the chain-list model's: `gstep_sim`), hence every run is
  matched by the chain-list machine (`grun_sim`), hence the results of every operation history
  equal those of the insertion-ordered association list (`gen_refines`), for every container kind, hash function, pair of
  capacities and block size.  Also translated: `operator=` , HashSet `append(other)` / `remove(other)`, `operator==` (and `!=` as its negation).
  Not translated (hand-translated in `PtrModel.lean`, tied by the correspondence run): the constructors incl. the copy
  constructor, `setValue`, the iterator walks of the queries.  The self-argument members (`a = a`, `a.swap(a)`, `a.append(a)`,
  `a.remove(a)`) are the same bodies translated with `other.x` = `x`.
-/
set_option linter.unusedSimpArgs false
set_option linter.unusedVariables false
namespace Nstd.Hash.Ptr
open Nstd.Hash Nstd.Generated

theorem gFind_eq (kind : Kind) (h : Nat → Nat) (t : PTable) (k : Nat) :
    gFind kind h t k = (t.find h k).map (findResult t) := by
  cases kind
  · exact gen_map_find h t k
  · exact gen_set_find h t k
  · exact gen_pool_find h t k

theorem gInsert_eq (kind : Kind) {h : Nat → Nat} {pt : PTable} {t : Table} (hr : Rel pt t) (hi : t.Inv h) (p k v : Nat) :
    gInsert kind h pt (nxtAt pt.self t.order p) k v =
      (pt.insert kind h (nxtAt pt.self t.order p) k v).map (fun r => (r.1, Nxt.item r.2)) := by
  cases kind
  · exact gen_map_insert_rel hr hi p k v
  · exact gen_set_insert_rel hr hi p k v
  · exact gen_pool_insert_rel hr hi p k v

theorem gRemoveIt_eq (kind : Kind) (h : Nat → Nat) (t : PTable) (item : Nat) (hc : (t.items item).cell ≠ .nextOf item)
    (hp : (t.items item).prev ≠ some item) :
    gRemoveIt kind h t (.item item) = some (t.removeItem item) := by
  cases kind
  · exact gen_map_removeIt h t item hc hp
  · exact gen_set_removeIt h t item hc hp
  · exact gen_pool_removeIt h t item hc hp

theorem gRemoveKey_eq (kind : Kind) {h : Nat → Nat} {pt : PTable} {t : Table} (hr : Rel pt t) (hi : t.Inv h) (k : Nat) :
    gRemoveKey kind h pt k = pt.removeKey h k := by
  cases kind
  · exact gen_map_removeKey hr hi k
  · exact gen_set_removeKey hr hi k
  · exact gen_pool_removeKey hr hi k

theorem gRemoveFront_eq (kind : Kind) {h : Nat → Nat} {pt : PTable} {t : Table} (hr : Rel pt t) (hi : t.Inv h) :
    gRemoveFront kind h pt = (match t.order.head? with | some id => some (pt.removeItem id) | none => none) := by
  cases kind
  · exact gen_map_removeFront hr hi
  · exact gen_set_removeFront hr hi
  · exact gen_pool_removeFront hr hi

theorem gRemoveBack_eq (kind : Kind) {h : Nat → Nat} {pt : PTable} {t : Table} (hr : Rel pt t) (hi : t.Inv h) :
    gRemoveBack kind h pt = (match pt.endPrev with | some id => some (pt.removeItem id) | none => none) := by
  cases kind
  · exact gen_map_removeBack hr hi
  · exact gen_set_removeBack hr hi
  · exact gen_pool_removeBack hr hi

theorem gSwap_eq (kind : Kind) (a b : PTable) : gSwap kind a b = some (PTable.swap a b) := by
  cases kind
  · exact gen_map_swap a b
  · exact gen_set_swap a b
  · exact gen_pool_swap a b

/-- One step of the machine with the translated bodies is the step of the pointer-level model, on every pair of tables
    that represents a model state (as every reachable one does) and carries the default capacity of the current header (the
    translated default / copy constructor writes the literal of the header, the model its class-constant field), for every
    operation – constructors included –, container kind and hash function. -/
theorem gstep_eq_pstep (kind : Kind) (h : Nat → Nat) (ps : PState) (s : State) (op : Op) (hp : PRel ps s) (hs : SInv h s)
    (hd : ∀ t, (ps.get t).dcap = dcapOf kind) (hne : ∀ t, op ≠ .clear t ∧ op ≠ .assign t) :
    gstep kind h ps op = pstep kind h ps op := by
  by_cases hav0 : op.available kind = false
  · simp [gstep, pstep, hav0]
  have hav : op.available kind = true := by simpa using hav0
  cases op with
  | append t k v =>
    obtain ⟨hr, hself⟩ := hp.get t
    have hi := hs.get t
    simp only [gstep, pstep, hav, Bool.not_true, Bool.false_eq_true, if_false]
    cases kind <;> simp only [gen_map_append hr hi, gen_set_append hr hi k v, gen_pool_append hr hi k v] <;>
      (cases (ps.get t).insert _ h (.stl (ps.get t).self) k v <;> simp)
  | prepend t k v =>
    obtain ⟨hr, hself⟩ := hp.get t
    have hi := hs.get t
    have hb : ∀ kind, (ps.get t).begin ≠ .item ((ps.get t).allocItem kind).1 := fun kind => by
      rw [hr.begin_nxtAt]; exact hr.alloc_ne_pos hi kind 0
    simp only [gstep, pstep, hav, Bool.not_true, Bool.false_eq_true, if_false]
    cases kind
    · simp only [gen_map_prepend hr hi]
      cases (ps.get t).insert Kind.map h (ps.get t).begin k v <;> simp
    · simp only [gen_set_prepend hr hi k v]
      cases (ps.get t).insert Kind.set h (ps.get t).begin k v <;> simp
    · simp [Op.available] at hav
  | insert t pos k v =>
    obtain ⟨hr, hself⟩ := hp.get t
    have hi := hs.get t
    simp only [gstep, pstep, hav, Bool.not_true, Bool.false_eq_true, if_false, hr.order_eq hi]
    by_cases hpos : pos ≤ (s.get t).order.length
    · simp only [hpos, if_true]
      rw [gInsert_eq kind hr hi pos k v]
      cases (ps.get t).insert kind h (nxtAt (ps.get t).self (s.get t).order pos) k v with
      | none => simp [insertOut]
      | some r => cases hro : r.1.order <;> simp [insertOut, hro]
    · simp [hpos]
  | removeKey t k =>
    obtain ⟨hr, hself⟩ := hp.get t
    simp only [gstep, pstep, hav, Bool.not_true, Bool.false_eq_true, if_false, gRemoveKey_eq kind hr (hs.get t) k]
  | removeAt t pos =>
    obtain ⟨hr, hself⟩ := hp.get t
    have hi := hs.get t
    simp only [gstep, pstep, hav, Bool.not_true, Bool.false_eq_true, if_false, Ptr.removeAtPos, hr.order_eq hi]
    cases hg : (s.get t).order[pos]? with
    | none => simp
    | some id =>
      have hm : id ∈ (s.get t).order := List.mem_of_getElem? hg
      simp only [gRemoveIt_eq kind h _ id (hr.cell_ne_self hi id hm) (hr.prev_ne_self hi id hm), removeOut]
      cases ((ps.get t).removeItem id).1.order <;> simp
  | removeValue t pos =>
    obtain ⟨hr, hself⟩ := hp.get t
    have hi := hs.get t
    simp only [gstep, pstep, hav, Bool.not_true, Bool.false_eq_true, if_false, Ptr.removeAtPos, hr.order_eq hi]
    cases hg : (s.get t).order[pos]? with
    | none => simp
    | some id =>
      have hm : id ∈ (s.get t).order := List.mem_of_getElem? hg
      simp only [gen_pool_removeValue h _ id (hr.cell_ne_self hi id hm)]
      cases ((ps.get t).removeItem id).1.order <;> simp
  | removeFront t =>
    obtain ⟨hr, hself⟩ := hp.get t
    have hi := hs.get t
    simp only [gstep, pstep, hav, Bool.not_true, Bool.false_eq_true, if_false, Ptr.removeAtPos, hr.order_eq hi,
      gRemoveFront_eq kind hr hi, List.head?_eq_getElem?]
    cases hg : (s.get t).order[0]? with
    | none => simp [removeOut]
    | some id =>
      simp only [removeOut]
      cases ((ps.get t).removeItem id).1.order <;> simp
  | removeBack t =>
    obtain ⟨hr, hself⟩ := hp.get t
    have hi := hs.get t
    simp only [gstep, pstep, hav, Bool.not_true, Bool.false_eq_true, if_false, gRemoveBack_eq kind hr hi]
    cases (ps.get t).endPrev with
    | none => simp [removeOut]
    | some id =>
      simp only [removeOut]
      cases ((ps.get t).removeItem id).1.order <;> simp
  | clear t => exact absurd rfl (hne t).1
  | swap t => simp only [gstep, pstep, hav, Bool.not_true, Bool.false_eq_true, if_false, gSwap_eq]
  | find t k =>
    simp only [gstep, pstep, hav, Bool.not_true, Bool.false_eq_true, if_false, gFind_eq]
    cases (ps.get t).find h k with
    | none => simp
    | some r =>
      cases (ps.get t).order with
      | none => simp
      | some l => cases r <;> simp [findResult, iterOf]
  | contains t k =>
    simp only [gstep, pstep, hav, Bool.not_true, Bool.false_eq_true, if_false]
    cases kind <;> simp only [gen_map_contains, gen_set_contains, gen_pool_contains] <;>
      (cases (ps.get t).find h k <;> rfl)
  | size t =>
    simp only [gstep, pstep, hav, Bool.not_true, Bool.false_eq_true, if_false]
    cases kind <;> rfl
  | isEmpty t =>
    simp only [gstep, pstep, hav, Bool.not_true, Bool.false_eq_true, if_false]
    cases kind <;> rfl
  | front t =>
    simp only [gstep, pstep, hav, Bool.not_true, Bool.false_eq_true, if_false]
    cases kind <;> simp only [gen_map_front, gen_set_front, gen_pool_front] <;> (cases (ps.get t).begin <;> rfl)
  | back t =>
    simp only [gstep, pstep, hav, Bool.not_true, Bool.false_eq_true, if_false]
    cases kind <;> simp only [gen_map_back, gen_set_back, gen_pool_back] <;> (cases (ps.get t).endPrev <;> rfl)
  | assign t => exact absurd rfl (hne t).2
  | appendAll t =>
    obtain ⟨hr, hself⟩ := hp.get t
    simp only [gstep, pstep, hav, Bool.not_true, Bool.false_eq_true, if_false]
    by_cases hk : kind = Kind.set
    · subst hk; simp only [if_true, gen_set_appendAll hr (hs.get t)]
    · simp only [hk, if_false]
  | removeAll t =>
    obtain ⟨hr, hself⟩ := hp.get t
    simp only [gstep, pstep, hav, Bool.not_true, Bool.false_eq_true, if_false]
    by_cases hk : kind = Kind.set
    · subst hk; simp only [if_true, gen_set_removeAll h hr (hs.get t)]
    · simp only [hk, if_false]
  | equal t u =>
    simp only [gstep, pstep, hav, Bool.not_true, Bool.false_eq_true, if_false]
    cases kind <;> simp only [gEqual, gen_map_equal, gen_set_equal, Option.map_map] <;>
      (cases PTable.equal _ (ps.get t) (ps.get u) <;> rfl)
  | notEqual t u =>
    simp only [gstep, pstep, hav, Bool.not_true, Bool.false_eq_true, if_false]
    cases kind <;> simp only [gen_map_notEqual, gen_set_notEqual, Option.map_map] <;>
      (cases PTable.equal _ (ps.get t) (ps.get u) <;> rfl)
  | assignSelf t =>
    have e : ps.set t (ps.get t) = ps := by cases t <;> rfl
    simp only [gstep, pstep, hav, Bool.not_true, Bool.false_eq_true, if_false]
    cases kind <;> simp [optSet, gen_map_assignSelf, gen_set_assignSelf, e]
  | swapSelf t =>
    obtain ⟨hr, hself⟩ := hp.get t
    simp only [gstep, pstep, hav, Bool.not_true, Bool.false_eq_true, if_false]
    cases kind <;> simp [optSet, gen_map_swapSelf hr, gen_set_swapSelf hr, gen_pool_swapSelf hr]
  | appendSelf t =>
    obtain ⟨hr, hself⟩ := hp.get t
    simp only [gstep, pstep, hav, Bool.not_true, Bool.false_eq_true, if_false]
    by_cases hk : kind = Kind.set
    · subst hk; simp only [if_true, gen_set_appendSelf hr (hs.get t)]
    · simp only [hk, if_false]
  | removeSelf t =>
    obtain ⟨hr, hself⟩ := hp.get t
    simp only [gstep, pstep, hav, Bool.not_true, Bool.false_eq_true, if_false]
    by_cases hk : kind = Kind.set
    · subst hk; simp only [if_true, gen_set_removeSelf hr (hs.get t)]
    · simp only [hk, if_false]
  | construct t cap =>
    simp only [gstep, pstep, hav, Bool.not_true, Bool.false_eq_true, if_false]
    cases kind <;> simp [optSet, gen_map_construct, gen_set_construct, gen_pool_construct]
  | constructDefault t =>
    have hdt := hd t
    simp only [gstep, pstep, hav, Bool.not_true, Bool.false_eq_true, if_false]
    cases kind <;>
      simp [optSet, gen_map_constructDefault, gen_set_constructDefault, gen_pool_constructDefault, PTable.constructDefault,
        hdt, dcapOf] <;> (rw [hdt]; rfl)
  | copyFrom t =>
    obtain ⟨hr, hself⟩ := hp.get (!t)
    have hk : 0 < (ps.get (!t)).ipb := by rw [hr.ipb]; exact (hs.get (!t)).ipb_pos
    have hdo := hd (!t)
    simp only [gstep, pstep, hav, Bool.not_true, Bool.false_eq_true, if_false]
    cases kind
    · simp only [gen_map_copyConstruct h t 0 _ hdo hk]
    · simp only [gen_set_copyConstruct h t 0 _ hdo hk]
    · rfl
  | _ => simp [gstep, hav]
/-- One step of the machine with the translated bodies is simulated by one step of the chain-list machine: same result, coupled
    successor states, rejected iff the model rejects – for every operation.  `clear` and `operator=` (which calls it) through
    their simulation statements (`gen_*_clear`, `gen_*_assign`: the table they leave need not be the pointer-level model's,
    it only has to represent the same model state), all other operations through `gstep_eq_pstep` and `pstep_sim`. -/
theorem gstep_sim (kind : Kind) (h : Nat → Nat) (ps : PState) (s : State) (op : Op) (hp : PRel ps s) (hs : SInv h s)
    (hd : ∀ t, (ps.get t).dcap = dcapOf kind) :
    StepSim (gstep kind h ps op) (step kind h s op) := by
  by_cases hc : ∃ t, op = .clear t
  · obtain ⟨t, rfl⟩ := hc
    by_cases hav : (Op.clear t).available kind = true
    · have hg : ∃ pt', gClear kind h (ps.get t) = some pt' ∧ Rel pt' (s.get t).clear ∧ pt'.self = (ps.get t).self := by
        cases kind
        · exact gen_map_clear (hp.get t).1 (hs.get t)
        · exact gen_set_clear (hp.get t).1 (hs.get t)
        · exact gen_pool_clear (hp.get t).1 (hs.get t)
      obtain ⟨pt', e1, e2, e3⟩ := hg
      simp only [gstep, step, hav, Bool.not_true, Bool.false_eq_true, if_false, optSet, e1, Option.map_some, StepSim]
      exact ⟨by triv, hp.set t e2 (by rw [e3]; exact (hp.get t).2)⟩
    · have : (Op.clear t).available kind = false := by simpa using hav
      simp [gstep, step, this, StepSim]
  by_cases ha : ∃ t, op = .assign t
  · obtain ⟨t, rfl⟩ := ha
    by_cases hav : (Op.assign t).available kind = true
    · have hg : ∃ pt', gAssign kind h (ps.get t) (ps.get (!t)) = some pt' ∧
          Rel pt' (Table.assignFrom kind h (s.get t) (s.get (!t))) ∧ pt'.self = (ps.get t).self := by
        cases kind
        · exact gen_map_assign (hp.get t).1 (hp.get (!t)).1 (hs.get t) (hs.get (!t))
        · exact gen_set_assign (hp.get t).1 (hp.get (!t)).1 (hs.get t) (hs.get (!t))
        · exact (hp.get t).1.assignFrom (hp.get (!t)).1 (hs.get t) (hs.get (!t)) Kind.pool
      obtain ⟨pt', e1, e2, e3⟩ := hg
      simp only [gstep, step, hav, Bool.not_true, Bool.false_eq_true, if_false, optSet, e1, Option.map_some, StepSim]
      exact ⟨by triv, hp.set t e2 (by rw [e3]; exact (hp.get t).2)⟩
    · have : (Op.assign t).available kind = false := by simpa using hav
      simp [gstep, step, this, StepSim]
  rw [gstep_eq_pstep kind h ps s op hp hs hd (fun t => ⟨fun e => hc ⟨t, e⟩, fun e => ha ⟨t, e⟩⟩)]
  exact pstep_sim kind h ps s op hp hs

/-- … hence every run from a represented state whose tables carry the default capacity of the current header (`CInv`, kept by
    every step) is matched step by step by the chain-list machine: same results, coupled final states, rejected iff the model
    rejects. -/
theorem grun_sim (kind : Kind) (h : Nat → Nat) (ops : List Op) (ps : PState) (s : State) (hp : PRel ps s) (hs : SInv h s)
    (ipb : Nat) (hc : CInv (ipb, dcapOf kind) s) :
    match grun kind h ps ops, run kind h s ops with
    | some (ps', os), some (s', os') => os = os' ∧ PRel ps' s' ∧ SInv h s'
    | none, none => True
    | _, _ => False := by
  induction ops generalizing ps s with
  | nil => exact ⟨rfl, hp, hs⟩
  | cons op ops ih =>
    have hd : ∀ t, (ps.get t).dcap = dcapOf kind := fun t => by
      rw [(hp.get t).1.dcap]; exact congrArg Prod.snd (hc.get t)
    have h1 := gstep_sim kind h ps s op hp hs hd
    have h2 := (step_refines kind h s op hs).2
    simp only [grun, run]
    unfold StepSim at h1
    cases hps : gstep kind h ps op with
    | none =>
      rw [hps] at h1
      cases hst : step kind h s op with
      | none => trivial
      | some r => rw [hst] at h1; exact False.elim h1
    | some pr =>
      rw [hps] at h1
      cases hst : step kind h s op with
      | none => rw [hst] at h1; exact False.elim h1
      | some r =>
        rw [hst] at h1
        obtain ⟨ps1, o⟩ := pr
        obtain ⟨s1, o'⟩ := r
        simp only at h1 ⊢
        have ih' := ih ps1 s1 h1.2 (h2 s1 o' hst) (step_consts kind h _ s s1 op o' hc hst)
        cases hpr : grun kind h ps1 ops with
        | none =>
          rw [hpr] at ih'
          cases hr : run kind h s1 ops with
          | none => trivial
          | some r2 => rw [hr] at ih'; exact False.elim ih'
        | some pr2 =>
          rw [hpr] at ih'
          cases hr : run kind h s1 ops with
          | none => rw [hr] at ih'; exact False.elim ih'
          | some r2 =>
            rw [hr] at ih'
            obtain ⟨ps2, os⟩ := pr2
            obtain ⟨s2, os'⟩ := r2
            simp only at ih' ⊢
            exact ⟨by rw [h1.1, ih'.1], ih'.2⟩

/-- The refinement theorem for the code as written in the headers: for every container kind, hash function, block size,
    pair of capacities and operation history (the default capacity is the header's), the machine that executes the translated
    bodies returns exactly the results of the insertion-ordered association list and rejects exactly the histories it rejects. -/
theorem gen_refines (kind : Kind) (h : Nat → Nat) (ipb : Nat) (hk : 0 < ipb) (c0 c1 : Nat) (ops : List Op) :
    (grun kind h ⟨PTable.construct false ipb (dcapOf kind) c0, PTable.construct true ipb (dcapOf kind) c1⟩ ops).map (fun r => r.2)
      = (Spec.run kind Spec.init ops).map (fun r => r.2) := by
  have hd : 0 < dcapOf kind := by cases kind <;> decide
  have hs := inv_construct h ipb (dcapOf kind) hk hd c0 c1
  have h1 := grun_sim kind h ops ⟨PTable.construct false ipb (dcapOf kind) c0, PTable.construct true ipb (dcapOf kind) c1⟩
    ⟨Table.construct ipb (dcapOf kind) c0, Table.construct ipb (dcapOf kind) c1⟩
    ⟨fresh_rel false _ _ _, fresh_rel true _ _ _, rfl, rfl⟩ hs ipb ⟨rfl, rfl⟩
  have h2 := refines_from kind h ops ⟨Table.construct ipb (dcapOf kind) c0, Table.construct ipb (dcapOf kind) c1⟩ hs
  have h3 : abs ⟨Table.construct ipb (dcapOf kind) c0, Table.construct ipb (dcapOf kind) c1⟩ = Spec.init := rfl
  rw [h3] at h2
  rw [← h2]
  cases hpr : grun kind h ⟨PTable.construct false ipb (dcapOf kind) c0, PTable.construct true ipb (dcapOf kind) c1⟩ ops with
  | none =>
    rw [hpr] at h1
    cases hr : run kind h ⟨Table.construct ipb (dcapOf kind) c0, Table.construct ipb (dcapOf kind) c1⟩ ops with
    | none => rfl
    | some r => rw [hr] at h1; exact False.elim h1
  | some pr =>
    rw [hpr] at h1
    cases hr : run kind h ⟨Table.construct ipb (dcapOf kind) c0, Table.construct ipb (dcapOf kind) c1⟩ ops with
    | none => rw [hr] at h1; exact False.elim h1
    | some r =>
      rw [hr] at h1
      simp only [Option.map_some, Option.some.injEq]
      exact h1.1

/-- non-vacuity / a concrete run of the translated bodies: one bucket (all keys collide), removal from the middle of the
    chain, a positional insert, an existing key, a lookup, swap with the other table, iteration -/
example :
    (grun Kind.map (fun _ => 7) pinit
      [.construct false 1, .append false 5 50, .append false 6 60, .prepend false 4 40, .removeKey false 5,
       .insert false 1 9 90, .append false 6 61, .find false 6, .swap false, .iterate true, .removeFront true,
       .removeBack true, .clear true, .contains true 9, .iterate true]).map (fun r => r.2)
    = some [.unit, .num 50, .num 60, .num 40, .unit, .num 1, .num 61, .onum (some 2), .unit,
            .entries [(4, 40), (9, 90), (6, 61)], .num 0, .num 1, .unit, .flag false, .entries []] := by
  decide +kernel

example :
    (grun Kind.pool (fun k => k % 2) pinit
      [.construct false 2, .append false 5 0, .append false 6 0, .append false 7 0, .removeValue false 1, .removeAt false 0,
       .iterate false, .append false 9 0, .iterate false]).map (fun r => r.2)
    = some [.unit, .num 0, .num 0, .num 0, .unit, .num 0, .entries [(7, 0)], .num 0, .entries [(7, 0), (9, 0)]] := by
  decide +kernel

/-- HashSet: bulk append / remove with overlap, `==`, assignment, `!=` through the translated loops over `other` -/
example :
    (grun Kind.set (fun k => k % 2) pinit
      [.construct false 2, .construct true 1, .append false 1 0, .append false 3 0, .append false 2 0, .append true 3 0, .append true 4 0,
       .appendAll false, .iterate false, .removeAll false, .iterate false, .equal false true, .assign false, .equal false true,
       .notEqual true false, .iterate false]).map (fun r => r.2)
    = some [.unit, .unit, .unit, .unit, .unit, .unit, .unit, .unit, .entries [(1, 0), (3, 0), (2, 0), (4, 0)], .unit,
            .entries [(1, 0), (2, 0)], .flag false, .unit, .flag true, .flag false, .entries [(3, 0), (4, 0)]] := by
  decide +kernel

end Nstd.Hash.Ptr
