/-
  Executable model of the three hash containers of libnstd
  (include/nstd/HashMap.hpp, HashSet.hpp, PoolMap.hpp), which share one mechanism:

    * items live in a node heap (`items : id → Item`), ids are handed out from 4-item blocks
      and recycled through a LIFO free list (`freeItem`, linked through `prev`);
    * `data` is the bucket array; every bucket holds a singly linked chain of items
      (`nextCell`), a new item is pushed to the FRONT of the chain of bucket
      `hash(key) % capacity`; the item remembers the cell it hangs in (`cell`), which is how
      `remove`/`clear` unlink it without hashing the key again;
    * the insertion order is a doubly linked list with the end sentinel `endItem`
      (`insert` links the new item before `position`).

  Abstraction level of this model: the bucket chains are STORED data (`data b` = the chain
  of bucket `b` as the list of item ids from the bucket head along `nextCell`), every item
  stores the index of the bucket it was linked into (`cell`), the free list and the block
  counter are stored; the insertion-order list is the list `order` of item ids (iterators
  are positions in it; `end` = `order.length`).  Each table owns its node heap (`swap`
  exchanges the heaps together with everything else, as the code exchanges `blocks`).
  The hash function is a parameter `h : Nat → Nat` of every function that hashes; keys and
  values are natural numbers compared with `=`.

  Core Lean only (the compiled driver links this file).
-/
namespace Nstd.Hash

/-- which container: `HashMap<T,V>`, `HashSet<T>`, `PoolMap<T,V>` -/
inductive Kind where
  | map | set | pool
  deriving DecidableEq, Repr, Inhabited

structure Item where
  key : Nat
  value : Nat
  /-- index of the bucket whose chain the item was linked into (`Item** cell` designates a cell of that chain) -/
  cell : Nat
  deriving Repr, Inhabited

/-- function update -/
def upd {α : Type} (f : Nat → α) (i : Nat) (x : α) : Nat → α := fun j => if j = i then x else f j

/-- `l` with `x` linked in before position `pos` -/
def insertAt {α : Type} (pos : Nat) (x : α) (l : List α) : List α := l.take pos ++ x :: l.drop pos

/-- position of `a` in `l` (`l.length` when absent) -/
def posOf (a : Nat) : List Nat → Nat
  | [] => 0
  | x :: xs => if x = a then 0 else posOf a xs + 1

/-- position designated by an iterator: `some id` = that item, `none` = `end()` -/
def iterPos (order : List Nat) : Option Nat → Nat
  | some id => posOf id order
  | none => order.length

structure Table where
  /-- `capacity` -/
  cap : Nat
  /-- `data != 0` -/
  allocated : Bool
  /-- the bucket array: `data b` = chain of bucket `b` (ids, head first); meaningful when `allocated` -/
  data : Nat → List Nat
  /-- node heap -/
  items : Nat → Item
  /-- insertion-order list `_begin … endItem.prev` -/
  order : List Nat
  /-- `_size` -/
  size : Nat
  /-- `freeItem` list, head first -/
  free : List Nat
  /-- number of item blocks allocated so far; block `n` holds the ids `ipb·n … ipb·n + ipb - 1` -/
  blocks : Nat
  /-- class constant: items per block (`new char[sizeof(ItemBlock) + sizeof(Item) * N]`, `end = item + N`; 4 in the
      sources the model was written from; read from the current sources by the translator) -/
  ipb : Nat
  /-- class constant: capacity of the default and the copy constructor (500) -/
  dcap : Nat

instance : Inhabited Table := ⟨⟨1, false, fun _ => [], fun _ => default, [], 0, [], 0, 1, 1⟩⟩

namespace Table

/-- all constructors: empty sentinel list, no bucket array, no blocks -/
def fresh (cap ipb dcap : Nat) : Table :=
  { cap := cap, allocated := false, data := fun _ => [], items := fun _ => ⟨0, 0, 0⟩,
    order := [], size := 0, free := [], blocks := 0, ipb := ipb, dcap := dcap }

/-- `explicit HashMap(usize capacity)`: `this->capacity |= (usize)!capacity` -/
def construct (ipb dcap capacity : Nat) : Table := fresh (if capacity = 0 then 1 else capacity) ipb dcap

/-- `HashMap()` -/
def constructDefault (ipb dcap : Nat) : Table := fresh dcap ipb dcap

/-- the free list after `for(i = first … first+n-1) { i->prev = freeItem; freeItem = i; }` -/
def pushRange : Nat → Nat → List Nat → List Nat
  | _, 0, free => free
  | first, n + 1, free => pushRange (first + 1) n (first :: free)

/-- the `while(item)` loop of `find`: walk the chain, first item whose key equals `k` -/
def chainFind (items : Nat → Item) (k : Nat) : List Nat → Option Nat
  | [] => none
  | id :: rest => if (items id).key = k then some id else chainFind items k rest

/-- `find`: `none` = `end()` -/
def find (h : Nat → Nat) (t : Table) (k : Nat) : Option Nat :=
  if t.allocated then chainFind t.items k (t.data (h k % t.cap)) else none

/-- take an item from the free list, or allocate a block of `ipb` items.  Returns (item, new free list, new block count).
    HashMap/HashSet use the first item of a new block and push the others in ascending order;
    PoolMap pushes all of them and pops the last one. -/
def allocItem (kind : Kind) (t : Table) : Nat × List Nat × Nat :=
  match t.free with
  | f :: rest => (f, rest, t.blocks)
  | [] =>
    let b := t.ipb * t.blocks
    if kind = Kind.pool then (b + (t.ipb - 1), pushRange b (t.ipb - 1) [], t.blocks + 1)
    else (b, pushRange (b + 1) (t.ipb - 1) [], t.blocks + 1)

/-- value stored for a new item: HashMap stores the argument, HashSet has no value, PoolMap default-constructs -/
def storedValue (kind : Kind) (v : Nat) : Nat := if kind = Kind.map then v else 0

/-- second half of `insert` (key not present): allocate the bucket array if needed, take an item,
    construct it, push it to the front of its bucket chain, link it before `pos` -/
def linkNew (kind : Kind) (h : Nat → Nat) (t : Table) (pos k v : Nat) : Table × Nat :=
  let d : Nat → List Nat := if t.allocated then t.data else fun _ => []   -- `new char[..]` + `Memory::zero`
  let a := t.allocItem kind
  let id := a.1
  let c := h k % t.cap
  ({ t with
      allocated := true
      data := upd d c (id :: d c)                       -- `item->nextCell = *cell; *cell = item`
      items := upd t.items id ⟨k, storedValue kind v, c⟩
      order := insertAt pos id t.order
      size := t.size + 1
      free := a.2.1
      blocks := a.2.2 }, id)

/-- `insert(position, key[, value])`; returns the table and the item the returned iterator designates -/
def insert (kind : Kind) (h : Nat → Nat) (t : Table) (pos k v : Nat) : Table × Nat :=
  match t.find h k with
  | some id =>
    -- HashMap: `*it = value`; HashSet / PoolMap: `return it`
    (if kind = Kind.map then { t with items := upd t.items id { t.items id with value := v } } else t, id)
  | none => t.linkNew kind h pos k v

/-- `remove(iterator)` / PoolMap `remove(const V&)`: unlink from the chain through `cell`, from the order list, push on the free list -/
def removeItem (t : Table) (id : Nat) : Table :=
  let c := (t.items id).cell
  { t with
      data := upd t.data c ((t.data c).erase id)
      order := t.order.erase id
      size := t.size - 1
      free := id :: t.free }

/-- `remove(const T& key)` -/
def removeKey (h : Nat → Nat) (t : Table) (k : Nat) : Table :=
  match t.find h k with
  | some id => t.removeItem id
  | none => t

/-- loop of `clear`: `*i->cell = 0; i->prev = freeItem; freeItem = i` -/
def clearLoop (items : Nat → Item) : List Nat → (Nat → List Nat) → List Nat → (Nat → List Nat) × List Nat
  | [], d, free => (d, free)
  | id :: rest, d, free => clearLoop items rest (upd d (items id).cell []) (id :: free)

def clear (t : Table) : Table :=
  let r := clearLoop t.items t.order t.data t.free
  { t with data := r.1, free := r.2, order := [], size := 0 }

/-- `append(key, value)` = `insert(_end, …)` -/
def append (kind : Kind) (h : Nat → Nat) (t : Table) (k v : Nat) : Table × Nat :=
  t.insert kind h t.order.length k v

/-- `prepend(key, value)` = `insert(_begin, …)` -/
def prepend (kind : Kind) (h : Nat → Nat) (t : Table) (k v : Nat) : Table × Nat :=
  t.insert kind h 0 k v

/-- the loop `for(i = other._begin …) append(i->key, i->value)` of the copy constructor, `operator=` and
    `HashSet::append(const HashSet&)`; `other` is a different object -/
def appendAll (kind : Kind) (h : Nat → Nat) (t : Table) (oitems : Nat → Item) : List Nat → Table
  | [] => t
  | id :: rest => appendAll kind h (t.append kind h (oitems id).key (oitems id).value).1 oitems rest

/-- copy constructor: default capacity, then re-append -/
def copyOf (kind : Kind) (h : Nat → Nat) (other : Table) : Table :=
  appendAll kind h (fresh other.dcap other.ipb other.dcap) other.items other.order

/-- `operator=` (with a different object): `clear()`, then re-append; keeps its own capacity -/
def assignFrom (kind : Kind) (h : Nat → Nat) (t other : Table) : Table :=
  appendAll kind h t.clear other.items other.order

/-- `HashSet::remove(const HashSet& other)`, `other` a different object -/
def removeAll (h : Nat → Nat) (t : Table) (oitems : Nat → Item) : List Nat → Table
  | [] => t
  | id :: rest => removeAll h (t.removeKey h (oitems id).key) oitems rest

/-- `*find(key) = v` when the key is present (mutable access through the iterator) -/
def setValue (h : Nat → Nat) (t : Table) (k v : Nat) : Table :=
  match t.find h k with
  | some id => { t with items := upd t.items id { t.items id with value := v } }
  | none => t

/-- the (key, value) the iterator at `id` shows -/
def entry (t : Table) (id : Nat) : Nat × Nat := ((t.items id).key, (t.items id).value)

/-- iteration from `begin()` to `end()` -/
def iterate (t : Table) : List (Nat × Nat) := t.order.map t.entry

/-- `isEmpty`: `endItem.prev == 0` -/
def isEmpty (t : Table) : Bool := t.order.isEmpty

/-- loop of `operator==`; `none` = the loop would step `b` past `other`'s sentinel -/
def eqLoop (kind : Kind) (ia ib : Nat → Item) : List Nat → List Nat → Option Bool
  | [], _ => some true
  | _ :: _, [] => none
  | a :: as, b :: bs =>
    if (ia a).key ≠ (ib b).key ∨ (kind = Kind.map ∧ (ia a).value ≠ (ib b).value) then some false
    else eqLoop kind ia ib as bs

/-- `operator==` -/
def equal (kind : Kind) (t u : Table) : Option Bool :=
  if t.size ≠ u.size then some false else eqLoop kind t.items u.items t.order u.order

end Table

/-- the two container variables of a run -/
structure State where
  a : Table
  b : Table
  deriving Inhabited

def State.get (s : State) (t : Bool) : Table := if t then s.b else s.a
def State.set (s : State) (t : Bool) (x : Table) : State := if t then { s with b := x } else { s with a := x }

/-- two default-constructed tables of a container class with `ipb` items per block and default capacity `dcap` -/
def initWith (ipb dcap : Nat) : State := ⟨Table.constructDefault ipb dcap, Table.constructDefault ipb dcap⟩

/-- the constants of the sources the model was written from -/
def init : State := initWith 4 500

inductive Op where
  | construct (t : Bool) (cap : Nat)      -- destroy, `new(..) C(cap)`
  | constructDefault (t : Bool)           -- destroy, `new(..) C`
  | copyFrom (t : Bool)                   -- destroy, `new(..) C(other)`
  | assign (t : Bool)                     -- `t = other`
  | append (t : Bool) (k v : Nat)
  | prepend (t : Bool) (k v : Nat)
  | insert (t : Bool) (pos k v : Nat)     -- iterator given as position, `pos = size` is `end()`
  | removeKey (t : Bool) (k : Nat)
  | removeAt (t : Bool) (pos : Nat)       -- `remove(iterator)`
  | removeValue (t : Bool) (pos : Nat)    -- PoolMap `remove(const V&)` with the value of the item at `pos`
  | removeFront (t : Bool)
  | removeBack (t : Bool)
  | clear (t : Bool)
  | swap (t : Bool)                       -- `t.swap(other)`
  | appendAll (t : Bool)                  -- HashSet `t.append(other)`
  | removeAll (t : Bool)                  -- HashSet `t.remove(other)`
  | setValue (t : Bool) (k v : Nat)       -- `it = find(k); if(it != end()) *it = v`
  | assignSelf (t : Bool)                 -- `t = t`: `if(this == &other) return *this;`
  | swapSelf (t : Bool)                   -- `t.swap(t)`
  | appendSelf (t : Bool)                 -- HashSet `t.append(t)`: the loop runs over the table it inserts into
  | removeSelf (t : Bool)                 -- HashSet `t.remove(t)`: the loop runs over the table it removes from
  | find (t : Bool) (k : Nat)
  | contains (t : Bool) (k : Nat)
  | size (t : Bool)
  | isEmpty (t : Bool)
  | iterate (t : Bool)
  | front (t : Bool)
  | back (t : Bool)
  | equal (t u : Bool)
  | notEqual (t u : Bool)                 -- `operator!=`: `!(*this == other)`
  | iterBack (t : Bool)                   -- `--it` from `end()` down to `begin()`: the entries visited
  | entryAt (t : Bool) (pos : Nat)        -- `it.key()` / `*it` / `it->` of the iterator at position `pos`
  deriving Repr

inductive Out where
  | unit
  | num (n : Nat)
  | onum (n : Option Nat)
  | flag (b : Bool)
  | entries (l : List (Nat × Nat))
  deriving Repr, DecidableEq

/-- members the container does not have (the harness answers `bad-op` as well) -/
def Op.available (kind : Kind) : Op → Bool
  | .copyFrom _ | .assign _ | .assignSelf _ | .prepend .. | .equal .. | .notEqual .. => kind ≠ Kind.pool
  | .removeValue .. => kind = Kind.pool
  | .appendAll _ | .removeAll _ | .appendSelf _ | .removeSelf _ => kind = Kind.set
  | .setValue .. => kind ≠ Kind.set
  | _ => true

/-- result of `remove(iterator)`: the table and the position of the returned iterator (`item->next`) -/
def removeAtPos (t : Table) (pos : Nat) : Option (Table × Nat) :=
  match t.order[pos]? with
  | none => none                             -- `end()` or a foreign iterator: not a valid argument
  | some id =>
    let t' := t.removeItem id
    some (t', iterPos t'.order t.order[pos + 1]?)

/-- what `front()`/`back()`/`append` show of an item: HashSet the key, the maps the value -/
def shown (kind : Kind) (t : Table) (id : Nat) : Nat :=
  if kind = Kind.set then (t.items id).key else (t.items id).value

def step (kind : Kind) (h : Nat → Nat) (s : State) (op : Op) : Option (State × Out) :=
  if !op.available kind then none else
  match op with
  | .construct t cap => some (s.set t (Table.construct (s.get t).ipb (s.get t).dcap cap), .unit)
  | .constructDefault t => some (s.set t (Table.constructDefault (s.get t).ipb (s.get t).dcap), .unit)
  | .copyFrom t => some (s.set t (Table.copyOf kind h (s.get (!t))), .unit)
  | .assign t => some (s.set t (Table.assignFrom kind h (s.get t) (s.get (!t))), .unit)
  | .append t k v =>
    let r := (s.get t).append kind h k v
    some (s.set t r.1, if kind = Kind.set then .unit else .num (r.1.items r.2).value)
  | .prepend t k v =>
    let r := (s.get t).prepend kind h k v
    some (s.set t r.1, if kind = Kind.set then .unit else .num (r.1.items r.2).value)
  | .insert t pos k v =>
    if pos ≤ (s.get t).order.length then
      let r := (s.get t).insert kind h pos k v
      some (s.set t r.1, .num (posOf r.2 r.1.order))
    else none
  | .removeKey t k => some (s.set t ((s.get t).removeKey h k), .unit)
  | .removeAt t pos =>
    match removeAtPos (s.get t) pos with
    | some (t', p) => some (s.set t t', .num p)
    | none => none
  | .removeValue t pos =>
    match removeAtPos (s.get t) pos with
    | some (t', _) => some (s.set t t', .unit)
    | none => none
  | .removeFront t =>
    match removeAtPos (s.get t) 0 with
    | some (t', p) => some (s.set t t', .num p)
    | none => none
  | .removeBack t =>
    -- `remove(_end.item->prev)`: on an empty table `endItem.prev` is null
    if (s.get t).order.length = 0 then none else
    match removeAtPos (s.get t) ((s.get t).order.length - 1) with
    | some (t', p) => some (s.set t t', .num p)
    | none => none
  | .clear t => some (s.set t (s.get t).clear, .unit)
  | .swap t => some ((s.set t (s.get (!t))).set (!t) (s.get t), .unit)
  | .appendAll t => some (s.set t (Table.appendAll kind h (s.get t) (s.get (!t)).items (s.get (!t)).order), .unit)
  | .removeAll t => some (s.set t (Table.removeAll h (s.get t) (s.get (!t)).items (s.get (!t)).order), .unit)
  | .setValue t k v => some (s.set t ((s.get t).setValue h k v), .unit)
  | .assignSelf _ => some (s, .unit)          -- the guard `this == &other`
  | .swapSelf _ => some (s, .unit)            -- every field is exchanged with itself (statement level: `PTable.swapSelf`)
  -- the loops of the bulk members with `other` = the table itself: every key read is present / is removed next
  | .appendSelf t => some (s.set t (Table.appendAll kind h (s.get t) (s.get t).items (s.get t).order), .unit)
  | .removeSelf t => some (s.set t (Table.removeAll h (s.get t) (s.get t).items (s.get t).order), .unit)
  | .find t k => some (s, .onum (((s.get t).find h k).map (fun id => posOf id (s.get t).order)))
  | .contains t k => some (s, .flag ((s.get t).find h k).isSome)
  | .size t => some (s, .num (s.get t).size)
  | .isEmpty t => some (s, .flag (s.get t).isEmpty)
  | .iterate t => some (s, .entries (s.get t).iterate)
  | .front t =>
    match (s.get t).order.head? with
    | some id => some (s, .num (shown kind (s.get t) id))
    | none => none
  | .back t =>
    match (s.get t).order.getLast? with
    | some id => some (s, .num (shown kind (s.get t) id))
    | none => none
  | .equal t u =>
    match Table.equal kind (s.get t) (s.get u) with
    | some b => some (s, .flag b)
    | none => none
  | .notEqual t u =>
    match Table.equal kind (s.get t) (s.get u) with
    | some b => some (s, .flag (!b))
    | none => none
  | .iterBack t => some (s, .entries ((s.get t).order.reverse.map (s.get t).entry))
  | .entryAt t pos =>
    match (s.get t).order[pos]? with
    | some id => some (s, .entries [(s.get t).entry id])
    | none => none                         -- `end()` cannot be dereferenced

/-- run an op list; `none` as soon as an op is not valid (missing member, bad iterator, a state the real code cannot be in) -/
def run (kind : Kind) (h : Nat → Nat) : State → List Op → Option (State × List Out)
  | s, [] => some (s, [])
  | s, op :: ops =>
    match step kind h s op with
    | none => none
    | some (s', o) =>
      match run kind h s' ops with
      | none => none
      | some (s'', os) => some (s'', o :: os)

/-! ### `hash(const String&)` (String.hpp) over the memory it is given

  The function itself is TRANSLATED from the current sources (`Nstd/Generated/HashFn.lean`, written by tools/areas/hash.py):
  `reads len` = the indices of its `s[..]` expressions in program order (they depend on the length only, the translator
  refuses anything else), `of len cs` = the code computed from the length and the characters read.  Here: how those reads
  meet memory. -/

/-- the characters at the indices `l` of what `s` points to; `none` = a read outside the memory `s` designates -/
def readAll (s : List Nat) : List Nat → Option (List Nat)
  | [] => some []
  | i :: r =>
    match s[i]?, readAll s r with
    | some c, some cs => some (c :: cs)
    | _, _ => none

/-- the hash function assembled from its translation, run on the bytes `s` (text and terminator) -/
def hashWith (reads : Nat → List Nat) (of : Nat → List Nat → Nat) (s : List Nat) (len : Nat) : Option Nat :=
  (readAll s (reads len)).map (of len)

/-- what `hash(const String&)` is given: a String whose `data->str` points at offset `off` of the memory block `buf`
    (its own heap block, a literal, or a larger text it was attached to) and whose `data->len` is `len` -/
structure StrView where
  buf : List Nat
  off : Nat
  len : Nat

/-- the text of the string: `len` bytes from `data->str` -/
def StrView.text (v : StrView) : List Nat := (v.buf.drop v.off).take v.len

/-- `const char* s = str;` i.e. `operator const char*() const`:
    `if(data->str[data->len]) detach(len, len); return data->str;` – the bytes the returned pointer designates.
    A text that is not followed by NUL is copied into a private block of `len` bytes plus terminator;
    `none` = there is no readable byte after the text (excluded by the library's contract for `attach`) -/
def StrView.conv (v : StrView) : Option (List Nat) :=
  match v.buf[v.off + v.len]? with
  | none => none
  | some b => if b = 0 then some (v.buf.drop v.off) else some (v.text ++ [0])

/-- `hash(const String&)` as coded: `const char* s = str;` (convert), then the translated reads and arithmetic -/
def hashViewWith (reads : Nat → List Nat) (of : Nat → List Nat → Nat) (v : StrView) : Option Nat :=
  match v.conv with
  | none => none
  | some s => hashWith reads of s v.len

end Nstd.Hash
