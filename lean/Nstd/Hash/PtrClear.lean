import Nstd.Hash.PtrRemove
/-
  Simulation of `clear` (reset of the bucket heads through the `cell` back-pointers) and `swap`
  (re-anchoring of the end sentinel).
-/
namespace Nstd.Hash.Ptr
open Nstd.Hash

theorem clearLoop_sim (l : List Nat) : ∀ (S : PTable) (b0 : Option Nat) (first : Nxt) (f : List Nat) (fuel : Nat),
    GSeg Nxt.item some (fun i => (S.items i).next) (fun i => (S.items i).prev) b0 first l (.stl S.self) →
    l.Nodup → (∀ j ∈ l, j ∉ f) → FreeL S.items S.freeItem f → l.length ≤ fuel →
    ∃ S', PTable.clearLoop fuel first S = some S' ∧
      FreeL S'.items S'.freeItem (l.reverse ++ f) ∧
      (∀ j, (S'.items j).cell = (S.items j).cell ∧ (S'.items j).key = (S.items j).key ∧ (S'.items j).value = (S.items j).value) ∧
      (∀ b, S.heads b = none → S'.heads b = none) ∧
      (∀ i ∈ l, ∀ b, (S.items i).cell = .bucket b → S'.heads b = none) ∧
      S'.self = S.self ∧ S'.cap = S.cap ∧ S'.allocated = S.allocated ∧ S'.size = S.size ∧ S'.blocks = S.blocks ∧
      S'.ipb = S.ipb ∧ S'.dcap = S.dcap := by
  induction l with
  | nil =>
    intro S b0 first f fuel hg _ _ hfree _
    simp only [GSeg] at hg
    subst hg
    refine ⟨S, ?_, by simpa using hfree, fun j => ⟨rfl, rfl, rfl⟩, fun b hb => hb, by simp, rfl, rfl, rfl, rfl, rfl, rfl, rfl⟩
    cases fuel <;> simp [PTable.clearLoop]
  | cons x r ih =>
    intro S b0 first f fuel hg hn hdisj hfree hfuel
    simp only [GSeg] at hg
    obtain ⟨h1, _, h3⟩ := hg
    subst h1
    rw [List.nodup_cons] at hn
    cases fuel with
    | zero => simp at hfuel
    | succ fuel' =>
      -- the state after processing `x`
      let S3 : PTable := { (S.writeCell (S.items x).cell none).setPrev x (S.writeCell (S.items x).cell none).freeItem with
                           freeItem := some x }
      have hS3 : PTable.clearLoop (fuel' + 1) (.item x) S = PTable.clearLoop fuel' (S3.items x).next S3 := rfl
      have hfields : (∀ j, (S3.items j).next = (S.items j).next ∧ (S3.items j).cell = (S.items j).cell ∧
            (S3.items j).key = (S.items j).key ∧ (S3.items j).value = (S.items j).value) ∧
          (∀ j, j ≠ x → (S3.items j).prev = (S.items j).prev) ∧ (S3.items x).prev = S.freeItem ∧
          (∀ b, S.heads b = none → S3.heads b = none) ∧ (∀ b, (S.items x).cell = .bucket b → S3.heads b = none) ∧
          S3.self = S.self ∧ S3.cap = S.cap ∧ S3.allocated = S.allocated ∧ S3.size = S.size ∧ S3.blocks = S.blocks ∧
          S3.ipb = S.ipb ∧ S3.dcap = S.dcap := by
        cases hc : (S.items x).cell with
        | bucket b =>
          simp only [S3, PTable.writeCell, PTable.setPrev, hc, upd_apply]
          and_intros <;> (try intro j) <;> (try intro hj) <;> grind
        | nextOf c =>
          simp only [S3, PTable.writeCell, PTable.setPrev, hc, upd_apply]
          and_intros <;> (try intro j) <;> (try intro hj) <;> grind
      obtain ⟨g1, g2, g3, g4, g5, g_self, g_cap, g_alloc, g_size, g_blocks, g_ipb, g_dcap⟩ := hfields
      have hx_f : x ∉ f := hdisj x List.mem_cons_self
      have hg3 : GSeg Nxt.item some (fun i => (S3.items i).next) (fun i => (S3.items i).prev) (some x) (S3.items x).next r (.stl S3.self) := by
        rw [(g1 x).1, g_self]
        apply (GSeg_congr _ _ _ _ _ _ _).2 h3
        intro j hj
        have : j ≠ x := fun e => hn.1 (e ▸ hj)
        exact ⟨(g1 j).1, g2 j this⟩
      have hfree3 : FreeL S3.items S3.freeItem (x :: f) := by
        refine ⟨rfl, ?_⟩
        rw [g3]
        apply (FreeL_congr _ _ _).2 hfree
        intro j hj
        exact g2 j (fun e => hx_f (e ▸ hj))
      obtain ⟨S', e1, e2, e3, e4, e5, e6, e7, e8, e9, e10, e11, e12⟩ := ih S3 (some x) (S3.items x).next (x :: f) fuel' hg3 hn.2
        (by
          intro j hj hjf
          rcases List.mem_cons.1 hjf with e | e
          · exact hn.1 (e ▸ hj)
          · exact hdisj j (List.mem_cons_of_mem _ hj) e)
        hfree3 (by simpa using hfuel)
      refine ⟨S', by rw [hS3]; exact e1, by simpa using e2, ?_, ?_, ?_, by rw [e6, g_self], by rw [e7, g_cap],
        by rw [e8, g_alloc], by rw [e9, g_size], by rw [e10, g_blocks], by rw [e11, g_ipb], by rw [e12, g_dcap]⟩
      · intro j
        rw [(e3 j).1, (e3 j).2.1, (e3 j).2.2, (g1 j).2.1, (g1 j).2.2.1, (g1 j).2.2.2]
        exact ⟨rfl, rfl, rfl⟩
      · intro b hb; exact e4 b (g4 b hb)
      · intro i hi b hb
        rcases List.mem_cons.1 hi with e | e
        · subst e; exact e4 b (g5 b hb)
        · exact e5 i e b (by rw [(g1 i).2.1]; exact hb)

theorem clear_data_nil {h : Nat → Nat} {t : Table} (hi : t.Inv h) (ha : t.allocated = true) (b : Nat) :
    t.clear.data b = [] := by
  simp only [Table.clear]
  by_cases hx : ∃ j ∈ t.order, (t.items j).cell = b
  · exact clearLoop_cleared _ _ _ _ b hx
  · have hx' : ∀ j ∈ t.order, (t.items j).cell ≠ b := fun j hj e => hx ⟨j, hj, e⟩
    rw [clearLoop_untouched _ _ _ _ b hx']
    apply List.eq_nil_iff_forall_not_mem.2
    intro a hmem
    have := (hi.chain_iff ha b a).1 hmem
    exact hx' a this.1 this.2

theorem Rel.clear {h : Nat → Nat} {pt : PTable} {t : Table} (hr : Rel pt t) (hi : t.Inv h) :
    ∃ pt', pt.clear = some pt' ∧ Rel pt' t.clear ∧ pt'.self = pt.self := by
  obtain ⟨S', e1, e2, e3, e4, e5, e6, e7, e8, e9, e10, e11, e12⟩ := clearLoop_sim t.order pt none pt.begin t.free pt.size hr.order
    hi.order_nodup (fun j hj hjf => hi.free_disj j hjf hj) hr.free (by rw [hr.size, hi.size_eq]; exact Nat.le_refl _)
  refine ⟨{ S' with begin := .stl S'.self, endPrev := none, size := 0 }, by simp only [PTable.clear, e1], ?_, e6⟩
  constructor
  · show S'.cap = t.cap; rw [e7, hr.cap]
  · show S'.allocated = t.allocated; rw [e8, hr.alloc]
  · rfl
  · show S'.blocks = t.blocks; rw [e10, hr.blocks]
  · show S'.ipb = t.ipb; rw [e11, hr.ipb]
  · show S'.dcap = t.dcap; rw [e12, hr.dcap]
  · intro j; show (S'.items j).key = (t.items j).key ∧ (S'.items j).value = (t.items j).value
    rw [(e3 j).2.1, (e3 j).2.2]; exact hr.kv j
  · intro ha b
    have ha' : t.allocated = true := ha
    rw [clear_data_nil hi ha' b]
    show GSeg _ _ _ _ _ (S'.heads b) [] none
    simp only [GSeg]
    have hchain := hr.chains ha' b
    cases hd : t.data b with
    | nil =>
      rw [hd] at hchain
      simp only [Chain, GSeg] at hchain
      exact e4 b hchain
    | cons x r =>
      rw [hd] at hchain
      simp only [Chain, GSeg] at hchain
      have hx : x ∈ t.order := ((hi.chain_iff ha' b x).1 (by rw [hd]; exact List.mem_cons_self)).1
      exact e5 x hx b hchain.2.1
  · show GSeg _ _ _ _ _ (Nxt.stl S'.self) [] (Nxt.stl S'.self)
    simp [GSeg]
  · rfl
  · show FreeL S'.items S'.freeItem t.clear.free
    simp only [Table.clear, clearLoop_free]
    exact e2

/-! ### swap -/

theorem reanchor {pt : PTable} {t : Table} (hr : Rel pt t) {h : Nat → Nat} (hi : t.Inv h) (s' : Bool) :
    Rel (match pt.endPrev with
          | some l => { pt with self := s', items := upd pt.items l { pt.items l with next := .stl s' } }
          | none => { pt with self := s', begin := .stl s' }) t := by
  have hlast := hr.endPrev_eq
  cases he : pt.endPrev with
  | none =>
    rw [he] at hlast
    have hnil : t.order = [] := List.getLast?_eq_none_iff.1 hlast.symm
    constructor
    · exact hr.cap
    · exact hr.alloc
    · exact hr.size
    · exact hr.blocks
    · exact hr.ipb
    · exact hr.dcap
    · exact hr.kv
    · exact hr.chains
    · show GSeg _ _ _ _ _ (Nxt.stl s') t.order (Nxt.stl s'); rw [hnil]; simp [GSeg]
    · have := hr.last; rw [he] at this; exact this
    · exact hr.free
  | some l =>
    rw [he] at hlast
    have hf : ∀ j, (upd pt.items l { pt.items l with next := Nxt.stl s' } j).cell = (pt.items j).cell ∧
        (upd pt.items l { pt.items l with next := Nxt.stl s' } j).nextCell = (pt.items j).nextCell ∧
        (upd pt.items l { pt.items l with next := Nxt.stl s' } j).prev = (pt.items j).prev ∧
        (upd pt.items l { pt.items l with next := Nxt.stl s' } j).key = (pt.items j).key ∧
        (upd pt.items l { pt.items l with next := Nxt.stl s' } j).value = (pt.items j).value := by
      intro j; by_cases e : j = l <;> simp [upd_apply, e]
    constructor
    · exact hr.cap
    · exact hr.alloc
    · exact hr.size
    · exact hr.blocks
    · exact hr.ipb
    · exact hr.dcap
    · intro j; show (upd pt.items l _ j).key = _ ∧ (upd pt.items l _ j).value = _
      rw [(hf j).2.2.2.1, (hf j).2.2.2.2]; exact hr.kv j
    · intro ha b
      exact (GSeg_congr _ _ _ (fun j _ => ⟨(hf j).2.1, (hf j).1⟩) _ _ _).2 (hr.chains ha b)
    · show GSeg Nxt.item some (fun i => (upd pt.items l _ i).next) (fun i => (upd pt.items l _ i).prev) none pt.begin t.order (Nxt.stl s')
      have hne : t.order ≠ [] := fun e => by rw [e] at hlast; simp at hlast
      have := GSeg_set_last Nxt.item some (fwd := fun i => (pt.items i).next) (back := fun i => (pt.items i).prev)
        (fwd' := fun i => (upd pt.items l { pt.items l with next := Nxt.stl s' } i).next)
        (back' := fun i => (upd pt.items l { pt.items l with next := Nxt.stl s' } i).prev)
        t.order (Nxt.stl s') hi.order_nodup
        (by
          intro j _
          refine ⟨fun hne' => ?_, (hf j).2.2.1⟩
          have : j ≠ l := fun e => hne' (by rw [← hlast, e])
          simp [upd_apply, this])
        (by
          intro x hx
          have : x = l := by rw [← hlast] at hx; exact (Option.some.inj hx).symm
          simp [upd_apply, this])
        none pt.begin _ hr.order
      simpa [hne] using this
    · have := hr.last; rw [he] at this; exact this
    · exact (FreeL_congr _ (fun j _ => (hf j).2.2.1) _).2 hr.free

theorem Rel.swap {h : Nat → Nat} {pa pb : PTable} {ta tb : Table} (ha : Rel pa ta) (hb : Rel pb tb)
    (hia : ta.Inv h) (hib : tb.Inv h) :
    Rel (PTable.swap pa pb).1 tb ∧ Rel (PTable.swap pa pb).2 ta ∧
    (PTable.swap pa pb).1.self = pa.self ∧ (PTable.swap pa pb).2.self = pb.self := by
  refine ⟨reanchor hb hib pa.self, reanchor ha hia pb.self, ?_, ?_⟩
  · simp only [PTable.swap]; cases pb.endPrev <;> rfl
  · simp only [PTable.swap]; cases pa.endPrev <;> rfl

end Nstd.Hash.Ptr
