import Nstd.Hash.PtrSeg
import Nstd.Hash.LemmasStep
/-
  The pointer-level model is simulated by the chain-list model: the coupling relation `Rel`
  and the simulation of `find`, iteration, value updates and item allocation.
-/
namespace Nstd.Hash.Ptr
open Nstd.Hash

/-- the chain of bucket `b`, starting from the bucket head `hd`, is the id list `l`:
    `nextCell` links, and every `cell` designates the referring cell -/
def Chain (items : Nat → PItem) (b : Nat) (hd : Option Nat) (l : List Nat) : Prop :=
  GSeg some CellRef.nextOf (fun i => (items i).nextCell) (fun i => (items i).cell) (.bucket b) hd l none

/-- the order list from `first` is `l`: `next` links closed by the sentinel of `self`, `prev` links back (null for the first) -/
def Dll (items : Nat → PItem) (self : Bool) (first : Nxt) (l : List Nat) : Prop :=
  GSeg Nxt.item some (fun i => (items i).next) (fun i => (items i).prev) none first l (.stl self)

/-- the free list, linked through `prev` -/
def FreeL (items : Nat → PItem) : Option Nat → List Nat → Prop
  | f, [] => f = none
  | f, id :: rest => f = some id ∧ FreeL items (items id).prev rest

theorem FreeL_congr {items items' : Nat → PItem} (l : List Nat)
    (hc : ∀ j ∈ l, (items' j).prev = (items j).prev) (f : Option Nat) :
    FreeL items' f l ↔ FreeL items f l := by
  induction l generalizing f with
  | nil => exact Iff.rfl
  | cons x r ih =>
    simp only [FreeL]
    rw [hc x List.mem_cons_self, ih (fun j hj => hc j (List.mem_cons_of_mem _ hj))]

/-- coupling of a pointer-level table with a chain-list table -/
structure Rel (pt : PTable) (t : Table) : Prop where
  cap : pt.cap = t.cap
  alloc : pt.allocated = t.allocated
  size : pt.size = t.size
  blocks : pt.blocks = t.blocks
  ipb : pt.ipb = t.ipb
  dcap : pt.dcap = t.dcap
  kv : ∀ id, (pt.items id).key = (t.items id).key ∧ (pt.items id).value = (t.items id).value
  chains : t.allocated = true → ∀ b, Chain pt.items b (pt.heads b) (t.data b)
  order : Dll pt.items pt.self pt.begin t.order
  last : pt.endPrev = lastB some none t.order
  free : FreeL pt.items pt.freeItem t.free

/-! ### find -/

theorem walk_chain (pitems : Nat → PItem) (titems : Nat → Item) (k : Nat)
    (hk : ∀ id, (pitems id).key = (titems id).key) (l : List Nat) (c : CellRef) (hd : Option Nat) (f : Nat)
    (hc : GSeg some CellRef.nextOf (fun i => (pitems i).nextCell) (fun i => (pitems i).cell) c hd l none)
    (hf : l.length ≤ f) :
    PTable.walk pitems k f hd = some (Table.chainFind titems k l) := by
  induction l generalizing c hd f with
  | nil =>
    simp only [GSeg] at hc
    subst hc
    cases f <;> rfl
  | cons x r ih =>
    simp only [GSeg] at hc
    obtain ⟨h1, _, h3⟩ := hc
    subst h1
    cases f with
    | zero => simp at hf
    | succ f' =>
      simp only [PTable.walk, Table.chainFind, hk]
      by_cases hx : (titems x).key = k
      · simp [hx]
      · simp only [hx, if_false]
        exact ih _ _ f' h3 (by simpa using hf)

theorem chain_length_le {h : Nat → Nat} {t : Table} (hi : t.Inv h) (ha : t.allocated = true) (b : Nat) :
    (t.data b).length ≤ t.order.length :=
  List.Nodup.length_le_of_subset (hi.chain_nodup ha b) (fun _ hx => ((hi.chain_iff ha b _).1 hx).1)

theorem Rel.find {h : Nat → Nat} {pt : PTable} {t : Table} (hr : Rel pt t) (hi : t.Inv h) (k : Nat) :
    pt.find h k = some (t.find h k) := by
  unfold PTable.find Table.find
  rw [hr.alloc]
  by_cases ha : t.allocated = true
  · simp only [ha, if_true]
    rw [hr.cap, hr.size, hi.size_eq]
    exact walk_chain pt.items t.items k (fun id => (hr.kv id).1) _ _ _ _ (hr.chains ha _) (chain_length_le hi ha _)
  · simp [ha]

/-! ### iteration -/

theorem toList_seg (items : Nat → PItem) (self : Bool) (l : List Nat) (b0 : Option Nat) (first : Nxt) (f : Nat)
    (hd : GSeg Nxt.item some (fun i => (items i).next) (fun i => (items i).prev) b0 first l (.stl self))
    (hf : l.length ≤ f) : PTable.toList items self f first = some l := by
  induction l generalizing b0 first f with
  | nil =>
    simp only [GSeg] at hd
    subst hd
    cases f <;> simp [PTable.toList]
  | cons x r ih =>
    simp only [GSeg] at hd
    obtain ⟨h1, _, h3⟩ := hd
    subst h1
    cases f with
    | zero => simp at hf
    | succ f' =>
      simp only [PTable.toList]
      rw [ih _ _ f' h3 (by simpa using hf)]
      rfl

theorem Rel.order_eq {h : Nat → Nat} {pt : PTable} {t : Table} (hr : Rel pt t) (hi : t.Inv h) :
    pt.order = some t.order := by
  unfold PTable.order
  exact toList_seg pt.items pt.self t.order none pt.begin pt.size hr.order (by rw [hr.size, hi.size_eq]; exact Nat.le_refl _)

theorem toListBack_seg (items : Nat → PItem) (last : Nxt) (l : List Nat) :
    ∀ (b0 : Option Nat) (first : Nxt) (f : Nat),
    GSeg Nxt.item some (fun i => (items i).next) (fun i => (items i).prev) b0 first l last →
    PTable.toListBack items (l.length + f) (lastB some b0 l) = (PTable.toListBack items f b0).map (l.reverse ++ ·) := by
  induction l with
  | nil =>
    intro b0 first f _
    simp only [List.length_nil, Nat.zero_add, lastB, List.reverse_nil, List.nil_append]
    cases PTable.toListBack items f b0 <;> rfl
  | cons x r ih =>
    intro b0 first f hg
    simp only [GSeg] at hg
    obtain ⟨_, h2, h3⟩ := hg
    have := ih (some x) _ (f + 1) h3
    simp only [lastB, List.length_cons]
    rw [show r.length + 1 + f = r.length + (f + 1) by omega, this]
    simp only [PTable.toListBack, h2, Option.map_map]
    congr 1
    funext t
    simp

/-- backward iteration yields the order list reversed -/
theorem Rel.orderBack_eq {h : Nat → Nat} {pt : PTable} {t : Table} (hr : Rel pt t) (hi : t.Inv h) :
    pt.orderBack = some t.order.reverse := by
  unfold PTable.orderBack
  rw [hr.last, hr.size, hi.size_eq]
  have := toListBack_seg pt.items (.stl pt.self) t.order none pt.begin 0 hr.order
  simp only [Nat.add_zero] at this
  rw [this]
  simp [PTable.toListBack]

theorem Rel.endPrev_eq {pt : PTable} {t : Table} (hr : Rel pt t) : pt.endPrev = t.order.getLast? := by
  rw [hr.last, lastB_some]
  cases t.order.getLast? <;> rfl

theorem Rel.begin_eq {pt : PTable} {t : Table} (hr : Rel pt t) :
    pt.begin = (match t.order.head? with | some x => Nxt.item x | none => Nxt.stl pt.self) := by
  have := GSeg_first Nxt.item some hr.order
  rw [this]
  cases t.order <;> rfl

/-! ### a change of a value only -/

theorem Rel.set_value {pt : PTable} {t : Table} (hr : Rel pt t) (id v : Nat) :
    Rel { pt with items := upd pt.items id { pt.items id with value := v } }
        { t with items := upd t.items id { t.items id with value := v } } := by
  have hf : ∀ j, (upd pt.items id { pt.items id with value := v } j).cell = (pt.items j).cell ∧
      (upd pt.items id { pt.items id with value := v } j).nextCell = (pt.items j).nextCell ∧
      (upd pt.items id { pt.items id with value := v } j).prev = (pt.items j).prev ∧
      (upd pt.items id { pt.items id with value := v } j).next = (pt.items j).next := by
    intro j; by_cases e : j = id <;> simp [upd, e]
  constructor
  · exact hr.cap
  · exact hr.alloc
  · exact hr.size
  · exact hr.blocks
  · exact hr.ipb
  · exact hr.dcap
  · intro j
    by_cases e : j = id
    · subst e; simp [upd, (hr.kv j).1]
    · simp [upd, e, hr.kv j]
  · intro ha b
    exact (GSeg_congr _ _ _ (fun j _ => ⟨(hf j).2.1, (hf j).1⟩) _ _ _).2 (hr.chains ha b)
  · exact (GSeg_congr _ _ _ (fun j _ => ⟨(hf j).2.2.2, (hf j).2.2.1⟩) _ _ _).2 hr.order
  · exact hr.last
  · exact (FreeL_congr _ (fun j _ => (hf j).2.2.1) _).2 hr.free

end Nstd.Hash.Ptr
