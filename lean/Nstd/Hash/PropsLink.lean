import Nstd.Generated.HashLink
import Nstd.Hash.LemmasLink
import Nstd.Generated.HashConst
/-
  Property C02, the tie by TRANSLATION: `Nstd.Generated.HashLink` holds the bodies of
      find(key)  insert(position, key[, value])  remove(iterator)  remove(key)  removeFront()  removeBack()  clear()
      PoolMap::remove(const V&)
  of HashMap, HashSet and PoolMap as tools/gen_hash.py reads them off the CURRENT include/nstd/{HashMap,HashSet,PoolMap}.hpp on
  every run, statement by statement (loops as functions over a fuel argument; the statements after an `if` whose branches
  both fall through as a function `…_kN` of their own; the two allocation statements recognised as a whole and replaced by
  `allocBuckets` / `newBlockFirst` / `newBlockAll`, see the translator's header).  The theorems below state that the
  translated code IS the hand-written step of the pointer-level model `PtrModel.lean` (`PTable.find`, `insert`, `removeItem`,
  `removeKey`, `clear`) – on every table for the bodies that re-read nothing they wrote, on every table that represents a
  model state (`Rel pt t`, `t.Inv h`: as every reachable one does by `ptr_simulated`) for `insert` / `remove`, where the
  code reads `item->nextCell`, `item->cell`, `insertPos->prev` again after a store and equality needs "an item's `cell` is
  not its own `nextCell`" / "the fresh item is not the insert position".  With `ptr_simulated` / `ptr_refines` (Props.lean)
  the refinement to the insertion-ordered association list therefore holds of the code as written in the headers; a change
  of a body that alters what it computes makes one of these theorems fail (a broken obligation), a rewrite that the
  translator maps to the same Lean term (names of locals, formatting, comments) changes nothing.
-/
set_option linter.unusedSimpArgs false
set_option linter.unusedVariables false
namespace Nstd.Hash.Ptr
open Nstd.Hash Nstd.Generated

/-- the pair a translated member returns for the model's `find` result -/
def findResult (t : PTable) (r : Option Nat) : PTable × Nxt := (t, iterOf t.self r)

theorem Rel.begin_nxtAt {pt : PTable} {t : Table} (hr : Rel pt t) : pt.begin = nxtAt pt.self t.order 0 := by
  rw [hr.begin_eq]; unfold nxtAt; cases t.order <;> rfl

theorem writeCell_self (t : PTable) (c : CellRef) (v : Option Nat) : (t.writeCell c v).self = t.self := by cases c <;> rfl

/-! ### HashMap.hpp -/

/-- The translated `HashMap::find(key)` is the model's `find` (the walk along `nextCell` from the bucket head), for EVERY
    table, key and hash function: the iterator of the item, `end()` if there is none; out of fuel iff the model is. -/
theorem gen_map_find (h : Nat → Nat) (t : PTable) (k : Nat) :
    HashLink.HashMap.find h t k = (t.find h k).map (findResult t) := by
  first
  | -- the walk written in `find` itself
    have hl : ∀ (fuel hc : Nat) (v : Option Nat),
        HashLink.HashMap.find_loop1 h fuel t k hc v = (PTable.walk t.items k fuel v).map (findResult t) := by
      intro fuel hc v
      induction fuel generalizing v with
      | zero => cases v <;> simp [HashLink.HashMap.find_loop1, PTable.walk, iterOf, findResult]
      | succ f ih =>
        cases v with
        | none => simp [HashLink.HashMap.find_loop1, PTable.walk, iterOf, findResult]
        | some a =>
          unfold HashLink.HashMap.find_loop1
          simp only [PTable.walk]
          by_cases hk : (t.items a).key = k
          · simp [hk, iterOf, findResult]
          · simp only [hk, if_false]; exact ih _
    unfold HashLink.HashMap.find PTable.find
    by_cases ha : t.allocated = true
    · simp only [ha, if_true]; exact hl _ _ _
    · simp [ha, iterOf, findResult]
  | -- the walk in a helper `findInChain(item, key)` that returns the item or null (harmless change C02-h4)
    have hl : ∀ v : Option Nat,
        HashLink.HashMap.findInChain h t v k = (PTable.walk t.items k t.size v).map (fun r => (t, r)) := by
      have hl1 : ∀ (fuel : Nat) (v : Option Nat),
          HashLink.HashMap.findInChain_loop1 h fuel t v k = (PTable.walk t.items k fuel v).map (fun r => (t, r)) := by
        intro fuel v
        induction fuel generalizing v with
        | zero => cases v <;> simp [HashLink.HashMap.findInChain_loop1, PTable.walk]
        | succ f ih =>
          cases v with
          | none => simp [HashLink.HashMap.findInChain_loop1, PTable.walk]
          | some a =>
            unfold HashLink.HashMap.findInChain_loop1
            simp only [PTable.walk]
            by_cases hk : (t.items a).key = k
            · simp [hk]
            · simp only [hk, if_false]; exact ih _
      intro v; unfold HashLink.HashMap.findInChain; exact hl1 _ _
    unfold HashLink.HashMap.find PTable.find
    by_cases ha : t.allocated = true
    · simp only [ha, if_true, hl]
      cases PTable.walk t.items k t.size (t.heads (h k % t.cap)) with
      | none => rfl
      | some r => cases r <;> rfl
    · simp [ha, iterOf, findResult]

/-- The translated `HashMap::remove(const Iterator&)` is the model's `removeItem` (unlink from the bucket chain through the
    `cell` back-pointer, unlink from the order list, push on the free list, return `item->next`) on every table in which the
    item's `cell` does not designate the item's own `nextCell` and the item is not its own predecessor.  The proof does not
    follow the statement order of the body (the functions `…_kN` are unfolded by `simp`, every read is evaluated through the
    stores before it by frame lemmas): it also holds of a body that hoists the reads into locals (harmless change C02-h1). -/
theorem gen_map_removeIt (h : Nat → Nat) (t : PTable) (item : Nat) (hc : (t.items item).cell ≠ .nextOf item)
    (hp : (t.items item).prev ≠ some item) :
    HashLink.HashMap.removeIt h t (.item item) = some (t.removeItem item) := by
  first
  | -- reads evaluated through the stores by frame lemmas (the shape of the header, reads hoisted into locals)
    unfold HashLink.HashMap.removeIt PTable.removeItem PTable.unlinkChain PTable.unlinkOrder
    rcases hnc : (t.items item).nextCell with _ | n <;> rcases hpv : (t.items item).prev with _ | p <;>
      simp [writeCell_items_ne t _ _ item hc, hnc, hpv, setCell_prev, setCell_next, writeCell_prev, writeCell_next,
        setPrev_next, setPrevOf_next]
    all_goals
      have hpi : item ≠ p := fun e => hp (by rw [hpv, e])
      simp [setNext_next_ne _ _ _ _ hpi, setCell_next, writeCell_next]
    done
  | -- in addition `next->prev = prev` in front of `prev->next = next` (harmless change C02-h6): the two stores commute
    unfold HashLink.HashMap.removeIt PTable.removeItem PTable.unlinkChain PTable.unlinkOrder
    rcases hnc : (t.items item).nextCell with _ | n <;> rcases hpv : (t.items item).prev with _ | p
    all_goals
      simp only [HashLink.HashMap.removeIt_k1, HashLink.HashMap.removeIt_k2, PTable.prevOf, hnc, hpv,
        writeCell_items_ne t _ _ item hc, setCell_prev, setCell_next, writeCell_prev, writeCell_next,
        setNext_setPrevOf_comm, setPrevOf_begin, setPrev_next, setPrevOf_next]
    all_goals
      first
      | rfl
      | (rcases hnx : (t.items item).next with nx | o <;> rfl)
      | (have hpi : item ≠ p := fun e => hp (by rw [hpv, e])
         simp only [setNext_next_ne _ _ _ _ hpi, setCell_next, writeCell_next, setPrev_next, setPrevOf_next]
         done)
      | (have hpi : item ≠ p := fun e => hp (by rw [hpv, e])
         simp only [setNext_next_ne _ _ _ _ hpi, setCell_next, writeCell_next, setPrev_next, setPrevOf_next]
         rfl)

/-- … hence on every table that represents a model state, for every live item. -/
theorem gen_map_removeIt_rel {h : Nat → Nat} {pt : PTable} {t : Table} (hr : Rel pt t) (hi : t.Inv h) (id : Nat)
    (hm : id ∈ t.order) : HashLink.HashMap.removeIt h pt (.item id) = some (pt.removeItem id) :=
  gen_map_removeIt h pt id (hr.cell_ne_self hi id hm) (hr.prev_ne_self hi id hm)

/-- The translated `HashMap::remove(const T& key)` (`find`, then `remove(it)` unless `end()`) is the model's `removeKey` on
    every table that represents a model state. -/
theorem gen_map_removeKey {h : Nat → Nat} {pt : PTable} {t : Table} (hr : Rel pt t) (hi : t.Inv h) (k : Nat) :
    HashLink.HashMap.removeKey h pt k = pt.removeKey h k := by
  unfold HashLink.HashMap.removeKey PTable.removeKey
  rw [gen_map_find]
  cases hf : pt.find h k with
  | none => rfl
  | some r =>
    cases r with
    | none => simp [findResult, iterOf]
    | some id =>
      have hm := hr.find_mem hi k id hf
      simp [findResult, iterOf, gen_map_removeIt_rel hr hi id hm]

/-- The translated `removeFront()` / `removeBack()` are `remove(_begin)` / `remove(_end.item->prev)`: the model's `removeItem`
    of the first / last item; a fault on the empty table (`removeBack`: the null `endItem.prev` made an iterator and
    dereferenced; `removeFront`: the fields of the sentinel). -/
theorem gen_map_removeFront {h : Nat → Nat} {pt : PTable} {t : Table} (hr : Rel pt t) (hi : t.Inv h) :
    HashLink.HashMap.removeFront h pt = (match t.order.head? with | some id => some (pt.removeItem id) | none => none) := by
  unfold HashLink.HashMap.removeFront
  rw [hr.begin_eq]
  cases ho : t.order with
  | nil => simp [HashLink.HashMap.removeIt]
  | cons x r =>
    have hm : x ∈ t.order := by rw [ho]; exact List.mem_cons_self
    simp [gen_map_removeIt_rel hr hi x hm]

theorem gen_map_removeBack {h : Nat → Nat} {pt : PTable} {t : Table} (hr : Rel pt t) (hi : t.Inv h) :
    HashLink.HashMap.removeBack h pt = (match pt.endPrev with | some id => some (pt.removeItem id) | none => none) := by
  unfold HashLink.HashMap.removeBack
  simp only [PTable.prevOf]
  cases he : pt.endPrev with
  | none => rfl
  | some x =>
    have hm : x ∈ t.order := by
      have := hr.endPrev_eq; rw [he] at this
      exact List.mem_of_getLast? this.symm
    simp [gen_map_removeIt_rel hr hi x hm]

/-- The translated `HashMap::insert(position, key, value)` is the model's `insert` – `find`; an existing key gets the value
    and keeps its place; otherwise bucket array on first use, item from the free list or a new block, construction, push to
    the front of the bucket chain, link before `position` – on every table on which the item the allocator hands out is not
    the one `position` designates, nor its predecessor, nor the head of the key's bucket. -/
theorem gen_map_insert (h : Nat → Nat) (t : PTable) (pos : Nxt) (k v : Nat)
    (H1 : pos ≠ .item (t.withBuckets.allocItem Kind.map).1)
    (H2 : (t.withBuckets.allocItem Kind.map).2.prevOf pos ≠ some (t.withBuckets.allocItem Kind.map).1)
    (H3 : (t.withBuckets.allocItem Kind.map).2.heads (h k % (t.withBuckets.allocItem Kind.map).2.cap) ≠
      some (t.withBuckets.allocItem Kind.map).1) :
    HashLink.HashMap.insert h t pos k v = (t.insert Kind.map h pos k v).map (fun r => (r.1, Nxt.item r.2)) := by
  first
  | -- the shape of the current header: one body, the link half in `insert_k1`
    have hlink : ∀ (t : PTable) (it : Nxt) (item : Nat), pos ≠ .item item → t.prevOf pos ≠ some item →
        t.heads (h k % t.cap) ≠ some item →
        HashLink.HashMap.insert_k1 h t pos k v it item =
          some ((t.linkChain Kind.map item (h k % t.cap) k v).linkOrder item pos, .item item) := by
      intro t it item H1 H2 H3
      unfold HashLink.HashMap.insert_k1 PTable.linkChain PTable.linkOrder
      rcases hh : t.heads (h k % t.cap) with _ | n <;> rcases pos with j | o
      case none.item =>
        have hj : j ≠ item := fun e => H1 (by rw [e])
        rcases hq : (t.items j).prev with _ | q
        · simp [PTable.constructAt, PTable.setCell, PTable.setNextCell, PTable.readCell, PTable.writeCell, PTable.setPrev, PTable.setNext,
              PTable.prevOf, PTable.setPrevOf, upd_same, upd_upd, Table.storedValue, hh, hq, upd_ne _ _ _ _ hj]
          try (funext x; by_cases e_xj : x = j <;> by_cases e_xi : x = item <;> simp_all [upd])
        · have hqi : q ≠ item := fun e => H2 (by simp [PTable.prevOf, hq, e])
          simp [PTable.constructAt, PTable.setCell, PTable.setNextCell, PTable.readCell, PTable.writeCell, PTable.setPrev, PTable.setNext,
              PTable.prevOf, PTable.setPrevOf, upd_same, upd_upd, Table.storedValue, hh, hq, upd_ne _ _ _ _ hj, upd_ne _ _ _ _ hqi]
          try (funext x; by_cases e_jq : j = q <;> by_cases e_xj : x = j <;> by_cases e_xq : x = q <;> by_cases e_xi : x = item <;> simp_all [upd])
      case none.stl =>
        rcases hq : t.endPrev with _ | q
        · simp [PTable.constructAt, PTable.setCell, PTable.setNextCell, PTable.readCell, PTable.writeCell, PTable.setPrev, PTable.setNext,
              PTable.prevOf, PTable.setPrevOf, upd_same, upd_upd, Table.storedValue, hh, hq, upd_same]
          try (funext x; by_cases e_xi : x = item <;> simp_all [upd])
        · have hqi : q ≠ item := fun e => H2 (by simp [PTable.prevOf, hq, e])
          simp [PTable.constructAt, PTable.setCell, PTable.setNextCell, PTable.readCell, PTable.writeCell, PTable.setPrev, PTable.setNext,
              PTable.prevOf, PTable.setPrevOf, upd_same, upd_upd, Table.storedValue, hh, hq, upd_ne _ _ _ _ hqi]
          try (funext x; by_cases e_xq : x = q <;> by_cases e_xi : x = item <;> simp_all [upd])
      case some.item =>
        have hni : n ≠ item := fun e => H3 (by rw [hh, e])
        have hj : j ≠ item := fun e => H1 (by rw [e])
        by_cases hjn : j = n
        · subst hjn
          rcases hq : (t.items j).prev with _ | q
          · simp [PTable.constructAt, PTable.setCell, PTable.setNextCell, PTable.readCell, PTable.writeCell, PTable.setPrev, PTable.setNext,
                PTable.prevOf, PTable.setPrevOf, upd_same, upd_upd, Table.storedValue, hh, hq, upd_ne _ _ _ _ hj, upd_ne _ _ _ _ hni]
            try (funext x; by_cases e_xj : x = j <;> by_cases e_xi : x = item <;> simp_all [upd])
          · have hqi : q ≠ item := fun e => H2 (by simp [PTable.prevOf, hq, e])
            simp [PTable.constructAt, PTable.setCell, PTable.setNextCell, PTable.readCell, PTable.writeCell, PTable.setPrev, PTable.setNext,
                PTable.prevOf, PTable.setPrevOf, upd_same, upd_upd, Table.storedValue, hh, hq, upd_ne _ _ _ _ hj, upd_ne _ _ _ _ hqi, upd_ne _ _ _ _ hni]
            try (funext x; by_cases e_jq : j = q <;> by_cases e_xj : x = j <;> by_cases e_xq : x = q <;> by_cases e_xi : x = item <;> simp_all [upd])
        · have hjn' : j ≠ n := hjn
          rcases hq : (t.items j).prev with _ | q
          · simp [PTable.constructAt, PTable.setCell, PTable.setNextCell, PTable.readCell, PTable.writeCell, PTable.setPrev, PTable.setNext,
                PTable.prevOf, PTable.setPrevOf, upd_same, upd_upd, Table.storedValue, hh, hq, upd_ne _ _ _ _ hj, upd_ne _ _ _ _ hjn', upd_ne _ _ _ _ hni]
            try (funext x; by_cases e_jn : j = n <;> by_cases e_xj : x = j <;> by_cases e_xn : x = n <;> by_cases e_xi : x = item <;> simp_all [upd])
          · have hqi : q ≠ item := fun e => H2 (by simp [PTable.prevOf, hq, e])
            simp [PTable.constructAt, PTable.setCell, PTable.setNextCell, PTable.readCell, PTable.writeCell, PTable.setPrev, PTable.setNext,
                PTable.prevOf, PTable.setPrevOf, upd_same, upd_upd, Table.storedValue, hh, hq, upd_ne _ _ _ _ hj, upd_ne _ _ _ _ hjn', upd_ne _ _ _ _ hqi, upd_ne _ _ _ _ hni]
            try (funext x; by_cases e_jq : j = q <;> by_cases e_jn : j = n <;> by_cases e_qn : q = n <;> by_cases e_xj : x = j <;> by_cases e_xq : x = q <;> by_cases e_xn : x = n <;> by_cases e_xi : x = item <;> simp_all [upd])
      case some.stl =>
        have hni : n ≠ item := fun e => H3 (by rw [hh, e])
        rcases hq : t.endPrev with _ | q
        · simp [PTable.constructAt, PTable.setCell, PTable.setNextCell, PTable.readCell, PTable.writeCell, PTable.setPrev, PTable.setNext,
              PTable.prevOf, PTable.setPrevOf, upd_same, upd_upd, Table.storedValue, hh, hq, upd_ne _ _ _ _ hni]
          try (funext x; by_cases e_xn : x = n <;> by_cases e_xi : x = item <;> simp_all [upd])
        · have hqi : q ≠ item := fun e => H2 (by simp [PTable.prevOf, hq, e])
          simp [PTable.constructAt, PTable.setCell, PTable.setNextCell, PTable.readCell, PTable.writeCell, PTable.setPrev, PTable.setNext,
              PTable.prevOf, PTable.setPrevOf, upd_same, upd_upd, Table.storedValue, hh, hq, upd_ne _ _ _ _ hqi, upd_ne _ _ _ _ hni]
          try (funext x; by_cases e_qn : q = n <;> by_cases e_xq : x = q <;> by_cases e_xn : x = n <;> by_cases e_xi : x = item <;> simp_all [upd])
    unfold HashLink.HashMap.insert PTable.insert
    rw [gen_map_find]
    cases hf : t.find h k with
    | none => rfl
    | some r =>
      cases r with
      | some id => simp [findResult, iterOf, PTable.setValueAt]
      | none =>
        simp only [Option.map_some, findResult, iterOf, if_true]
        unfold PTable.linkNew
        rw [withBuckets_eq]
        have e1 : (if t.allocated then t else t.allocBuckets) = t.withBuckets := rfl
        rw [e1]
        generalize t.withBuckets = t0 at H1 H2 H3 ⊢
        unfold PTable.allocItem at H1 H2 H3 ⊢
        cases hfree : t0.freeItem with
        | some f =>
          simp only [hfree] at H1 H2 H3 ⊢
          rw [hlink _ _ _ H1 H2 H3]
        | none =>
          simp only [hfree, PTable.newBlockFirst, reduceCtorEq, if_false] at H1 H2 H3 ⊢
          rw [hlink _ _ _ H1 H2 H3]
  | -- allocation, chain link and order link in helpers `allocateItem`, `linkIntoChain`, `linkBefore`, the lookup through
    -- `findInChain` (harmless change C02-h4)
    have halloc : ∀ t0 : PTable,
        HashLink.HashMap.allocateItem h t0 = some ((t0.allocItem Kind.map).2, some (t0.allocItem Kind.map).1) := by
      intro t0
      unfold HashLink.HashMap.allocateItem PTable.allocItem
      cases hf : t0.freeItem <;> simp [hf, PTable.newBlockFirst]
    have hchain : ∀ (T : PTable) (item c : Nat),
        HashLink.HashMap.linkIntoChain h (T.constructAt item k v) item (.bucket c) = some (T.linkChain Kind.map item c k v) := by
      intro T item c
      unfold HashLink.HashMap.linkIntoChain PTable.linkChain
      cases hh : T.heads c <;>
        simp [PTable.constructAt, PTable.setCell, PTable.setNextCell, PTable.readCell, PTable.writeCell, upd_same, upd_upd,
          Table.storedValue, hh]
    have hbefore : ∀ (T : PTable) (item : Nat), pos ≠ .item item → T.prevOf pos ≠ some item →
        (HashLink.HashMap.linkBefore h T item pos).map (fun t' => ({ t' with size := t'.size + 1 } : PTable)) =
          some (T.linkOrder item pos) := by
      intro T item H1 H2
      unfold HashLink.HashMap.linkBefore PTable.linkOrder
      rcases pos with j | o
      · have hj : j ≠ item := fun e => H1 (by rw [e])
        rcases hq : (T.items j).prev with _ | q
        · simp [PTable.setPrev, PTable.setNext, PTable.prevOf, PTable.setPrevOf, upd_same, upd_upd, upd_ne _ _ _ _ hj, hq]
          try (funext x; by_cases e_xj : x = j <;> by_cases e_xi : x = item <;> simp_all [upd])
        · have hqi : q ≠ item := fun e => H2 (by simp [PTable.prevOf, hq, e])
          simp [PTable.setPrev, PTable.setNext, PTable.prevOf, PTable.setPrevOf, upd_same, upd_upd, upd_ne _ _ _ _ hj, upd_ne _ _ _ _ hqi, hq]
          try (funext x; by_cases e_jq : j = q <;> by_cases e_xj : x = j <;> by_cases e_xq : x = q <;> by_cases e_xi : x = item <;> simp_all [upd])
      · rcases hq : T.endPrev with _ | q
        · simp [PTable.setPrev, PTable.setNext, PTable.prevOf, PTable.setPrevOf, upd_same, upd_upd, hq]
          try (funext x; by_cases e_xi : x = item <;> simp_all [upd])
        · have hqi : q ≠ item := fun e => H2 (by simp [PTable.prevOf, hq, e])
          simp [PTable.setPrev, PTable.setNext, PTable.prevOf, PTable.setPrevOf, upd_same, upd_upd, upd_ne _ _ _ _ hqi, hq]
          try (funext x; by_cases e_xq : x = q <;> by_cases e_xi : x = item <;> simp_all [upd])
    have hk1 : ∀ t0 : PTable, pos ≠ .item (t0.allocItem Kind.map).1 →
        (t0.allocItem Kind.map).2.prevOf pos ≠ some (t0.allocItem Kind.map).1 →
        HashLink.HashMap.insert_k1 h t0 pos k v (h k) =
          some ((((t0.allocItem Kind.map).2.linkChain Kind.map (t0.allocItem Kind.map).1 (h k % (t0.allocItem Kind.map).2.cap) k v).linkOrder
            (t0.allocItem Kind.map).1 pos), .item (t0.allocItem Kind.map).1) := by
      intro t0 H1 H2
      unfold HashLink.HashMap.insert_k1
      rw [halloc]
      generalize (t0.allocItem Kind.map) = a at H1 H2 ⊢
      have hcap : (a.2.constructAt a.1 k v).cap = a.2.cap := rfl
      simp only [hcap, hchain]
      have hb := hbefore (a.2.linkChain Kind.map a.1 (h k % a.2.cap) k v) a.1 H1 (by rw [linkChain_prevOf]; exact H2)
      cases hlb : HashLink.HashMap.linkBefore h (a.2.linkChain Kind.map a.1 (h k % a.2.cap) k v) a.1 pos with
      | none => rw [hlb] at hb; simp at hb
      | some t' =>
        rw [hlb] at hb
        simp only [Option.map_some, Option.some.injEq] at hb
        simp only [hb]
    have hfc : ∀ v' : Option Nat,
        HashLink.HashMap.findInChain h t v' k = (PTable.walk t.items k t.size v').map (fun r => (t, r)) := by
      have hl1 : ∀ (fuel : Nat) (v : Option Nat),
          HashLink.HashMap.findInChain_loop1 h fuel t v k = (PTable.walk t.items k fuel v).map (fun r => (t, r)) := by
        intro fuel v
        induction fuel generalizing v with
        | zero => cases v <;> simp [HashLink.HashMap.findInChain_loop1, PTable.walk]
        | succ f ih =>
          cases v with
          | none => simp [HashLink.HashMap.findInChain_loop1, PTable.walk]
          | some a =>
            unfold HashLink.HashMap.findInChain_loop1
            simp only [PTable.walk]
            by_cases hk : (t.items a).key = k
            · simp [hk]
            · simp only [hk, if_false]; exact ih _
      intro v; unfold HashLink.HashMap.findInChain; exact hl1 _ _
    unfold HashLink.HashMap.insert PTable.insert PTable.find PTable.linkNew
    rw [withBuckets_eq]
    by_cases ha : t.allocated = true
    · have hw : t.withBuckets = t := by simp [PTable.withBuckets, ha]
      rw [hw] at H1 H2 ⊢
      simp only [ha, if_true, hfc]
      cases PTable.walk t.items k t.size (t.heads (h k % t.cap)) with
      | none => rfl
      | some r =>
        cases r with
        | some id => simp [PTable.setValueAt, ha]
        | none => simp only [Option.map_some]; rw [hk1 t H1 H2]
    · have ha' : t.allocated = false := by simpa using ha
      simp only [ha', Bool.false_eq_true, if_false]
      have hwb : t.allocBuckets = t.withBuckets := by simp [PTable.withBuckets, ha']
      rw [hwb, hk1 t.withBuckets H1 H2]
      rfl

/-- … hence on every table that represents a model state, for every position `p ≤ size` (`size` = `end()`). -/
theorem gen_map_insert_rel {h : Nat → Nat} {pt : PTable} {t : Table} (hr : Rel pt t) (hi : t.Inv h) (p k v : Nat) :
    HashLink.HashMap.insert h pt (nxtAt pt.self t.order p) k v =
      (pt.insert Kind.map h (nxtAt pt.self t.order p) k v).map (fun r => (r.1, Nxt.item r.2)) :=
  gen_map_insert h pt _ k v (by rw [allocItem_withBuckets_fst]; exact hr.alloc_ne_pos hi Kind.map p)
    (hr.link_facts hi Kind.map p 0).1 (hr.link_facts hi Kind.map p _).2

/-- The translated `HashMap::clear()` SIMULATES the clear of the chain-list model on every represented table: it does not fault
    and the table it leaves represents `t.clear` (all bucket heads null, empty order list, every former item on the free list in
    the order last … first, keys and values untouched) – the coupling `Rel` says nothing about the `nextCell` / `cell` / `next`
    fields of released items, so bodies that differ only in what they leave in those fields (per-item `*i->cell = 0` vs one
    `Memory::zero` of the bucket array, harmless change C02-h5) satisfy the same statement.  For the shape of the current header the
    proof goes through the equation `translated clear = PTable.clear` (loop `*i->cell = 0; i->prev = freeItem; freeItem = i`
    along `next` up to the own sentinel, then the list members reset), which holds for EVERY table. -/
theorem gen_map_clear {h : Nat → Nat} {pt : PTable} {t : Table} (hr : Rel pt t) (hi : t.Inv h) :
    ∃ pt', HashLink.HashMap.clear h pt = some pt' ∧ Rel pt' t.clear ∧ pt'.self = pt.self := by
  first
  | -- the per-item loop of the current header: equal to the pointer-level model's `clear`
    have heq : ∀ t : PTable, HashLink.HashMap.clear h t = t.clear := by
      have hloop : ∀ (fuel : Nat) (t : PTable) (i : Nxt),
          HashLink.HashMap.clear_loop1 h fuel t i (.stl t.self) =
            (PTable.clearLoop fuel i t).map (fun t' => { t' with begin := .stl t'.self, endPrev := none, size := 0 }) := by
        intro fuel
        induction fuel with
        | zero =>
          intro t i
          cases i with
          | stl o =>
            unfold HashLink.HashMap.clear_loop1 PTable.clearLoop
            by_cases ho : o = t.self <;> simp [ho]
          | item a => simp [HashLink.HashMap.clear_loop1, PTable.clearLoop]
        | succ f ih =>
          intro t i
          cases i with
          | stl o =>
            unfold HashLink.HashMap.clear_loop1 PTable.clearLoop
            by_cases ho : o = t.self <;> simp [ho]
          | item a =>
            unfold HashLink.HashMap.clear_loop1 PTable.clearLoop
            simp only [reduceCtorEq, if_false]
            have hs : ({ (t.writeCell (t.items a).cell none).setPrev a (t.writeCell (t.items a).cell none).freeItem with freeItem := some a } : PTable).self = t.self := by
              show (t.writeCell (t.items a).cell none).self = t.self
              exact writeCell_self _ _ _
            rw [← hs]
            exact ih _ _
      intro t
      unfold HashLink.HashMap.clear PTable.clear
      rw [hloop]
      cases PTable.clearLoop t.size t.begin t <;> rfl
    rw [heq]
    exact hr.clear hi

/-- The translated `HashMap::swap(other)` (two distinct objects, each with its node heap: every pointer is translated
    together with the heap it points into, and the translator checks that afterwards all members of an object designate
    one heap) is the model's `swap`, for EVERY two tables: everything but the object identity exchanged, the last item's
    `next` re-anchored at the adopting object's sentinel, `_begin.item` set to the own sentinel when the adopted list is empty. -/
theorem gen_map_swap (a b : PTable) : HashLink.HashMap.swap a b = some (PTable.swap a b) := by
  unfold HashLink.HashMap.swap PTable.swap
  cases hb : b.endPrev <;> cases ha : a.endPrev <;> rfl

/-! ### HashSet.hpp -/

/-- The translated `HashSet::find(key)` is the model's `find` (the walk along `nextCell` from the bucket head), for EVERY
    table, key and hash function: the iterator of the item, `end()` if there is none; out of fuel iff the model is. -/
theorem gen_set_find (h : Nat → Nat) (t : PTable) (k : Nat) :
    HashLink.HashSet.find h t k = (t.find h k).map (findResult t) := by
  first
  | -- the walk written in `find` itself
    have hl : ∀ (fuel hc : Nat) (v : Option Nat),
        HashLink.HashSet.find_loop1 h fuel t k hc v = (PTable.walk t.items k fuel v).map (findResult t) := by
      intro fuel hc v
      induction fuel generalizing v with
      | zero => cases v <;> simp [HashLink.HashSet.find_loop1, PTable.walk, iterOf, findResult]
      | succ f ih =>
        cases v with
        | none => simp [HashLink.HashSet.find_loop1, PTable.walk, iterOf, findResult]
        | some a =>
          unfold HashLink.HashSet.find_loop1
          simp only [PTable.walk]
          by_cases hk : (t.items a).key = k
          · simp [hk, iterOf, findResult]
          · simp only [hk, if_false]; exact ih _
    unfold HashLink.HashSet.find PTable.find
    by_cases ha : t.allocated = true
    · simp only [ha, if_true]; exact hl _ _ _
    · simp [ha, iterOf, findResult]
  | -- the walk in a helper `findInChain(item, key)` that returns the item or null (harmless change C02-h4)
    have hl : ∀ v : Option Nat,
        HashLink.HashSet.findInChain h t v k = (PTable.walk t.items k t.size v).map (fun r => (t, r)) := by
      have hl1 : ∀ (fuel : Nat) (v : Option Nat),
          HashLink.HashSet.findInChain_loop1 h fuel t v k = (PTable.walk t.items k fuel v).map (fun r => (t, r)) := by
        intro fuel v
        induction fuel generalizing v with
        | zero => cases v <;> simp [HashLink.HashSet.findInChain_loop1, PTable.walk]
        | succ f ih =>
          cases v with
          | none => simp [HashLink.HashSet.findInChain_loop1, PTable.walk]
          | some a =>
            unfold HashLink.HashSet.findInChain_loop1
            simp only [PTable.walk]
            by_cases hk : (t.items a).key = k
            · simp [hk]
            · simp only [hk, if_false]; exact ih _
      intro v; unfold HashLink.HashSet.findInChain; exact hl1 _ _
    unfold HashLink.HashSet.find PTable.find
    by_cases ha : t.allocated = true
    · simp only [ha, if_true, hl]
      cases PTable.walk t.items k t.size (t.heads (h k % t.cap)) with
      | none => rfl
      | some r => cases r <;> rfl
    · simp [ha, iterOf, findResult]

/-- The translated `HashSet::remove(const Iterator&)` is the model's `removeItem` (unlink from the bucket chain through the
    `cell` back-pointer, unlink from the order list, push on the free list, return `item->next`) on every table in which the
    item's `cell` does not designate the item's own `nextCell` and the item is not its own predecessor.  The proof does not
    follow the statement order of the body (the functions `…_kN` are unfolded by `simp`, every read is evaluated through the
    stores before it by frame lemmas): it also holds of a body that hoists the reads into locals (harmless change C02-h1). -/
theorem gen_set_removeIt (h : Nat → Nat) (t : PTable) (item : Nat) (hc : (t.items item).cell ≠ .nextOf item)
    (hp : (t.items item).prev ≠ some item) :
    HashLink.HashSet.removeIt h t (.item item) = some (t.removeItem item) := by
  first
  | -- reads evaluated through the stores by frame lemmas (the shape of the header, reads hoisted into locals)
    unfold HashLink.HashSet.removeIt PTable.removeItem PTable.unlinkChain PTable.unlinkOrder
    rcases hnc : (t.items item).nextCell with _ | n <;> rcases hpv : (t.items item).prev with _ | p <;>
      simp [writeCell_items_ne t _ _ item hc, hnc, hpv, setCell_prev, setCell_next, writeCell_prev, writeCell_next,
        setPrev_next, setPrevOf_next]
    all_goals
      have hpi : item ≠ p := fun e => hp (by rw [hpv, e])
      simp [setNext_next_ne _ _ _ _ hpi, setCell_next, writeCell_next]
    done
  | -- in addition `next->prev = prev` in front of `prev->next = next` (harmless change C02-h6): the two stores commute
    unfold HashLink.HashSet.removeIt PTable.removeItem PTable.unlinkChain PTable.unlinkOrder
    rcases hnc : (t.items item).nextCell with _ | n <;> rcases hpv : (t.items item).prev with _ | p
    all_goals
      simp only [HashLink.HashSet.removeIt_k1, HashLink.HashSet.removeIt_k2, PTable.prevOf, hnc, hpv,
        writeCell_items_ne t _ _ item hc, setCell_prev, setCell_next, writeCell_prev, writeCell_next,
        setNext_setPrevOf_comm, setPrevOf_begin, setPrev_next, setPrevOf_next]
    all_goals
      first
      | rfl
      | (rcases hnx : (t.items item).next with nx | o <;> rfl)
      | (have hpi : item ≠ p := fun e => hp (by rw [hpv, e])
         simp only [setNext_next_ne _ _ _ _ hpi, setCell_next, writeCell_next, setPrev_next, setPrevOf_next]
         done)
      | (have hpi : item ≠ p := fun e => hp (by rw [hpv, e])
         simp only [setNext_next_ne _ _ _ _ hpi, setCell_next, writeCell_next, setPrev_next, setPrevOf_next]
         rfl)

/-- … hence on every table that represents a model state, for every live item. -/
theorem gen_set_removeIt_rel {h : Nat → Nat} {pt : PTable} {t : Table} (hr : Rel pt t) (hi : t.Inv h) (id : Nat)
    (hm : id ∈ t.order) : HashLink.HashSet.removeIt h pt (.item id) = some (pt.removeItem id) :=
  gen_set_removeIt h pt id (hr.cell_ne_self hi id hm) (hr.prev_ne_self hi id hm)

/-- The translated `HashSet::remove(const T& key)` (`find`, then `remove(it)` unless `end()`) is the model's `removeKey` on
    every table that represents a model state. -/
theorem gen_set_removeKey {h : Nat → Nat} {pt : PTable} {t : Table} (hr : Rel pt t) (hi : t.Inv h) (k : Nat) :
    HashLink.HashSet.removeKey h pt k = pt.removeKey h k := by
  unfold HashLink.HashSet.removeKey PTable.removeKey
  rw [gen_set_find]
  cases hf : pt.find h k with
  | none => rfl
  | some r =>
    cases r with
    | none => simp [findResult, iterOf]
    | some id =>
      have hm := hr.find_mem hi k id hf
      simp [findResult, iterOf, gen_set_removeIt_rel hr hi id hm]

/-- The translated `removeFront()` / `removeBack()` are `remove(_begin)` / `remove(_end.item->prev)`: the model's `removeItem`
    of the first / last item; a fault on the empty table (`removeBack`: the null `endItem.prev` made an iterator and
    dereferenced; `removeFront`: the fields of the sentinel). -/
theorem gen_set_removeFront {h : Nat → Nat} {pt : PTable} {t : Table} (hr : Rel pt t) (hi : t.Inv h) :
    HashLink.HashSet.removeFront h pt = (match t.order.head? with | some id => some (pt.removeItem id) | none => none) := by
  unfold HashLink.HashSet.removeFront
  rw [hr.begin_eq]
  cases ho : t.order with
  | nil => simp [HashLink.HashSet.removeIt]
  | cons x r =>
    have hm : x ∈ t.order := by rw [ho]; exact List.mem_cons_self
    simp [gen_set_removeIt_rel hr hi x hm]

theorem gen_set_removeBack {h : Nat → Nat} {pt : PTable} {t : Table} (hr : Rel pt t) (hi : t.Inv h) :
    HashLink.HashSet.removeBack h pt = (match pt.endPrev with | some id => some (pt.removeItem id) | none => none) := by
  unfold HashLink.HashSet.removeBack
  simp only [PTable.prevOf]
  cases he : pt.endPrev with
  | none => rfl
  | some x =>
    have hm : x ∈ t.order := by
      have := hr.endPrev_eq; rw [he] at this
      exact List.mem_of_getLast? this.symm
    simp [gen_set_removeIt_rel hr hi x hm]

/-- The translated `HashSet::insert(position, key, value)` is the model's `insert` – `find`; an existing key gets the value
    and keeps its place; otherwise bucket array on first use, item from the free list or a new block, construction, push to
    the front of the bucket chain, link before `position` – on every table on which the item the allocator hands out is not
    the one `position` designates, nor its predecessor, nor the head of the key's bucket. -/
theorem gen_set_insert (h : Nat → Nat) (t : PTable) (pos : Nxt) (k v : Nat)
    (H1 : pos ≠ .item (t.withBuckets.allocItem Kind.set).1)
    (H2 : (t.withBuckets.allocItem Kind.set).2.prevOf pos ≠ some (t.withBuckets.allocItem Kind.set).1)
    (H3 : (t.withBuckets.allocItem Kind.set).2.heads (h k % (t.withBuckets.allocItem Kind.set).2.cap) ≠
      some (t.withBuckets.allocItem Kind.set).1) :
    HashLink.HashSet.insert h t pos k = (t.insert Kind.set h pos k v).map (fun r => (r.1, Nxt.item r.2)) := by
  first
  | -- the shape of the current header: one body, the link half in `insert_k1`
    have hlink : ∀ (t : PTable) (it : Nxt) (item : Nat), pos ≠ .item item → t.prevOf pos ≠ some item →
        t.heads (h k % t.cap) ≠ some item →
        HashLink.HashSet.insert_k1 h t pos k it item =
          some ((t.linkChain Kind.set item (h k % t.cap) k v).linkOrder item pos, .item item) := by
      intro t it item H1 H2 H3
      unfold HashLink.HashSet.insert_k1 PTable.linkChain PTable.linkOrder
      rcases hh : t.heads (h k % t.cap) with _ | n <;> rcases pos with j | o
      case none.item =>
        have hj : j ≠ item := fun e => H1 (by rw [e])
        rcases hq : (t.items j).prev with _ | q
        · simp [PTable.constructAt, PTable.setCell, PTable.setNextCell, PTable.readCell, PTable.writeCell, PTable.setPrev, PTable.setNext,
              PTable.prevOf, PTable.setPrevOf, upd_same, upd_upd, Table.storedValue, hh, hq, upd_ne _ _ _ _ hj]
          try (funext x; by_cases e_xj : x = j <;> by_cases e_xi : x = item <;> simp_all [upd])
        · have hqi : q ≠ item := fun e => H2 (by simp [PTable.prevOf, hq, e])
          simp [PTable.constructAt, PTable.setCell, PTable.setNextCell, PTable.readCell, PTable.writeCell, PTable.setPrev, PTable.setNext,
              PTable.prevOf, PTable.setPrevOf, upd_same, upd_upd, Table.storedValue, hh, hq, upd_ne _ _ _ _ hj, upd_ne _ _ _ _ hqi]
          try (funext x; by_cases e_jq : j = q <;> by_cases e_xj : x = j <;> by_cases e_xq : x = q <;> by_cases e_xi : x = item <;> simp_all [upd])
      case none.stl =>
        rcases hq : t.endPrev with _ | q
        · simp [PTable.constructAt, PTable.setCell, PTable.setNextCell, PTable.readCell, PTable.writeCell, PTable.setPrev, PTable.setNext,
              PTable.prevOf, PTable.setPrevOf, upd_same, upd_upd, Table.storedValue, hh, hq, upd_same]
          try (funext x; by_cases e_xi : x = item <;> simp_all [upd])
        · have hqi : q ≠ item := fun e => H2 (by simp [PTable.prevOf, hq, e])
          simp [PTable.constructAt, PTable.setCell, PTable.setNextCell, PTable.readCell, PTable.writeCell, PTable.setPrev, PTable.setNext,
              PTable.prevOf, PTable.setPrevOf, upd_same, upd_upd, Table.storedValue, hh, hq, upd_ne _ _ _ _ hqi]
          try (funext x; by_cases e_xq : x = q <;> by_cases e_xi : x = item <;> simp_all [upd])
      case some.item =>
        have hni : n ≠ item := fun e => H3 (by rw [hh, e])
        have hj : j ≠ item := fun e => H1 (by rw [e])
        by_cases hjn : j = n
        · subst hjn
          rcases hq : (t.items j).prev with _ | q
          · simp [PTable.constructAt, PTable.setCell, PTable.setNextCell, PTable.readCell, PTable.writeCell, PTable.setPrev, PTable.setNext,
                PTable.prevOf, PTable.setPrevOf, upd_same, upd_upd, Table.storedValue, hh, hq, upd_ne _ _ _ _ hj, upd_ne _ _ _ _ hni]
            try (funext x; by_cases e_xj : x = j <;> by_cases e_xi : x = item <;> simp_all [upd])
          · have hqi : q ≠ item := fun e => H2 (by simp [PTable.prevOf, hq, e])
            simp [PTable.constructAt, PTable.setCell, PTable.setNextCell, PTable.readCell, PTable.writeCell, PTable.setPrev, PTable.setNext,
                PTable.prevOf, PTable.setPrevOf, upd_same, upd_upd, Table.storedValue, hh, hq, upd_ne _ _ _ _ hj, upd_ne _ _ _ _ hqi, upd_ne _ _ _ _ hni]
            try (funext x; by_cases e_jq : j = q <;> by_cases e_xj : x = j <;> by_cases e_xq : x = q <;> by_cases e_xi : x = item <;> simp_all [upd])
        · have hjn' : j ≠ n := hjn
          rcases hq : (t.items j).prev with _ | q
          · simp [PTable.constructAt, PTable.setCell, PTable.setNextCell, PTable.readCell, PTable.writeCell, PTable.setPrev, PTable.setNext,
                PTable.prevOf, PTable.setPrevOf, upd_same, upd_upd, Table.storedValue, hh, hq, upd_ne _ _ _ _ hj, upd_ne _ _ _ _ hjn', upd_ne _ _ _ _ hni]
            try (funext x; by_cases e_jn : j = n <;> by_cases e_xj : x = j <;> by_cases e_xn : x = n <;> by_cases e_xi : x = item <;> simp_all [upd])
          · have hqi : q ≠ item := fun e => H2 (by simp [PTable.prevOf, hq, e])
            simp [PTable.constructAt, PTable.setCell, PTable.setNextCell, PTable.readCell, PTable.writeCell, PTable.setPrev, PTable.setNext,
                PTable.prevOf, PTable.setPrevOf, upd_same, upd_upd, Table.storedValue, hh, hq, upd_ne _ _ _ _ hj, upd_ne _ _ _ _ hjn', upd_ne _ _ _ _ hqi, upd_ne _ _ _ _ hni]
            try (funext x; by_cases e_jq : j = q <;> by_cases e_jn : j = n <;> by_cases e_qn : q = n <;> by_cases e_xj : x = j <;> by_cases e_xq : x = q <;> by_cases e_xn : x = n <;> by_cases e_xi : x = item <;> simp_all [upd])
      case some.stl =>
        have hni : n ≠ item := fun e => H3 (by rw [hh, e])
        rcases hq : t.endPrev with _ | q
        · simp [PTable.constructAt, PTable.setCell, PTable.setNextCell, PTable.readCell, PTable.writeCell, PTable.setPrev, PTable.setNext,
              PTable.prevOf, PTable.setPrevOf, upd_same, upd_upd, Table.storedValue, hh, hq, upd_ne _ _ _ _ hni]
          try (funext x; by_cases e_xn : x = n <;> by_cases e_xi : x = item <;> simp_all [upd])
        · have hqi : q ≠ item := fun e => H2 (by simp [PTable.prevOf, hq, e])
          simp [PTable.constructAt, PTable.setCell, PTable.setNextCell, PTable.readCell, PTable.writeCell, PTable.setPrev, PTable.setNext,
              PTable.prevOf, PTable.setPrevOf, upd_same, upd_upd, Table.storedValue, hh, hq, upd_ne _ _ _ _ hqi, upd_ne _ _ _ _ hni]
          try (funext x; by_cases e_qn : q = n <;> by_cases e_xq : x = q <;> by_cases e_xn : x = n <;> by_cases e_xi : x = item <;> simp_all [upd])
    unfold HashLink.HashSet.insert PTable.insert
    rw [gen_set_find]
    cases hf : t.find h k with
    | none => rfl
    | some r =>
      cases r with
      | some id => simp [findResult, iterOf]
      | none =>
        simp only [Option.map_some, findResult, iterOf, if_true]
        unfold PTable.linkNew
        rw [withBuckets_eq]
        have e1 : (if t.allocated then t else t.allocBuckets) = t.withBuckets := rfl
        rw [e1]
        generalize t.withBuckets = t0 at H1 H2 H3 ⊢
        unfold PTable.allocItem at H1 H2 H3 ⊢
        cases hfree : t0.freeItem with
        | some f =>
          simp only [hfree] at H1 H2 H3 ⊢
          rw [hlink _ _ _ H1 H2 H3]
        | none =>
          simp only [hfree, PTable.newBlockFirst, reduceCtorEq, if_false] at H1 H2 H3 ⊢
          rw [hlink _ _ _ H1 H2 H3]
  | -- allocation, chain link and order link in helpers `allocateItem`, `linkIntoChain`, `linkBefore`, the lookup through
    -- `findInChain` (harmless change C02-h4)
    have halloc : ∀ t0 : PTable,
        HashLink.HashSet.allocateItem h t0 = some ((t0.allocItem Kind.set).2, some (t0.allocItem Kind.set).1) := by
      intro t0
      unfold HashLink.HashSet.allocateItem PTable.allocItem
      cases hf : t0.freeItem <;> simp [hf, PTable.newBlockFirst]
    have hchain : ∀ (T : PTable) (item c : Nat),
        HashLink.HashSet.linkIntoChain h (T.constructAt item k 0) item (.bucket c) = some (T.linkChain Kind.set item c k v) := by
      intro T item c
      unfold HashLink.HashSet.linkIntoChain PTable.linkChain
      cases hh : T.heads c <;>
        simp [PTable.constructAt, PTable.setCell, PTable.setNextCell, PTable.readCell, PTable.writeCell, upd_same, upd_upd,
          Table.storedValue, hh]
    have hbefore : ∀ (T : PTable) (item : Nat), pos ≠ .item item → T.prevOf pos ≠ some item →
        (HashLink.HashSet.linkBefore h T item pos).map (fun t' => ({ t' with size := t'.size + 1 } : PTable)) =
          some (T.linkOrder item pos) := by
      intro T item H1 H2
      unfold HashLink.HashSet.linkBefore PTable.linkOrder
      rcases pos with j | o
      · have hj : j ≠ item := fun e => H1 (by rw [e])
        rcases hq : (T.items j).prev with _ | q
        · simp [PTable.setPrev, PTable.setNext, PTable.prevOf, PTable.setPrevOf, upd_same, upd_upd, upd_ne _ _ _ _ hj, hq]
          try (funext x; by_cases e_xj : x = j <;> by_cases e_xi : x = item <;> simp_all [upd])
        · have hqi : q ≠ item := fun e => H2 (by simp [PTable.prevOf, hq, e])
          simp [PTable.setPrev, PTable.setNext, PTable.prevOf, PTable.setPrevOf, upd_same, upd_upd, upd_ne _ _ _ _ hj, upd_ne _ _ _ _ hqi, hq]
          try (funext x; by_cases e_jq : j = q <;> by_cases e_xj : x = j <;> by_cases e_xq : x = q <;> by_cases e_xi : x = item <;> simp_all [upd])
      · rcases hq : T.endPrev with _ | q
        · simp [PTable.setPrev, PTable.setNext, PTable.prevOf, PTable.setPrevOf, upd_same, upd_upd, hq]
          try (funext x; by_cases e_xi : x = item <;> simp_all [upd])
        · have hqi : q ≠ item := fun e => H2 (by simp [PTable.prevOf, hq, e])
          simp [PTable.setPrev, PTable.setNext, PTable.prevOf, PTable.setPrevOf, upd_same, upd_upd, upd_ne _ _ _ _ hqi, hq]
          try (funext x; by_cases e_xq : x = q <;> by_cases e_xi : x = item <;> simp_all [upd])
    have hk1 : ∀ t0 : PTable, pos ≠ .item (t0.allocItem Kind.set).1 →
        (t0.allocItem Kind.set).2.prevOf pos ≠ some (t0.allocItem Kind.set).1 →
        HashLink.HashSet.insert_k1 h t0 pos k (h k) =
          some ((((t0.allocItem Kind.set).2.linkChain Kind.set (t0.allocItem Kind.set).1 (h k % (t0.allocItem Kind.set).2.cap) k v).linkOrder
            (t0.allocItem Kind.set).1 pos), .item (t0.allocItem Kind.set).1) := by
      intro t0 H1 H2
      unfold HashLink.HashSet.insert_k1
      rw [halloc]
      generalize (t0.allocItem Kind.set) = a at H1 H2 ⊢
      have hcap : (a.2.constructAt a.1 k 0).cap = a.2.cap := rfl
      simp only [hcap, hchain]
      have hb := hbefore (a.2.linkChain Kind.set a.1 (h k % a.2.cap) k v) a.1 H1 (by rw [linkChain_prevOf]; exact H2)
      cases hlb : HashLink.HashSet.linkBefore h (a.2.linkChain Kind.set a.1 (h k % a.2.cap) k v) a.1 pos with
      | none => rw [hlb] at hb; simp at hb
      | some t' =>
        rw [hlb] at hb
        simp only [Option.map_some, Option.some.injEq] at hb
        simp only [hb]
    have hfc : ∀ v' : Option Nat,
        HashLink.HashSet.findInChain h t v' k = (PTable.walk t.items k t.size v').map (fun r => (t, r)) := by
      have hl1 : ∀ (fuel : Nat) (v : Option Nat),
          HashLink.HashSet.findInChain_loop1 h fuel t v k = (PTable.walk t.items k fuel v).map (fun r => (t, r)) := by
        intro fuel v
        induction fuel generalizing v with
        | zero => cases v <;> simp [HashLink.HashSet.findInChain_loop1, PTable.walk]
        | succ f ih =>
          cases v with
          | none => simp [HashLink.HashSet.findInChain_loop1, PTable.walk]
          | some a =>
            unfold HashLink.HashSet.findInChain_loop1
            simp only [PTable.walk]
            by_cases hk : (t.items a).key = k
            · simp [hk]
            · simp only [hk, if_false]; exact ih _
      intro v; unfold HashLink.HashSet.findInChain; exact hl1 _ _
    unfold HashLink.HashSet.insert PTable.insert PTable.find PTable.linkNew
    rw [withBuckets_eq]
    by_cases ha : t.allocated = true
    · have hw : t.withBuckets = t := by simp [PTable.withBuckets, ha]
      rw [hw] at H1 H2 ⊢
      simp only [ha, if_true, hfc]
      cases PTable.walk t.items k t.size (t.heads (h k % t.cap)) with
      | none => rfl
      | some r =>
        cases r with
        | some id => simp [ha]
        | none => simp only [Option.map_some]; rw [hk1 t H1 H2]
    · have ha' : t.allocated = false := by simpa using ha
      simp only [ha', Bool.false_eq_true, if_false]
      have hwb : t.allocBuckets = t.withBuckets := by simp [PTable.withBuckets, ha']
      rw [hwb, hk1 t.withBuckets H1 H2]
      rfl

/-- … hence on every table that represents a model state, for every position `p ≤ size` (`size` = `end()`). -/
theorem gen_set_insert_rel {h : Nat → Nat} {pt : PTable} {t : Table} (hr : Rel pt t) (hi : t.Inv h) (p k v : Nat) :
    HashLink.HashSet.insert h pt (nxtAt pt.self t.order p) k =
      (pt.insert Kind.set h (nxtAt pt.self t.order p) k v).map (fun r => (r.1, Nxt.item r.2)) :=
  gen_set_insert h pt _ k v (by rw [allocItem_withBuckets_fst]; exact hr.alloc_ne_pos hi Kind.set p)
    (hr.link_facts hi Kind.set p 0).1 (hr.link_facts hi Kind.set p _).2

/-- The translated `HashSet::clear()` SIMULATES the clear of the chain-list model on every represented table: it does not fault
    and the table it leaves represents `t.clear` (all bucket heads null, empty order list, every former item on the free list in
    the order last … first, keys and values untouched) – the coupling `Rel` says nothing about the `nextCell` / `cell` / `next`
    fields of released items, so bodies that differ only in what they leave in those fields (per-item `*i->cell = 0` vs one
    `Memory::zero` of the bucket array, harmless change C02-h5) satisfy the same statement.  For the shape of the current header the
    proof goes through the equation `translated clear = PTable.clear` (loop `*i->cell = 0; i->prev = freeItem; freeItem = i`
    along `next` up to the own sentinel, then the list members reset), which holds for EVERY table. -/
theorem gen_set_clear {h : Nat → Nat} {pt : PTable} {t : Table} (hr : Rel pt t) (hi : t.Inv h) :
    ∃ pt', HashLink.HashSet.clear h pt = some pt' ∧ Rel pt' t.clear ∧ pt'.self = pt.self := by
  first
  | -- the per-item loop of the current header: equal to the pointer-level model's `clear`
    have heq : ∀ t : PTable, HashLink.HashSet.clear h t = t.clear := by
      have hloop : ∀ (fuel : Nat) (t : PTable) (i : Nxt),
          HashLink.HashSet.clear_loop1 h fuel t i (.stl t.self) =
            (PTable.clearLoop fuel i t).map (fun t' => { t' with begin := .stl t'.self, endPrev := none, size := 0 }) := by
        intro fuel
        induction fuel with
        | zero =>
          intro t i
          cases i with
          | stl o =>
            unfold HashLink.HashSet.clear_loop1 PTable.clearLoop
            by_cases ho : o = t.self <;> simp [ho]
          | item a => simp [HashLink.HashSet.clear_loop1, PTable.clearLoop]
        | succ f ih =>
          intro t i
          cases i with
          | stl o =>
            unfold HashLink.HashSet.clear_loop1 PTable.clearLoop
            by_cases ho : o = t.self <;> simp [ho]
          | item a =>
            unfold HashLink.HashSet.clear_loop1 PTable.clearLoop
            simp only [reduceCtorEq, if_false]
            have hs : ({ (t.writeCell (t.items a).cell none).setPrev a (t.writeCell (t.items a).cell none).freeItem with freeItem := some a } : PTable).self = t.self := by
              show (t.writeCell (t.items a).cell none).self = t.self
              exact writeCell_self _ _ _
            rw [← hs]
            exact ih _ _
      intro t
      unfold HashLink.HashSet.clear PTable.clear
      rw [hloop]
      cases PTable.clearLoop t.size t.begin t <;> rfl
    rw [heq]
    exact hr.clear hi


/-- The translated `HashSet::swap(other)` (two distinct objects, each with its node heap: every pointer is translated
    together with the heap it points into, and the translator checks that afterwards all members of an object designate
    one heap) is the model's `swap`, for EVERY two tables: everything but the object identity exchanged, the last item's
    `next` re-anchored at the adopting object's sentinel, `_begin.item` set to the own sentinel when the adopted list is empty. -/
theorem gen_set_swap (a b : PTable) : HashLink.HashSet.swap a b = some (PTable.swap a b) := by
  unfold HashLink.HashSet.swap PTable.swap
  cases hb : b.endPrev <;> cases ha : a.endPrev <;> rfl

/-! ### PoolMap.hpp -/

/-- The translated `PoolMap::find(key)` is the model's `find` (the walk along `nextCell` from the bucket head), for EVERY
    table, key and hash function: the iterator of the item, `end()` if there is none; out of fuel iff the model is. -/
theorem gen_pool_find (h : Nat → Nat) (t : PTable) (k : Nat) :
    HashLink.PoolMap.find h t k = (t.find h k).map (findResult t) := by
  first
  | -- the walk written in `find` itself
    have hl : ∀ (fuel hc : Nat) (v : Option Nat),
        HashLink.PoolMap.find_loop1 h fuel t k hc v = (PTable.walk t.items k fuel v).map (findResult t) := by
      intro fuel hc v
      induction fuel generalizing v with
      | zero => cases v <;> simp [HashLink.PoolMap.find_loop1, PTable.walk, iterOf, findResult]
      | succ f ih =>
        cases v with
        | none => simp [HashLink.PoolMap.find_loop1, PTable.walk, iterOf, findResult]
        | some a =>
          unfold HashLink.PoolMap.find_loop1
          simp only [PTable.walk]
          by_cases hk : (t.items a).key = k
          · simp [hk, iterOf, findResult]
          · simp only [hk, if_false]; exact ih _
    unfold HashLink.PoolMap.find PTable.find
    by_cases ha : t.allocated = true
    · simp only [ha, if_true]; exact hl _ _ _
    · simp [ha, iterOf, findResult]
  | -- the walk in a helper `findInChain(item, key)` that returns the item or null (harmless change C02-h4)
    have hl : ∀ v : Option Nat,
        HashLink.PoolMap.findInChain h t v k = (PTable.walk t.items k t.size v).map (fun r => (t, r)) := by
      have hl1 : ∀ (fuel : Nat) (v : Option Nat),
          HashLink.PoolMap.findInChain_loop1 h fuel t v k = (PTable.walk t.items k fuel v).map (fun r => (t, r)) := by
        intro fuel v
        induction fuel generalizing v with
        | zero => cases v <;> simp [HashLink.PoolMap.findInChain_loop1, PTable.walk]
        | succ f ih =>
          cases v with
          | none => simp [HashLink.PoolMap.findInChain_loop1, PTable.walk]
          | some a =>
            unfold HashLink.PoolMap.findInChain_loop1
            simp only [PTable.walk]
            by_cases hk : (t.items a).key = k
            · simp [hk]
            · simp only [hk, if_false]; exact ih _
      intro v; unfold HashLink.PoolMap.findInChain; exact hl1 _ _
    unfold HashLink.PoolMap.find PTable.find
    by_cases ha : t.allocated = true
    · simp only [ha, if_true, hl]
      cases PTable.walk t.items k t.size (t.heads (h k % t.cap)) with
      | none => rfl
      | some r => cases r <;> rfl
    · simp [ha, iterOf, findResult]

/-- The translated `PoolMap::remove(const V& value)` (`item` = the item the value lives in) is the table the model's
    `removeItem` yields, on every table in which the item's `cell` does not designate the item's own `nextCell` (proved
    independently of the statement order, as for the other two containers). -/
theorem gen_pool_removeValue (h : Nat → Nat) (t : PTable) (item : Nat) (hc : (t.items item).cell ≠ .nextOf item) :
    HashLink.PoolMap.removeValue h t item = some (t.removeItem item).1 := by
  first
  |
    unfold HashLink.PoolMap.removeValue PTable.removeItem PTable.unlinkChain PTable.unlinkOrder
    rcases hnc : (t.items item).nextCell with _ | n <;> rcases hpv : (t.items item).prev with _ | p <;>
      simp [writeCell_items_ne t _ _ item hc, hnc, hpv, setCell_prev, setCell_next, writeCell_prev, writeCell_next,
        setPrev_next, setPrevOf_next]
    done
  | -- `next->prev = prev` in front of `prev->next = next` (harmless change C02-h6)
    unfold HashLink.PoolMap.removeValue PTable.removeItem PTable.unlinkChain PTable.unlinkOrder
    rcases hnc : (t.items item).nextCell with _ | n <;> rcases hpv : (t.items item).prev with _ | p
    all_goals
      simp only [HashLink.PoolMap.removeValue_k1, HashLink.PoolMap.removeValue_k2, PTable.prevOf, hnc, hpv,
        writeCell_items_ne t _ _ item hc, setCell_prev, setCell_next, writeCell_prev, writeCell_next,
        setNext_setPrevOf_comm, setPrevOf_begin]
    all_goals
      first
      | rfl
      | (rcases hnx : (t.items item).next with nx | o <;> rfl)

/-- The translated `PoolMap::remove(const Iterator&)` (`remove(item->value); return item->next;`) is the model's `removeItem`:
    `item->next` is read from the released item. -/
theorem gen_pool_removeIt (h : Nat → Nat) (t : PTable) (item : Nat) (hc : (t.items item).cell ≠ .nextOf item)
    (hp : (t.items item).prev ≠ some item) :
    HashLink.PoolMap.removeIt h t (.item item) = some (t.removeItem item) := by
  first
  | (unfold HashLink.PoolMap.removeIt
     simp only [gen_pool_removeValue h t item hc]
     rfl)
  | -- `item->next` saved before the removal (harmless change C02-h6)
    (unfold HashLink.PoolMap.removeIt
     simp only [gen_pool_removeValue h t item hc, ← removeItem_snd t item hc hp])

/-- … hence on every table that represents a model state, for every live item. -/
theorem gen_pool_removeIt_rel {h : Nat → Nat} {pt : PTable} {t : Table} (hr : Rel pt t) (hi : t.Inv h) (id : Nat)
    (hm : id ∈ t.order) : HashLink.PoolMap.removeIt h pt (.item id) = some (pt.removeItem id) :=
  gen_pool_removeIt h pt id (hr.cell_ne_self hi id hm) (hr.prev_ne_self hi id hm)

/-- The translated `PoolMap::remove(const T& key)` (`find`, then `remove(it)` unless `end()`) is the model's `removeKey` on
    every table that represents a model state. -/
theorem gen_pool_removeKey {h : Nat → Nat} {pt : PTable} {t : Table} (hr : Rel pt t) (hi : t.Inv h) (k : Nat) :
    HashLink.PoolMap.removeKey h pt k = pt.removeKey h k := by
  unfold HashLink.PoolMap.removeKey PTable.removeKey
  rw [gen_pool_find]
  cases hf : pt.find h k with
  | none => rfl
  | some r =>
    cases r with
    | none => simp [findResult, iterOf]
    | some id =>
      have hm := hr.find_mem hi k id hf
      simp [findResult, iterOf, gen_pool_removeValue _ _ _ (hr.cell_ne_self hi id hm)]

/-- The translated `removeFront()` / `removeBack()` are `remove(_begin)` / `remove(_end.item->prev)`: the model's `removeItem`
    of the first / last item; a fault on the empty table (`removeBack`: the null `endItem.prev` made an iterator and
    dereferenced; `removeFront`: the fields of the sentinel). -/
theorem gen_pool_removeFront {h : Nat → Nat} {pt : PTable} {t : Table} (hr : Rel pt t) (hi : t.Inv h) :
    HashLink.PoolMap.removeFront h pt = (match t.order.head? with | some id => some (pt.removeItem id) | none => none) := by
  unfold HashLink.PoolMap.removeFront
  rw [hr.begin_eq]
  cases ho : t.order with
  | nil => simp [HashLink.PoolMap.removeIt]
  | cons x r =>
    have hm : x ∈ t.order := by rw [ho]; exact List.mem_cons_self
    simp [gen_pool_removeIt_rel hr hi x hm]

theorem gen_pool_removeBack {h : Nat → Nat} {pt : PTable} {t : Table} (hr : Rel pt t) (hi : t.Inv h) :
    HashLink.PoolMap.removeBack h pt = (match pt.endPrev with | some id => some (pt.removeItem id) | none => none) := by
  unfold HashLink.PoolMap.removeBack
  simp only [PTable.prevOf]
  cases he : pt.endPrev with
  | none => rfl
  | some x =>
    have hm : x ∈ t.order := by
      have := hr.endPrev_eq; rw [he] at this
      exact List.mem_of_getLast? this.symm
    simp [gen_pool_removeIt_rel hr hi x hm]

/-- The translated `PoolMap::insert(position, key)` is the model's `insert` (for every `v`: the value is default-constructed) –
    `find`; an existing key is left alone; otherwise bucket array on first use, the head of the free list (after a new block
    was pushed on it when it was empty), construction, `freeItem = item->prev` read AFTER the construction, push to the front
    of the bucket chain, link before `position` – on every table on which the item the allocator hands out is not the one
    `position` designates, nor its predecessor, nor the head of the key's bucket. -/
theorem gen_pool_insert (h : Nat → Nat) (t : PTable) (pos : Nxt) (k v : Nat)
    (H1 : pos ≠ .item (t.withBuckets.allocItem Kind.pool).1)
    (H2 : (t.withBuckets.allocItem Kind.pool).2.prevOf pos ≠ some (t.withBuckets.allocItem Kind.pool).1)
    (H3 : (t.withBuckets.allocItem Kind.pool).2.heads (h k % (t.withBuckets.allocItem Kind.pool).2.cap) ≠
      some (t.withBuckets.allocItem Kind.pool).1) :
    HashLink.PoolMap.insert h t pos k = (t.insert Kind.pool h pos k v).map (fun r => (r.1, Nxt.item r.2)) := by
  first
  | -- the shape of the current header: one body, the link half in `insert_k1`
    have hlink : ∀ (t : PTable) (it : Nxt) (item : Nat), pos ≠ .item item → t.prevOf pos ≠ some item →
        t.heads (h k % t.cap) ≠ some item →
        HashLink.PoolMap.insert_k1 h t pos k it (some item) =
          some ((({ t with freeItem := (t.items item).prev } : PTable).linkChain Kind.pool item (h k % t.cap) k v).linkOrder item pos, .item item) := by
      intro t it item H1 H2 H3
      unfold HashLink.PoolMap.insert_k1 PTable.linkChain PTable.linkOrder
      rcases hh : t.heads (h k % t.cap) with _ | n <;> rcases pos with j | o
      case none.item =>
        have hj : j ≠ item := fun e => H1 (by rw [e])
        rcases hq : (t.items j).prev with _ | q
        · simp [PTable.constructAt, PTable.setCell, PTable.setNextCell, PTable.readCell, PTable.writeCell, PTable.setPrev, PTable.setNext,
              PTable.prevOf, PTable.setPrevOf, upd_same, upd_upd, Table.storedValue, hh, hq, upd_ne _ _ _ _ hj]
          try (funext x; by_cases e_xj : x = j <;> by_cases e_xi : x = item <;> simp_all [upd])
        · have hqi : q ≠ item := fun e => H2 (by simp [PTable.prevOf, hq, e])
          simp [PTable.constructAt, PTable.setCell, PTable.setNextCell, PTable.readCell, PTable.writeCell, PTable.setPrev, PTable.setNext,
              PTable.prevOf, PTable.setPrevOf, upd_same, upd_upd, Table.storedValue, hh, hq, upd_ne _ _ _ _ hj, upd_ne _ _ _ _ hqi]
          try (funext x; by_cases e_jq : j = q <;> by_cases e_xj : x = j <;> by_cases e_xq : x = q <;> by_cases e_xi : x = item <;> simp_all [upd])
      case none.stl =>
        rcases hq : t.endPrev with _ | q
        · simp [PTable.constructAt, PTable.setCell, PTable.setNextCell, PTable.readCell, PTable.writeCell, PTable.setPrev, PTable.setNext,
              PTable.prevOf, PTable.setPrevOf, upd_same, upd_upd, Table.storedValue, hh, hq, upd_same]
          try (funext x; by_cases e_xi : x = item <;> simp_all [upd])
        · have hqi : q ≠ item := fun e => H2 (by simp [PTable.prevOf, hq, e])
          simp [PTable.constructAt, PTable.setCell, PTable.setNextCell, PTable.readCell, PTable.writeCell, PTable.setPrev, PTable.setNext,
              PTable.prevOf, PTable.setPrevOf, upd_same, upd_upd, Table.storedValue, hh, hq, upd_ne _ _ _ _ hqi]
          try (funext x; by_cases e_xq : x = q <;> by_cases e_xi : x = item <;> simp_all [upd])
      case some.item =>
        have hni : n ≠ item := fun e => H3 (by rw [hh, e])
        have hj : j ≠ item := fun e => H1 (by rw [e])
        by_cases hjn : j = n
        · subst hjn
          rcases hq : (t.items j).prev with _ | q
          · simp [PTable.constructAt, PTable.setCell, PTable.setNextCell, PTable.readCell, PTable.writeCell, PTable.setPrev, PTable.setNext,
                PTable.prevOf, PTable.setPrevOf, upd_same, upd_upd, Table.storedValue, hh, hq, upd_ne _ _ _ _ hj, upd_ne _ _ _ _ hni]
            try (funext x; by_cases e_xj : x = j <;> by_cases e_xi : x = item <;> simp_all [upd])
          · have hqi : q ≠ item := fun e => H2 (by simp [PTable.prevOf, hq, e])
            simp [PTable.constructAt, PTable.setCell, PTable.setNextCell, PTable.readCell, PTable.writeCell, PTable.setPrev, PTable.setNext,
                PTable.prevOf, PTable.setPrevOf, upd_same, upd_upd, Table.storedValue, hh, hq, upd_ne _ _ _ _ hj, upd_ne _ _ _ _ hqi, upd_ne _ _ _ _ hni]
            try (funext x; by_cases e_jq : j = q <;> by_cases e_xj : x = j <;> by_cases e_xq : x = q <;> by_cases e_xi : x = item <;> simp_all [upd])
        · have hjn' : j ≠ n := hjn
          rcases hq : (t.items j).prev with _ | q
          · simp [PTable.constructAt, PTable.setCell, PTable.setNextCell, PTable.readCell, PTable.writeCell, PTable.setPrev, PTable.setNext,
                PTable.prevOf, PTable.setPrevOf, upd_same, upd_upd, Table.storedValue, hh, hq, upd_ne _ _ _ _ hj, upd_ne _ _ _ _ hjn', upd_ne _ _ _ _ hni]
            try (funext x; by_cases e_jn : j = n <;> by_cases e_xj : x = j <;> by_cases e_xn : x = n <;> by_cases e_xi : x = item <;> simp_all [upd])
          · have hqi : q ≠ item := fun e => H2 (by simp [PTable.prevOf, hq, e])
            simp [PTable.constructAt, PTable.setCell, PTable.setNextCell, PTable.readCell, PTable.writeCell, PTable.setPrev, PTable.setNext,
                PTable.prevOf, PTable.setPrevOf, upd_same, upd_upd, Table.storedValue, hh, hq, upd_ne _ _ _ _ hj, upd_ne _ _ _ _ hjn', upd_ne _ _ _ _ hqi, upd_ne _ _ _ _ hni]
            try (funext x; by_cases e_jq : j = q <;> by_cases e_jn : j = n <;> by_cases e_qn : q = n <;> by_cases e_xj : x = j <;> by_cases e_xq : x = q <;> by_cases e_xn : x = n <;> by_cases e_xi : x = item <;> simp_all [upd])
      case some.stl =>
        have hni : n ≠ item := fun e => H3 (by rw [hh, e])
        rcases hq : t.endPrev with _ | q
        · simp [PTable.constructAt, PTable.setCell, PTable.setNextCell, PTable.readCell, PTable.writeCell, PTable.setPrev, PTable.setNext,
              PTable.prevOf, PTable.setPrevOf, upd_same, upd_upd, Table.storedValue, hh, hq, upd_ne _ _ _ _ hni]
          try (funext x; by_cases e_xn : x = n <;> by_cases e_xi : x = item <;> simp_all [upd])
        · have hqi : q ≠ item := fun e => H2 (by simp [PTable.prevOf, hq, e])
          simp [PTable.constructAt, PTable.setCell, PTable.setNextCell, PTable.readCell, PTable.writeCell, PTable.setPrev, PTable.setNext,
              PTable.prevOf, PTable.setPrevOf, upd_same, upd_upd, Table.storedValue, hh, hq, upd_ne _ _ _ _ hqi, upd_ne _ _ _ _ hni]
          try (funext x; by_cases e_qn : q = n <;> by_cases e_xq : x = q <;> by_cases e_xn : x = n <;> by_cases e_xi : x = item <;> simp_all [upd])
    unfold HashLink.PoolMap.insert PTable.insert
    rw [gen_pool_find]
    cases hf : t.find h k with
    | none => rfl
    | some r =>
      cases r with
      | some id => simp [findResult, iterOf]
      | none =>
        simp only [Option.map_some, findResult, iterOf, if_true]
        unfold PTable.linkNew
        rw [withBuckets_eq]
        have e1 : (if t.allocated then t else t.allocBuckets) = t.withBuckets := rfl
        rw [e1]
        generalize t.withBuckets = t0 at H1 H2 H3 ⊢
        unfold PTable.allocItem at H1 H2 H3 ⊢
        cases hfree : t0.freeItem with
        | some f =>
          simp only [hfree, Option.isNone_some, Bool.false_eq_true, if_false] at H1 H2 H3 ⊢
          rw [hlink t0 _ f H1 H2 H3]
        | none =>
          have e2 : ({ t0 with freeItem := none } : PTable) = t0 := by cases t0; simp_all
          simp only [hfree, Option.isNone_none, if_true, e2, PTable.newBlockAll, pushFree_freeItem] at H1 H2 H3 ⊢
          exact (hlink _ _ _ H1 H2 H3).trans rfl
  | -- allocation, chain link and order link in helpers `allocateItem`, `linkIntoChain`, `linkBefore`, the lookup through
    -- `findInChain` (harmless change C02-h4)
    have halloc : ∀ t0 : PTable,
        HashLink.PoolMap.allocateItem h t0 = some ((t0.allocItem Kind.pool).2, some (t0.allocItem Kind.pool).1) := by
      intro t0
      unfold HashLink.PoolMap.allocateItem PTable.allocItem
      cases hf : t0.freeItem with
      | some f => simp [hf]
      | none =>
        have e2 : ({ t0 with freeItem := none } : PTable) = t0 := by cases t0; simp_all
        simp [hf, PTable.newBlockLocal, e2]
    have hchain : ∀ (T : PTable) (item c : Nat),
        HashLink.PoolMap.linkIntoChain h (T.constructAt item k 0) item (.bucket c) = some (T.linkChain Kind.pool item c k v) := by
      intro T item c
      unfold HashLink.PoolMap.linkIntoChain PTable.linkChain
      cases hh : T.heads c <;>
        simp [PTable.constructAt, PTable.setCell, PTable.setNextCell, PTable.readCell, PTable.writeCell, upd_same, upd_upd,
          Table.storedValue, hh]
    have hbefore : ∀ (T : PTable) (item : Nat), pos ≠ .item item → T.prevOf pos ≠ some item →
        (HashLink.PoolMap.linkBefore h T item pos).map (fun t' => ({ t' with size := t'.size + 1 } : PTable)) =
          some (T.linkOrder item pos) := by
      intro T item H1 H2
      unfold HashLink.PoolMap.linkBefore PTable.linkOrder
      rcases pos with j | o
      · have hj : j ≠ item := fun e => H1 (by rw [e])
        rcases hq : (T.items j).prev with _ | q
        · simp [PTable.setPrev, PTable.setNext, PTable.prevOf, PTable.setPrevOf, upd_same, upd_upd, upd_ne _ _ _ _ hj, hq]
          try (funext x; by_cases e_xj : x = j <;> by_cases e_xi : x = item <;> simp_all [upd])
        · have hqi : q ≠ item := fun e => H2 (by simp [PTable.prevOf, hq, e])
          simp [PTable.setPrev, PTable.setNext, PTable.prevOf, PTable.setPrevOf, upd_same, upd_upd, upd_ne _ _ _ _ hj, upd_ne _ _ _ _ hqi, hq]
          try (funext x; by_cases e_jq : j = q <;> by_cases e_xj : x = j <;> by_cases e_xq : x = q <;> by_cases e_xi : x = item <;> simp_all [upd])
      · rcases hq : T.endPrev with _ | q
        · simp [PTable.setPrev, PTable.setNext, PTable.prevOf, PTable.setPrevOf, upd_same, upd_upd, hq]
          try (funext x; by_cases e_xi : x = item <;> simp_all [upd])
        · have hqi : q ≠ item := fun e => H2 (by simp [PTable.prevOf, hq, e])
          simp [PTable.setPrev, PTable.setNext, PTable.prevOf, PTable.setPrevOf, upd_same, upd_upd, upd_ne _ _ _ _ hqi, hq]
          try (funext x; by_cases e_xq : x = q <;> by_cases e_xi : x = item <;> simp_all [upd])
    have hk1 : ∀ t0 : PTable, pos ≠ .item (t0.allocItem Kind.pool).1 →
        (t0.allocItem Kind.pool).2.prevOf pos ≠ some (t0.allocItem Kind.pool).1 →
        HashLink.PoolMap.insert_k1 h t0 pos k (h k) =
          some ((((t0.allocItem Kind.pool).2.linkChain Kind.pool (t0.allocItem Kind.pool).1 (h k % (t0.allocItem Kind.pool).2.cap) k v).linkOrder
            (t0.allocItem Kind.pool).1 pos), .item (t0.allocItem Kind.pool).1) := by
      intro t0 H1 H2
      unfold HashLink.PoolMap.insert_k1
      rw [halloc]
      generalize (t0.allocItem Kind.pool) = a at H1 H2 ⊢
      have hcap : (a.2.constructAt a.1 k 0).cap = a.2.cap := rfl
      simp only [hcap, hchain]
      have hb := hbefore (a.2.linkChain Kind.pool a.1 (h k % a.2.cap) k v) a.1 H1 (by rw [linkChain_prevOf]; exact H2)
      cases hlb : HashLink.PoolMap.linkBefore h (a.2.linkChain Kind.pool a.1 (h k % a.2.cap) k v) a.1 pos with
      | none => rw [hlb] at hb; simp at hb
      | some t' =>
        rw [hlb] at hb
        simp only [Option.map_some, Option.some.injEq] at hb
        simp only [hb]
    have hfc : ∀ v' : Option Nat,
        HashLink.PoolMap.findInChain h t v' k = (PTable.walk t.items k t.size v').map (fun r => (t, r)) := by
      have hl1 : ∀ (fuel : Nat) (v : Option Nat),
          HashLink.PoolMap.findInChain_loop1 h fuel t v k = (PTable.walk t.items k fuel v).map (fun r => (t, r)) := by
        intro fuel v
        induction fuel generalizing v with
        | zero => cases v <;> simp [HashLink.PoolMap.findInChain_loop1, PTable.walk]
        | succ f ih =>
          cases v with
          | none => simp [HashLink.PoolMap.findInChain_loop1, PTable.walk]
          | some a =>
            unfold HashLink.PoolMap.findInChain_loop1
            simp only [PTable.walk]
            by_cases hk : (t.items a).key = k
            · simp [hk]
            · simp only [hk, if_false]; exact ih _
      intro v; unfold HashLink.PoolMap.findInChain; exact hl1 _ _
    unfold HashLink.PoolMap.insert PTable.insert PTable.find PTable.linkNew
    rw [withBuckets_eq]
    by_cases ha : t.allocated = true
    · have hw : t.withBuckets = t := by simp [PTable.withBuckets, ha]
      rw [hw] at H1 H2 ⊢
      simp only [ha, if_true, hfc]
      cases PTable.walk t.items k t.size (t.heads (h k % t.cap)) with
      | none => rfl
      | some r =>
        cases r with
        | some id => simp [ha]
        | none => simp only [Option.map_some]; rw [hk1 t H1 H2]
    · have ha' : t.allocated = false := by simpa using ha
      simp only [ha', Bool.false_eq_true, if_false]
      have hwb : t.allocBuckets = t.withBuckets := by simp [PTable.withBuckets, ha']
      rw [hwb, hk1 t.withBuckets H1 H2]
      rfl

/-- … hence on every table that represents a model state, for every position `p ≤ size` (`size` = `end()`). -/
theorem gen_pool_insert_rel {h : Nat → Nat} {pt : PTable} {t : Table} (hr : Rel pt t) (hi : t.Inv h) (p k v : Nat) :
    HashLink.PoolMap.insert h pt (nxtAt pt.self t.order p) k =
      (pt.insert Kind.pool h (nxtAt pt.self t.order p) k v).map (fun r => (r.1, Nxt.item r.2)) :=
  gen_pool_insert h pt _ k v (by rw [allocItem_withBuckets_fst]; exact hr.alloc_ne_pos hi Kind.pool p)
    (hr.link_facts hi Kind.pool p 0).1 (hr.link_facts hi Kind.pool p _).2

/-- The translated `PoolMap::clear()` SIMULATES the clear of the chain-list model on every represented table: it does not fault
    and the table it leaves represents `t.clear` (all bucket heads null, empty order list, every former item on the free list in
    the order last … first, keys and values untouched) – the coupling `Rel` says nothing about the `nextCell` / `cell` / `next`
    fields of released items, so bodies that differ only in what they leave in those fields (per-item `*i->cell = 0` vs one
    `Memory::zero` of the bucket array, harmless change C02-h5) satisfy the same statement.  For the shape of the current header the
    proof goes through the equation `translated clear = PTable.clear` (loop `*i->cell = 0; i->prev = freeItem; freeItem = i`
    along `next` up to the own sentinel, then the list members reset), which holds for EVERY table. -/
theorem gen_pool_clear {h : Nat → Nat} {pt : PTable} {t : Table} (hr : Rel pt t) (hi : t.Inv h) :
    ∃ pt', HashLink.PoolMap.clear h pt = some pt' ∧ Rel pt' t.clear ∧ pt'.self = pt.self := by
  first
  | -- the per-item loop of the current header: equal to the pointer-level model's `clear`
    have heq : ∀ t : PTable, HashLink.PoolMap.clear h t = t.clear := by
      have hloop : ∀ (fuel : Nat) (t : PTable) (i : Nxt),
          HashLink.PoolMap.clear_loop1 h fuel t i (.stl t.self) =
            (PTable.clearLoop fuel i t).map (fun t' => { t' with begin := .stl t'.self, endPrev := none, size := 0 }) := by
        intro fuel
        induction fuel with
        | zero =>
          intro t i
          cases i with
          | stl o =>
            unfold HashLink.PoolMap.clear_loop1 PTable.clearLoop
            by_cases ho : o = t.self <;> simp [ho]
          | item a => simp [HashLink.PoolMap.clear_loop1, PTable.clearLoop]
        | succ f ih =>
          intro t i
          cases i with
          | stl o =>
            unfold HashLink.PoolMap.clear_loop1 PTable.clearLoop
            by_cases ho : o = t.self <;> simp [ho]
          | item a =>
            unfold HashLink.PoolMap.clear_loop1 PTable.clearLoop
            simp only [reduceCtorEq, if_false]
            have hs : ({ (t.writeCell (t.items a).cell none).setPrev a (t.writeCell (t.items a).cell none).freeItem with freeItem := some a } : PTable).self = t.self := by
              show (t.writeCell (t.items a).cell none).self = t.self
              exact writeCell_self _ _ _
            rw [← hs]
            exact ih _ _
      intro t
      unfold HashLink.PoolMap.clear PTable.clear
      rw [hloop]
      cases PTable.clearLoop t.size t.begin t <;> rfl
    rw [heq]
    exact hr.clear hi


/-- The translated `PoolMap::swap(other)` (two distinct objects, each with its node heap: every pointer is translated
    together with the heap it points into, and the translator checks that afterwards all members of an object designate
    one heap) is the model's `swap`, for EVERY two tables: everything but the object identity exchanged, the last item's
    `next` re-anchored at the adopting object's sentinel, `_begin.item` set to the own sentinel when the adopted list is empty. -/
theorem gen_pool_swap (a b : PTable) : HashLink.PoolMap.swap a b = some (PTable.swap a b) := by
  unfold HashLink.PoolMap.swap PTable.swap
  cases hb : b.endPrev <;> cases ha : a.endPrev <;> rfl

/-! ### members that walk the list of `other` (HashMap.hpp, HashSet.hpp) -/

/-- The translated `HashMap::operator=(other)` for ANOTHER object (`this == &other` is false: the guard line is the model's
    `assignSelf`) – `clear()`, then `append(…)` along `other`'s list up to `other`'s sentinel, the reads from `other`'s items –
    SIMULATES the assignment of the chain-list model: on represented tables it does not fault and leaves a table that represents
    `t.assignFrom o` (through the simulation statement of `clear` and the equation loop = `appendLoop`). -/
theorem gen_map_assign {h : Nat → Nat} {pt po : PTable} {t o : Table} (hr : Rel pt t) (ho : Rel po o) (hi : t.Inv h) (hio : o.Inv h) :
    ∃ pt', HashLink.HashMap.assign h pt po = some pt' ∧ Rel pt' (Table.assignFrom Kind.map h t o) ∧ pt'.self = pt.self := by
  obtain ⟨pc, e1, e2, e3⟩ := gen_map_clear hr hi
  obtain ⟨pt', f1, f2, f3⟩ := e2.appendAll ho hi.clear.1 hio Kind.map
  unfold PTable.appendAll at f1
  refine ⟨pt', ?_, f2, by rw [f3, e3]⟩
  first
  | -- the loop over `other`'s list written in `operator=` itself
    have hloop : ∀ (fuel : Nat) (pt : PTable) (t : Table) (i : Nxt), Rel pt t → t.Inv h →
        HashLink.HashMap.assign_loop1 h fuel pt po i (.stl po.self) = PTable.appendLoop Kind.map h po.self po.items fuel i pt := by
      intro fuel
      induction fuel with
      | zero =>
        intro pt t i hr hi
        cases i with
        | stl s =>
          unfold HashLink.HashMap.assign_loop1 PTable.appendLoop
          by_cases hs : s = po.self <;> simp [hs]
        | item a => simp [HashLink.HashMap.assign_loop1, PTable.appendLoop]
      | succ f ih =>
        intro pt t i hr hi
        cases i with
        | stl s =>
          unfold HashLink.HashMap.assign_loop1 PTable.appendLoop
          by_cases hs : s = po.self <;> simp [hs]
        | item a =>
          unfold HashLink.HashMap.assign_loop1 PTable.appendLoop
          simp only [reduceCtorEq, if_false]
          have e := gen_map_insert_rel hr hi t.order.length (po.items a).key (po.items a).value
          rw [nxtAt_length] at e
          rw [e]
          obtain ⟨r, e1, _, hr', _⟩ := hr.insert hi Kind.map t.order.length (po.items a).key (po.items a).value (Nat.le_refl _)
          rw [nxtAt_length] at e1
          rw [e1]
          simp only [Option.map_some]
          exact ih r.1 _ _ hr' (hi.insert Kind.map t.order.length (po.items a).key (po.items a).value (Nat.le_refl _)).1
    unfold HashLink.HashMap.assign
    rw [e1]
    simp only []
    rw [hloop _ pc _ _ e2 hi.clear.1]
    exact f1
  | -- `operator=` calls a member / helper that holds the loop (harmless change C02-h6)
    have hloop : ∀ (fuel : Nat) (pt : PTable) (t : Table) (i : Nxt), Rel pt t → t.Inv h →
        HashLink.HashMap.appendAll_loop1 h fuel pt po i (.stl po.self) = PTable.appendLoop Kind.map h po.self po.items fuel i pt := by
      intro fuel
      induction fuel with
      | zero =>
        intro pt t i hr hi
        cases i with
        | stl s =>
          unfold HashLink.HashMap.appendAll_loop1 PTable.appendLoop
          by_cases hs : s = po.self <;> simp [hs]
        | item a => simp [HashLink.HashMap.appendAll_loop1, PTable.appendLoop]
      | succ f ih =>
        intro pt t i hr hi
        cases i with
        | stl s =>
          unfold HashLink.HashMap.appendAll_loop1 PTable.appendLoop
          by_cases hs : s = po.self <;> simp [hs]
        | item a =>
          unfold HashLink.HashMap.appendAll_loop1 PTable.appendLoop
          simp only [reduceCtorEq, if_false]
          have e := gen_map_insert_rel hr hi t.order.length (po.items a).key (po.items a).value
          rw [nxtAt_length] at e
          rw [e]
          obtain ⟨r, e1, _, hr', _⟩ := hr.insert hi Kind.map t.order.length (po.items a).key (po.items a).value (Nat.le_refl _)
          rw [nxtAt_length] at e1
          rw [e1]
          simp only [Option.map_some]
          exact ih r.1 _ _ hr' (hi.insert Kind.map t.order.length (po.items a).key (po.items a).value (Nat.le_refl _)).1
    unfold HashLink.HashMap.assign HashLink.HashMap.appendAll
    rw [e1]
    simp only [hloop _ pc _ _ e2 hi.clear.1, f1]

/-- The translated `HashMap::operator==` (sizes, then keys and values pairwise along both lists until the own sentinel) is
    the model's `equal`, for EVERY two tables (also a table with itself): a fault where `b->key` would read the other sentinel. -/
theorem gen_map_equal (h : Nat → Nat) (t o : PTable) :
    HashLink.HashMap.equal h t o = (PTable.equal Kind.map t o).map (fun r => (t, r)) := by
  first
  | -- both cursors declared in the `for` statement, the end compared as `&endItem`
    have hloop : ∀ (fuel : Nat) (a b : Nxt),
        HashLink.HashMap.equal_loop1 h fuel t o a b =
          (PTable.eqLoop Kind.map t.self t.items o.items fuel a b).map (fun r => (t, r)) := by
      intro fuel
      induction fuel with
      | zero =>
        intro a b
        cases a with
        | stl s =>
          unfold HashLink.HashMap.equal_loop1 PTable.eqLoop
          by_cases hs : s = t.self <;> simp [hs]
        | item x => simp [HashLink.HashMap.equal_loop1, PTable.eqLoop]
      | succ f ih =>
        intro a b
        cases a with
        | stl s =>
          unfold HashLink.HashMap.equal_loop1 PTable.eqLoop
          by_cases hs : s = t.self <;> simp [hs]
        | item x =>
          cases b with
          | stl s => simp [HashLink.HashMap.equal_loop1, PTable.eqLoop]
          | item y =>
            unfold HashLink.HashMap.equal_loop1 PTable.eqLoop
            simp only [reduceCtorEq, if_false]
            by_cases hk : (t.items x).key = (o.items y).key
            · by_cases hv : (t.items x).value = (o.items y).value
              · simp only [hk, hv, if_true, ne_eq, not_true_eq_false, and_false, or_false, if_false]
                exact ih _ _
              · simp [hk, hv]
            · simp [hk]
    unfold HashLink.HashMap.equal PTable.equal
    by_cases hs : t.size = o.size
    · simp only [hs, if_true, ne_eq, not_true_eq_false, if_false]
      rw [← hs]; exact hloop _ _ _
    · have hs' : ¬ o.size = t.size := fun e => hs e.symm
      simp [hs, hs']
  | -- the end and `other`'s cursor as locals in front of the loop (harmless change C02-h6)
    have hloop : ∀ (fuel : Nat) (a b : Nxt),
        HashLink.HashMap.equal_loop1 h fuel t o (.stl t.self) b a =
          (PTable.eqLoop Kind.map t.self t.items o.items fuel a b).map (fun r => (t, r)) := by
      intro fuel
      induction fuel with
      | zero =>
        intro a b
        cases a with
        | stl s =>
          unfold HashLink.HashMap.equal_loop1 PTable.eqLoop
          by_cases hs : s = t.self <;> simp [hs]
        | item x => simp [HashLink.HashMap.equal_loop1, PTable.eqLoop]
      | succ f ih =>
        intro a b
        cases a with
        | stl s =>
          unfold HashLink.HashMap.equal_loop1 PTable.eqLoop
          by_cases hs : s = t.self <;> simp [hs]
        | item x =>
          cases b with
          | stl s => simp [HashLink.HashMap.equal_loop1, PTable.eqLoop]
          | item y =>
            unfold HashLink.HashMap.equal_loop1 PTable.eqLoop
            simp only [reduceCtorEq, if_false]
            by_cases hk : (t.items x).key = (o.items y).key
            · by_cases hv : (t.items x).value = (o.items y).value
              · simp only [hk, hv, if_true, ne_eq, not_true_eq_false, and_false, or_false, if_false]
                exact ih _ _
              · simp [hk, hv]
            · simp [hk]
    unfold HashLink.HashMap.equal PTable.equal
    by_cases hs : t.size = o.size
    · simp only [hs, if_true, ne_eq, not_true_eq_false, if_false]
      rw [← hs]; exact hloop _ _ _
    · have hs' : ¬ o.size = t.size := fun e => hs e.symm
      simp [hs, hs']

/-- The translated `HashSet::operator=(other)` for ANOTHER object (`this == &other` is false: the guard line is the model's
    `assignSelf`) – `clear()`, then `append(…)` along `other`'s list up to `other`'s sentinel, the reads from `other`'s items –
    SIMULATES the assignment of the chain-list model: on represented tables it does not fault and leaves a table that represents
    `t.assignFrom o` (through the simulation statement of `clear` and the equation loop = `appendLoop`). -/
theorem gen_set_assign {h : Nat → Nat} {pt po : PTable} {t o : Table} (hr : Rel pt t) (ho : Rel po o) (hi : t.Inv h) (hio : o.Inv h) :
    ∃ pt', HashLink.HashSet.assign h pt po = some pt' ∧ Rel pt' (Table.assignFrom Kind.set h t o) ∧ pt'.self = pt.self := by
  obtain ⟨pc, e1, e2, e3⟩ := gen_set_clear hr hi
  obtain ⟨pt', f1, f2, f3⟩ := e2.appendAll ho hi.clear.1 hio Kind.set
  unfold PTable.appendAll at f1
  refine ⟨pt', ?_, f2, by rw [f3, e3]⟩
  first
  | -- the loop over `other`'s list written in `operator=` itself
    have hloop : ∀ (fuel : Nat) (pt : PTable) (t : Table) (i : Nxt), Rel pt t → t.Inv h →
        HashLink.HashSet.assign_loop1 h fuel pt po i (.stl po.self) = PTable.appendLoop Kind.set h po.self po.items fuel i pt := by
      intro fuel
      induction fuel with
      | zero =>
        intro pt t i hr hi
        cases i with
        | stl s =>
          unfold HashLink.HashSet.assign_loop1 PTable.appendLoop
          by_cases hs : s = po.self <;> simp [hs]
        | item a => simp [HashLink.HashSet.assign_loop1, PTable.appendLoop]
      | succ f ih =>
        intro pt t i hr hi
        cases i with
        | stl s =>
          unfold HashLink.HashSet.assign_loop1 PTable.appendLoop
          by_cases hs : s = po.self <;> simp [hs]
        | item a =>
          unfold HashLink.HashSet.assign_loop1 PTable.appendLoop
          simp only [reduceCtorEq, if_false]
          have e := gen_set_insert_rel hr hi t.order.length (po.items a).key (po.items a).value
          rw [nxtAt_length] at e
          rw [e]
          obtain ⟨r, e1, _, hr', _⟩ := hr.insert hi Kind.set t.order.length (po.items a).key (po.items a).value (Nat.le_refl _)
          rw [nxtAt_length] at e1
          rw [e1]
          simp only [Option.map_some]
          exact ih r.1 _ _ hr' (hi.insert Kind.set t.order.length (po.items a).key (po.items a).value (Nat.le_refl _)).1
    unfold HashLink.HashSet.assign
    rw [e1]
    simp only []
    rw [hloop _ pc _ _ e2 hi.clear.1]
    exact f1
  | -- `operator=` calls a member / helper that holds the loop (harmless change C02-h6)
    have hloop : ∀ (fuel : Nat) (pt : PTable) (t : Table) (i : Nxt), Rel pt t → t.Inv h →
        HashLink.HashSet.appendAll_loop1 h fuel pt po i (.stl po.self) = PTable.appendLoop Kind.set h po.self po.items fuel i pt := by
      intro fuel
      induction fuel with
      | zero =>
        intro pt t i hr hi
        cases i with
        | stl s =>
          unfold HashLink.HashSet.appendAll_loop1 PTable.appendLoop
          by_cases hs : s = po.self <;> simp [hs]
        | item a => simp [HashLink.HashSet.appendAll_loop1, PTable.appendLoop]
      | succ f ih =>
        intro pt t i hr hi
        cases i with
        | stl s =>
          unfold HashLink.HashSet.appendAll_loop1 PTable.appendLoop
          by_cases hs : s = po.self <;> simp [hs]
        | item a =>
          unfold HashLink.HashSet.appendAll_loop1 PTable.appendLoop
          simp only [reduceCtorEq, if_false]
          have e := gen_set_insert_rel hr hi t.order.length (po.items a).key (po.items a).value
          rw [nxtAt_length] at e
          rw [e]
          obtain ⟨r, e1, _, hr', _⟩ := hr.insert hi Kind.set t.order.length (po.items a).key (po.items a).value (Nat.le_refl _)
          rw [nxtAt_length] at e1
          rw [e1]
          simp only [Option.map_some]
          exact ih r.1 _ _ hr' (hi.insert Kind.set t.order.length (po.items a).key (po.items a).value (Nat.le_refl _)).1
    unfold HashLink.HashSet.assign HashLink.HashSet.appendAll
    rw [e1]
    simp only [hloop _ pc _ _ e2 hi.clear.1, f1]

/-- `HashSet::operator==` compares keys only -/
theorem gen_set_equal (h : Nat → Nat) (t o : PTable) :
    HashLink.HashSet.equal h t o = (PTable.equal Kind.set t o).map (fun r => (t, r)) := by
  first
  | -- both cursors declared in the `for` statement, the end compared as `&endItem`
    have hloop : ∀ (fuel : Nat) (a b : Nxt),
        HashLink.HashSet.equal_loop1 h fuel t o a b =
          (PTable.eqLoop Kind.set t.self t.items o.items fuel a b).map (fun r => (t, r)) := by
      intro fuel
      induction fuel with
      | zero =>
        intro a b
        cases a with
        | stl s =>
          unfold HashLink.HashSet.equal_loop1 PTable.eqLoop
          by_cases hs : s = t.self <;> simp [hs]
        | item x => simp [HashLink.HashSet.equal_loop1, PTable.eqLoop]
      | succ f ih =>
        intro a b
        cases a with
        | stl s =>
          unfold HashLink.HashSet.equal_loop1 PTable.eqLoop
          by_cases hs : s = t.self <;> simp [hs]
        | item x =>
          cases b with
          | stl s => simp [HashLink.HashSet.equal_loop1, PTable.eqLoop]
          | item y =>
            unfold HashLink.HashSet.equal_loop1 PTable.eqLoop
            simp only [reduceCtorEq, if_false]
            by_cases hk : (t.items x).key = (o.items y).key
            · simp only [hk, if_true, ne_eq, not_true_eq_false, reduceCtorEq, false_and, or_false, if_false]
              exact ih _ _
            · simp [hk]
    unfold HashLink.HashSet.equal PTable.equal
    by_cases hs : t.size = o.size
    · simp only [hs, if_true, ne_eq, not_true_eq_false, if_false]
      rw [← hs]; exact hloop _ _ _
    · have hs' : ¬ o.size = t.size := fun e => hs e.symm
      simp [hs, hs']
  | -- the end and `other`'s cursor as locals in front of the loop (harmless change C02-h6)
    have hloop : ∀ (fuel : Nat) (a b : Nxt),
        HashLink.HashSet.equal_loop1 h fuel t o (.stl t.self) b a =
          (PTable.eqLoop Kind.set t.self t.items o.items fuel a b).map (fun r => (t, r)) := by
      intro fuel
      induction fuel with
      | zero =>
        intro a b
        cases a with
        | stl s =>
          unfold HashLink.HashSet.equal_loop1 PTable.eqLoop
          by_cases hs : s = t.self <;> simp [hs]
        | item x => simp [HashLink.HashSet.equal_loop1, PTable.eqLoop]
      | succ f ih =>
        intro a b
        cases a with
        | stl s =>
          unfold HashLink.HashSet.equal_loop1 PTable.eqLoop
          by_cases hs : s = t.self <;> simp [hs]
        | item x =>
          cases b with
          | stl s => simp [HashLink.HashSet.equal_loop1, PTable.eqLoop]
          | item y =>
            unfold HashLink.HashSet.equal_loop1 PTable.eqLoop
            simp only [reduceCtorEq, if_false]
            by_cases hk : (t.items x).key = (o.items y).key
            · simp only [hk, if_true, ne_eq, not_true_eq_false, reduceCtorEq, false_and, or_false, if_false]
              exact ih _ _
            · simp [hk]
    unfold HashLink.HashSet.equal PTable.equal
    by_cases hs : t.size = o.size
    · simp only [hs, if_true, ne_eq, not_true_eq_false, if_false]
      rw [← hs]; exact hloop _ _ _
    · have hs' : ¬ o.size = t.size := fun e => hs e.symm
      simp [hs, hs']

theorem gen_set_appendAll_loop (h : Nat → Nat) (o : PTable) (fuel : Nat) : ∀ (pt : PTable) (t : Table) (i : Nxt), Rel pt t → t.Inv h →
    HashLink.HashSet.appendAll_loop1 h fuel pt o i (.stl o.self) = PTable.appendLoop Kind.set h o.self o.items fuel i pt := by
  induction fuel with
  | zero =>
    intro pt t i hr hi
    cases i with
    | stl s =>
      unfold HashLink.HashSet.appendAll_loop1 PTable.appendLoop
      by_cases hs : s = o.self <;> simp [hs]
    | item a => simp [HashLink.HashSet.appendAll_loop1, PTable.appendLoop]
  | succ f ih =>
    intro pt t i hr hi
    cases i with
    | stl s =>
      unfold HashLink.HashSet.appendAll_loop1 PTable.appendLoop
      by_cases hs : s = o.self <;> simp [hs]
    | item a =>
      unfold HashLink.HashSet.appendAll_loop1 PTable.appendLoop
      simp only [reduceCtorEq, if_false]
      have e := gen_set_insert_rel hr hi t.order.length (o.items a).key (o.items a).value
      rw [nxtAt_length] at e
      rw [e]
      obtain ⟨r, e1, _, hr', _⟩ := hr.insert hi Kind.set t.order.length (o.items a).key (o.items a).value (Nat.le_refl _)
      rw [nxtAt_length] at e1
      rw [e1]
      simp only [Option.map_some]
      exact ih r.1 _ _ hr' (hi.insert Kind.set t.order.length (o.items a).key (o.items a).value (Nat.le_refl _)).1

/-- The translated `HashSet::append(const HashSet& other)` (another object) is the model's `appendAll`, on every represented
    table and for EVERY source table. -/
theorem gen_set_appendAll {h : Nat → Nat} {pt : PTable} {t : Table} (hr : Rel pt t) (hi : t.Inv h) (o : PTable) :
    HashLink.HashSet.appendAll h pt o = PTable.appendAll Kind.set h pt o := by
  unfold HashLink.HashSet.appendAll PTable.appendAll
  exact gen_set_appendAll_loop h o _ pt t _ hr hi

theorem gen_set_removeAll_loop (h : Nat → Nat) (o : PTable) (fuel : Nat) : ∀ (pt : PTable) (t : Table) (i : Nxt), Rel pt t → t.Inv h →
    HashLink.HashSet.removeAll_loop1 h fuel pt o i (.stl o.self) = PTable.removeLoop h o.self o.items fuel i pt := by
  induction fuel with
  | zero =>
    intro pt t i hr hi
    cases i with
    | stl s =>
      unfold HashLink.HashSet.removeAll_loop1 PTable.removeLoop
      by_cases hs : s = o.self <;> simp [hs]
    | item a => simp [HashLink.HashSet.removeAll_loop1, PTable.removeLoop]
  | succ f ih =>
    intro pt t i hr hi
    cases i with
    | stl s =>
      unfold HashLink.HashSet.removeAll_loop1 PTable.removeLoop
      by_cases hs : s = o.self <;> simp [hs]
    | item a =>
      unfold HashLink.HashSet.removeAll_loop1 PTable.removeLoop
      simp only [reduceCtorEq, if_false]
      rw [gen_set_removeKey hr hi]
      obtain ⟨pt', e1, hr', _⟩ := hr.removeKey hi (o.items a).key
      rw [e1]
      exact ih pt' _ _ hr' (hi.removeKey (o.items a).key).1

/-- The translated `HashSet::remove(const HashSet& other)` (another object) is the model's `removeAll` on every table that
    represents a model state (each `remove(i->key)` is the translated `remove(key)`, which keeps the representation). -/
theorem gen_set_removeAll (h : Nat → Nat) {pt : PTable} {t : Table} (hr : Rel pt t) (hi : t.Inv h) (o : PTable) :
    HashLink.HashSet.removeAll h pt o = PTable.removeAll h pt o := by
  unfold HashLink.HashSet.removeAll PTable.removeAll
  exact gen_set_removeAll_loop h o _ pt t _ hr hi


/-- The translated `HashMap::operator!=` (`!(*this == other)`) is the negation of the model's `equal`, for EVERY two tables. -/
theorem gen_map_notEqual (h : Nat → Nat) (t o : PTable) :
    HashLink.HashMap.notEqual h t o = (PTable.equal Kind.map t o).map (fun r => (t, !r)) := by
  unfold HashLink.HashMap.notEqual
  rw [gen_map_equal]
  cases PTable.equal Kind.map t o <;> rfl

/-- The translated `HashSet::operator!=` (`!(*this == other)`) is the negation of the model's `equal`, for EVERY two tables. -/
theorem gen_set_notEqual (h : Nat → Nat) (t o : PTable) :
    HashLink.HashSet.notEqual h t o = (PTable.equal Kind.set t o).map (fun r => (t, !r)) := by
  unfold HashLink.HashSet.notEqual
  rw [gen_set_equal]
  cases PTable.equal Kind.set t o <;> rfl

/-! ### the members called with the object itself as `other` (translated with `other.x` = `x`) -/

/-- The translated `swap(other)` with `other` = the object itself (both halves act on one object and one heap, or the guard
    `this == &other` returns at once) is the model's `swapSelf` on every represented table. -/
theorem gen_map_swapSelf {pt : PTable} {t : Table} (hr : Rel pt t) :
    HashLink.HashMap.swapSelf pt = some pt.swapSelf := by
  first
  | -- both halves of `swap` executed on the one object
    unfold HashLink.HashMap.swapSelf PTable.swapSelf PTable.adopt
    cases ha : pt.endPrev with
    | none => simp [ha]
    | some l => simp [ha, upd_same]
  | -- `if(this == &other) return;` in front (harmless change C02-h6): nothing is touched, which is what both halves amount
    -- to on a represented table
    rw [hr.swapSelf_eq]
    unfold HashLink.HashMap.swapSelf
    cases pt
    rfl

theorem gen_set_appendSelf_loop (h : Nat → Nat) (fuel : Nat) : ∀ (pt : PTable) (t : Table) (i : Nxt), Rel pt t → t.Inv h →
    HashLink.HashSet.appendSelf_loop1 h fuel pt i (.stl pt.self) = PTable.appendSelfLoop Kind.set h fuel i pt := by
  induction fuel with
  | zero =>
    intro pt t i hr hi
    cases i with
    | stl s =>
      unfold HashLink.HashSet.appendSelf_loop1 PTable.appendSelfLoop
      by_cases hs : s = pt.self <;> simp [hs]
    | item a => simp [HashLink.HashSet.appendSelf_loop1, PTable.appendSelfLoop]
  | succ f ih =>
    intro pt t i hr hi
    cases i with
    | stl s =>
      unfold HashLink.HashSet.appendSelf_loop1 PTable.appendSelfLoop
      by_cases hs : s = pt.self <;> simp [hs]
    | item a =>
      unfold HashLink.HashSet.appendSelf_loop1 PTable.appendSelfLoop
      simp only [reduceCtorEq, if_false]
      have e := gen_set_insert_rel hr hi t.order.length (pt.items a).key (pt.items a).value
      rw [nxtAt_length] at e
      rw [e]
      obtain ⟨r, e1, _, hr', hself⟩ := hr.insert hi Kind.set t.order.length (pt.items a).key (pt.items a).value (Nat.le_refl _)
      rw [nxtAt_length] at e1
      rw [e1]
      simp only [Option.map_some]
      rw [← hself]
      exact ih r.1 _ _ hr' (hi.insert Kind.set t.order.length (pt.items a).key (pt.items a).value (Nat.le_refl _)).1

theorem gen_set_swapSelf {pt : PTable} {t : Table} (hr : Rel pt t) :
    HashLink.HashSet.swapSelf pt = some pt.swapSelf := by
  first
  | -- both halves of `swap` executed on the one object
    unfold HashLink.HashSet.swapSelf PTable.swapSelf PTable.adopt
    cases ha : pt.endPrev with
    | none => simp [ha]
    | some l => simp [ha, upd_same]
  | -- `if(this == &other) return;` in front (harmless change C02-h6): nothing is touched, which is what both halves amount
    -- to on a represented table
    rw [hr.swapSelf_eq]
    unfold HashLink.HashSet.swapSelf
    cases pt
    rfl

theorem gen_pool_swapSelf {pt : PTable} {t : Table} (hr : Rel pt t) :
    HashLink.PoolMap.swapSelf pt = some pt.swapSelf := by
  first
  | -- both halves of `swap` executed on the one object
    unfold HashLink.PoolMap.swapSelf PTable.swapSelf PTable.adopt
    cases ha : pt.endPrev with
    | none => simp [ha]
    | some l => simp [ha, upd_same]
  | -- `if(this == &other) return;` in front (harmless change C02-h6): nothing is touched, which is what both halves amount
    -- to on a represented table
    rw [hr.swapSelf_eq]
    unfold HashLink.PoolMap.swapSelf
    cases pt
    rfl

/-- `a = a`: the guard `if(this == &other) return *this;` – nothing is touched -/
theorem gen_map_assignSelf (h : Nat → Nat) (t : PTable) : HashLink.HashMap.assignSelf h t = some t := rfl
theorem gen_set_assignSelf (h : Nat → Nat) (t : PTable) : HashLink.HashSet.assignSelf h t = some t := rfl

/-- The translated `HashSet::append(const HashSet& other)` with `other` = the object itself – the loop reads `i->key` and
    `i->next` from the table the previous `insert` left – is the model's `appendSelf` on every represented table. -/
theorem gen_set_appendSelf {h : Nat → Nat} {pt : PTable} {t : Table} (hr : Rel pt t) (hi : t.Inv h) :
    HashLink.HashSet.appendSelf h pt = PTable.appendSelf Kind.set h pt := by
  unfold HashLink.HashSet.appendSelf PTable.appendSelf
  exact gen_set_appendSelf_loop h _ pt t _ hr hi

theorem gen_set_removeSelf_loop (h : Nat → Nat) (fuel : Nat) : ∀ (pt : PTable) (t : Table) (i : Nxt), Rel pt t → t.Inv h →
    HashLink.HashSet.removeSelf_loop1 h fuel pt i (.stl pt.self) = PTable.removeSelfLoop h fuel i pt := by
  induction fuel with
  | zero =>
    intro pt t i hr hi
    cases i with
    | stl s =>
      unfold HashLink.HashSet.removeSelf_loop1 PTable.removeSelfLoop
      by_cases hs : s = pt.self <;> simp [hs]
    | item a => simp [HashLink.HashSet.removeSelf_loop1, PTable.removeSelfLoop]
  | succ f ih =>
    intro pt t i hr hi
    cases i with
    | stl s =>
      unfold HashLink.HashSet.removeSelf_loop1 PTable.removeSelfLoop
      by_cases hs : s = pt.self <;> simp [hs]
    | item a =>
      unfold HashLink.HashSet.removeSelf_loop1 PTable.removeSelfLoop
      simp only [reduceCtorEq, if_false]
      rw [gen_set_removeKey hr hi]
      obtain ⟨pt', e1, hr', hself⟩ := hr.removeKey hi (pt.items a).key
      rw [e1]
      simp only []
      rw [← hself]
      exact ih pt' _ _ hr' (hi.removeKey (pt.items a).key).1

/-- The translated `HashSet::remove(const HashSet& other)` with `other` = the object itself – `i->next` is read from the item
    that `remove(i->key)` has just released – is the model's `removeSelf` on every represented table. -/
theorem gen_set_removeSelf {h : Nat → Nat} {pt : PTable} {t : Table} (hr : Rel pt t) (hi : t.Inv h) :
    HashLink.HashSet.removeSelf h pt = PTable.removeSelf h pt := by
  unfold HashLink.HashSet.removeSelf PTable.removeSelf
  exact gen_set_removeSelf_loop h _ pt t _ hr hi


/-! ### the one-line members: size, isEmpty, contains, front, back, append, prepend -/

theorem gen_map_size (h : Nat → Nat) (t : PTable) : HashLink.HashMap.size h t = some (t, t.size) := rfl
theorem gen_map_isEmpty (h : Nat → Nat) (t : PTable) : HashLink.HashMap.isEmpty h t = some (t, t.isEmpty) := rfl

/-- `contains(key)` = `find(key) != _end` -/
theorem gen_map_contains (h : Nat → Nat) (t : PTable) (k : Nat) :
    HashLink.HashMap.contains h t k = (t.find h k).map (fun r => (t, r.isSome)) := by
  unfold HashLink.HashMap.contains
  rw [gen_map_find]
  cases t.find h k with
  | none => rfl
  | some r => cases r <;> simp [findResult, iterOf]

/-- `front()` / `back()` (every overload): what the first / last item shows; a fault on the empty table -/
theorem gen_map_front (h : Nat → Nat) (t : PTable) :
    HashLink.HashMap.front h t = (match t.begin with | .item id => some (t, shown Kind.map t id) | .stl _ => none) := by
  unfold HashLink.HashMap.front
  cases t.begin <;> simp [shown]

theorem gen_map_back (h : Nat → Nat) (t : PTable) :
    HashLink.HashMap.back h t = (match t.endPrev with | some id => some (t, shown Kind.map t id) | none => none) := by
  unfold HashLink.HashMap.back
  simp only [PTable.prevOf]
  cases t.endPrev <;> simp [shown]

/-- `append(key, value)` = `insert(_end, …).item->value`, `prepend` = `insert(_begin, …).item->value`: the value of the item the
    returned iterator designates -/
theorem gen_map_append {h : Nat → Nat} {pt : PTable} {t : Table} (hr : Rel pt t) (hi : t.Inv h) (k v : Nat) :
    HashLink.HashMap.append h pt k v = (pt.insert Kind.map h (.stl pt.self) k v).map (fun r => (r.1, (r.1.items r.2).value)) := by
  unfold HashLink.HashMap.append
  have e := gen_map_insert_rel hr hi t.order.length k v
  rw [nxtAt_length] at e
  rw [e]
  cases pt.insert Kind.map h (.stl pt.self) k v <;> rfl

theorem gen_map_prepend {h : Nat → Nat} {pt : PTable} {t : Table} (hr : Rel pt t) (hi : t.Inv h) (k v : Nat) :
    HashLink.HashMap.prepend h pt k v = (pt.insert Kind.map h pt.begin k v).map (fun r => (r.1, (r.1.items r.2).value)) := by
  unfold HashLink.HashMap.prepend
  have e := gen_map_insert_rel hr hi 0 k v
  rw [← hr.begin_nxtAt] at e
  rw [e]
  cases pt.insert Kind.map h pt.begin k v <;> rfl

theorem gen_set_size (h : Nat → Nat) (t : PTable) : HashLink.HashSet.size h t = some (t, t.size) := rfl
theorem gen_set_isEmpty (h : Nat → Nat) (t : PTable) : HashLink.HashSet.isEmpty h t = some (t, t.isEmpty) := rfl

/-- `contains(key)` = `find(key) != _end` -/
theorem gen_set_contains (h : Nat → Nat) (t : PTable) (k : Nat) :
    HashLink.HashSet.contains h t k = (t.find h k).map (fun r => (t, r.isSome)) := by
  unfold HashLink.HashSet.contains
  rw [gen_set_find]
  cases t.find h k with
  | none => rfl
  | some r => cases r <;> simp [findResult, iterOf]

/-- `front()` / `back()` (every overload): what the first / last item shows; a fault on the empty table -/
theorem gen_set_front (h : Nat → Nat) (t : PTable) :
    HashLink.HashSet.front h t = (match t.begin with | .item id => some (t, shown Kind.set t id) | .stl _ => none) := by
  unfold HashLink.HashSet.front
  cases t.begin <;> simp [shown]

theorem gen_set_back (h : Nat → Nat) (t : PTable) :
    HashLink.HashSet.back h t = (match t.endPrev with | some id => some (t, shown Kind.set t id) | none => none) := by
  unfold HashLink.HashSet.back
  simp only [PTable.prevOf]
  cases t.endPrev <;> simp [shown]

/-- `append(key)` = `insert(_end, key)`, `prepend(key)` = `insert(_begin, key)` -/
theorem gen_set_append {h : Nat → Nat} {pt : PTable} {t : Table} (hr : Rel pt t) (hi : t.Inv h) (k v : Nat) :
    HashLink.HashSet.append h pt k = (pt.insert Kind.set h (.stl pt.self) k v).map (·.1) := by
  unfold HashLink.HashSet.append
  have e := gen_set_insert_rel hr hi t.order.length k v
  rw [nxtAt_length] at e
  rw [e]
  cases pt.insert Kind.set h (.stl pt.self) k v <;> rfl

theorem gen_set_prepend {h : Nat → Nat} {pt : PTable} {t : Table} (hr : Rel pt t) (hi : t.Inv h) (k v : Nat) :
    HashLink.HashSet.prepend h pt k = (pt.insert Kind.set h pt.begin k v).map (·.1) := by
  unfold HashLink.HashSet.prepend
  have e := gen_set_insert_rel hr hi 0 k v
  rw [← hr.begin_nxtAt] at e
  rw [e]
  cases pt.insert Kind.set h pt.begin k v <;> rfl

theorem gen_pool_size (h : Nat → Nat) (t : PTable) : HashLink.PoolMap.size h t = some (t, t.size) := rfl
theorem gen_pool_isEmpty (h : Nat → Nat) (t : PTable) : HashLink.PoolMap.isEmpty h t = some (t, t.isEmpty) := rfl

/-- `contains(key)` = `find(key) != _end` -/
theorem gen_pool_contains (h : Nat → Nat) (t : PTable) (k : Nat) :
    HashLink.PoolMap.contains h t k = (t.find h k).map (fun r => (t, r.isSome)) := by
  unfold HashLink.PoolMap.contains
  rw [gen_pool_find]
  cases t.find h k with
  | none => rfl
  | some r => cases r <;> simp [findResult, iterOf]

/-- `front()` / `back()` (every overload): what the first / last item shows; a fault on the empty table -/
theorem gen_pool_front (h : Nat → Nat) (t : PTable) :
    HashLink.PoolMap.front h t = (match t.begin with | .item id => some (t, shown Kind.pool t id) | .stl _ => none) := by
  unfold HashLink.PoolMap.front
  cases t.begin <;> simp [shown]

theorem gen_pool_back (h : Nat → Nat) (t : PTable) :
    HashLink.PoolMap.back h t = (match t.endPrev with | some id => some (t, shown Kind.pool t id) | none => none) := by
  unfold HashLink.PoolMap.back
  simp only [PTable.prevOf]
  cases t.endPrev <;> simp [shown]

/-- `append(key)` = `insert(_end, …).item->value`: the value of the item the returned iterator designates -/
theorem gen_pool_append {h : Nat → Nat} {pt : PTable} {t : Table} (hr : Rel pt t) (hi : t.Inv h) (k v : Nat) :
    HashLink.PoolMap.append h pt k = (pt.insert Kind.pool h (.stl pt.self) k v).map (fun r => (r.1, (r.1.items r.2).value)) := by
  unfold HashLink.PoolMap.append
  have e := gen_pool_insert_rel hr hi t.order.length k v
  rw [nxtAt_length] at e
  rw [e]
  cases pt.insert Kind.pool h (.stl pt.self) k v <;> rfl

/-! ### constructors -/

/-- The translated default constructor, run on the raw storage of an object (any member values; the translator checks that
    every member is initialised), yields the model's fresh table with the capacity constant of the current header. -/
theorem gen_map_constructDefault (h : Nat → Nat) (self : Bool) (c0 ipb dcap : Nat) :
    HashLink.HashMap.constructDefault h (PTable.fresh self c0 ipb dcap) = some (PTable.fresh self Hash.defaultCapacityMap ipb dcap) := rfl

/-- The translated `explicit HashMap(usize capacity)`: the model's `construct` (capacity 0 becomes 1), for every capacity. -/
theorem gen_map_construct (h : Nat → Nat) (self : Bool) (c0 ipb dcap capacity : Nat) :
    HashLink.HashMap.construct h (PTable.fresh self c0 ipb dcap) capacity = some (PTable.construct self ipb dcap capacity) := by
  unfold HashLink.HashMap.construct PTable.construct PTable.fresh
  by_cases hc : capacity = 0 <;> simp [hc]

/-- The translated copy constructor (member initialisers, then `append(i->key, i->value)` along `other`'s list) is the
    model's `copyOf`, for every source table whose class constants are those of the current header. -/
theorem gen_map_copyConstruct (h : Nat → Nat) (self : Bool) (c0 : Nat) (o : PTable) (hd : o.dcap = Hash.defaultCapacityMap)
    (hk : 0 < o.ipb) :
    HashLink.HashMap.copyConstruct h (PTable.fresh self c0 o.ipb o.dcap) o = PTable.copyOf Kind.map h self o := by
  first
  | -- the loop written in the copy constructor itself
    have hloop : ∀ (fuel : Nat) (pt : PTable) (t : Table) (i : Nxt), Rel pt t → t.Inv h →
        HashLink.HashMap.copyConstruct_loop1 h fuel pt o i (.stl o.self) = PTable.appendLoop Kind.map h o.self o.items fuel i pt := by
      intro fuel
      induction fuel with
      | zero =>
        intro pt t i hr hi
        cases i with
        | stl s =>
          unfold HashLink.HashMap.copyConstruct_loop1 PTable.appendLoop
          by_cases hs : s = o.self <;> simp [hs]
        | item a => simp [HashLink.HashMap.copyConstruct_loop1, PTable.appendLoop]
      | succ f ih =>
        intro pt t i hr hi
        cases i with
        | stl s =>
          unfold HashLink.HashMap.copyConstruct_loop1 PTable.appendLoop
          by_cases hs : s = o.self <;> simp [hs]
        | item a =>
          unfold HashLink.HashMap.copyConstruct_loop1 PTable.appendLoop
          simp only [reduceCtorEq, if_false]
          have e := gen_map_insert_rel hr hi t.order.length (o.items a).key (o.items a).value
          rw [nxtAt_length] at e
          rw [e]
          obtain ⟨r, e1, _, hr', _⟩ := hr.insert hi Kind.map t.order.length (o.items a).key (o.items a).value (Nat.le_refl _)
          rw [nxtAt_length] at e1
          rw [e1]
          simp only [Option.map_some]
          exact ih r.1 _ _ hr' (hi.insert Kind.map t.order.length (o.items a).key (o.items a).value (Nat.le_refl _)).1
    have e0 : HashLink.HashMap.copyConstruct h (PTable.fresh self c0 o.ipb o.dcap) o =
        HashLink.HashMap.copyConstruct_loop1 h o.size (PTable.fresh self Hash.defaultCapacityMap o.ipb o.dcap) o o.begin (.stl o.self) := rfl
    rw [e0]
    unfold PTable.copyOf PTable.appendAll
    rw [hd]
    exact hloop _ _ _ _ (fresh_rel self _ _ _) (fresh_inv h _ _ _ (by decide) hk (by decide))
  | -- the copy constructor calls a member / helper that holds the loop (harmless change C02-h6)
    have hloop : ∀ (fuel : Nat) (pt : PTable) (t : Table) (i : Nxt), Rel pt t → t.Inv h →
        HashLink.HashMap.appendAll_loop1 h fuel pt o i (.stl o.self) = PTable.appendLoop Kind.map h o.self o.items fuel i pt := by
      intro fuel
      induction fuel with
      | zero =>
        intro pt t i hr hi
        cases i with
        | stl s =>
          unfold HashLink.HashMap.appendAll_loop1 PTable.appendLoop
          by_cases hs : s = o.self <;> simp [hs]
        | item a => simp [HashLink.HashMap.appendAll_loop1, PTable.appendLoop]
      | succ f ih =>
        intro pt t i hr hi
        cases i with
        | stl s =>
          unfold HashLink.HashMap.appendAll_loop1 PTable.appendLoop
          by_cases hs : s = o.self <;> simp [hs]
        | item a =>
          unfold HashLink.HashMap.appendAll_loop1 PTable.appendLoop
          simp only [reduceCtorEq, if_false]
          have e := gen_map_insert_rel hr hi t.order.length (o.items a).key (o.items a).value
          rw [nxtAt_length] at e
          rw [e]
          obtain ⟨r, e1, _, hr', _⟩ := hr.insert hi Kind.map t.order.length (o.items a).key (o.items a).value (Nat.le_refl _)
          rw [nxtAt_length] at e1
          rw [e1]
          simp only [Option.map_some]
          exact ih r.1 _ _ hr' (hi.insert Kind.map t.order.length (o.items a).key (o.items a).value (Nat.le_refl _)).1
    have key : ∀ T : PTable, T = PTable.fresh self Hash.defaultCapacityMap o.ipb o.dcap →
        (match HashLink.HashMap.appendAll h T o with
          | none => none
          | some t => some t) = PTable.copyOf Kind.map h self o := by
      intro T hT
      subst hT
      unfold HashLink.HashMap.appendAll PTable.copyOf PTable.appendAll
      rw [hd]
      have hl := hloop o.size (PTable.fresh self Hash.defaultCapacityMap o.ipb Hash.defaultCapacityMap) (Table.fresh Hash.defaultCapacityMap o.ipb Hash.defaultCapacityMap) o.begin
        (fresh_rel self _ _ _) (fresh_inv h Hash.defaultCapacityMap o.ipb Hash.defaultCapacityMap (by decide) hk (by decide))
      simp only [hl]
      cases PTable.appendLoop Kind.map h o.self o.items o.size o.begin (PTable.fresh self Hash.defaultCapacityMap o.ipb Hash.defaultCapacityMap) <;> rfl
    unfold HashLink.HashMap.copyConstruct
    simp only []
    exact key _ rfl

/-- The translated default constructor, run on the raw storage of an object (any member values; the translator checks that
    every member is initialised), yields the model's fresh table with the capacity constant of the current header. -/
theorem gen_set_constructDefault (h : Nat → Nat) (self : Bool) (c0 ipb dcap : Nat) :
    HashLink.HashSet.constructDefault h (PTable.fresh self c0 ipb dcap) = some (PTable.fresh self Hash.defaultCapacitySet ipb dcap) := rfl

/-- The translated `explicit HashSet(usize capacity)`: the model's `construct` (capacity 0 becomes 1), for every capacity. -/
theorem gen_set_construct (h : Nat → Nat) (self : Bool) (c0 ipb dcap capacity : Nat) :
    HashLink.HashSet.construct h (PTable.fresh self c0 ipb dcap) capacity = some (PTable.construct self ipb dcap capacity) := by
  unfold HashLink.HashSet.construct PTable.construct PTable.fresh
  by_cases hc : capacity = 0 <;> simp [hc]

/-- The translated copy constructor (member initialisers, then `append(i->key, i->value)` along `other`'s list) is the
    model's `copyOf`, for every source table whose class constants are those of the current header. -/
theorem gen_set_copyConstruct (h : Nat → Nat) (self : Bool) (c0 : Nat) (o : PTable) (hd : o.dcap = Hash.defaultCapacitySet)
    (hk : 0 < o.ipb) :
    HashLink.HashSet.copyConstruct h (PTable.fresh self c0 o.ipb o.dcap) o = PTable.copyOf Kind.set h self o := by
  first
  | -- the loop written in the copy constructor itself
    have hloop : ∀ (fuel : Nat) (pt : PTable) (t : Table) (i : Nxt), Rel pt t → t.Inv h →
        HashLink.HashSet.copyConstruct_loop1 h fuel pt o i (.stl o.self) = PTable.appendLoop Kind.set h o.self o.items fuel i pt := by
      intro fuel
      induction fuel with
      | zero =>
        intro pt t i hr hi
        cases i with
        | stl s =>
          unfold HashLink.HashSet.copyConstruct_loop1 PTable.appendLoop
          by_cases hs : s = o.self <;> simp [hs]
        | item a => simp [HashLink.HashSet.copyConstruct_loop1, PTable.appendLoop]
      | succ f ih =>
        intro pt t i hr hi
        cases i with
        | stl s =>
          unfold HashLink.HashSet.copyConstruct_loop1 PTable.appendLoop
          by_cases hs : s = o.self <;> simp [hs]
        | item a =>
          unfold HashLink.HashSet.copyConstruct_loop1 PTable.appendLoop
          simp only [reduceCtorEq, if_false]
          have e := gen_set_insert_rel hr hi t.order.length (o.items a).key (o.items a).value
          rw [nxtAt_length] at e
          rw [e]
          obtain ⟨r, e1, _, hr', _⟩ := hr.insert hi Kind.set t.order.length (o.items a).key (o.items a).value (Nat.le_refl _)
          rw [nxtAt_length] at e1
          rw [e1]
          simp only [Option.map_some]
          exact ih r.1 _ _ hr' (hi.insert Kind.set t.order.length (o.items a).key (o.items a).value (Nat.le_refl _)).1
    have e0 : HashLink.HashSet.copyConstruct h (PTable.fresh self c0 o.ipb o.dcap) o =
        HashLink.HashSet.copyConstruct_loop1 h o.size (PTable.fresh self Hash.defaultCapacitySet o.ipb o.dcap) o o.begin (.stl o.self) := rfl
    rw [e0]
    unfold PTable.copyOf PTable.appendAll
    rw [hd]
    exact hloop _ _ _ _ (fresh_rel self _ _ _) (fresh_inv h _ _ _ (by decide) hk (by decide))
  | -- the copy constructor calls a member / helper that holds the loop (harmless change C02-h6)
    have hloop : ∀ (fuel : Nat) (pt : PTable) (t : Table) (i : Nxt), Rel pt t → t.Inv h →
        HashLink.HashSet.appendAll_loop1 h fuel pt o i (.stl o.self) = PTable.appendLoop Kind.set h o.self o.items fuel i pt := by
      intro fuel
      induction fuel with
      | zero =>
        intro pt t i hr hi
        cases i with
        | stl s =>
          unfold HashLink.HashSet.appendAll_loop1 PTable.appendLoop
          by_cases hs : s = o.self <;> simp [hs]
        | item a => simp [HashLink.HashSet.appendAll_loop1, PTable.appendLoop]
      | succ f ih =>
        intro pt t i hr hi
        cases i with
        | stl s =>
          unfold HashLink.HashSet.appendAll_loop1 PTable.appendLoop
          by_cases hs : s = o.self <;> simp [hs]
        | item a =>
          unfold HashLink.HashSet.appendAll_loop1 PTable.appendLoop
          simp only [reduceCtorEq, if_false]
          have e := gen_set_insert_rel hr hi t.order.length (o.items a).key (o.items a).value
          rw [nxtAt_length] at e
          rw [e]
          obtain ⟨r, e1, _, hr', _⟩ := hr.insert hi Kind.set t.order.length (o.items a).key (o.items a).value (Nat.le_refl _)
          rw [nxtAt_length] at e1
          rw [e1]
          simp only [Option.map_some]
          exact ih r.1 _ _ hr' (hi.insert Kind.set t.order.length (o.items a).key (o.items a).value (Nat.le_refl _)).1
    have key : ∀ T : PTable, T = PTable.fresh self Hash.defaultCapacitySet o.ipb o.dcap →
        (match HashLink.HashSet.appendAll h T o with
          | none => none
          | some t => some t) = PTable.copyOf Kind.set h self o := by
      intro T hT
      subst hT
      unfold HashLink.HashSet.appendAll PTable.copyOf PTable.appendAll
      rw [hd]
      have hl := hloop o.size (PTable.fresh self Hash.defaultCapacitySet o.ipb Hash.defaultCapacitySet) (Table.fresh Hash.defaultCapacitySet o.ipb Hash.defaultCapacitySet) o.begin
        (fresh_rel self _ _ _) (fresh_inv h Hash.defaultCapacitySet o.ipb Hash.defaultCapacitySet (by decide) hk (by decide))
      simp only [hl]
      cases PTable.appendLoop Kind.set h o.self o.items o.size o.begin (PTable.fresh self Hash.defaultCapacitySet o.ipb Hash.defaultCapacitySet) <;> rfl
    unfold HashLink.HashSet.copyConstruct
    simp only []
    exact key _ rfl

theorem gen_pool_constructDefault (h : Nat → Nat) (self : Bool) (c0 ipb dcap : Nat) :
    HashLink.PoolMap.constructDefault h (PTable.fresh self c0 ipb dcap) = some (PTable.fresh self Hash.defaultCapacityPool ipb dcap) := rfl

theorem gen_pool_construct (h : Nat → Nat) (self : Bool) (c0 ipb dcap capacity : Nat) :
    HashLink.PoolMap.construct h (PTable.fresh self c0 ipb dcap) capacity = some (PTable.construct self ipb dcap capacity) := by
  unfold HashLink.PoolMap.construct PTable.construct PTable.fresh
  by_cases hc : capacity = 0 <;> simp [hc]

/-- the hypotheses of the `…_rel` theorems are met by a non-empty represented table, and the translated `remove(iterator)`
    does not fault on it -/
example : ∃ (pt : PTable) (t : Table), Rel pt t ∧ t.Inv (fun _ => 7) ∧ 0 ∈ t.order ∧
    HashLink.HashMap.removeIt (fun _ => 7) pt (.item 0) = some (pt.removeItem 0) ∧
    (pt.items 0).cell ≠ .nextOf 0 ∧ nxtAt pt.self t.order 0 ≠ .item (pt.allocItem Kind.map).1 := by
  obtain ⟨r, _, _, hr, _⟩ :=
    (fresh_rel false 1 4 500).insert (fresh_inv (fun _ => 7) 1 4 500 (by decide) (by decide) (by decide)) Kind.map 0 5 50 (Nat.zero_le _)
  have hi := ((fresh_inv (fun _ => 7) 1 4 500 (by decide) (by decide) (by decide)).insert Kind.map 0 5 50 (Nat.zero_le _)).1
  exact ⟨r.1, _, hr, hi, by decide, gen_map_removeIt_rel hr hi 0 (by decide), hr.cell_ne_self hi 0 (by decide),
    hr.alloc_ne_pos hi Kind.map 0⟩

end Nstd.Hash.Ptr
