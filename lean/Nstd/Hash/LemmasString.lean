import Nstd.Hash.Model
/-
  `hash(const String&)` over the model of the String view it reads (`StrView`, `conv`, `hashView`).
-/
namespace Nstd.Hash

theorem hashReads_le (len : Nat) : ∀ i ∈ hashStringReads len, i ≤ len := by
  intro i hi
  simp only [hashStringReads, List.mem_cons, List.not_mem_nil, or_false] at hi
  rcases hi with e | e | e
  · omega
  · have := Nat.div_le_self len 2; omega
  · split at e <;> omega

/-- the hash code depends only on the bytes at the indices `≤ len` of what `s` points to -/
theorem hashString_congr (s s' : List Nat) (len : Nat) (h : ∀ i, i ≤ len → s[i]? = s'[i]?) :
    hashString s len = hashString s' len := by
  unfold hashString
  rw [h 0 (Nat.zero_le _), h (len / 2) (Nat.div_le_self len 2),
    h (len - (if len ≠ 0 then 1 else 0)) (Nat.sub_le _ _)]

theorem StrView.text_length (v : StrView) (hv : v.off + v.len ≤ v.buf.length) : v.text.length = v.len := by
  simp only [StrView.text, List.length_take, List.length_drop]
  omega

/-- the pointer returned by the conversion designates the string's own text followed by a NUL, whatever memory
    the string points into -/
theorem StrView.conv_spec (v : StrView) (hv : v.off + v.len < v.buf.length) :
    ∃ s, v.conv = some s ∧ ∀ i, i ≤ v.len → s[i]? = (v.text ++ [0])[i]? := by
  have hlen := v.text_length (Nat.le_of_lt hv)
  unfold StrView.conv
  rw [List.getElem?_eq_getElem hv]
  by_cases hb : v.buf[v.off + v.len] = 0
  · simp only [hb, if_true]
    refine ⟨_, rfl, ?_⟩
    intro i hi
    rw [List.getElem?_drop]
    by_cases hlt : i < v.len
    · rw [List.getElem?_append_left (by rw [hlen]; exact hlt)]
      simp only [StrView.text]
      rw [List.getElem?_take_of_lt hlt, List.getElem?_drop]
    · have : i = v.len := by omega
      subst this
      rw [List.getElem?_append_right (by rw [hlen]; exact Nat.le_refl _), hlen]
      simp [List.getElem?_eq_getElem hv, hb]
  · simp only [hb, if_false]
    exact ⟨_, rfl, fun _ _ => rfl⟩

/-- `hash(const String&)` is a function of the text alone -/
theorem hashView_eq (v : StrView) (hv : v.off + v.len < v.buf.length) :
    hashView v = hashString (v.text ++ [0]) v.text.length := by
  obtain ⟨s, hs, hrd⟩ := v.conv_spec hv
  unfold hashView
  rw [hs, v.text_length (Nat.le_of_lt hv)]
  exact hashString_congr _ _ _ hrd

end Nstd.Hash
