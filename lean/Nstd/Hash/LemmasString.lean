import Nstd.Hash.Model
/-
  `hash(const String&)` over the model of the String view it reads (`StrView`, `conv`, `hashViewWith`), for ANY
  translated body (`reads`, `of`) whose reads stay within the text and its terminator.
-/
namespace Nstd.Hash

theorem readAll_congr (s s' : List Nat) (l : List Nat) (h : ∀ i ∈ l, s[i]? = s'[i]?) : readAll s l = readAll s' l := by
  induction l with
  | nil => rfl
  | cons x r ih =>
    simp only [readAll]
    rw [h x List.mem_cons_self, ih (fun i hi => h i (List.mem_cons_of_mem _ hi))]

theorem readAll_isSome (s : List Nat) (l : List Nat) (h : ∀ i ∈ l, i < s.length) : (readAll s l).isSome = true := by
  induction l with
  | nil => rfl
  | cons x r ih =>
    have h1 := ih (fun i hi => h i (List.mem_cons_of_mem _ hi))
    simp only [readAll, List.getElem?_eq_getElem (h x List.mem_cons_self)]
    cases hr : readAll s r with
    | none => rw [hr] at h1; cases h1
    | some cs => rfl

/-- the hash code depends only on the bytes at the indices read -/
theorem hashWith_congr (reads : Nat → List Nat) (of : Nat → List Nat → Nat) (s s' : List Nat) (len : Nat)
    (h : ∀ i ∈ reads len, s[i]? = s'[i]?) : hashWith reads of s len = hashWith reads of s' len := by
  unfold hashWith
  rw [readAll_congr s s' _ h]

theorem StrView.text_length (v : StrView) (hv : v.off + v.len ≤ v.buf.length) : v.text.length = v.len := by
  simp only [StrView.text, List.length_take, List.length_drop]
  omega

/-- the pointer returned by the conversion designates the string's own text followed by a NUL, whatever memory
    the string points into -/
theorem StrView.conv_spec (v : StrView) (hv : v.off + v.len < v.buf.length) :
    ∃ s, v.conv = some s ∧ ∀ i, i ≤ v.len → s[i]? = (v.text ++ [0])[i]? := by
  have hlen := v.text_length (Nat.le_of_lt hv)
  unfold StrView.conv
  rw [List.getElem?_eq_getElem hv]
  by_cases hb : v.buf[v.off + v.len] = 0
  · simp only [hb, if_true]
    refine ⟨_, rfl, ?_⟩
    intro i hi
    rw [List.getElem?_drop]
    by_cases hlt : i < v.len
    · rw [List.getElem?_append_left (by rw [hlen]; exact hlt)]
      simp only [StrView.text]
      rw [List.getElem?_take_of_lt hlt, List.getElem?_drop]
    · have : i = v.len := by omega
      subst this
      rw [List.getElem?_append_right (by rw [hlen]; exact Nat.le_refl _), hlen]
      simp [List.getElem?_eq_getElem hv, hb]
  · simp only [hb, if_false]
    exact ⟨_, rfl, fun _ _ => rfl⟩

/-- `hash(const String&)` is a function of the text alone, provided its reads stay within text + terminator -/
theorem hashViewWith_eq (reads : Nat → List Nat) (of : Nat → List Nat → Nat) (v : StrView)
    (hb : ∀ i ∈ reads v.len, i ≤ v.len) (hv : v.off + v.len < v.buf.length) :
    hashViewWith reads of v = hashWith reads of (v.text ++ [0]) v.text.length := by
  obtain ⟨s, hs, hrd⟩ := v.conv_spec hv
  unfold hashViewWith
  rw [hs, v.text_length (Nat.le_of_lt hv)]
  exact hashWith_congr _ _ _ _ _ (fun i hi => hrd i (hb i hi))

end Nstd.Hash
