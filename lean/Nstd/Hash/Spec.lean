import Nstd.Hash.Model
/-
  The specification property C02 talks about: an insertion-ordered association list with unique
  keys.  No capacity, no hash function, no buckets, no node ids.
  A table is the list of its (key, value) entries in iteration order; iterators are positions.
-/
namespace Nstd.Hash.Spec

abbrev Tab := List (Nat × Nat)

def keys (l : Tab) : List Nat := l.map Prod.fst

/-- position and value of the entry with key `k` -/
def lookup (k : Nat) : Tab → Option (Nat × Nat)
  | [] => none
  | e :: rest => if e.1 = k then some (0, e.2) else (lookup k rest).map (fun r => (r.1 + 1, r.2))

/-- replace the value of the entry with key `k`, in place -/
def setValue (l : Tab) (k v : Nat) : Tab := l.map (fun e => if e.1 = k then (e.1, v) else e)

/-- what is stored for a new key: HashMap the given value; HashSet has no values, PoolMap default-constructs (0) -/
def stored (kind : Kind) (e : Nat × Nat) : Nat × Nat := (e.1, if kind = Kind.map then e.2 else 0)

/-- `insert(position, key, value)`: (table, position of the returned iterator, value of the entry afterwards).
    A key that is already present keeps its position; HashMap replaces its value, HashSet/PoolMap leave the entry untouched. -/
def insert (kind : Kind) (l : Tab) (pos k v : Nat) : Tab × Nat × Nat :=
  match lookup k l with
  | some (i, old) => if kind = Kind.map then (setValue l k v, i, v) else (l, i, old)
  | none => (insertAt pos (stored kind (k, v)) l, pos, (stored kind (k, v)).2)

def removeKey (l : Tab) (k : Nat) : Tab := l.filter (fun e => e.1 ≠ k)

/-- append every entry of `o`, in order -/
def appendAll (kind : Kind) (l : Tab) : Tab → Tab
  | [] => l
  | e :: rest => appendAll kind (insert kind l l.length e.1 e.2).1 rest

def removeAll (l o : Tab) : Tab := l.filter (fun e => e.1 ∉ keys o)

/-- what `front()/back()` show: HashSet the key, the maps the value -/
def shown (kind : Kind) (e : Nat × Nat) : Nat := if kind = Kind.set then e.1 else e.2

/-- `operator==`: same entries in the same order (HashSet: same keys in the same order) -/
def equal (kind : Kind) (l m : Tab) : Bool :=
  if kind = Kind.map then decide (l = m) else decide (keys l = keys m)

structure SState where
  a : Tab
  b : Tab

def SState.get (s : SState) (t : Bool) : Tab := if t then s.b else s.a
def SState.set (s : SState) (t : Bool) (x : Tab) : SState := if t then { s with b := x } else { s with a := x }

def init : SState := ⟨[], []⟩

def step (kind : Kind) (s : SState) (op : Op) : Option (SState × Out) :=
  if !op.available kind then none else
  match op with
  | .construct t _ => some (s.set t [], .unit)
  | .constructDefault t => some (s.set t [], .unit)
  | .copyFrom t => some (s.set t ((s.get (!t)).map (stored kind)), .unit)
  | .assign t => some (s.set t ((s.get (!t)).map (stored kind)), .unit)
  | .append t k v =>
    let r := insert kind (s.get t) (s.get t).length k v
    some (s.set t r.1, if kind = Kind.set then .unit else .num r.2.2)
  | .prepend t k v =>
    let r := insert kind (s.get t) 0 k v
    some (s.set t r.1, if kind = Kind.set then .unit else .num r.2.2)
  | .insert t pos k v =>
    if pos ≤ (s.get t).length then
      let r := insert kind (s.get t) pos k v
      some (s.set t r.1, .num r.2.1)
    else none
  | .removeKey t k => some (s.set t (removeKey (s.get t) k), .unit)
  | .removeAt t pos =>
    if pos < (s.get t).length then some (s.set t ((s.get t).eraseIdx pos), .num pos) else none
  | .removeValue t pos =>
    if pos < (s.get t).length then some (s.set t ((s.get t).eraseIdx pos), .unit) else none
  | .removeFront t =>
    if 0 < (s.get t).length then some (s.set t ((s.get t).eraseIdx 0), .num 0) else none
  | .removeBack t =>
    if 0 < (s.get t).length then
      some (s.set t ((s.get t).eraseIdx ((s.get t).length - 1)), .num ((s.get t).length - 1))
    else none
  | .clear t => some (s.set t [], .unit)
  | .swap t => some ((s.set t (s.get (!t))).set (!t) (s.get t), .unit)
  | .appendAll t => some (s.set t (appendAll kind (s.get t) (s.get (!t))), .unit)
  | .removeAll t => some (s.set t (removeAll (s.get t) (s.get (!t))), .unit)
  | .setValue t k v => some (s.set t (setValue (s.get t) k v), .unit)
  | .assignSelf _ => some (s, .unit)
  | .swapSelf _ => some (s, .unit)
  | .appendSelf t => some (s.set t (appendAll kind (s.get t) (s.get t)), .unit)
  | .removeSelf t => some (s.set t (removeAll (s.get t) (s.get t)), .unit)
  | .find t k => some (s, .onum ((lookup k (s.get t)).map Prod.fst))
  | .contains t k => some (s, .flag (decide (k ∈ keys (s.get t))))
  | .size t => some (s, .num (s.get t).length)
  | .isEmpty t => some (s, .flag (s.get t).isEmpty)
  | .iterate t => some (s, .entries (s.get t))
  | .front t =>
    match (s.get t).head? with
    | some e => some (s, .num (shown kind e))
    | none => none
  | .back t =>
    match (s.get t).getLast? with
    | some e => some (s, .num (shown kind e))
    | none => none
  | .equal t u => some (s, .flag (equal kind (s.get t) (s.get u)))
  | .notEqual t u => some (s, .flag (!equal kind (s.get t) (s.get u)))
  | .iterBack t => some (s, .entries (s.get t).reverse)
  | .entryAt t pos =>
    match (s.get t)[pos]? with
    | some e => some (s, .entries [e])
    | none => none

def run (kind : Kind) : SState → List Op → Option (SState × List Out)
  | s, [] => some (s, [])
  | s, op :: ops =>
    match step kind s op with
    | none => none
    | some (s', o) =>
      match run kind s' ops with
      | none => none
      | some (s'', os) => some (s'', o :: os)

end Nstd.Hash.Spec
