import Nstd.Hash.PtrModel
/-
  Heap-access primitives used by the code that tools/gen_hash.py generates from the current headers
  (`Nstd/Generated/HashLink.lean`) in addition to those of `PtrModel.lean` (`setCell`, `setPrev`, `setNext`, `writeCell`,
  `prevOf`, `setPrevOf`): single field stores / reads and the two allocation steps that the translator recognises as a whole.
  No control flow of the containers lives here.
-/
namespace Nstd.Hash.Ptr
open Nstd.Hash

namespace PTable

/-- `*cell` -/
def readCell (t : PTable) : CellRef → Option Nat
  | .bucket b => t.heads b
  | .nextOf j => (t.items j).nextCell

/-- `id->nextCell = v` -/
def setNextCell (t : PTable) (id : Nat) (v : Option Nat) : PTable :=
  { t with items := upd t.items id { t.items id with nextCell := v } }

/-- `id->value = v` -/
def setValueAt (t : PTable) (id : Nat) (v : Nat) : PTable :=
  { t with items := upd t.items id { t.items id with value := v } }

/-- `new(id) Item(key, value)` / `new(id) Item(key)` (value 0: HashSet has none, PoolMap default-constructs) -/
def constructAt (t : PTable) (id : Nat) (k v : Nat) : PTable :=
  { t with items := upd t.items id { t.items id with key := k, value := v } }

/-- `data = (Item**)new char[sizeof(Item*) * capacity]; Memory::zero(data, sizeof(Item*) * capacity);` -/
def allocBuckets (t : PTable) : PTable := { t with allocated := true, heads := fun _ => none }

/-- HashMap / HashSet: a new block of `ipb` items; the first one is used, the others are pushed on the free list in
    ascending order -/
def newBlockFirst (t : PTable) : Nat × PTable :=
  (t.ipb * t.blocks, { t.pushFree (t.ipb * t.blocks + 1) (t.ipb - 1) with blocks := t.blocks + 1 })

/-- PoolMap: a new block of `ipb` items, all pushed on the free list in ascending order (`freeItem` = the last one) -/
def newBlockAll (t : PTable) : PTable :=
  { t.pushFree (t.ipb * t.blocks) (t.ipb - 1 + 1) with blocks := t.blocks + 1 }

/-- PoolMap, the fill loop pushing on a (null) LOCAL instead of `freeItem`: a new block of `ipb` items chained through `prev` in
    ascending order (the first one's `prev` is null); `freeItem` is not touched; the local ends as the last item
    `ipb * blocks + (ipb - 1)` -/
def newBlockLocal (t : PTable) : PTable :=
  { (({ t with freeItem := none } : PTable).pushFree (t.ipb * t.blocks) (t.ipb - 1 + 1)) with freeItem := t.freeItem, blocks := t.blocks + 1 }

end PTable

/-- the iterator `find` returns: the item, or `end()` of the object -/
def iterOf (self : Bool) : Option Nat → Nxt
  | some id => .item id
  | none => .stl self

end Nstd.Hash.Ptr
