import Nstd.Hash.GenSupport
import Nstd.Hash.PtrStep
/-
  Frame lemmas for the heap-access primitives (what a store leaves alone) and the two facts about represented states that
  the equalities `translated body = model step` of `PropsLink.lean` need: an item's `cell` never designates its own
  `nextCell`, and the item the allocator hands out is not on the order list.  Nothing here depends on the generated code.
-/
set_option linter.unusedSimpArgs false
namespace Nstd.Hash.Ptr
open Nstd.Hash

theorem upd_same {α : Type} (f : Nat → α) (i : Nat) (x : α) : upd f i x i = x := by simp [upd]
theorem upd_upd {α : Type} (f : Nat → α) (i : Nat) (x y : α) : upd (upd f i x) i y = upd f i y := by
  funext j; by_cases e : j = i <;> simp [upd, e]

theorem writeCell_items_ne (t : PTable) (c : CellRef) (v : Option Nat) (j : Nat) (hc : c ≠ .nextOf j) :
    (t.writeCell c v).items j = t.items j := by
  cases c with
  | bucket b => rfl
  | nextOf i =>
    have : j ≠ i := fun e => hc (by rw [e])
    simp [PTable.writeCell, upd, this]

theorem setCell_prev (t : PTable) (n : Nat) (c : CellRef) (j : Nat) : ((t.setCell n c).items j).prev = (t.items j).prev := by
  by_cases e : j = n <;> simp [PTable.setCell, upd, e]
theorem setCell_next (t : PTable) (n : Nat) (c : CellRef) (j : Nat) : ((t.setCell n c).items j).next = (t.items j).next := by
  by_cases e : j = n <;> simp [PTable.setCell, upd, e]
theorem writeCell_prev (t : PTable) (c : CellRef) (v : Option Nat) (j : Nat) : ((t.writeCell c v).items j).prev = (t.items j).prev := by
  cases c with
  | bucket b => rfl
  | nextOf i => by_cases e : j = i <;> simp [PTable.writeCell, upd, e]
theorem writeCell_next (t : PTable) (c : CellRef) (v : Option Nat) (j : Nat) : ((t.writeCell c v).items j).next = (t.items j).next := by
  cases c with
  | bucket b => rfl
  | nextOf i => by_cases e : j = i <;> simp [PTable.writeCell, upd, e]

theorem prevOf_setPrev (t : PTable) (pos : Nxt) (i : Nat) (v : Option Nat) (hp : pos ≠ .item i) :
    (t.setPrev i v).prevOf pos = t.prevOf pos := by
  cases pos with
  | stl o => rfl
  | item j =>
    have : j ≠ i := fun e => hp (by rw [e])
    simp [PTable.prevOf, PTable.setPrev, upd, this]

theorem allocItem_allocBuckets_fst (kind : Kind) (t : PTable) : (t.allocBuckets.allocItem kind).1 = (t.allocItem kind).1 := by
  unfold PTable.allocItem PTable.allocBuckets
  cases hf : t.freeItem <;> simp only [hf] <;> split <;> rfl

/-- the table `insert` links into: the bucket array allocated if it was not -/
def PTable.withBuckets (t : PTable) : PTable := if t.allocated then t else t.allocBuckets

theorem withBuckets_eq (t : PTable) :
    (if t.allocated then t else ({ t with allocated := true, heads := fun _ => none } : PTable)) = t.withBuckets := rfl

theorem allocItem_withBuckets_fst (kind : Kind) (t : PTable) : (t.withBuckets.allocItem kind).1 = (t.allocItem kind).1 := by
  unfold PTable.withBuckets
  by_cases ha : t.allocated = true
  · simp only [ha, if_true]
  · have : t.allocated = false := by simpa using ha
    simp only [this, Bool.false_eq_true, if_false, allocItem_allocBuckets_fst]

theorem pushFree_freeItem (n : Nat) : ∀ (t : PTable) (first : Nat), (t.pushFree first (n + 1)).freeItem = some (first + n) := by
  induction n with
  | zero => intro t first; rfl
  | succ n ih =>
    intro t first
    rw [PTable.pushFree, ih]
    congr 1; omega

theorem lastB_nextOf_ne (l : List Nat) (b0 : CellRef) (x : Nat) (hx : x ∉ l) (h0 : b0 ≠ .nextOf x) :
    lastB CellRef.nextOf b0 l ≠ .nextOf x := by
  induction l generalizing b0 with
  | nil => exact h0
  | cons y r ih =>
    simp only [lastB]
    apply ih
    · exact fun e => hx (List.mem_cons_of_mem _ e)
    · intro e
      have : y = x := by injection e
      exact hx (this ▸ List.mem_cons_self)

/-- in a represented table the `cell` of a live item never designates the item's own `nextCell` -/
theorem Rel.cell_ne_self {h : Nat → Nat} {pt : PTable} {t : Table} (hr : Rel pt t) (hi : t.Inv h) (id : Nat)
    (hm : id ∈ t.order) : (pt.items id).cell ≠ .nextOf id := by
  have ha : t.allocated = true := by
    cases hall : t.allocated with
    | true => rfl
    | false => have := hi.unalloc hall; rw [this] at hm; simp at hm
  have hmc : id ∈ t.data (t.items id).cell := (hi.chain_iff ha _ _).2 ⟨hm, rfl⟩
  obtain ⟨c1, c2, hc⟩ := List.append_of_mem hmc
  have hcn : (c1 ++ id :: c2).Nodup := hc ▸ hi.chain_nodup ha _
  have hcn' := List.nodup_append.1 hcn
  have hid_c1 : id ∉ c1 := fun e => hcn'.2.2 id e id List.mem_cons_self rfl
  have hchain := hr.chains ha (t.items id).cell
  rw [hc] at hchain
  have hchain' := (GSeg_append some CellRef.nextOf c1 (id :: c2) _ _ _).1 hchain
  have hC : (pt.items id).cell = lastB CellRef.nextOf (.bucket (t.items id).cell) c1 := by
    have := hchain'.2; simp only [headP, GSeg] at this; exact this.2.1
  rw [hC]
  exact lastB_nextOf_ne c1 _ id hid_c1 (by simp)

/-- the item the allocator hands out is not the one an iterator of the table designates -/
theorem Rel.alloc_ne_pos {h : Nat → Nat} {pt : PTable} {t : Table} (hr : Rel pt t) (hi : t.Inv h) (kind : Kind) (p : Nat) :
    nxtAt pt.self t.order p ≠ .item (pt.allocItem kind).1 := by
  have e_id := (alloc_sim kind pt t hr.free hr.blocks hr.ipb hi.ipb_pos).1
  have a_order := (hi.alloc kind).1
  rw [e_id]
  unfold nxtAt
  cases hg : t.order[p]? with
  | none => simp
  | some id =>
    intro e
    have : id = (t.allocItem kind).1 := by injection e
    exact a_order (this ▸ List.mem_of_getElem? hg)

/-- the item `find` returns is on the order list -/
theorem Rel.find_mem {h : Nat → Nat} {pt : PTable} {t : Table} (hr : Rel pt t) (hi : t.Inv h) (k id : Nat)
    (hf : pt.find h k = some (some id)) : id ∈ t.order := by
  rw [hr.find hi k] at hf
  have : t.find h k = some id := by injection hf
  exact ((hi.find_some_iff k id).1 this).1

theorem upd_ne {α : Type} (f : Nat → α) (i : Nat) (x : α) (j : Nat) (h : j ≠ i) : upd f i x j = f j := by simp [upd, h]

theorem setPrev_next (t : PTable) (i : Nat) (v : Option Nat) (j : Nat) : ((t.setPrev i v).items j).next = (t.items j).next := by
  by_cases e : j = i <;> simp [PTable.setPrev, upd, e]
theorem setPrevOf_next (t : PTable) (x : Nxt) (v : Option Nat) (j : Nat) : ((t.setPrevOf x v).items j).next = (t.items j).next := by
  cases x with
  | stl o => rfl
  | item i => exact setPrev_next t i v j
theorem setNext_next_ne (t : PTable) (p : Nat) (x : Nxt) (j : Nat) (hj : j ≠ p) : ((t.setNext p x).items j).next = (t.items j).next := by
  simp [PTable.setNext, upd, hj]

theorem withBuckets_fields (pt : PTable) :
    pt.withBuckets.items = pt.items ∧ pt.withBuckets.freeItem = pt.freeItem ∧ pt.withBuckets.blocks = pt.blocks ∧
    pt.withBuckets.ipb = pt.ipb ∧ pt.withBuckets.endPrev = pt.endPrev ∧ pt.withBuckets.cap = pt.cap ∧
    (∀ b, pt.withBuckets.heads b = if pt.allocated then pt.heads b else none) := by
  unfold PTable.withBuckets PTable.allocBuckets
  by_cases ha : pt.allocated = true <;> simp [ha]

/-- in a represented table the item the allocator hands out is neither the predecessor of an iterator's item nor the head of
    a bucket chain (after the allocation) -/
theorem Rel.link_facts {h : Nat → Nat} {pt : PTable} {t : Table} (hr : Rel pt t) (hi : t.Inv h) (kind : Kind) (p c : Nat) :
    (pt.withBuckets.allocItem kind).2.prevOf (nxtAt pt.self t.order p) ≠ some (pt.withBuckets.allocItem kind).1 ∧
    (pt.withBuckets.allocItem kind).2.heads c ≠ some (pt.withBuckets.allocItem kind).1 := by
  obtain ⟨w_items, w_free, w_blocks, w_ipb, w_endPrev, w_cap, w_heads⟩ := withBuckets_fields pt
  obtain ⟨e_id, _, _, e_fields, e_prev, _, _, _, e_heads, _, e_endPrev, _⟩ :=
    alloc_sim kind pt.withBuckets t (by rw [w_items, w_free]; exact hr.free) (by rw [w_blocks]; exact hr.blocks)
      (by rw [w_ipb]; exact hr.ipb) hi.ipb_pos
  have a_order := (hi.alloc kind).1
  rw [e_id]
  constructor
  · unfold nxtAt
    cases hg : t.order[p]? with
    | none =>
      simp only [PTable.prevOf, e_endPrev, w_endPrev, hr.last]
      intro e
      rw [lastB_some_eq_some] at e
      exact a_order (List.mem_of_getLast? e)
    | some j =>
      have hm : j ∈ t.order := List.mem_of_getElem? hg
      simp only [PTable.prevOf]
      rw [e_prev j (hi.order_lt j hm), w_items]
      have hdll := hr.order
      rw [← List.take_append_drop p t.order] at hdll
      have hsplit := (GSeg_append Nxt.item some _ _ none _ _).1 hdll
      have hdr : t.order.drop p = j :: t.order.drop (p + 1) := by
        rw [List.drop_eq_getElem?_toList_append, hg]; rfl
      rw [hdr] at hsplit
      simp only [headP, GSeg] at hsplit
      rw [hsplit.2.2.1]
      intro e
      rw [lastB_some_eq_some] at e
      exact a_order (List.mem_of_mem_take (List.mem_of_getLast? e))
  · rw [e_heads, w_heads]
    by_cases ha : pt.allocated = true
    · simp only [ha, if_true]
      have ha' : t.allocated = true := by rw [← hr.alloc]; exact ha
      have hch := hr.chains ha' c
      have hf := GSeg_first some CellRef.nextOf hch
      rw [hf]
      cases hd : t.data c with
      | nil => simp [headP]
      | cons x r =>
        simp only [headP, ne_eq, Option.some.injEq]
        intro e
        have : x ∈ t.data c := by rw [hd]; exact List.mem_cons_self
        exact a_order (e ▸ ((hi.chain_iff ha' c x).1 this).1)
    · simp [ha]
/-- in a represented table a live item is not its own predecessor -/
theorem Rel.prev_ne_self {h : Nat → Nat} {pt : PTable} {t : Table} (hr : Rel pt t) (hi : t.Inv h) (id : Nat)
    (hm : id ∈ t.order) : (pt.items id).prev ≠ some id := by
  obtain ⟨l1, l2, ho⟩ := List.append_of_mem hm
  have hon : (l1 ++ id :: l2).Nodup := ho ▸ hi.order_nodup
  have hon' := List.nodup_append.1 hon
  have hid_l1 : id ∉ l1 := fun e => hon'.2.2 id e id List.mem_cons_self rfl
  have hdll := hr.order
  rw [ho] at hdll
  have hdll' := (GSeg_append Nxt.item some l1 (id :: l2) _ _ _).1 hdll
  have hP : (pt.items id).prev = lastB some none l1 := by
    have := hdll'.2; simp only [headP, GSeg] at this; exact this.2.1
  rw [hP]
  intro e
  rw [lastB_some_eq_some] at e
  exact hid_l1 (List.mem_of_getLast? e)

theorem linkChain_prevOf (kind : Kind) (T : PTable) (item c k v : Nat) (pos : Nxt) :
    (T.linkChain kind item c k v).prevOf pos = T.prevOf pos := by
  unfold PTable.linkChain
  cases pos with
  | stl o => cases hh : T.heads c <;> simp [PTable.prevOf, PTable.setCell, hh]
  | item j =>
    cases hh : T.heads c with
    | none => by_cases e : j = item <;> simp [PTable.prevOf, PTable.setCell, hh, upd, e]
    | some n => by_cases e : j = item <;> by_cases e2 : j = n <;> by_cases e3 : item = n <;> simp_all [PTable.prevOf, PTable.setCell, upd]

/-- in a represented table the `next` of the last item is the own sentinel -/
theorem Rel.last_next {pt : PTable} {t : Table} (hr : Rel pt t) (l : Nat) (he : pt.endPrev = some l) :
    (pt.items l).next = .stl pt.self := by
  have h1 := hr.endPrev_eq
  rw [he] at h1
  obtain ⟨l1, ho⟩ := List.getLast?_eq_some_iff.1 h1.symm
  have hdll := hr.order
  rw [ho] at hdll
  have hs := ((GSeg_append Nxt.item some l1 [l] _ _ _).1 hdll).2
  simp only [headP, GSeg] at hs
  exact hs.2.2

/-- … hence `a.swap(a)` (both halves of `swap` on one object) leaves a represented table as it is -/
theorem Rel.swapSelf_eq {pt : PTable} {t : Table} (hr : Rel pt t) : pt.swapSelf = pt := by
  have key : ∀ a : PTable, a.self = pt.self → a.endPrev = pt.endPrev → a.items = pt.items → a.begin = pt.begin →
      PTable.adopt pt.self a = a := by
    intro a hs he hi hb
    unfold PTable.adopt
    cases hep : a.endPrev with
    | none =>
      have hb' : pt.begin = .stl pt.self := by
        have h1 := hr.endPrev_eq
        rw [← he, hep] at h1
        have ho : t.order = [] := by
          cases hto : t.order with
          | nil => rfl
          | cons x r =>
            rw [hto] at h1
            have := List.getLast?_isSome.2 (List.cons_ne_nil x r)
            rw [← h1] at this; simp at this
        rw [hr.begin_eq, ho]; rfl
      cases a
      simp_all
    | some l =>
      have hn : (a.items l).next = .stl pt.self := by rw [hi]; exact hr.last_next l (by rw [← he]; exact hep)
      have hu : upd a.items l { a.items l with next := .stl pt.self } = a.items := by
        funext j
        by_cases e : j = l
        · subst e
          simp only [upd_same]
          rw [← hn]
        · simp [upd, e]
      cases a
      simp_all
  unfold PTable.swapSelf
  rw [key pt rfl rfl rfl rfl, key pt rfl rfl rfl rfl]
theorem setNext_setPrevOf_comm (t : PTable) (x : Nxt) (v : Option Nat) (p : Nat) (n : Nxt) :
    (t.setPrevOf x v).setNext p n = (t.setNext p n).setPrevOf x v := by
  cases x with
  | stl o => rfl
  | item j =>
    simp only [PTable.setPrevOf, PTable.setPrev, PTable.setNext]
    congr 1
    funext y
    by_cases e1 : j = p <;> by_cases e2 : y = j <;> by_cases e3 : y = p <;> simp_all [upd]

theorem setPrevOf_begin (t : PTable) (x : Nxt) (v : Option Nat) (b : Nxt) :
    ({ t.setPrevOf x v with begin := b } : PTable) = ({ t with begin := b } : PTable).setPrevOf x v := by
  cases x <;> rfl

/-- what `remove(iterator)` returns: the `next` of the released item is still the one it had -/
theorem removeItem_snd (t : PTable) (item : Nat) (hc : (t.items item).cell ≠ .nextOf item) (hp : (t.items item).prev ≠ some item) :
    (t.removeItem item).2 = (t.items item).next := by
  unfold PTable.removeItem PTable.unlinkChain PTable.unlinkOrder
  rcases hnc : (t.items item).nextCell with _ | n <;> rcases hpv : (t.items item).prev with _ | p
  all_goals
    simp only [hnc, hpv, writeCell_items_ne t _ _ item hc, setCell_prev, setCell_next, writeCell_prev, writeCell_next,
      setPrev_next, setPrevOf_next]
  all_goals
    first
    | rfl
    | (have hpi : item ≠ p := fun e => hp (by rw [hpv, e])
       simp only [setNext_next_ne _ _ _ _ hpi, setCell_next, writeCell_next, setPrev_next, setPrevOf_next])

end Nstd.Hash.Ptr
