import Nstd.Hash.PtrLinkOrder
/-
  Simulation of `insert` (find-then-link).
-/
namespace Nstd.Hash.Ptr
open Nstd.Hash

theorem Rel.linkNew {h : Nat → Nat} {pt : PTable} {t : Table} (hr : Rel pt t) (hi : t.Inv h) (kind : Kind)
    (p k v : Nat) (hp : p ≤ t.order.length) :
    (pt.linkNew kind h (nxtAt pt.self t.order p) k v).2 = (t.linkNew kind h p k v).2 ∧
    Rel (pt.linkNew kind h (nxtAt pt.self t.order p) k v).1 (t.linkNew kind h p k v).1 ∧
    (pt.linkNew kind h (nxtAt pt.self t.order p) k v).1.self = pt.self := by
  obtain ⟨a_order, a_free, a_nodup, a_all, a_lt, a_olt⟩ := hi.alloc kind
  -- the (possibly fresh) bucket arrays
  let t0 : PTable := if pt.allocated then pt else { pt with allocated := true, heads := fun _ => none }
  let d : Nat → List Nat := if t.allocated then t.data else fun _ => []
  have ht0 : (t0.items = pt.items ∧ t0.freeItem = pt.freeItem ∧ t0.blocks = pt.blocks ∧ t0.self = pt.self ∧
      t0.cap = pt.cap ∧ t0.begin = pt.begin ∧ t0.endPrev = pt.endPrev ∧ t0.size = pt.size ∧ t0.allocated = true ∧
      t0.ipb = pt.ipb ∧ t0.dcap = pt.dcap) := by
    by_cases ha : pt.allocated = true <;> simp [t0, ha]
  have hch0 : ∀ b, Chain t0.items b (t0.heads b) (d b) := by
    intro b
    by_cases ha : t.allocated = true
    · have ha' : pt.allocated = true := by rw [hr.alloc]; exact ha
      simp only [t0, d, ha, ha', if_true]
      exact hr.chains ha b
    · have ha' : ¬ pt.allocated = true := by rw [hr.alloc]; exact ha
      simp [t0, d, ha, ha', Chain, GSeg]
  have hd_iff : ∀ b j, j ∈ d b ↔ (j ∈ t.order ∧ (t.items j).cell = b) := by
    intro b j
    by_cases ha : t.allocated = true
    · simp only [d, ha, if_true]; exact hi.chain_iff ha b j
    · have ha' : t.allocated = false := by simpa using ha
      simp [d, ha', hi.unalloc ha']
  have hd_nodup : ∀ b, (d b).Nodup := by
    intro b
    by_cases ha : t.allocated = true
    · simp only [d, ha, if_true]; exact hi.chain_nodup ha b
    · simp [d, ha]
  -- allocation
  obtain ⟨e_id, e_free, e_blocks, e_fields, e_prev, e_self, e_cap, e_alloc, e_heads, e_begin, e_endPrev, e_size, e_ipb, e_dcap⟩ :=
    alloc_sim kind t0 t (by rw [ht0.1, ht0.2.1]; exact hr.free) (by rw [ht0.2.2.1]; exact hr.blocks)
      (by rw [ht0.2.2.2.2.2.2.2.2.2.1]; exact hr.ipb) hi.ipb_pos
  have hch1 : ∀ b, Chain (t0.allocItem kind).2.items b ((t0.allocItem kind).2.heads b) (d b) := by
    intro b
    rw [e_heads]
    exact (GSeg_congr _ _ _ (fun j _ => ⟨(e_fields j).2.2.2.1, (e_fields j).2.2.1⟩) _ _ _).2 (hch0 b)
  have hcap : (t0.allocItem kind).2.cap = t.cap := by rw [e_cap, ht0.2.2.2.2.1, hr.cap]
  -- chain part
  have hid_d : ∀ b, (t.allocItem kind).1 ∉ d b := fun b hm => a_order ((hd_iff b _).1 hm).1
  obtain ⟨c_ch, c_pn, c_kv, c_key, c_val, c_self, c_cap, c_alloc, c_begin, c_endPrev, c_size, c_free, c_blocks, c_ipb, c_dcap⟩ :=
    linkChain_spec kind (t0.allocItem kind).2 d (t.allocItem kind).1 (h k % t.cap) k v hch1 hid_d hd_nodup
      (fun b b' j hb hb' => by rw [← ((hd_iff b j).1 hb).2, ← ((hd_iff b' j).1 hb').2])
  -- order part
  have hself4 : ((t0.allocItem kind).2.linkChain kind (t.allocItem kind).1 (h k % t.cap) k v).self = pt.self := by
    rw [c_self, e_self, ht0.2.2.2.1]
  have hdll4 : Dll ((t0.allocItem kind).2.linkChain kind (t.allocItem kind).1 (h k % t.cap) k v).items
      ((t0.allocItem kind).2.linkChain kind (t.allocItem kind).1 (h k % t.cap) k v).self
      ((t0.allocItem kind).2.linkChain kind (t.allocItem kind).1 (h k % t.cap) k v).begin
      (t.order.take p ++ t.order.drop p) := by
    rw [List.take_append_drop, hself4, c_begin, e_begin, ht0.2.2.2.2.2.1]
    apply (GSeg_congr _ _ _ _ _ _ _).2 hr.order
    intro j hj
    rw [(c_pn j).1, (c_pn j).2, (e_fields j).2.2.2.2, e_prev j (hi.order_lt j hj), ht0.1]
    exact ⟨rfl, rfl⟩
  have hlast4 : ((t0.allocItem kind).2.linkChain kind (t.allocItem kind).1 (h k % t.cap) k v).endPrev
      = lastB some none (t.order.take p ++ t.order.drop p) := by
    rw [List.take_append_drop, c_endPrev, e_endPrev, ht0.2.2.2.2.2.2.1]; exact hr.last
  obtain ⟨o_dll, o_last, o_prev⟩ := linkOrder_split _ (t.order.take p) (t.order.drop p) (t.allocItem kind).1 hdll4 hlast4
    (by rw [List.take_append_drop]; exact hi.order_nodup) (by rw [List.take_append_drop]; exact a_order)
  obtain ⟨_, _, _, _, _, _, _, _, o_fields, o_size, o_self, o_cap, o_alloc, o_heads, o_free, o_blocks, o_ipb, o_dcap⟩ :=
    linkOrder_fields ((t0.allocItem kind).2.linkChain kind (t.allocItem kind).1 (h k % t.cap) k v) (t.allocItem kind).1
      (headP Nxt.item (t.order.drop p) (.stl ((t0.allocItem kind).2.linkChain kind (t.allocItem kind).1 (h k % t.cap) k v).self))
      (by
        cases hdr : t.order.drop p with
        | nil => simp [headP]
        | cons x r =>
          simp only [headP, ne_eq, Nxt.item.injEq]
          exact fun e => a_order (List.mem_of_mem_drop (by rw [hdr, e]; exact List.mem_cons_self)))
      (by
        intro e
        have hsplit := (GSeg_append Nxt.item some _ _ none _ _).1 hdll4
        cases hdr : t.order.drop p with
        | nil =>
          rw [hdr] at e hlast4
          simp only [headP, PTable.prevOf, List.append_nil] at e hlast4
          rw [hlast4, lastB_some_eq_some] at e
          exact a_order (List.mem_of_mem_take (List.mem_of_getLast? e))
        | cons x r =>
          rw [hdr] at e hsplit
          simp only [headP, PTable.prevOf, GSeg] at e hsplit
          rw [hsplit.2.2.1, lastB_some_eq_some] at e
          exact a_order (List.mem_of_mem_take (List.mem_of_getLast? e)))
  -- assemble
  have hunf : pt.linkNew kind h (nxtAt pt.self t.order p) k v =
      (((t0.allocItem kind).2.linkChain kind (t0.allocItem kind).1 (h k % (t0.allocItem kind).2.cap) k v).linkOrder
        (t0.allocItem kind).1 (nxtAt pt.self t.order p), (t0.allocItem kind).1) := rfl
  have hpos : nxtAt pt.self t.order p = headP Nxt.item (t.order.drop p)
      (.stl ((t0.allocItem kind).2.linkChain kind (t.allocItem kind).1 (h k % t.cap) k v).self) := by
    rw [nxtAt_eq, hself4]
  rw [hunf, e_id, hcap, hpos]
  refine ⟨rfl, ?_, by show _ = pt.self; rw [o_self, hself4]⟩
  show Rel _ (t.linkNew kind h p k v).1
  constructor
  · show _ = t.cap; rw [o_cap, c_cap, hcap]
  · show _ = true; rw [o_alloc, c_alloc, e_alloc, ht0.2.2.2.2.2.2.2.2.1]
  · show _ = t.size + 1; rw [o_size, c_size, e_size, ht0.2.2.2.2.2.2.2.1, hr.size]
  · show _ = (t.allocItem kind).2.2; rw [o_blocks, c_blocks, e_blocks]
  · show _ = t.ipb; rw [o_ipb, c_ipb, e_ipb, ht0.2.2.2.2.2.2.2.2.2.1, hr.ipb]
  · show _ = t.dcap; rw [o_dcap, c_dcap, e_dcap, ht0.2.2.2.2.2.2.2.2.2.2, hr.dcap]
  · intro j
    show _ = (upd t.items (t.allocItem kind).1 ⟨k, Table.storedValue kind v, h k % t.cap⟩ j).key ∧
         _ = (upd t.items (t.allocItem kind).1 ⟨k, Table.storedValue kind v, h k % t.cap⟩ j).value
    rw [(o_fields j).1, (o_fields j).2.1]
    by_cases e : j = (t.allocItem kind).1
    · subst e; simp [upd_apply, c_key, c_val]
    · rw [(c_kv j e).1, (c_kv j e).2, (e_fields j).1, (e_fields j).2.1, ht0.1]
      simp [upd_apply, e, hr.kv j]
  · intro _ b
    show Chain _ b _ (upd d (h k % t.cap) ((t.allocItem kind).1 :: d (h k % t.cap)) b)
    rw [o_heads]
    exact (GSeg_congr _ _ _ (fun j _ => ⟨(o_fields j).2.2.2, (o_fields j).2.2.1⟩) _ _ _).2 (c_ch b)
  · show Dll _ _ _ (insertAt p (t.allocItem kind).1 t.order)
    rw [o_self]
    exact o_dll
  · exact o_last
  · show FreeL _ _ (t.allocItem kind).2.1
    rw [o_free, c_free]
    apply (FreeL_congr _ _ _).2 e_free
    intro j hj
    rw [o_prev j (by rw [List.take_append_drop]; exact (a_all j hj).1) (fun e => a_free (e ▸ hj)), (c_pn j).1]

theorem Rel.insert {h : Nat → Nat} {pt : PTable} {t : Table} (hr : Rel pt t) (hi : t.Inv h) (kind : Kind)
    (p k v : Nat) (hp : p ≤ t.order.length) :
    ∃ r, pt.insert kind h (nxtAt pt.self t.order p) k v = some r ∧ r.2 = (t.insert kind h p k v).2 ∧
      Rel r.1 (t.insert kind h p k v).1 ∧ r.1.self = pt.self := by
  unfold PTable.insert Table.insert
  rw [hr.find hi k]
  cases hf : t.find h k with
  | none =>
    have := hr.linkNew hi kind p k v hp
    exact ⟨_, rfl, this.1, this.2.1, this.2.2⟩
  | some id =>
    refine ⟨_, rfl, rfl, ?_, ?_⟩
    · by_cases hk : kind = Kind.map
      · simp only [hk, if_true]; exact hr.set_value id v
      · simp only [hk, if_false]; exact hr
    · by_cases hk : kind = Kind.map <;> simp [hk]

end Nstd.Hash.Ptr
