import Nstd.Hash.PtrClear
/-
  Simulation of the loops over another table (copy / assignment / bulk append / bulk remove),
  of `remove(key)`, `setValue` and `operator==`.
-/
namespace Nstd.Hash.Ptr
open Nstd.Hash

theorem nxtAt_length (self : Bool) (l : List Nat) : nxtAt self l l.length = .stl self := by
  unfold nxtAt
  simp

theorem Rel.removeKey {h : Nat → Nat} {pt : PTable} {t : Table} (hr : Rel pt t) (hi : t.Inv h) (k : Nat) :
    ∃ pt', pt.removeKey h k = some pt' ∧ Rel pt' (t.removeKey h k) ∧ pt'.self = pt.self := by
  unfold PTable.removeKey Table.removeKey
  rw [hr.find hi k]
  cases hf : t.find h k with
  | none => exact ⟨pt, rfl, hr, rfl⟩
  | some id =>
    have hm := ((hi.find_some_iff k id).1 hf).1
    have := hr.removeItem hi id hm
    exact ⟨_, rfl, this.1, this.2.1⟩

theorem Rel.setValue {h : Nat → Nat} {pt : PTable} {t : Table} (hr : Rel pt t) (hi : t.Inv h) (k v : Nat) :
    ∃ pt', pt.setValue h k v = some pt' ∧ Rel pt' (t.setValue h k v) ∧ pt'.self = pt.self := by
  unfold PTable.setValue Table.setValue
  rw [hr.find hi k]
  cases hf : t.find h k with
  | none => exact ⟨pt, rfl, hr, rfl⟩
  | some id => exact ⟨_, rfl, hr.set_value id v, rfl⟩

theorem appendLoop_sim (kind : Kind) (h : Nat → Nat) (oself : Bool) (oitems : Nat → PItem) (toitems : Nat → Item)
    (hkv : ∀ j, (oitems j).key = (toitems j).key ∧ (oitems j).value = (toitems j).value) (l : List Nat) :
    ∀ (pt : PTable) (t : Table) (b0 : Option Nat) (first : Nxt) (fuel : Nat),
    GSeg Nxt.item some (fun i => (oitems i).next) (fun i => (oitems i).prev) b0 first l (.stl oself) →
    l.length ≤ fuel → Rel pt t → t.Inv h →
    ∃ pt', PTable.appendLoop kind h oself oitems fuel first pt = some pt' ∧
      Rel pt' (Table.appendAll kind h t toitems l) ∧ pt'.self = pt.self := by
  induction l with
  | nil =>
    intro pt t b0 first fuel hg _ hr _
    simp only [GSeg] at hg
    subst hg
    refine ⟨pt, ?_, hr, rfl⟩
    cases fuel <;> simp [PTable.appendLoop]
  | cons x r ih =>
    intro pt t b0 first fuel hg hfuel hr hi
    simp only [GSeg] at hg
    obtain ⟨h1, _, h3⟩ := hg
    subst h1
    cases fuel with
    | zero => simp at hfuel
    | succ fuel' =>
      obtain ⟨res, e1, e2, e3, e4⟩ := hr.insert hi kind t.order.length (toitems x).key (toitems x).value (Nat.le_refl _)
      rw [nxtAt_length] at e1
      have hinv := (hi.insert kind t.order.length (toitems x).key (toitems x).value (Nat.le_refl _)).1
      obtain ⟨pt', f1, f2, f3⟩ := ih res.1 _ (some x) (oitems x).next fuel' h3 (by simpa using hfuel) e3 hinv
      refine ⟨pt', ?_, f2, by rw [f3, e4]⟩
      simp only [PTable.appendLoop, (hkv x).1, (hkv x).2, e1]
      exact f1

theorem removeLoop_sim (h : Nat → Nat) (oself : Bool) (oitems : Nat → PItem) (toitems : Nat → Item)
    (hkv : ∀ j, (oitems j).key = (toitems j).key ∧ (oitems j).value = (toitems j).value) (l : List Nat) :
    ∀ (pt : PTable) (t : Table) (b0 : Option Nat) (first : Nxt) (fuel : Nat),
    GSeg Nxt.item some (fun i => (oitems i).next) (fun i => (oitems i).prev) b0 first l (.stl oself) →
    l.length ≤ fuel → Rel pt t → t.Inv h →
    ∃ pt', PTable.removeLoop h oself oitems fuel first pt = some pt' ∧
      Rel pt' (Table.removeAll h t toitems l) ∧ pt'.self = pt.self := by
  induction l with
  | nil =>
    intro pt t b0 first fuel hg _ hr _
    simp only [GSeg] at hg
    subst hg
    refine ⟨pt, ?_, hr, rfl⟩
    cases fuel <;> simp [PTable.removeLoop]
  | cons x r ih =>
    intro pt t b0 first fuel hg hfuel hr hi
    simp only [GSeg] at hg
    obtain ⟨h1, _, h3⟩ := hg
    subst h1
    cases fuel with
    | zero => simp at hfuel
    | succ fuel' =>
      obtain ⟨res, e1, e2, e3⟩ := hr.removeKey hi (toitems x).key
      have hinv := (hi.removeKey (toitems x).key).1
      obtain ⟨pt', f1, f2, f3⟩ := ih res _ (some x) (oitems x).next fuel' h3 (by simpa using hfuel) e2 hinv
      refine ⟨pt', ?_, f2, by rw [f3, e3]⟩
      simp only [PTable.removeLoop, (hkv x).1, e1]
      exact f1

theorem Rel.appendAll {h : Nat → Nat} {pt po : PTable} {t o : Table} (hr : Rel pt t) (ho : Rel po o)
    (hi : t.Inv h) (hio : o.Inv h) (kind : Kind) :
    ∃ pt', PTable.appendAll kind h pt po = some pt' ∧ Rel pt' (Table.appendAll kind h t o.items o.order) ∧
      pt'.self = pt.self := by
  unfold PTable.appendAll
  exact appendLoop_sim kind h po.self po.items o.items ho.kv o.order pt t none po.begin po.size ho.order
    (by rw [ho.size, hio.size_eq]; exact Nat.le_refl _) hr hi

theorem Rel.removeAll {h : Nat → Nat} {pt po : PTable} {t o : Table} (hr : Rel pt t) (ho : Rel po o)
    (hi : t.Inv h) (hio : o.Inv h) :
    ∃ pt', PTable.removeAll h pt po = some pt' ∧ Rel pt' (Table.removeAll h t o.items o.order) ∧
      pt'.self = pt.self := by
  unfold PTable.removeAll
  exact removeLoop_sim h po.self po.items o.items ho.kv o.order pt t none po.begin po.size ho.order
    (by rw [ho.size, hio.size_eq]; exact Nat.le_refl _) hr hi

theorem fresh_rel (self : Bool) (cap ipb dcap : Nat) : Rel (PTable.fresh self cap ipb dcap) (Table.fresh cap ipb dcap) := by
  constructor <;> simp [PTable.fresh, Table.fresh, Dll, GSeg, lastB, FreeL]

theorem Rel.copyOf {h : Nat → Nat} {po : PTable} {o : Table} (ho : Rel po o) (hio : o.Inv h) (kind : Kind) (self : Bool) :
    ∃ pt', PTable.copyOf kind h self po = some pt' ∧ Rel pt' (Table.copyOf kind h o) ∧ pt'.self = self := by
  unfold PTable.copyOf Table.copyOf
  rw [ho.ipb, ho.dcap]
  exact (fresh_rel self _ _ _).appendAll ho (fresh_inv h _ _ _ hio.dcap_pos hio.ipb_pos hio.dcap_pos) hio kind

theorem Rel.assignFrom {h : Nat → Nat} {pt po : PTable} {t o : Table} (hr : Rel pt t) (ho : Rel po o)
    (hi : t.Inv h) (hio : o.Inv h) (kind : Kind) :
    ∃ pt', PTable.assignFrom kind h pt po = some pt' ∧ Rel pt' (Table.assignFrom kind h t o) ∧ pt'.self = pt.self := by
  unfold PTable.assignFrom Table.assignFrom
  obtain ⟨pc, e1, e2, e3⟩ := hr.clear hi
  rw [e1]
  obtain ⟨pt', f1, f2, f3⟩ := e2.appendAll ho hi.clear.1 hio kind
  exact ⟨pt', f1, f2, by rw [f3, e3]⟩

/-! ### operator== -/

theorem eqLoop_sim (kind : Kind) (sa sb : Bool) (ia ib : Nat → PItem) (tia tib : Nat → Item)
    (hka : ∀ j, (ia j).key = (tia j).key ∧ (ia j).value = (tia j).value)
    (hkb : ∀ j, (ib j).key = (tib j).key ∧ (ib j).value = (tib j).value) (la : List Nat) :
    ∀ (lb : List Nat) (a0 b0 : Option Nat) (fa fb : Nxt) (fuel : Nat),
    GSeg Nxt.item some (fun i => (ia i).next) (fun i => (ia i).prev) a0 fa la (.stl sa) →
    GSeg Nxt.item some (fun i => (ib i).next) (fun i => (ib i).prev) b0 fb lb (.stl sb) →
    la.length = lb.length → la.length ≤ fuel →
    PTable.eqLoop kind sa ia ib fuel fa fb = Table.eqLoop kind tia tib la lb := by
  induction la with
  | nil =>
    intro lb a0 b0 fa fb fuel hga _ _ _
    simp only [GSeg] at hga
    subst hga
    cases fuel <;> simp [PTable.eqLoop, Table.eqLoop]
  | cons x r ih =>
    intro lb a0 b0 fa fb fuel hga hgb hlen hfuel
    cases lb with
    | nil => simp at hlen
    | cons y s =>
      simp only [GSeg] at hga hgb
      obtain ⟨h1, _, h3⟩ := hga
      obtain ⟨k1, _, k3⟩ := hgb
      subst h1; subst k1
      cases fuel with
      | zero => simp at hfuel
      | succ fuel' =>
        simp only [PTable.eqLoop, Table.eqLoop, (hka x).1, (hka x).2, (hkb y).1, (hkb y).2]
        rw [ih s (some x) (some y) _ _ fuel' h3 k3 (by simpa using hlen) (by simpa using hfuel)]

theorem Rel.equal {h : Nat → Nat} {pt pu : PTable} {t u : Table} (hr : Rel pt t) (hu : Rel pu u)
    (hi : t.Inv h) (hiu : u.Inv h) (kind : Kind) :
    PTable.equal kind pt pu = Table.equal kind t u := by
  unfold PTable.equal Table.equal
  rw [hr.size, hu.size]
  by_cases hs : t.size = u.size
  · simp only [hs, ne_eq, not_true_eq_false, if_false]
    exact eqLoop_sim kind pt.self pu.self pt.items pu.items t.items u.items hr.kv hu.kv t.order u.order none none _ _ _
      hr.order hu.order (by rw [← hi.size_eq, ← hiu.size_eq, hs]) (by rw [← hs, hi.size_eq]; exact Nat.le_refl _)
  · simp [hs]

end Nstd.Hash.Ptr
