import Nstd.Hash.Spec
/-
  What a client of the library does with one HashSet: `Server::Private::_closingClients`, a `HashSet<ClientImpl*>` constructed
  with an explicit bucket count (src/Socket/Server.cpp: `_closingClients(8)`), keyed by object addresses through
  `hash(const void*)`.  Server uses `append(&client)` (a failed read / write queues the client for `onClosed`),
  `remove(&client)` (deleteClient), `isEmpty()`, `front()`, `removeFront()` (the closing loop of `run()`), `clear()`.
  The C14 model (`Nstd/Server/ModelC14.lean`, `St.closing : List Id`, `addClosing`) keeps a plain list: append unless
  present, filter, head / tail.  `closingRun` is that list machine; `Props.lean` proves that the hash set IS that machine.
-/
namespace Nstd.Hash

inductive ClosingOp where
  | add (p : Nat)        -- `_closingClients.append(&client)`
  | del (p : Nat)        -- `_closingClients.remove(&client)`
  | isEmpty
  | front
  | pop                  -- `removeFront()`
  | clear
  deriving Repr

/-- the member of HashSet (table 0 of the two-table machine) each of them is -/
def ClosingOp.toOp : ClosingOp → Op
  | .add p => .append false p 0
  | .del p => .removeKey false p
  | .isEmpty => .isEmpty false
  | .front => .front false
  | .pop => .removeFront false
  | .clear => .clear false

/-- the list the C14 model keeps -/
def closingStep (l : List Nat) : ClosingOp → Option (List Nat × Out)
  | .add p => some (if l.contains p then l else l ++ [p], .unit)
  | .del p => some (l.filter (· ≠ p), .unit)
  | .isEmpty => some (l, .flag l.isEmpty)
  | .front => l.head?.map (fun p => (l, .num p))
  | .pop => if l.isEmpty then none else some (l.tail, .num 0)      -- the returned iterator is the new `begin()`
  | .clear => some ([], .unit)

def closingRun : List Nat → List ClosingOp → Option (List Nat × List Out)
  | l, [] => some (l, [])
  | l, op :: ops =>
    match closingStep l op with
    | none => none
    | some (l', o) =>
      match closingRun l' ops with
      | none => none
      | some (l'', os) => some (l'', o :: os)

end Nstd.Hash
