import Nstd.Hash.Model
/-
  Pointer-level model of HashMap / HashSet / PoolMap: the statements of the C++ members one by one.

    Item   = { key, value, Item** cell, Item* nextCell, Item* prev, Item* next }
    `cell`     : the cell that refers to the item: `&data[b]` or `&other->nextCell`
    `nextCell` : next item of the bucket chain (or null)
    `prev`     : previous item of the order list, null for the first one; ALSO the link of the free list
    `next`     : next item of the order list, `&endItem` of the owning container for the last one
    `_begin.item` (`begin`), `endItem.prev` (`endPrev`), `freeItem`, `data` (`heads`, lazily allocated), `blocks`.

  `self` is the identity of the container object (the address of its `endItem`); `swap` exchanges
  everything but `self` and re-anchors `endItem.prev->next`.  Every table owns its node heap
  (`swap` exchanges the heaps like the code exchanges `blocks`).
  Loops get a fuel argument (`size` iterations suffice; running out of fuel is a fault `none`, as is
  running into a foreign sentinel, stepping `operator==` past the other list, `remove(end())`).

  `Nstd/Hash/PtrRefine*.lean` prove that this model is simulated by the chain-list model of
  `Model.lean` (`Rel`), so the theorems of `Props.lean` transfer.
-/
namespace Nstd.Hash.Ptr
open Nstd.Hash

/-- an `Item*` that is never null: an item or the end sentinel of container object `owner` -/
inductive Nxt where
  | item (id : Nat)
  | stl (owner : Bool)
  deriving DecidableEq, Repr, Inhabited

/-- `Item**` -/
inductive CellRef where
  | bucket (b : Nat)
  | nextOf (id : Nat)
  deriving DecidableEq, Repr, Inhabited

structure PItem where
  key : Nat
  value : Nat
  cell : CellRef
  nextCell : Option Nat
  prev : Option Nat
  next : Nxt
  deriving Repr, Inhabited

structure PTable where
  self : Bool
  cap : Nat
  allocated : Bool
  heads : Nat → Option Nat
  items : Nat → PItem
  begin : Nxt
  endPrev : Option Nat
  size : Nat
  freeItem : Option Nat
  blocks : Nat
  /-- class constants: items per block, capacity of the default / copy constructor (see `Table`) -/
  ipb : Nat
  dcap : Nat

instance : Inhabited PTable := ⟨⟨false, 1, false, fun _ => none, fun _ => default, .stl false, none, 0, none, 0, 1, 1⟩⟩

namespace PTable

def fresh (self : Bool) (cap ipb dcap : Nat) : PTable :=
  { self := self, cap := cap, allocated := false, heads := fun _ => none,
    items := fun _ => ⟨0, 0, .bucket 0, none, none, .stl self⟩,
    begin := .stl self, endPrev := none, size := 0, freeItem := none, blocks := 0, ipb := ipb, dcap := dcap }

def construct (self : Bool) (ipb dcap capacity : Nat) : PTable :=
  fresh self (if capacity = 0 then 1 else capacity) ipb dcap
def constructDefault (self : Bool) (ipb dcap : Nat) : PTable := fresh self dcap ipb dcap

/-- `*cell = v` -/
def writeCell (t : PTable) (c : CellRef) (v : Option Nat) : PTable :=
  match c with
  | .bucket b => { t with heads := upd t.heads b v }
  | .nextOf j => { t with items := upd t.items j { t.items j with nextCell := v } }

def setCell (t : PTable) (id : Nat) (c : CellRef) : PTable :=
  { t with items := upd t.items id { t.items id with cell := c } }
def setPrev (t : PTable) (id : Nat) (p : Option Nat) : PTable :=
  { t with items := upd t.items id { t.items id with prev := p } }
def setNext (t : PTable) (id : Nat) (n : Nxt) : PTable :=
  { t with items := upd t.items id { t.items id with next := n } }

/-- `x->prev = p` where `x` is an item or the own sentinel -/
def setPrevOf (t : PTable) (x : Nxt) (p : Option Nat) : PTable :=
  match x with
  | .item n => t.setPrev n p
  | .stl _ => { t with endPrev := p }

/-- `x->prev` where `x` is an item or the own sentinel -/
def prevOf (t : PTable) (x : Nxt) : Option Nat :=
  match x with
  | .item p => (t.items p).prev
  | .stl _ => t.endPrev

/-- `while(item) { if(item->key == key) return item; item = item->nextCell; }`; outer `none` = out of fuel -/
def walk (items : Nat → PItem) (k : Nat) : Nat → Option Nat → Option (Option Nat)
  | _, none => some none
  | 0, some _ => none
  | f + 1, some id => if (items id).key = k then some (some id) else walk items k f (items id).nextCell

/-- `find`; inner `none` = `end()` -/
def find (h : Nat → Nat) (t : PTable) (k : Nat) : Option (Option Nat) :=
  if t.allocated then walk t.items k t.size (t.heads (h k % t.cap)) else some none

/-- `for(i = first … first+n-1) { i->prev = freeItem; freeItem = i; }` (PoolMap: the same loop with the local `item`) -/
def pushFree : PTable → Nat → Nat → PTable
  | t, _, 0 => t
  | t, first, n + 1 => pushFree { t.setPrev first t.freeItem with freeItem := some first } (first + 1) n

/-- take an item: from the free list, or a new block of `ipb` items (HashMap/HashSet use the first and push the others;
    PoolMap pushes all of them and pops the last: `freeItem = item; … freeItem = item->prev`) -/
def allocItem (kind : Kind) (t : PTable) : Nat × PTable :=
  match t.freeItem with
  | some f => (f, { t with freeItem := (t.items f).prev })
  | none =>
    let b := t.ipb * t.blocks
    if kind = Kind.pool then
      let t1 := t.pushFree b (t.ipb - 1 + 1)
      (b + (t.ipb - 1), { t1 with freeItem := (t1.items (b + (t.ipb - 1))).prev, blocks := t.blocks + 1 })
    else
      let t1 := t.pushFree (b + 1) (t.ipb - 1)
      (b, { t1 with blocks := t.blocks + 1 })

/-- construct the item and push it to the front of the chain of bucket `c`:
    `new(item) Item(key, value); item->cell = cell = &data[c]; if((item->nextCell = *cell)) item->nextCell->cell = &item->nextCell; *cell = item` -/
def linkChain (kind : Kind) (t1 : PTable) (item c k v : Nat) : PTable :=
  let newItem : PItem := { t1.items item with key := k, value := Table.storedValue kind v, cell := .bucket c, nextCell := t1.heads c }
  let t2 : PTable := { t1 with items := upd t1.items item newItem }
  let t3 := match t2.heads c with
    | some n => t2.setCell n (.nextOf item)
    | none => t2
  { t3 with heads := upd t3.heads c (some item) }

/-- link the item into the order list before `pos`:
    `if((item->prev = insertPos->prev)) insertPos->prev->next = item; else _begin.item = item;
     item->next = insertPos; insertPos->prev = item; ++_size` -/
def linkOrder (t4 : PTable) (item : Nat) (pos : Nxt) : PTable :=
  let posPrev := t4.prevOf pos
  let t5 := t4.setPrev item posPrev
  let t6 := match posPrev with
    | some q => t5.setNext q (.item item)
    | none => { t5 with begin := .item item }
  let t7 := t6.setNext item pos
  let t8 := t7.setPrevOf pos (some item)
  { t8 with size := t8.size + 1 }

/-- second half of `insert` -/
def linkNew (kind : Kind) (h : Nat → Nat) (t : PTable) (pos : Nxt) (k v : Nat) : PTable × Nat :=
  -- if(!data) { data = new …; Memory::zero(…) }
  let t0 : PTable := if t.allocated then t else { t with allocated := true, heads := fun _ => none }
  let a := t0.allocItem kind
  ((a.2.linkChain kind a.1 (h k % a.2.cap) k v).linkOrder a.1 pos, a.1)

def insert (kind : Kind) (h : Nat → Nat) (t : PTable) (pos : Nxt) (k v : Nat) : Option (PTable × Nat) :=
  match t.find h k with
  | none => none
  | some (some id) =>
    some (if kind = Kind.map then { t with items := upd t.items id { t.items id with value := v } } else t, id)
  | some none => some (t.linkNew kind h pos k v)

/-- `if((*item->cell = item->nextCell)) item->nextCell->cell = item->cell` -/
def unlinkChain (t : PTable) (item : Nat) : PTable :=
  let it := t.items item
  let t1 := t.writeCell it.cell it.nextCell
  match it.nextCell with
  | some n => t1.setCell n it.cell
  | none => t1

/-- `if(!item->prev) (_begin.item = item->next)->prev = 0; else (item->prev->next = item->next)->prev = item->prev; --_size` -/
def unlinkOrder (t2 : PTable) (item : Nat) : PTable :=
  let it := t2.items item
  let t3 := match it.prev with
    | none => ({ t2 with begin := it.next } : PTable).setPrevOf it.next none
    | some p => (t2.setNext p it.next).setPrevOf it.next (some p)
  { t3 with size := t3.size - 1 }

/-- `remove(iterator)` / PoolMap `remove(const V&)`; also returns `item->next` -/
def removeItem (t : PTable) (item : Nat) : PTable × Nxt :=
  let t4 := (t.unlinkChain item).unlinkOrder item
  -- item->prev = freeItem;  freeItem = item;  return item->next
  let t5 := t4.setPrev item t4.freeItem
  ({ t5 with freeItem := some item }, (t5.items item).next)

def removeKey (h : Nat → Nat) (t : PTable) (k : Nat) : Option PTable :=
  match t.find h k with
  | none => none
  | some (some id) => some (t.removeItem id).1
  | some none => some t

/-- loop of `clear` -/
def clearLoop : Nat → Nxt → PTable → Option PTable
  | _, .stl o, t => if o = t.self then some t else none
  | 0, .item _, _ => none
  | f + 1, .item i, t =>
    -- *i->cell = 0;  i->prev = freeItem;  freeItem = i;  (i = i->next)
    let t1 := t.writeCell (t.items i).cell none
    let t2 := t1.setPrev i t1.freeItem
    let t3 : PTable := { t2 with freeItem := some i }
    clearLoop f (t3.items i).next t3

def clear (t : PTable) : Option PTable :=
  match clearLoop t.size t.begin t with
  | none => none
  | some t' => some { t' with begin := .stl t'.self, endPrev := none, size := 0 }

/-- `for(i = other._begin.item; i != &other.endItem; i = i->next) append(i->key, i->value)` -/
def appendLoop (kind : Kind) (h : Nat → Nat) (oself : Bool) (oitems : Nat → PItem) : Nat → Nxt → PTable → Option PTable
  | _, .stl o, t => if o = oself then some t else none
  | 0, .item _, _ => none
  | f + 1, .item i, t =>
    match t.insert kind h (.stl t.self) (oitems i).key (oitems i).value with
    | none => none
    | some r => appendLoop kind h oself oitems f (oitems i).next r.1

def appendAll (kind : Kind) (h : Nat → Nat) (t other : PTable) : Option PTable :=
  appendLoop kind h other.self other.items other.size other.begin t

def copyOf (kind : Kind) (h : Nat → Nat) (self : Bool) (other : PTable) : Option PTable :=
  appendAll kind h (fresh self other.dcap other.ipb other.dcap) other

def assignFrom (kind : Kind) (h : Nat → Nat) (t other : PTable) : Option PTable :=
  match t.clear with
  | none => none
  | some t' => appendAll kind h t' other

/-- `HashSet::remove(const HashSet&)` -/
def removeLoop (h : Nat → Nat) (oself : Bool) (oitems : Nat → PItem) : Nat → Nxt → PTable → Option PTable
  | _, .stl o, t => if o = oself then some t else none
  | 0, .item _, _ => none
  | f + 1, .item i, t =>
    match t.removeKey h (oitems i).key with
    | none => none
    | some t' => removeLoop h oself oitems f (oitems i).next t'

def removeAll (h : Nat → Nat) (t other : PTable) : Option PTable :=
  removeLoop h other.self other.items other.size other.begin t

def setValue (h : Nat → Nat) (t : PTable) (k v : Nat) : Option PTable :=
  match t.find h k with
  | none => none
  | some (some id) => some { t with items := upd t.items id { t.items id with value := v } }
  | some none => some t

/-- the items from `first` to the own sentinel, following `next` -/
def toList (items : Nat → PItem) (self : Bool) : Nat → Nxt → Option (List Nat)
  | _, .stl o => if o = self then some [] else none
  | 0, .item _ => none
  | f + 1, .item i => (toList items self f (items i).next).map (i :: ·)

def order (t : PTable) : Option (List Nat) := toList t.items t.self t.size t.begin

/-- backward iteration `--it` from `end()`: the items from `last` following `prev` until null -/
def toListBack (items : Nat → PItem) : Nat → Option Nat → Option (List Nat)
  | _, none => some []
  | 0, some _ => none
  | f + 1, some i => (toListBack items f (items i).prev).map (i :: ·)

def orderBack (t : PTable) : Option (List Nat) := toListBack t.items t.size t.endPrev

def isEmpty (t : PTable) : Bool := t.endPrev.isNone

/-- loop of `operator==`: `for(a = _begin.item, b = other._begin.item; a != &endItem; a = a->next, b = b->next)` -/
def eqLoop (kind : Kind) (sa : Bool) (ia ib : Nat → PItem) : Nat → Nxt → Nxt → Option Bool
  | _, .stl o, _ => if o = sa then some true else none
  | 0, .item _, _ => none
  | _ + 1, .item _, .stl _ => none            -- `b->key` would read the other sentinel
  | f + 1, .item a, .item b =>
    if (ia a).key ≠ (ib b).key ∨ (kind = Kind.map ∧ (ia a).value ≠ (ib b).value) then some false
    else eqLoop kind sa ia ib f (ia a).next (ib b).next

def equal (kind : Kind) (t u : PTable) : Option Bool :=
  if t.size ≠ u.size then some false else eqLoop kind t.self t.items u.items t.size t.begin u.begin

/-- `a.swap(b)`: returns the new (a, b) -/
def swap (a b : PTable) : PTable × PTable :=
  -- if((endItem.prev = other.endItem.prev)) { endItem.prev->next = &endItem; _begin.item = other._begin.item; } else _begin.item = &endItem;
  let a' : PTable :=
    match b.endPrev with
    | some l => { b with self := a.self, items := upd b.items l { b.items l with next := .stl a.self } }
    | none => { b with self := a.self, begin := .stl a.self }
  let b' : PTable :=
    match a.endPrev with
    | some l => { a with self := b.self, items := upd a.items l { a.items l with next := .stl b.self } }
    | none => { a with self := b.self, begin := .stl b.self }
  (a', b')

/-- one half of `swap`: the object `self` takes over the list, size, capacity, bucket array, free list and blocks of `src`:
    `if((endItem.prev = src.endItem.prev)) { endItem.prev->next = &endItem; _begin.item = src._begin.item; } else _begin.item = &endItem;
     _size = src._size; …` -/
def adopt (self : Bool) (src : PTable) : PTable :=
  match src.endPrev with
  | some l => { src with self := self, items := upd src.items l { src.items l with next := .stl self } }
  | none => { src with self := self, begin := .stl self }

/-- `a.swap(a)`: both halves of `swap` act on the same object (the saved `tmp…` values are its own) -/
def swapSelf (a : PTable) : PTable := adopt a.self (adopt a.self a)

/-- `HashSet::append(const HashSet& other)` with `other` = `*this`:
    `for(i = _begin.item; i != &endItem; i = i->next) insert(_end, i->key)` – every read (`i->key`, `i->next`) is from the
    table as the previous `insert` left it -/
def appendSelfLoop (kind : Kind) (h : Nat → Nat) : Nat → Nxt → PTable → Option PTable
  | _, .stl o, t => if o = t.self then some t else none
  | 0, .item _, _ => none
  | f + 1, .item i, t =>
    match t.insert kind h (.stl t.self) (t.items i).key (t.items i).value with
    | none => none
    | some r => appendSelfLoop kind h f (r.1.items i).next r.1

def appendSelf (kind : Kind) (h : Nat → Nat) (t : PTable) : Option PTable :=
  appendSelfLoop kind h t.size t.begin t

/-- `HashSet::remove(const HashSet& other)` with `other` = `*this`:
    `for(i = _begin.item; i != &endItem; i = i->next) remove(i->key)` – `i->next` is read from the item AFTER it was
    unlinked and pushed on the free list (`remove` leaves `next` alone) -/
def removeSelfLoop (h : Nat → Nat) : Nat → Nxt → PTable → Option PTable
  | _, .stl o, t => if o = t.self then some t else none
  | 0, .item _, _ => none
  | f + 1, .item i, t =>
    match t.removeKey h (t.items i).key with
    | none => none
    | some t' => removeSelfLoop h f (t'.items i).next t'

def removeSelf (h : Nat → Nat) (t : PTable) : Option PTable :=
  removeSelfLoop h t.size t.begin t

end PTable

structure PState where
  a : PTable
  b : PTable
  deriving Inhabited

def PState.get (s : PState) (t : Bool) : PTable := if t then s.b else s.a
def PState.set (s : PState) (t : Bool) (x : PTable) : PState := if t then { s with b := x } else { s with a := x }

def pinitWith (ipb dcap : Nat) : PState :=
  ⟨PTable.constructDefault false ipb dcap, PTable.constructDefault true ipb dcap⟩

def pinit : PState := pinitWith 4 500

/-- iterator designated by a position of the order list (`l.length` = `end()`) -/
def nxtAt (self : Bool) (l : List Nat) (pos : Nat) : Nxt :=
  match l[pos]? with
  | some id => .item id
  | none => .stl self

/-- position of an iterator -/
def nxtPos (l : List Nat) : Nxt → Nat
  | .item id => posOf id l
  | .stl _ => l.length

def removeAtPos (t : PTable) (pos : Nat) : Option (PTable × Nat) :=
  match t.order with
  | none => none
  | some l =>
    match l[pos]? with
    | none => none
    | some id =>
      let r := t.removeItem id
      match r.1.order with
      | none => none
      | some l' => some (r.1, nxtPos l' r.2)

def shown (kind : Kind) (t : PTable) (id : Nat) : Nat :=
  if kind = Kind.set then (t.items id).key else (t.items id).value

def optSet (s : PState) (t : Bool) (x : Option PTable) (o : Out) : Option (PState × Out) :=
  x.map (fun x => (s.set t x, o))

def pstep (kind : Kind) (h : Nat → Nat) (s : PState) (op : Op) : Option (PState × Out) :=
  if !op.available kind then none else
  match op with
  | .construct t cap => some (s.set t (PTable.construct t (s.get t).ipb (s.get t).dcap cap), .unit)
  | .constructDefault t => some (s.set t (PTable.constructDefault t (s.get t).ipb (s.get t).dcap), .unit)
  | .copyFrom t => optSet s t (PTable.copyOf kind h t (s.get (!t))) .unit
  | .assign t => optSet s t (PTable.assignFrom kind h (s.get t) (s.get (!t))) .unit
  | .append t k v =>
    match (s.get t).insert kind h (.stl (s.get t).self) k v with
    | none => none
    | some r => some (s.set t r.1, if kind = Kind.set then .unit else .num (r.1.items r.2).value)
  | .prepend t k v =>
    match (s.get t).insert kind h (s.get t).begin k v with
    | none => none
    | some r => some (s.set t r.1, if kind = Kind.set then .unit else .num (r.1.items r.2).value)
  | .insert t pos k v =>
    match (s.get t).order with
    | none => none
    | some l =>
      if pos ≤ l.length then
        match (s.get t).insert kind h (nxtAt (s.get t).self l pos) k v with
        | none => none
        | some r =>
          match r.1.order with
          | none => none
          | some l' => some (s.set t r.1, .num (posOf r.2 l'))
      else none
  | .removeKey t k => optSet s t ((s.get t).removeKey h k) .unit
  | .removeAt t pos =>
    match removeAtPos (s.get t) pos with
    | some (t', p) => some (s.set t t', .num p)
    | none => none
  | .removeValue t pos =>
    match removeAtPos (s.get t) pos with
    | some (t', _) => some (s.set t t', .unit)
    | none => none
  | .removeFront t =>
    match removeAtPos (s.get t) 0 with
    | some (t', p) => some (s.set t t', .num p)
    | none => none
  | .removeBack t =>
    -- `remove(_end.item->prev)`
    match (s.get t).endPrev with
    | none => none
    | some last =>
      let r := (s.get t).removeItem last
      match r.1.order with
      | none => none
      | some l' => some (s.set t r.1, .num (nxtPos l' r.2))
  | .clear t => optSet s t (s.get t).clear .unit
  | .swap t =>
    let r := PTable.swap (s.get t) (s.get (!t))
    some ((s.set t r.1).set (!t) r.2, .unit)
  | .appendAll t => optSet s t (PTable.appendAll kind h (s.get t) (s.get (!t))) .unit
  | .removeAll t => optSet s t (PTable.removeAll h (s.get t) (s.get (!t))) .unit
  | .setValue t k v => optSet s t ((s.get t).setValue h k v) .unit
  | .assignSelf _ => some (s, .unit)        -- `if(this == &other) return *this;`
  | .swapSelf t => some (s.set t (s.get t).swapSelf, .unit)
  | .appendSelf t => optSet s t (PTable.appendSelf kind h (s.get t)) .unit
  | .removeSelf t => optSet s t (PTable.removeSelf h (s.get t)) .unit
  | .find t k =>
    match (s.get t).find h k, (s.get t).order with
    | some r, some l => some (s, .onum (r.map (fun id => posOf id l)))
    | _, _ => none
  | .contains t k =>
    match (s.get t).find h k with
    | some r => some (s, .flag r.isSome)
    | none => none
  | .size t => some (s, .num (s.get t).size)
  | .isEmpty t => some (s, .flag (s.get t).isEmpty)
  | .iterate t =>
    match (s.get t).order with
    | some l => some (s, .entries (l.map (fun id => (((s.get t).items id).key, ((s.get t).items id).value))))
    | none => none
  | .front t =>
    match (s.get t).begin with
    | .item id => some (s, .num (shown kind (s.get t) id))
    | .stl _ => none
  | .back t =>
    match (s.get t).endPrev with
    | some id => some (s, .num (shown kind (s.get t) id))
    | none => none
  | .equal t u =>
    match PTable.equal kind (s.get t) (s.get u) with
    | some b => some (s, .flag b)
    | none => none
  | .notEqual t u =>
    match PTable.equal kind (s.get t) (s.get u) with
    | some b => some (s, .flag (!b))
    | none => none
  | .iterBack t =>
    -- `for(it = end(); it != begin();) { --it; … }`: along `prev` from `endItem.prev` until null
    match (s.get t).orderBack with
    | some l => some (s, .entries (l.map (fun id => (((s.get t).items id).key, ((s.get t).items id).value))))
    | none => none
  | .entryAt t pos =>
    match (s.get t).order with
    | none => none
    | some l =>
      match l[pos]? with
      | some id => some (s, .entries [(((s.get t).items id).key, ((s.get t).items id).value)])
      | none => none

def prun (kind : Kind) (h : Nat → Nat) : PState → List Op → Option (PState × List Out)
  | s, [] => some (s, [])
  | s, op :: ops =>
    match pstep kind h s op with
    | none => none
    | some (s', o) =>
      match prun kind h s' ops with
      | none => none
      | some (s'', os) => some (s'', o :: os)

end Nstd.Hash.Ptr
