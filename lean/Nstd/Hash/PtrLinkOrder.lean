import Nstd.Hash.PtrLink
/-
  Linking a new item into the order list before a position.
-/
namespace Nstd.Hash.Ptr
open Nstd.Hash

theorem lastB_nonempty {B : Type} (bk : Nat → B) (b0 b0' : B) (l : List Nat) (h : l ≠ []) :
    lastB bk b0 l = lastB bk b0' l := by
  cases l with
  | nil => exact absurd rfl h
  | cons x r => rfl

theorem lastB_concat {B : Type} (bk : Nat → B) (b0 : B) (l : List Nat) (q : Nat) :
    lastB bk b0 (l ++ [q]) = bk q := by
  rw [lastB_append]; rfl

theorem nxtAt_eq (self : Bool) (l : List Nat) (p : Nat) :
    nxtAt self l p = headP Nxt.item (l.drop p) (.stl self) := by
  unfold nxtAt
  rw [← List.head?_drop]
  cases l.drop p <;> rfl

theorem linkOrder_fields (p4 : PTable) (id : Nat) (pos : Nxt) (hpos : pos ≠ .item id) (hq : p4.prevOf pos ≠ some id) :
    ((p4.linkOrder id pos).items id).next = pos ∧ ((p4.linkOrder id pos).items id).prev = p4.prevOf pos ∧
    (∀ j, j ≠ id → pos ≠ .item j → ((p4.linkOrder id pos).items j).prev = (p4.items j).prev) ∧
    (∀ x, pos = .item x → ((p4.linkOrder id pos).items x).prev = some id) ∧
    (∀ j, j ≠ id → p4.prevOf pos ≠ some j → ((p4.linkOrder id pos).items j).next = (p4.items j).next) ∧
    (∀ q, p4.prevOf pos = some q → ((p4.linkOrder id pos).items q).next = .item id) ∧
    (p4.linkOrder id pos).begin = (if p4.prevOf pos = none then .item id else p4.begin) ∧
    (p4.linkOrder id pos).endPrev = (match pos with | .item _ => p4.endPrev | .stl _ => some id) ∧
    (∀ j, ((p4.linkOrder id pos).items j).key = (p4.items j).key ∧ ((p4.linkOrder id pos).items j).value = (p4.items j).value ∧
          ((p4.linkOrder id pos).items j).cell = (p4.items j).cell ∧ ((p4.linkOrder id pos).items j).nextCell = (p4.items j).nextCell) ∧
    (p4.linkOrder id pos).size = p4.size + 1 ∧ (p4.linkOrder id pos).self = p4.self ∧
    (p4.linkOrder id pos).cap = p4.cap ∧ (p4.linkOrder id pos).allocated = p4.allocated ∧
    (p4.linkOrder id pos).heads = p4.heads ∧ (p4.linkOrder id pos).freeItem = p4.freeItem ∧
    (p4.linkOrder id pos).blocks = p4.blocks ∧ (p4.linkOrder id pos).ipb = p4.ipb ∧
    (p4.linkOrder id pos).dcap = p4.dcap := by
  unfold PTable.linkOrder
  cases hP : p4.prevOf pos with
  | none =>
    cases pos with
    | item x =>
      have hx : x ≠ id := fun e => hpos (by rw [e])
      have hx' : id ≠ x := Ne.symm hx
      simp only [PTable.setPrev, PTable.setNext, PTable.setPrevOf, upd_apply, hx, hx', if_false, if_true]
      refine ⟨trivial, trivial, ?_, ?_, ?_, ?_, ?_⟩ <;> grind
    | stl o =>
      simp only [PTable.setPrev, PTable.setNext, PTable.setPrevOf, upd_apply, if_false, if_true]
      refine ⟨trivial, trivial, ?_, ?_, ?_, ?_, ?_⟩ <;> grind
  | some q =>
    have hqid : q ≠ id := fun e => hq (by rw [hP, e])
    have hqid' : id ≠ q := Ne.symm hqid
    cases pos with
    | item x =>
      have hx : x ≠ id := fun e => hpos (by rw [e])
      have hx' : id ≠ x := Ne.symm hx
      simp only [PTable.setPrev, PTable.setNext, PTable.setPrevOf, upd_apply, hx, hx', hqid, hqid', if_false, if_true]
      refine ⟨trivial, trivial, ?_, ?_, ?_, ?_, ?_⟩ <;> grind
    | stl o =>
      simp only [PTable.setPrev, PTable.setNext, PTable.setPrevOf, upd_apply, hqid, hqid', if_false, if_true]
      refine ⟨trivial, trivial, ?_, ?_, ?_, ?_, ?_⟩ <;> grind

theorem lastB_some_eq_none (l : List Nat) : lastB some none l = none ↔ l = [] := by
  rw [lastB_some]
  cases h : l.getLast? with
  | none => simp [List.getLast?_eq_none_iff.1 h]
  | some x =>
    simp only [reduceCtorEq, false_iff]
    intro e; rw [e] at h; simp at h

theorem lastB_some_eq_some (l : List Nat) (q : Nat) : lastB some none l = some q ↔ l.getLast? = some q := by
  rw [lastB_some]
  cases l.getLast? <;> simp

theorem linkOrder_split (p4 : PTable) (l1 l2 : List Nat) (id : Nat)
    (hd : Dll p4.items p4.self p4.begin (l1 ++ l2)) (hl : p4.endPrev = lastB some none (l1 ++ l2))
    (hn : (l1 ++ l2).Nodup) (hid : id ∉ l1 ++ l2) :
    Dll (p4.linkOrder id (headP Nxt.item l2 (.stl p4.self))).items p4.self
        (p4.linkOrder id (headP Nxt.item l2 (.stl p4.self))).begin (l1 ++ id :: l2) ∧
    (p4.linkOrder id (headP Nxt.item l2 (.stl p4.self))).endPrev = lastB some none (l1 ++ id :: l2) ∧
    (∀ j, j ∉ l1 ++ l2 → j ≠ id →
          ((p4.linkOrder id (headP Nxt.item l2 (.stl p4.self))).items j).prev = (p4.items j).prev) := by
  have hsplit := (GSeg_append Nxt.item some l1 l2 none p4.begin (.stl p4.self)).1 hd
  have hn' := List.nodup_append.1 hn
  have hid1 : id ∉ l1 := fun e => hid (List.mem_append.2 (Or.inl e))
  have hid2 : id ∉ l2 := fun e => hid (List.mem_append.2 (Or.inr e))
  -- the value of `insertPos->prev`
  have hposPrev : p4.prevOf (headP Nxt.item l2 (.stl p4.self)) = lastB some none l1 := by
    cases l2 with
    | nil => simp [headP, hl, PTable.prevOf]
    | cons x r => have := hsplit.2; simp only [headP, GSeg, PTable.prevOf] at this ⊢; exact this.2.1
  have hpos : headP Nxt.item l2 (.stl p4.self) ≠ .item id := by
    cases l2 with
    | nil => simp [headP]
    | cons x r => simp only [headP, ne_eq, Nxt.item.injEq]; exact fun e => hid2 (e ▸ List.mem_cons_self)
  have hq : p4.prevOf (headP Nxt.item l2 (.stl p4.self)) ≠ some id := by
    rw [hposPrev, ne_eq, lastB_some_eq_some]
    exact fun e => hid1 (List.mem_of_getLast? e)
  obtain ⟨f1, f2, f3, f4, f5, f6, f7, f8, _⟩ := linkOrder_fields p4 id _ hpos hq
  rw [hposPrev] at f2 f5 f6 f7
  generalize p4.linkOrder id (headP Nxt.item l2 (.stl p4.self)) = P at f1 f2 f3 f4 f5 f6 f7 f8 ⊢
  refine ⟨?_, ?_, ?_⟩
  · have := GSeg_insert Nxt.item some (fwd := fun i => (p4.items i).next) (back := fun i => (p4.items i).prev)
      (fwd' := fun i => (P.items i).next) (back' := fun i => (P.items i).prev)
      l1 l2 id hn none p4.begin (.stl p4.self) hd ⟨f1, f2⟩
      (by
        intro j hj
        have hj1 : j ≠ id := fun e => hid1 (e ▸ hj)
        refine ⟨fun hne => f5 j hj1 (by rw [ne_eq, lastB_some_eq_some]; exact hne), f3 j hj1 ?_⟩
        cases l2 with
        | nil => simp [headP]
        | cons x r =>
          simp only [headP, ne_eq, Nxt.item.injEq]
          exact fun e => hn'.2.2 j hj x List.mem_cons_self e.symm)
      (by intro x hx; exact f6 x ((lastB_some_eq_some l1 x).2 hx))
      (by
        intro j hj
        have hj1 : j ≠ id := fun e => hid2 (e ▸ hj)
        refine ⟨f5 j hj1 ?_, fun hne => f3 j hj1 ?_⟩
        · rw [ne_eq, lastB_some_eq_some]
          exact fun e => hn'.2.2 j (List.mem_of_getLast? e) j hj rfl
        · cases l2 with
          | nil => simp [headP]
          | cons x r =>
            simp only [headP, ne_eq, Nxt.item.injEq]
            exact fun e => hne (by simp [e]))
      (by
        intro x hx
        apply f4 x
        cases l2 with
        | nil => simp at hx
        | cons y r => simp only [List.head?_cons, Option.some.injEq] at hx; simp [headP, hx])
    unfold Dll
    rw [f7]
    have hc : (lastB some none l1 = none) = (l1 = []) := propext (lastB_some_eq_none l1)
    simp only [hc]
    exact this
  · rw [f8, lastB_append]
    cases l2 with
    | nil => simp [headP, lastB]
    | cons x r =>
      simp only [headP]
      rw [hl, lastB_append]
      exact lastB_nonempty some _ (some id) (x :: r) (by simp)
  · intro j hj hj'
    apply f3 j hj'
    cases l2 with
    | nil => simp [headP]
    | cons x r =>
      simp only [headP, ne_eq, Nxt.item.injEq]
      exact fun e => hj (by simp [e])

end Nstd.Hash.Ptr
