import Nstd.Hash.LemmasOps
/-
  Loops over another table (copy, assignment, bulk append/remove), `setValue`, `operator==`.
-/
namespace Nstd.Hash
open Table

theorem iterate_length (t : Table) : t.iterate.length = t.order.length := by
  simp [Table.iterate_eq]

/-! ### appendAll / copy / assignment -/

theorem Table.Inv.appendAll {h : Nat → Nat} {t : Table} (hi : t.Inv h) (kind : Kind)
    (oitems : Nat → Item) (l : List Nat) :
    (Table.appendAll kind h t oitems l).Inv h ∧
    (Table.appendAll kind h t oitems l).iterate
      = Spec.appendAll kind t.iterate (l.map (fun j => ((oitems j).key, (oitems j).value))) := by
  induction l generalizing t with
  | nil => exact ⟨hi, rfl⟩
  | cons x xs ih =>
    simp only [Table.appendAll, List.map_cons, Spec.appendAll, Table.append]
    have := hi.insert kind t.order.length (oitems x).key (oitems x).value (Nat.le_refl _)
    have ih' := ih this.1
    rw [this.2.1] at ih'
    rw [iterate_length]
    exact ih'

theorem lookup_none_of_not_mem (k : Nat) (l : Spec.Tab) (hk : k ∉ Spec.keys l) : Spec.lookup k l = none := by
  induction l with
  | nil => rfl
  | cons e es ih =>
    simp only [Spec.keys, List.map_cons, List.mem_cons, not_or] at hk
    have : e.1 ≠ k := fun e' => hk.1 e'.symm
    simp only [Spec.lookup, this, if_false]
    rw [ih hk.2]
    rfl

/-- appending entries with fresh, pairwise different keys appends them as they are stored -/
theorem spec_appendAll_fresh (kind : Kind) (l o : Spec.Tab)
    (hn : (Spec.keys o).Nodup) (hd : ∀ k ∈ Spec.keys o, k ∉ Spec.keys l) :
    Spec.appendAll kind l o = l ++ o.map (Spec.stored kind) := by
  induction o generalizing l with
  | nil => simp [Spec.appendAll]
  | cons e es ih =>
    simp only [Spec.keys, List.map_cons, List.nodup_cons] at hn
    have hk : e.1 ∉ Spec.keys l := hd e.1 (by simp [Spec.keys])
    simp only [Spec.appendAll, Spec.insert, lookup_none_of_not_mem e.1 l hk, insertAt_length]
    rw [ih _ hn.2]
    · simp
    · intro k hk' hmem
      simp only [Spec.keys, List.map_append, List.map_cons, List.map_nil, List.mem_append,
        List.mem_singleton] at hmem
      rcases hmem with hmem | hmem
      · exact hd k (by simp only [Spec.keys, List.map_cons, List.mem_cons]; exact Or.inr hk') hmem
      · simp only [Spec.stored] at hmem
        exact hn.1 (hmem ▸ hk')

theorem Table.Inv.copyOf {h : Nat → Nat} {o : Table} (ho : o.Inv h) (kind : Kind) :
    (Table.copyOf kind h o).Inv h ∧ (Table.copyOf kind h o).iterate = o.iterate.map (Spec.stored kind) := by
  unfold Table.copyOf
  have := (fresh_inv h o.dcap o.ipb o.dcap ho.dcap_pos ho.ipb_pos ho.dcap_pos).appendAll kind o.items o.order
  refine ⟨this.1, ?_⟩
  rw [this.2, fresh_iterate, ← Table.iterate_eq]
  rw [spec_appendAll_fresh kind [] o.iterate (by rw [Table.keys_iterate]; exact ho.keys_nodup) (by simp [Spec.keys])]
  simp

theorem Table.Inv.assignFrom {h : Nat → Nat} {t o : Table} (hi : t.Inv h) (ho : o.Inv h) (kind : Kind) :
    (Table.assignFrom kind h t o).Inv h ∧ (Table.assignFrom kind h t o).iterate = o.iterate.map (Spec.stored kind) := by
  unfold Table.assignFrom
  have := hi.clear.1.appendAll kind o.items o.order
  refine ⟨this.1, ?_⟩
  rw [this.2, hi.clear.2, ← Table.iterate_eq]
  rw [spec_appendAll_fresh kind [] o.iterate (by rw [Table.keys_iterate]; exact ho.keys_nodup) (by simp [Spec.keys])]
  simp

/-! ### removeAll -/

theorem spec_removeAll_cons (l : Spec.Tab) (e : Nat × Nat) (o : Spec.Tab) :
    Spec.removeAll l (e :: o) = Spec.removeAll (Spec.removeKey l e.1) o := by
  simp only [Spec.removeAll, Spec.removeKey, List.filter_filter]
  apply List.filter_congr
  intro x _
  by_cases h1 : x.1 = e.1 <;> by_cases h2 : x.1 ∈ List.map Prod.fst o <;> simp [Spec.keys, h1, h2]

theorem spec_removeAll_nil (l : Spec.Tab) : Spec.removeAll l [] = l := by
  simp [Spec.removeAll, Spec.keys]

theorem Table.Inv.removeAll {h : Nat → Nat} {t : Table} (hi : t.Inv h) (oitems : Nat → Item) (l : List Nat) :
    (Table.removeAll h t oitems l).Inv h ∧
    (Table.removeAll h t oitems l).iterate
      = Spec.removeAll t.iterate (l.map (fun j => ((oitems j).key, (oitems j).value))) := by
  induction l generalizing t with
  | nil => exact ⟨hi, by simp [Table.removeAll, spec_removeAll_nil]⟩
  | cons x xs ih =>
    simp only [Table.removeAll, List.map_cons, spec_removeAll_cons]
    have := hi.removeKey (oitems x).key
    have ih' := ih this.1
    rw [this.2] at ih'
    exact ih'

/-! ### setValue -/

theorem spec_setValue_absent (l : Spec.Tab) (k v : Nat) (hk : k ∉ Spec.keys l) : Spec.setValue l k v = l := by
  unfold Spec.setValue
  conv => rhs; rw [← List.map_id l]
  apply List.map_congr_left
  intro e he
  have : e.1 ≠ k := fun ek => hk (List.mem_map.2 ⟨e, he, ek⟩)
  simp [this]

theorem Table.Inv.setValue {h : Nat → Nat} {t : Table} (hi : t.Inv h) (k v : Nat) :
    (t.setValue h k v).Inv h ∧ (t.setValue h k v).iterate = Spec.setValue t.iterate k v := by
  unfold Table.setValue
  cases hf : t.find h k with
  | none =>
    refine ⟨hi, ?_⟩
    symm
    apply spec_setValue_absent
    rw [hi.mem_keys_iff k, hf]
    simp
  | some id =>
    have hm := (hi.find_some_iff k id).1 hf
    exact ⟨hi.set_value id v, by rw [set_value_iterate hi id v hm.1, hm.2]⟩

/-! ### operator== -/

theorem eqLoop_spec (kind : Kind) (ia ib : Nat → Item) (la lb : List Nat) (hl : la.length = lb.length) :
    eqLoop kind ia ib la lb = some
      (if kind = Kind.map then
        decide (la.map (fun j => ((ia j).key, (ia j).value)) = lb.map (fun j => ((ib j).key, (ib j).value)))
       else decide (la.map (fun j => (ia j).key) = lb.map (fun j => (ib j).key))) := by
  induction la generalizing lb with
  | nil =>
    cases lb with
    | nil => simp [eqLoop]
    | cons y ys => simp at hl
  | cons x xs ih =>
    cases lb with
    | nil => simp at hl
    | cons y ys =>
      have hl' : xs.length = ys.length := by simpa using hl
      simp only [eqLoop, List.map_cons, List.cons.injEq, Prod.mk.injEq]
      rw [ih ys hl']
      by_cases hk : kind = Kind.map
      · simp only [hk, true_and, if_true]
        by_cases h1 : (ia x).key = (ib y).key <;> by_cases h2 : (ia x).value = (ib y).value <;> simp [h1, h2]
      · simp only [hk, false_and, or_false, if_false]
        by_cases h1 : (ia x).key = (ib y).key <;> simp [h1]

theorem Table.Inv.equal {h : Nat → Nat} {t u : Table} (hi : t.Inv h) (hu : u.Inv h) (kind : Kind) :
    Table.equal kind t u = some (Spec.equal kind t.iterate u.iterate) := by
  unfold Table.equal Spec.equal
  by_cases hs : t.size = u.size
  · simp only [hs, ne_eq, not_true_eq_false, if_false]
    rw [eqLoop_spec kind t.items u.items t.order u.order (by rw [← hi.size_eq, ← hu.size_eq, hs])]
    simp only [Table.iterate_eq, Spec.keys, List.map_map, Function.comp_def]
    by_cases hk : kind = Kind.map <;> simp only [hk, if_true, if_false, Option.some.injEq] <;>
      exact decide_eq_decide.2 Iff.rfl
  · simp only [ne_eq, hs, not_false_eq_true, if_true, Option.some.injEq]
    have hlen : t.iterate.length ≠ u.iterate.length := by
      rw [iterate_length, iterate_length, ← hi.size_eq, ← hu.size_eq]; exact hs
    have h1 : t.iterate ≠ u.iterate := fun e => hlen (by rw [e])
    have h2 : Spec.keys t.iterate ≠ Spec.keys u.iterate := by
      intro e
      apply hlen
      have := congrArg List.length e
      simpa [Spec.keys] using this
    by_cases hk : kind = Kind.map <;> simp [hk, h1, h2]

end Nstd.Hash
