import Nstd.Server.MoreC14
/-
  C14 — the registration of a client is always `clientFlags suspended backlog`
  (read unless suspended, write iff backlog): invariant `InvF` along all histories.
-/
namespace Nstd.Server.C14
open Nstd.Server.C13 (Outcome SendRes sendOS)

def InvF (s : St) : Prop :=
  ∀ i c reg, s.clients i = some c → lookup s.sockets i = some reg → reg.a = false → reg.c = false →
    reg = clientFlags c.suspended c.backlog

theorem invF_init : InvF init := by
  intro i c reg hc; simp [init] at hc

theorem pollSet_lookup (s : St) (i : Id) (ev : Flags) :
    (pollSet s i ev).clients = s.clients ∧
    lookup (pollSet s i ev).sockets i = some ev ∧
    (∀ j, j ≠ i → lookup (pollSet s i ev).sockets j = lookup s.sockets j) := by
  unfold pollSet
  cases hold : lookup s.sockets i with
  | none => exact ⟨rfl, lookup_append_self _ _ _ hold, fun j hj => lookup_append_ne _ _ _ _ hj⟩
  | some old =>
    dsimp only
    by_cases he : old = ev
    · simp only [he, if_true]
      refine ⟨?_, ?_, ?_⟩
      · first | rfl | trivial
      · simp [hold, he]
      · simp
    · simp only [he, if_false]
      have hs1 := lookup_setId_self s.sockets i ev old hold
      have hs2 : ∀ j, j ≠ i → lookup (setId s.sockets i ev) j = lookup s.sockets j :=
        fun j hj => lookup_setId_ne _ _ _ _ hj
      repeat' split
      all_goals exact ⟨rfl, hs1, hs2⟩

theorem pollRemove_lookup (s : St) (i : Id) :
    (pollRemove s i).clients = s.clients ∧
    lookup (pollRemove s i).sockets i = none ∧
    (∀ j, j ≠ i → lookup (pollRemove s i).sockets j = lookup s.sockets j) := by
  unfold pollRemove
  cases hold : lookup s.sockets i with
  | none => exact ⟨rfl, hold, fun _ _ => rfl⟩
  | some old => exact ⟨rfl, lookup_eraseId_self _ _, fun j hj => lookup_eraseId_ne _ _ _ hj⟩

/-- `Poll::set(i, ev)` with the flags that fit client `i` (or `i` is not a client) -/
theorem invF_pollSet (s : St) (i : Id) (ev : Flags) (h : InvF s)
    (hc : ∀ c, s.clients i = some c → ev = clientFlags c.suspended c.backlog) : InvF (pollSet s i ev) := by
  obtain ⟨a, b, c⟩ := pollSet_lookup s i ev
  intro j cl reg hcl hl ha hcf
  rw [a] at hcl
  by_cases hji : j = i
  · subst hji; rw [b] at hl; injection hl with hl; subst hl; exact hc cl hcl
  · rw [c j hji] at hl; exact h j cl reg hcl hl ha hcf

/-- registering a socket with an accept / connect flag does not concern `InvF` -/
theorem invF_pollSet_other (s : St) (i : Id) (ev : Flags) (h : InvF s) (hev : ev.a = true ∨ ev.c = true) :
    InvF (pollSet s i ev) := by
  obtain ⟨a, b, c⟩ := pollSet_lookup s i ev
  intro j cl reg hcl hl ha hcf
  rw [a] at hcl
  by_cases hji : j = i
  · subst hji; rw [b] at hl; injection hl with hl; subst hl
    rcases hev with h' | h' <;> simp [h'] at ha hcf
  · rw [c j hji] at hl; exact h j cl reg hcl hl ha hcf

theorem invF_pollRemove (s : St) (i : Id) (h : InvF s) : InvF (pollRemove s i) := by
  obtain ⟨a, b, c⟩ := pollRemove_lookup s i
  intro j cl reg hcl hl ha hcf
  rw [a] at hcl
  by_cases hji : j = i
  · subst hji; rw [b] at hl; simp at hl
  · rw [c j hji] at hl; exact h j cl reg hcl hl ha hcf

/-- replace the record of client `i`, keeping what the registration depends on -/
theorem invF_updClient (s : St) (i : Id) (c c' : ClientS) (h : InvF s) (hc : s.clients i = some c)
    (hf : clientFlags c'.suspended c'.backlog = clientFlags c.suspended c.backlog) :
    InvF { s with clients := upd s.clients i (some c') } := by
  intro j cl reg hcl hl ha hcf
  simp only [upd] at hcl
  by_cases hji : j = i
  · subst hji
    simp only [if_true] at hcl; injection hcl with hcl; subst hcl
    rw [hf]; exact h j c reg hc hl ha hcf
  · simp only [hji, if_false] at hcl; exact h j cl reg hcl hl ha hcf

/-- replace the record of client `i` and re-register it with the matching flags -/
theorem invF_updSet (s : St) (i : Id) (c' : ClientS) (h : InvF s) :
    InvF (pollSet { s with clients := upd s.clients i (some c') } i (clientFlags c'.suspended c'.backlog)) := by
  obtain ⟨a, b, c⟩ := pollSet_lookup { s with clients := upd s.clients i (some c') } i (clientFlags c'.suspended c'.backlog)
  intro j cl reg hcl hl ha hcf
  rw [a] at hcl
  simp only [upd] at hcl
  by_cases hji : j = i
  · subst hji
    simp only [if_true] at hcl; injection hcl with hcl; subst hcl
    rw [b] at hl; injection hl with hl; exact hl.symm
  · simp only [hji, if_false] at hcl
    rw [c j hji] at hl
    exact h j cl reg hcl hl ha hcf

/-- a table change that leaves clients and sockets alone -/
theorem invF_frame (s s' : St) (h : InvF s) (h1 : s'.clients = s.clients) (h2 : s'.sockets = s.sockets) : InvF s' := by
  intro j cl reg hcl hl ha hcf; rw [h1] at hcl; rw [h2] at hl; exact h j cl reg hcl hl ha hcf

theorem invF_deleteClient (s : St) (i : Id) (h : InvF s) : InvF (deleteClient s i) := by
  unfold deleteClient
  dsimp only
  have h1 := invF_pollRemove { s with closing := s.closing.filter (· ≠ i) } i (invF_frame s _ h rfl rfl)
  generalize pollRemove { s with closing := s.closing.filter (· ≠ i) } i = s2 at h1 ⊢
  intro j cl reg hcl hl ha hcf
  simp only [markGone, upd] at hcl hl
  by_cases hji : j = i
  · simp [hji] at hcl
  · simp only [hji, if_false] at hcl; exact h1 j cl reg hcl hl ha hcf

theorem invF_rmClient (s : St) (i : Id) (h : InvF s) : InvF (rmClient s i) := by
  unfold rmClient
  split
  · rename_i c hc
    split
    · exact invF_deleteClient s i h
    · exact invF_frame _ _ (invF_updClient s i c { c with removed := true } h hc rfl) rfl rfl
  · exact h

theorem invF_rmListener (s : St) (i : Id) (h : InvF s) : InvF (rmListener s i) := by
  unfold rmListener
  split
  · dsimp only
    exact invF_frame _ _ (invF_pollRemove s i h) rfl rfl
  · exact h

theorem invF_rmEst (s : St) (i : Id) (h : InvF s) : InvF (rmEst s i) := by
  unfold rmEst
  split
  · dsimp only
    exact invF_frame _ _ (invF_pollRemove s i h) rfl rfl
  · exact h

theorem invF_suspend (s : St) (i : Id) (h : InvF s) : InvF (suspend s i) := by
  unfold suspend
  split
  · split
    · exact h
    · exact invF_updSet s i _ h
  · exact h

theorem invF_resume (s : St) (i : Id) (h : InvF s) : InvF (resume s i) := by
  unfold resume
  split
  · split
    · exact h
    · exact invF_updSet s i _ h
  · exact h

theorem invF_read (s : St) (i : Id) (h : InvF s) : InvF (read s i) := by
  unfold read
  split
  · rename_i c hc
    split
    · exact invF_updClient s i c _ h hc rfl
    · split
      · exact invF_frame s _ h rfl rfl
      · exact h
  · exact h

theorem invF_write (s : St) (i : Id) (n : Nat) (o : Outcome) (h : InvF s) : InvF (write s i n o) := by
  unfold write
  split
  · rename_i c hc
    split
    · split
      · exact invF_frame s _ h rfl rfl
      · exact invF_frame s _ h rfl rfl
      · split
        · exact h
        · exact invF_updSet s i { c with backlog := n } h
      · split
        · exact h
        · rename_i k _ _
          exact invF_updSet s i { c with backlog := n - (k + 1) } h
    · rename_i hb
      apply invF_updClient s i c _ h hc
      simp only [clientFlags]
      have h1 : (c.backlog + n != 0) = true := by simp [bne_iff_ne]; intro h0; exact absurd h0 hb
      have h2 : (c.backlog != 0) = true := by simp [bne_iff_ne]; exact hb
      rw [h1, h2]
  · exact h

theorem invF_mkPair (s : St) (i : Id) (h : InvF s) : InvF (mkPair s i) := by
  unfold mkPair; dsimp only; split
  · exact invF_updSet { s with used := upd s.used i true, order := s.order ++ [i] } i { hasCb := true }
      (invF_frame s _ h rfl rfl)
  · exact h

theorem invF_mkListener (s : St) (i : Id) (h : InvF s) : InvF (mkListener s i) := by
  unfold mkListener; dsimp only; split
  · exact invF_pollSet_other { s with listeners := _, used := _, order := _ } i _ (invF_frame s _ h rfl rfl) (Or.inl rfl)
  · exact h

theorem invF_mkEst (s : St) (i : Id) (h : InvF s) : InvF (mkEst s i) := by
  unfold mkEst; dsimp only; split
  · exact invF_pollSet_other { s with ests := _, used := _, order := _ } i _ (invF_frame s _ h rfl rfl) (Or.inr rfl)
  · exact h

theorem invF_applyAct (s : St) (nc : Option Id) (a : Act) (h : InvF s) : InvF (applyAct s nc a) := by
  cases a <;> simp only [applyAct]
  case mkTimer i iv => unfold mkTimer; dsimp only; split <;> first | exact invF_frame s _ h rfl rfl | exact h
  case rmTimer i => unfold rmTimer; split <;> first | exact invF_frame s _ h rfl rfl | exact h
  case rmClient i => exact invF_rmClient s i h
  case rmListener i => exact invF_rmListener s i h
  case rmEst i => exact invF_rmEst s i h
  case rmNew => cases nc <;> simp only <;> first | exact h | exact invF_rmClient s _ h
  case retNull => exact h
  case interrupt => unfold interrupt; split <;> first | exact h | exact invF_frame s _ h rfl rfl
  case suspend i => exact invF_suspend s i h
  case resume i => exact invF_resume s i h
  case read i => exact invF_read s i h
  case write i n o => exact invF_write s i n o h
  case mkPair i => exact invF_mkPair s i h
  case mkListener i => exact invF_mkListener s i h
  case mkEst i => exact invF_mkEst s i h

theorem invF_runActs (s : St) (nc : Option Id) (acts : List Act) (h : InvF s) : InvF (runActs s nc acts) := by
  induction acts generalizing s with
  | nil => exact h
  | cons a as ih => exact ih _ (invF_applyAct s nc a h)

theorem invF_callback (s : St) (i : Id) (nc : Option Id) (h : InvF s) : InvF (callback s i nc).1 := by
  unfold callback
  exact invF_runActs _ nc _ (invF_frame s _ h rfl rfl)

/-- replace the record of client `i` and drop its registration -/
theorem invF_updRemove (s : St) (i : Id) (c' : ClientS) (h : InvF s) :
    InvF (pollRemove { s with clients := upd s.clients i (some c') } i) := by
  obtain ⟨a, b, c⟩ := pollRemove_lookup { s with clients := upd s.clients i (some c') } i
  intro j cl reg hcl hl ha hcf
  rw [a] at hcl
  simp only [upd] at hcl
  by_cases hji : j = i
  · subst hji; rw [b] at hl; simp at hl
  · simp only [hji, if_false] at hcl
    rw [c j hji] at hl
    exact h j cl reg hcl hl ha hcf

theorem invF_writeReady (s : St) (i : Id) (o : Outcome) (h : InvF s) : InvF (writeReady s i o).1 := by
  unfold writeReady
  split
  · exact invF_frame s _ h rfl rfl
  · rename_i c hc
    dsimp only
    split
    · exact invF_frame s _ h rfl rfl
    · split
      · rename_i hb
        have hb' : c.backlog ≠ 0 := by simpa using hb
        split
        · exact h
        · exact invF_callback _ _ _ (invF_updRemove s i _ h)
        · exact invF_callback _ _ _ (invF_updRemove s i _ h)
        · rename_i k _
          split
          · rename_i hz
            apply invF_callback
            have := invF_updSet s i { c with backlog := c.backlog - (k + 1) } h
            simp only [hz] at this ⊢
            exact this
          · rename_i hz
            apply invF_updClient s i c _ h hc
            simp only [clientFlags]
            have h1 : (c.backlog - (k + 1) != 0) = true := by simp [bne_iff_ne]; exact hz
            have h2 : (c.backlog != 0) = true := by simp [bne_iff_ne]; exact hb'
            rw [h1, h2]
      · rename_i hb
        have hb' : c.backlog = 0 := by simpa using hb
        apply invF_callback
        apply invF_pollSet s i _ h
        intro c2 hc2
        rw [hc] at hc2; injection hc2 with hc2; subst hc2
        rw [hb']

theorem invF_newClient (s : St) (nc : Id) (u : Bool) (h : InvF s) : InvF (newClient s nc u) := by
  unfold newClient
  dsimp only
  have := invF_updSet { s with used := upd s.used nc true, order := s.order ++ [nc], nextAuto := nc + 1 } nc
    { hasCb := false, unix := u } (invF_frame s _ h rfl rfl)
  exact this

theorem invF_finishHandOver (s : St) (nc : Id) (acts : List Act) (h : InvF s) : InvF (finishHandOver s nc acts) := by
  unfold finishHandOver
  split
  · exact invF_frame s _ h rfl rfl
  · rename_i c hc
    split
    · exact invF_deleteClient s nc h
    · exact invF_updClient s nc c _ h hc rfl

theorem invF_dispatch (s : St) (ev : Option (Id × Flags)) (o : Outcome) (h : InvF s) : InvF (dispatch s ev o).1 := by
  unfold dispatch
  split
  · split
    · exact invF_frame s _ h rfl rfl
    · exact h
  · rename_i i fl
    split
    · split
      · exact invF_frame s _ h rfl rfl
      · exact h
    · split
      · split
        · split
          · exact invF_callback _ _ _ h
          · exact invF_frame s _ h rfl rfl
        · exact invF_frame s _ h rfl rfl
      · split
        · exact invF_writeReady s i o h
        · split
          · split
            · exact invF_frame s _ h rfl rfl
            · split
              · exact h
              · dsimp only
                exact invF_finishHandOver _ _ _ (invF_callback _ _ _ (invF_newClient _ _ _ (invF_frame s _ h rfl rfl)))
          · split
            · exact invF_frame s _ h rfl rfl
            · dsimp only
              split
              · exact invF_callback _ _ _ (invF_pollRemove s i h)
              · exact invF_finishHandOver _ _ _ (invF_callback _ _ _ (invF_newClient _ _ _
                  (invF_frame (pollRemove s i) _ (invF_pollRemove s i h) rfl rfl)))

theorem invF_step (s : St) (inp : PollIn) (o : Outcome) (h : InvF s) : InvF (step s inp o).1 := by
  unfold step
  split
  · exact h
  · split
    · exact invF_frame s _ h rfl rfl
    · split
      · split
        · split
          · exact invF_callback _ _ _ (invF_frame s _ h rfl rfl)
          · exact invF_frame s _ h rfl rfl
        · exact invF_frame s _ h rfl rfl
      · exact invF_frame s _ h rfl rfl
  · split
    · split
      · exact invF_frame s _ h rfl rfl
      · exact invF_frame s _ h rfl rfl
    · dsimp only
      split
      · split
        · exact invF_callback _ _ _ (invF_frame s _ h rfl rfl)
        · exact invF_deleteClient _ _ (invF_frame s _ h rfl rfl)
      · exact invF_frame s _ h rfl rfl
  · dsimp only
    obtain ⟨t1, _, _, t4, _⟩ := pollStep_tables s inp
    have h1 : InvF (pollStep s inp).1 := invF_frame s _ h t1 t4
    have h2 := invF_dispatch (pollStep s inp).1 (pollStep s inp).2 o h1
    split
    · exact h2
    · exact invF_frame _ _ h2 rfl rfl

/-- creation of a socket object at a fresh id keeps `InvF` (fresh ids are not clients: `InvU`) -/
theorem invF_move (s : St) (m : Move) (hu : InvU s) (h : InvF s) : InvF (move s m) := by
  have notClient : ∀ i, fresh s i = true → s.clients i = none := by
    intro i hf
    cases hc : s.clients i with
    | none => rfl
    | some c =>
      have := hu.liveUsed i (Or.inr (Or.inl (by rw [hc]; simp)))
      unfold fresh at hf; simp [this] at hf
  cases m <;> simp only [move]
  case act a => exact invF_applyAct s none a h
  case env e =>
    cases e <;> simp only [envStep]
    case peerSend i n =>
      split
      · rename_i c hc
        split
        · exact h
        · exact invF_updClient s i c _ h hc rfl
      · exact h
    case peerClose i =>
      split
      · rename_i c hc
        split
        · exact invF_updClient s i c _ h hc rfl
        · exact h
      · exact h
    case dial i => split <;> first | exact invF_frame s _ h rfl rfl | exact h
    case advance dt => exact invF_frame s _ h rfl rfl
    case connFail i => split <;> first | exact invF_frame s _ h rfl rfl | exact h
  case mkPair i => exact invF_mkPair s i h
  case mkListener i => exact invF_mkListener s i h
  case mkEst i => exact invF_mkEst s i h
  case script i k acts => exact invF_frame s _ h rfl rfl
  case enter => unfold enterRun; split <;> first | exact invF_frame s _ h rfl rfl | exact h
  case intrBegin => split <;> first | exact invF_frame s _ h rfl rfl | exact h
  case intrEnd => split <;> first | exact invF_frame s _ h rfl rfl | exact h
  case step inp o => exact invF_step s inp o h
  case clear =>
    split
    · intro i c reg hc; simp [clearAll] at hc
    · exact h
  case failCreate => exact h

theorem invF_reach (ms : List Move) : InvF (reach ms) := by
  have : ∀ (s : St), Inv s → InvF s → InvF (runMoves s ms) := by
    induction ms with
    | nil => intro s _ h; exact h
    | cons m ms ih => intro s hi h; exact ih _ (inv_move s m hi) (invF_move s m hi.u h)
  exact this init inv_init invF_init

end Nstd.Server.C14
