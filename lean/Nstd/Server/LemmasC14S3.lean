import Nstd.Server.LemmasC14S2
/-
  C14 — `InvS` (with `InvT`) is preserved by every step of run(); in particular the model never
  takes a `fault` branch.
-/
namespace Nstd.Server.C14
open Nstd.Server.C13 (Outcome SendRes sendOS)

def EvOk (s : St) (ev : Option (Id × Flags)) : Prop :=
  ∀ i fl, ev = some (i, fl) → ∃ reg, lookup s.sockets i = some reg ∧ fl.sub reg

theorem appendSelected_sub (s : St) (evs : List (Id × Native)) (acc : L)
    (hacc : ∀ i fl, (i, fl) ∈ acc → ∃ reg, lookup s.sockets i = some reg ∧ fl.sub reg) :
    ∀ i fl, (i, fl) ∈ appendSelected s evs acc → ∃ reg, lookup s.sockets i = some reg ∧ fl.sub reg := by
  induction evs generalizing acc with
  | nil => simpa [appendSelected] using hacc
  | cons e r ih =>
    obtain ⟨j, n⟩ := e
    unfold appendSelected
    cases hl : lookup s.sockets j with
    | none => exact ih acc hacc
    | some ev =>
      dsimp only
      split
      · exact ih acc hacc
      · apply ih
        intro i fl hm
        rcases List.mem_append.mp hm with hm | hm
        · exact hacc i fl hm
        · simp at hm; obtain ⟨rfl, rfl⟩ := hm
          exact ⟨ev, hl, unmap_sub n ev⟩

theorem pollStep_invS (s : St) (inp : PollIn) (h : InvS s none) :
    InvS (pollStep s inp).1 none ∧ EvOk (pollStep s inp).1 (pollStep s inp).2 := by
  unfold pollStep
  cases hsel : s.selected with
  | nil =>
    dsimp only
    have hap := appendSelected_sub s inp.events [] (by simp)
    split
    · refine ⟨⟨hap, h.kind, h.hasCb, h.closing, h.ncLive, h.noFault, h.ncBig⟩, ?_⟩
      intro i fl he; simp at he
    · cases hap2 : appendSelected s inp.events [] with
      | nil =>
        dsimp only
        refine ⟨⟨by intro i fl hm; simp_all, h.kind, h.hasCb, h.closing, h.ncLive, h.noFault, h.ncBig⟩, ?_⟩
        intro i fl he; simp at he
      | cons e r =>
        dsimp only
        rw [hap2] at hap
        refine ⟨⟨fun i fl hm => hap i fl (List.mem_cons_of_mem _ hm), h.kind, h.hasCb, h.closing, h.ncLive, h.noFault, h.ncBig⟩, ?_⟩
        intro i fl he
        injection he with he; subst he
        exact hap i fl (List.mem_cons_self ..)
  | cons e r =>
    dsimp only
    have hs := h.selSub
    rw [hsel] at hs
    refine ⟨⟨fun i fl hm => hs i fl (List.mem_cons_of_mem _ hm), h.kind, h.hasCb, h.closing, h.ncLive, h.noFault, h.ncBig⟩, ?_⟩
    intro i fl he
    injection he with he; subst he
    exact hs i fl (List.mem_cons_self ..)

theorem invS_writeReady (s : St) (i : Id) (o : Outcome) (h : InvS s none) (c : ClientS)
    (hc : s.clients i = some c) : InvS (writeReady s i o).1 none := by
  have hcb : c.hasCb = true := by
    rcases h.hasCb i c hc with h' | h'
    · exact h'
    · simp at h'
  unfold writeReady
  simp only [hc, hcb, Bool.not_true, Bool.false_eq_true, if_false]
  split
  · split
    · exact h
    · exact invS_callback _ _ _ (invS_pollRemove _ none i (invS_updClient s none i c _ h hc (by simp [hcb])))
    · exact invS_callback _ _ _ (invS_pollRemove _ none i (invS_updClient s none i c _ h hc (by simp [hcb])))
    · try dsimp only
      split
      · exact invS_callback _ _ _ (invS_updSet s none i c _ _ _ h hc (by simp [hcb]))
      · exact invS_updClient s none i c _ h hc (by simp [hcb])
  · exact invS_callback _ _ _ (invS_pollSet s none i _ h (Or.inl ⟨c, hc, rfl, rfl⟩))

theorem invS_newClient (s : St) (nc : Id) (u : Bool) (h : InvS s none) (hbig : 1000 ≤ nc) :
    InvS (newClient s nc u) (some nc) := by
  unfold newClient
  dsimp only
  apply invS_pollSet
  · refine ⟨h.selSub, ?_, ?_, ?_, ?_, h.noFault, by intro j hj; injection hj with hj; subst hj; exact hbig⟩
    · intro j reg hj
      have := h.kind j reg hj
      unfold KindOk at *
      simp only [upd]
      by_cases hjn : j = nc
      · subst hjn
        simp only [if_true]
        rcases this with ⟨c, hc, x, y⟩ | h2 | h3
        · exact Or.inl ⟨_, rfl, x, y⟩
        · exact Or.inr (Or.inl h2)
        · exact Or.inr (Or.inr h3)
      · simp only [hjn, if_false]; exact this
    · intro j c hj
      simp only [upd] at hj
      by_cases hjn : j = nc
      · right; rw [hjn]
      · simp only [hjn, if_false] at hj
        rcases h.hasCb j c hj with h' | h'
        · exact Or.inl h'
        · simp at h'
    · intro j hj
      simp only [upd]
      by_cases hjn : j = nc
      · simp [hjn]
      · simp only [hjn, if_false]; exact h.closing j hj
    · intro j hj
      injection hj with hj; subst hj
      exact ⟨{ hasCb := false, unix := u }, by simp [upd], rfl⟩
  · exact Or.inl ⟨{ hasCb := false, unix := u }, by simp [upd], rfl, rfl⟩

theorem invS_grantCb (s : St) (i : Id) (c : ClientS) (h : InvS s (some i)) (hc : s.clients i = some c) :
    InvS { s with clients := upd s.clients i (some { c with hasCb := true }) } none := by
  invs_leaf h

theorem invS_finishHandOver (s : St) (nc : Id) (acts : List Act) (h : InvS s (some nc)) :
    InvS (finishHandOver s nc acts) none := by
  obtain ⟨c, hc, _⟩ := h.ncLive nc rfl
  unfold finishHandOver
  simp only [hc]
  split
  · exact invS_deleteNew s nc h
  · exact invS_grantCb s nc c h hc

theorem invS_handOver (s : St) (i nc : Id) (u : Bool) (h : InvS s none) (hbig : 1000 ≤ nc) :
    InvS (finishHandOver (callback (newClient s nc u) i (some nc)).1 nc (callback (newClient s nc u) i (some nc)).2) none :=
  invS_finishHandOver _ _ _ (invS_callback _ _ _ (invS_newClient s nc u h hbig))

theorem invS_setFlags (s : St) (nc : Option Id) (h : InvS s nc) (p : Pc) (b : Bool) :
    InvS { s with interrupted := b, pc := p } nc :=
  ⟨h.selSub, h.kind, h.hasCb, h.closing, h.ncLive, h.noFault, h.ncBig⟩

theorem dispatch_invS (s : St) (ev : Option (Id × Flags)) (o : Outcome) (h : InvS s none) (hev : EvOk s ev)
    (hauto : 1000 ≤ s.nextAuto) :
    InvS (dispatch s ev o).1 none := by
  unfold dispatch
  split
  · split
    · exact invS_setFlags s none h _ _
    · exact h
  · rename_i i fl
    obtain ⟨reg, hreg, hsub⟩ := hev i fl rfl
    have hk := h.kind i reg hreg
    split
    · split
      · exact invS_setFlags s none h _ _
      · exact h
    · rename_i hnz
      by_cases hr : fl.r = true
      · simp only [hr, if_true]
        have hrr := hsub.1 hr
        rcases hk with ⟨c, hc, _, _⟩ | ⟨l, _, h0, _⟩ | ⟨e, _, h0, _⟩
        · have hcb : c.hasCb = true := by
            rcases h.hasCb i c hc with h' | h'
            · exact h'
            · simp at h'
          simp only [hc, hcb, if_true]
          exact invS_callback _ _ _ h
        · simp [hrr] at h0
        · simp [hrr] at h0
      · simp only [hr, Bool.false_eq_true, if_false]
        by_cases hw : fl.w = true
        · simp only [hw, if_true]
          have hww := hsub.2.1 hw
          rcases hk with ⟨c, hc, _, _⟩ | ⟨l, _, _, h0, _⟩ | ⟨e, _, _, h0, _⟩
          · exact invS_writeReady s i o h c hc
          · simp [hww] at h0
          · simp [hww] at h0
        · simp only [hw, Bool.false_eq_true, if_false]
          by_cases ha : fl.a = true
          · simp only [ha, if_true]
            have haa := hsub.2.2.1 ha
            rcases hk with ⟨c, _, h0, _⟩ | ⟨l, hl, _, _, _⟩ | ⟨e, _, _, _, h0⟩
            · simp [haa] at h0
            · simp only [hl]
              split
              · exact h
              · dsimp only
                exact invS_handOver _ i _ false (invS_updListener s none i l _ h hl) hauto
            · simp [haa] at h0
          · simp only [ha, Bool.false_eq_true, if_false]
            have hcc : fl.c = true := by
              unfold Flags.isZero at hnz
              cases h1 : fl.c with
              | true => rfl
              | false => simp [h1, hr, hw, ha] at hnz
            have hccr := hsub.2.2.2 hcc
            rcases hk with ⟨c, _, _, h0⟩ | ⟨l, _, _, _, h0⟩ | ⟨e, he, _, _, _⟩
            · simp [hccr] at h0
            · simp [hccr] at h0
            · simp only [he]
              have h0 := invS_pollRemove s none i h
              have he' : (pollRemove s i).ests i = some e := by
                rw [(pollRemove_spec s i h.selSub).1.2.2.1]; exact he
              split
              · exact invS_callback _ _ _ h0
              · dsimp only
                exact invS_handOver _ i _ false (invS_updEst _ none i e _ h0 he') hauto

/-- one step of run() keeps both invariants -/
theorem step_invS (s : St) (inp : PollIn) (o : Outcome) (hT : InvT s) (hU : InvU s) (h : InvS s none) :
    InvS (step s inp o).1 none := by
  have hfr : ∀ (s' : St) (nc : Option Id), InvS s' nc → ∀ (q : List (Int × Option Id)) (p : Pc) (t : Id → Option TimerS),
      InvS { s' with queue := q, pc := p, timers := t } nc :=
    fun s' nc h' _ _ _ => ⟨h'.selSub, h'.kind, h'.hasCb, h'.closing, h'.ncLive, h'.noFault, h'.ncBig⟩
  have hfc : ∀ (q : List (Int × Option Id)) (p : Pc), InvS { s with queue := q, pc := p, closing := [] } none :=
    fun _ _ => ⟨h.selSub, h.kind, h.hasCb, by intro j hj; simp at hj, h.ncLive, h.noFault, h.ncBig⟩
  unfold step
  cases hpc : s.pc with
  | idle => exact h
  | timers now =>
    dsimp only
    cases hq : s.queue with
    | nil =>
      exfalso
      obtain ⟨k, hk⟩ := hT.dflt
      rw [hq] at hk; simp at hk
    | cons e rest =>
      obtain ⟨k, v⟩ := e
      dsimp only
      split
      · cases v with
        | none => exact hfr s none h _ _ _
        | some t =>
          dsimp only
          cases ht : s.timers t with
          | none =>
            exfalso
            have := hT.dead t ht
            rw [hq] at this
            simp [entsOf, List.filter_cons] at this
          | some ti =>
            dsimp only
            exact invS_callback _ _ _ (hfr s none h _ _ _)
      · exact hfr s none h _ _ _
  | closing now tmo =>
    dsimp only
    cases hcl : s.closing with
    | nil =>
      dsimp only
      cases hq : s.queue with
      | nil =>
        exfalso
        obtain ⟨k, hk⟩ := hT.dflt
        rw [hq] at hk; simp at hk
      | cons e rest =>
        obtain ⟨k, v⟩ := e
        dsimp only
        exact hfc _ _
    | cons c rest =>
      dsimp only
      have h0 : InvS { s with closing := rest, pc := Pc.closing now tmo } none := by
        refine ⟨h.selSub, h.kind, h.hasCb, ?_, h.ncLive, h.noFault, h.ncBig⟩
        intro j hj; exact h.closing j (by rw [hcl]; exact List.mem_cons_of_mem _ hj)
      have hc := h.closing c (by rw [hcl]; exact List.mem_cons_self ..)
      cases hcc : s.clients c with
      | none => exact absurd hcc hc
      | some cl =>
        dsimp only
        split
        · exact invS_callback _ _ _ h0
        · exact invS_deleteClient _ none c h0 (by simp)
  | poll now tmo =>
    dsimp only
    obtain ⟨h1, hev⟩ := pollStep_invS s inp h
    have h2 := dispatch_invS (pollStep s inp).1 (pollStep s inp).2 o h1 hev
      (by rw [(pollStep_sameO s inp).2.2.2.2.2.2]; exact hU.auto1)
    split
    · exact h2
    · exact hfr _ none h2 _ _ _

/-! ### moves outside run() -/

theorem invS_envStep (s : St) (e : EnvOp) (h : InvS s none) : InvS (envStep s e) none := by
  cases e <;> simp only [envStep]
  case peerSend i n =>
    split
    · rename_i c hc
      split
      · exact h
      · exact invS_updClient s none i c _ h hc rfl
    · exact h
  case peerClose i =>
    split
    · rename_i c hc
      split
      · exact invS_updClient s none i c _ h hc rfl
      · exact h
    · exact h
  case dial i =>
    split
    · rename_i l hl; exact invS_updListener s none i l _ h hl
    · exact h
  case advance dt => exact ⟨h.selSub, h.kind, h.hasCb, h.closing, h.ncLive, h.noFault, h.ncBig⟩
  case connFail i =>
    split
    · rename_i l hl; exact invS_updEst s none i l _ h hl
    · exact h

end Nstd.Server.C14
