import Nstd.Server.PropsC14
import Nstd.Server.LemmasC14J
/-
  C14, round 7 — the early return of `Poll::set` (Socket.cpp: `if(sockInfo.events == events) return;`, in the model the
  `old = ev` branch of `pollSet`) is never taken by a call the Server makes on a registered client: in every reachable state
  the registration of a client is `clientFlags suspended backlog` (`client_interest`), and every `set` of
  `ClientImpl::suspend / resume / write` and of the write-ready branch asks for a different flag set.
-/
namespace Nstd.Server.C14
open Nstd.Server.C13 (Outcome SendRes sendOS)

theorem server_set_never_takes_early_return (ms : List Move) (i : Id) (c : ClientS) (reg : Flags)
    (hc : (reach ms).clients i = some c) (hl : lookup (reach ms).sockets i = some reg) :
    -- suspend() of a client that is not suspended
    (c.suspended = false → reg ≠ clientFlags true c.backlog) ∧
    -- resume() of a suspended client
    (c.suspended = true → reg ≠ clientFlags false c.backlog) ∧
    -- write() that buffers a remainder of n > 0 bytes (the backlog was empty)
    (∀ n, n ≠ 0 → c.backlog = 0 → reg ≠ clientFlags c.suspended n) ∧
    -- the write-ready branch after the backlog drained (it was not empty: `onWrite_needs_backlog`)
    (c.backlog ≠ 0 → reg ≠ clientFlags c.suspended 0) := by
  have h := client_interest ms i c reg hc hl
  subst h
  refine ⟨?_, ?_, ?_, ?_⟩
  · intro hs h; rw [hs] at h; simp [clientFlags] at h
  · intro hs h; rw [hs] at h; simp [clientFlags] at h
  · intro n hn hb h; rw [hb] at h; simp [clientFlags, hn] at h
  · intro hb h; simp [clientFlags, hb] at h

/-- non-vacuity: a reachable state with a registered client whose four `set` calls would all change the flags -/
example : ∃ c reg, (reach [.mkPair 1]).clients 1 = some c ∧ lookup (reach [.mkPair 1]).sockets 1 = some reg ∧
    reg ≠ clientFlags true c.backlog := by
  refine ⟨{ hasCb := true }, { r := true }, rfl, rfl, by decide⟩

/-! ### failing creations -/

/-- `listen` / `connect` / `pair` that return 0 (socket(), bind(), listen(), connect() or a socket option failed) are moves of
    the histories all theorems of PropsC14 quantify over (`Move.failCreate`); they leave no trace: whatever happens before and
    after, the run is the run without them -/
theorem failed_creation_leaves_no_trace (ms ms' : List Move) :
    reach (ms ++ Move.failCreate :: ms') = reach (ms ++ ms') := by
  unfold reach
  rw [runMoves_append, runMoves_append]
  rfl

/-! ### the `deleteClient` branch of the closing loop (Server.cpp 276-277) is dead in the repaired code -/

/-- between two steps of run() (and outside run()) no client carries `_removed` and every client has its callback: the flag
    only lives from `remove(client)` inside onAccepted / onConnected to the `deleteClient` right after that callback -/
theorem no_client_is_removed_between_steps (ms : List Move) (i : Id) (c : ClientS) (hc : (reach ms).clients i = some c) :
    c.hasCb = true ∧ c.removed = false := by
  have hcb : c.hasCb = true := by
    rcases (inv_reach ms).s.hasCb i c hc with h | h
    · exact h
    · cases h
  refine ⟨hcb, ?_⟩
  cases hr : c.removed
  · rfl
  · have := invJ_reach ms i c hc hr
    rw [hcb] at this; cases this

/-- whenever the closing loop pops a client, that client exists, has a callback and is not `_removed`: the loop takes the
    onClosed branch — for every reachable state, so the `else deleteClient(client)` branch is never executed -/
theorem closing_loop_never_deletes (ms : List Move) (inp : PollIn) (o : Outcome) (now tmo : Int) (c : Id) (rest : List Id)
    (hpc : (reach ms).pc = .closing now tmo) (hcl : (reach ms).closing = c :: rest) :
    ∃ cl, (reach ms).clients c = some cl ∧ cl.hasCb = true ∧ cl.removed = false ∧
      (step (reach ms) inp o).2 = [Ev.onClosed c] := by
  have hne := (inv_reach ms).s.closing c (by rw [hcl]; simp)
  cases hc : (reach ms).clients c with
  | none => exact absurd hc hne
  | some cl =>
    obtain ⟨h1, h2⟩ := no_client_is_removed_between_steps ms c cl hc
    exact ⟨cl, rfl, h1, h2, (closing_delivers_onClosed ms inp o now tmo c rest cl hpc hcl hc h2).1⟩

/-- non-vacuity: a run in which the closing loop is entered with a queued client (peer closed, read fails, run()) -/
example : ∃ now tmo c rest, (reach [.mkPair 1, .env (.peerClose 1), .act (.read 1), .enter, .step {} .all, .step {} .all]).pc = .closing now tmo ∧
    (reach [.mkPair 1, .env (.peerClose 1), .act (.read 1), .enter, .step {} .all, .step {} .all]).closing = c :: rest :=
  ⟨1000, 300000, 1, [], by decide, by decide⟩

end Nstd.Server.C14
