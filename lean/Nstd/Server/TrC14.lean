import Nstd.Generated.ServerTr
import Nstd.Server.ModelC14
/-
  Meaning of the primitives of the translated client code (Nstd/Generated/ServerTr.lean) over the event-loop model of C14,
  and over a one-cell system-call machine for the translated `Socket::send` / `Socket::recv`.
  This file is the hand-written part of the tie by translation: which model field a C++ member is, and what the kernel
  answers.  Control flow, flag expressions and comparisons come from the translator.
-/
namespace Nstd.Server.Tr
open Nstd.Server.C14
open Nstd.Server.C13 (Outcome SendRes sendOS)

/-- what the translated code runs on: the model state and the thread's `Socket::getLastError()` -/
structure M14 where
  st : St
  err : Int := 0

/-- `(result, error)` of `Socket::send` for each answer of the model's kernel (`e` = the error number of a hard error) -/
def encSend (e : Int) (old : Int) : SendRes → Int × Int
  | .wouldblock => (-1, 0)
  | .error => (-1, e)
  | .sent k => (k, old)

def cl (m : M14) (i : Id) : ClientS := (m.st.clients i).getD { hasCb := true }

def setCl (m : M14) (i : Id) (f : ClientS → ClientS) : M14 :=
  match m.st.clients i with
  | some c => { m with st := { m.st with clients := upd m.st.clients i (some (f c)) } }
  | none => m

/-- the answer of `Socket::recv` on client `c`: `hard = some e` a hard error `e`, else what the model's kernel holds -/
def recvAns (c : ClientS) (hard : Option Int) (old : Int) : Int × Int :=
  match hard with
  | some e => (-1, e)
  | none => if c.inbox != 0 then (c.inbox, old) else if c.peerClosed then (0, old) else (-1, 0)

/-- the primitives for client `i`; `ans` answers the (at most one) `send` of the translated body, `hard` a failing `recv` -/
def P14 (i : Id) (ans : SendRes) (e : Int) (hard : Option Int) : ClientPrims M14 where
  bufIsEmpty m := (cl m i).backlog == 0
  bufSize m := (cl m i).backlog
  bufAppend m _ len := setCl m i (fun c => { c with backlog := c.backlog + len.toNat })
  bufRemoveFront m n := setCl m i (fun c => { c with backlog := c.backlog - n.toNat })
  bufFree m := setCl m i (fun c => { c with backlog := 0 })
  suspended m := (cl m i).suspended
  setSuspended m b := setCl m i (fun c => { c with suspended := b })
  lastError m := m.err
  send m _ _ := ({ m with err := (encSend e m.err ans).2 }, (encSend e m.err ans).1)
  recv m _ :=
    let a := recvAns (cl m i) hard m.err
    let m1 := { m with err := a.2 }
    (if 0 < a.1 then setCl m1 i (fun c => { c with inbox := 0 }) else m1, a.1)
  pollSet m f := { m with st := pollSet m.st i f }
  pollRemove m := { m with st := pollRemove m.st i }
  closingAppend m := { m with st := addClosing m.st i }
  onRead m := { m with st := (callback m.st i none).1 }
  onWrite m := { m with st := (callback m.st i none).1 }
  onClosed m := { m with st := (callback m.st i none).1 }

/-! ### Poll::set / remove, the timer loop, the closing loop -/

structure MPoll where
  st : St
  ctl : List (Nat × NBits) := []      -- the epoll_ctl calls made (op, mask)

/-- the poll tables of the model as cells of socket `i` -/
def PPoll (i : Id) : PollPrims MPoll where
  sockFind m := (lookup m.st.sockets i).isSome
  sockEvents m := (lookup m.st.sockets i).getD {}
  setSockEvents m f := { m with st := { m.st with sockets := setId m.st.sockets i f } }
  sockFd _ := 0
  sockAppend m := { m with st := { m.st with sockets := m.st.sockets ++ [(i, {})] } }
  sockRemove m := { m with st := { m.st with sockets := eraseId m.st.sockets i } }
  selIsEmpty m := m.st.selected.isEmpty
  selFind m := (lookup m.st.selected i).isSome
  selEvents m := (lookup m.st.selected i).getD {}
  setSelEvents m f := { m with st := { m.st with selected := setId m.st.selected i f } }
  selRemove m := { m with st := { m.st with selected := eraseId m.st.selected i } }
  epollCtl m op mask := { m with ctl := m.ctl ++ [(op, mask)] }

structure MTimer where
  st : St
  cur : Option Id := none             -- the `TimerImpl*` popped from the queue (none = the default timer)

def curTimer (m : MTimer) : Option TimerS := m.cur.bind m.st.timers

def PTimer : TimerPrims MTimer where
  queueFrontKey m := match m.st.queue with | (k, _) :: _ => k | [] => 0
  queueFront m := { m with cur := match m.st.queue with | (_, v) :: _ => v | [] => none }
  curIsUser m := m.cur.isSome
  queueRemoveFront m := { m with st := { m.st with queue := m.st.queue.tail } }
  timerExec m := match curTimer m with | some ti => ti.exec | none => 0
  setTimerExec m v :=
    match m.cur, curTimer m with
    | some t, some ti => { m with st := { m.st with timers := upd m.st.timers t (some { ti with exec := v }) } }
    | _, _ => m
  timerInterval m := match curTimer m with | some ti => ti.interval | none => 0
  queueInsertCur m k := { m with st := { m.st with queue := qInsert m.st.queue k m.cur } }
  queueInsertDefault m k := { m with st := { m.st with queue := qInsert m.st.queue k none } }
  onActivated m := match m.cur with | some t => { m with st := (callback m.st t none).1 } | none => m

structure MClosing where
  st : St
  cur : Id := 0                       -- the client popped from `_closingClients`

def PClosing : ClosingPrims MClosing where
  closingIsEmpty m := m.st.closing.isEmpty
  closingFront m := { m with cur := m.st.closing.headD 0 }
  closingRemoveFront m := { m with st := { m.st with closing := m.st.closing.tail } }
  hasCallback m := match m.st.clients m.cur with | some c => c.hasCb | none => false
  removedFlag m := match m.st.clients m.cur with | some c => c.removed | none => false
  onClosed m := { m with st := (callback m.st m.cur none).1 }
  deleteClient m := { m with st := deleteClient m.st m.cur }

/-- the system-call machine of `Socket::send` / `Socket::recv`: one cell `errno`; the kernel answers `(result, errno)` -/
structure SysM where
  errno : Int
  deriving DecidableEq, Repr

def PSys (ans : Int × Int) : SysPrims SysM where
  errno m := m.errno
  setErrno _ v := { errno := v }
  sysSend m _ := ({ errno := if ans.1 = -1 then ans.2 else m.errno }, ans.1)
  sysRecv m _ := ({ errno := if ans.1 = -1 then ans.2 else m.errno }, ans.1)

/-- how `ClientImpl::write` / the write-ready branch classify the result of `Socket::send` (the model's `SendRes`) -/
def classify (r e : Int) : SendRes :=
  if r = -1 then (if e = 0 then .wouldblock else .error) else .sent r.toNat

theorem upd_same {α} (f : Id → α) (i : Id) : upd f i (f i) = f := by
  funext j; unfold upd; split <;> simp_all

theorem upd_upd {α} (f : Id → α) (i : Id) (a b : α) : upd (upd f i a) i b = upd f i b := by
  funext j; unfold upd; split <;> simp_all

theorem upd_at {α} (f : Id → α) (i : Id) (a : α) : upd f i a i = a := by simp [upd]

theorem st_upd_same (s : St) (i : Id) (c : ClientS) (h : s.clients i = some c) :
    { s with clients := upd s.clients i (some c) } = s := by
  rw [← h, upd_same]

end Nstd.Server.Tr
