import Nstd.Server.TrC14
/-
  Tie by translation (C13 / C14): the bodies of `ClientImpl::suspend/resume/write/read`, of the read and write-ready branches
  of `Server::Private::run`, of `Socket::send` / `Socket::recv` and of `Poll::Private::mapEvents/unmapEvents`, translated
  from the CURRENT sources by tools/gen_server.py (Nstd/Generated/ServerTr.lean), are the steps of the model — for every
  model state, every kernel answer, every flag set.  A change of one of these C++ bodies changes the generated
  definition; if it changes the behaviour, the equality below no longer holds and the build of this file fails.
-/
set_option linter.unusedSimpArgs false

namespace Nstd.Server.Tr
open Nstd.Server.C14
open Nstd.Server.C13 (Outcome SendRes sendOS)
open Nstd.Generated

attribute [local simp] C14.Flags.union C14.Flags.isZero finter fcompl

/-- `ClientImpl::suspend` (translated) = `C14.suspend` -/
theorem tr_suspend_eq (opq : Nat → Int) (s : St) (i : Id) (c : ClientS) (hc : s.clients i = some c) (ans : SendRes) (e er : Int) (hard : Option Int) :
    (ServerTr.suspend (P14 i ans e hard) opq ⟨s, er⟩).st = suspend s i := by
  unfold ServerTr.suspend suspend
  cases hs : c.suspended <;> cases hb : c.backlog <;>
    simp [P14, cl, setCl, hc, hs, hb, upd_at, clientFlags]

/-- `ClientImpl::resume` (translated) = `C14.resume` -/
theorem tr_resume_eq (opq : Nat → Int) (s : St) (i : Id) (c : ClientS) (hc : s.clients i = some c) (ans : SendRes) (e er : Int) (hard : Option Int) :
    (ServerTr.resume (P14 i ans e hard) opq ⟨s, er⟩).st = resume s i := by
  unfold ServerTr.resume resume
  cases hs : c.suspended <;> cases hb : c.backlog <;>
    simp [P14, cl, setCl, hc, hs, hb, upd_at, clientFlags, Flags.union]

/-- `ClientImpl::write` (translated) = `C14.write`, for every kernel answer to the `send` it may issue (`e ≠ 0` = the error
    number of a hard error), with and without a `postponed` pointer -/
theorem tr_write_eq (opq : Nat → Int) (s : St) (i : Id) (c : ClientS) (hc : s.clients i = some c) (n : Nat) (o : Outcome) (e er : Int) (he : e ≠ 0)
    (pp : Bool) (hard : Option Int) :
    (ServerTr.write (P14 i (sendOn c n o) e hard) opq (n : Int) pp ⟨s, er⟩).1.st = write s i n o := by
  unfold ServerTr.write write
  simp only [hc]
  by_cases hb : c.backlog = 0
  · cases hr : sendOn c n o with
    | wouldblock =>
      by_cases hn : n = 0
      · cases pp <;> simp [P14, cl, setCl, hc, hb, hr, encSend, hn]
      · have h3 : ¬ ((n : Int) ≤ 0) := by omega
        have h6 : (n != 0) = true := by simp [hn]
        cases pp <;> cases hs : c.suspended <;>
          simp [P14, cl, setCl, hc, hb, hr, encSend, upd_at, clientFlags, Flags.union, hn, h3, h6, hs]
    | error =>
      cases pp <;> simp [P14, cl, setCl, hc, hb, hr, encSend, he]
    | sent k =>
      cases k with
      | zero => cases pp <;> simp [P14, cl, setCl, hc, hb, hr, encSend]
      | succ k =>
        have h1 : ((k : Int) + 1 = -1) = False := by simp; omega
        have h2 : ((k : Int) + 1 = 0) = False := by simp; omega
        by_cases hn : k + 1 ≥ n
        · have h3 : ((n : Int) ≤ (k : Int) + 1) := by omega
          cases pp <;> simp [P14, cl, setCl, hc, hb, hr, encSend, h1, h2, h3, hn]
        · have h3 : ¬ ((n : Int) ≤ (k : Int) + 1) := by omega
          have h4 : ((n : Int) - ((k : Int) + 1)).toNat = n - (k + 1) := by omega
          have h5 : n - (k + 1) ≠ 0 := by omega
          have h6 : (n - (k + 1) != 0) = true := by simp [h5]
          cases pp <;> cases hs : c.suspended <;>
            simp [P14, cl, setCl, hc, hb, hr, encSend, h1, h2, h3, h4, h5, h6, hn, upd_at, clientFlags, Flags.union, hs]
  · cases pp <;> simp [P14, cl, setCl, hc, hb]

/-- `ClientImpl::read` (translated) = `C14.read` when the kernel answers from the model's queues; a hard `recv` error
    (`hard = some e`, `e ≠ 0`) queues the client for onClosed exactly like end-of-stream -/
theorem tr_read_eq (opq : Nat → Int) (s : St) (i : Id) (c : ClientS) (hc : s.clients i = some c) (ans : SendRes) (e er : Int) (mx : Int) :
    (ServerTr.read (P14 i ans e none) opq mx ⟨s, er⟩).1.st = C14.read s i := by
  unfold ServerTr.read C14.read
  simp only [hc]
  by_cases hi : c.inbox = 0
  · cases hp : c.peerClosed <;> simp [P14, cl, setCl, hc, hi, hp, recvAns]
  · have h1 : ((c.inbox : Int) = -1) = False := by simp
    have h2 : ((c.inbox : Int) = 0) = False := by simp; omega
    have h3 : (0 : Int) < (c.inbox : Int) := by omega
    have h5 : 0 < c.inbox := by omega
    simp [P14, cl, setCl, hc, hi, recvAns, h1, h2, h3, h5]

theorem tr_read_hard_error (opq : Nat → Int) (s : St) (i : Id) (c : ClientS) (_hc : s.clients i = some c) (ans : SendRes) (e er he : Int) (mx : Int)
    (hne : he ≠ 0) :
    (ServerTr.read (P14 i ans e (some he)) opq mx ⟨s, er⟩).1.st = addClosing s i ∧
    (ServerTr.read (P14 i ans e (some he)) opq mx ⟨s, er⟩).2.1 = false := by
  unfold ServerTr.read
  simp [P14, cl, setCl, recvAns, hne]

/-- the read branch of the dispatch chain (translated) = the model's read dispatch: the callback, nothing else -/
theorem tr_readBranch_eq (opq : Nat → Int) (s : St) (i : Id) (fl : Flags) (ans : SendRes) (e er : Int) (hard : Option Int) :
    (ServerTr.readBranch (P14 i ans e hard) opq fl ⟨s, er⟩).st = (callback s i none).1 := by
  simp [ServerTr.readBranch, P14]

/-- the write-ready branch of the dispatch chain (translated) = `C14.writeReady`, for every kernel answer to its send -/
theorem tr_writeBranch_eq (opq : Nat → Int) (s : St) (i : Id) (c : ClientS) (hc : s.clients i = some c) (hcb : c.hasCb = true) (o : Outcome)
    (e er : Int) (he : e ≠ 0) (fl : Flags) (hard : Option Int) :
    (ServerTr.writeBranch (P14 i (sendOn c c.backlog o) e hard) opq fl ⟨s, er⟩).st = (writeReady s i o).1 := by
  obtain ⟨cb, rm, su, bl, ib, pc, ux⟩ := c
  simp only at hcb
  subst hcb
  unfold ServerTr.writeBranch writeReady
  simp only [hc]
  by_cases hb : bl = 0
  · subst hb
    have key : upd s.clients i (some ⟨true, rm, su, 0, ib, pc, ux⟩) = s.clients := by rw [← hc, upd_same]
    cases su <;> simp [P14, cl, setCl, hc, upd_at, clientFlags, key]
  · have hb' : (bl != 0) = true := by simp [hb]
    cases hr : sendOn ⟨true, rm, su, bl, ib, pc, ux⟩ bl o with
    | wouldblock => simp [P14, cl, setCl, hc, hb, hb', encSend]
    | error => simp [P14, cl, setCl, hc, hb, hb', encSend, he, upd_at, upd_upd]
    | sent k =>
      cases k with
      | zero => simp [P14, cl, setCl, hc, hb, hb', encSend, upd_at, upd_upd]
      | succ k =>
        have h1 : ((k : Int) + 1 = -1) = False := by simp; omega
        have h2 : ((k : Int) + 1 = 0) = False := by simp; omega
        have h4 : ((k : Int) + 1).toNat = k + 1 := by omega
        by_cases hd : bl - (k + 1) = 0
        · cases su <;>
            simp [P14, cl, setCl, hc, hb, hb', encSend, h1, h2, h4, hd, upd_at, upd_upd, clientFlags]
        · simp [P14, cl, setCl, hc, hb, hb', encSend, h1, h2, h4, hd, upd_at, upd_upd]

/-! ### `Socket::send` / `Socket::recv`: the would-block mapping -/

/-- `Socket::send` (translated), for EVERY answer `(r, en)` of the system call: the result is `r`; the error the caller reads
    with `getLastError()` is 0 exactly when the call failed with EAGAIN / EWOULDBLOCK (their values on this platform are in
    the translated body), the system's error number otherwise -/
theorem socket_send_maps_wouldblock (r en old : Int) (n : Int) :
    ServerTr.socketSend (PSys (r, en)) n ⟨old⟩ =
      (⟨if r = -1 then (if en = ServerTr.eAgain ∨ en = ServerTr.eWouldBlock then 0 else en) else old⟩, r) := by
  unfold ServerTr.socketSend
  by_cases hr : r = -1 <;> by_cases h1 : en = ServerTr.eAgain <;> by_cases h2 : en = ServerTr.eWouldBlock <;>
    simp_all [PSys, ServerTr.eAgain, ServerTr.eWouldBlock]

theorem socket_recv_maps_wouldblock (r en old : Int) (n : Int) :
    ServerTr.socketRecv (PSys (r, en)) n ⟨old⟩ =
      (⟨if r = -1 then (if en = ServerTr.eAgain ∨ en = ServerTr.eWouldBlock then 0 else en) else old⟩, r) := by
  unfold ServerTr.socketRecv
  by_cases hr : r = -1 <;> by_cases h0 : r = 0 <;> by_cases h1 : en = ServerTr.eAgain <;> by_cases h2 : en = ServerTr.eWouldBlock <;>
    simp_all [PSys, ServerTr.eAgain, ServerTr.eWouldBlock]

/-- the chain kernel → `Socket::send` → the `switch` of `ClientImpl::write` / the write-ready branch: what the model calls
    would-block / error / sent k is exactly: EAGAIN or EWOULDBLOCK / any other failure / a count: the pair (result, error)
    `Socket::send` hands to its caller is the encoding `encSend en` that `tr_write_eq` / `tr_writeBranch_eq` quantify over
    (their hypothesis `e ≠ 0` is POSIX: a failing call sets errno to a positive value). -/
theorem send_classification (r en old : Int) (n : Int) (hr : -1 ≤ r) :
    let res := ServerTr.socketSend (PSys (r, en)) n ⟨old⟩
    (res.2, res.1.errno) =
      encSend en old (if r = -1 then (if en = ServerTr.eAgain ∨ en = ServerTr.eWouldBlock then .wouldblock else .error)
                       else .sent r.toNat) := by
  rw [socket_send_maps_wouldblock]
  by_cases h : r = -1
  · by_cases h2 : en = ServerTr.eAgain ∨ en = ServerTr.eWouldBlock <;> simp [h, h2, encSend]
  · have : (r.toNat : Int) = r := by omega
    simp [h, encSend, this]

/-! ### `Poll::Private::mapEvents` / `unmapEvents` -/

/-- the model's three native bits from the six the C++ names (`hup` = EPOLLHUP or EPOLLRDHUP; EPOLLERR and EPOLLPRI are not
    looked at by `unmapEvents`) -/
def absNative (n : NBits) : Native := { inn := n.inn, out := n.out, hup := n.hup || n.rdhup }

/-- `unmapEvents` (translated) = the model's `unmap`, for every native mask (also with EPOLLERR / EPOLLPRI set) and every
    registered flag set -/
theorem tr_unmapEvents_eq (n : NBits) (ev : Flags) : ServerTr.unmapEvents n ev = unmap (absNative n) ev := by
  obtain ⟨a, b, c, d, e, f⟩ := n
  obtain ⟨r, w, ac, co⟩ := ev
  cases a <;> cases b <;> cases c <;> cases d <;> cases e <;> cases f <;> cases r <;> cases w <;> cases ac <;> cases co <;> decide

/-- `mapEvents` (translated): EPOLLIN is requested iff read or accept is registered, EPOLLOUT iff write or connect —
    the `wantIn` / `wantOut` of the model's kernel (`nativeOf`) and the `i` / `o` the correspondence run observes through the
    interposed `epoll_ctl`; hang-up bits are requested with any flag; EPOLLERR / EPOLLPRI never -/
theorem tr_mapEvents_spec (ev : Flags) :
    (ServerTr.mapEvents ev).inn = (ev.r || ev.a) ∧ (ServerTr.mapEvents ev).out = (ev.w || ev.c) ∧
    (ServerTr.mapEvents ev).hup = !ev.isZero ∧ (ServerTr.mapEvents ev).rdhup = !ev.isZero ∧
    (ServerTr.mapEvents ev).err = false ∧ (ServerTr.mapEvents ev).pri = false := by
  obtain ⟨r, w, ac, co⟩ := ev
  cases r <;> cases w <;> cases ac <;> cases co <;> decide

/-- the dispatch chain of `run()` tests read, write, accept, connect in this order — the order of the model's `dispatch` -/
theorem tr_dispatch_order : ServerTr.dispatchOrder = ["r", "w", "a", "c"] := rfl

/-- the flag constants are the distinct single bits the boolean records stand for -/
theorem tr_flag_values :
    ServerTr.pollFlagValues = [("r", 1), ("w", 2), ("a", 4), ("c", 8)] ∧
    (ServerTr.nativeFlagValues.map (·.2)).Pairwise (· ≠ ·) := by
  constructor
  · rfl
  · decide

end Nstd.Server.Tr
