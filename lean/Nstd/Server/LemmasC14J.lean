import Nstd.Server.LemmasC14F
/-
  C14 — `_removed` implies "no callback yet": the flag is only set by `remove(client)` on a client that has no callback (it is
  being handed over), and the hand-over code deletes such a client instead of giving it a callback.  With `InvS.hasCb`
  (outside a hand-over every client has a callback) no client of a state between two steps is `_removed`, so the
  `deleteClient` branch of the closing loop (Server.cpp 277) is dead.
-/
namespace Nstd.Server.C14
open Nstd.Server.C13 (Outcome SendRes sendOS)

def JC (c : ClientS) : Prop := c.removed = true → c.hasCb = false
def InvJ (s : St) : Prop := ∀ i c, s.clients i = some c → JC c

theorem pollSet_clients (s : St) (i : Id) (ev : Flags) : (pollSet s i ev).clients = s.clients := (pollSet_lookup s i ev).1
theorem pollRemove_clients (s : St) (i : Id) : (pollRemove s i).clients = s.clients := (pollRemove_lookup s i).1

theorem invJ_frame {s s' : St} (h : InvJ s) (e : s'.clients = s.clients) : InvJ s' := by
  intro i c hc; rw [e] at hc; exact h i c hc

theorem invJ_upd {s s' : St} (h : InvJ s) (i : Id) (c' : ClientS) (hj : JC c')
    (e : s'.clients = upd s.clients i (some c')) : InvJ s' := by
  intro j c hc
  rw [e] at hc
  simp only [upd] at hc
  split at hc
  · injection hc with hc; subst hc; exact hj
  · exact h j c hc

theorem invJ_updSame {s s' : St} (h : InvJ s) (i : Id) (c c' : ClientS) (hc : s.clients i = some c)
    (e : s'.clients = upd s.clients i (some c')) (hr : c'.removed = c.removed) (hb : c'.hasCb = c.hasCb) : InvJ s' :=
  invJ_upd h i c' (fun h1 => by rw [hb]; exact h i c hc (by rw [← hr]; exact h1)) e

theorem invJ_updNone {s s' : St} (h : InvJ s) (i : Id) (e : s'.clients = upd s.clients i none) : InvJ s' := by
  intro j c hc
  rw [e] at hc
  simp only [upd] at hc
  split at hc
  · cases hc
  · exact h j c hc

theorem invJ_deleteClient (s : St) (i : Id) (h : InvJ s) : InvJ (deleteClient s i) := by
  apply invJ_updNone h i
  simp [deleteClient, markGone, pollRemove_clients]

theorem invJ_rmClient (s : St) (i : Id) (h : InvJ s) : InvJ (rmClient s i) := by
  unfold rmClient
  split
  · rename_i c hc
    split
    · exact invJ_deleteClient s i h
    · rename_i hcb
      exact invJ_upd h i _ (fun _ => by simpa using hcb) rfl
  · exact h

theorem invJ_suspend (s : St) (i : Id) (h : InvJ s) : InvJ (suspend s i) := by
  unfold suspend
  split
  · rename_i c hc
    split
    · exact h
    · exact invJ_updSame h i c _ hc (by rw [pollSet_clients]) (by rfl) (by rfl)
  · exact h

theorem invJ_resume (s : St) (i : Id) (h : InvJ s) : InvJ (resume s i) := by
  unfold resume
  split
  · rename_i c hc
    split
    · exact h
    · exact invJ_updSame h i c _ hc (by rw [pollSet_clients]) (by rfl) (by rfl)
  · exact h

theorem invJ_read (s : St) (i : Id) (h : InvJ s) : InvJ (read s i) := by
  unfold read
  split
  · rename_i c hc
    split
    · exact invJ_updSame h i c _ hc (by rfl) (by rfl) (by rfl)
    · split
      · exact invJ_frame h rfl
      · exact h
  · exact h

theorem invJ_write (s : St) (i : Id) (n : Nat) (o : Outcome) (h : InvJ s) : InvJ (write s i n o) := by
  unfold write
  split
  · rename_i c hc
    split
    · split
      · exact invJ_frame h rfl
      · exact invJ_frame h rfl
      · split
        · exact h
        · exact invJ_updSame h i c _ hc (by rw [pollSet_clients]) (by rfl) (by rfl)
      · split
        · exact h
        · exact invJ_updSame h i c _ hc (by rw [pollSet_clients]) (by rfl) (by rfl)
    · exact invJ_updSame h i c _ hc (by rfl) (by rfl) (by rfl)
  · exact h

theorem invJ_mkPair (s : St) (i : Id) (h : InvJ s) : InvJ (mkPair s i) := by
  unfold mkPair
  dsimp only
  split
  · exact invJ_upd h i { hasCb := true } (fun hr => by simp at hr) (by rw [pollSet_clients])
  · exact h

theorem invJ_applyAct (s : St) (nc : Option Id) (a : Act) (h : InvJ s) : InvJ (applyAct s nc a) := by
  cases a <;> simp only [applyAct]
  case mkTimer i iv => unfold mkTimer; dsimp only; split <;> first | exact h | exact invJ_frame h rfl
  case rmTimer i => unfold rmTimer; split <;> first | exact h | exact invJ_frame h rfl
  case rmClient i => exact invJ_rmClient s i h
  case rmListener i =>
    unfold rmListener; split
    · exact invJ_frame h (by simp [markGone, pollRemove_clients])
    · exact h
  case rmEst i =>
    unfold rmEst; split
    · exact invJ_frame h (by simp [markGone, pollRemove_clients])
    · exact h
  case rmNew => cases nc <;> simp only <;> first | exact h | exact invJ_rmClient s _ h
  case retNull => exact h
  case interrupt => unfold interrupt; split <;> first | exact h | exact invJ_frame h rfl
  case suspend i => exact invJ_suspend s i h
  case resume i => exact invJ_resume s i h
  case read i => exact invJ_read s i h
  case write i n o => exact invJ_write s i n o h
  case mkPair i => exact invJ_mkPair s i h
  case mkListener i =>
    unfold mkListener; dsimp only; split
    · exact invJ_frame h (by rw [pollSet_clients])
    · exact h
  case mkEst i =>
    unfold mkEst; dsimp only; split
    · exact invJ_frame h (by rw [pollSet_clients])
    · exact h

theorem invJ_runActs (s : St) (nc : Option Id) (acts : List Act) (h : InvJ s) : InvJ (runActs s nc acts) := by
  induction acts generalizing s with
  | nil => exact h
  | cons a as ih => exact ih _ (invJ_applyAct s nc a h)

theorem invJ_callback (s : St) (i : Id) (nc : Option Id) (h : InvJ s) : InvJ (callback s i nc).1 := by
  unfold callback
  exact invJ_runActs _ _ _ (invJ_frame h rfl)

theorem invJ_writeReady (s : St) (i : Id) (o : Outcome) (h : InvJ s) : InvJ (writeReady s i o).1 := by
  unfold writeReady
  split
  · exact invJ_frame h rfl
  · rename_i c hc
    dsimp only
    split
    · exact invJ_frame h rfl
    · split
      · split
        · exact h
        · exact invJ_callback _ _ _ (invJ_updSame h i c _ hc (by rw [pollRemove_clients]) (by rfl) (by rfl))
        · exact invJ_callback _ _ _ (invJ_updSame h i c _ hc (by rw [pollRemove_clients]) (by rfl) (by rfl))
        · split
          · exact invJ_callback _ _ _ (invJ_updSame h i c _ hc (by rw [pollSet_clients]) (by rfl) (by rfl))
          · exact invJ_updSame h i c _ hc (by rfl) (by rfl) (by rfl)
      · exact invJ_callback _ _ _ (invJ_frame h (by rw [pollSet_clients]))

theorem invJ_newClient (s : St) (nc : Id) (u : Bool) (h : InvJ s) : InvJ (newClient s nc u) := by
  unfold newClient
  exact invJ_upd h nc { hasCb := false, unix := u } (fun hr => by simp at hr) (by rw [pollSet_clients])

theorem invJ_finishHandOver (s : St) (nc : Id) (acts : List Act) (h : InvJ s) : InvJ (finishHandOver s nc acts) := by
  unfold finishHandOver
  split
  · exact invJ_frame h rfl
  · rename_i c hc
    split
    · exact invJ_deleteClient s nc h
    · rename_i hn
      refine invJ_upd h nc _ (fun hr => ?_) rfl
      simp only [Bool.or_eq_true, not_or] at hn
      exact absurd hr (by simpa using hn.2)

theorem invJ_dispatch (s : St) (ev : Option (Id × Flags)) (o : Outcome) (h : InvJ s) : InvJ (dispatch s ev o).1 := by
  unfold dispatch
  split
  · split <;> first | exact h | exact invJ_frame h rfl
  · rename_i i fl
    split
    · split <;> first | exact h | exact invJ_frame h rfl
    · split
      · split
        · split
          · exact invJ_callback _ _ _ h
          · exact invJ_frame h rfl
        · exact invJ_frame h rfl
      · split
        · exact invJ_writeReady s i o h
        · split
          · split
            · exact invJ_frame h rfl
            · split
              · exact h
              · dsimp only
                exact invJ_finishHandOver _ _ _ (invJ_callback _ _ _ (invJ_newClient _ _ _ (invJ_frame h rfl)))
          · split
            · exact invJ_frame h rfl
            · dsimp only
              split
              · exact invJ_callback _ _ _ (invJ_frame h (by rw [pollRemove_clients]))
              · exact invJ_finishHandOver _ _ _ (invJ_callback _ _ _ (invJ_newClient _ _ _
                  (invJ_frame h (by simp [pollRemove_clients]))))

theorem pollStep_clients (s : St) (inp : PollIn) : (pollStep s inp).1.clients = s.clients := by
  unfold pollStep
  dsimp only
  repeat' split
  all_goals rfl

theorem invJ_step (s : St) (inp : PollIn) (o : Outcome) (h : InvJ s) : InvJ (step s inp o).1 := by
  unfold step
  split
  · exact h
  · split
    · exact invJ_frame h rfl
    · split
      · split
        · split
          · exact invJ_callback _ _ _ (invJ_frame h rfl)
          · exact invJ_frame h rfl
        · exact invJ_frame h rfl
      · exact invJ_frame h rfl
  · split
    · split <;> exact invJ_frame h rfl
    · dsimp only
      split
      · split
        · exact invJ_callback _ _ _ (invJ_frame h rfl)
        · exact invJ_deleteClient _ _ (invJ_frame h rfl)
      · exact invJ_frame h rfl
  · dsimp only
    have hd := invJ_dispatch (pollStep s inp).1 (pollStep s inp).2 o (invJ_frame h (pollStep_clients s inp))
    split
    · exact hd
    · exact invJ_frame hd rfl

theorem invJ_move (s : St) (m : Move) (h : InvJ s) : InvJ (move s m) := by
  cases m <;> simp only [move]
  case act a => exact invJ_applyAct s none a h
  case env e =>
    cases e <;> simp only [envStep]
    case peerSend i n =>
      split
      · rename_i c hc
        split
        · exact h
        · exact invJ_updSame h i c _ hc (by rfl) (by rfl) (by rfl)
      · exact h
    case peerClose i =>
      split
      · rename_i c hc
        split
        · exact invJ_updSame h i c _ hc (by rfl) (by rfl) (by rfl)
        · exact h
      · exact h
    case dial i => split <;> first | exact h | exact invJ_frame h rfl
    case advance dt => exact invJ_frame h rfl
    case connFail i => split <;> first | exact h | exact invJ_frame h rfl
  case mkPair i => exact invJ_mkPair s i h
  case mkListener i =>
    unfold mkListener; dsimp only; split
    · exact invJ_frame h (by rw [pollSet_clients])
    · exact h
  case mkEst i =>
    unfold mkEst; dsimp only; split
    · exact invJ_frame h (by rw [pollSet_clients])
    · exact h
  case script i k acts => exact invJ_frame h rfl
  case enter => unfold enterRun; split <;> first | exact h | exact invJ_frame h rfl
  case intrBegin => split <;> first | exact h | exact invJ_frame h rfl
  case intrEnd => split <;> first | exact h | exact invJ_frame h rfl
  case step inp o => exact invJ_step s inp o h
  case clear =>
    split
    · intro i c hc; simp [clearAll] at hc
    · exact h
  case failCreate => exact h

theorem invJ_reach (ms : List Move) : InvJ (reach ms) := by
  have : ∀ (s : St), InvJ s → InvJ (runMoves s ms) := by
    induction ms with
    | nil => intro s h; exact h
    | cons m ms ih => intro s h; exact ih _ (invJ_move s m h)
  exact this init (by intro i c hc; simp [init] at hc)

end Nstd.Server.C14
