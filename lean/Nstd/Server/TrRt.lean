import Nstd.Server.ModelC14
/-
  Run-time of the TRANSLATED Server code (tools/gen_server.py → Nstd/Generated/ServerTr.lean).

  The translator turns the bodies of `ClientImpl::suspend/resume/write/read`, of the read / write-ready branches of
  `Server::Private::run`, of `Socket::send`, the first `switch` of `Socket::recv`, and of `Poll::Private::mapEvents/unmapEvents`
  (CURRENT Server.cpp / Socket.cpp, after `g++ -E`) statement by statement into Lean functions.  Control flow (if / else,
  switch with fall-through, break, continue, early return, the order of the calls), the flag expressions and the integer
  comparisons are translated; the calls on the rest of the system are the PRIMITIVES below — what a primitive means is given by
  an instance (`Nstd/Server/TrC14.lean`: the event-loop model; `TrC13.lean`: the byte-level one-client model), and
  `PropsTr*.lean` proves translated body = model step.
-/
namespace Nstd.Server.Tr
open Nstd.Server.C14 (Flags)

/-- native epoll bits by the names the C++ uses -/
structure NBits where
  inn : Bool := false     -- EPOLLIN
  out : Bool := false     -- EPOLLOUT
  err : Bool := false     -- EPOLLERR
  hup : Bool := false     -- EPOLLHUP
  rdhup : Bool := false   -- EPOLLRDHUP
  pri : Bool := false     -- EPOLLPRI
  deriving DecidableEq, Repr

namespace NBits
def union (x y : NBits) : NBits := ⟨x.inn || y.inn, x.out || y.out, x.err || y.err, x.hup || y.hup, x.rdhup || y.rdhup, x.pri || y.pri⟩
def inter (x y : NBits) : NBits := ⟨x.inn && y.inn, x.out && y.out, x.err && y.err, x.hup && y.hup, x.rdhup && y.rdhup, x.pri && y.pri⟩
def compl (x : NBits) : NBits := ⟨!x.inn, !x.out, !x.err, !x.hup, !x.rdhup, !x.pri⟩
def isZero (x : NBits) : Bool := !(x.inn || x.out || x.err || x.hup || x.rdhup || x.pri)
end NBits

/-- `x & y`, `~x` on Poll flag sets (`x | y` is `Flags.union`, `x == 0` is `Flags.isZero`) -/
def finter (x y : Flags) : Flags := ⟨x.r && y.r, x.w && y.w, x.a && y.a, x.c && y.c⟩
def fcompl (x : Flags) : Flags := ⟨!x.r, !x.w, !x.a, !x.c⟩

/-- what the translated client code calls; `σ` = the state of the system as seen from ONE client (`this` / `client`) -/
structure ClientPrims (σ : Type) where
  bufIsEmpty : σ → Bool               -- _sendBuffer.isEmpty()
  bufSize : σ → Int                   -- _sendBuffer.size()
  bufAppend : σ → Int → Int → σ       -- _sendBuffer.append(data + off, len)      (data = the argument of write)
  bufRemoveFront : σ → Int → σ        -- _sendBuffer.removeFront(n)
  bufFree : σ → σ                     -- _sendBuffer.free()
  suspended : σ → Bool                -- _suspended
  setSuspended : σ → Bool → σ
  lastError : σ → Int                 -- Socket::getLastError()
  send : σ → Bool → Int → σ × Int     -- send(data, n) (false) / send(_sendBuffer, n) (true): new state and the result
  recv : σ → Int → σ × Int            -- recv(buffer, maxSize)
  pollSet : σ → Flags → σ             -- _sockets.set(client, flags)
  pollRemove : σ → σ                  -- _sockets.remove(client)
  closingAppend : σ → σ               -- _closingClients.append(&client)
  onRead : σ → σ                      -- client._callback->onRead()
  onWrite : σ → σ
  onClosed : σ → σ

/-- what the translated `Socket::send` / `Socket::recv` call: the system call answers `(result, errno)` -/
structure SysPrims (σ : Type) where
  errno : σ → Int
  setErrno : σ → Int → σ
  sysSend : σ → Int → σ × Int         -- ::send(s, data, size, MSG_NOSIGNAL)
  sysRecv : σ → Int → σ × Int         -- ::recv(s, data, maxSize, 0)

/-- `Socket::Poll::Private::set / remove` for ONE socket (`socket`): the two hash maps as cells of that socket.
    Iterators are the result of the `find` (found or not), references are the cells themselves. -/
structure PollPrims (σ : Type) where
  sockFind : σ → Bool                 -- sockets.find(&socket) != sockets.end()
  sockEvents : σ → Flags              -- sockInfo.events
  setSockEvents : σ → Flags → σ
  sockFd : σ → Int                    -- socket.s
  sockAppend : σ → σ                  -- sockets.append(&socket, SocketInfo())
  sockRemove : σ → σ                  -- sockets.remove(it)
  selIsEmpty : σ → Bool               -- selectedSockets.isEmpty()
  selFind : σ → Bool                  -- selectedSockets.find(&socket) != selectedSockets.end()
  selEvents : σ → Flags               -- *it (uint&)
  setSelEvents : σ → Flags → σ
  selRemove : σ → σ                   -- selectedSockets.remove(it) / remove(&socket)
  epollCtl : σ → Nat → NBits → σ      -- VERIFY(epoll_ctl(fd, op, s, &ev) == 0) with ev.events = the mask

/-- one iteration of the timer loop of `Server::Private::run`; `timer` = the value popped by `_queuedTimers.front()` -/
structure TimerPrims (σ : Type) where
  queueFrontKey : σ → Int             -- _queuedTimers.begin().key()
  queueFront : σ → σ                  -- TimerImpl *timer = _queuedTimers.front()   (latches the pointer)
  curIsUser : σ → Bool                -- timer != nullptr
  queueRemoveFront : σ → σ
  timerExec : σ → Int                 -- timer->executionTime
  setTimerExec : σ → Int → σ
  timerInterval : σ → Int
  queueInsertCur : σ → Int → σ        -- _queuedTimers.insert(key, timer)
  queueInsertDefault : σ → Int → σ    -- _queuedTimers.insert(key, 0)
  onActivated : σ → σ                 -- timer->callback.onActivated()

/-- one iteration of the closing loop; `client` = `*_closingClients.front()` -/
structure ClosingPrims (σ : Type) where
  closingIsEmpty : σ → Bool
  closingFront : σ → σ                -- ClientImpl &client = *_closingClients.front()   (latches the client)
  closingRemoveFront : σ → σ
  hasCallback : σ → Bool              -- client._callback != nullptr
  removedFlag : σ → Bool              -- client._removed
  onClosed : σ → σ
  deleteClient : σ → σ

end Nstd.Server.Tr
