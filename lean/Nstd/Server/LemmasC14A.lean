import Nstd.Server.LemmasC14T
/-
  C14 — the timer invariant `InvT` is preserved by every API call, every callback script,
  every step of run() and every environment action.
-/
namespace Nstd.Server.C14
open Nstd.Server.C13 (Outcome SendRes sendOS)

theorem upd_used_mono (u : Id → Bool) (i j : Id) (h : u j = true) : upd u i true j = true := by
  unfold upd; by_cases hj : j = i <;> simp [hj, h]

/-! ### frame: functions that do not touch the timer structures -/

theorem pollSet_sameT (s : St) (i : Id) (ev : Flags) : SameT s (pollSet s i ev) := by
  unfold pollSet
  try dsimp only
  repeat' split
  all_goals exact ⟨rfl, rfl, fun _ h => h⟩

theorem pollRemove_sameT (s : St) (i : Id) : SameT s (pollRemove s i) := by
  unfold pollRemove
  try dsimp only
  repeat' split
  all_goals exact ⟨rfl, rfl, fun _ h => h⟩

theorem markGone_sameT (s : St) (i : Id) : SameT s (markGone s i) := ⟨rfl, rfl, fun _ h => h⟩

theorem deleteClient_sameT (s : St) (i : Id) : SameT s (deleteClient s i) := by
  unfold deleteClient
  refine SameT.trans (b := pollRemove { s with closing := s.closing.filter (· ≠ i) } i) ?_ ?_
  · exact SameT.trans (b := { s with closing := s.closing.filter (· ≠ i) }) ⟨rfl, rfl, fun _ h => h⟩ (pollRemove_sameT _ _)
  · exact ⟨rfl, rfl, fun _ h => h⟩

theorem rmClient_sameT (s : St) (i : Id) : SameT s (rmClient s i) := by
  unfold rmClient
  split
  · split
    · exact deleteClient_sameT s i
    · exact ⟨rfl, rfl, fun _ h => h⟩
  · exact SameT.refl s

theorem rmListener_sameT (s : St) (i : Id) : SameT s (rmListener s i) := by
  unfold rmListener
  split
  · exact SameT.trans (pollRemove_sameT s i) ⟨rfl, rfl, fun _ h => h⟩
  · exact SameT.refl s

theorem rmEst_sameT (s : St) (i : Id) : SameT s (rmEst s i) := by
  unfold rmEst
  split
  · exact SameT.trans (pollRemove_sameT s i) ⟨rfl, rfl, fun _ h => h⟩
  · exact SameT.refl s

theorem interrupt_sameT (s : St) : SameT s (interrupt s) := by
  unfold interrupt; split <;> exact ⟨rfl, rfl, fun _ h => h⟩

theorem suspend_sameT (s : St) (i : Id) : SameT s (suspend s i) := by
  unfold suspend
  split
  · split
    · exact SameT.refl s
    · exact SameT.trans (b := { s with clients := _ }) ⟨rfl, rfl, fun _ h => h⟩ (pollSet_sameT _ _ _)
  · exact SameT.refl s

theorem resume_sameT (s : St) (i : Id) : SameT s (resume s i) := by
  unfold resume
  split
  · split
    · exact SameT.refl s
    · exact SameT.trans (b := { s with clients := _ }) ⟨rfl, rfl, fun _ h => h⟩ (pollSet_sameT _ _ _)
  · exact SameT.refl s

theorem addClosing_sameT (s : St) (i : Id) : SameT s (addClosing s i) := ⟨rfl, rfl, fun _ h => h⟩

theorem read_sameT (s : St) (i : Id) : SameT s (read s i) := by
  unfold read
  try dsimp only
  repeat' split
  all_goals first | exact ⟨rfl, rfl, fun _ h => h⟩ | exact addClosing_sameT _ _

theorem write_sameT (s : St) (i : Id) (n : Nat) (o : Outcome) : SameT s (write s i n o) := by
  unfold write
  try dsimp only
  repeat' split
  all_goals first
    | exact ⟨rfl, rfl, fun _ h => h⟩
    | exact addClosing_sameT _ _
    | exact SameT.trans (b := { s with clients := _ }) ⟨rfl, rfl, fun _ h => h⟩ (pollSet_sameT _ _ _)

theorem newClient_sameT (s : St) (nc : Id) (u : Bool) : SameT s (newClient s nc u) := by
  unfold newClient
  exact SameT.trans (b := { s with clients := _, used := upd s.used nc true, order := _, nextAuto := _ })
    ⟨rfl, rfl, fun j h => upd_used_mono s.used nc j h⟩ (pollSet_sameT _ _ _)

theorem finishHandOver_sameT (s : St) (nc : Id) (acts : List Act) : SameT s (finishHandOver s nc acts) := by
  unfold finishHandOver
  try dsimp only
  repeat' split
  all_goals first | exact ⟨rfl, rfl, fun _ h => h⟩ | exact deleteClient_sameT _ _

theorem envStep_sameT (s : St) (e : EnvOp) : SameT s (envStep s e) := by
  cases e <;> unfold envStep <;> dsimp only <;> (repeat' split) <;> exact ⟨rfl, rfl, fun _ h => h⟩

theorem mkPair_sameT (s : St) (i : Id) : SameT s (mkPair s i) := by
  unfold mkPair
  split
  · exact SameT.trans (b := { s with clients := _, used := upd s.used i true, order := _ })
      ⟨rfl, rfl, fun j h => upd_used_mono s.used i j h⟩ (pollSet_sameT _ _ _)
  · exact SameT.refl s

theorem mkListener_sameT (s : St) (i : Id) : SameT s (mkListener s i) := by
  unfold mkListener
  split
  · exact SameT.trans (b := { s with listeners := _, used := upd s.used i true, order := _ })
      ⟨rfl, rfl, fun j h => upd_used_mono s.used i j h⟩ (pollSet_sameT _ _ _)
  · exact SameT.refl s

theorem mkEst_sameT (s : St) (i : Id) : SameT s (mkEst s i) := by
  unfold mkEst
  split
  · exact SameT.trans (b := { s with ests := _, used := upd s.used i true, order := _ })
      ⟨rfl, rfl, fun j h => upd_used_mono s.used i j h⟩ (pollSet_sameT _ _ _)
  · exact SameT.refl s

theorem pollStep_sameT (s : St) (inp : PollIn) : SameT s (pollStep s inp).1 := by
  unfold pollStep
  try dsimp only
  repeat' split
  all_goals exact ⟨rfl, rfl, fun _ h => h⟩

/-! ### the timer calls -/

theorem mkTimer_invT (s : St) (i : Id) (iv0 : Int) (h : InvT s) : InvT (mkTimer s i iv0) := by
  unfold mkTimer
  by_cases hf : fresh s i = true
  · simp only [hf, if_true]
    generalize hiv : (if iv0 < 1 then (1 : Int) else iv0) = iv
    have hpos : 0 < iv := by
      rw [← hiv]; by_cases hlt : iv0 < 1 <;> simp [hlt] <;> omega
    have hu : s.used i = false := by
      unfold fresh at hf; cases hx : s.used i <;> simp [hx] at hf ⊢
    have hnone : s.timers i = none := by
      cases ht : s.timers i with
      | none => rfl
      | some t => have := h.usedT i t ht; simp [hu] at this
    have hd := h.dead i hnone
    refine ⟨sorted_qInsert _ _ _ h.sorted, ?_, ?_, ?_, ?_, ?_⟩
    · intro j t hj
      by_cases hji : j = i
      · subst hji
        simp [upd] at hj; subst hj
        exact ents_qInsert_self _ _ _ hd
      · simp [upd, hji] at hj
        show entsOf (qInsert s.queue (s.clock + iv) (some i)) j = _
        rw [ents_qInsert_ne _ _ _ _ (by simp; exact fun h => hji h.symm)]
        exact h.live j t hj
    · intro j hj
      by_cases hji : j = i
      · subst hji; simp [upd] at hj
      · simp [upd, hji] at hj
        show entsOf (qInsert s.queue (s.clock + iv) (some i)) j = _
        rw [ents_qInsert_ne _ _ _ _ (by simp; exact fun h => hji h.symm)]
        exact h.dead j hj
    · obtain ⟨k, hk⟩ := h.dflt
      exact ⟨k, (mem_qInsert _ _ _ _).mpr (Or.inr hk)⟩
    · intro j t hj
      by_cases hji : j = i
      · subst hji; simp [upd]
      · simp [upd, hji] at hj ⊢
        exact h.usedT j t hj
    · intro j t hj
      by_cases hji : j = i
      · subst hji; simp [upd] at hj; subst hj; exact hpos
      · simp [upd, hji] at hj; exact h.pos j t hj
  · simp only [hf, Bool.false_eq_true, if_false]; exact h

theorem rmTimer_invT (s : St) (i : Id) (h : InvT s) : InvT (rmTimer s i) := by
  unfold rmTimer
  cases ht : s.timers i with
  | none => exact h
  | some t =>
    simp only
    obtain ⟨a1, a2, a3, a4⟩ := qErase_spec s.queue t.exec i h.sorted (h.live i t ht)
    refine ⟨a3, ?_, ?_, ?_, ?_, ?_⟩
    · intro j tj hj
      by_cases hji : j = i
      · subst hji; simp [markGone, upd] at hj
      · simp [markGone, upd, hji] at hj
        show entsOf (qEraseTimer s.queue t.exec i) j = _
        rw [a2 j hji]; exact h.live j tj hj
    · intro j hj
      by_cases hji : j = i
      · subst hji; exact a1
      · simp [markGone, upd, hji] at hj
        show entsOf (qEraseTimer s.queue t.exec i) j = _
        rw [a2 j hji]; exact h.dead j hj
    · obtain ⟨k, hk⟩ := h.dflt
      exact ⟨k, a4 k hk⟩
    · intro j tj hj
      by_cases hji : j = i
      · subst hji; simp [markGone, upd] at hj
      · simp [markGone, upd, hji] at hj
        exact h.usedT j tj hj
    · intro j tj hj
      by_cases hji : j = i
      · subst hji; simp [markGone, upd] at hj
      · simp [markGone, upd, hji] at hj
        exact h.pos j tj hj

theorem applyAct_invT (s : St) (nc : Option Id) (a : Act) (h : InvT s) : InvT (applyAct s nc a) := by
  cases a <;> unfold applyAct
  case mkTimer i iv => exact mkTimer_invT s i iv h
  case rmTimer i => exact rmTimer_invT s i h
  case rmClient i => exact h.same (rmClient_sameT s i)
  case rmListener i => exact h.same (rmListener_sameT s i)
  case rmEst i => exact h.same (rmEst_sameT s i)
  case rmNew => cases nc <;> simp only <;> first | exact h | exact h.same (rmClient_sameT s _)
  case retNull => exact h
  case interrupt => exact h.same (interrupt_sameT s)
  case suspend i => exact h.same (suspend_sameT s i)
  case resume i => exact h.same (resume_sameT s i)
  case read i => exact h.same (read_sameT s i)
  case write i n o => exact h.same (write_sameT s i n o)
  case mkPair i => exact h.same (mkPair_sameT s i)
  case mkListener i => exact h.same (mkListener_sameT s i)
  case mkEst i => exact h.same (mkEst_sameT s i)

theorem runActs_invT (s : St) (nc : Option Id) (acts : List Act) (h : InvT s) : InvT (runActs s nc acts) := by
  induction acts generalizing s with
  | nil => exact h
  | cons a as ih => exact ih _ (applyAct_invT s nc a h)

theorem callback_invT (s : St) (i : Id) (nc : Option Id) (h : InvT s) : InvT (callback s i nc).1 := by
  unfold callback
  exact runActs_invT _ nc _ (h.same ⟨rfl, rfl, fun _ h => h⟩)

theorem writeReady_invT (s : St) (i : Id) (o : Outcome) (h : InvT s) : InvT (writeReady s i o).1 := by
  unfold writeReady
  try dsimp only
  repeat' split
  all_goals first
    | exact h
    | exact h.same ⟨rfl, rfl, fun _ h => h⟩
    | (apply callback_invT; first
        | exact h.same (SameT.trans (b := { s with clients := _ }) ⟨rfl, rfl, fun _ h => h⟩ (pollRemove_sameT _ _))
        | exact h.same (SameT.trans (b := { s with clients := _ }) ⟨rfl, rfl, fun _ h => h⟩ (pollSet_sameT _ _ _))
        | exact h.same (pollSet_sameT _ _ _))

theorem handOver_invT (s : St) (i nc : Id) (h : InvT s) :
    InvT (finishHandOver (callback s i (some nc)).1 nc (callback s i (some nc)).2) :=
  (callback_invT s i (some nc) h).same (finishHandOver_sameT _ _ _)

theorem dispatch_invT (s : St) (ev : Option (Id × Flags)) (o : Outcome) (h : InvT s) : InvT (dispatch s ev o).1 := by
  unfold dispatch
  try dsimp only
  repeat' split
  all_goals first
    | exact h
    | exact h.same ⟨rfl, rfl, fun _ h => h⟩
    | exact callback_invT _ _ _ h
    | exact writeReady_invT _ _ _ h
    | exact callback_invT _ _ _ (h.same (pollRemove_sameT _ _))
    | skip
  all_goals first
    | (exact handOver_invT _ _ _ (h.same (SameT.trans (b := { s with listeners := _ }) ⟨rfl, rfl, fun _ h => h⟩ (newClient_sameT _ _ _))))
    | (exact handOver_invT _ _ _ (h.same (SameT.trans (pollRemove_sameT s _)
        (SameT.trans (b := { (pollRemove s _) with ests := _ }) ⟨rfl, rfl, fun _ h => h⟩ (newClient_sameT _ _ _)))))

theorem step_invT (s : St) (inp : PollIn) (o : Outcome) (h : InvT s) : InvT (step s inp o).1 := by
  unfold step
  cases hpc : s.pc with
  | idle => exact h
  | timers now =>
    simp only
    cases hq : s.queue with
    | nil => exact h.same ⟨by simp [hq], rfl, fun _ h => h⟩
    | cons e rest =>
      obtain ⟨k, v⟩ := e
      simp only
      by_cases hk : k - now ≤ 0
      · simp only [hk, if_true]
        have hsort := h.sorted
        rw [hq] at hsort
        unfold SortedQ at hsort
        rw [List.pairwise_cons] at hsort
        cases v with
        | none =>
          simp only
          refine ⟨sorted_qInsert _ _ _ hsort.2, ?_, ?_, ⟨now + 300000, (mem_qInsert _ _ _ _).mpr (Or.inl rfl)⟩, h.usedT, h.pos⟩
          · intro j t hj
            show entsOf (qInsert rest (now + 300000) none) j = _
            rw [ents_qInsert_ne _ _ _ _ (by simp)]
            have := h.live j t hj
            rw [hq] at this
            simpa [entsOf, List.filter_cons] using this
          · intro j hj
            show entsOf (qInsert rest (now + 300000) none) j = _
            rw [ents_qInsert_ne _ _ _ _ (by simp)]
            have := h.dead j hj
            rw [hq] at this
            simpa [entsOf, List.filter_cons] using this
        | some t =>
          simp only
          cases ht : s.timers t with
          | none =>
            -- impossible: a queued entry belongs to a live timer
            exfalso
            have := h.dead t ht
            rw [hq] at this
            simp [entsOf, List.filter_cons] at this
          | some ti =>
            simp only
            apply callback_invT
            have hl := h.live t ti ht
            rw [hq] at hl
            simp only [entsOf, List.filter_cons, beq_self_eq_true, if_true] at hl
            have hrest : entsOf rest t = [] := (List.cons.inj hl).2
            refine ⟨sorted_qInsert _ _ _ hsort.2, ?_, ?_, ?_, ?_, ?_⟩
            · intro j tj hj
              by_cases hjt : j = t
              · subst hjt
                simp [upd] at hj; subst hj
                exact ents_qInsert_self _ _ _ hrest
              · simp [upd, hjt] at hj
                show entsOf (qInsert rest _ (some t)) j = _
                rw [ents_qInsert_ne _ _ _ _ (by simp; exact fun h => hjt h.symm)]
                have := h.live j tj hj
                rw [hq] at this
                have hne : ((some t : Option Id) == some j) = false := by simp; exact fun h => hjt h.symm
                simpa [entsOf, List.filter_cons, hne] using this
            · intro j hj
              by_cases hjt : j = t
              · subst hjt; simp [upd] at hj
              · simp [upd, hjt] at hj
                show entsOf (qInsert rest _ (some t)) j = _
                rw [ents_qInsert_ne _ _ _ _ (by simp; exact fun h => hjt h.symm)]
                have := h.dead j hj
                rw [hq] at this
                have hne : ((some t : Option Id) == some j) = false := by simp; exact fun h => hjt h.symm
                simpa [entsOf, List.filter_cons, hne] using this
            · obtain ⟨k0, hk0⟩ := h.dflt
              rw [hq] at hk0
              rcases List.mem_cons.mp hk0 with h0 | h0
              · simp at h0
              · exact ⟨k0, (mem_qInsert _ _ _ _).mpr (Or.inr h0)⟩
            · intro j tj hj
              by_cases hjt : j = t
              · subst hjt; exact h.usedT j ti ht
              · simp [upd, hjt] at hj; exact h.usedT j tj hj
            · intro j tj hj
              by_cases hjt : j = t
              · subst hjt; simp [upd] at hj; subst hj; exact h.pos j ti ht
              · simp [upd, hjt] at hj; exact h.pos j tj hj
      · simp only [hk, if_false]
        exact h.same ⟨by simp [hq], rfl, fun _ h => h⟩
  | closing now tmo =>
    simp only
    repeat' split
    all_goals first
      | exact h.same ⟨rfl, rfl, fun _ h => h⟩
      | exact callback_invT _ _ _ (h.same ⟨rfl, rfl, fun _ h => h⟩)
      | exact h.same (SameT.trans (b := { s with closing := _ }) ⟨rfl, rfl, fun _ h => h⟩ (deleteClient_sameT _ _))
  | poll now tmo =>
    simp only
    have h1 : InvT (pollStep s inp).1 := h.same (pollStep_sameT s inp)
    have h2 := dispatch_invT (pollStep s inp).1 (pollStep s inp).2 o h1
    split
    · exact h2
    · exact h2.same ⟨rfl, rfl, fun _ h => h⟩

end Nstd.Server.C14
