import Nstd.Server.LiveKeepC14
/-
  C14 — a pending interrupt makes run() return after finitely many steps for ARBITRARY callback scripts
  (generalises `eventually_returns` of TermC14, which needed quiet scripts).
-/
namespace Nstd.Server.C14
open Nstd.Server.C13 (Outcome SendRes sendOS)

theorem step_progress_intr_gen (s : St) (inp : PollIn) (o : Outcome) (hinv : Inv s) (hck : ClockOk s) (hcalm : ClosingCalm s)
    (hint : s.interrupted = true) (hfd : s.eventfd ≠ 0) (he : inp.eventfd = true) (hpc : s.pc ≠ .idle) :
    (step s inp o).1.pc = .idle ∨ lt3 (meas (step s inp o).1) (meas s) := by
  rcases step_progress_gen s inp o hinv hck hcalm hpc with ⟨now, tmo, hp, hsel⟩ | h
  · left
    have hpp : (pollStep s inp).2 = none ∧ (pollStep s inp).1.interrupted = true := by
      unfold pollStep
      simp [hsel, he, hfd, hint]
    unfold step
    simp only [hp]
    rw [hpp.1]
    unfold dispatch
    simp [hpp.2]
  · exact h

theorem eventually_returns_gen (m : Nat × Nat × Nat) : ∀ (s : St) (f : Nat → PollIn × Outcome), meas s = m →
    Inv s → ClockOk s → (s.interrupted = true → 0 < s.eventfd + s.pendingEfd) → s.interrupted = true →
    (∀ n, (f n).1.eventfd = true) → (∀ n, ClosingCalm (runN s f n) ∧ (runN s f n).pendingEfd = 0) →
    ∃ n, (runN s f n).pc = .idle := by
  induction m using lt3_wf.induction with
  | _ m ih =>
    intro s f hm hinv hck hI hint hf hg
    by_cases hpc : s.pc = .idle
    · exact ⟨0, hpc⟩
    · have hq := (hg 0).1
      have hp0 : s.pendingEfd = 0 := (hg 0).2
      have hfd : s.eventfd ≠ 0 := by have := hI hint; omega
      simp only [runN] at hq hp0
      rcases step_progress_intr_gen s (f 0).1 (f 0).2 hinv hck hq hint hfd (hf 0) hpc with h | h
      · exact ⟨1, h⟩
      · obtain ⟨_, hI', _, hint', _⟩ := step_rel s (f 0).1 (f 0).2
        rcases hint' hint with hi | hi
        · obtain ⟨n, hn⟩ := ih _ (hm ▸ h) (step s (f 0).1 (f 0).2).1 (fun k => f (k + 1)) rfl
            (inv_move s (.step (f 0).1 (f 0).2) hinv) (step_clockOk s _ _ hck) (hI' hI) hi (fun n => hf (n + 1)) (fun n => hg (n + 1))
          exact ⟨n + 1, hn⟩
        · exact ⟨1, hi⟩

end Nstd.Server.C14
