import Nstd.Server.BatchC14
import Nstd.Server.RefineC13C14
/-
  C14 — membership in the closing list (`_closingClients`) persists until the client is handed to onClosed by
  the closing loop or deleted; run() does not poll before that.
-/
namespace Nstd.Server.C14
open Nstd.Server.C13 (Outcome SendRes sendOS)
open Nstd.Server.Refine (pollSet_closing)

/-- client `i` stays queued for onClosed unless it is deleted (`gone` is permanent) -/
def Keeps (i : Id) (s s' : St) : Prop :=
  (i ∈ s.closing → i ∈ s'.closing ∨ s'.gone i = true) ∧ (s.gone i = true → s'.gone i = true)

theorem Keeps.frame {i : Id} {s s' : St} (h1 : s'.closing = s.closing) (h2 : s'.gone = s.gone) : Keeps i s s' :=
  ⟨fun h => Or.inl (h1 ▸ h), fun h => h2 ▸ h⟩

theorem Keeps.refl (i : Id) (s : St) : Keeps i s s := Keeps.frame rfl rfl

theorem Keeps.trans {i : Id} {a b c : St} (h1 : Keeps i a b) (h2 : Keeps i b c) : Keeps i a c := by
  refine ⟨fun h => ?_, fun h => h2.2 (h1.2 h)⟩
  rcases h1.1 h with h' | h'
  · exact h2.1 h'
  · exact Or.inr (h2.2 h')

theorem pollRemove_closing (s : St) (i : Id) : (pollRemove s i).closing = s.closing ∧ (pollRemove s i).gone = s.gone := by
  unfold pollRemove; split <;> exact ⟨rfl, rfl⟩

theorem pollSet_gone (s : St) (i : Id) (ev : Flags) : (pollSet s i ev).gone = s.gone := by
  unfold pollSet
  dsimp only
  repeat' split
  all_goals rfl

theorem pollSet_keeps (j : Id) (s : St) (i : Id) (ev : Flags) : Keeps j s (pollSet s i ev) :=
  Keeps.frame (pollSet_closing s i ev) (pollSet_gone s i ev)

theorem pollRemove_keeps (j : Id) (s : St) (i : Id) : Keeps j s (pollRemove s i) :=
  Keeps.frame (pollRemove_closing s i).1 (pollRemove_closing s i).2

theorem markGone_keeps (j : Id) (s : St) (i : Id) : Keeps j s (markGone s i) :=
  ⟨fun h => Or.inl h, fun h => upd_used_mono s.gone i j h⟩

theorem deleteClient_keeps (j : Id) (s : St) (i : Id) : Keeps j s (deleteClient s i) := by
  unfold deleteClient
  dsimp only
  have h1 : Keeps j s { s with closing := s.closing.filter (· ≠ i) } ∨ j = i := by
    by_cases hji : j = i
    · exact Or.inr hji
    · exact Or.inl ⟨fun h => Or.inl (List.mem_filter.mpr ⟨h, by simpa using hji⟩), fun h => h⟩
  rcases h1 with h1 | rfl
  · exact Keeps.trans h1 (Keeps.trans (pollRemove_keeps j _ i)
      (Keeps.trans (b := { (pollRemove { s with closing := s.closing.filter (· ≠ i) } i) with clients := _ })
        (Keeps.frame rfl rfl) (markGone_keeps j _ i)))
  · refine ⟨fun _ => Or.inr ?_, fun h => ?_⟩
    · simp [markGone, upd]
    · simp only [markGone]; exact upd_used_mono _ j j (by rw [(pollRemove_closing _ j).2]; exact h)

theorem addClosing_keeps (j : Id) (s : St) (i : Id) : Keeps j s (addClosing s i) := by
  unfold addClosing
  refine ⟨fun h => Or.inl ?_, fun h => h⟩
  dsimp only
  split
  · exact h
  · exact List.mem_append_left _ h

theorem rmClient_keeps (j : Id) (s : St) (i : Id) : Keeps j s (rmClient s i) := by
  unfold rmClient
  split
  · split
    · exact deleteClient_keeps j s i
    · refine ⟨fun h => Or.inl ?_, fun h => h⟩
      dsimp only
      split
      · exact h
      · exact List.mem_append_left _ h
  · exact Keeps.refl j s

theorem rmListener_keeps (j : Id) (s : St) (i : Id) : Keeps j s (rmListener s i) := by
  unfold rmListener
  split
  · dsimp only
    exact Keeps.trans (pollRemove_keeps j s i) (Keeps.trans (b := { (pollRemove s i) with listeners := _ }) (Keeps.frame rfl rfl) (markGone_keeps j _ i))
  · exact Keeps.refl j s

theorem rmEst_keeps (j : Id) (s : St) (i : Id) : Keeps j s (rmEst s i) := by
  unfold rmEst
  split
  · dsimp only
    exact Keeps.trans (pollRemove_keeps j s i) (Keeps.trans (b := { (pollRemove s i) with ests := _ }) (Keeps.frame rfl rfl) (markGone_keeps j _ i))
  · exact Keeps.refl j s

theorem updSet_keeps (j : Id) (s : St) (i : Id) (c' : ClientS) (ev : Flags) :
    Keeps j s (pollSet { s with clients := upd s.clients i (some c') } i ev) :=
  Keeps.trans (b := { s with clients := upd s.clients i (some c') }) (Keeps.frame rfl rfl) (pollSet_keeps j _ _ _)

theorem updRemove_keeps (j : Id) (s : St) (i : Id) (c' : ClientS) :
    Keeps j s (pollRemove { s with clients := upd s.clients i (some c') } i) :=
  Keeps.trans (b := { s with clients := upd s.clients i (some c') }) (Keeps.frame rfl rfl) (pollRemove_keeps j _ _)

theorem suspend_keeps (j : Id) (s : St) (i : Id) : Keeps j s (suspend s i) := by
  unfold suspend
  repeat' split
  all_goals first | exact Keeps.refl j s | exact updSet_keeps j s i _ _

theorem resume_keeps (j : Id) (s : St) (i : Id) : Keeps j s (resume s i) := by
  unfold resume
  repeat' split
  all_goals first | exact Keeps.refl j s | exact updSet_keeps j s i _ _

theorem read_keeps (j : Id) (s : St) (i : Id) : Keeps j s (read s i) := by
  unfold read
  repeat' split
  all_goals first | exact Keeps.frame rfl rfl | exact addClosing_keeps j s i

theorem write_keeps (j : Id) (s : St) (i : Id) (n : Nat) (o : Outcome) : Keeps j s (write s i n o) := by
  unfold write
  repeat' split
  all_goals first | exact Keeps.frame rfl rfl | exact addClosing_keeps j s i | exact updSet_keeps j s i _ _

theorem mk_keeps (j : Id) (s : St) (i : Id) :
    Keeps j s (mkPair s i) ∧ Keeps j s (mkListener s i) ∧ Keeps j s (mkEst s i) := by
  refine ⟨?_, ?_, ?_⟩
  · unfold mkPair; dsimp only; split
    · exact Keeps.frame (by rw [pollSet_closing]) (by rw [pollSet_gone])
    · exact Keeps.refl j s
  · unfold mkListener; dsimp only; split
    · exact Keeps.frame (by rw [pollSet_closing]) (by rw [pollSet_gone])
    · exact Keeps.refl j s
  · unfold mkEst; dsimp only; split
    · exact Keeps.frame (by rw [pollSet_closing]) (by rw [pollSet_gone])
    · exact Keeps.refl j s

theorem applyAct_keeps (j : Id) (s : St) (nc : Option Id) (a : Act) : Keeps j s (applyAct s nc a) := by
  cases a <;> simp only [applyAct]
  case mkTimer i iv => unfold mkTimer; dsimp only; split <;> exact Keeps.frame rfl rfl
  case rmTimer i =>
    unfold rmTimer
    split
    · exact ⟨fun h => Or.inl h, fun h => upd_used_mono s.gone i j h⟩
    · exact Keeps.refl j s
  case rmClient i => exact rmClient_keeps j s i
  case rmListener i => exact rmListener_keeps j s i
  case rmEst i => exact rmEst_keeps j s i
  case rmNew => cases nc <;> simp only <;> first | exact Keeps.refl j s | exact rmClient_keeps j s _
  case retNull => exact Keeps.refl j s
  case interrupt => unfold interrupt; split <;> exact Keeps.frame rfl rfl
  case suspend i => exact suspend_keeps j s i
  case resume i => exact resume_keeps j s i
  case read i => exact read_keeps j s i
  case write i n o => exact write_keeps j s i n o
  case mkPair i => exact (mk_keeps j s i).1
  case mkListener i => exact (mk_keeps j s i).2.1
  case mkEst i => exact (mk_keeps j s i).2.2

theorem runActs_keeps (j : Id) (s : St) (nc : Option Id) (acts : List Act) : Keeps j s (runActs s nc acts) := by
  induction acts generalizing s with
  | nil => exact Keeps.refl j s
  | cons a as ih => exact Keeps.trans (applyAct_keeps j s nc a) (ih _)

theorem callback_keeps (j : Id) (s : St) (i : Id) (nc : Option Id) : Keeps j s (callback s i nc).1 := by
  unfold callback
  dsimp only
  exact Keeps.trans (Keeps.frame (s' := { s with calls := upd s.calls i (s.calls i + 1) }) rfl rfl) (runActs_keeps j _ _ _)

theorem keeps_callback_of_frame (j : Id) (s s1 : St) (i : Id) (nc : Option Id) (h1 : s1.closing = s.closing)
    (h2 : s1.gone = s.gone) : Keeps j s (callback s1 i nc).1 :=
  Keeps.trans (Keeps.frame h1 h2) (callback_keeps j s1 i nc)

def InLoop (s : St) : Prop := (∃ now, s.pc = .timers now) ∨ (∃ now tmo, s.pc = .closing now tmo)

/-- one step of run() from the timer or closing loop with client `i` queued for onClosed: the step delivers
    onClosed to `i`, or `i` has been deleted, or `i` is still queued and run() is still before the poll -/
theorem closing_member_step (s : St) (inp : PollIn) (o : Outcome) (hS : InvS s none) (i : Id)
    (hi : i ∈ s.closing) (hl : InLoop s) :
    Ev.onClosed i ∈ (step s inp o).2 ∨ (step s inp o).1.gone i = true ∨
      (i ∈ (step s inp o).1.closing ∧ InLoop (step s inp o).1) := by
  have fin : ∀ (s' : St) (evs : List Ev), Keeps i s s' → InLoop s' →
      Ev.onClosed i ∈ evs ∨ s'.gone i = true ∨ (i ∈ s'.closing ∧ InLoop s') := by
    intro s' evs hk hl'
    rcases hk.1 hi with h | h
    · exact Or.inr (Or.inr ⟨h, hl'⟩)
    · exact Or.inr (Or.inl h)
  unfold step
  split
  · rename_i hpc; rcases hl with ⟨n, h⟩ | ⟨n, t, h⟩ <;> rw [hpc] at h <;> cases h
  · rename_i now hpc
    split
    · exact fin _ _ (Keeps.frame rfl rfl) (Or.inl ⟨now, hpc⟩)
    · split
      · split
        · split
          · dsimp only
            refine fin _ _ (keeps_callback_of_frame i s _ _ _ rfl rfl) ?_
            exact Or.inl ⟨now, by rw [(callback_rel _ _ _).1]; exact hpc⟩
          · exact fin _ _ (Keeps.frame rfl rfl) (Or.inl ⟨now, hpc⟩)
        · exact fin _ _ (Keeps.frame rfl rfl) (Or.inl ⟨now, hpc⟩)
      · exact fin _ _ (Keeps.frame rfl rfl) (Or.inr ⟨now, _, rfl⟩)
  · rename_i now tmo hpc
    split
    · rename_i hnil; rw [hnil] at hi; simp at hi
    · rename_i c rest hcl
      dsimp only
      have hc := hS.closing c (by rw [hcl]; exact List.mem_cons_self ..)
      cases hcc : s.clients c with
      | none => exact absurd hcc hc
      | some cl =>
        dsimp only
        have hloop : ∀ s' : St, s'.pc = s.pc → InLoop s' := fun s' h => Or.inr ⟨now, tmo, by rw [h]; exact hpc⟩
        by_cases hci : c = i
        · subst hci
          split
          · exact Or.inl (by simp)
          · refine Or.inr (Or.inl ?_)
            simp [deleteClient, markGone, upd]
        · have hir : i ∈ rest := by
            rw [hcl] at hi
            rcases List.mem_cons.mp hi with h | h
            · exact absurd h.symm hci
            · exact h
          have fin2 : ∀ (s' : St) (evs : List Ev), Keeps i { s with closing := rest } s' → InLoop s' →
              Ev.onClosed i ∈ evs ∨ s'.gone i = true ∨ (i ∈ s'.closing ∧ InLoop s') := by
            intro s' evs hk hl'
            rcases hk.1 hir with h | h
            · exact Or.inr (Or.inr ⟨h, hl'⟩)
            · exact Or.inr (Or.inl h)
          split
          · exact fin2 _ _ (callback_keeps i _ _ _) (hloop _ (callback_rel _ _ _).1)
          · exact fin2 _ _ (deleteClient_keeps i _ _) (hloop _ (deleteClient_rel _ _).1)
  · rename_i now tmo hpc; rcases hl with ⟨n, h⟩ | ⟨n, t, h⟩ <;> rw [hpc] at h <;> cases h

/-- a run of consecutive steps of run() and the callbacks it performs -/
def runSteps (s : St) : List (PollIn × Outcome) → St × List Ev
  | [] => (s, [])
  | (inp, o) :: r => ((runSteps (step s inp o).1 r).1, (step s inp o).2 ++ (runSteps (step s inp o).1 r).2)

end Nstd.Server.C14
