import Nstd.Server.LemmasC14F
/-
  The byte-level one-client model of C13 (ModelC13) and the count-level client of the event-loop model of C14
  (ModelC14) describe the same `ClientImpl`: `write`, `suspend`, `resume` commute with the abstraction
  "backlog ↦ its length, interest ↦ the registered flags, closing ↦ membership in `_closingClients`".
-/
namespace Nstd.Server.Refine
open Nstd.Server.C14

/-- client `i` of the event-loop state `s` is the abstraction of the one-client state `t` -/
def Sim (t : C13.St) (s : St) (i : Id) : Prop :=
  ∃ c reg, s.clients i = some c ∧ lookup s.sockets i = some reg ∧
    c.backlog = t.backlog.length ∧ c.suspended = t.suspended ∧ c.peerClosed = false ∧
    t.interest = some (reg.r, reg.w) ∧ reg.a = false ∧ reg.c = false ∧
    (i ∈ s.closing ↔ t.closing = true)

theorem pollSet_closing (s : St) (i : Id) (ev : Flags) : (pollSet s i ev).closing = s.closing := by
  unfold pollSet
  dsimp only
  repeat' split
  all_goals rfl

theorem sendOn_open (c : ClientS) (n : Nat) (o : C13.Outcome) (h : c.peerClosed = false) :
    sendOn c n o = C13.sendOS n o := by
  cases o <;> simp [sendOn, C13.sendOS, h]

theorem mem_addClosing (s : St) (i : Id) : i ∈ (addClosing s i).closing := by
  unfold addClosing
  dsimp only
  split
  · rename_i h; simpa using h
  · simp

/-- after `update the record + Poll::set(clientFlags …)` the abstraction holds for the new values -/
theorem sim_updSet (t' : C13.St) (s : St) (i : Id) (c' : ClientS)
    (hb : c'.backlog = t'.backlog.length) (hs : c'.suspended = t'.suspended) (hp : c'.peerClosed = false)
    (hi : t'.interest = some (!c'.suspended, c'.backlog != 0))
    (hc : i ∈ s.closing ↔ t'.closing = true) :
    Sim t' (pollSet { s with clients := upd s.clients i (some c') } i (clientFlags c'.suspended c'.backlog)) i := by
  obtain ⟨a, b, _⟩ := pollSet_lookup { s with clients := upd s.clients i (some c') } i (clientFlags c'.suspended c'.backlog)
  refine ⟨c', clientFlags c'.suspended c'.backlog, ?_, b, hb, hs, hp, ?_, rfl, rfl, ?_⟩
  · rw [a]; simp [upd]
  · simpa [clientFlags] using hi
  · rw [pollSet_closing]; exact hc

/-- `Client::write`: byte level and count level agree on the new backlog size, the poll registration and
    on whether the client was queued for onClosed -/
theorem write_refines (t : C13.St) (s : St) (i : Id) (d : List Nat) (o : C13.Outcome) (h : Sim t s i) :
    Sim (C13.write t d o).1 (write s i d.length o) i := by
  obtain ⟨c, reg, hc, hreg, hb, hs, hp, hi, ha, hcc, hcl⟩ := h
  unfold C13.write write
  simp only [hc]
  by_cases he : t.backlog.isEmpty = true
  · have hb0 : c.backlog = 0 := by
      rw [hb]; cases hx : t.backlog <;> simp_all
    have hbl : t.backlog = [] := by cases hx : t.backlog <;> simp_all
    simp only [he, hb0, if_true, sendOn_open c _ o hp]
    cases hr : C13.sendOS d.length o with
    | error =>
      refine ⟨c, reg, hc, hreg, hb, hs, hp, hi, ha, hcc, ?_⟩
      simp [mem_addClosing]
    | wouldblock =>
      by_cases hz : 0 ≥ d.length
      · simp only [hz, if_true]
        exact ⟨c, reg, hc, hreg, hb, hs, hp, hi, ha, hcc, hcl⟩
      · simp only [hz, if_false]
        apply sim_updSet
        · simp [C13.setInterest]
        · simp [C13.setInterest, hs]
        · exact hp
        · have : (d.length != 0) = true := by cases d <;> simp_all
          simp [C13.setInterest, hs, this]
        · simpa [C13.setInterest] using hcl
    | sent k =>
      cases k with
      | zero =>
        refine ⟨c, reg, hc, hreg, hb, hs, hp, hi, ha, hcc, ?_⟩
        simp [mem_addClosing]
      | succ k =>
        by_cases hz : k + 1 ≥ d.length
        · simp only [hz, if_true]
          exact ⟨c, reg, hc, hreg, by simpa [C13.hand] using hb, by simpa [C13.hand] using hs, hp,
            by simpa [C13.hand] using hi, ha, hcc, by simpa [C13.hand] using hcl⟩
        · simp only [hz, if_false]
          apply sim_updSet
          · simp [C13.setInterest, C13.hand]
          · simp [C13.setInterest, C13.hand, hs]
          · exact hp
          · have : (d.length - (k + 1) != 0) = true := by simp; omega
            simp [C13.setInterest, C13.hand, hs, this]
          · simpa [C13.setInterest, C13.hand] using hcl
  · have he' : t.backlog.isEmpty = false := by simpa using he
    have hbn : c.backlog ≠ 0 := by
      rw [hb]; cases hx : t.backlog <;> simp_all
    simp only [he', hbn, Bool.false_eq_true, if_false]
    refine ⟨{ c with backlog := c.backlog + d.length }, reg, by simp [upd], hreg, by simp [hb], hs, hp, hi, ha, hcc, hcl⟩

/-- `Client::suspend` / `Client::resume` -/
theorem suspend_refines (t : C13.St) (s : St) (i : Id) (h : Sim t s i) :
    Sim (C13.suspend t) (suspend s i) i := by
  obtain ⟨c, reg, hc, hr, hb, hs, hp, hi, ha, hcc, hcl⟩ := h
  unfold C13.suspend suspend
  simp only [hc]
  by_cases hsu : t.suspended = true
  · simp only [hsu, hs ▸ hsu, if_true]
    exact ⟨c, reg, hc, hr, hb, hs, hp, hi, ha, hcc, hcl⟩
  · have hsu' : t.suspended = false := by simpa using hsu
    have hcs : c.suspended = false := by rw [hs]; exact hsu'
    simp only [hsu', hcs, Bool.false_eq_true, if_false]
    apply sim_updSet
    · simpa [C13.setInterest] using hb
    · simp [C13.setInterest]
    · exact hp
    · simp [C13.setInterest, hb]
      cases hx : t.backlog <;> simp
    · simpa [C13.setInterest] using hcl

theorem resume_refines (t : C13.St) (s : St) (i : Id) (h : Sim t s i) :
    Sim (C13.resume t) (resume s i) i := by
  obtain ⟨c, reg, hc, hr, hb, hs, hp, hi, ha, hcc, hcl⟩ := h
  unfold C13.resume resume
  simp only [hc]
  by_cases hsu : t.suspended = true
  · have hcs : c.suspended = true := by rw [hs]; exact hsu
    simp only [hsu, hcs, Bool.not_true, Bool.false_eq_true, if_false]
    apply sim_updSet
    · simpa [C13.setInterest] using hb
    · simp [C13.setInterest]
    · exact hp
    · simp [C13.setInterest, hb]
      cases hx : t.backlog <;> simp
    · simpa [C13.setInterest] using hcl
  · have hsu' : t.suspended = false := by simpa using hsu
    have hcs : c.suspended = false := by rw [hs]; exact hsu'
    simp only [hsu', hcs, Bool.not_false, if_true]
    exact ⟨c, reg, hc, hr, hb, hs, hp, hi, ha, hcc, hcl⟩

/-- a freshly paired client is related to the initial one-client state -/
example : Sim C13.init (mkPair init 1) 1 := by
  refine ⟨{ hasCb := true }, { r := true }, rfl, rfl, rfl, rfl, rfl, rfl, rfl, rfl, by decide⟩

end Nstd.Server.Refine
