import Nstd.Server.KeepsC14
/-
  C14 — a run() with a pending interrupt returns: lexicographic measure
  (pending batch length, phase, lateness of the timer queue / length of the closing list).
-/
namespace Nstd.Server.C14
open Nstd.Server.C13 (Outcome SendRes sendOS)
open Nstd.Server.Refine (pollSet_closing)

def late (now k : Int) : Nat := (now - k + 1).toNat

def mu (now : Int) : Q → Nat
  | [] => 0
  | e :: r => late now e.1 + mu now r

theorem mu_qInsert (now : Int) (q : Q) (k : Int) (v : Option Id) : mu now (qInsert q k v) = mu now q + late now k := by
  induction q with
  | nil => simp [qInsert, mu]
  | cons a r ih =>
    obtain ⟨k', v'⟩ := a
    unfold qInsert
    by_cases h : k < k'
    · simp only [h, if_true, mu]; omega
    · simp only [h, if_false, mu, ih]; omega

theorem mu_qErase (now : Int) (q : Q) (key : Int) (id : Id) : mu now (qEraseTimer q key id) ≤ mu now q := by
  induction q with
  | nil => simp [qEraseTimer, mu]
  | cons a r ih =>
    obtain ⟨k, v⟩ := a
    unfold qEraseTimer
    by_cases h1 : k < key
    · simp only [h1, if_true, mu]; omega
    · simp only [h1, if_false]
      by_cases h2 : k = key
      · simp only [h2, if_true]
        by_cases h3 : v = some id
        · simp only [h3, if_true, mu]; omega
        · simp only [h3, if_false, mu]; omega
      · simp only [h2, if_false, mu]; omega

/-- API calls that neither create timers nor read / write (a read or write on a closed client re-queues it) -/
def QuietAct : Act → Prop
  | .mkTimer _ _ => False
  | .read _ => False
  | .write _ _ _ => False
  | _ => True

def QuietScripts (s : St) : Prop := ∀ i k a, a ∈ s.scripts i k → QuietAct a

theorem quiet_applyAct (s : St) (a : Act) (hq : QuietAct a) (hS : InvS s none) (now : Int) :
    (applyAct s none a).closing.length ≤ s.closing.length ∧ mu now (applyAct s none a).queue ≤ mu now s.queue := by
  cases a <;> simp only [applyAct]
  case mkTimer i iv => exact absurd hq (by simp [QuietAct])
  case read i => exact absurd hq (by simp [QuietAct])
  case write i n o => exact absurd hq (by simp [QuietAct])
  case rmTimer i =>
    unfold rmTimer
    split
    · exact ⟨Nat.le_refl _, mu_qErase _ _ _ _⟩
    · exact ⟨Nat.le_refl _, Nat.le_refl _⟩
  case rmClient i =>
    refine ⟨?_, by rw [(rmClient_sameT s i).1]; exact Nat.le_refl _⟩
    unfold rmClient
    cases hc : s.clients i with
    | none => exact Nat.le_refl _
    | some c =>
      have hcb : c.hasCb = true := by
        rcases hS.hasCb i c hc with h | h
        · exact h
        · simp at h
      simp only [hcb, if_true]
      unfold deleteClient
      dsimp only
      simp only [markGone]
      rw [(pollRemove_closing _ i).1]
      exact List.length_filter_le _ _
  case rmListener i =>
    refine ⟨?_, by rw [(rmListener_sameT s i).1]; exact Nat.le_refl _⟩
    unfold rmListener
    split
    · simp only [markGone]; rw [(pollRemove_closing _ i).1]; exact Nat.le_refl _
    · exact Nat.le_refl _
  case rmEst i =>
    refine ⟨?_, by rw [(rmEst_sameT s i).1]; exact Nat.le_refl _⟩
    unfold rmEst
    split
    · simp only [markGone]; rw [(pollRemove_closing _ i).1]; exact Nat.le_refl _
    · exact Nat.le_refl _
  case rmNew => exact ⟨Nat.le_refl _, Nat.le_refl _⟩
  case retNull => exact ⟨Nat.le_refl _, Nat.le_refl _⟩
  case interrupt => unfold interrupt; split <;> exact ⟨Nat.le_refl _, Nat.le_refl _⟩
  case suspend i =>
    refine ⟨?_, by rw [(suspend_sameT s i).1]; exact Nat.le_refl _⟩
    unfold suspend
    repeat' split
    all_goals first | exact Nat.le_refl _ | (rw [pollSet_closing]; exact Nat.le_refl _)
  case resume i =>
    refine ⟨?_, by rw [(resume_sameT s i).1]; exact Nat.le_refl _⟩
    unfold resume
    repeat' split
    all_goals first | exact Nat.le_refl _ | (rw [pollSet_closing]; exact Nat.le_refl _)
  case mkPair i =>
    refine ⟨?_, by rw [(mkPair_sameT s i).1]; exact Nat.le_refl _⟩
    unfold mkPair; dsimp only; split
    · rw [pollSet_closing]; exact Nat.le_refl _
    · exact Nat.le_refl _
  case mkListener i =>
    refine ⟨?_, by rw [(mkListener_sameT s i).1]; exact Nat.le_refl _⟩
    unfold mkListener; dsimp only; split
    · rw [pollSet_closing]; exact Nat.le_refl _
    · exact Nat.le_refl _
  case mkEst i =>
    refine ⟨?_, by rw [(mkEst_sameT s i).1]; exact Nat.le_refl _⟩
    unfold mkEst; dsimp only; split
    · rw [pollSet_closing]; exact Nat.le_refl _
    · exact Nat.le_refl _

theorem quiet_runActs (s : St) (acts : List Act) (hq : ∀ a, a ∈ acts → QuietAct a) (hS : InvS s none) (now : Int) :
    (runActs s none acts).closing.length ≤ s.closing.length ∧ mu now (runActs s none acts).queue ≤ mu now s.queue := by
  induction acts generalizing s with
  | nil => exact ⟨Nat.le_refl _, Nat.le_refl _⟩
  | cons a as ih =>
    obtain ⟨h1, h2⟩ := quiet_applyAct s a (hq a (List.mem_cons_self ..)) hS now
    obtain ⟨h3, h4⟩ := ih (applyAct s none a) (fun b hb => hq b (List.mem_cons_of_mem _ hb)) (invS_applyAct s none a hS)
    exact ⟨Nat.le_trans h3 h1, Nat.le_trans h4 h2⟩

/-- a callback with a quiet script (outside a hand-over) neither lengthens the closing list nor makes the timer
    queue later -/
theorem quiet_callback (s : St) (i : Id) (hq : QuietScripts s) (hS : InvS s none) (now : Int) :
    (callback s i none).1.closing.length ≤ s.closing.length ∧ mu now (callback s i none).1.queue ≤ mu now s.queue := by
  unfold callback
  dsimp only
  exact quiet_runActs { s with calls := upd s.calls i (s.calls i + 1) } _ (fun a ha => hq i _ a ha)
    ⟨hS.selSub, hS.kind, hS.hasCb, hS.closing, hS.ncLive, hS.noFault, hS.ncBig⟩ now

/-- the measure: (pending batch length, phase, lateness of the queue / length of the closing list) -/
def meas (s : St) : Nat × Nat × Nat :=
  match s.pc with
  | .idle => (0, 0, 0)
  | .timers now => (s.selected.length, 2, mu now s.queue)
  | .closing _ _ => (s.selected.length, 1, s.closing.length)
  | .poll _ _ => (s.selected.length, 0, 0)

def lt3 (a b : Nat × Nat × Nat) : Prop :=
  a.1 < b.1 ∨ (a.1 = b.1 ∧ (a.2.1 < b.2.1 ∨ (a.2.1 = b.2.1 ∧ a.2.2 < b.2.2)))

theorem lt3_le {a a' b c c' : Nat} (h1 : a ≤ a') (h2 : c < c') : lt3 (a, b, c) (a', b, c') := by
  unfold lt3
  by_cases h : a < a'
  · exact Or.inl h
  · exact Or.inr ⟨by simp; omega, Or.inr ⟨rfl, h2⟩⟩

theorem lt3_mid {a b b' c c' : Nat} (h : b < b') : lt3 (a, b, c) (a, b', c') :=
  Or.inr ⟨rfl, Or.inl h⟩

theorem late_pos (now k : Int) (h : k - now ≤ 0) : 0 < late now k := by unfold late; omega

theorem late_lt (now k k' : Int) (h : k - now ≤ 0) (h' : k < k') : late now k' < late now k := by unfold late; omega

/-- one step of run() with a pending, fully signalled interrupt and quiet scripts: run() returns or the measure drops -/
theorem step_progress_core (s : St) (inp : PollIn) (o : Outcome) (hinv : Inv s) (hq : QuietScripts s)
    (hpc : s.pc ≠ .idle) :
    (∃ now tmo, s.pc = .poll now tmo ∧ s.selected = []) ∨ (step s inp o).1.pc = .idle ∨
      lt3 (meas (step s inp o).1) (meas s) := by
  obtain ⟨hT, hU, hS⟩ := hinv
  cases hp : s.pc with
  | idle => exact absurd hp hpc
  | timers now =>
    right; right
    obtain ⟨k0, hk0⟩ := hT.dflt
    cases hqq : s.queue with
    | nil => rw [hqq] at hk0; simp at hk0
    | cons e rest =>
      obtain ⟨k, v⟩ := e
      have hm : meas s = (s.selected.length, 2, late now k + mu now rest) := by simp [meas, hp, hqq, mu]
      by_cases hk : k - now ≤ 0
      · cases v with
        | none =>
          have hst : (step s inp o).1 = { s with queue := qInsert rest (now + 300000) none } := by
            unfold step; simp [hp, hqq, hk]
          have h0 : late now (now + 300000) = 0 := by unfold late; omega
          have hl := late_pos now k hk
          have hm' : meas (step s inp o).1 = (s.selected.length, 2, mu now rest + 0) := by
            rw [hst]; simp [meas, hp, mu_qInsert, h0]
          rw [hm', hm]; exact lt3_le (Nat.le_refl _) (by omega)
        | some t =>
          cases ht : s.timers t with
          | none =>
            exfalso
            have := hT.dead t ht
            rw [hqq] at this
            simp [entsOf, List.filter_cons] at this
          | some ti =>
            have hl := hT.live t ti ht
            rw [hqq] at hl
            simp only [entsOf, List.filter_cons, beq_self_eq_true, if_true] at hl
            have hexec : ti.exec = k := by
              have := (List.cons.inj hl).1
              simp at this; exact this.symm
            have hpos := hT.pos t ti ht
            obtain ⟨s1, hs1⟩ : ∃ s1 : St, s1 = { s with queue := qInsert rest (ti.exec + ti.interval) (some t), timers := upd s.timers t (some { ti with exec := ti.exec + ti.interval }) } := ⟨_, rfl⟩
            have hst : (step s inp o).1 = (callback s1 t none).1 := by
              unfold step; simp [hp, hqq, hk, ht, hs1]
            have hS1 : InvS s1 none := by
              subst hs1; exact ⟨hS.selSub, hS.kind, hS.hasCb, hS.closing, hS.ncLive, hS.noFault, hS.ncBig⟩
            have hq1 : QuietScripts s1 := by subst hs1; exact hq
            have hpc1 : (callback s1 t none).1.pc = .timers now := by
              rw [(callback_rel s1 t none).1]; subst hs1; exact hp
            have hsh := (callback_shrinks s1 t none).1
            have hmu := (quiet_callback s1 t hq1 hS1 now).2
            have hsel1 : s1.selected = s.selected := by subst hs1; rfl
            have hq1q : mu now s1.queue = mu now rest + late now (ti.exec + ti.interval) := by
              subst hs1; exact mu_qInsert _ _ _ _
            have hlt := late_lt now k (ti.exec + ti.interval) hk (by omega)
            have hm' : meas (step s inp o).1 = ((callback s1 t none).1.selected.length, 2, mu now (callback s1 t none).1.queue) := by
              rw [hst]; simp [meas, hpc1]
            rw [hm', hm]
            rw [hsel1] at hsh
            exact lt3_le hsh (by omega)
      · have hst : (step s inp o).1 = { s with pc := .closing now (k - now) } := by
          unfold step; simp [hp, hqq, hk]
        have hm' : meas (step s inp o).1 = (s.selected.length, 1, s.closing.length) := by
          rw [hst]; simp [meas]
        rw [hm', hm]; exact lt3_mid (by omega)
  | closing now tmo =>
    right; right
    cases hcl : s.closing with
    | nil =>
      obtain ⟨k0, hk0⟩ := hT.dflt
      cases hqq : s.queue with
      | nil => rw [hqq] at hk0; simp at hk0
      | cons e rest =>
        obtain ⟨k, v⟩ := e
        have hst : (step s inp o).1 = { s with pc := .poll now (if k - now < 0 then 0 else k - now) } := by
          unfold step; simp [hp, hcl, hqq]
        have hm : meas s = (s.selected.length, 1, 0) := by simp [meas, hp, hcl]
        have hm' : meas (step s inp o).1 = (s.selected.length, 0, 0) := by
          rw [hst]; simp [meas]
        rw [hm', hm]; exact lt3_mid (by omega)
    | cons c rest =>
      have hc := hS.closing c (by rw [hcl]; exact List.mem_cons_self ..)
      cases hcc : s.clients c with
      | none => exact absurd hcc hc
      | some cl =>
        have hm : meas s = (s.selected.length, 1, rest.length + 1) := by simp [meas, hp, hcl]
        obtain ⟨s1, hs1⟩ : ∃ s1 : St, s1 = { s with closing := rest } := ⟨_, rfl⟩
        have hS1 : InvS s1 none := by
          subst hs1
          refine ⟨hS.selSub, hS.kind, hS.hasCb, ?_, hS.ncLive, hS.noFault, hS.ncBig⟩
          intro j hj; exact hS.closing j (by rw [hcl]; exact List.mem_cons_of_mem _ hj)
        have hq1 : QuietScripts s1 := by subst hs1; exact hq
        have hsel1 : s1.selected = s.selected := by subst hs1; rfl
        have hcl1 : s1.closing = rest := by subst hs1; rfl
        have hpc1 : s1.pc = .closing now tmo := by subst hs1; exact hp
        by_cases hcb : (cl.hasCb && !cl.removed) = true
        · have hst : (step s inp o).1 = (callback s1 c none).1 := by
            unfold step; simp [hp, hcl, hcc, hcb, hs1]
          have hpc2 : (callback s1 c none).1.pc = .closing now tmo := by rw [(callback_rel s1 c none).1]; exact hpc1
          have hsh := (callback_shrinks s1 c none).1
          have hcl2 := (quiet_callback s1 c hq1 hS1 now).1
          have hm' : meas (step s inp o).1 = ((callback s1 c none).1.selected.length, 1, (callback s1 c none).1.closing.length) := by
            rw [hst]; simp [meas, hpc2]
          rw [hm', hm]
          rw [hsel1] at hsh; rw [hcl1] at hcl2
          exact lt3_le hsh (by omega)
        · have hst : (step s inp o).1 = deleteClient s1 c := by
            unfold step; simp [hp, hcl, hcc, hcb, hs1]
          have hpc2 : (deleteClient s1 c).pc = .closing now tmo := by rw [(deleteClient_rel s1 c).1]; exact hpc1
          have hsh := (deleteClient_shrinks s1 c).1
          have hcl2 : (deleteClient s1 c).closing.length ≤ rest.length := by
            unfold deleteClient
            dsimp only
            simp only [markGone]
            rw [(pollRemove_closing _ c).1, hcl1]
            exact List.length_filter_le _ _
          have hm' : meas (step s inp o).1 = ((deleteClient s1 c).selected.length, 1, (deleteClient s1 c).closing.length) := by
            rw [hst]; simp [meas, hpc2]
          rw [hm', hm]
          rw [hsel1] at hsh
          exact lt3_le hsh (by omega)
  | poll now tmo =>
    cases hsel : s.selected with
    | nil => exact Or.inl ⟨now, tmo, rfl, rfl⟩
    | cons e r =>
      right
      by_cases hid : (step s inp o).1.pc = .idle
      · exact Or.inl hid
      · right
        have hd := (poll_step_drains s inp o now tmo e r hp hsel).1
        have hm : (meas s).1 = r.length + 1 := by simp [meas, hp, hsel]
        have hm' : (meas (step s inp o).1).1 = (step s inp o).1.selected.length := by
          unfold meas
          cases hx : (step s inp o).1.pc <;> simp
          exact absurd hx hid
        left
        rw [hm, hm']; omega

/-- one step of run() with a pending, fully signalled interrupt and quiet scripts: run() returns or the measure drops -/
theorem step_progress (s : St) (inp : PollIn) (o : Outcome) (hinv : Inv s) (hq : QuietScripts s)
    (hint : s.interrupted = true) (hfd : s.eventfd ≠ 0) (he : inp.eventfd = true) (hpc : s.pc ≠ .idle) :
    (step s inp o).1.pc = .idle ∨ lt3 (meas (step s inp o).1) (meas s) := by
  rcases step_progress_core s inp o hinv hq hpc with ⟨now, tmo, hp, hsel⟩ | h
  · left
    have hpp : (pollStep s inp).2 = none ∧ (pollStep s inp).1.interrupted = true := by
      unfold pollStep
      simp [hsel, he, hfd, hint]
    unfold step
    simp only [hp]
    rw [hpp.1]
    unfold dispatch
    simp [hpp.2]
  · exact h

/-- the state after `n` consecutive steps of run() with the kernel answers / send outcomes `f 0, f 1, …` -/
def runN (s : St) (f : Nat → PollIn × Outcome) : Nat → St
  | 0 => s
  | n + 1 => runN (step s (f 0).1 (f 0).2).1 (fun k => f (k + 1)) n

theorem lt3_wf : WellFounded lt3 := by
  have h : WellFounded (Prod.Lex (· < · : Nat → Nat → Prop) (Prod.Lex (· < · : Nat → Nat → Prop) (· < · : Nat → Nat → Prop))) :=
    (Prod.lex Nat.lt_wfRel (Prod.lex Nat.lt_wfRel Nat.lt_wfRel)).wf
  refine Subrelation.wf ?_ h
  intro a b hab
  obtain ⟨a1, a2, a3⟩ := a
  obtain ⟨b1, b2, b3⟩ := b
  unfold lt3 at hab
  simp only at hab
  rcases hab with h1 | ⟨h1, h2 | ⟨h2, h3⟩⟩
  · exact Prod.Lex.left _ _ h1
  · subst h1; exact Prod.Lex.right _ (Prod.Lex.left _ _ h2)
  · subst h1; subst h2; exact Prod.Lex.right _ (Prod.Lex.right _ h3)

/-- interrupt_eventually_returns: a run() with a pending interrupt returns after finitely many steps, whatever the
    kernel reports (any sockets, any order, any time advance) as long as it reports the event descriptor, provided
    the callback scripts in effect are quiet (create no timers, do not read/write — which could re-queue a closed
    client forever) and no other thread is between the two writes of its interrupt() -/
theorem eventually_returns (m : Nat × Nat × Nat) : ∀ (s : St) (f : Nat → PollIn × Outcome), meas s = m →
    Inv s → (s.interrupted = true → 0 < s.eventfd + s.pendingEfd) → s.interrupted = true →
    (∀ n, (f n).1.eventfd = true) → (∀ n, QuietScripts (runN s f n) ∧ (runN s f n).pendingEfd = 0) →
    ∃ n, (runN s f n).pc = .idle := by
  induction m using lt3_wf.induction with
  | _ m ih =>
    intro s f hm hinv hI hint hf hg
    by_cases hpc : s.pc = .idle
    · exact ⟨0, hpc⟩
    · have hq := (hg 0).1
      have hp0 : s.pendingEfd = 0 := (hg 0).2
      have hfd : s.eventfd ≠ 0 := by have := hI hint; omega
      simp only [runN] at hq hp0
      rcases step_progress s (f 0).1 (f 0).2 hinv hq hint hfd (hf 0) hpc with h | h
      · exact ⟨1, h⟩
      · obtain ⟨_, hI', _, hint', _⟩ := step_rel s (f 0).1 (f 0).2
        rcases hint' hint with hi | hi
        · obtain ⟨n, hn⟩ := ih _ (hm ▸ h) (step s (f 0).1 (f 0).2).1 (fun k => f (k + 1)) rfl
            (inv_move s (.step (f 0).1 (f 0).2) hinv) (hI' hI) hi (fun n => hf (n + 1)) (fun n => hg (n + 1))
          exact ⟨n + 1, hn⟩
        · exact ⟨1, hi⟩

/-- conditional progress for `ready_eventually_dispatched`: with quiet scripts run() gets, after finitely many
    steps, to a poll with an EMPTY pending batch, i.e. it asks the kernel again (or it has returned); until then the
    batch only shrinks, oldest entry first (`poll_step_drains`, `step_shrinks_outside_poll`) -/
theorem kernel_asked_again (m : Nat × Nat × Nat) : ∀ (s : St) (f : Nat → PollIn × Outcome), meas s = m → Inv s →
    (∀ n, QuietScripts (runN s f n)) →
    ∃ n, (runN s f n).pc = .idle ∨ ∃ now tmo, (runN s f n).pc = .poll now tmo ∧ (runN s f n).selected = [] := by
  induction m using lt3_wf.induction with
  | _ m ih =>
    intro s f hm hinv hg
    by_cases hpc : s.pc = .idle
    · exact ⟨0, Or.inl hpc⟩
    · have hq := hg 0
      simp only [runN] at hq
      rcases step_progress_core s (f 0).1 (f 0).2 hinv hq hpc with h | h | h
      · exact ⟨0, Or.inr h⟩
      · exact ⟨1, Or.inl h⟩
      · obtain ⟨n, hn⟩ := ih _ (hm ▸ h) (step s (f 0).1 (f 0).2).1 (fun k => f (k + 1)) rfl
          (inv_move s (.step (f 0).1 (f 0).2) hinv) (fun n => hg (n + 1))
        exact ⟨n + 1, hn⟩

end Nstd.Server.C14
