import Nstd.Server.ModelC13
/-
  Invariant of the C13 model and its preservation by every operation.
-/
namespace Nstd.Server.C13

structure Inv (s : St) : Prop where
  stream : s.dead = false → s.handed ++ s.backlog = s.accepted
  pre : ∃ rest, s.handed ++ rest = s.accepted
  wire : s.received ++ s.wire = s.handed
  interest : s.dead = false → s.interest = some (!s.suspended, !s.backlog.isEmpty)
  deadI : s.dead = true → s.interest = none

theorem inv_init : Inv init := by
  constructor <;> simp [init]

theorem isEmpty_eq_true {α} {l : List α} (h : l.isEmpty = true) : l = [] := by
  cases l <;> simp_all

theorem isEmpty_eq_false {α} {l : List α} (h : l.isEmpty = false) : l ≠ [] := by
  cases l <;> simp_all

theorem take_of_ge {α} (l : List α) (k : Nat) (h : k ≥ l.length) : l.take k = l :=
  List.take_of_length_le h

theorem drop_isEmpty_false {α} (l : List α) (k : Nat) (h : ¬ k ≥ l.length) : (l.drop k).isEmpty = false := by
  have : (l.drop k).length > 0 := by simp; omega
  cases hd : l.drop k with
  | nil => simp [hd] at this
  | cons a t => rfl

/-- `write` keeps the invariant (a live client) -/
theorem write_inv (s : St) (d : List Nat) (o : Outcome) (hd : s.dead = false) (h : Inv s) :
    Inv (write s d o).1 ∧ (write s d o).1.dead = false := by
  obtain ⟨hs, ⟨rest, hp⟩, hw, hi, _⟩ := h
  have hs := hs hd
  have hi := hi hd
  unfold write
  by_cases he : s.backlog.isEmpty = true
  · have hb : s.backlog = [] := isEmpty_eq_true he
    simp only [he, if_true]
    generalize sendOS d.length o = r
    have hacc : s.handed = s.accepted := by simpa [hb] using hs
    match r with
    | .error =>
      refine ⟨⟨?_, ?_, ?_, ?_, ?_⟩, ?_⟩ <;> simp_all
    | .sent 0 =>
      refine ⟨⟨?_, ?_, ?_, ?_, ?_⟩, ?_⟩ <;> simp_all
    | .wouldblock =>
      by_cases hz : 0 ≥ d.length
      · have : d = [] := by cases d <;> simp_all
        subst this
        simp only [hz, if_true]
        refine ⟨⟨?_, ?_, ?_, ?_, ?_⟩, ?_⟩ <;> simp_all
      · simp only [hz, if_false, setInterest]
        have hne : d.isEmpty = false := by cases d <;> simp_all
        refine ⟨⟨?_, ?_, ?_, ?_, ?_⟩, ?_⟩ <;> simp_all
    | .sent (k + 1) =>
      by_cases hz : k + 1 ≥ d.length
      · simp only [hz, if_true, hand]
        have ht := take_of_ge d (k + 1) hz
        refine ⟨⟨?_, ⟨[], ?_⟩, ?_, ?_, ?_⟩, ?_⟩
        · intro _; simp [hacc, hb, ht]
        · simp [hacc, ht]
        · simp [← hw, ht, List.append_assoc]
        · intro _; simp [hi, hb]
        · simp [hd]
        · simp [hd]
      · simp only [hz, if_false, setInterest, hand]
        have hne := drop_isEmpty_false d (k + 1) hz
        refine ⟨⟨?_, ⟨d.drop (k + 1), ?_⟩, ?_, ?_, ?_⟩, ?_⟩
        · intro _; simp [hacc, List.append_assoc]
        · simp [hacc, List.append_assoc]
        · simp [← hw, List.append_assoc]
        · intro _; simp [hne]
        · simp [hd]
        · simp [hd]
  · have he' : s.backlog.isEmpty = false := by simpa using he
    simp only [he', Bool.false_eq_true, if_false]
    have hne : (s.backlog ++ d).isEmpty = false := by
      cases hb : s.backlog <;> simp_all
    refine ⟨⟨?_, ⟨s.backlog ++ d, ?_⟩, ?_, ?_, ?_⟩, ?_⟩
    · intro _; simp [← hs, List.append_assoc]
    · simp [← hs, List.append_assoc]
    · simpa using hw
    · intro _; simp [hne, hi, he']
    · simp [hd]
    · simp [hd]

theorem closeAndRemove_inv (s : St) (h : Inv s) (hp : ∃ rest, s.handed ++ rest = s.accepted) :
    Inv (closeAndRemove s) := by
  obtain ⟨_, _, hw, _, _⟩ := h
  refine ⟨?_, ?_, ?_, ?_, ?_⟩ <;> simp_all [closeAndRemove]

theorem writeReady_inv (s : St) (o : Outcome) (hd : s.dead = false) (h : Inv s) :
    Inv (writeReady s o).1 := by
  have h0 := h
  obtain ⟨hs, ⟨rest, hp⟩, hw, hi, hdI⟩ := h
  have hs := hs hd
  have hi := hi hd
  unfold writeReady
  by_cases he : s.backlog.isEmpty = true
  · simp only [he, Bool.not_true, Bool.false_eq_true, if_false, setInterest]
    refine ⟨?_, ⟨rest, ?_⟩, ?_, ?_, ?_⟩ <;> simp_all
  · have he' : s.backlog.isEmpty = false := by simpa using he
    simp only [he', Bool.not_false, if_true]
    generalize sendOS s.backlog.length o = r
    match r with
    | .wouldblock => exact h0
    | .error =>
      refine ⟨?_, ⟨s.backlog, ?_⟩, ?_, ?_, ?_⟩ <;> simp_all [closeAndRemove]
    | .sent 0 =>
      refine ⟨?_, ⟨s.backlog, ?_⟩, ?_, ?_, ?_⟩ <;> simp_all [closeAndRemove]
    | .sent (k + 1) =>
      simp only [hand]
      by_cases hz : (s.backlog.drop (k + 1)).isEmpty = true
      · simp only [hz, if_true, setInterest]
        have hdz := isEmpty_eq_true hz
        refine ⟨?_, ⟨s.backlog.drop (k + 1), ?_⟩, ?_, ?_, ?_⟩
        · intro _; simp [← hs, List.append_assoc]
        · simp [← hs, List.append_assoc]
        · simp [← hw, List.append_assoc]
        · intro _; simp [hz]
        · simp [hd]
      · have hz' : (s.backlog.drop (k + 1)).isEmpty = false := by simpa using hz
        simp only [hz', Bool.false_eq_true, if_false]
        refine ⟨?_, ⟨s.backlog.drop (k + 1), ?_⟩, ?_, ?_, ?_⟩
        · intro _; simp [← hs, List.append_assoc]
        · simp [← hs, List.append_assoc]
        · simp [← hw, List.append_assoc]
        · intro _; simp [hz', hi, he']
        · simp [hd]

theorem ready_inv (s : St) (r w : Bool) (o : Outcome) (hd : s.dead = false) (h : Inv s) :
    Inv (ready s r w o).1 := by
  unfold ready
  by_cases hc : s.closing = true
  · simp only [hc, if_true]
    exact closeAndRemove_inv s h h.pre
  · simp only [hc, Bool.false_eq_true, if_false]
    cases hint : s.interest with
    | none => exact h
    | some p =>
      obtain ⟨ir, iw⟩ := p
      simp only
      by_cases h1 : (ir && r && !s.inbox.isEmpty) = true
      · simp only [h1, if_true]; exact h
      · simp only [h1, Bool.false_eq_true, if_false]
        by_cases h2 : (iw && w) = true
        · simp only [h2, if_true]; exact writeReady_inv s o hd h
        · simp only [h2, Bool.false_eq_true, if_false]; exact h

theorem read_inv (s : St) (m : Nat) (h : Inv s) : Inv (read s m).1 := by
  unfold read
  by_cases he : s.inbox.isEmpty = true
  · simp only [he, if_true]; exact h
  · simp only [he, Bool.false_eq_true, if_false]
    obtain ⟨a, b, c, d, e⟩ := h
    exact ⟨a, b, c, d, e⟩

theorem suspend_inv (s : St) (hd : s.dead = false) (h : Inv s) : Inv (suspend s) := by
  unfold suspend
  by_cases hs : s.suspended = true
  · simp only [hs, if_true]; exact h
  · simp only [hs, Bool.false_eq_true, if_false, setInterest]
    obtain ⟨a, b, c, d, e⟩ := h
    refine ⟨a, b, c, ?_, ?_⟩
    · intro _; simp
    · simp [hd]

theorem resume_inv (s : St) (hd : s.dead = false) (h : Inv s) : Inv (resume s) := by
  unfold resume
  by_cases hs : s.suspended = true
  · simp only [hs, Bool.not_true, Bool.false_eq_true, if_false, setInterest]
    obtain ⟨a, b, c, d, e⟩ := h
    refine ⟨a, b, c, ?_, ?_⟩
    · intro _; simp
    · simp [hd]
  · have : s.suspended = false := by simpa using hs
    simp only [this, Bool.not_false, if_true]; exact h

theorem step_inv (s s' : St) (op : Op) (out : Out) (h : Inv s) (hst : step s op = some (s', out)) : Inv s' := by
  by_cases hd : s.dead = true
  · cases op <;> simp only [step, hd, if_true] at hst
    case peerread =>
      injection hst with hst; injection hst with h1 h2; subst h1
      obtain ⟨a, b, c, d, e⟩ := h
      refine ⟨?_, b, ?_, ?_, ?_⟩ <;> simp_all
    case peersend d =>
      by_cases he : d.isEmpty = true <;> simp [he] at hst
      obtain ⟨rfl, _⟩ := hst; exact h
    case read m =>
      by_cases he : m = 0 <;> simp [he] at hst
      obtain ⟨rfl, _⟩ := hst; exact h
    all_goals (injection hst with hst; injection hst with h1 h2; subst h1; exact h)
  · have hd : s.dead = false := by simpa using hd
    cases op <;> simp only [step, hd, Bool.false_eq_true, if_false] at hst
    case peerread =>
      injection hst with hst; injection hst with h1 h2; subst h1
      obtain ⟨a, b, c, d, e⟩ := h
      refine ⟨?_, ?_, ?_, ?_, ?_⟩
      · intro _; exact a hd
      · exact b
      · simp [← c]
      · intro _; exact d hd
      · simp
    case peersend d =>
      by_cases he : d.isEmpty = true <;> simp [he] at hst
      obtain ⟨rfl, _⟩ := hst
      obtain ⟨a, b, c, d, e⟩ := h
      refine ⟨?_, ?_, ?_, ?_, ?_⟩
      · intro _; exact a hd
      · exact b
      · exact c
      · intro _; exact d hd
      · simp
    case read m =>
      by_cases he : m = 0 <;> simp [he] at hst
      have := read_inv s m h
      rw [show read s m = (s', out) from hst] at this; exact this
    case write d o =>
      injection hst with hst
      have := (write_inv s d o hd h).1
      rw [hst] at this; exact this
    case ready r w o =>
      injection hst with hst
      have := ready_inv s r w o hd h
      rw [hst] at this; exact this
    case suspend =>
      injection hst with hst; injection hst with h1 h2; subst h1
      exact suspend_inv s hd h
    case resume =>
      injection hst with hst; injection hst with h1 h2; subst h1
      exact resume_inv s hd h

theorem stepT_inv (s : St) (op : Op) (h : Inv s) : Inv (stepT s op).1 := by
  unfold stepT
  cases hst : step s op with
  | none => exact h
  | some r => exact step_inv s r.1 op r.2 h (by simp [hst])

theorem runOps_inv (s : St) (ops : List Op) (h : Inv s) : Inv (runOps s ops) := by
  induction ops generalizing s with
  | nil => exact h
  | cons op ops ih => exact ih _ (stepT_inv s op h)

end Nstd.Server.C13
