import Nstd.Server.PropsC13
import Nstd.Server.PropsC14
import Nstd.Server.PropsC13Batch
import Nstd.Server.PropsTr
import Nstd.Server.PropsTr13
import Nstd.Server.PropsC14R
import Nstd.Server.PropsTrLoop
import Nstd.Server.PropsTrHand
