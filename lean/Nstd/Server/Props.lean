import Nstd.Server.PropsC13
import Nstd.Server.PropsC14
