import Nstd.Server.LiveC14
/-
  C14 — what can take a pending readiness event of socket `i` out of the batch: only the hand-out by `Poll::poll`
  itself, `Poll::set(i, …)` / `Poll::remove(i)` reached through an API call on `i` (suspend, resume, write, remove,
  re-creation under the same id) and the deletion of client `i` by the closing loop.  Every other call, callback and
  step leaves the event where it is.
-/
namespace Nstd.Server.C14
open Nstd.Server.C13 (Outcome SendRes sendOS)

/-! ### scripts are never changed by API calls or steps -/

theorem pollSet_scripts (s : St) (i : Id) (ev : Flags) : (pollSet s i ev).scripts = s.scripts := by
  unfold pollSet
  dsimp only
  repeat' split
  all_goals rfl

theorem pollRemove_scripts (s : St) (i : Id) : (pollRemove s i).scripts = s.scripts := by
  unfold pollRemove
  repeat' split
  all_goals rfl

theorem deleteClient_scripts (s : St) (i : Id) : (deleteClient s i).scripts = s.scripts := by
  unfold deleteClient
  dsimp only
  simp only [markGone]
  rw [pollRemove_scripts]

theorem applyAct_scripts (s : St) (nc : Option Id) (a : Act) : (applyAct s nc a).scripts = s.scripts := by
  have hrc : ∀ i, (rmClient s i).scripts = s.scripts := by
    intro i; unfold rmClient
    repeat' split
    all_goals first | rfl | exact deleteClient_scripts s i
  cases a <;> simp only [applyAct]
  case mkTimer i iv => unfold mkTimer; dsimp only; split <;> rfl
  case rmTimer i => unfold rmTimer markGone; split <;> rfl
  case rmClient i => exact hrc i
  case rmListener i => unfold rmListener markGone; split <;> first | rfl | (dsimp only; rw [pollRemove_scripts])
  case rmEst i => unfold rmEst markGone; split <;> first | rfl | (dsimp only; rw [pollRemove_scripts])
  case rmNew => cases nc <;> simp only <;> first | rfl | exact hrc _
  case interrupt => unfold interrupt; split <;> rfl
  case suspend i =>
    unfold suspend
    repeat' split
    all_goals first | rfl | rw [pollSet_scripts]
  case resume i =>
    unfold resume
    repeat' split
    all_goals first | rfl | rw [pollSet_scripts]
  case read i =>
    unfold read addClosing
    repeat' split
    all_goals rfl
  case write i n o =>
    unfold write addClosing
    repeat' split
    all_goals first | rfl | rw [pollSet_scripts]
  case mkPair i => unfold mkPair; dsimp only; split <;> first | rfl | rw [pollSet_scripts]
  case mkListener i => unfold mkListener; dsimp only; split <;> first | rfl | rw [pollSet_scripts]
  case mkEst i => unfold mkEst; dsimp only; split <;> first | rfl | rw [pollSet_scripts]

theorem runActs_scripts (s : St) (nc : Option Id) (acts : List Act) : (runActs s nc acts).scripts = s.scripts := by
  induction acts generalizing s with
  | nil => rfl
  | cons a as ih => simp only [runActs]; rw [ih, applyAct_scripts]

theorem callback_scripts (s : St) (i : Id) (nc : Option Id) : (callback s i nc).1.scripts = s.scripts := by
  unfold callback
  dsimp only
  rw [runActs_scripts]

theorem writeReady_scripts (s : St) (i : Id) (o : Outcome) : (writeReady s i o).1.scripts = s.scripts := by
  unfold writeReady
  dsimp only
  repeat' split
  all_goals (try dsimp only)
  all_goals first
    | rfl
    | (rw [callback_scripts, pollRemove_scripts])
    | (rw [callback_scripts, pollSet_scripts])

theorem newClient_scripts (s : St) (nc : Id) (u : Bool) : (newClient s nc u).scripts = s.scripts := by
  unfold newClient
  dsimp only
  rw [pollSet_scripts]

theorem finishHandOver_scripts (s : St) (nc : Id) (acts : List Act) : (finishHandOver s nc acts).scripts = s.scripts := by
  unfold finishHandOver
  repeat' split
  all_goals first | rfl | exact deleteClient_scripts _ _

theorem dispatch_scripts (s : St) (ev : Option (Id × Flags)) (o : Outcome) : (dispatch s ev o).1.scripts = s.scripts := by
  unfold dispatch
  split
  · split <;> rfl
  · rename_i i fl
    split
    · split <;> rfl
    · split
      · repeat' split
        all_goals first | rfl | exact callback_scripts _ _ _
      · split
        · exact writeReady_scripts s i o
        · split
          · split
            · rfl
            · split
              · rfl
              · dsimp only
                rw [finishHandOver_scripts, callback_scripts, newClient_scripts]
          · split
            · rfl
            · dsimp only
              split
              · rw [callback_scripts, pollRemove_scripts]
              · rw [finishHandOver_scripts, callback_scripts, newClient_scripts]
                exact pollRemove_scripts s i

theorem pollStep_scripts (s : St) (inp : PollIn) : (pollStep s inp).1.scripts = s.scripts := by
  unfold pollStep
  dsimp only
  repeat' split
  all_goals rfl

theorem step_scripts (s : St) (inp : PollIn) (o : Outcome) : (step s inp o).1.scripts = s.scripts := by
  unfold step
  split
  · rfl
  · repeat' split
    all_goals first | rfl | rw [callback_scripts]
  · dsimp only
    repeat' split
    all_goals first | rfl | rw [callback_scripts] | rw [deleteClient_scripts]
  · dsimp only
    split
    · rw [dispatch_scripts, pollStep_scripts]
    · show (dispatch _ _ _).1.scripts = _
      rw [dispatch_scripts, pollStep_scripts]

theorem runN_scripts (s : St) (f : Nat → PollIn × Outcome) (n : Nat) : (runN s f n).scripts = s.scripts := by
  induction n generalizing s f with
  | zero => rfl
  | succ n ih => simp only [runN]; rw [ih, step_scripts]

/-- `∀ n, ClosingCalm (runN s f n)` from a condition on the scripts in effect when the run starts -/
theorem closingCalm_run_of_noIO (s : St) (f : Nat → PollIn × Outcome) (hinv : Inv s)
    (h : ∀ i k a, a ∈ s.scripts i k → NoIOAct a) (n : Nat) : ClosingCalm (runN s f n) :=
  closingCalm_of_noIO _ (runN_inv s f n hinv).s (by rw [runN_scripts]; exact h)

/-! ### the pending event of socket `i` is kept by everything that does not go through `i` -/

def SelKept (i : Id) (s s' : St) : Prop := lookup s'.selected i = lookup s.selected i

theorem SelKept.frame {i : Id} {s s' : St} (h : s'.selected = s.selected) : SelKept i s s' := by
  unfold SelKept; rw [h]

theorem SelKept.refl (i : Id) (s : St) : SelKept i s s := rfl

theorem SelKept.trans {i : Id} {a b c : St} (h1 : SelKept i a b) (h2 : SelKept i b c) : SelKept i a c := by
  unfold SelKept at *; rw [h2, h1]

/-- `Poll::set(j, …)` leaves the pending event of every other socket alone -/
theorem pollSet_selKept (i : Id) (s : St) (j : Id) (ev : Flags) (h : i ≠ j) : SelKept i s (pollSet s j ev) := by
  unfold SelKept pollSet
  dsimp only
  repeat' split
  all_goals first | rfl | exact lookup_eraseId_ne _ _ _ h | exact lookup_setId_ne _ _ _ _ h

/-- `Poll::set(i, ev)` that still covers the pending flags of `i` leaves the event alone as well -/
theorem pollSet_selKept_covering (s : St) (i : Id) (ev old fl : Flags) (ho : lookup s.sockets i = some old)
    (hp : lookup s.selected i = some fl) (hnz : fl.isZero = false) (hsub : fl.sub ev) :
    lookup (pollSet s i ev).selected i = some fl := by
  have hm : fl.minus (old.minus ev) = fl := by
    obtain ⟨h1, h2, h3, h4⟩ := hsub
    cases fl with
    | mk r w a c =>
      simp only [Flags.minus, Flags.mk.injEq]
      simp only at h1 h2 h3 h4
      refine ⟨?_, ?_, ?_, ?_⟩
      · cases r <;> simp; exact Or.inr (h1 rfl)
      · cases w <;> simp; exact Or.inr (h2 rfl)
      · cases a <;> simp; exact Or.inr (h3 rfl)
      · cases c <;> simp; exact Or.inr (h4 rfl)
  unfold pollSet
  simp only [ho, hp, hm, hnz]
  split
  · exact hp
  · exact lookup_setId_self _ _ _ _ hp

theorem pollRemove_selKept (i : Id) (s : St) (j : Id) (h : i ≠ j) : SelKept i s (pollRemove s j) := by
  unfold SelKept pollRemove
  split
  · rfl
  · exact lookup_eraseId_ne _ _ _ h

theorem deleteClient_selKept (i : Id) (s : St) (j : Id) (h : i ≠ j) : SelKept i s (deleteClient s j) := by
  unfold deleteClient
  dsimp only
  exact SelKept.trans (SelKept.trans (b := { s with closing := s.closing.filter (· ≠ j) }) (SelKept.frame rfl)
    (pollRemove_selKept i _ j h)) (SelKept.frame rfl)

theorem rmClient_selKept (i : Id) (s : St) (j : Id) (h : i ≠ j) : SelKept i s (rmClient s j) := by
  unfold rmClient
  split
  · split
    · exact deleteClient_selKept i s j h
    · exact SelKept.frame rfl
  · exact SelKept.refl i s

theorem updSet_selKept (i : Id) (s : St) (j : Id) (c' : ClientS) (ev : Flags) (h : i ≠ j) :
    SelKept i s (pollSet { s with clients := upd s.clients j (some c') } j ev) :=
  SelKept.trans (b := { s with clients := upd s.clients j (some c') }) (SelKept.frame rfl) (pollSet_selKept i _ _ _ h)

theorem updRemove_selKept (i : Id) (s : St) (j : Id) (c' : ClientS) (h : i ≠ j) :
    SelKept i s (pollRemove { s with clients := upd s.clients j (some c') } j) :=
  SelKept.trans (b := { s with clients := upd s.clients j (some c') }) (SelKept.frame rfl) (pollRemove_selKept i _ _ h)

/-- the API calls that go through `Poll::set` / `Poll::remove` of socket `i` (or re-create an object under the id `i`) -/
def Touches (i : Id) : Act → Prop
  | .suspend j => j = i
  | .resume j => j = i
  | .write j _ _ => j = i
  | .rmClient j => j = i
  | .rmListener j => j = i
  | .rmEst j => j = i
  | .mkPair j => j = i
  | .mkListener j => j = i
  | .mkEst j => j = i
  | _ => False

theorem applyAct_selKept (i : Id) (s : St) (nc : Option Id) (a : Act) (hnc : nc ≠ some i) (h : ¬ Touches i a) :
    SelKept i s (applyAct s nc a) := by
  cases a <;> simp only [applyAct]
  case mkTimer j iv => unfold mkTimer; dsimp only; split <;> exact SelKept.frame rfl
  case rmTimer j => unfold rmTimer; split <;> exact SelKept.frame rfl
  case rmClient j => exact rmClient_selKept i s j (fun e => h e.symm)
  case rmListener j =>
    have hij : i ≠ j := fun e => h e.symm
    unfold rmListener
    split
    · dsimp only; exact SelKept.trans (pollRemove_selKept i s j hij) (SelKept.frame rfl)
    · exact SelKept.refl i s
  case rmEst j =>
    have hij : i ≠ j := fun e => h e.symm
    unfold rmEst
    split
    · dsimp only; exact SelKept.trans (pollRemove_selKept i s j hij) (SelKept.frame rfl)
    · exact SelKept.refl i s
  case rmNew =>
    cases nc with
    | none => exact SelKept.refl i s
    | some j => exact rmClient_selKept i s j (fun e => hnc (by rw [e]))
  case retNull => exact SelKept.refl i s
  case interrupt => unfold interrupt; split <;> exact SelKept.frame rfl
  case suspend j =>
    have hij : i ≠ j := fun e => h e.symm
    unfold suspend
    split
    · split
      · exact SelKept.refl i s
      · exact updSet_selKept i s j _ _ hij
    · exact SelKept.refl i s
  case resume j =>
    have hij : i ≠ j := fun e => h e.symm
    unfold resume
    split
    · split
      · exact SelKept.refl i s
      · exact updSet_selKept i s j _ _ hij
    · exact SelKept.refl i s
  case read j =>
    unfold read addClosing
    repeat' split
    all_goals exact SelKept.frame rfl
  case write j n o =>
    have hij : i ≠ j := fun e => h e.symm
    unfold write addClosing
    repeat' split
    all_goals first | exact SelKept.frame rfl | exact updSet_selKept i s j _ _ hij
  case mkPair j =>
    have hij : i ≠ j := fun e => h e.symm
    unfold mkPair; dsimp only; split
    · exact SelKept.trans (b := { s with clients := _, used := _, order := _ }) (SelKept.frame rfl) (pollSet_selKept i _ _ _ hij)
    · exact SelKept.refl i s
  case mkListener j =>
    have hij : i ≠ j := fun e => h e.symm
    unfold mkListener; dsimp only; split
    · exact SelKept.trans (b := { s with listeners := _, used := _, order := _ }) (SelKept.frame rfl) (pollSet_selKept i _ _ _ hij)
    · exact SelKept.refl i s
  case mkEst j =>
    have hij : i ≠ j := fun e => h e.symm
    unfold mkEst; dsimp only; split
    · exact SelKept.trans (b := { s with ests := _, used := _, order := _ }) (SelKept.frame rfl) (pollSet_selKept i _ _ _ hij)
    · exact SelKept.refl i s

theorem runActs_selKept (i : Id) (s : St) (nc : Option Id) (acts : List Act) (hnc : nc ≠ some i)
    (h : ∀ a, a ∈ acts → ¬ Touches i a) : SelKept i s (runActs s nc acts) := by
  induction acts generalizing s with
  | nil => exact SelKept.refl i s
  | cons a as ih =>
    exact SelKept.trans (applyAct_selKept i s nc a hnc (h a (List.mem_cons_self ..)))
      (ih _ (fun b hb => h b (List.mem_cons_of_mem _ hb)))

/-- no script (of any object, at any invocation) touches socket `i` -/
def NoTouch (scr : Id → Nat → List Act) (i : Id) : Prop := ∀ j k a, a ∈ scr j k → ¬ Touches i a

theorem callback_selKept (i : Id) (s : St) (j : Id) (nc : Option Id) (hnc : nc ≠ some i) (h : NoTouch s.scripts i) :
    SelKept i s (callback s j nc).1 := by
  unfold callback
  exact SelKept.trans (b := { s with calls := _ }) (SelKept.frame rfl) (runActs_selKept i _ nc _ hnc (fun a ha => h j _ a ha))

theorem writeReady_selKept (i : Id) (s : St) (j : Id) (o : Outcome) (hij : i ≠ j) (h : NoTouch s.scripts i) :
    SelKept i s (writeReady s j o).1 := by
  have hn : (none : Option Id) ≠ some i := by simp
  unfold writeReady
  dsimp only
  repeat' split
  all_goals (try dsimp only)
  all_goals first
    | exact SelKept.frame rfl
    | exact SelKept.trans (updRemove_selKept i s j _ hij) (callback_selKept i _ j none hn (by rw [pollRemove_scripts]; exact h))
    | exact SelKept.trans (updSet_selKept i s j _ _ hij) (callback_selKept i _ j none hn (by rw [pollSet_scripts]; exact h))
    | exact SelKept.trans (pollSet_selKept i s j _ hij) (callback_selKept i _ j none hn (by rw [pollSet_scripts]; exact h))

theorem handOver_selKept (i : Id) (s : St) (j nc : Id) (u : Bool) (hnc : i ≠ nc) (h : NoTouch s.scripts i) :
    SelKept i s (finishHandOver (callback (newClient s nc u) j (some nc)).1 nc (callback (newClient s nc u) j (some nc)).2) := by
  have h1 : SelKept i s (newClient s nc u) := by
    unfold newClient
    exact SelKept.trans (b := { s with clients := _, used := _, order := _, nextAuto := _ }) (SelKept.frame rfl)
      (pollSet_selKept i _ _ _ hnc)
  have h2 : SelKept i (newClient s nc u) (callback (newClient s nc u) j (some nc)).1 :=
    callback_selKept i _ j (some nc) (fun e => hnc (by injection e with e; exact e.symm)) (by rw [newClient_scripts]; exact h)
  have h3 : ∀ (s' : St) acts, SelKept i s' (finishHandOver s' nc acts) := by
    intro s' acts
    unfold finishHandOver
    repeat' split
    all_goals first | exact SelKept.frame rfl | exact deleteClient_selKept i _ nc hnc
  exact SelKept.trans h1 (SelKept.trans h2 (h3 _ _))

/-- the dispatch of an event of another socket `j` keeps the pending event of `i` -/
theorem dispatch_selKept (i : Id) (s : St) (j : Id) (flj : Flags) (o : Outcome) (hij : i ≠ j) (hauto : i ≠ s.nextAuto)
    (h : NoTouch s.scripts i) : SelKept i s (dispatch s (some (j, flj)) o).1 := by
  have hn : (none : Option Id) ≠ some i := by simp
  unfold dispatch
  dsimp only
  split
  · split <;> exact SelKept.frame rfl
  · split
    · repeat' split
      all_goals first | exact SelKept.frame rfl | exact callback_selKept i _ _ none hn h
    · split
      · exact writeReady_selKept i s j o hij h
      · split
        · split
          · exact SelKept.frame rfl
          · split
            · exact SelKept.refl i s
            · try dsimp only
              exact SelKept.trans (b := { s with listeners := _ }) (SelKept.frame rfl) (handOver_selKept i _ _ _ _ hauto h)
        · split
          · exact SelKept.frame rfl
          · try dsimp only
            split
            · exact SelKept.trans (pollRemove_selKept i s j hij)
                (callback_selKept i _ _ none hn (by rw [pollRemove_scripts]; exact h))
            · refine SelKept.trans (pollRemove_selKept i s j hij)
                (SelKept.trans (b := { (pollRemove s j) with ests := _ }) (SelKept.frame rfl) ?_)
              exact handOver_selKept i _ _ _ _ hauto (by show NoTouch (pollRemove s j).scripts i; rw [pollRemove_scripts]; exact h)

theorem registered_ne_auto (s : St) (hinv : Inv s) (i : Id) (reg : Flags) (h : lookup s.sockets i = some reg) :
    i ≠ s.nextAuto := by
  intro e
  have hl : Live s i := by
    rcases hinv.s.kind i reg h with ⟨c, hc, _⟩ | ⟨l, hl, _⟩ | ⟨x, hx, _⟩
    · exact Or.inr (Or.inl (by rw [hc]; simp))
    · exact Or.inr (Or.inr (Or.inl (by rw [hl]; simp)))
    · exact Or.inr (Or.inr (Or.inr (by rw [hx]; simp)))
  have h1 := hinv.u.liveUsed i hl
  have h2 := hinv.u.auto2 i (by rw [e]; exact Nat.le_refl _)
  rw [h1] at h2; cases h2

theorem lookup_cons_ne (j : Id) (f : Flags) (r : L) (i : Id) (h : j ≠ i) : lookup ((j, f) :: r) i = lookup r i := by
  simp [lookup, h]

theorem lookup_cons_self (i : Id) (f : Flags) (r : L) : lookup ((i, f) :: r) i = some f := by
  simp [lookup]

theorem step_poll_selected (s : St) (inp : PollIn) (o : Outcome) (now tmo : Int) (hp : s.pc = .poll now tmo) :
    (step s inp o).1.selected = (dispatch (pollStep s inp).1 (pollStep s inp).2 o).1.selected := by
  unfold step; simp only [hp]; split <;> rfl

/-- timer and closing steps keep the pending event of `i` — except the closing step that deletes client `i` itself -/
theorem step_selKept_outside_poll (i : Id) (s : St) (inp : PollIn) (o : Outcome) (h : ∀ now tmo, s.pc ≠ .poll now tmo)
    (hnt : NoTouch s.scripts i) (hcl : s.closing.head? ≠ some i) : SelKept i s (step s inp o).1 := by
  have hn : (none : Option Id) ≠ some i := by simp
  unfold step
  split
  · exact SelKept.refl i s
  · repeat' split
    all_goals first
      | exact SelKept.frame rfl
      | exact SelKept.trans (b := { s with queue := _, timers := _ }) (SelKept.frame rfl) (callback_selKept i _ _ none hn hnt)
  · dsimp only
    split
    · repeat' split
      all_goals exact SelKept.frame rfl
    · rename_i c rest hc
      have hci : i ≠ c := by
        intro e; apply hcl; rw [hc, e]; rfl
      repeat' split
      all_goals first
        | exact SelKept.frame rfl
        | exact SelKept.trans (b := { s with closing := _ }) (SelKept.frame rfl) (callback_selKept i _ _ none hn hnt)
        | exact SelKept.trans (b := { s with closing := _ }) (SelKept.frame rfl) (deleteClient_selKept i _ c hci)
  · rename_i now tmo hpc; exact absurd hpc (h now tmo)

/-- what can happen to an event `(i, fl)` of the batch in one step when no script in effect touches socket `i`:
    it is handed out, or it is still pending unchanged after the step, or the closing loop is just handling client `i`
    itself.  So `PrunedAt` occurs only through an API call on `i` or the close of `i`. -/
theorem step_keeps_untouched_event (s : St) (inp : PollIn) (o : Outcome) (i : Id) (fl : Flags) (hinv : Inv s)
    (hnt : NoTouch s.scripts i) (hb : InBatch s inp i fl) :
    HandsOut s inp i fl ∨ lookup (step s inp o).1.selected i = some fl ∨
      ((∃ now tmo, s.pc = .closing now tmo) ∧ s.closing.head? = some i) := by
  rcases hb with hpend | ⟨⟨now, tmo, hp, hsel⟩, hrep⟩
  · by_cases hpoll : ∃ now tmo, s.pc = .poll now tmo
    · obtain ⟨now, tmo, hp⟩ := hpoll
      cases hsel : s.selected with
      | nil => rw [hsel] at hpend; simp [lookup] at hpend
      | cons e r =>
        obtain ⟨j, flj⟩ := e
        have hps : pollStep s inp = ({ s with selected := r }, some (j, flj)) := by unfold pollStep; rw [hsel]
        by_cases hji : j = i
        · left
          subst hji
          rw [hsel, lookup_cons_self] at hpend
          injection hpend with e; subst e
          exact ⟨⟨now, tmo, hp⟩, by rw [hps]⟩
        · right; left
          rw [hsel, lookup_cons_ne j flj r i hji] at hpend
          rw [step_poll_selected s inp o now tmo hp, hps]
          obtain ⟨reg, hreg, _⟩ := hinv.s.selSub i fl (by rw [hsel]; exact List.mem_cons_of_mem _ (mem_of_lookup _ _ _ hpend))
          have hk := dispatch_selKept i { s with selected := r } j flj o (fun e => hji e.symm)
            (registered_ne_auto s hinv i reg hreg) hnt
          unfold SelKept at hk
          rw [hk]; exact hpend
    · by_cases hcl : s.closing.head? = some i ∧ ∃ now tmo, s.pc = .closing now tmo
      · exact Or.inr (Or.inr ⟨hcl.2, hcl.1⟩)
      · by_cases hc2 : ∃ now tmo, s.pc = .closing now tmo
        · have hh : s.closing.head? ≠ some i := fun e => hcl ⟨e, hc2⟩
          have hk := step_selKept_outside_poll i s inp o (fun a b e => hpoll ⟨a, b, e⟩) hnt hh
          right; left; unfold SelKept at hk; rw [hk]; exact hpend
        · -- idle or timers: the closing list is not looked at
          right; left
          have hk : SelKept i s (step s inp o).1 := by
            have hn : (none : Option Id) ≠ some i := by simp
            unfold step
            split
            · exact SelKept.refl i s
            · repeat' split
              all_goals first
                | exact SelKept.frame rfl
                | exact SelKept.trans (b := { s with queue := _, timers := _ }) (SelKept.frame rfl) (callback_selKept i _ _ none hn hnt)
            · rename_i a b hpc; exact absurd ⟨a, b, hpc⟩ hc2
            · rename_i a b hpc; exact absurd ⟨a, b, hpc⟩ hpoll
          unfold SelKept at hk; rw [hk]; exact hpend
  · -- the kernel is asked in this step and reports `i`
    obtain ⟨reg, hreg, _⟩ := appendSelected_sub s inp.events [] (by simp) i fl (mem_of_lookup _ _ _ hrep)
    have hauto := registered_ne_auto s hinv i reg hreg
    cases hap : appendSelected s inp.events [] with
    | nil => rw [hap] at hrep; simp [lookup] at hrep
    | cons e r =>
      obtain ⟨j, flj⟩ := e
      by_cases hintr : (inp.eventfd && s.eventfd != 0) = true
      · right; left
        have hps : pollStep s inp = ({ s with clock := s.clock + inp.dt, selected := (j, flj) :: r, eventfd := 0 }, none) := by
          unfold pollStep; simp [hsel, hap, hintr]
        rw [step_poll_selected s inp o now tmo hp, hps]
        have : (dispatch { s with clock := s.clock + inp.dt, selected := (j, flj) :: r, eventfd := 0 } none o).1.selected = (j, flj) :: r := by
          unfold dispatch; dsimp only; split <;> rfl
        rw [this, ← hap]; exact hrep
      · have hps : pollStep s inp = ({ s with clock := s.clock + inp.dt, selected := r }, some (j, flj)) := by
          unfold pollStep; simp [hsel, hap, hintr]
        by_cases hji : j = i
        · left
          subst hji
          rw [hap, lookup_cons_self] at hrep
          injection hrep with e; subst e
          exact ⟨⟨now, tmo, hp⟩, by rw [hps]⟩
        · right; left
          rw [hap, lookup_cons_ne j flj r i hji] at hrep
          rw [step_poll_selected s inp o now tmo hp, hps]
          have hk := dispatch_selKept i { s with clock := s.clock + inp.dt, selected := r } j flj o (fun e => hji e.symm) hauto hnt
          unfold SelKept at hk
          rw [hk]; exact hrep

/-- ready_eventually_dispatched for a socket that no callback script touches (no suspend / resume / write / remove of `i`
    from any callback): under a fair kernel, after every point of the run there is a later step at which run() has returned
    (interrupt), or hands a non-empty event of socket `i` to its dispatch switch, or the closing loop handles client `i`
    (it failed a read or write: onClosed instead of further events). -/
theorem ready_eventually_dispatched_untouched (s : St) (f : Nat → PollIn × Outcome) (i : Id) (hinv : Inv s) (hck : ClockOk s)
    (hg : ∀ n, ClosingCalm (runN s f n)) (hnt : NoTouch s.scripts i) (hfair : KernelFair s f i) (k : Nat) :
    ∃ m, k ≤ m ∧ ((runN s f m).pc = .idle ∨ (∃ fl, fl.isZero = false ∧ HandsOut (runN s f m) (f m).1 i fl) ∨
      ((∃ now tmo, (runN s f m).pc = .closing now tmo) ∧ (runN s f m).closing.head? = some i)) := by
  obtain ⟨m, hm, h⟩ := ready_eventually_dispatched_run s f i hinv hck hg hfair k
  refine ⟨m, hm, ?_⟩
  rcases h with h | ⟨fl, hnz, h | ⟨hb, hH, hP⟩⟩
  · exact Or.inl h
  · exact Or.inr (Or.inl ⟨fl, hnz, h⟩)
  · rcases step_keeps_untouched_event (runN s f m) (f m).1 (f m).2 i fl (runN_inv s f m hinv)
      (by rw [runN_scripts]; exact hnt) hb with h1 | h1 | h1
    · exact absurd h1 hH
    · exact absurd h1 hP
    · exact Or.inr (Or.inr h1)

end Nstd.Server.C14
