import Nstd.Server.LemmasC14A
/-
  C14 — identity bookkeeping invariant `InvU`: ids are never reused, an id is at most one kind of
  object, live objects have used ids, and an id whose removal has completed (`gone`) is in no
  object table — preserved by every API call, callback script, step of run() and environment action.
-/
namespace Nstd.Server.C14
open Nstd.Server.C13 (Outcome SendRes sendOS)

def Live (s : St) (i : Id) : Prop :=
  s.timers i ≠ none ∨ s.clients i ≠ none ∨ s.listeners i ≠ none ∨ s.ests i ≠ none

structure InvU (s : St) : Prop where
  auto1 : 1000 ≤ s.nextAuto
  auto2 : ∀ j, s.nextAuto ≤ j → s.used j = false
  liveUsed : ∀ i, Live s i → s.used i = true
  gone : ∀ i, s.gone i = true → s.used i = true ∧ ¬ Live s i
  disj : ∀ i, (s.timers i ≠ none → s.clients i = none ∧ s.listeners i = none ∧ s.ests i = none) ∧
    (s.clients i ≠ none → s.listeners i = none ∧ s.ests i = none) ∧ (s.listeners i ≠ none → s.ests i = none)

theorem invU_init : InvU init := by
  refine ⟨?_, ?_, ?_, ?_, ?_⟩ <;> simp [init, Live]

/-- the object tables and the id bookkeeping are untouched -/
def SameO (s s' : St) : Prop :=
  s'.timers = s.timers ∧ s'.clients = s.clients ∧ s'.listeners = s.listeners ∧ s'.ests = s.ests ∧
  s'.used = s.used ∧ s'.gone = s.gone ∧ s'.nextAuto = s.nextAuto

theorem SameO.rfl' (s : St) : SameO s s := ⟨rfl, rfl, rfl, rfl, rfl, rfl, rfl⟩

theorem pollSet_sameO (s : St) (i : Id) (ev : Flags) : SameO s (pollSet s i ev) := by
  unfold pollSet
  dsimp only
  repeat' split
  all_goals exact ⟨rfl, rfl, rfl, rfl, rfl, rfl, rfl⟩

theorem pollRemove_sameO (s : St) (i : Id) : SameO s (pollRemove s i) := by
  unfold pollRemove
  repeat' split
  all_goals exact ⟨rfl, rfl, rfl, rfl, rfl, rfl, rfl⟩

theorem pollStep_sameO (s : St) (inp : PollIn) : SameO s (pollStep s inp).1 := by
  unfold pollStep
  dsimp only
  repeat' split
  all_goals exact ⟨rfl, rfl, rfl, rfl, rfl, rfl, rfl⟩

theorem InvU.sameO {s s' : St} (h : InvU s) (hs : SameO s s') : InvU s' := by
  obtain ⟨a, b, c, d, e, f, g⟩ := hs
  refine ⟨by rw [g]; exact h.auto1, by rw [g, e]; exact h.auto2, ?_, ?_, ?_⟩
  · intro i hi; rw [e]; apply h.liveUsed; unfold Live at *; rw [a, b, c, d] at hi; exact hi
  · intro i hi; rw [f] at hi; rw [e]; unfold Live; rw [a, b, c, d]; exact h.gone i hi
  · rw [a, b, c, d]; exact h.disj

/-- leaf tactic: the goal is `InvU` of an explicit record built from a state `s` with `h : InvU s` -/
syntax "invu_leaf " ident : tactic
macro_rules
  | `(tactic| invu_leaf $h:ident) => `(tactic|
      (have h1 := ($h).auto1; have h2 := ($h).auto2; have h3 := ($h).liveUsed; have h4 := ($h).gone
       have h5 := ($h).disj
       refine ⟨?_, ?_, ?_, ?_, ?_⟩ <;> unfold Live at * <;> simp only [upd, markGone] at * <;> grind))

theorem mkTimer_invU (s : St) (i : Id) (iv : Int) (h : InvU s) : InvU (mkTimer s i iv) := by
  unfold mkTimer fresh
  dsimp only
  split
  · invu_leaf h
  · exact h

theorem rmTimer_invU (s : St) (i : Id) (h : InvU s) : InvU (rmTimer s i) := by
  unfold rmTimer
  split
  · invu_leaf h
  · exact h

theorem deleteClient_invU (s : St) (i : Id) (h : InvU s) (hl : s.clients i ≠ none) : InvU (deleteClient s i) := by
  unfold deleteClient
  dsimp only
  have h0 : InvU { s with closing := s.closing.filter (· ≠ i) } := ⟨h.auto1, h.auto2, h.liveUsed, h.gone, h.disj⟩
  have hso := pollRemove_sameO { s with closing := s.closing.filter (· ≠ i) } i
  have h1 := h0.sameO hso
  generalize pollRemove { s with closing := s.closing.filter (· ≠ i) } i = s2 at h1 hso ⊢
  obtain ⟨a, b, c, d, e, f, g⟩ := hso
  simp only at a b c d e f g
  have hl2 : s2.clients i ≠ none := by rw [b]; exact hl
  invu_leaf h1

theorem rmClient_invU (s : St) (i : Id) (h : InvU s) : InvU (rmClient s i) := by
  unfold rmClient
  split
  · rename_i c hc
    split
    · exact deleteClient_invU s i h (by rw [hc]; simp)
    · invu_leaf h
  · exact h

theorem rmListener_invU (s : St) (i : Id) (h : InvU s) : InvU (rmListener s i) := by
  unfold rmListener
  split
  · rename_i l hl
    dsimp only
    have hso := pollRemove_sameO s i
    have h1 := h.sameO hso
    generalize pollRemove s i = s2 at h1 hso ⊢
    obtain ⟨a, b, c, d, e, f, g⟩ := hso
    have hl2 : s2.listeners i ≠ none := by rw [c, hl]; simp
    invu_leaf h1
  · exact h

theorem rmEst_invU (s : St) (i : Id) (h : InvU s) : InvU (rmEst s i) := by
  unfold rmEst
  split
  · rename_i l hl
    dsimp only
    have hso := pollRemove_sameO s i
    have h1 := h.sameO hso
    generalize pollRemove s i = s2 at h1 hso ⊢
    obtain ⟨a, b, c, d, e, f, g⟩ := hso
    have hl2 : s2.ests i ≠ none := by rw [d, hl]; simp
    invu_leaf h1
  · exact h

theorem interrupt_invU (s : St) (h : InvU s) : InvU (interrupt s) := by
  unfold interrupt; split
  · exact h
  · exact ⟨h.auto1, h.auto2, h.liveUsed, h.gone, h.disj⟩

theorem addClosing_invU (s : St) (i : Id) (h : InvU s) : InvU (addClosing s i) :=
  ⟨h.auto1, h.auto2, h.liveUsed, h.gone, h.disj⟩

/-- replacing the record of a live client -/
theorem updClient_invU (s : St) (i : Id) (c c' : ClientS) (h : InvU s) (hc : s.clients i = some c) :
    InvU { s with clients := upd s.clients i (some c') } := by
  invu_leaf h

theorem suspend_invU (s : St) (i : Id) (h : InvU s) : InvU (suspend s i) := by
  unfold suspend
  split
  · rename_i c hc
    split
    · exact h
    · exact (updClient_invU s i c _ h hc).sameO (pollSet_sameO _ _ _)
  · exact h

theorem resume_invU (s : St) (i : Id) (h : InvU s) : InvU (resume s i) := by
  unfold resume
  split
  · rename_i c hc
    split
    · exact h
    · exact (updClient_invU s i c _ h hc).sameO (pollSet_sameO _ _ _)
  · exact h

theorem read_invU (s : St) (i : Id) (h : InvU s) : InvU (read s i) := by
  unfold read
  split
  · rename_i c hc
    split
    · exact updClient_invU s i c _ h hc
    · split
      · exact addClosing_invU s i h
      · exact h
  · exact h

theorem write_invU (s : St) (i : Id) (n : Nat) (o : Outcome) (h : InvU s) : InvU (write s i n o) := by
  unfold write
  split
  · rename_i c hc
    split
    · split
      · exact addClosing_invU s i h
      · exact addClosing_invU s i h
      · split
        · exact h
        · exact (updClient_invU s i c _ h hc).sameO (pollSet_sameO _ _ _)
      · split
        · exact h
        · exact (updClient_invU s i c _ h hc).sameO (pollSet_sameO _ _ _)
    · exact updClient_invU s i c _ h hc
  · exact h

theorem mkPair_invU (s : St) (i : Id) (h : InvU s) : InvU (mkPair s i) := by
  unfold mkPair fresh
  dsimp only
  split
  · refine InvU.sameO ?_ (pollSet_sameO _ _ _)
    invu_leaf h
  · exact h

theorem mkListener_invU (s : St) (i : Id) (h : InvU s) : InvU (mkListener s i) := by
  unfold mkListener fresh
  dsimp only
  split
  · refine InvU.sameO ?_ (pollSet_sameO _ _ _)
    invu_leaf h
  · exact h

theorem mkEst_invU (s : St) (i : Id) (h : InvU s) : InvU (mkEst s i) := by
  unfold mkEst fresh
  dsimp only
  split
  · refine InvU.sameO ?_ (pollSet_sameO _ _ _)
    invu_leaf h
  · exact h

theorem applyAct_invU (s : St) (nc : Option Id) (a : Act) (h : InvU s) : InvU (applyAct s nc a) := by
  cases a <;> unfold applyAct
  case mkTimer i iv => exact mkTimer_invU s i iv h
  case rmTimer i => exact rmTimer_invU s i h
  case rmClient i => exact rmClient_invU s i h
  case rmListener i => exact rmListener_invU s i h
  case rmEst i => exact rmEst_invU s i h
  case rmNew => cases nc <;> simp only <;> first | exact h | exact rmClient_invU s _ h
  case retNull => exact h
  case interrupt => exact interrupt_invU s h
  case suspend i => exact suspend_invU s i h
  case resume i => exact resume_invU s i h
  case read i => exact read_invU s i h
  case write i n o => exact write_invU s i n o h
  case mkPair i => exact mkPair_invU s i h
  case mkListener i => exact mkListener_invU s i h
  case mkEst i => exact mkEst_invU s i h

theorem runActs_invU (s : St) (nc : Option Id) (acts : List Act) (h : InvU s) : InvU (runActs s nc acts) := by
  induction acts generalizing s with
  | nil => exact h
  | cons a as ih => exact ih _ (applyAct_invU s nc a h)

theorem callback_invU (s : St) (i : Id) (nc : Option Id) (h : InvU s) : InvU (callback s i nc).1 := by
  unfold callback
  exact runActs_invU _ nc _ ⟨h.auto1, h.auto2, h.liveUsed, h.gone, h.disj⟩

theorem writeReady_invU (s : St) (i : Id) (o : Outcome) (h : InvU s) : InvU (writeReady s i o).1 := by
  unfold writeReady
  split
  · exact ⟨h.auto1, h.auto2, h.liveUsed, h.gone, h.disj⟩
  · rename_i c hc
    dsimp only
    split
    · exact ⟨h.auto1, h.auto2, h.liveUsed, h.gone, h.disj⟩
    · split
      · split
        · exact h
        · exact callback_invU _ _ _ ((updClient_invU s i c _ h hc).sameO (pollRemove_sameO _ _))
        · exact callback_invU _ _ _ ((updClient_invU s i c _ h hc).sameO (pollRemove_sameO _ _))
        · split
          · exact callback_invU _ _ _ ((updClient_invU s i c _ h hc).sameO (pollSet_sameO _ _ _))
          · exact updClient_invU s i c _ h hc
      · exact callback_invU _ _ _ (h.sameO (pollSet_sameO _ _ _))

theorem newClient_invU (s : St) (u : Bool) (h : InvU s) : InvU (newClient s s.nextAuto u) := by
  unfold newClient
  dsimp only
  refine InvU.sameO ?_ (pollSet_sameO _ _ _)
  invu_leaf h

theorem finishHandOver_invU (s : St) (nc : Id) (acts : List Act) (h : InvU s) : InvU (finishHandOver s nc acts) := by
  unfold finishHandOver
  split
  · exact ⟨h.auto1, h.auto2, h.liveUsed, h.gone, h.disj⟩
  · rename_i c hc
    split
    · exact deleteClient_invU s nc h (by rw [hc]; simp)
    · exact updClient_invU s nc c _ h hc

theorem updListener_invU (s : St) (i : Id) (l l' : ListenerS) (h : InvU s) (hc : s.listeners i = some l) :
    InvU { s with listeners := upd s.listeners i (some l') } := by
  invu_leaf h

theorem updEst_invU (s : St) (i : Id) (l l' : EstS) (h : InvU s) (hc : s.ests i = some l) :
    InvU { s with ests := upd s.ests i (some l') } := by
  invu_leaf h

theorem dispatch_invU (s : St) (ev : Option (Id × Flags)) (o : Outcome) (h : InvU s) : InvU (dispatch s ev o).1 := by
  have hf : ∀ s' : St, InvU s' → InvU { s' with fault := true } := fun s' h' => ⟨h'.auto1, h'.auto2, h'.liveUsed, h'.gone, h'.disj⟩
  have hr : ∀ s' : St, InvU s' → InvU { s' with interrupted := false, pc := .idle } :=
    fun s' h' => ⟨h'.auto1, h'.auto2, h'.liveUsed, h'.gone, h'.disj⟩
  unfold dispatch
  split
  · split
    · exact hr s h
    · exact h
  · rename_i i fl
    split
    · split
      · exact hr s h
      · exact h
    · split
      · split
        · split
          · exact callback_invU _ _ _ h
          · exact hf s h
        · exact hf s h
      · split
        · exact writeReady_invU s i o h
        · split
          · split
            · exact hf s h
            · rename_i l hl
              split
              · exact h
              · dsimp only
                have h1 := updListener_invU s i l { l with pending := l.pending - 1 } h hl
                have h2 := newClient_invU _ false h1
                exact finishHandOver_invU _ _ _ (callback_invU _ _ _ h2)
          · split
            · exact hf s h
            · rename_i e he
              dsimp only
              have hso := pollRemove_sameO s i
              have h0 := h.sameO hso
              split
              · exact callback_invU _ _ _ h0
              · have he' : (pollRemove s i).ests i = some e := by rw [hso.2.2.2.1]; exact he
                have h1 := updEst_invU _ i e { e with hasSocket := false } h0 he'
                have hna : (pollRemove s i).nextAuto = s.nextAuto := hso.2.2.2.2.2.2
                have h2 := newClient_invU _ false h1
                simp only [hna] at h2
                exact finishHandOver_invU _ _ _ (callback_invU _ _ _ h2)

theorem step_invU (s : St) (inp : PollIn) (o : Outcome) (h : InvU s) : InvU (step s inp o).1 := by
  have hf : ∀ s' : St, InvU s' → ∀ (q : List (Int × Option Id)) (f : Bool) (p : Pc) (cl : List Id),
      InvU { s' with queue := q, fault := f, pc := p, closing := cl } :=
    fun s' h' _ _ _ _ => ⟨h'.auto1, h'.auto2, h'.liveUsed, h'.gone, h'.disj⟩
  unfold step
  split
  · exact h
  · split
    · exact hf s h _ _ _ _
    · split
      · split
        · split
          · rename_i t _ ti ht
            apply callback_invU
            invu_leaf h
          · exact hf s h _ _ _ _
        · exact hf s h _ _ _ _
      · exact hf s h _ _ _ _
  · split
    · split
      · exact hf s h _ _ _ _
      · exact hf s h _ _ _ _
    · rename_i c rest hcl
      dsimp only
      have h0 : InvU { s with closing := rest } := hf s h _ _ _ _
      split
      · rename_i cl hc
        split
        · exact callback_invU _ _ _ h0
        · exact deleteClient_invU _ c h0 (by simp only; rw [hc]; simp)
      · exact hf _ h0 _ _ _ _
  · dsimp only
    have h1 : InvU (pollStep s inp).1 := h.sameO (pollStep_sameO s inp)
    have h2 := dispatch_invU (pollStep s inp).1 (pollStep s inp).2 o h1
    split
    · exact h2
    · exact hf _ h2 _ _ _ _

theorem envStep_invU (s : St) (e : EnvOp) (h : InvU s) : InvU (envStep s e) := by
  cases e <;> simp only [envStep]
  case peerSend i n =>
    split
    · rename_i c hc
      split
      · exact h
      · exact updClient_invU s i c _ h hc
    · exact h
  case peerClose i =>
    split
    · rename_i c hc
      split
      · exact updClient_invU s i c _ h hc
      · exact h
    · exact h
  case dial i =>
    split
    · rename_i l hl; exact updListener_invU s i l _ h hl
    · exact h
  case advance dt => exact ⟨h.auto1, h.auto2, h.liveUsed, h.gone, h.disj⟩
  case connFail i =>
    split
    · rename_i l hl; exact updEst_invU s i l _ h hl
    · exact h

end Nstd.Server.C14
