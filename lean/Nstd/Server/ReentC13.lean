import Nstd.Server.ModelC13
/-
  C13 — re-entrant histories: API calls issued from INSIDE the onRead / onWrite callback of the client.

  In Server.cpp the callback is the last action of its branch of run(): `onRead()` is called before anything is
  changed, `onWrite()` after the sent prefix was dropped, the buffer freed and the idle interest set
  (`_sockets.set(client, …); client._callback->onWrite(); continue;`).  The model's `ready` step returns exactly the
  state at that point, so a call made inside the callback acts on the state the step returns.  `runR` is that
  semantics (inner ops run at the callback point, only when a callback was delivered; afterwards run() goes round its
  loop, i.e. the closing loop runs before the next poll: a trailing `ready` that reports nothing); `runR_eq_flatten` says it is
  the plain history in execution order — so every theorem of PropsC13, being stated for ALL plain histories,
  holds with the writes issued inside callbacks counted in call order.  (A change that calls onWrite BEFORE the idle
  interest is set breaks the first sentence, not the theorem: the correspondence run with op `cb` checks it.)
-/
namespace Nstd.Server.C13

inductive OpR
  | plain (op : Op)
  | readyCb (selR selW : Bool) (o : Outcome) (inner : List Op)   -- one round of run() whose callback performs `inner`

/-- onRead or onWrite was delivered by the step (onClosed removes the client in the harness: no inner ops) -/
def delivered (out : Out) : Bool := out.cbs.contains .onRead || out.cbs.contains .onWrite

/-- semantics with the inner ops executed at the callback point -/
def runR (s : St) : List OpR → St
  | [] => s
  | .plain op :: r => runR (stepT s op).1 r
  | .readyCb a b o inner :: r =>
    let s1 := stepT s (.ready a b o)
    if delivered s1.2 then runR (stepT (runOps s1.1 inner) (.ready false false o)).1 r else runR s1.1 r

/-- the same history in execution order -/
def flatten (s : St) : List OpR → List Op
  | [] => []
  | .plain op :: r => op :: flatten (stepT s op).1 r
  | .readyCb a b o inner :: r =>
    let s1 := stepT s (.ready a b o)
    if delivered s1.2 then
      (.ready a b o :: inner) ++ .ready false false o :: flatten (stepT (runOps s1.1 inner) (.ready false false o)).1 r
    else .ready a b o :: flatten s1.1 r

theorem runOps_append (s : St) (a b : List Op) : runOps s (a ++ b) = runOps (runOps s a) b := by
  induction a generalizing s with
  | nil => rfl
  | cons x xs ih => exact ih _

theorem runR_eq_flatten (s : St) (ops : List OpR) : runR s ops = runOps s (flatten s ops) := by
  induction ops generalizing s with
  | nil => rfl
  | cons x r ih =>
    cases x with
    | plain op => simp only [runR, flatten, runOps]; exact ih _
    | readyCb a b o inner =>
      simp only [runR, flatten]
      split
      · rw [List.cons_append, runOps, runOps_append, runOps]; exact ih _
      · simp only [runOps]; exact ih _

end Nstd.Server.C13
