import Nstd.Server.LemmasC14S
/-
  C14 — `InvS` is preserved by every API call, callback script, step of run() and environment action.
-/
namespace Nstd.Server.C14
open Nstd.Server.C13 (Outcome SendRes sendOS)

theorem kindOk_sameX {s s' : St} (h : SameX s s') (i : Id) (reg : Flags) : KindOk s' i reg ↔ KindOk s i reg := by
  obtain ⟨a, b, c, _, _⟩ := h
  unfold KindOk; rw [a, b, c]

/-- `Poll::set(i, ev)` keeps `InvS` when the flags fit the kind of object `i` -/
theorem invS_pollSet (s : St) (nc : Option Id) (i : Id) (ev : Flags) (h : InvS s nc) (hk : KindOk s i ev) :
    InvS (pollSet s i ev) nc := by
  obtain ⟨hx, h1, h2, h3⟩ := pollSet_spec s i ev h.selSub
  have hx' := hx
  obtain ⟨a, b, c, d, e⟩ := hx
  refine ⟨h3, ?_, ?_, ?_, ?_, ?_, h.ncBig⟩
  · intro j reg hj
    rw [kindOk_sameX hx']
    by_cases hji : j = i
    · subst hji; rw [h1] at hj; injection hj with hj; subst hj; exact hk
    · rw [h2 j hji] at hj; exact h.kind j reg hj
  · rw [a]; exact h.hasCb
  · rw [a, d]; exact h.closing
  · rw [a]; exact h.ncLive
  · rw [e]; exact h.noFault

theorem invS_pollRemove (s : St) (nc : Option Id) (i : Id) (h : InvS s nc) : InvS (pollRemove s i) nc := by
  obtain ⟨hx, h1, h2, h3⟩ := pollRemove_spec s i h.selSub
  have hx' := hx
  obtain ⟨a, b, c, d, e⟩ := hx
  refine ⟨h3, ?_, ?_, ?_, ?_, ?_, h.ncBig⟩
  · intro j reg hj
    rw [kindOk_sameX hx']
    by_cases hji : j = i
    · subst hji; rw [h1] at hj; simp at hj
    · rw [h2 j hji] at hj; exact h.kind j reg hj
  · rw [a]; exact h.hasCb
  · rw [a, d]; exact h.closing
  · rw [a]; exact h.ncLive
  · rw [e]; exact h.noFault

theorem pollRemove_lookup_self (s : St) (i : Id) : lookup (pollRemove s i).sockets i = none := by
  unfold pollRemove
  cases hold : lookup s.sockets i with
  | none => exact hold
  | some old => exact lookup_eraseId_self _ _

/-- leaf tactic: `InvS` of an explicit record that leaves the poll tables alone -/
syntax "invs_leaf " ident : tactic
macro_rules
  | `(tactic| invs_leaf $h:ident) => `(tactic|
      (have a1 := ($h).selSub; have a2 := ($h).kind; have a3 := ($h).hasCb; have a4 := ($h).closing
       have a5 := ($h).ncLive; have a6 := ($h).noFault; have a7 := ($h).ncBig
       refine ⟨?_, ?_, ?_, ?_, ?_, ?_, ?_⟩ <;> unfold KindOk at * <;> (try simp only [upd, markGone] at *) <;>
         first | assumption | grind))

theorem invS_updClient (s : St) (nc : Option Id) (i : Id) (c c' : ClientS) (h : InvS s nc)
    (hc : s.clients i = some c) (hcb : c'.hasCb = c.hasCb) :
    InvS { s with clients := upd s.clients i (some c') } nc := by
  invs_leaf h

theorem invS_updListener (s : St) (nc : Option Id) (i : Id) (l l' : ListenerS) (h : InvS s nc)
    (hc : s.listeners i = some l) : InvS { s with listeners := upd s.listeners i (some l') } nc := by
  invs_leaf h

theorem invS_updEst (s : St) (nc : Option Id) (i : Id) (l l' : EstS) (h : InvS s nc)
    (hc : s.ests i = some l) : InvS { s with ests := upd s.ests i (some l') } nc := by
  invs_leaf h

theorem invS_addClosing (s : St) (nc : Option Id) (i : Id) (h : InvS s nc) (hc : s.clients i ≠ none) :
    InvS (addClosing s i) nc := by
  unfold addClosing
  split
  · exact ⟨h.selSub, h.kind, h.hasCb, h.closing, h.ncLive, h.noFault, h.ncBig⟩
  · refine ⟨h.selSub, h.kind, h.hasCb, ?_, h.ncLive, h.noFault, h.ncBig⟩
    intro j hj
    simp only [List.mem_append, List.mem_singleton] at hj
    rcases hj with hj | rfl
    · exact h.closing j hj
    · exact hc

/-- `deleteClient i` for a client other than the one being handed over -/
theorem invS_deleteClient (s : St) (nc : Option Id) (i : Id) (h : InvS s nc) (hn : nc ≠ some i) :
    InvS (deleteClient s i) nc := by
  unfold deleteClient
  dsimp only
  have h0 : InvS { s with closing := s.closing.filter (· ≠ i) } nc := by
    refine ⟨h.selSub, h.kind, h.hasCb, ?_, h.ncLive, h.noFault, h.ncBig⟩
    intro j hj
    exact h.closing j (List.mem_filter.mp hj).1
  have hni : ∀ j, j ∈ ({ s with closing := s.closing.filter (· ≠ i) } : St).closing → j ≠ i := by
    intro j hj; simpa using (List.mem_filter.mp hj).2
  have h1 := invS_pollRemove _ nc i h0
  have hl := pollRemove_lookup_self { s with closing := s.closing.filter (· ≠ i) } i
  have hcl : (pollRemove { s with closing := s.closing.filter (· ≠ i) } i).closing = s.closing.filter (· ≠ i) :=
    (pollRemove_spec _ i h0.selSub).1.2.2.2.1
  generalize pollRemove { s with closing := s.closing.filter (· ≠ i) } i = s2 at h1 hl hcl ⊢
  have a1 := h1.selSub; have a2 := h1.kind; have a3 := h1.hasCb; have a4 := h1.closing
  have a5 := h1.ncLive; have a6 := h1.noFault
  refine ⟨a1, ?_, ?_, ?_, ?_, a6, h1.ncBig⟩
  · intro j reg hj
    have hji : j ≠ i := by intro e; subst e; simp only [markGone] at hj; rw [hl] at hj; simp at hj
    have := a2 j reg hj
    unfold KindOk at *
    simp only [markGone, upd, hji, if_false]
    exact this
  · intro j c hj
    simp only [markGone, upd] at hj
    by_cases hji : j = i
    · simp [hji] at hj
    · simp only [hji, if_false] at hj; exact a3 j c hj
  · intro j hj
    simp only [markGone] at hj
    rw [hcl] at hj
    have hji : j ≠ i := by simpa using (List.mem_filter.mp hj).2
    simp only [markGone, upd, hji, if_false]
    exact a4 j (by rw [hcl]; exact hj)
  · intro j hj
    have hji : j ≠ i := by intro e; subst e; exact hn hj
    obtain ⟨c, hc1, hc2⟩ := a5 j hj
    exact ⟨c, by simp only [markGone, upd, hji, if_false]; exact hc1, hc2⟩

/-- `deleteClient nc` of the client being handed over ends the hand-over -/
theorem invS_deleteNew (s : St) (i : Id) (h : InvS s (some i)) : InvS (deleteClient s i) none := by
  unfold deleteClient
  dsimp only
  have h0 : InvS { s with closing := s.closing.filter (· ≠ i) } (some i) := by
    refine ⟨h.selSub, h.kind, h.hasCb, ?_, h.ncLive, h.noFault, h.ncBig⟩
    intro j hj
    exact h.closing j (List.mem_filter.mp hj).1
  have h1 := invS_pollRemove _ (some i) i h0
  have hl := pollRemove_lookup_self { s with closing := s.closing.filter (· ≠ i) } i
  have hcl : (pollRemove { s with closing := s.closing.filter (· ≠ i) } i).closing = s.closing.filter (· ≠ i) :=
    (pollRemove_spec _ i h0.selSub).1.2.2.2.1
  generalize pollRemove { s with closing := s.closing.filter (· ≠ i) } i = s2 at h1 hl hcl ⊢
  have a1 := h1.selSub; have a2 := h1.kind; have a3 := h1.hasCb; have a4 := h1.closing
  have a6 := h1.noFault
  refine ⟨a1, ?_, ?_, ?_, ?_, a6, by intro j hj; simp at hj⟩
  · intro j reg hj
    have hji : j ≠ i := by intro e; subst e; simp only [markGone] at hj; rw [hl] at hj; simp at hj
    have := a2 j reg hj
    unfold KindOk at *
    simp only [markGone, upd, hji, if_false]
    exact this
  · intro j c hj
    simp only [markGone, upd] at hj
    by_cases hji : j = i
    · simp [hji] at hj
    · simp only [hji, if_false] at hj
      rcases a3 j c hj with h' | h'
      · exact Or.inl h'
      · injection h' with h'; exact absurd h'.symm hji
  · intro j hj
    simp only [markGone] at hj
    rw [hcl] at hj
    have hji : j ≠ i := by simpa using (List.mem_filter.mp hj).2
    simp only [markGone, upd, hji, if_false]
    exact a4 j (by rw [hcl]; exact hj)
  · intro j hj; simp at hj

theorem invS_rmClient (s : St) (nc : Option Id) (i : Id) (h : InvS s nc) : InvS (rmClient s i) nc := by
  unfold rmClient
  split
  · rename_i c hc
    split
    · rename_i hcb
      apply invS_deleteClient s nc i h
      intro e
      obtain ⟨c', h1, h2⟩ := h.ncLive i e
      rw [hc] at h1; injection h1 with h1; subst h1; simp [hcb] at h2
    · have h1 := invS_updClient s nc i c { c with removed := true } h hc rfl
      have := invS_addClosing _ nc i h1 (by simp [upd])
      unfold addClosing at this
      exact this
  · exact h

theorem invS_rmListener (s : St) (nc : Option Id) (i : Id) (h : InvS s nc) : InvS (rmListener s i) nc := by
  unfold rmListener
  split
  · dsimp only
    have h1 := invS_pollRemove s nc i h
    have hl := pollRemove_lookup_self s i
    generalize pollRemove s i = s2 at h1 hl ⊢
    have a1 := h1.selSub; have a2 := h1.kind; have a3 := h1.hasCb; have a4 := h1.closing
    have a5 := h1.ncLive; have a6 := h1.noFault
    refine ⟨a1, ?_, a3, a4, a5, a6, h1.ncBig⟩
    intro j reg hj
    have hji : j ≠ i := by intro e; subst e; simp only [markGone] at hj; rw [hl] at hj; simp at hj
    have := a2 j reg hj
    unfold KindOk at *
    simp only [markGone, upd, hji, if_false]
    exact this
  · exact h

theorem invS_rmEst (s : St) (nc : Option Id) (i : Id) (h : InvS s nc) : InvS (rmEst s i) nc := by
  unfold rmEst
  split
  · dsimp only
    have h1 := invS_pollRemove s nc i h
    have hl := pollRemove_lookup_self s i
    generalize pollRemove s i = s2 at h1 hl ⊢
    have a1 := h1.selSub; have a2 := h1.kind; have a3 := h1.hasCb; have a4 := h1.closing
    have a5 := h1.ncLive; have a6 := h1.noFault
    refine ⟨a1, ?_, a3, a4, a5, a6, h1.ncBig⟩
    intro j reg hj
    have hji : j ≠ i := by intro e; subst e; simp only [markGone] at hj; rw [hl] at hj; simp at hj
    have := a2 j reg hj
    unfold KindOk at *
    simp only [markGone, upd, hji, if_false]
    exact this
  · exact h

theorem invS_interrupt (s : St) (nc : Option Id) (h : InvS s nc) : InvS (interrupt s) nc := by
  unfold interrupt; split
  · exact h
  · exact ⟨h.selSub, h.kind, h.hasCb, h.closing, h.ncLive, h.noFault, h.ncBig⟩

/-- update a client record and re-register it with client flags -/
theorem invS_updSet (s : St) (nc : Option Id) (i : Id) (c c' : ClientS) (su : Bool) (b : Nat) (h : InvS s nc)
    (hc : s.clients i = some c) (hcb : c'.hasCb = c.hasCb) :
    InvS (pollSet { s with clients := upd s.clients i (some c') } i (clientFlags su b)) nc := by
  apply invS_pollSet _ nc i _ (invS_updClient s nc i c c' h hc hcb)
  exact Or.inl ⟨c', by simp [upd], rfl, rfl⟩

theorem invS_suspend (s : St) (nc : Option Id) (i : Id) (h : InvS s nc) : InvS (suspend s i) nc := by
  unfold suspend
  split
  · rename_i c hc
    split
    · exact h
    · exact invS_updSet s nc i c _ _ _ h hc rfl
  · exact h

theorem invS_resume (s : St) (nc : Option Id) (i : Id) (h : InvS s nc) : InvS (resume s i) nc := by
  unfold resume
  split
  · rename_i c hc
    split
    · exact h
    · exact invS_updSet s nc i c _ _ _ h hc rfl
  · exact h

theorem invS_read (s : St) (nc : Option Id) (i : Id) (h : InvS s nc) : InvS (read s i) nc := by
  unfold read
  split
  · rename_i c hc
    split
    · exact invS_updClient s nc i c _ h hc rfl
    · split
      · exact invS_addClosing s nc i h (by rw [hc]; simp)
      · exact h
  · exact h

theorem invS_write (s : St) (nc : Option Id) (i : Id) (n : Nat) (o : Outcome) (h : InvS s nc) :
    InvS (write s i n o) nc := by
  unfold write
  split
  · rename_i c hc
    have hne : s.clients i ≠ none := by rw [hc]; simp
    split
    · split
      · exact invS_addClosing s nc i h hne
      · exact invS_addClosing s nc i h hne
      · split
        · exact h
        · exact invS_updSet s nc i c _ _ _ h hc rfl
      · split
        · exact h
        · exact invS_updSet s nc i c _ _ _ h hc rfl
    · exact invS_updClient s nc i c _ h hc rfl
  · exact h

theorem invS_mkTimer (s : St) (nc : Option Id) (i : Id) (iv : Int) (h : InvS s nc) : InvS (mkTimer s i iv) nc := by
  unfold mkTimer
  dsimp only
  split
  · exact ⟨h.selSub, h.kind, h.hasCb, h.closing, h.ncLive, h.noFault, h.ncBig⟩
  · exact h

theorem invS_rmTimer (s : St) (nc : Option Id) (i : Id) (h : InvS s nc) : InvS (rmTimer s i) nc := by
  unfold rmTimer
  split
  · exact ⟨h.selSub, h.kind, h.hasCb, h.closing, h.ncLive, h.noFault, h.ncBig⟩
  · exact h

theorem fresh_lt (s : St) (i : Id) (h : fresh s i = true) : i < 1000 := by
  unfold fresh at h; simp at h; exact h.2

theorem invS_mkPair (s : St) (nc : Option Id) (i : Id) (h : InvS s nc) : InvS (mkPair s i) nc := by
  unfold mkPair
  dsimp only
  split
  · rename_i hf
    have hlt := fresh_lt s i hf
    have hne : nc ≠ some i := by intro e; exact absurd hlt (Nat.not_lt.mpr (h.ncBig i e))
    apply invS_pollSet
    · invs_leaf h
    · exact Or.inl ⟨{ hasCb := true }, by simp [upd], rfl, rfl⟩
  · exact h

theorem invS_mkListener (s : St) (nc : Option Id) (i : Id) (h : InvS s nc) : InvS (mkListener s i) nc := by
  unfold mkListener
  dsimp only
  split
  · apply invS_pollSet
    · invs_leaf h
    · exact Or.inr (Or.inl ⟨{}, by simp [upd], rfl, rfl, rfl⟩)
  · exact h

theorem invS_mkEst (s : St) (nc : Option Id) (i : Id) (h : InvS s nc) : InvS (mkEst s i) nc := by
  unfold mkEst
  dsimp only
  split
  · apply invS_pollSet
    · invs_leaf h
    · exact Or.inr (Or.inr ⟨{}, by simp [upd], rfl, rfl, rfl⟩)
  · exact h

theorem invS_applyAct (s : St) (nc : Option Id) (a : Act) (h : InvS s nc) : InvS (applyAct s nc a) nc := by
  cases a <;> simp only [applyAct]
  case mkTimer i iv => exact invS_mkTimer s nc i iv h
  case rmTimer i => exact invS_rmTimer s nc i h
  case rmClient i => exact invS_rmClient s nc i h
  case rmListener i => exact invS_rmListener s nc i h
  case rmEst i => exact invS_rmEst s nc i h
  case rmNew => cases nc <;> simp only <;> first | exact h | exact invS_rmClient s _ _ h
  case retNull => exact h
  case interrupt => exact invS_interrupt s nc h
  case suspend i => exact invS_suspend s nc i h
  case resume i => exact invS_resume s nc i h
  case read i => exact invS_read s nc i h
  case write i n o => exact invS_write s nc i n o h
  case mkPair i => exact invS_mkPair s nc i h
  case mkListener i => exact invS_mkListener s nc i h
  case mkEst i => exact invS_mkEst s nc i h

theorem invS_runActs (s : St) (nc : Option Id) (acts : List Act) (h : InvS s nc) : InvS (runActs s nc acts) nc := by
  induction acts generalizing s with
  | nil => exact h
  | cons a as ih => exact ih _ (invS_applyAct s nc a h)

theorem invS_callback (s : St) (i : Id) (nc : Option Id) (h : InvS s nc) : InvS (callback s i nc).1 nc := by
  unfold callback
  exact invS_runActs _ nc _ ⟨h.selSub, h.kind, h.hasCb, h.closing, h.ncLive, h.noFault, h.ncBig⟩

end Nstd.Server.C14
