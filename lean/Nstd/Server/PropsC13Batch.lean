import Nstd.Server.PropsC14
import Nstd.Server.RefineC13C14
/-
  C13, clause "a suspended client gets no read notifications until it is resumed", for SEVERAL clients
  of one Server and with the poll's pending batch: the single-client model of ModelC13 has no batch, so the
  clause is restated here over the event-loop model of ModelC14, whose `selected` field is
  `Socket::Poll::selectedSockets` — the events one epoll_wait call fetched and poll() has not handed out yet.
  `reach ms` ranges over all histories: any number of clients, any epoll_wait answer (any sockets in any
  order in one batch), suspend/resume issued at top level or from the callback of ANY object (another
  client, a listener, an establisher, a timer firing between two events of one batch).
-/
namespace Nstd.Server.C13B
open Nstd.Server.C14

/-- `Poll::set` purges: once the interest of socket `i` is `ev`, whatever event of `i` is still pending in
    the batch carries only flags of `ev` (for `suspend`: no read flag) -/
theorem set_purges_pending_batch (s : St) (i : Id) (ev fl : Flags)
    (hsel : ∀ j f, (j, f) ∈ s.selected → ∃ reg, lookup s.sockets j = some reg ∧ f.sub reg)
    (h : (i, fl) ∈ (pollSet s i ev).selected) : fl.sub ev := by
  obtain ⟨_, h1, _, h3⟩ := pollSet_spec s i ev hsel
  obtain ⟨reg, hr, hs⟩ := h3 i fl h
  rw [h1] at hr; injection hr with hr; subst hr; exact hs

/-- in every reachable state the pending batch holds no read event for a suspended client -/
theorem suspended_has_no_pending_read (ms : List Move) (i : Id) (fl : Flags) (c : ClientS)
    (hc : (reach ms).clients i = some c) (hs : c.suspended = true) (h : (i, fl) ∈ (reach ms).selected) :
    fl.r = false := by
  obtain ⟨reg, hreg, hsub⟩ := buffered_events_are_registered ms i fl h
  have := client_interest ms i c reg hc hreg
  cases hr : fl.r with
  | false => rfl
  | true =>
    have := hsub.1 hr
    simp_all [clientFlags]

/-- suspended_no_read with a pending batch: no poll step — whether it asks the kernel or hands out an event
    fetched earlier in the same batch — delivers onRead to a client that is suspended when the step starts -/
theorem suspended_no_read_batch (ms : List Move) (inp : PollIn) (o : Nstd.Server.C13.Outcome) (now tmo : Int)
    (hpc : (reach ms).pc = .poll now tmo) (c : Id) (cl : ClientS) (hc : (reach ms).clients c = some cl)
    (hs : cl.suspended = true) : Ev.onRead c ∉ (step (reach ms) inp o).2 := by
  intro he
  obtain ⟨cl', hc', hs'⟩ := suspended_client_no_onRead ms inp o now tmo hpc c he
  rw [hc] at hc'; injection hc' with hc'; subst hc'
  simp [hs] at hs'

/-- onRead is a poll-step callback only: timer and closing steps never deliver it -/
theorem onRead_only_from_poll (ms : List Move) (inp : PollIn) (o : Nstd.Server.C13.Outcome) (c : Id)
    (he : Ev.onRead c ∈ (step (reach ms) inp o).2) : ∃ now tmo, (reach ms).pc = .poll now tmo := by
  unfold step at he
  split at he
  · simp at he
  · exfalso
    revert he
    repeat' split
    all_goals simp
  · exfalso
    revert he
    dsimp only
    repeat' split
    all_goals simp
  · rename_i now tmo hpc; exact ⟨now, tmo, hpc⟩

/-! ### the two models describe the same client

  `Refine.Sim t s i`: client `i` of the event-loop state `s` has the backlog LENGTH, suspended flag, poll
  registration and closing-set membership of the byte-level one-client state `t`.  The calls the clause is about
  commute with that abstraction, so the byte-stream theorems of PropsC13 and the batch theorems above speak
  about one and the same `ClientImpl`. -/

theorem write_refines_count_model (t : Nstd.Server.C13.St) (s : St) (i : Id) (d : List Nat)
    (o : Nstd.Server.C13.Outcome) (h : Refine.Sim t s i) :
    Refine.Sim (Nstd.Server.C13.write t d o).1 (write s i d.length o) i := Refine.write_refines t s i d o h

theorem suspend_refines_count_model (t : Nstd.Server.C13.St) (s : St) (i : Id) (h : Refine.Sim t s i) :
    Refine.Sim (Nstd.Server.C13.suspend t) (suspend s i) i := Refine.suspend_refines t s i h

theorem resume_refines_count_model (t : Nstd.Server.C13.St) (s : St) (i : Id) (h : Refine.Sim t s i) :
    Refine.Sim (Nstd.Server.C13.resume t) (resume s i) i := Refine.resume_refines t s i h

/-- non-vacuity: two readable clients fetched in ONE batch; the callback of the first suspends the second;
    the second's pending event is purged and it gets no onRead -/
def exBatch : List Move :=
  [.mkPair 1, .mkPair 2, .env (.peerSend 1 3), .env (.peerSend 2 3), .script 1 0 [.suspend 2],
   .enter, .step {} .all, .step {} .all, .step {} .all]

example :
    (step (reach exBatch) { events := [(1, { inn := true }), (2, { inn := true })] } .all).2 = [Ev.onRead 1] ∧
    (step (reach exBatch) { events := [(1, { inn := true }), (2, { inn := true })] } .all).1.selected = [] := by
  decide

end Nstd.Server.C13B
