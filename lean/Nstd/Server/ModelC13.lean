/-
  C13 — model of the write path of one `Server` client (src/Socket/Server.cpp):
  `ClientImpl::write` (431-467), `ClientImpl::read` (469-490), `suspend`/`resume` (492-506),
  the write-ready / read-ready branches of `Server::Private::run` (321-352) and the
  closing loop (264-272), for ONE client connected to a peer through the operating system.

  The operating system is an oracle: every `send(n)` is answered by an `Outcome` chosen by the
  environment (it is part of the op line): would-block, error, or a byte count (clipped to `n`).
  Bytes handed to the OS travel in order to the peer (`wire`); bytes the peer sends wait in `inbox`.
  The user callback object of the harness logs `onRead`/`onWrite`/`onClosed` and calls
  `server.remove(client)` inside `onClosed` (after which the client is `dead`).

  Ghost fields (`handed`, `accepted`, `received`) record the history the theorems talk about;
  no decision of the model reads them.
-/
namespace Nstd.Server.C13

/-- the environment's answer to one `send(n)` -/
inductive Outcome
  | wb                 -- EWOULDBLOCK / EAGAIN
  | err                -- any other error
  | cnt (k : Nat)      -- k bytes (clipped to n)
  | half               -- max 1 (n/2), clipped to n
  | all                -- n bytes
  deriving Repr, DecidableEq

/-- what `Socket::send` returns: -1 with error 0, -1 with an error, or the count -/
inductive SendRes
  | wouldblock
  | error
  | sent (k : Nat)
  deriving Repr, DecidableEq

def sendOS (n : Nat) : Outcome → SendRes
  | .wb => .wouldblock
  | .err => .error
  | .cnt k => .sent (min k n)
  | .half => .sent (if n ≤ 1 then n else n / 2)
  | .all => .sent n

/-- poll registration of the client: `none` = not registered, `some (r, w)` = the flag set -/
abbrev Interest := Option (Bool × Bool)

inductive Cb
  | onRead | onWrite | onClosed
  deriving Repr, DecidableEq

structure St where
  backlog : List Nat        -- ClientImpl::_sendBuffer
  suspended : Bool          -- ClientImpl::_suspended
  interest : Interest       -- Poll registration of the client socket
  closing : Bool            -- member of Private::_closingClients
  dead : Bool               -- removed from the server (deleteClient ran)
  inbox : List Nat          -- bytes sent by the peer, not yet read by the client
  wire : List Nat           -- bytes handed to the OS, not yet read by the peer
  handed : List Nat         -- ghost: all bytes ever handed to the OS (successful sends), in order
  accepted : List Nat       -- ghost: concatenation of the data of all writes that returned true
  received : List Nat       -- ghost: all bytes the peer has read so far
  deriving Repr

def init : St :=
  { backlog := [], suspended := false, interest := some (true, false), closing := false, dead := false,
    inbox := [], wire := [], handed := [], accepted := [], received := [] }

inductive Op
  | write (data : List Nat) (o : Outcome)
  | ready (selR selW : Bool) (o : Outcome)   -- one round of run(): closing loop, one poll, dispatch
  | read (max : Nat)
  | peersend (data : List Nat)
  | peerread
  | suspend
  | resume
  deriving Repr

inductive Res
  | wrote (ret : Bool) (postponed : Nat)
  | ok
  | readRes (ret : Bool) (data : List Nat)
  | got (data : List Nat)
  | dead
  deriving Repr, DecidableEq

structure Out where
  res : Res
  cbs : List Cb := []
  sends : List (Nat × SendRes) := []
  deriving Repr

/-- `Poll::set(client, flags)` (registers the socket when it is not registered) -/
def setInterest (s : St) (r w : Bool) : St := { s with interest := some (r, w) }

/-- the OS accepted the first `k` bytes of `data` -/
def hand (s : St) (data : List Nat) (k : Nat) : St :=
  { s with wire := s.wire ++ data.take k, handed := s.handed ++ data.take k }

/-- `onClosed` of the harness callback: log + `server.remove(client)` → `deleteClient` -/
def closeAndRemove (s : St) : St :=
  { s with closing := false, dead := true, interest := none }

/-- `ClientImpl::write(data, size, &postponed)` -/
def write (s : St) (data : List Nat) (o : Outcome) : St × Out :=
  if s.backlog.isEmpty then
    let r := sendOS data.length o
    match r with
    | .error => ({ s with closing := true }, { res := .wrote false 0, sends := [(data.length, r)] })
    | .sent 0 => ({ s with closing := true }, { res := .wrote false 0, sends := [(data.length, r)] })
    | .wouldblock =>
      if 0 ≥ data.length then
        ({ s with accepted := s.accepted ++ data }, { res := .wrote true 0, sends := [(data.length, r)] })
      else
        let s1 := { s with backlog := data, accepted := s.accepted ++ data }
        let s2 := setInterest s1 (!s.suspended) true
        (s2, { res := .wrote true s2.backlog.length, sends := [(data.length, r)] })
    | .sent (k + 1) =>
      let s0 := hand s data (k + 1)
      if k + 1 ≥ data.length then
        ({ s0 with accepted := s.accepted ++ data }, { res := .wrote true 0, sends := [(data.length, r)] })
      else
        let s1 := { s0 with backlog := data.drop (k + 1), accepted := s.accepted ++ data }
        let s2 := setInterest s1 (!s.suspended) true
        (s2, { res := .wrote true s2.backlog.length, sends := [(data.length, r)] })
  else
    let s1 := { s with backlog := s.backlog ++ data, accepted := s.accepted ++ data }
    (s1, { res := .wrote true s1.backlog.length })

/-- the write-ready branch of `run()` (Server.cpp 323-352) -/
def writeReady (s : St) (o : Outcome) : St × Out :=
  if !s.backlog.isEmpty then
    let n := s.backlog.length
    let r := sendOS n o
    match r with
    | .wouldblock => (s, { res := .ok, sends := [(n, r)] })
    | .error => (closeAndRemove { s with backlog := [] }, { res := .ok, cbs := [.onClosed], sends := [(n, r)] })
    | .sent 0 => (closeAndRemove { s with backlog := [] }, { res := .ok, cbs := [.onClosed], sends := [(n, r)] })
    | .sent (k + 1) =>
      let s0 := hand s s.backlog (k + 1)
      let s1 := { s0 with backlog := s.backlog.drop (k + 1) }
      if s1.backlog.isEmpty then
        (setInterest s1 (!s1.suspended) false, { res := .ok, cbs := [.onWrite], sends := [(n, r)] })
      else
        (s1, { res := .ok, sends := [(n, r)] })
  else
    (setInterest s (!s.suspended) false, { res := .ok, cbs := [.onWrite] })

/-- one round of `run()`: closing loop, then one poll whose result is the registered interest
    restricted to what is really ready (readable iff `inbox ≠ []`, writable always) and to
    what the kernel chose to report (`selR`, `selW`) -/
def ready (s : St) (selR selW : Bool) (o : Outcome) : St × Out :=
  if s.closing then
    (closeAndRemove s, { res := .ok, cbs := [.onClosed] })
  else
    match s.interest with
    | none => (s, { res := .ok })
    | some (ir, iw) =>
      let evR := ir && selR && !s.inbox.isEmpty
      let evW := iw && selW
      if evR then (s, { res := .ok, cbs := [.onRead] })
      else if evW then writeReady s o
      else (s, { res := .ok })

/-- `ClientImpl::read(buffer, maxSize, size)` with `maxSize ≥ 1`, peer still connected -/
def read (s : St) (max : Nat) : St × Out :=
  if s.inbox.isEmpty then (s, { res := .readRes false [] })
  else ({ s with inbox := s.inbox.drop max }, { res := .readRes true (s.inbox.take max) })

def suspend (s : St) : St :=
  if s.suspended then s
  else setInterest { s with suspended := true } false (!s.backlog.isEmpty)

def resume (s : St) : St :=
  if !s.suspended then s
  else setInterest { s with suspended := false } true (!s.backlog.isEmpty)

/-- `none` = the op is not executable (`bad-op`): empty peer data, `read 0` -/
def step (s : St) : Op → Option (St × Out)
  | .peerread => some ({ s with wire := [], received := s.received ++ s.wire }, { res := .got s.wire })
  | .peersend d =>
    if d.isEmpty then none
    else if s.dead then some (s, { res := .dead })
    else some ({ s with inbox := s.inbox ++ d }, { res := .ok })
  | .ready selR selW o => if s.dead then some (s, { res := .ok }) else some (ready s selR selW o)
  | .write d o => if s.dead then some (s, { res := .dead }) else some (write s d o)
  | .read m =>
    if m = 0 then none
    else if s.dead then some (s, { res := .dead }) else some (read s m)
  | .suspend => if s.dead then some (s, { res := .dead }) else some (suspend s, { res := .ok })
  | .resume => if s.dead then some (s, { res := .dead }) else some (resume s, { res := .ok })

/-- total version used for histories: a non-executable op leaves the state unchanged -/
def stepT (s : St) (op : Op) : St × Out :=
  match step s op with
  | some r => r
  | none => (s, { res := .ok })

def runOps (s : St) : List Op → St
  | [] => s
  | op :: ops => runOps (stepT s op).1 ops

end Nstd.Server.C13
