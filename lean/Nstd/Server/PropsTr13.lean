import Nstd.Server.TrC13
/-
  Tie by translation, byte level (C13): the translated bodies of `ClientImpl::write / suspend / resume / read` and of the
  write-ready branch of `run()` (Nstd/Generated/ServerTr.lean, from the CURRENT Server.cpp) are the steps of the byte-level
  one-client model — same bytes in the backlog and on the wire, same poll interest, same closing / dead flags, same return
  value and postponed count, same intercepted sends, same callbacks — for every state, data, send outcome.
  (`accepted` is a ghost field of the model: data of the writes that returned true; the C++ has no counterpart.)
-/
set_option linter.unusedSimpArgs false

namespace Nstd.Server.Tr
open Nstd.Server.C13
open Nstd.Generated

attribute [local simp] C14.Flags.union C14.Flags.isZero finter fcompl

/-- `ClientImpl::write(data, size, &postponed)` -/
theorem tr13_write_eq (opq : Nat → Int) (s : St) (d : List Nat) (o : Outcome) (e er : Int) (he : e ≠ 0) :
    let m := ServerTr.write (P13 d o e) opq (d.length : Int) true ⟨s, [], [], er, []⟩
    { m.1.st with accepted := (write s d o).1.accepted } = (write s d o).1 ∧
    wroteOf m.2.1 m.2.2 = (write s d o).2.res ∧ m.1.sends = (write s d o).2.sends ∧ m.1.cbs = (write s d o).2.cbs := by
  unfold ServerTr.write write
  by_cases hb : s.backlog.isEmpty = true
  · cases hr : sendOS d.length o with
    | wouldblock =>
      by_cases hn : d.length = 0
      · have hr0 : sendOS 0 o = .wouldblock := hn ▸ hr
        simp [P13, hb, hr, hr0, wroteOf, hn]
      · have h3 : ¬ ((d.length : Int) ≤ 0) := by omega
        have hbl : s.backlog = [] := by cases hx : s.backlog <;> simp_all
        have hdne : d ≠ [] := by intro h; simp [h] at hn
        cases hs : s.suspended <;>
          simp [P13, hb, hr, wroteOf, hn, h3, hs, setInterest, C14.Flags.union, hbl, hdne]
    | error => simp [P13, hb, hr, wroteOf, he]
    | sent k =>
      cases k with
      | zero => simp [P13, hb, hr, wroteOf, hand]
      | succ k =>
        have h1 : ((k : Int) + 1 = -1) = False := by simp; omega
        have h2 : ((k : Int) + 1 = 0) = False := by simp; omega
        have hbl : s.backlog = [] := by cases hx : s.backlog <;> simp_all
        by_cases hn : k + 1 ≥ d.length
        · have h3 : ((d.length : Int) ≤ (k : Int) + 1) := by omega
          simp [P13, hb, hr, wroteOf, h1, h2, h3, hn, hand]
        · have h3 : ¬ ((d.length : Int) ≤ (k : Int) + 1) := by omega
          have h4 : ((d.length : Int) - ((k : Int) + 1)).toNat = d.length - (k + 1) := by omega
          have h5 : ((k : Int) + 1).toNat = k + 1 := by omega
          have h6 : (List.drop (k + 1) d).take (d.length - (k + 1)) = List.drop (k + 1) d := by
            apply List.take_of_length_le; simp
          have hdne : List.drop (k + 1) d ≠ [] := by
            intro h; have := congrArg List.length h; simp at this; omega
          have hlt : k + 1 < d.length := by omega
          cases hs : s.suspended <;>
            simp [P13, hb, hr, wroteOf, h1, h2, h3, h4, h5, h6, hn, hs, hand, setInterest, C14.Flags.union, hbl, hdne, hlt]
  · have hb' : s.backlog.isEmpty = false := by simpa using hb
    simp [P13, hb', wroteOf]
    omega

/-- the write-ready branch of `run()` -/
theorem tr13_writeBranch_eq (opq : Nat → Int) (s : St) (o : Outcome) (e er : Int) (he : e ≠ 0) (fl : C14.Flags) :
    let m := ServerTr.writeBranch (P13 [] o e) opq fl ⟨s, [], [], er, []⟩
    m.st = (writeReady s o).1 ∧ m.sends = (writeReady s o).2.sends ∧ m.cbs = (writeReady s o).2.cbs := by
  unfold ServerTr.writeBranch writeReady
  by_cases hb : s.backlog.isEmpty = true
  · have hbl : s.backlog = [] := by cases hx : s.backlog <;> simp_all
    cases hs : s.suspended <;> simp [P13, hb, hs, setInterest, hbl]
  · have hb' : s.backlog.isEmpty = false := by simpa using hb
    have hne : s.backlog ≠ [] := by intro h; simp [h] at hb
    have hlen : s.backlog.length ≠ 0 := by cases hx : s.backlog <;> simp_all
    cases hr : sendOS s.backlog.length o with
    | wouldblock => simp [P13, hb', hne, hlen, hr]
    | error => simp [P13, hb', hne, hlen, hr, he, closeAndRemove]
    | sent k =>
      cases k with
      | zero => simp [P13, hb', hne, hlen, hr, closeAndRemove, hand]
      | succ k =>
        have h1 : ((k : Int) + 1 = -1) = False := by simp; omega
        have h2 : ((k : Int) + 1 = 0) = False := by simp; omega
        have h5 : ((k : Int) + 1).toNat = k + 1 := by omega
        by_cases hd : (s.backlog.drop (k + 1)).isEmpty = true
        · have hdl : s.backlog.drop (k + 1) = [] := by cases hx : s.backlog.drop (k + 1) <;> simp_all
          cases hs : s.suspended <;>
            simp [P13, hb', hne, hlen, hr, h1, h2, h5, hd, hdl, hs, hand, setInterest]
        · have hd' : (s.backlog.drop (k + 1)).isEmpty = false := by simpa using hd
          simp [P13, hb', hne, hlen, hr, h1, h2, h5, hd', hand]

/-- `ClientImpl::suspend` / `resume` -/
theorem tr13_suspend_eq (opq : Nat → Int) (s : St) (o : Outcome) (e er : Int) :
    (ServerTr.suspend (P13 [] o e) opq ⟨s, [], [], er, []⟩).st = suspend s := by
  unfold ServerTr.suspend suspend
  cases hs : s.suspended <;> cases hb : s.backlog <;> simp [P13, hs, hb, setInterest]

theorem tr13_resume_eq (opq : Nat → Int) (s : St) (o : Outcome) (e er : Int) :
    (ServerTr.resume (P13 [] o e) opq ⟨s, [], [], er, []⟩).st = resume s := by
  unfold ServerTr.resume resume
  cases hs : s.suspended <;> cases hb : s.backlog <;> simp [P13, hs, hb, setInterest, C14.Flags.union]

/-- `ClientImpl::read(buffer, maxSize, size)` with the peer connected: state, return value, `size` and the bytes -/
theorem tr13_read_eq (opq : Nat → Int) (s : St) (o : Outcome) (e er : Int) (mx : Nat) (hmx : 0 < mx) :
    let m := ServerTr.read (P13 [] o e) opq (mx : Int) ⟨s, [], [], er, []⟩
    m.1.st = (C13.read s mx).1 ∧ Res.readRes m.2.1 m.1.rdata = (C13.read s mx).2.res ∧
    (m.2.1 = true → m.2.2 = some ((m.1.rdata.length : Nat) : Int)) := by
  unfold ServerTr.read C13.read
  by_cases hi : s.inbox.isEmpty = true
  · have hnil : s.inbox = [] := by cases hx : s.inbox <;> simp_all
    simp [P13, hi, hnil]
  · have hi' : s.inbox.isEmpty = false := by simpa using hi
    have hne : s.inbox ≠ [] := by intro h; simp [h] at hi
    have hlen : 0 < s.inbox.length := by cases hx : s.inbox <;> simp_all
    have hmx0 : mx ≠ 0 := by omega
    have h1 : ¬ (((min mx s.inbox.length : Nat) : Int) = -1) := by omega
    have h2 : ¬ (((min mx s.inbox.length : Nat) : Int) = 0) := by omega
    have h3 : 0 < min mx s.inbox.length := by omega
    simp [P13, hi', hne, h1, h2, h3, hmx0]

end Nstd.Server.Tr
