import Nstd.Server.EventsC14
/-
  C14 — remaining step facts used by PropsC14: `gone` and the interrupt invariant along histories,
  stability of a timer record across a callback script, the closing loop, failing I/O.
-/
namespace Nstd.Server.C14
open Nstd.Server.C13 (Outcome SendRes sendOS)

/-- `interrupted ⇒ event descriptor signalled` -/
def InvI (s : St) : Prop := s.interrupted = true → 0 < s.eventfd + s.pendingEfd

theorem move_gone_invI (s : St) (m : Move) :
    (∀ i, s.gone i = true → (move s m).gone i = true) ∧ (InvI s → InvI (move s m)) ∧
    (s.interrupted = true → (move s m).interrupted = true ∨ (move s m).pc = .idle) := by
  have ofRel : ∀ s', Rel s s' → (∀ i, s.gone i = true → s'.gone i = true) ∧ (InvI s → InvI s') ∧
      (s.interrupted = true → s'.interrupted = true ∨ s'.pc = .idle) :=
    fun s' h => ⟨h.2.1, h.2.2.1, fun hi => Or.inl (h.2.2.2 hi)⟩
  cases m <;> simp only [move]
  case act a => exact ofRel _ (applyAct_rel s none a)
  case env e =>
    apply ofRel
    cases e <;> simp only [envStep] <;> (repeat' split) <;> exact ⟨rfl, fun _ h => h, fun h => h, fun h => h⟩
  case mkPair i =>
    apply ofRel; unfold mkPair; dsimp only; split
    · exact Rel.trans (b := { s with clients := _, used := _, order := _ }) ⟨rfl, fun _ h => h, fun h => h, fun h => h⟩ (pollSet_rel _ _ _)
    · exact Rel.refl s
  case mkListener i =>
    apply ofRel; unfold mkListener; dsimp only; split
    · exact Rel.trans (b := { s with listeners := _, used := _, order := _ }) ⟨rfl, fun _ h => h, fun h => h, fun h => h⟩ (pollSet_rel _ _ _)
    · exact Rel.refl s
  case mkEst i =>
    apply ofRel; unfold mkEst; dsimp only; split
    · exact Rel.trans (b := { s with ests := _, used := _, order := _ }) ⟨rfl, fun _ h => h, fun h => h, fun h => h⟩ (pollSet_rel _ _ _)
    · exact Rel.refl s
  case script i k acts => exact ⟨fun _ h => h, fun h => h, fun h => Or.inl h⟩
  case enter =>
    unfold enterRun
    split
    · exact ⟨fun _ h => h, fun h => h, fun h => Or.inl h⟩
    · exact ⟨fun _ h => h, fun h => h, fun h => Or.inl h⟩
  case intrBegin =>
    split
    · exact ⟨fun _ h => h, fun h => h, fun h => Or.inl h⟩
    · exact ⟨fun _ h => h, fun _ _ => by show 0 < s.eventfd + (s.pendingEfd + 1); omega, fun _ => Or.inl rfl⟩
  case intrEnd =>
    split
    · exact ⟨fun _ h => h, fun h => h, fun h => Or.inl h⟩
    · rename_i hp
      exact ⟨fun _ h => h, fun hi h => by have := hi h; show 0 < s.eventfd + 1 + (s.pendingEfd - 1); omega, fun h => Or.inl h⟩
  case step inp o =>
    obtain ⟨a, b, _, d, _⟩ := step_rel s inp o
    exact ⟨a, b, d⟩
  case clear =>
    split
    · rename_i hp
      refine ⟨fun i h => by simp [clearAll, h], fun _ h => by simp [clearAll] at h, fun _ => Or.inr ?_⟩
      simpa [clearAll] using hp
    · exact ⟨fun _ h => h, fun h => h, fun h => Or.inl h⟩
  case failCreate => exact ⟨fun _ h => h, fun h => h, fun h => Or.inl h⟩

theorem invI_reach (ms : List Move) : InvI (reach ms) := by
  have : ∀ (s : St), InvI s → InvI (runMoves s ms) := by
    induction ms with
    | nil => intro s h; exact h
    | cons m ms ih => intro s h; exact ih _ ((move_gone_invI s m).2.1 h)
  exact this init (by simp [InvI, init])

theorem gone_runMoves (s : St) (ms : List Move) (i : Id) (h : s.gone i = true) : (runMoves s ms).gone i = true := by
  induction ms generalizing s with
  | nil => exact h
  | cons m ms ih => exact ih _ ((move_gone_invI s m).1 i h)

/-! ### a timer record across a callback script -/

/-- the record of a used timer id is either kept or removed by an API call, never replaced -/
theorem applyAct_timer_stable (s : St) (nc : Option Id) (a : Act) (t : Id) (x : Option TimerS)
    (hu : s.used t = true) (hx : s.timers t = x ∨ s.timers t = none) :
    (applyAct s nc a).used t = true ∧ ((applyAct s nc a).timers t = x ∨ (applyAct s nc a).timers t = none) := by
  have ofSame : ∀ s', SameT s s' → s'.used t = true ∧ (s'.timers t = x ∨ s'.timers t = none) := by
    intro s' h; exact ⟨h.2.2 t hu, by rw [h.2.1]; exact hx⟩
  cases a <;> simp only [applyAct]
  case mkTimer i iv =>
    unfold mkTimer
    dsimp only
    split
    · rename_i hf
      have hne : t ≠ i := by
        intro e; subst e; unfold fresh at hf; simp [hu] at hf
      simp only [upd, hne, if_false]
      exact ⟨hu, hx⟩
    · exact ⟨hu, hx⟩
  case rmTimer i =>
    unfold rmTimer
    split
    · simp only [markGone, upd]
      by_cases hti : t = i
      · simp [hti]; rw [← hti]; exact hu
      · simp only [hti, if_false]; exact ⟨hu, hx⟩
    · exact ⟨hu, hx⟩
  case rmClient i => exact ofSame _ (rmClient_sameT s i)
  case rmListener i => exact ofSame _ (rmListener_sameT s i)
  case rmEst i => exact ofSame _ (rmEst_sameT s i)
  case rmNew => cases nc <;> simp only <;> first | exact ⟨hu, hx⟩ | exact ofSame _ (rmClient_sameT s _)
  case retNull => exact ⟨hu, hx⟩
  case interrupt => exact ofSame _ (interrupt_sameT s)
  case suspend i => exact ofSame _ (suspend_sameT s i)
  case resume i => exact ofSame _ (resume_sameT s i)
  case read i => exact ofSame _ (read_sameT s i)
  case write i n o => exact ofSame _ (write_sameT s i n o)
  case mkPair i => exact ofSame _ (mkPair_sameT s i)
  case mkListener i => exact ofSame _ (mkListener_sameT s i)
  case mkEst i => exact ofSame _ (mkEst_sameT s i)

theorem runActs_timer_stable (s : St) (nc : Option Id) (acts : List Act) (t : Id) (x : Option TimerS)
    (hu : s.used t = true) (hx : s.timers t = x ∨ s.timers t = none) :
    (runActs s nc acts).timers t = x ∨ (runActs s nc acts).timers t = none := by
  induction acts generalizing s with
  | nil => exact hx
  | cons a as ih =>
    obtain ⟨h1, h2⟩ := applyAct_timer_stable s nc a t x hu hx
    exact ih _ h1 h2

/-- activation of timer `t` (interval `iv`, due `due`): afterwards the timer is either removed or
    re-armed exactly one interval later -/
theorem activation_rearms (s : St) (inp : PollIn) (o : Outcome) (hT : InvT s) (t : Id) (now due : Int)
    (he : Ev.activated t now due ∈ (step s inp o).2) :
    ∃ ti, s.timers t = some ti ∧ ti.exec = due ∧
      ((step s inp o).1.timers t = some { exec := due + ti.interval, interval := ti.interval } ∨
       (step s inp o).1.timers t = none) := by
  obtain ⟨_, h2⟩ := step_evs s inp o _ he
  obtain ⟨hpc, hdue, hhead⟩ := h2 t now due rfl
  cases hq : s.queue with
  | nil => rw [hq] at hhead; simp at hhead
  | cons e rest =>
    rw [hq] at hhead
    simp only [List.head?_cons, Option.some.injEq] at hhead
    subst hhead
    cases ht : s.timers t with
    | none =>
      exfalso
      have := hT.dead t ht
      rw [hq] at this
      simp [entsOf, List.filter_cons] at this
    | some ti =>
      have hl := hT.live t ti ht
      rw [hq] at hl
      simp only [entsOf, List.filter_cons, beq_self_eq_true, if_true] at hl
      have hexec : ti.exec = due := by
        have := (List.cons.inj hl).1
        simp at this; exact this.symm
      refine ⟨ti, rfl, hexec, ?_⟩
      have hk : due - now ≤ 0 := by omega
      unfold step
      simp only [hpc, hq, hk, if_true, ht]
      unfold callback
      dsimp only
      rw [hexec]
      apply runActs_timer_stable
      · exact hT.usedT t ti ht
      · left; simp [upd]

/-! ### closing loop and failing I/O -/

theorem closing_step (s : St) (inp : PollIn) (o : Outcome) (hS : InvS s none) (now tmo : Int) (c : Id) (rest : List Id)
    (cl : ClientS) (hpc : s.pc = .closing now tmo) (hcl : s.closing = c :: rest) (hc : s.clients c = some cl)
    (hr : cl.removed = false) :
    (step s inp o).2 = [Ev.onClosed c] ∧ (step s inp o).1.pc = .closing now tmo := by
  have hcb : cl.hasCb = true := by
    rcases hS.hasCb c cl hc with h | h
    · exact h
    · simp at h
  unfold step
  simp only [hpc, hcl, hc, hcb, hr, Bool.not_false, Bool.and_self, if_true]
  constructor
  · first | rfl | trivial
  · exact (callback_rel _ c none).1

theorem closing_then_poll (s : St) (inp : PollIn) (o : Outcome) (now tmo : Int) (hpc : s.pc = .closing now tmo) :
    (∃ tmo', (step s inp o).1.pc = .poll now tmo') → s.closing = [] := by
  intro ⟨tmo', h⟩
  cases hcl : s.closing with
  | nil => rfl
  | cons c rest =>
    exfalso
    unfold step at h
    simp only [hpc, hcl] at h
    revert h
    split
    · split
      · intro h
        dsimp only at h
        have e := (callback_rel _ c none).1.symm.trans h
        simp at e
      · intro h
        dsimp only at h
        have e := (deleteClient_rel _ c).1.symm.trans h
        simp at e
    · intro h; simp at h

theorem read_failure_queues (s : St) (i : Id) (c : ClientS) (hc : s.clients i = some c) (h0 : c.inbox = 0)
    (hp : c.peerClosed = true) : i ∈ (read s i).closing := by
  unfold read addClosing
  simp only [hc, h0, hp, if_true]
  simp only [bne_self_eq_false, Bool.false_eq_true, if_false]
  split <;> simp_all

theorem write_failure_queues (s : St) (i : Id) (c : ClientS) (n : Nat) (o : Outcome) (hc : s.clients i = some c)
    (h0 : c.backlog = 0) (he : sendOn c n o = .error ∨ sendOn c n o = .sent 0) : i ∈ (write s i n o).closing := by
  unfold write addClosing
  rcases he with he | he <;> simp only [hc, h0, he, if_true] <;> split <;> simp_all

theorem writeReady_failure (s : St) (i : Id) (c : ClientS) (o : Outcome) (hc : s.clients i = some c)
    (hcb : c.hasCb = true) (hb : c.backlog ≠ 0) (he : sendOn c c.backlog o = .error) :
    (writeReady s i o).2 = [Ev.onClosed i] := by
  unfold writeReady
  simp [hc, hcb, hb, he]

end Nstd.Server.C14
