import Nstd.Server.TermC14
/-
  C14 — progress of run() for ARBITRARY callback scripts (timer creation, read, write, … inside callbacks)
  and the liveness theorem `ready_eventually_dispatched`.

  The lexicographic measure of TermC14 (pending batch length, phase, lateness of the timer queue / length of the
  closing list) also drops when callbacks create timers (a timer created while the timer loop runs is due after
  `now`, it adds no lateness) and when they read / write outside the closing loop.  The one thing that can keep
  run() away from the kernel forever is an onClosed callback that makes a client fail again (a read on a closed
  client inside onClosed re-queues it; the C++ loops in the same way): hypothesis `ClosingCalm`.
-/
namespace Nstd.Server.C14
open Nstd.Server.C13 (Outcome SendRes sendOS)
open Nstd.Server.Refine (pollSet_closing)

/-! ### API calls never touch the clock -/

theorem pollSet_clock (s : St) (i : Id) (ev : Flags) : (pollSet s i ev).clock = s.clock := by
  unfold pollSet
  dsimp only
  repeat' split
  all_goals rfl

theorem pollRemove_clock (s : St) (i : Id) : (pollRemove s i).clock = s.clock := by
  unfold pollRemove
  repeat' split
  all_goals rfl

theorem deleteClient_clock (s : St) (i : Id) : (deleteClient s i).clock = s.clock := by
  unfold deleteClient
  dsimp only
  simp only [markGone]
  rw [pollRemove_clock]

theorem applyAct_clock (s : St) (nc : Option Id) (a : Act) : (applyAct s nc a).clock = s.clock := by
  have hrc : ∀ i, (rmClient s i).clock = s.clock := by
    intro i; unfold rmClient
    repeat' split
    all_goals first | rfl | exact deleteClient_clock s i
  cases a <;> simp only [applyAct]
  case mkTimer i iv => unfold mkTimer; dsimp only; split <;> rfl
  case rmTimer i => unfold rmTimer markGone; split <;> rfl
  case rmClient i => exact hrc i
  case rmListener i => unfold rmListener markGone; split <;> first | rfl | (dsimp only; rw [pollRemove_clock])
  case rmEst i => unfold rmEst markGone; split <;> first | rfl | (dsimp only; rw [pollRemove_clock])
  case rmNew => cases nc <;> simp only <;> first | rfl | exact hrc _
  case interrupt => unfold interrupt; split <;> rfl
  case suspend i =>
    unfold suspend
    repeat' split
    all_goals first | rfl | rw [pollSet_clock]
  case resume i =>
    unfold resume
    repeat' split
    all_goals first | rfl | rw [pollSet_clock]
  case read i =>
    unfold read addClosing
    repeat' split
    all_goals rfl
  case write i n o =>
    unfold write addClosing
    repeat' split
    all_goals first | rfl | rw [pollSet_clock]
  case mkPair i => unfold mkPair; dsimp only; split <;> first | rfl | rw [pollSet_clock]
  case mkListener i => unfold mkListener; dsimp only; split <;> first | rfl | rw [pollSet_clock]
  case mkEst i => unfold mkEst; dsimp only; split <;> first | rfl | rw [pollSet_clock]

theorem runActs_clock (s : St) (nc : Option Id) (acts : List Act) : (runActs s nc acts).clock = s.clock := by
  induction acts generalizing s with
  | nil => rfl
  | cons a as ih => simp only [runActs]; rw [ih, applyAct_clock]

theorem callback_clock (s : St) (i : Id) (nc : Option Id) : (callback s i nc).1.clock = s.clock := by
  unfold callback
  dsimp only
  rw [runActs_clock]

/-! ### no API call makes the timer queue later, as long as the clock is not behind the sampled `now` -/

theorem mu_applyAct (s : St) (nc : Option Id) (a : Act) (now : Int) (h : now ≤ s.clock) :
    mu now (applyAct s nc a).queue ≤ mu now s.queue := by
  cases a <;> simp only [applyAct]
  case mkTimer i iv =>
    unfold mkTimer
    dsimp only
    split
    · show mu now (qInsert s.queue _ _) ≤ _
      rw [mu_qInsert]
      have : late now (s.clock + if iv < 1 then 1 else iv) = 0 := by
        unfold late
        split <;> omega
      omega
    · exact Nat.le_refl _
  case rmTimer i =>
    unfold rmTimer
    split
    · exact mu_qErase _ _ _ _
    · exact Nat.le_refl _
  case rmClient i => rw [(rmClient_sameT s i).1]; exact Nat.le_refl _
  case rmListener i => rw [(rmListener_sameT s i).1]; exact Nat.le_refl _
  case rmEst i => rw [(rmEst_sameT s i).1]; exact Nat.le_refl _
  case rmNew =>
    cases nc <;> simp only
    · exact Nat.le_refl _
    · rw [(rmClient_sameT s _).1]; exact Nat.le_refl _
  case retNull => exact Nat.le_refl _
  case interrupt => rw [(interrupt_sameT s).1]; exact Nat.le_refl _
  case suspend i => rw [(suspend_sameT s i).1]; exact Nat.le_refl _
  case resume i => rw [(resume_sameT s i).1]; exact Nat.le_refl _
  case read i => rw [(read_sameT s i).1]; exact Nat.le_refl _
  case write i n o => rw [(write_sameT s i n o).1]; exact Nat.le_refl _
  case mkPair i => rw [(mkPair_sameT s i).1]; exact Nat.le_refl _
  case mkListener i => rw [(mkListener_sameT s i).1]; exact Nat.le_refl _
  case mkEst i => rw [(mkEst_sameT s i).1]; exact Nat.le_refl _

theorem mu_runActs (s : St) (nc : Option Id) (acts : List Act) (now : Int) (h : now ≤ s.clock) :
    mu now (runActs s nc acts).queue ≤ mu now s.queue := by
  induction acts generalizing s with
  | nil => exact Nat.le_refl _
  | cons a as ih =>
    simp only [runActs]
    exact Nat.le_trans (ih _ (by rw [applyAct_clock]; exact h)) (mu_applyAct s nc a now h)

/-- ANY callback (timer creation included) leaves the lateness of the timer queue where it was or lower -/
theorem mu_callback (s : St) (i : Id) (nc : Option Id) (now : Int) (h : now ≤ s.clock) :
    mu now (callback s i nc).1.queue ≤ mu now s.queue := by
  unfold callback
  dsimp only
  exact mu_runActs { s with calls := upd s.calls i (s.calls i + 1) } nc _ now h

/-! ### the hypotheses of the progress theorem -/

/-- the clock is not behind the time the running timer loop sampled (true when run() is entered and after every
    poll step: `pc := .timers clock`; API calls and callbacks never touch the clock) -/
def ClockOk (s : St) : Prop := ∀ now, s.pc = .timers now → now ≤ s.clock

/-- the onClosed callback that the closing loop is about to make does not make a client fail again (it leaves the
    closing list no longer than it found it).  Without this run() never gets back to the kernel — in the C++ as
    well: `onClosed` that reads the closed client re-queues it in `_closingClients` forever. -/
def ClosingCalm (s : St) : Prop :=
  ∀ now tmo c rest, s.pc = .closing now tmo → s.closing = c :: rest →
    (callback { s with closing := rest } c none).1.closing.length ≤ rest.length

/-- API calls other than read / write -/
def NoIOAct : Act → Prop
  | .read _ => False
  | .write _ _ _ => False
  | _ => True

theorem closing_applyAct_noIO (s : St) (a : Act) (hq : NoIOAct a) (hS : InvS s none) :
    (applyAct s none a).closing.length ≤ s.closing.length := by
  cases a
  case mkTimer i iv =>
    simp only [applyAct]; unfold mkTimer; dsimp only; split <;> exact Nat.le_refl _
  case read i => exact absurd hq (by simp [NoIOAct])
  case write i n o => exact absurd hq (by simp [NoIOAct])
  all_goals exact (quiet_applyAct s _ (by simp [QuietAct]) hS 0).1

theorem closing_runActs_noIO (s : St) (acts : List Act) (hq : ∀ a, a ∈ acts → NoIOAct a) (hS : InvS s none) :
    (runActs s none acts).closing.length ≤ s.closing.length := by
  induction acts generalizing s with
  | nil => exact Nat.le_refl _
  | cons a as ih =>
    have h1 := closing_applyAct_noIO s a (hq a (List.mem_cons_self ..)) hS
    have h3 := ih (applyAct s none a) (fun b hb => hq b (List.mem_cons_of_mem _ hb)) (invS_applyAct s none a hS)
    exact Nat.le_trans h3 h1

/-- sufficient for `ClosingCalm`: no script in effect reads or writes (timers, removals, suspend / resume, creation
    of objects and interrupt are all allowed) -/
theorem closingCalm_of_noIO (s : St) (hS : InvS s none) (h : ∀ i k a, a ∈ s.scripts i k → NoIOAct a) :
    ClosingCalm s := by
  intro now tmo c rest _ hcl
  unfold callback
  dsimp only
  refine closing_runActs_noIO { s with closing := rest, calls := upd s.calls c (s.calls c + 1) } _
    (fun a ha => h c _ a ha) ?_
  refine ⟨hS.selSub, hS.kind, hS.hasCb, ?_, hS.ncLive, hS.noFault, hS.ncBig⟩
  intro j hj; exact hS.closing j (by rw [hcl]; exact List.mem_cons_of_mem _ hj)

/-! ### one step: the measure drops, whatever the scripts do -/

theorem step_clock_outside_poll (s : St) (inp : PollIn) (o : Outcome) (h : ∀ now tmo, s.pc ≠ .poll now tmo) :
    (step s inp o).1.clock = s.clock := by
  unfold step
  split
  · rfl
  · repeat' split
    all_goals first | rfl | rw [callback_clock]
  · dsimp only
    repeat' split
    all_goals first | rfl | rw [callback_clock] | rw [deleteClient_clock]
  · rename_i now tmo hpc; exact absurd hpc (h now tmo)

theorem step_pc_timers (s : St) (inp : PollIn) (o : Outcome) (now : Int) (hp : s.pc = .timers now) :
    (step s inp o).1.pc = .timers now ∨ ∃ tmo, (step s inp o).1.pc = .closing now tmo := by
  unfold step
  simp only [hp]
  repeat' split
  all_goals first
    | (left; rfl)
    | (left; rw [(callback_rel _ _ _).1]; done)
    | (right; exact ⟨_, rfl⟩)

theorem step_pc_closing (s : St) (inp : PollIn) (o : Outcome) (now tmo : Int) (hp : s.pc = .closing now tmo) :
    (step s inp o).1.pc = .closing now tmo ∨ ∃ t', (step s inp o).1.pc = .poll now t' := by
  unfold step
  simp only [hp]
  repeat' split
  all_goals first
    | (left; rfl)
    | (left; rw [(callback_rel _ _ _).1]; done)
    | (left; rw [(deleteClient_rel _ _).1]; done)
    | (right; exact ⟨_, rfl⟩)

theorem step_clockOk (s : St) (inp : PollIn) (o : Outcome) (h : ClockOk s) : ClockOk (step s inp o).1 := by
  intro now' hpc'
  cases hp : s.pc with
  | idle =>
    have : (step s inp o).1 = s := by unfold step; simp [hp]
    rw [this] at hpc'; rw [hp] at hpc'; cases hpc'
  | timers now =>
    have hn := h now hp
    rw [step_clock_outside_poll s inp o (by intro a b hh; rw [hp] at hh; cases hh)]
    rcases step_pc_timers s inp o now hp with h1 | ⟨t, h1⟩
    · rw [h1] at hpc'; injection hpc' with e; subst e; exact hn
    · rw [h1] at hpc'; cases hpc'
  | closing now tmo =>
    rcases step_pc_closing s inp o now tmo hp with h1 | ⟨t, h1⟩
    · rw [h1] at hpc'; cases hpc'
    · rw [h1] at hpc'; cases hpc'
  | poll now tmo =>
    revert hpc'
    unfold step
    simp only [hp]
    split
    · intro hpc'; rename_i hid; rw [hid] at hpc'; cases hpc'
    · intro hpc'
      simp only at hpc'
      injection hpc' with e
      subst e
      exact Int.le_refl _

/-- `step_progress_core` without the restriction to quiet scripts -/
theorem step_progress_gen (s : St) (inp : PollIn) (o : Outcome) (hinv : Inv s) (hck : ClockOk s) (hcalm : ClosingCalm s)
    (hpc : s.pc ≠ .idle) :
    (∃ now tmo, s.pc = .poll now tmo ∧ s.selected = []) ∨ (step s inp o).1.pc = .idle ∨
      lt3 (meas (step s inp o).1) (meas s) := by
  obtain ⟨hT, hU, hS⟩ := hinv
  cases hp : s.pc with
  | idle => exact absurd hp hpc
  | timers now =>
    right; right
    have hnow := hck now hp
    obtain ⟨k0, hk0⟩ := hT.dflt
    cases hqq : s.queue with
    | nil => rw [hqq] at hk0; simp at hk0
    | cons e rest =>
      obtain ⟨k, v⟩ := e
      have hm : meas s = (s.selected.length, 2, late now k + mu now rest) := by simp [meas, hp, hqq, mu]
      by_cases hk : k - now ≤ 0
      · cases v with
        | none =>
          have hst : (step s inp o).1 = { s with queue := qInsert rest (now + 300000) none } := by
            unfold step; simp [hp, hqq, hk]
          have h0 : late now (now + 300000) = 0 := by unfold late; omega
          have hl := late_pos now k hk
          have hm' : meas (step s inp o).1 = (s.selected.length, 2, mu now rest + 0) := by
            rw [hst]; simp [meas, hp, mu_qInsert, h0]
          rw [hm', hm]; exact lt3_le (Nat.le_refl _) (by omega)
        | some t =>
          cases ht : s.timers t with
          | none =>
            exfalso
            have := hT.dead t ht
            rw [hqq] at this
            simp [entsOf, List.filter_cons] at this
          | some ti =>
            have hl := hT.live t ti ht
            rw [hqq] at hl
            simp only [entsOf, List.filter_cons, beq_self_eq_true, if_true] at hl
            have hexec : ti.exec = k := by
              have := (List.cons.inj hl).1
              simp at this; exact this.symm
            have hpos := hT.pos t ti ht
            obtain ⟨s1, hs1⟩ : ∃ s1 : St, s1 = { s with queue := qInsert rest (ti.exec + ti.interval) (some t), timers := upd s.timers t (some { ti with exec := ti.exec + ti.interval }) } := ⟨_, rfl⟩
            have hst : (step s inp o).1 = (callback s1 t none).1 := by
              unfold step; simp [hp, hqq, hk, ht, hs1]
            have hpc1 : (callback s1 t none).1.pc = .timers now := by
              rw [(callback_rel s1 t none).1]; subst hs1; exact hp
            have hsh := (callback_shrinks s1 t none).1
            have hck1 : now ≤ s1.clock := by subst hs1; exact hnow
            have hmu := mu_callback s1 t none now hck1
            have hsel1 : s1.selected = s.selected := by subst hs1; rfl
            have hq1q : mu now s1.queue = mu now rest + late now (ti.exec + ti.interval) := by
              subst hs1; exact mu_qInsert _ _ _ _
            have hlt := late_lt now k (ti.exec + ti.interval) hk (by omega)
            have hm' : meas (step s inp o).1 = ((callback s1 t none).1.selected.length, 2, mu now (callback s1 t none).1.queue) := by
              rw [hst]; simp [meas, hpc1]
            rw [hm', hm]
            rw [hsel1] at hsh
            exact lt3_le hsh (by omega)
      · have hst : (step s inp o).1 = { s with pc := .closing now (k - now) } := by
          unfold step; simp [hp, hqq, hk]
        have hm' : meas (step s inp o).1 = (s.selected.length, 1, s.closing.length) := by
          rw [hst]; simp [meas]
        rw [hm', hm]; exact lt3_mid (by omega)
  | closing now tmo =>
    right; right
    cases hcl : s.closing with
    | nil =>
      obtain ⟨k0, hk0⟩ := hT.dflt
      cases hqq : s.queue with
      | nil => rw [hqq] at hk0; simp at hk0
      | cons e rest =>
        obtain ⟨k, v⟩ := e
        have hst : (step s inp o).1 = { s with pc := .poll now (if k - now < 0 then 0 else k - now) } := by
          unfold step; simp [hp, hcl, hqq]
        have hm : meas s = (s.selected.length, 1, 0) := by simp [meas, hp, hcl]
        have hm' : meas (step s inp o).1 = (s.selected.length, 0, 0) := by
          rw [hst]; simp [meas]
        rw [hm', hm]; exact lt3_mid (by omega)
    | cons c rest =>
      have hc := hS.closing c (by rw [hcl]; exact List.mem_cons_self ..)
      cases hcc : s.clients c with
      | none => exact absurd hcc hc
      | some cl =>
        have hm : meas s = (s.selected.length, 1, rest.length + 1) := by simp [meas, hp, hcl]
        obtain ⟨s1, hs1⟩ : ∃ s1 : St, s1 = { s with closing := rest } := ⟨_, rfl⟩
        have hsel1 : s1.selected = s.selected := by subst hs1; rfl
        have hcl1 : s1.closing = rest := by subst hs1; rfl
        have hpc1 : s1.pc = .closing now tmo := by subst hs1; exact hp
        by_cases hcb : (cl.hasCb && !cl.removed) = true
        · have hst : (step s inp o).1 = (callback s1 c none).1 := by
            unfold step; simp [hp, hcl, hcc, hcb, hs1]
          have hpc2 : (callback s1 c none).1.pc = .closing now tmo := by rw [(callback_rel s1 c none).1]; exact hpc1
          have hsh := (callback_shrinks s1 c none).1
          have hcl2 : (callback s1 c none).1.closing.length ≤ rest.length := by
            subst hs1; exact hcalm now tmo c rest hp hcl
          have hm' : meas (step s inp o).1 = ((callback s1 c none).1.selected.length, 1, (callback s1 c none).1.closing.length) := by
            rw [hst]; simp [meas, hpc2]
          rw [hm', hm]
          rw [hsel1] at hsh
          exact lt3_le hsh (by omega)
        · have hst : (step s inp o).1 = deleteClient s1 c := by
            unfold step; simp [hp, hcl, hcc, hcb, hs1]
          have hpc2 : (deleteClient s1 c).pc = .closing now tmo := by rw [(deleteClient_rel s1 c).1]; exact hpc1
          have hsh := (deleteClient_shrinks s1 c).1
          have hcl2 : (deleteClient s1 c).closing.length ≤ rest.length := by
            unfold deleteClient
            dsimp only
            simp only [markGone]
            rw [(pollRemove_closing _ c).1, hcl1]
            exact List.length_filter_le _ _
          have hm' : meas (step s inp o).1 = ((deleteClient s1 c).selected.length, 1, (deleteClient s1 c).closing.length) := by
            rw [hst]; simp [meas, hpc2]
          rw [hm', hm]
          rw [hsel1] at hsh
          exact lt3_le hsh (by omega)
  | poll now tmo =>
    cases hsel : s.selected with
    | nil => exact Or.inl ⟨now, tmo, rfl, rfl⟩
    | cons e r =>
      right
      by_cases hid : (step s inp o).1.pc = .idle
      · exact Or.inl hid
      · right
        have hd := (poll_step_drains s inp o now tmo e r hp hsel).1
        have hm : (meas s).1 = r.length + 1 := by simp [meas, hp, hsel]
        have hm' : (meas (step s inp o).1).1 = (step s inp o).1.selected.length := by
          unfold meas
          cases hx : (step s inp o).1.pc <;> simp
          exact absurd hx hid
        left
        rw [hm, hm']; omega

/-! ### runs -/

theorem runN_succ (s : St) (f : Nat → PollIn × Outcome) (n : Nat) :
    runN s f (n + 1) = (step (runN s f n) (f n).1 (f n).2).1 := by
  induction n generalizing s f with
  | zero => rfl
  | succ n ih =>
    have := ih (step s (f 0).1 (f 0).2).1 (fun k => f (k + 1))
    simp only [runN] at this ⊢
    exact this

theorem runN_add (s : St) (f : Nat → PollIn × Outcome) (a b : Nat) :
    runN s f (a + b) = runN (runN s f a) (fun k => f (a + k)) b := by
  induction a generalizing s f with
  | zero => simp [runN]
  | succ a ih =>
    have : a + 1 + b = (a + b) + 1 := by omega
    rw [this]
    simp only [runN]
    rw [ih]
    congr 1
    funext k
    congr 1
    omega

theorem runN_inv (s : St) (f : Nat → PollIn × Outcome) (n : Nat) (h : Inv s) : Inv (runN s f n) := by
  induction n generalizing s f with
  | zero => exact h
  | succ n ih => exact ih _ _ (inv_move s (.step (f 0).1 (f 0).2) h)

theorem runN_clockOk (s : St) (f : Nat → PollIn × Outcome) (n : Nat) (h : ClockOk s) : ClockOk (runN s f n) := by
  induction n generalizing s f with
  | zero => exact h
  | succ n ih => exact ih _ _ (step_clockOk s _ _ h)

/-- run() is about to ask the kernel: it stands at the poll with an empty pending batch -/
def Query (s : St) : Prop := ∃ now tmo, s.pc = .poll now tmo ∧ s.selected = []

/-- for ARBITRARY scripts: after finitely many steps run() asks the kernel again or has returned -/
theorem kernel_asked_again_gen (m : Nat × Nat × Nat) : ∀ (s : St) (f : Nat → PollIn × Outcome), meas s = m → Inv s →
    ClockOk s → (∀ n, ClosingCalm (runN s f n)) →
    ∃ n, (runN s f n).pc = .idle ∨ Query (runN s f n) := by
  induction m using lt3_wf.induction with
  | _ m ih =>
    intro s f hm hinv hck hg
    by_cases hpc : s.pc = .idle
    · exact ⟨0, Or.inl hpc⟩
    · have hq := hg 0
      simp only [runN] at hq
      rcases step_progress_gen s (f 0).1 (f 0).2 hinv hck hq hpc with h | h | h
      · exact ⟨0, Or.inr h⟩
      · exact ⟨1, Or.inl h⟩
      · obtain ⟨n, hn⟩ := ih _ (hm ▸ h) (step s (f 0).1 (f 0).2).1 (fun k => f (k + 1)) rfl
          (inv_move s (.step (f 0).1 (f 0).2) hinv) (step_clockOk s _ _ hck) (fun n => hg (n + 1))
        exact ⟨n + 1, hn⟩

/-- … hence infinitely often, unless it returns -/
theorem kernel_asked_infinitely_often (s : St) (f : Nat → PollIn × Outcome) (hinv : Inv s) (hck : ClockOk s)
    (hg : ∀ n, ClosingCalm (runN s f n)) (k : Nat) :
    ∃ m, k ≤ m ∧ ((runN s f m).pc = .idle ∨ Query (runN s f m)) := by
  obtain ⟨n, hn⟩ := kernel_asked_again_gen _ (runN s f k) (fun j => f (k + j)) rfl (runN_inv s f k hinv)
    (runN_clockOk s f k hck) (fun n => by rw [← runN_add]; exact hg _)
  rw [← runN_add] at hn
  exact ⟨k + n, by omega, hn⟩

/-! ### the fate of one readiness event -/

/-- the poll step made in state `s` with the kernel answer `inp` hands the event `(i, fl)` to the dispatch switch of run() -/
def HandsOut (s : St) (inp : PollIn) (i : Id) (fl : Flags) : Prop :=
  (∃ now tmo, s.pc = .poll now tmo) ∧ (pollStep s inp).2 = some (i, fl)

/-- the event `(i, fl)` is in the batch this step works on: pending from an earlier answer, or reported by the
    answer `inp` to the query this step makes -/
def InBatch (s : St) (inp : PollIn) (i : Id) (fl : Flags) : Prop :=
  lookup s.selected i = some fl ∨ (Query s ∧ lookup (appendSelected s inp.events []) i = some fl)

/-- the event `(i, fl)` was in the batch of this step, was not the one handed out, and is not pending (unchanged) after it:
    `Poll::set` / `Poll::remove` on socket `i` pruned it (`step_keeps_untouched_event`: nothing else does) -/
def PrunedAt (s : St) (inp : PollIn) (o : Outcome) (i : Id) (fl : Flags) : Prop :=
  InBatch s inp i fl ∧ ¬ HandsOut s inp i fl ∧ lookup (step s inp o).1.selected i ≠ some fl

/-- an event pending in the batch is handed out after finitely many steps — unless run() returns (interrupt) or
    set()/remove() on its socket prunes it first.  ANY scripts (subject to `ClosingCalm`), any kernel answers. -/
theorem pending_event_fate (m : Nat × Nat × Nat) : ∀ (s : St) (f : Nat → PollIn × Outcome) (i : Id) (fl : Flags),
    meas s = m → Inv s → ClockOk s → (∀ n, ClosingCalm (runN s f n)) → lookup s.selected i = some fl →
    ∃ n, (runN s f n).pc = .idle ∨ HandsOut (runN s f n) (f n).1 i fl ∨ PrunedAt (runN s f n) (f n).1 (f n).2 i fl := by
  induction m using lt3_wf.induction with
  | _ m ih =>
    intro s f i fl hm hinv hck hg hpend
    by_cases hpc : s.pc = .idle
    · exact ⟨0, Or.inl hpc⟩
    by_cases hH : HandsOut s (f 0).1 i fl
    · exact ⟨0, Or.inr (Or.inl hH)⟩
    by_cases hP : lookup (step s (f 0).1 (f 0).2).1.selected i = some fl
    · have hq := hg 0
      simp only [runN] at hq
      rcases step_progress_gen s (f 0).1 (f 0).2 hinv hck hq hpc with ⟨_, _, _, h⟩ | h | h
      · rw [h] at hpend; simp [lookup] at hpend
      · exact ⟨1, Or.inl h⟩
      · obtain ⟨n, hn⟩ := ih _ (hm ▸ h) (step s (f 0).1 (f 0).2).1 (fun k => f (k + 1)) i fl rfl
          (inv_move s (.step (f 0).1 (f 0).2) hinv) (step_clockOk s _ _ hck) (fun n => hg (n + 1)) hP
        exact ⟨n + 1, hn⟩
    · exact ⟨0, Or.inr (Or.inr ⟨Or.inl hpend, hH, hP⟩)⟩

/-! ### liveness under kernel fairness -/

/-- the kernel's answer `inp` to the query made in state `s` reports socket `i` ready: the batch built from it holds a
    non-empty event for `i` (so `i` is registered and the native event matches a kind it is registered for) -/
def ReportsAt (s : St) (inp : PollIn) (i : Id) (fl : Flags) : Prop :=
  lookup (appendSelected s inp.events []) i = some fl ∧ fl.isZero = false

/-- kernel fairness for socket `i` along the run: IF run() asks the kernel again and again, then again and again an
    answer reports `i` ready.  (An assumption about the environment: a level-triggered epoll reports a registered
    descriptor that stays ready in some later epoll_wait — at once unless more than `maxevents` descriptors are ready.) -/
def KernelFair (s : St) (f : Nat → PollIn × Outcome) (i : Id) : Prop :=
  (∀ k, ∃ m, k ≤ m ∧ Query (runN s f m)) →
  ∀ k, ∃ m, k ≤ m ∧ Query (runN s f m) ∧ ∃ fl, ReportsAt (runN s f m) (f m).1 i fl

/-- ready_eventually_dispatched: along every infinite run of run() from a state `s` (invariant, clock not behind) under a
    fair kernel, for ARBITRARY callback scripts that do not keep the closing loop busy forever: after every point of the
    run there is a later step at which run() has returned (interrupt), or hands a non-empty event of socket `i` to its
    dispatch switch, or an event of `i` reported by the kernel is pruned by set()/remove() on `i`. -/
theorem ready_eventually_dispatched_run (s : St) (f : Nat → PollIn × Outcome) (i : Id) (hinv : Inv s) (hck : ClockOk s)
    (hg : ∀ n, ClosingCalm (runN s f n)) (hfair : KernelFair s f i) (k : Nat) :
    ∃ m, k ≤ m ∧ ((runN s f m).pc = .idle ∨
      ∃ fl, fl.isZero = false ∧
        (HandsOut (runN s f m) (f m).1 i fl ∨ PrunedAt (runN s f m) (f m).1 (f m).2 i fl)) := by
  by_cases hid : ∃ m, k ≤ m ∧ (runN s f m).pc = .idle
  · obtain ⟨m, hm, h⟩ := hid
    exact ⟨m, hm, Or.inl h⟩
  · have hq : ∀ j, ∃ m, j ≤ m ∧ Query (runN s f m) := by
      intro j
      obtain ⟨m, hm, h⟩ := kernel_asked_infinitely_often s f hinv hck hg (j + k)
      rcases h with h | h
      · exact absurd ⟨m, by omega, h⟩ hid
      · exact ⟨m, by omega, h⟩
    obtain ⟨m, hm, hQ, fl, hrep, hnz⟩ := hfair hq k
    by_cases hH : HandsOut (runN s f m) (f m).1 i fl
    · exact ⟨m, hm, Or.inr ⟨fl, hnz, Or.inl hH⟩⟩
    by_cases hP : lookup (runN s f (m + 1)).selected i = some fl
    · obtain ⟨n, hn⟩ := pending_event_fate _ (runN s f (m + 1)) (fun j => f (m + 1 + j)) i fl rfl
        (runN_inv s f _ hinv) (runN_clockOk s f _ hck) (fun n => by rw [← runN_add]; exact hg _) hP
      rw [← runN_add] at hn
      refine ⟨m + 1 + n, by omega, ?_⟩
      rcases hn with h | h | h
      · exact Or.inl h
      · exact Or.inr ⟨fl, hnz, Or.inl h⟩
      · exact Or.inr ⟨fl, hnz, Or.inr h⟩
    · refine ⟨m, hm, Or.inr ⟨fl, hnz, Or.inr ⟨Or.inr ⟨hQ, hrep⟩, hH, ?_⟩⟩⟩
      rw [runN_succ] at hP
      exact hP

end Nstd.Server.C14
