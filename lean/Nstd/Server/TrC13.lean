import Nstd.Generated.ServerTr
import Nstd.Server.ModelC13
/-
  Meaning of the primitives of the translated client code over the BYTE-level one-client model of C13: the send buffer is
  the list of bytes, `_sendBuffer.append(data + off, len)` appends `len` bytes of the written data from offset `off`,
  `send` hands a prefix of the data / of the buffer to the wire, the user's onClosed removes the client (as the harness does).
-/
namespace Nstd.Server.Tr
open Nstd.Server.C13
open Nstd.Server.C14 (Flags)

structure M13 where
  st : St
  cbs : List Cb := []
  sends : List (Nat × SendRes) := []
  err : Int := 0
  rdata : List Nat := []

def P13 (data : List Nat) (o : Outcome) (e : Int) : ClientPrims M13 where
  bufIsEmpty m := m.st.backlog.isEmpty
  bufSize m := m.st.backlog.length
  bufAppend m off len := { m with st := { m.st with backlog := m.st.backlog ++ (data.drop off.toNat).take len.toNat } }
  bufRemoveFront m k := { m with st := { m.st with backlog := m.st.backlog.drop k.toNat } }
  bufFree m := { m with st := { m.st with backlog := [] } }
  suspended m := m.st.suspended
  setSuspended m b := { m with st := { m.st with suspended := b } }
  lastError m := m.err
  send m fromBuf n :=
    let src := if fromBuf then m.st.backlog else data
    let r := sendOS n.toNat o
    let m1 := { m with sends := m.sends ++ [(n.toNat, r)] }
    match r with
    | .wouldblock => ({ m1 with err := 0 }, -1)
    | .error => ({ m1 with err := e }, -1)
    | .sent k => ({ m1 with st := hand m.st src k }, k)
  recv m mx :=
    if m.st.inbox.isEmpty then ({ m with err := 0 }, -1)
    else ({ m with st := { m.st with inbox := m.st.inbox.drop mx.toNat }, rdata := m.st.inbox.take mx.toNat },
          ((m.st.inbox.take mx.toNat).length : Int))
  pollSet m f := { m with st := setInterest m.st f.r f.w }
  pollRemove m := { m with st := { m.st with interest := none } }
  closingAppend m := { m with st := { m.st with closing := true } }
  onRead m := { m with cbs := m.cbs ++ [.onRead] }
  onWrite m := { m with cbs := m.cbs ++ [.onWrite] }
  onClosed m := { m with st := closeAndRemove m.st, cbs := m.cbs ++ [.onClosed] }

/-- the result of `write` as the model reports it -/
def wroteOf (ret : Bool) (pp : Option Int) : Res := .wrote ret (pp.getD 0).toNat

end Nstd.Server.Tr
