import Nstd.Server.LemmasC13
import Nstd.Server.TraceC13
import Nstd.Server.ReentC13
/-
  C13 — property theorems.  `reach ops` is the state of the model after ANY history `ops`
  (writes of any data with any send outcome, poll rounds reporting any subset of the ready
  events with any send outcome, reads, peer sends/reads, suspend/resume — in any order).
-/
namespace Nstd.Server.C13

/-- the state after an arbitrary history -/
def reach (ops : List Op) : St := runOps init ops

/-- the ghost field `accepted` is what the property calls "the concatenation, in call order, of the
    data passed to Client::write calls that returned true" — computed here from the op list and
    the results the model returned -/
theorem accepted_is_data_of_true_writes (ops : List Op) :
    (reach ops).accepted = writesTrue init ops := by
  simpa [reach, init] using runOps_accepted init ops inv_init

/-- the ghost field `received` is the concatenation of everything the peer's reads returned -/
theorem received_is_data_of_peer_reads (ops : List Op) :
    (reach ops).received = peerGot init ops := by
  simpa [reach, init] using runOps_received init ops inv_init

/-- the number of bytes handed to the OS is the sum of the counts returned by the intercepted sends -/
theorem handed_is_sum_of_sends (ops : List Op) :
    (reach ops).handed.length = sentCount init ops := by
  simpa [reach, init] using runOps_handed init ops inv_init

/-- stream_exact: bytes handed to the OS ++ backlog = concatenation of the data of all writes that
    returned true, in call order (for a client that has not been closed and removed) -/
theorem stream_exact (ops : List Op) (h : (reach ops).dead = false) :
    (reach ops).handed ++ (reach ops).backlog = writesTrue init ops := by
  rw [← accepted_is_data_of_true_writes]
  exact (runOps_inv init ops inv_init).stream h

/-- what the peer has received so far, followed by what is in flight and by the backlog, is exactly
    the accepted data: nothing lost, duplicated or reordered -/
theorem peer_stream_exact (ops : List Op) (h : (reach ops).dead = false) :
    peerGot init ops ++ (reach ops).wire ++ (reach ops).backlog = writesTrue init ops := by
  have hi := runOps_inv init ops inv_init
  rw [← received_is_data_of_peer_reads, ← accepted_is_data_of_true_writes]
  show ((runOps init ops).received ++ (runOps init ops).wire) ++ (runOps init ops).backlog = _
  rw [hi.wire]
  exact hi.stream h

/-- also after the client was closed (its backlog is discarded with it): the peer never sees
    anything but a prefix of the accepted data -/
theorem peer_stream_prefix (ops : List Op) :
    ∃ rest, peerGot init ops ++ rest = writesTrue init ops := by
  have hi := runOps_inv init ops inv_init
  obtain ⟨rest, hr⟩ := hi.pre
  refine ⟨(reach ops).wire ++ rest, ?_⟩
  rw [← received_is_data_of_peer_reads, ← accepted_is_data_of_true_writes, ← List.append_assoc]
  show ((runOps init ops).received ++ (runOps init ops).wire) ++ rest = _
  rw [hi.wire]; exact hr

/-- postponed_is_backlog: a write that returns true reports the size of the backlog after it, which
    is the number of accepted bytes not yet handed to the OS; a write that returns false reports 0 -/
theorem postponed_is_backlog (ops : List Op) (d : List Nat) (o : Outcome) (s' : St) (out : Out)
    (hst : step (reach ops) (.write d o) = some (s', out)) (ret : Bool) (p : Nat) (hres : out.res = .wrote ret p) :
    (ret = true → p = s'.backlog.length ∧ p + s'.handed.length = s'.accepted.length) ∧
    (ret = false → p = 0) := by
  have hi := runOps_inv init ops inv_init
  exact write_postponed (reach ops) d o s' out hi hst ret p hres

/-- the send-buffer size observable (`getSendBufferSize`) of a live client -/
theorem sendBufferSize_is_unsent (ops : List Op) (h : (reach ops).dead = false) :
    (reach ops).backlog.length + sentCount init ops = (writesTrue init ops).length := by
  rw [← stream_exact ops h, ← handed_is_sum_of_sends]; simp; omega

/-- onWrite_iff_drained: a step delivers onWrite exactly when it takes a live client's backlog from
    non-empty to empty (and the client stays alive), and then delivers it once -/
theorem onWrite_iff_drained (ops : List Op) (op : Op) (s' : St) (out : Out)
    (hd : (reach ops).dead = false) (hst : step (reach ops) op = some (s', out)) :
    (Cb.onWrite ∈ out.cbs ↔ ((reach ops).backlog ≠ [] ∧ s'.backlog = [] ∧ s'.dead = false)) ∧
    out.cbs.count Cb.onWrite ≤ 1 :=
  step_onWrite (reach ops) op s' out (runOps_inv init ops inv_init) hd hst

/-- interest_inv: the poll registration of a live client is (read unless suspended) + (write iff backlog) -/
theorem interest_inv (ops : List Op) (h : (reach ops).dead = false) :
    (reach ops).interest = some (!(reach ops).suspended, !(reach ops).backlog.isEmpty) :=
  (runOps_inv init ops inv_init).interest h

/-- suspended_no_read: no step from a state with a suspended client delivers onRead -/
theorem suspended_no_read (ops : List Op) (op : Op) (s' : St) (out : Out)
    (hs : (reach ops).suspended = true) (hst : step (reach ops) op = some (s', out)) :
    Cb.onRead ∉ out.cbs :=
  step_no_read (reach ops) op s' out (runOps_inv init ops inv_init) hs hst

/-- the backlog drains: when the kernel reports the client writable and accepts everything, one poll
    round empties the backlog and delivers onWrite (unless a read event is dispatched first) -/
theorem ready_all_drains (ops : List Op) (h : (reach ops).dead = false) (hc : (reach ops).closing = false)
    (hb : (reach ops).backlog ≠ []) :
    ∃ s' out, step (reach ops) (.ready false true .all) = some (s', out) ∧ s'.backlog = [] ∧
      out.cbs = [Cb.onWrite] ∧ s'.handed = (reach ops).handed ++ (reach ops).backlog :=
  ready_drains (reach ops) (runOps_inv init ops inv_init) h hc hb

/-! ### re-entrant histories: writes (and suspend / resume / read) issued from inside onRead / onWrite -/

/-- the state after a history in which poll rounds carry the calls their onRead / onWrite callback makes -/
def reachR (ops : List OpR) : St := runR init ops

/-- a re-entrant history is the plain history of its calls in execution order -/
theorem reentrant_is_flat (ops : List OpR) : reachR ops = reach (flatten init ops) :=
  runR_eq_flatten init ops

/-- stream_exact with re-entrant writes: bytes handed to the OS ++ backlog = the data of ALL writes that returned true — those
    made at top level and those made inside onWrite / onRead — in the order in which the calls were made -/
theorem stream_exact_reentrant (ops : List OpR) (h : (reachR ops).dead = false) :
    (reachR ops).handed ++ (reachR ops).backlog = writesTrue init (flatten init ops) := by
  rw [reentrant_is_flat] at h ⊢
  exact stream_exact _ h

/-- the peer receives exactly that stream: nothing a callback wrote is lost, duplicated or reordered -/
theorem peer_stream_exact_reentrant (ops : List OpR) (h : (reachR ops).dead = false) :
    peerGot init (flatten init ops) ++ (reachR ops).wire ++ (reachR ops).backlog = writesTrue init (flatten init ops) := by
  rw [reentrant_is_flat] at h ⊢
  exact peer_stream_exact _ h

/-- a partial write made inside onWrite keeps its write interest (the shape of the seeded change C13-5): after ANY re-entrant
    history the registration is (read unless suspended) + (write iff backlog) -/
theorem interest_inv_reentrant (ops : List OpR) (h : (reachR ops).dead = false) :
    (reachR ops).interest = some (!(reachR ops).suspended, !(reachR ops).backlog.isEmpty) := by
  rw [reentrant_is_flat] at h ⊢
  exact interest_inv _ h

/-- non-vacuity: the backlog drains, onWrite writes 4 bytes of which the OS takes one: backlog and write interest are back -/
def exReent : List OpR :=
  [.plain (.write [1, 2, 3] (.cnt 1)), .readyCb false true .all [.write [4, 5, 6, 7] (.cnt 1)]]

example : (reachR exReent).backlog = [5, 6, 7] ∧ (reachR exReent).interest = some (true, true) ∧
    (reachR exReent).handed = [1, 2, 3, 4] ∧ writesTrue init (flatten init exReent) = [1, 2, 3, 4, 5, 6, 7] := by decide

/-! non-vacuity: concrete histories reach the situations the theorems talk about -/

def exOps : List Op :=
  [.write [1, 2, 3, 4, 5] (.cnt 2), .write [6, 7] .all, .ready false true .half, .peerread, .suspend]

example : (reach exOps).dead = false ∧ (reach exOps).backlog = [5, 6, 7] ∧ (reach exOps).suspended = true ∧
    writesTrue init exOps = [1, 2, 3, 4, 5, 6, 7] ∧ peerGot init exOps = [1, 2, 3, 4] ∧ sentCount init exOps = 4 := by
  decide

example : ∃ s' out, step (reach exOps) (.write [8] .wb) = some (s', out) ∧ out.res = .wrote true 4 := by
  refine ⟨_, _, rfl, ?_⟩; decide

example : ∃ s' out, step (reach exOps) (.ready true true .all) = some (s', out) ∧ Cb.onWrite ∈ out.cbs := by
  refine ⟨_, _, rfl, ?_⟩; decide

example : (reach [.write [1] .err, .write [2, 3] .wb, .ready true true .all]).dead = true := by decide

end Nstd.Server.C13
