import Nstd.Server.ModelC13
namespace Nstd.Server.C13
theorem placeholder13 : init.backlog = [] := rfl
end Nstd.Server.C13
