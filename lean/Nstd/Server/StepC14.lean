import Nstd.Server.ReachC14
/-
  C14 — what one step of run() does to the program counter, the `gone` set and the interrupt state,
  and which objects its callbacks go to.
-/
namespace Nstd.Server.C14
open Nstd.Server.C13 (Outcome SendRes sendOS)

/-- outcome of a dispatch / step with respect to returning from run() -/
def StepRel (s s' : St) (evs : List Ev) : Prop :=
  (∀ i, s.gone i = true → s'.gone i = true) ∧
  ((s.interrupted = true → 0 < s.eventfd + s.pendingEfd) → (s'.interrupted = true → 0 < s'.eventfd + s'.pendingEfd)) ∧
  (s'.pc = s.pc ∨ (s'.pc = .idle ∧ s.interrupted = true ∧ Ev.returned ∈ evs ∧ s'.interrupted = false)) ∧
  (s.interrupted = true → s'.interrupted = true ∨ s'.pc = .idle) ∧
  (Ev.returned ∈ evs → s'.pc = .idle)

theorem StepRel.ofRel {s s' : St} (evs : List Ev) (h : Rel s s') (hn : Ev.returned ∉ evs) : StepRel s s' evs :=
  ⟨h.2.1, h.2.2.1, Or.inl h.1, fun hi => Or.inl (h.2.2.2 hi), fun hr => absurd hr hn⟩

theorem writeReady_evs (s : St) (i : Id) (o : Outcome) :
    ∀ e, e ∈ (writeReady s i o).2 → e = .onClosed i ∨ e = .onWrite i := by
  unfold writeReady
  dsimp only
  repeat' split
  all_goals simp

theorem handOver_rel (s : St) (i nc : Id) (u : Bool) :
    Rel s (finishHandOver (callback (newClient s nc u) i (some nc)).1 nc (callback (newClient s nc u) i (some nc)).2) :=
  Rel.trans (newClient_rel s nc u) (Rel.trans (callback_rel _ _ _) (finishHandOver_rel _ _ _))

theorem dispatch_rel (s : St) (ev : Option (Id × Flags)) (o : Outcome) :
    StepRel s (dispatch s ev o).1 (dispatch s ev o).2 := by
  have hret : s.interrupted = true →
      StepRel s { s with interrupted := false, pc := .idle } [Ev.returned] := by
    intro hi
    exact ⟨fun _ h => h, fun _ h => by simp at h, Or.inr ⟨rfl, hi, by simp, rfl⟩, fun _ => Or.inr rfl, fun _ => rfl⟩
  have hfault : StepRel s { s with fault := true } [] :=
    StepRel.ofRel _ ⟨rfl, fun _ h => h, fun h => h, fun h => h⟩ (by simp)
  have hwr : ∀ i, Ev.returned ∉ (writeReady s i o).2 := by
    intro i hm
    rcases writeReady_evs s i o _ hm with h | h <;> simp at h
  unfold dispatch
  split
  · split
    · rename_i hi; exact hret hi
    · exact StepRel.ofRel _ (Rel.refl s) (by simp)
  · rename_i i fl
    split
    · split
      · rename_i hi; exact hret hi
      · exact StepRel.ofRel _ (Rel.refl s) (by simp)
    · split
      · split
        · split
          · exact StepRel.ofRel _ (callback_rel _ _ _) (by simp)
          · exact hfault
        · exact hfault
      · split
        · exact StepRel.ofRel _ (writeReady_rel s i o) (hwr i)
        · split
          · split
            · exact hfault
            · split
              · exact StepRel.ofRel _ (Rel.refl s) (by simp)
              · dsimp only
                exact StepRel.ofRel _ (Rel.trans (b := { s with listeners := _ })
                  ⟨rfl, fun _ h => h, fun h => h, fun h => h⟩ (handOver_rel _ _ _ _)) (by simp)
          · split
            · exact hfault
            · dsimp only
              split
              · exact StepRel.ofRel _ (Rel.trans (pollRemove_rel s i) (callback_rel _ _ _)) (by simp)
              · exact StepRel.ofRel _ (Rel.trans (pollRemove_rel s i) (Rel.trans (b := { (pollRemove s i) with ests := _ })
                  ⟨rfl, fun _ h => h, fun h => h, fun h => h⟩ (handOver_rel _ _ _ _))) (by simp)

/-- one step of run(): `gone` only grows, "interrupted ⇒ event descriptor signalled" is kept,
    run() is left only by consuming a pending interrupt, a pending interrupt is never lost -/
theorem step_rel (s : St) (inp : PollIn) (o : Outcome) :
    (∀ i, s.gone i = true → (step s inp o).1.gone i = true) ∧
    ((s.interrupted = true → 0 < s.eventfd + s.pendingEfd) → ((step s inp o).1.interrupted = true → 0 < (step s inp o).1.eventfd + (step s inp o).1.pendingEfd)) ∧
    ((step s inp o).1.pc = .idle → s.pc = .idle ∨
      (s.interrupted = true ∧ Ev.returned ∈ (step s inp o).2 ∧ (step s inp o).1.interrupted = false)) ∧
    (s.interrupted = true → (step s inp o).1.interrupted = true ∨ (step s inp o).1.pc = .idle) ∧
    (Ev.returned ∈ (step s inp o).2 → (step s inp o).1.pc = .idle) := by
  have frame : ∀ (r : St × List Ev), Rel s r.1 → s.pc ≠ .idle → Ev.returned ∉ r.2 →
      (∀ i, s.gone i = true → r.1.gone i = true) ∧
      ((s.interrupted = true → 0 < s.eventfd + s.pendingEfd) → (r.1.interrupted = true → 0 < r.1.eventfd + r.1.pendingEfd)) ∧
      (r.1.pc = .idle → s.pc = .idle ∨ (s.interrupted = true ∧ Ev.returned ∈ r.2 ∧ r.1.interrupted = false)) ∧
      (s.interrupted = true → r.1.interrupted = true ∨ r.1.pc = .idle) ∧ (Ev.returned ∈ r.2 → r.1.pc = .idle) := by
    intro r h hp hn
    exact ⟨h.2.1, h.2.2.1, fun hi => absurd (h.1 ▸ hi) hp, fun hi => Or.inl (h.2.2.2 hi), fun hr => absurd hr hn⟩
  -- the program counter moves to a non-idle value, nothing else changes
  have frame2 : ∀ (p : Pc) (r : St × List Ev), r = ({ s with pc := p }, []) → p ≠ .idle →
      (∀ i, s.gone i = true → r.1.gone i = true) ∧
      ((s.interrupted = true → 0 < s.eventfd + s.pendingEfd) → (r.1.interrupted = true → 0 < r.1.eventfd + r.1.pendingEfd)) ∧
      (r.1.pc = .idle → s.pc = .idle ∨ (s.interrupted = true ∧ Ev.returned ∈ r.2 ∧ r.1.interrupted = false)) ∧
      (s.interrupted = true → r.1.interrupted = true ∨ r.1.pc = .idle) ∧ (Ev.returned ∈ r.2 → r.1.pc = .idle) := by
    intro p r hr hp
    subst hr
    exact ⟨fun _ h => h, fun h => h, fun hi => absurd hi hp, fun hi => Or.inl hi, fun hr => by simp at hr⟩
  unfold step
  split
  · exact ⟨fun _ h => h, fun h => h, fun _ => Or.inl (by assumption), fun h => Or.inl h, fun h => by simp at h⟩
  · rename_i now hpc
    have hne : s.pc ≠ .idle := by rw [hpc]; simp
    split
    · exact frame (_, _) ⟨rfl, fun _ h => h, fun h => h, fun h => h⟩ hne (by simp)
    · split
      · split
        · split
          · exact frame (_, _) (Rel.trans (b := { s with queue := _, timers := _ }) ⟨rfl, fun _ h => h, fun h => h, fun h => h⟩
              (callback_rel _ _ _)) hne (by simp)
          · exact frame (_, _) ⟨rfl, fun _ h => h, fun h => h, fun h => h⟩ hne (by simp)
        · exact frame (_, _) ⟨rfl, fun _ h => h, fun h => h, fun h => h⟩ hne (by simp)
      · exact frame2 _ _ rfl (by simp)
  · rename_i now tmo hpc
    have hne : s.pc ≠ .idle := by rw [hpc]; simp
    split
    · split
      · exact frame (_, _) ⟨rfl, fun _ h => h, fun h => h, fun h => h⟩ hne (by simp)
      · exact frame2 _ _ rfl (by simp)
    · dsimp only
      split
      · split
        · exact frame (_, _) (Rel.trans (b := { s with closing := _ }) ⟨rfl, fun _ h => h, fun h => h, fun h => h⟩
            (callback_rel _ _ _)) hne (by simp)
        · exact frame (_, _) (Rel.trans (b := { s with closing := _ }) ⟨rfl, fun _ h => h, fun h => h, fun h => h⟩
            (deleteClient_rel _ _)) hne (by simp)
      · exact frame (_, _) ⟨rfl, fun _ h => h, fun h => h, fun h => h⟩ hne (by simp)
  · rename_i now tmo hpc
    have hps : (pollStep s inp).1.gone = s.gone ∧ (pollStep s inp).1.pc = s.pc ∧
        (pollStep s inp).1.interrupted = s.interrupted ∧
        ((pollStep s inp).1.eventfd = s.eventfd ∨ (pollStep s inp).2 = none) ∧
        (pollStep s inp).1.pendingEfd = s.pendingEfd := by
      unfold pollStep
      dsimp only
      repeat' split
      all_goals simp
    obtain ⟨g1, g2, g3, g4, g5⟩ := hps
    have hd := dispatch_rel (pollStep s inp).1 (pollStep s inp).2 o
    obtain ⟨d1, d2, d3, d4, d5⟩ := hd
    dsimp only
    generalize hs2 : dispatch (pollStep s inp).1 (pollStep s inp).2 o = r at *
    obtain ⟨s2, evs⟩ := r
    simp only at d1 d2 d3 d4 d5 ⊢
    have hI : (s.interrupted = true → 0 < s.eventfd + s.pendingEfd) → (s2.interrupted = true → 0 < s2.eventfd + s2.pendingEfd) := by
      intro hinv
      rcases g4 with g4 | g4
      · exact d2 (by rw [g3, g4, g5]; exact hinv)
      · -- the event descriptor was consumed: the event is `none`
        rw [g4] at hs2
        unfold dispatch at hs2
        dsimp only at hs2
        by_cases hi : (pollStep s inp).1.interrupted = true
        · simp only [hi, if_true] at hs2
          injection hs2 with h1 h2; subst h1
          intro h; simp at h
        · simp only [hi, Bool.false_eq_true, if_false] at hs2
          injection hs2 with h1 h2; subst h1
          intro h; exact absurd h hi
    have hpoll : (pollStep s inp).1.pc = Pc.poll now tmo := by rw [g2, hpc]
    by_cases hidle : s2.pc = .idle
    · rw [if_pos hidle]
      refine ⟨fun i h => d1 i (by rw [g1]; exact h), hI, fun _ => ?_, fun hi => Or.inr hidle, fun _ => hidle⟩
      rcases d3 with d3 | ⟨_, a, b, c⟩
      · rw [hpoll] at d3; rw [d3] at hidle; simp at hidle
      · exact Or.inr ⟨by rw [← g3]; exact a, b, c⟩
    · rw [if_neg hidle]
      refine ⟨fun i h => d1 i (by rw [g1]; exact h), hI, fun h => by simp at h, fun hi => ?_, fun hr => absurd (d5 hr) hidle⟩
      rcases d4 (by rw [g3]; exact hi) with h | h
      · exact Or.inl h
      · exact absurd h hidle

end Nstd.Server.C14
